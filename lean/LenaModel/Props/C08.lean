import LenaModel.Model.C08
import LenaModel.Lemmas.C08
import LenaModel.Lemmas.C08Fmt
import LenaModel.Lemmas.C08Str
import LenaModel.Lemmas.C08Json
import LenaModel.Lemmas.C08JsonV
/-! # C08 — property theorems (context addressing, formatting and update elements)

Vocabulary: `getPath v p` is the item a key path `p` names (`none`: absent, or a scalar on the way);
`WFPath p`: every key of the path is non-empty and has no dot (the property's key paths);
`EntriesWF d`: no key occurs twice in a dictionary, at any depth (every Python `dict`). -/
namespace Lena.C08

/-! ## 1. The three notations address the same item -/

theorem keysOfVal_nestPath : ∀ (p : List String) (v : Val),
    keysOfVal (nestPath p v) =
      match keysOfVal v with
      | .ok ks => .ok (p.map Leaf.str ++ ks)
      | .error e => .error e
  | [], v => by cases h : keysOfVal v <;> simp [nestPath, h]
  | k :: r, v => by
    rw [nestPath, keysOfVal, keysOfEntries, keysOfVal_nestPath r v]
    cases keysOfVal v <;> simp

theorem keysOfEntries_pathEntries (p : List String) (v : Val) :
    keysOfEntries (pathEntries p v) =
      match p with
      | [] => .ok []
      | _ :: _ =>
        match keysOfVal v with
        | .ok ks => .ok (p.map Leaf.str ++ ks)
        | .error e => .error e := by
  cases p with
  | nil => simp [pathEntries, keysOfEntries]
  | cons k r =>
    simp only [pathEntries]
    rw [keysOfEntries, keysOfVal_nestPath]
    cases keysOfVal v <;> simp

/-- **notations_agree** — "the three ways of naming a nested key (dotted string, list of keys,
one-key-per-level dictionary) address the same item": for every key path all notations normalise to
the same list of keys — the dotted string, the list, the dictionary that ends in `{}`, and (two keys
or more) the dictionary whose innermost value is the last key, as `str_to_dict("a.b.c")` builds it. -/
theorem notations_agree (p : List String) (h : WFPath p) :
    normKeys (.str (joinDots p)) = .ok (p.map Leaf.str) ∧
    normKeys (.list (p.map (fun k => Val.leaf (.str k)))) = .ok (p.map Leaf.str) ∧
    normKeys (.dict (pathEntries p (.dict []))) = .ok (p.map Leaf.str) ∧
    (∀ q last, p = q ++ [last] → q ≠ [] →
      normKeys (.dict (pathEntries q (.leaf (.str last)))) = .ok (p.map Leaf.str)) := by
  refine ⟨?_, ?_, ?_, ?_⟩
  · simp only [normKeys]
    by_cases hne : p = []
    · subst hne
      simp [joinDots_nil, splitDots, splitDotsC]
    · rw [splitDots_joinDots p hne (fun k hk => (h k hk).2)]
      congr 2
      exact List.filter_eq_self.2 (fun k hk => by simpa using (h k hk).1)
  · simp only [normKeys]
    have h1 : (p.map (fun k => Val.leaf (.str k))).all isStrVal = true := by
      simp [isStrVal]
    have h2 : ∀ p : List String, (p.map (fun k => Val.leaf (.str k))).filterMap leafOfVal = p.map Leaf.str := by
      intro p
      induction p with
      | nil => rfl
      | cons k r ih =>
        simp only [List.map_cons, List.filterMap_cons, leafOfVal]
        rw [ih]
    simp [h1, h2 p]
  · simp only [normKeys]
    rw [keysOfEntries_pathEntries]
    cases p <;> simp [keysOfVal, keysOfEntries]
  · intro q last hp hq
    simp only [normKeys]
    rw [keysOfEntries_pathEntries]
    have hl : last ≠ "" := (h last (by simp [hp])).1
    cases q with
    | nil => exact absurd rfl hq
    | cons k r => simp [keysOfVal, Leaf.truthy, hl, hp]

example : WFPath ["output", "latex", "name"] := by
  intro k hk; simp at hk; rcases hk with rfl | rfl | rfl <;> decide

/-- `get_recursively` in any notation returns the item the path names, the default when it is absent,
`LenaKeyError` when it is absent and no default was given — for every dictionary, every path, also one
that passes through a scalar -/
theorem get_eq_path (es : Entries) (k : KeyArg) (p : List String) (dflt : Option Val)
    (hk : normKeys k = .ok (p.map Leaf.str)) :
    getRec (.dict es) k dflt =
      match getPath (.dict es) p with
      | some v => .ok v
      | none =>
        match dflt with
        | some dv => .ok dv
        | none => .error .lenaKeyError := by
  simp only [getRec, hk, walk_eq_getPath]
  cases getPath (.dict es) p <;> rfl

/-- something that is not a dictionary is rejected with `LenaTypeError`, whatever the keys -/
theorem get_non_dict (a : Leaf) (k : KeyArg) (dflt : Option Val) :
    getRec (.leaf a) k dflt = .error .lenaTypeError := rfl

/-- keys of a wrong type, or a list with a key that is not a string: `LenaTypeError`; a dictionary with
two keys at its first level: `LenaValueError` -/
theorem get_bad_keys (es : Entries) (dflt : Option Val) :
    getRec (.dict es) .other dflt = .error .lenaTypeError ∧
    (∀ ks, ks.all isStrVal = false → getRec (.dict es) (.list ks) dflt = .error .lenaTypeError) ∧
    (∀ e1 e2 r, getRec (.dict es) (.dict (e1 :: e2 :: r)) dflt = .error .lenaValueError) := by
  refine ⟨rfl, ?_, ?_⟩
  · intro ks h; simp [getRec, normKeys, h]
  · intro e1 e2 r; simp [getRec, normKeys, keysOfEntries]

/-- **get_of_str_to_dict** — "`get_recursively(str_to_dict(s, v), s)` is `v`": for every non-empty key
path and every value, in every notation of the path -/
theorem get_of_str_to_dict (p : List String) (hne : p ≠ []) (h : WFPath p) (v : Val) (k : KeyArg)
    (hk : normKeys k = .ok (p.map Leaf.str)) (dflt : Option Val) :
    ∃ es, strToDict (joinDots p) (some v) = .ok (.dict es) ∧ getRec (.dict es) k dflt = .ok v := by
  obtain ⟨k0, r, rfl⟩ : ∃ k0 r, p = k0 :: r := by
    cases p with
    | nil => exact absurd rfl hne
    | cons a b => exact ⟨a, b, rfl⟩
  refine ⟨[(k0, nestPath r v)], ?_, ?_⟩
  · unfold strToDict
    rw [if_neg (joinDots_ne_empty _ hne h)]
    simp only
    rw [splitDots_joinDots _ hne (fun k hk => (h k hk).2), nestList_eq _ _ hne]
    rfl
  · rw [get_eq_path _ k _ dflt hk]
    have := getPath_nestPath (k0 :: r) v
    rw [nestPath] at this
    rw [this]

example : ∃ es, strToDict (joinDots ["a", "b"]) (some (.leaf (.int 5))) = .ok (.dict es) ∧
    getRec (.dict es) (.str "a.b") none = .ok (.leaf (.int 5)) :=
  ⟨[("a", .dict [("b", .leaf (.int 5))])], by decide, by decide⟩

/-- `str_to_dict` with the empty string and a value, or without a value and fewer than two parts, is a
`LenaValueError`; the empty string alone is the empty dictionary -/
theorem str_to_dict_errors (v : Val) (k : String) (hk : '.' ∉ k.toList) (hne : k ≠ "") :
    strToDict "" (some v) = .error .lenaValueError ∧
    strToDict "" none = .ok (.dict []) ∧
    strToDict k none = .error .lenaValueError := by
  refine ⟨rfl, rfl, ?_⟩
  unfold strToDict
  rw [if_neg hne]
  have : splitDots k = [k] := by
    have := splitDots_joinDots [k] (by simp) (by simpa using hk)
    simpa [joinDots, joinDotsC, String.ofList_toList] using this
  simp [this, nestList]

/-! ## 2. `contains` agrees with `get_recursively` -/

theorem containsGo_iff : ∀ (q : List String) (v : Val) (last : String),
    containsGo v (q ++ [last]) = true ↔
      (getPath v (q ++ [last])).isSome = true ∨
      ∃ x, getPath v q = some x ∧ x.isDict = false ∧ pyStrVal x = some last
  | [], .dict l, last => by
    simp [containsGo, getPath_singleton, Val.isDict]
  | [], .leaf a, last => by
    simp [containsGo, Val.isDict, pyStrVal]
  | [], .list xs, last => by
    simp [containsGo, Val.isDict, pyStrVal]
  | k :: r, .leaf a, last => by
    cases r <;> simp [containsGo]
  | k :: r, .list xs, last => by
    cases r <;> simp [containsGo]
  | k :: r, .dict l, last => by
    simp only [List.cons_append, getPath_dict_cons]
    cases h : lookup l k with
    | none => cases r <;> simp [containsGo, h, getPath_dict_cons]
    | some w =>
      have := containsGo_iff r w last
      cases r <;> simpa [containsGo, h, getPath_dict_cons] using this

/-- **contains_iff** — "`contains` agrees with `get_recursively`": for every dictionary and every key
path `q ++ [last]`, `contains` is true exactly when the path names an item, or when `q` names something
that is not a dictionary and whose string representation is `last` (the documented
`contains(d, "fit.coordinate.x")`; for an object whose `str()` raises the answer is False); a path that
passes through a scalar earlier gives `False`, never an exception (`contains` is total) -/
theorem contains_iff (d : Entries) (q : List String) (last : String) (h : WFPath (q ++ [last])) :
    contains d (joinDots (q ++ [last])) = true ↔
      (getPath (.dict d) (q ++ [last])).isSome = true ∨
      ∃ x, getPath (.dict d) q = some x ∧ x.isDict = false ∧ pyStrVal x = some last := by
  unfold contains
  rw [if_neg (joinDots_ne_empty _ (by simp) h), splitDots_joinDots _ (by simp) (fun k hk => (h k hk).2)]
  exact containsGo_iff q (.dict d) last

/-- the empty string names the context itself, for `contains` as for `get_recursively` -/
theorem contains_empty (d : Entries) : contains d "" = true ∧ getRec (.dict d) (.str "") none = .ok (.dict d) := by
  constructor
  · rfl
  · have := get_eq_path d (.str "") [] none (by simp [normKeys, splitDots, splitDotsC])
    simpa using this

example : contains [("fit", .dict [("coordinate", .leaf (.str "x"))])] "fit.coordinate.x" = true := by decide
example : contains [("a", .leaf (.int 5))] "a.b.c" = false := by decide

/-! ## 3. `UpdateContext` changes exactly the addressed item -/

/-- **update_sets, update_frame** — "UpdateContext changes exactly the addressed item – to the given
value, the rendered template or a copy of another context item – and leaves the data and every other
item untouched": whenever the update value `u` could be computed, the result is a `(data, context)`
pair with the same data; the item at the sub-context path is `u` (with `recursively` and two
dictionaries: `u` merged into the previous item, see `merge_keeps_siblings`); every item whose path is
not prefix-comparable with the sub-context path is what it was.  Also for a value without context. -/
theorem update_exact {δ : Type} (uc : UC) (v : Item δ) (u : Val) (hne : uc.subctx ≠ [])
    (h : ucCompute uc v.context = .ok (.update u)) :
    ∃ c', ucCall uc v = .ok (.pair v.data c') ∧
      getPath (.dict c') uc.subctx =
        some (if uc.recursively then updItem (getPath (.dict v.context) uc.subctx) u else u) ∧
      ∀ q, ¬ uc.subctx <+: q → ¬ q <+: uc.subctx → getPath (.dict c') q = getPath (.dict v.context) q := by
  refine ⟨ucSet uc.recursively v.context uc.subctx u, by simp [ucCall, h], ?_, ?_⟩
  · exact getPath_ucSet_same _ _ _ _ hne
  · intro q h1 h2
    exact getPath_ucSet_frame _ _ _ _ _ hne h1 h2

/-- a scalar update value overwrites whatever was there; a dictionary replaces an absent item; without
`recursively` the previous item is always replaced -/
theorem update_value_cases (cur : Option Val) (a : Leaf) (o : Entries) :
    updItem cur (.leaf a) = .leaf a ∧ updItem none (.dict o) = .dict o := by
  simp [updItem]

/-- with `recursively`, a dictionary merged into a dictionary keeps the siblings that are not
overwritten and overwrites the others -/
theorem merge_keeps_siblings (dk o : Entries) (ho : EntriesWF o) (k : String) :
    (lookup o k = none → getPath (updItem (some (.dict dk)) (.dict o)) [k] = lookup dk k) ∧
    (∀ a, lookup o k = some (.leaf a) → getPath (updItem (some (.dict dk)) (.dict o)) [k] = some (.leaf a)) := by
  simp only [updItem, getPath_singleton]
  constructor
  · intro h; rw [lookup_updRec o ho, h]
  · intro a h; rw [lookup_updRec o ho, h]; simp [updItem]

/-- the data of a value are never touched, whatever the outcome -/
theorem update_keeps_data {δ : Type} (uc : UC) (v v' : Item δ) (h : ucCall uc v = .ok v') : v'.data = v.data := by
  unfold ucCall at h
  split at h
  · simp at h
  · simp at h; subst h; rfl
  · simp at h; subst h; rfl

/-- what a successful construction keeps of its arguments -/
theorem ucInit_shape (a : UCArgs) (uc : UC) (h : ucInit a = .ok uc) :
    ∃ sc, a.subcontext = some sc ∧ sc ≠ "" ∧ uc.subctx = strToList sc ∧ uc.default = a.default ∧
      uc.skipOnMissing = a.skipOnMissing ∧ uc.recursively = a.recursively := by
  obtain ⟨sub, upd, value, dflt, skip, rais, rec⟩ := a
  cases sub with
  | none => simp [ucInit] at h
  | some sc =>
    by_cases hsc : sc = ""
    · subst hsc; simp [ucInit] at h
    · refine ⟨sc, rfl, hsc, ?_⟩
      simp only [ucInit, hsc, if_false] at h
      split at h
      · simp at h
      · cases upd with
        | simple v =>
          simp only at h
          split at h
          · simp at h
          · simp at h; subst h; simp
        | str u =>
          simp only at h
          split at h
          · simp at h; subst h; simp
          · split at h
            · simp at h
            · split at h
              · simp at h
              · split at h
                · split at h
                  · simp at h; subst h; simp
                  · simp at h
                  · simp at h; subst h; simp
                · split at h
                  · split at h
                    · simp at h; subst h; simp
                    · simp at h
                    · simp at h; subst h; simp
                  · simp at h; subst h; simp

/-- the sub-context of a constructed element is never empty, and it is the key path the string names -/
theorem ucInit_subctx (a : UCArgs) (uc : UC) (h : ucInit a = .ok uc) :
    uc.subctx ≠ [] ∧ ∀ p, WFPath p → a.subcontext = some (joinDots p) → uc.subctx = p := by
  obtain ⟨sc, hsc, hne, hs, -⟩ := ucInit_shape a uc h
  constructor
  · rw [hs]; unfold strToList; rw [if_neg hne]
    unfold splitDots
    have := splitDotsC_ne_nil sc.toList
    simpa using this
  · intro p hp e
    rw [hsc] at e
    injection e with e
    subst e
    rw [hs]; unfold strToList; rw [if_neg hne]
    apply splitDots_joinDots _ _ (fun k hk => (hp k hk).2)
    intro e; subst e; exact hne joinDots_nil

/-! ### the missing-key matrix -/

/-- **missing_key_matrix (context value)** — "a missing key is handled as configured (default, skip or
LenaKeyError)": for `UpdateContext(sub, "{{key.path}}", value=True, …)` the update value is the item
the path names; when it is absent it is the default if one was given, otherwise the value is returned
unchanged (`skip_on_missing`) or `LenaKeyError` is raised -/
theorem missing_key_matrix_value (uc : UC) (p : List String) (hp : WFPath p)
    (hu : uc.upd = .ctxValue (joinDots p)) (ctx : Entries) :
    ucCompute uc ctx =
      match getPath (.dict ctx) p with
      | some v => .ok (.update v)
      | none =>
        match uc.default with
        | some dv => .ok (.update dv)
        | none => if uc.skipOnMissing then .ok .skip else .error .lenaKeyError := by
  unfold ucCompute
  rw [hu]
  simp only
  cases hd : uc.default with
  | none =>
    simp only
    rw [get_eq_path ctx _ p none (notations_agree p hp).1]
    cases getPath (.dict ctx) p <;> simp
  | some dv =>
    simp only
    rw [get_eq_path ctx _ p (some dv) (notations_agree p hp).1]
    cases getPath (.dict ctx) p <;> simp

/-- at the level of the call: the key is missing and … -/
theorem missing_key_outcomes {δ : Type} (uc : UC) (p : List String) (hp : WFPath p)
    (hu : uc.upd = .ctxValue (joinDots p)) (v : Item δ) (habs : getPath (.dict v.context) p = none) :
    (∀ dv, uc.default = some dv →
      ucCall uc v = .ok (.pair v.data (ucSet uc.recursively v.context uc.subctx dv))) ∧
    (uc.default = none → uc.skipOnMissing = true → ucCall uc v = .ok v) ∧
    (uc.default = none → uc.skipOnMissing = false → ucCall uc v = .error .lenaKeyError) := by
  have hm := missing_key_matrix_value uc p hp hu v.context
  rw [habs] at hm
  refine ⟨?_, ?_, ?_⟩
  · intro dv hd; rw [hd] at hm; simp [ucCall, hm]
  · intro hd hs; rw [hd, hs] at hm; simp [ucCall, hm]
  · intro hd hs; rw [hd, hs] at hm; simp [ucCall, hm]

/-- the key is present: the item is copied to the sub-context whatever the options -/
theorem present_key_outcome {δ : Type} (uc : UC) (p : List String) (hp : WFPath p)
    (hu : uc.upd = .ctxValue (joinDots p)) (v : Item δ) (w : Val) (h : getPath (.dict v.context) p = some w) :
    ucCall uc v = .ok (.pair v.data (ucSet uc.recursively v.context uc.subctx w)) := by
  have hm := missing_key_matrix_value uc p hp hu v.context
  rw [h] at hm
  simp [ucCall, hm]

/-- every field that is present names an item whose `str()` the model transcribes: a scalar other than an
object with a failing `__str__`, or a container without strings that `repr` would escape -/
def StrFields (ctx : Entries) (ps : List Piece) : Prop :=
  ∀ p, Piece.field p ∈ ps → ∀ v, getPath (.dict ctx) p = some v → (pyStrVal v).isSome = true

theorem strFieldsB_iff (ctx : Entries) : ∀ ps : List Piece, strFieldsB ctx ps = true ↔ StrFields ctx ps
  | [] => by simp [strFieldsB, StrFields]
  | .lit s :: r => by
    rw [strFieldsB, strFieldsB_iff ctx r]
    simp [StrFields]
  | .field p :: r => by
    rw [strFieldsB, Bool.and_eq_true, strFieldsB_iff ctx r]
    simp only [StrFields, List.mem_cons, Piece.field.injEq]
    constructor
    · rintro ⟨h1, h2⟩ q hq v hv
      rcases hq with rfl | hq
      · rw [hv] at h1; exact h1
      · exact h2 q hq v hv
    · intro h
      refine ⟨?_, fun q hq v hv => h q (Or.inr hq) v hv⟩
      cases hg : getPath (.dict ctx) p with
      | none => rfl
      | some v => exact h p (Or.inl rfl) v hg

/-- in particular: every present field names a scalar of the basic types -/
theorem strFields_of_leaf (ctx : Entries) (ps : List Piece)
    (h : ∀ p, Piece.field p ∈ ps → ∀ v, getPath (.dict ctx) p = some v → ∃ a, v = .leaf a ∧ (pyStr a).isSome = true) :
    StrFields ctx ps := by
  intro p hp v hv
  obtain ⟨a, rfl, ha⟩ := h p hp v hv
  exact ha

theorem renderPieces_spec (strict : Bool) (ctx : Entries) : ∀ (ps : List Piece), StrFields ctx ps →
    renderPieces strict ctx ps =
      .ok (if strict && !fieldsPresent ctx ps then none else some (renderSpec ctx ps))
  | [], _ => by simp [renderPieces, fieldsPresent, renderSpec]
  | .lit s :: r, h => by
    have ih := renderPieces_spec strict ctx r (fun p hp => h p (by simp [hp]))
    rw [renderPieces, ih]
    simp only [fieldsPresent, renderSpec]
    split <;> simp_all
  | .field p :: r, h => by
    have ih := renderPieces_spec strict ctx r (fun p hp => h p (by simp [hp]))
    rw [renderPieces]
    cases hg : getPath (.dict ctx) p with
    | none =>
      simp only [fieldsPresent, renderSpec, hg]
      cases strict
      · simp [ih]
      · simp
    | some w =>
      obtain ⟨t, ht⟩ := Option.isSome_iff_exists.1 (h p (by simp) w hg)
      simp only [strOfVal, ht, fieldsPresent, renderSpec, strSpec, hg, ih, Option.getD_some]
      split <;> simp_all

/-- **missing_key_matrix (formatting string)** — for a template of literals and `{{key.path}}` fields the
update value is the rendered string; a missing field is the empty string by default, and with
`skip_on_missing` / `raise_on_missing` (strict templates) the value is returned unchanged /
`LenaKeyError` is raised -/
theorem missing_key_matrix_template (uc : UC) (ps : List Piece) (strict : Bool)
    (hu : uc.upd = .template ps strict) (ctx : Entries) (hl : StrFields ctx ps) :
    ucCompute uc ctx =
      if strict && !fieldsPresent ctx ps then
        (if uc.raiseOnMissing then .error .lenaKeyError else .ok .skip)
      else .ok (.update (.leaf (.str (renderSpec ctx ps)))) := by
  unfold ucCompute
  rw [hu]
  simp only [renderPieces_spec strict ctx ps hl]
  split <;> simp_all

/-- a plain value or a string without braces is used as it is, whatever the context -/
theorem simple_update_outcome (uc : UC) (ctx : Entries) :
    (∀ v, uc.upd = .simple v → ucCompute uc ctx = .ok (.update v)) ∧
    (∀ s, uc.upd = .plain s → ucCompute uc ctx = .ok (.update (.leaf (.str s)))) := by
  constructor <;> intro x h <;> simp [ucCompute, h]

/-! ### construction: every ill-formed combination is rejected -/

/-- does the construction consult jinja2, and does jinja2 reject the template -/
def jinjaRejects (a : UCArgs) (u : String) : Prop :=
  (a.raiseOnMissing = true ∨ a.skipOnMissing = true ∨ '{' ∈ u.toList) ∧ jinjaParse u = .syntaxError

/-- the documented ill-formed argument combinations of `UpdateContext` -/
def IllFormed (a : UCArgs) : Prop :=
  a.subcontext = none ∨ a.subcontext = some "" ∨ nActive a > 1 ∨
  (∃ v, a.update = .simple v ∧ nActive a ≠ 0) ∨
  (∃ u, a.update = .str u ∧ a.value = true ∧ matchValueTemplate u.toList = false) ∨
  (∃ u, a.update = .str u ∧ a.value = false ∧ a.default.isSome = true) ∨
  (∃ u, a.update = .str u ∧ a.value = false ∧ jinjaRejects a u)

/-- **missing_key_matrix (construction)** — "a malformed argument [is handled] by
LenaTypeError/LenaValueError, never by another exception": construction fails exactly for the ill-formed
combinations, with `LenaTypeError` exactly when the sub-context is not a string and `LenaValueError`
otherwise -/
theorem init_matrix (a : UCArgs) :
    ((∃ uc, ucInit a = .ok uc) ↔ ¬ IllFormed a) ∧
    (∀ e, ucInit a = .error e → (e = .lenaTypeError ↔ a.subcontext = none) ∧
                                  (e = .lenaValueError ↔ a.subcontext ≠ none)) := by
  obtain ⟨sub, upd, value, dflt, skip, rais, rec⟩ := a
  cases sub with
  | none => simp [ucInit, IllFormed]
  | some sc =>
    by_cases hsc : sc = ""
    · subst hsc; simp [ucInit, IllFormed]
    · cases upd with
      | simple v =>
        cases dflt <;> cases skip <;> cases rais <;>
          simp [ucInit, IllFormed, nActive, hsc, jinjaRejects]
      | str u =>
        cases hm : matchValueTemplate u.toList <;> cases hj : jinjaParse u <;>
        by_cases hb : '{' ∈ u.toList <;>
        cases dflt <;> cases skip <;> cases rais <;> cases value <;>
          simp [ucInit, IllFormed, nActive, hsc, jinjaRejects, hm, hj, hb]

example : ¬ IllFormed (UCArgs.mk (some "output.plot") (.simple (.dict [("scatter", .leaf (.bool true))])) false none
    false false true) := by
  simp [IllFormed, nActive]
example : IllFormed (UCArgs.mk (some "a") (.str "{{x}}") true (some (.leaf .none)) true false true) := by
  simp [IllFormed, nActive]

/-! ## 4. `DeleteContext` -/

/-- the string and the list/tuple notation of a key name the same path; the empty string is the empty
path; a key of any other type is rejected with `LenaTypeError` (/verif/notes/C08_defect_1), and so is a
list/tuple with a member that is not a string (/verif/notes/C08_defect_3) -/
theorem delete_notations (p : List String) (hp : WFPath p) :
    dcInit (.str (joinDots p)) = .ok p ∧ dcInit (.list (p.map (fun k => .leaf (.str k)))) = .ok p ∧
    dcInit .other = .error .lenaTypeError ∧
    (∀ ks : List Val, ks.all isStrVal = false → dcInit (.list ks) = .error .lenaTypeError) := by
  refine ⟨?_, ?_, rfl, ?_⟩
  · simp only [dcInit, strToListE, strToList]
    congr 1
    by_cases hne : p = []
    · subst hne; simp [joinDots_nil]
    · rw [if_neg (joinDots_ne_empty p hne hp)]
      exact splitDots_joinDots p hne (fun k hk => (hp k hk).2)
  · have h1 : (p.map (fun k => Val.leaf (.str k))).all isStrVal = true := by simp [isStrVal]
    have h2 : ∀ p : List String, (p.map (fun k => Val.leaf (.str k))).filterMap strOfStrVal = p := by
      intro p
      induction p with
      | nil => rfl
      | cons k r ih => simp only [List.map_cons, List.filterMap_cons, strOfStrVal]; rw [ih]
    simp [dcInit, h1, h2 p]
  · intro ks h; simp [dcInit, h]

example : dcInit (.list [.leaf (.str "a"), .list [.leaf (.str "b")]]) = .error .lenaTypeError := by decide

/-- **delete_exact** — "DeleteContext changes exactly the addressed item and leaves the data and every
other item untouched": for a non-empty key path the result is the same data with a context in which
the path names nothing, and every item whose path is not prefix-comparable with it is what it was; a
value without context is returned as it is; the empty key clears the context -/
theorem delete_exact {δ : Type} (p : List String) (x : δ) (ctx : Entries) (hw : EntriesWF ctx) (hne : p ≠ []) :
    ∃ c', dcCall p (.pair x ctx) = .pair x c' ∧
      getPath (.dict c') p = none ∧
      ∀ q, ¬ p <+: q → ¬ q <+: p → getPath (.dict c') q = getPath (.dict ctx) q := by
  refine ⟨delPath ctx p, by simp [dcCall, hne], getPath_delPath_same p ctx hne hw, ?_⟩
  intro q h1 h2
  exact getPath_delPath_frame p ctx q hne h1 h2

theorem delete_bare_and_empty {δ : Type} (p : List String) (x : δ) (ctx : Entries) :
    dcCall p (Item.bare x) = .bare x ∧ dcCall [] (Item.pair x ctx) = .pair x [] := by
  simp [dcCall]

theorem setKey_lookup_self : ∀ (d : Entries) (k : String) (w : Val), lookup d k = some w → setKey d k w = d
  | [], _, _, h => by simp at h
  | (k', w') :: r, k, w, h => by
    rw [lookup_cons] at h
    by_cases hk : k' = k
    · simp [hk] at h; subst h; simp [setKey, hk]
    · simp [hk] at h; simp [setKey, hk, setKey_lookup_self r k w h]

theorem eraseKey_absent : ∀ (d : Entries) (k : String), lookup d k = none → eraseKey d k = d
  | [], _, _ => rfl
  | (k', w') :: r, k, h => by
    rw [lookup_cons] at h
    by_cases hk : k' = k
    · simp [hk] at h
    · simp [hk] at h; simp [eraseKey, hk, eraseKey_absent r k h]

/-- "if the value contains no such key, it is ignored": deleting an absent item (also below a scalar)
changes nothing at all -/
theorem delete_absent_noop : ∀ (p : List String) (ctx : Entries), p ≠ [] → getPath (.dict ctx) p = none →
    delPath ctx p = ctx
  | [], _, h, _ => absurd rfl h
  | [k], ctx, _, h => by
    rw [getPath_singleton] at h
    simp [delPath, eraseKey_absent ctx k h]
  | k :: k' :: r, ctx, _, h => by
    rw [delPath_cons2]
    rw [getPath_dict_cons] at h
    cases hl : lookup ctx k with
    | none => rfl
    | some w =>
      cases w with
      | leaf a => rfl
      | list xs => rfl
      | dict e =>
        simp only
        rw [hl] at h
        simp only [Option.bind_some] at h
        rw [delete_absent_noop (k' :: r) e (by simp) h]
        exact setKey_lookup_self ctx k _ hl

example : delPath [("a", .dict [("b", .leaf (.int 7)), ("c", .leaf (.int 1))])] ["a", "b"] =
    [("a", .dict [("c", .leaf (.int 1))])] := by decide
example : delPath [("a", .leaf (.int 5))] ["a", "b"] = [("a", .leaf (.int 5))] := by decide

/-! ## 5. `format_update_with` / `update_recursively` -/

/-- a value that `format_update_with` does not format: anything but a string with a brace -/
def NotTemplate (v : Val) : Prop := ∀ s, v = .leaf (.str s) → s.toList.contains '{' = false

theorem notTemplateB_iff (v : Val) : notTemplateB v = true ↔ NotTemplate v := by
  unfold NotTemplate
  cases v with
  | dict o => simp [notTemplateB]
  | list xs => simp [notTemplateB]
  | leaf a => cases a <;> simp [notTemplateB]

/-- the last two statements of `format_update_with`: `update_recursively(d, str_to_dict(key, vf))` is the
recursive assignment of `vf` to the key path -/
theorem fuw_tail (p : List String) (hne : p ≠ []) (hp : WFPath p) (vf : Val) (d : Entries) :
    assignFormatted (some (joinDots p)) vf (.dict d) = .ok (.dict (ucSet true d p vf)) := by
  obtain ⟨k0, r, rfl⟩ : ∃ k0 r, p = k0 :: r := by
    cases p with
    | nil => exact absurd rfl hne
    | cons a b => exact ⟨a, b, rfl⟩
  unfold assignFormatted strToDictE strToDict
  simp only
  rw [if_neg (joinDots_ne_empty _ hne hp)]
  rw [splitDots_joinDots _ hne (fun k hk => (hp k hk).2), nestList_eq _ _ hne]
  simp only [updateRecursively, nestPath, Option.isSome_none, Bool.false_eq_true, if_false]
  rw [updRec_nestPath]

theorem formatValue_plain (v d : Val) (hv : NotTemplate v) : formatValue v d = .ok v := by
  unfold formatValue
  cases v with
  | dict o => rfl
  | list xs => rfl
  | leaf a =>
    cases a with
    | str s => simp only [hv s rfl]; rfl
    | none => rfl
    | bool b => rfl
    | int i => rfl
    | float r => rfl
    | obj o => rfl

/-- **format_update_with (plain value)** — `format_update_with(key, value, d)` with a value that is not a
template is the recursive assignment of `value` to the key path; hence (`getPath_ucSet_same`,
`getPath_ucSet_frame`) afterwards the path names `value` (merged, for two dictionaries) and every item
not prefix-comparable with the path is unchanged -/
theorem fuw_plain (p : List String) (hne : p ≠ []) (hp : WFPath p) (v : Val) (hv : NotTemplate v) (d : Entries) :
    formatUpdateWith (some (joinDots p)) v (.dict d) = .ok (.dict (ucSet true d p v)) := by
  unfold formatUpdateWith
  rw [formatValue_plain v _ hv]
  exact fuw_tail p hne hp v d

/-- **format_update_with (template)** — with a template value the rendered string is assigned; when a
field is missing (`LenaKeyError`) or the template is malformed the exception leaves and nothing is
assigned -/
theorem fuw_template (p : List String) (hne : p ≠ []) (hp : WFPath p) (s : String)
    (hs : s.toList.contains '{' = true) (d : Entries) :
    (∀ fc r, formatInit (some s) = .ok fc → formatCall fc (.dict d) = .ok r →
      formatUpdateWith (some (joinDots p)) (.leaf (.str s)) (.dict d) = .ok (.dict (ucSet true d p (.leaf (.str r))))) ∧
    (∀ fc e, formatInit (some s) = .ok fc → formatCall fc (.dict d) = .error e →
      formatUpdateWith (some (joinDots p)) (.leaf (.str s)) (.dict d) = .error e) ∧
    (∀ e, formatInit (some s) = .error e →
      formatUpdateWith (some (joinDots p)) (.leaf (.str s)) (.dict d) = .error e) := by
  refine ⟨?_, ?_, ?_⟩
  · intro fc r hi hr
    unfold formatUpdateWith formatValue
    simp only [hs, hi, hr, if_true]
    exact fuw_tail p hne hp _ d
  · intro fc e hi he
    unfold formatUpdateWith formatValue
    simp only [hs, hi, he, if_true]
  · intro e hi
    unfold formatUpdateWith formatValue
    simp only [hs, hi, if_true]

/-- "a malformed argument [is handled] by LenaTypeError/LenaValueError": the empty key is rejected with
`LenaValueError`, a key that is not a string with `LenaTypeError` (/verif/notes/C08_defect_1), something
that is not a dictionary with `LenaTypeError` -/
theorem fuw_errors (v : Val) (hv : NotTemplate v) (d : Val) (p : List String) (hne : p ≠ []) (hp : WFPath p) (a : Leaf) :
    formatUpdateWith (some "") v d = .error .lenaValueError ∧
    formatUpdateWith none v d = .error .lenaTypeError ∧
    formatUpdateWith (some (joinDots p)) v (.leaf a) = .error .lenaTypeError := by
  refine ⟨?_, ?_, ?_⟩
  · unfold formatUpdateWith
    rw [formatValue_plain v _ hv]
    rfl
  · unfold formatUpdateWith
    rw [formatValue_plain v _ hv]
    rfl
  · unfold formatUpdateWith
    rw [formatValue_plain v _ hv]
    obtain ⟨k0, r, rfl⟩ : ∃ k0 r, p = k0 :: r := by
      cases p with
      | nil => exact absurd rfl hne
      | cons a b => exact ⟨a, b, rfl⟩
    simp only
    unfold assignFormatted strToDictE strToDict
    simp only
    rw [if_neg (joinDots_ne_empty _ hne hp)]
    rw [splitDots_joinDots _ hne (fun k hk => (hp k hk).2), nestList_eq _ _ hne]
    simp [updateRecursively, nestPath]

/-! ## 6. `format_context` renders exactly the addressed items -/

/-- "template strings built from literals and fields": a literal has no brace, a field is a key path
whose keys have none of the characters `{ } ! :` -/
def Piece.WF : Piece → Prop
  | .lit s => ∀ c ∈ s.toList, c ≠ '{' ∧ c ≠ '}'
  | .field p => WFPath p ∧ ∀ k ∈ p, ∀ c ∈ k.toList, c ≠ '{' ∧ isTerm c = false

theorem mem_joinDotsC : ∀ (ws : List (List Char)) (c : Char), c ∈ joinDotsC ws → c = '.' ∨ ∃ w ∈ ws, c ∈ w
  | [], c, h => by simp [joinDotsC] at h
  | [w], c, h => by simp only [joinDotsC] at h; exact Or.inr ⟨w, by simp, h⟩
  | w :: w' :: ws, c, h => by
    simp only [joinDotsC, List.mem_append, List.mem_cons] at h
    rcases h with h | h | h
    · exact Or.inr ⟨w, by simp, h⟩
    · exact Or.inl h
    · rcases mem_joinDotsC (w' :: ws) c h with h | ⟨x, hx, hc⟩
      · exact Or.inl h
      · exact Or.inr ⟨x, by simp at hx ⊢; exact Or.inr hx, hc⟩

theorem toTP_ok (p : Piece) (h : p.WF) : p.toTP.Ok := by
  cases p with
  | lit s => exact h
  | field q =>
    intro c hc
    simp only [joinDots, String.toList_ofList] at hc
    rcases mem_joinDotsC _ c hc with rfl | ⟨w, hw, hcw⟩
    · decide
    · simp only [List.mem_map] at hw
      obtain ⟨k, hk, rfl⟩ := hw
      exact h.2 k hk c hcw

/-- the strings that `str()` gives for the fields -/
def fieldStrs (ctx : Entries) : List Piece → List String
  | [] => []
  | .lit _ :: r => fieldStrs ctx r
  | .field p :: r =>
    (match getPath (.dict ctx) p with
     | some v => strSpec v
     | none => "") :: fieldStrs ctx r

/-- the items the fields name -/
def fieldVals (ctx : Entries) : List Piece → List Val
  | [] => []
  | .lit _ :: r => fieldVals ctx r
  | .field p :: r => ((getPath (.dict ctx) p).getD (.leaf .none)) :: fieldVals ctx r

theorem lookupArgs_fields (ctx : Entries) : ∀ (ps : List Piece), (∀ p ∈ ps, p.WF) →
    lookupArgs (.dict ctx) (namesOf (ps.map Piece.toTP)) =
      if fieldsPresent ctx ps = true then .ok (fieldVals ctx ps) else .error .lenaKeyError
  | [], _ => by simp [namesOf, lookupArgs, fieldsPresent, fieldVals]
  | .lit s :: r, h => by
    have ih := lookupArgs_fields ctx r (fun p hp => h p (by simp [hp]))
    simp only [List.map_cons, Piece.toTP, namesOf, fieldsPresent, fieldVals]
    exact ih
  | .field q :: r, h => by
    have ih := lookupArgs_fields ctx r (fun p hp => h p (by simp [hp]))
    have hq : (Piece.field q).WF := h _ (by simp)
    simp only [List.map_cons, Piece.toTP, namesOf, String.ofList_toList, lookupArgs]
    rw [get_eq_path ctx _ q none (notations_agree q hq.1).1]
    cases hg : getPath (.dict ctx) q with
    | none => simp [fieldsPresent, hg]
    | some w =>
      cases hfp : fieldsPresent ctx r with
      | false =>
        rw [hfp] at ih
        simp only [Bool.false_eq_true, if_false] at ih
        simp [ih, fieldsPresent, hfp]
      | true =>
        rw [hfp] at ih
        simp only [if_true] at ih
        simp [ih, fieldsPresent, hfp, hg, fieldVals]

theorem strOfVals_fields (ctx : Entries) : ∀ (ps : List Piece), fieldsPresent ctx ps = true → StrFields ctx ps →
    strOfVals (fieldVals ctx ps) = .ok (fieldStrs ctx ps)
  | [], _, _ => rfl
  | .lit s :: r, hp, hl => by
    simpa [fieldVals, fieldStrs] using strOfVals_fields ctx r (by simpa [fieldsPresent] using hp)
      (fun p hp => hl p (by simp [hp]))
  | .field q :: r, hp, hl => by
    simp only [fieldsPresent, Bool.and_eq_true] at hp
    have ih := strOfVals_fields ctx r hp.2 (fun p hp => hl p (by simp [hp]))
    obtain ⟨w, hw⟩ := Option.isSome_iff_exists.1 hp.1
    obtain ⟨t, ht⟩ := Option.isSome_iff_exists.1 (hl q (by simp) w hw)
    simp [fieldVals, fieldStrs, hw, strOfVals, strOfVal, strSpec, ht, ih]

theorem pyFormat_fields (ctx : Entries) : ∀ (ps : List Piece), (∀ p ∈ ps, p.WF) →
    pyFormat (fstrOf (ps.map Piece.toTP)) (fieldStrs ctx ps) = .ok (renderSpec ctx ps).toList
  | [], _ => by simp [fstrOf, pyFormat, renderSpec]
  | .lit s :: r, h => by
    have ih := pyFormat_fields ctx r (fun p hp => h p (by simp [hp]))
    simp only [List.map_cons, Piece.toTP, fstrOf, fieldStrs, renderSpec, String.toList_append]
    exact pyFormat_free _ _ _ _ (h (.lit s) (by simp)) ih
  | .field q :: r, h => by
    have ih := pyFormat_fields ctx r (fun p hp => h p (by simp [hp]))
    simp only [List.map_cons, Piece.toTP, fstrOf, fieldStrs, renderSpec, String.toList_append]
    exact pyFormat_field _ _ _ _ ih

/-- **format_exact** — "format_context renders exactly the addressed items and raises LenaKeyError when
one is absent": for every template built from brace-free literals and any number of `{{key.path}}`
fields the construction succeeds, and for every context the call raises `LenaKeyError` if (and only if:
the other outcome is a value) some field names no item, and otherwise returns the literals
interleaved with `str(item)` of the fields (`StrFields`: for items whose `str()` the model transcribes —
scalars, and dictionaries and lists rendered by `repr` in insertion order) -/
theorem format_exact (ps : List Piece) (hw : ∀ p ∈ ps, p.WF) :
    ∃ f, formatInit (some (templateString ps)) = .ok f ∧
      ∀ ctx : Entries,
        (fieldsPresent ctx ps = false → formatCall f (.dict ctx) = .error .lenaKeyError) ∧
        (fieldsPresent ctx ps = true → StrFields ctx ps → formatCall f (.dict ctx) = .ok (renderSpec ctx ps)) := by
  have hok : ∀ p ∈ ps.map Piece.toTP, p.Ok := by
    intro p hp
    simp only [List.mem_map] at hp
    obtain ⟨q, hq, rfl⟩ := hp
    exact toTP_ok q (hw q hq)
  refine ⟨_, formatInit_render0 _ hok, ?_⟩
  intro ctx
  constructor
  · intro hp
    simp [formatCall, lookupArgs_fields ctx ps hw, hp]
  · intro hp hl
    simp only [formatCall, lookupArgs_fields ctx ps hw, hp, if_true, strOfVals_fields ctx ps hp hl,
      pyFormat_fields ctx ps hw, String.ofList_toList]

example : (Piece.field ["x", "y"]).WF := by
  refine ⟨?_, ?_⟩
  · intro k hk; simp at hk; rcases hk with rfl | rfl <;> decide
  · intro k hk; simp at hk; rcases hk with rfl | rfl <;> decide

example : templateString [.field ["x", "y"], .lit "_", .field ["z"]] = "{{x.y}}_{{z}}" := by decide

/-- **format_init_total** — `format_context` itself never raises anything but `LenaValueError` for a
string (commit 5478e2e: the scanner cannot run past the end) and `LenaTypeError` for a non-string -/
theorem format_init_total (s : Option String) :
    (∃ f, formatInit s = .ok f) ∨ formatInit s = .error .lenaValueError ∨
      (s = none ∧ formatInit s = .error .lenaTypeError) := by
  cases s with
  | none => exact Or.inr (Or.inr ⟨rfl, rfl⟩)
  | some s =>
    rcases formatInit_total s with h | h
    · exact Or.inl h
    · exact Or.inr (Or.inl h)

example : formatInit (some "}}{{") = .error .lenaValueError := by decide

/-! ## 7. `to_string` is canonical -/

/-- **to_string_perm** — "equal dictionaries give equal strings whatever their key order": dictionaries
that are equal in the sense of Python (`DictEq`: the same keys with equal values, at every depth,
in any insertion order) have the same token sequence -/
theorem to_string_perm (a b : Val) (wa : a.WF) (wb : b.WF) (h : DictEq a b) : toTokens a = toTokens b := by
  rw [toTokens_eq_raw, toTokens_eq_raw, canon_eq_of_dictEq a b h wa wb]

/-- **to_string_inj** — "different ones give different strings": dictionaries with the same token
sequence are equal (the brace/comma/colon structure is unambiguous; that `json.dumps` spells different
keys and scalars differently is assumed, see `Tok`) -/
theorem to_string_inj_tokens_partial (a b : Val) (h : toTokens a = toTokens b) : DictEq a b := by
  rw [toTokens_eq_raw, toTokens_eq_raw] at h
  exact dictEq_of_canon_eq a b (rawTokens_injective _ _ h)

/-- `to_string` is canonical: same string exactly for equal dictionaries -/
theorem to_string_canonical (a b : Val) (wa : a.WF) (wb : b.WF) : toTokens a = toTokens b ↔ DictEq a b :=
  ⟨to_string_inj_tokens_partial a b, to_string_perm a b wa wb⟩


theorem lookup_eq_none_iff : ∀ (l : Entries) (k : String), lookup l k = none ↔ ∀ e ∈ l, e.1 ≠ k
  | [], k => by simp
  | (k0, v0) :: r, k => by
    rw [lookup_cons]
    by_cases h : k0 = k
    · simp [h]
    · simp [h, lookup_eq_none_iff r k]

theorem entriesWF_iff : ∀ l : Entries, EntriesWF l ↔ l.Pairwise (fun a b => a.1 ≠ b.1) ∧ ∀ e ∈ l, e.2.WF
  | [] => by simp [EntriesWF]
  | (k, v) :: r => by
    simp only [EntriesWF, List.pairwise_cons, List.mem_cons, forall_eq_or_imp, lookup_eq_none_iff, entriesWF_iff r]
    constructor
    · rintro ⟨h1, h2, h3, h4⟩
      exact ⟨⟨fun e he => Ne.symm (h1 e he), h3⟩, h2, h4⟩
    · rintro ⟨⟨h1, h3⟩, h2, h4⟩
      exact ⟨fun e he => Ne.symm (h1 e he), h2, h3, h4⟩

theorem lookup_perm {l1 l2 : Entries} (h : l1.Perm l2) : l1.Pairwise (fun a b => a.1 ≠ b.1) →
    ∀ k, lookup l1 k = lookup l2 k := by
  induction h with
  | nil => intro _ _; rfl
  | cons x _ ih =>
    intro hp k
    obtain ⟨k0, v0⟩ := x
    simp only [lookup_cons]
    rw [ih (List.pairwise_cons.1 hp).2 k]
  | swap x y l =>
    intro hp k
    obtain ⟨kx, vx⟩ := x
    obtain ⟨ky, vy⟩ := y
    have hne : ky ≠ kx := by
      have := (List.pairwise_cons.1 hp).1 (kx, vx) (by simp)
      exact this
    simp only [lookup_cons]
    by_cases h1 : ky = k
    · have : kx ≠ k := fun e => hne (by rw [h1, e])
      simp [h1, this]
    · simp [h1]
  | trans h1 _ ih1 ih2 =>
    intro hp k
    have hp2 := (h1.pairwise_iff (fun {a b} (hab : a.1 ≠ b.1) => Ne.symm hab)).1 hp
    rw [ih1 hp k, ih2 hp2 k]

theorem dictEq_dict_iff (ea eb : Entries) : DictEq (.dict ea) (.dict eb) ↔
    (∀ k, (lookup ea k).isSome = (lookup eb k).isSome) ∧
    (∀ k v w, lookup ea k = some v → lookup eb k = some w → DictEq v w) := by
  constructor
  · intro h; cases h with | dict _ _ h1 h2 => exact ⟨h1, h2⟩
  · intro h; exact .dict ea eb h.1 h.2

theorem dictEq_list_iff (xa xb : List Val) : DictEq (.list xa) (.list xb) ↔
    xa.length = xb.length ∧ (∀ (i : Nat) v w, xa[i]? = some v → xb[i]? = some w → DictEq v w) := by
  constructor
  · intro h; cases h with | list _ _ h1 h2 => exact ⟨h1, h2⟩
  · intro h; exact .list xa xb h.1 h.2

mutual
/-- `DictEq` is Python's (type-strict) `==`: the executable comparison `pyEq`, which the correspondence
check compares with the equality of the real Python values, decides it -/
theorem pyEq_iff : ∀ (a b : Val), a.WF → (pyEq a b = true ↔ DictEq a b)
  | .leaf x, .leaf y, _ => by
    simp only [pyEq, beq_iff_eq]
    constructor
    · intro h; rw [h]; exact .leaf y
    · intro h; cases h; rfl
  | .leaf x, .dict eb, _ => by
    simp only [pyEq, Bool.false_eq_true, false_iff]; intro h; cases h
  | .leaf x, .list xb, _ => by
    simp only [pyEq, Bool.false_eq_true, false_iff]; intro h; cases h
  | .dict ea, .leaf y, _ => by
    simp only [pyEq, Bool.false_eq_true, false_iff]; intro h; cases h
  | .dict ea, .list xb, _ => by
    simp only [pyEq, Bool.false_eq_true, false_iff]; intro h; cases h
  | .list xa, .leaf y, _ => by
    simp only [pyEq, Bool.false_eq_true, false_iff]; intro h; cases h
  | .list xa, .dict eb, _ => by
    simp only [pyEq, Bool.false_eq_true, false_iff]; intro h; cases h
  | .list xa, .list xb, wa => by
    simp only [Val.WF] at wa
    rw [dictEq_list_iff]
    simp only [pyEq]
    exact listEq_iff xa xb wa
  | .dict ea, .dict eb, wa => by
    simp only [Val.WF] at wa
    rw [dictEq_dict_iff]
    simp only [pyEq, Bool.and_eq_true, List.all_eq_true]
    rw [subEq_iff ea eb wa]
    constructor
    · rintro ⟨h1, h2⟩
      refine ⟨?_, ?_⟩
      · intro k
        cases ha : lookup ea k with
        | some v =>
          obtain ⟨w, hw, _⟩ := h1 k v ha
          simp [hw]
        | none =>
          cases hb : lookup eb k with
          | none => rfl
          | some w =>
            have := h2 (k, w) (mem_of_lookup eb k w hb)
            simp [ha] at this
      · intro k v w ha hb
        obtain ⟨w', hw', hd⟩ := h1 k v ha
        rw [hb] at hw'; injection hw' with hw'; subst hw'
        exact hd
    · rintro ⟨h1, h2⟩
      refine ⟨?_, ?_⟩
      · intro k v ha
        have := h1 k
        rw [ha] at this
        cases hb : lookup eb k with
        | none => rw [hb] at this; simp at this
        | some w => exact ⟨w, rfl, h2 k v w ha hb⟩
      · intro e he
        have := lookup_isSome_of_mem eb e.1 e.2 he
        rw [← h1 e.1] at this
        exact this
theorem subEq_iff : ∀ (ea eb : Entries), EntriesWF ea →
    (subEq ea eb = true ↔ ∀ k v, lookup ea k = some v → ∃ w, lookup eb k = some w ∧ DictEq v w)
  | [], eb, _ => by simp [subEq]
  | (k0, v0) :: r, eb, wa => by
    simp only [EntriesWF] at wa
    simp only [subEq, Bool.and_eq_true]
    rw [subEq_iff r eb wa.2.2]
    constructor
    · rintro ⟨h1, h2⟩ k v hl
      rw [lookup_cons] at hl
      by_cases hk : k0 = k
      · simp only [hk, if_true, Option.some.injEq] at hl
        subst hl; subst hk
        cases hb : lookup eb k0 with
        | none => rw [hb] at h1; simp at h1
        | some w =>
          rw [hb] at h1
          exact ⟨w, rfl, (pyEq_iff v0 w wa.2.1).1 h1⟩
      · simp only [hk, if_false] at hl
        exact h2 k v hl
    · intro h
      constructor
      · obtain ⟨w, hw, hd⟩ := h k0 v0 (by simp [lookup])
        rw [hw]
        exact (pyEq_iff v0 w wa.2.1).2 hd
      · intro k v hl
        apply h k v
        rw [lookup_cons]
        by_cases hk : k0 = k
        · subst hk; rw [wa.1] at hl; simp at hl
        · simp [hk, hl]
theorem listEq_iff : ∀ (xa xb : List Val), ListWF xa →
    (listEq xa xb = true ↔
      xa.length = xb.length ∧ ∀ (i : Nat) v w, xa[i]? = some v → xb[i]? = some w → DictEq v w)
  | [], [], _ => by simp [listEq]
  | [], y :: r', _ => by simp [listEq]
  | x :: r, [], _ => by simp [listEq]
  | x :: r, y :: r', wa => by
    simp only [ListWF] at wa
    simp only [listEq, Bool.and_eq_true, List.length_cons, Nat.add_right_cancel_iff]
    rw [pyEq_iff x y wa.1, listEq_iff r r' wa.2]
    constructor
    · rintro ⟨h0, hlen, hr⟩
      refine ⟨hlen, ?_⟩
      intro i v w h1 h2
      cases i with
      | zero => simp at h1 h2; subst h1; subst h2; exact h0
      | succ i => simp at h1 h2; exact hr i v w h1 h2
    · rintro ⟨hlen, h⟩
      refine ⟨h 0 x y (by simp) (by simp), hlen, ?_⟩
      intro i v w h1 h2
      exact h (i + 1) v w (by simpa using h1) (by simpa using h2)
end

/-- the clause "different ones give different strings" at full strength: at the level of the CHARACTERS of the
string, for all values.  It is FALSE of the model as it stands (`to_string_inj_full_false`): a float is
represented by an arbitrary `repr` string, and `float "1"` is spelled like the integer 1.  Real float reprs always
contain `.`, `e`, `inf` or `nan`; that, and that the decimal spelling of integers is decodable, is trusted
(ASSUMPTIONS) and sampled by the harness.  Proved: the token level for all values
(`to_string_inj_tokens_partial`) and the character level for values without numbers
(`to_string_inj_chars_partial`: the quoting/escaping of `json.dumps` is a prefix code, `jsonStrC_inj`, so no key or
string can forge structure). -/
def to_string_inj_full : Prop :=
  ∀ a b : Val, a.WF → b.WF → toStringV a = toStringV b → DictEq a b

theorem to_string_inj_full_false : ¬ to_string_inj_full := by
  intro h
  have hd := h (.dict [("a", .leaf (.float "1"))]) (.dict [("a", .leaf (.int 1))])
    (by simp [EntriesWF, Val.WF, lookup]) (by simp [EntriesWF, Val.WF, lookup]) (by decide)
  have := (pyEq_iff _ _ (by simp [EntriesWF, Val.WF, lookup])).2 hd
  revert this; decide

/-- **to_string_inj (characters, values without numbers)** — two values whose scalars are `None`, booleans and
strings (dictionaries and lists of any shape, keys and strings with any characters: quotes, backslashes,
blanks, control and non-ASCII characters) have the same `to_string` STRING only if they are equal -/
theorem to_string_inj_chars_partial (a b : Val) (ha : numFree a = true) (hb : numFree b = true)
    (h : toStringV a = toStringV b) : DictEq a b :=
  dictEq_of_canon_eq a b (toStringV_inj_chars a b ha hb h)

-- the reviewer's forging strings: a value that contains `","b":"` does not collide with the two-item dictionary
example : toStringV (.dict [("a", .leaf (.str "x\",\"b\":\"y"))]) ≠
    toStringV (.dict [("a", .leaf (.str "x")), ("b", .leaf (.str "y"))]) := by decide
example : toStringV (.dict [("a", .leaf (.str "x y"))]) ≠ toStringV (.dict [("a", .leaf (.str "xy"))]) := by decide

/-- in particular: any reordering of the items of a dictionary gives the same string -/
theorem to_string_reorder (ea eb : Entries) (h : ea.Perm eb) (wa : EntriesWF ea) :
    toTokens (.dict ea) = toTokens (.dict eb) := by
  have hwa := (entriesWF_iff ea).1 wa
  have wb : EntriesWF eb := by
    rw [entriesWF_iff]
    refine ⟨(h.pairwise_iff (fun {a b} (hab : a.1 ≠ b.1) => Ne.symm hab)).1 hwa.1, ?_⟩
    intro e he
    exact hwa.2 e (h.mem_iff.2 he)
  apply to_string_perm (.dict ea) (.dict eb) (by simpa [Val.WF] using wa) (by simpa [Val.WF] using wb)
  have hl := lookup_perm h hwa.1
  refine .dict ea eb (fun k => by rw [hl k]) ?_
  intro k v w h1 h2
  rw [hl k, h2] at h1
  injection h1 with h1
  subst h1
  exact dictEq_of_canon_eq _ _ rfl

example : toTokens (.dict [("b", .dict [("z", .leaf (.bool true)), ("c", .leaf (.int 3))]), ("a", .leaf (.int 1))]) =
    toTokens (.dict [("a", .leaf (.int 1)), ("b", .dict [("c", .leaf (.int 3)), ("z", .leaf (.bool true))])]) := by
  decide

example : toStringV (.dict [("b", .dict [("z", .leaf (.bool true)), ("c", .leaf (.int 3))]), ("a", .leaf (.int 1))]) =
    "{\"a\":1,\"b\":{\"c\":3,\"z\":true}}" := by decide

/-! ## 8. The elements keep contexts well-formed (no key twice), so the theorems above apply to their
results again -/

theorem setKey_wf : ∀ (d : Entries) (k : String) (v : Val), EntriesWF d → v.WF → EntriesWF (setKey d k v)
  | [], k, v, _, hv => by simp [setKey, EntriesWF, hv]
  | (k0, w) :: r, k, v, hw, hv => by
    simp only [EntriesWF] at hw
    simp only [setKey]
    split
    · rename_i hk
      subst hk
      exact ⟨hw.1, hv, hw.2.2⟩
    · rename_i hk
      refine ⟨?_, hw.2.1, setKey_wf r k v hw.2.2 hv⟩
      rw [lookup_setKey_other _ _ _ _ hk]; exact hw.1

theorem eraseKey_wf : ∀ (d : Entries) (k : String), EntriesWF d → EntriesWF (eraseKey d k)
  | [], _, _ => trivial
  | (k0, w) :: r, k, hw => by
    simp only [EntriesWF] at hw
    simp only [eraseKey]
    split
    · exact hw.2.2
    · rename_i hk
      refine ⟨?_, hw.2.1, eraseKey_wf r k hw.2.2⟩
      rw [lookup_eraseKey_other _ _ _ hk]; exact hw.1

mutual
theorem updRec_wf : ∀ (o d : Entries), EntriesWF d → EntriesWF o → EntriesWF (updRec d o)
  | [], d, hd, _ => by rw [updRec_nil]; exact hd
  | (k, v) :: r, d, hd, ho => by
    simp only [EntriesWF] at ho
    rw [updRec_cons]
    refine updRec_wf r _ (setKey_wf d k _ hd ?_) ho.2.2
    exact updItem_wf v (lookup d k) (fun c hc => lookup_wf_val d k c hd hc) ho.2.1
theorem updItem_wf : ∀ (v : Val) (cur : Option Val), (∀ c, cur = some c → c.WF) → v.WF → (updItem cur v).WF
  | .leaf a, cur, _, _ => by simp [updItem, Val.WF]
  | .list xs, cur, _, hv => by simpa [updItem] using hv
  | .dict o, cur, hc, hv => by
    simp only [Val.WF] at hv
    cases cur with
    | none => simpa [updItem, Val.WF] using hv
    | some c =>
      cases c with
      | leaf a =>
        simp only [updItem, Val.WF]
        exact updRec_wf o [] trivial hv
      | list xs =>
        simp only [updItem, Val.WF]
        exact updRec_wf o [] trivial hv
      | dict dk =>
        simp only [updItem, Val.WF]
        have := hc (.dict dk) rfl
        simp only [Val.WF] at this
        exact updRec_wf o dk this hv
end

theorem subDict_wf (d : Entries) (k : String) (hd : EntriesWF d) : EntriesWF (subDict d k) := by
  unfold subDict
  cases h : lookup d k with
  | none => trivial
  | some w =>
    cases w with
    | leaf a => trivial
    | list xs => trivial
    | dict e => simpa [Val.WF] using lookup_wf_val d k _ hd h

theorem ucSet_wf (rec : Bool) (u : Val) (hu : u.WF) : ∀ (p : List String) (d : Entries), EntriesWF d →
    EntriesWF (ucSet rec d p u)
  | [], d, hd => by simpa [ucSet] using hd
  | [k], d, hd => by
    rw [ucSet_single]
    apply setKey_wf d k _ hd
    cases rec
    · simpa using hu
    · simpa using updItem_wf u (lookup d k) (fun c hc => lookup_wf_val d k c hd hc) hu
  | k :: k' :: r, d, hd => by
    rw [ucSet_cons2]
    apply setKey_wf d k _ hd
    simpa [Val.WF] using ucSet_wf rec u hu (k' :: r) (subDict d k) (subDict_wf d k hd)

theorem delPath_wf : ∀ (p : List String) (d : Entries), EntriesWF d → EntriesWF (delPath d p)
  | [], d, hd => by simpa [delPath] using hd
  | [k], d, hd => by simpa [delPath] using eraseKey_wf d k hd
  | k :: k' :: r, d, hd => by
    rw [delPath_cons2]
    cases h : lookup d k with
    | none => exact hd
    | some w =>
      cases w with
      | leaf a => exact hd
      | list xs => exact hd
      | dict e =>
        simp only
        apply setKey_wf d k _ hd
        have := lookup_wf_val d k _ hd h
        simp only [Val.WF] at this ⊢
        exact delPath_wf (k' :: r) e this

theorem getPath_wf : ∀ (p : List String) (v w : Val), v.WF → getPath v p = some w → w.WF
  | [], v, w, hv, h => by simp at h; subst h; exact hv
  | k :: p, .leaf a, w, _, h => by simp at h
  | k :: p, .list xs, w, _, h => by simp at h
  | k :: p, .dict es, w, hv, h => by
    rw [getPath_dict_cons] at h
    cases hl : lookup es k with
    | none => rw [hl] at h; simp at h
    | some x =>
      rw [hl] at h
      simp only [Option.bind_some] at h
      exact getPath_wf p x w (lookup_wf_val es k x (by simpa [Val.WF] using hv) hl) h

/-- the value an `UpdateContext` writes is well-formed when its configuration and the context are -/
theorem ucCompute_wf (uc : UC) (ctx : Entries) (u : Val) (hctx : EntriesWF ctx)
    (hs : ∀ v, uc.upd = .simple v → v.WF) (hd : ∀ dv, uc.default = some dv → dv.WF)
    (h : ucCompute uc ctx = .ok (.update u)) : u.WF := by
  unfold ucCompute at h
  split at h
  · rename_i v hv; simp at h; subst h; exact hs v hv
  · rename_i key hk
    have hnk : normKeys (.str key) = .ok ((((splitDots key).filter (· ≠ ""))).map Leaf.str) := rfl
    split at h
    · rw [get_eq_path ctx _ _ none hnk] at h
      cases hg : getPath (.dict ctx) ((splitDots key).filter (· ≠ "")) with
      | none => rw [hg] at h; simp at h; split at h <;> simp at h
      | some w =>
        rw [hg] at h; simp at h; subst h
        exact getPath_wf _ _ _ (by simpa [Val.WF] using hctx) hg
    · rename_i dv hdv
      rw [get_eq_path ctx _ _ (some dv) hnk] at h
      cases hg : getPath (.dict ctx) ((splitDots key).filter (· ≠ "")) with
      | none => rw [hg] at h; simp at h; subst h; exact hd dv hdv
      | some w =>
        rw [hg] at h; simp at h; subst h
        exact getPath_wf _ _ _ (by simpa [Val.WF] using hctx) hg
  · simp at h; subst h; trivial
  · split at h
    · simp at h
    · simp at h; subst h; trivial
    · split at h <;> simp at h
  · simp at h

/-- **elements preserve well-formed contexts** -/
theorem update_keeps_wf {δ : Type} (uc : UC) (v v' : Item δ) (hctx : EntriesWF v.context)
    (hs : ∀ x, uc.upd = .simple x → x.WF) (hd : ∀ dv, uc.default = some dv → dv.WF)
    (h : ucCall uc v = .ok v') : EntriesWF v'.context := by
  unfold ucCall at h
  split at h
  · simp at h
  · simp at h; subst h; exact hctx
  · rename_i u hu
    simp at h; subst h
    exact ucSet_wf _ u (ucCompute_wf uc _ u hctx hs hd hu) _ _ hctx

theorem delete_keeps_wf {δ : Type} (p : List String) (v : Item δ) (hctx : EntriesWF v.context) :
    EntriesWF (dcCall p v).context := by
  cases v with
  | bare x => trivial
  | pair x c =>
    simp only [dcCall]
    split
    · trivial
    · exact delPath_wf p c hctx

/-! ## 9. Neighbouring code: `update_recursively`, `SetContext` -/

/-- `update_recursively(d, other)` key by key: a key of `other` holds a scalar → overwritten; a dictionary →
merged into an existing dictionary, put in place of a scalar or an absent key; every other key of `d`
keeps its item.  Arguments that are not dictionaries: `LenaTypeError`; an explicit `value` with a
non-string `other`: `LenaValueError`. -/
theorem update_recursively_spec (d o : Entries) (ho : EntriesWF o) :
    updateRecursively (.dict d) (.val (.dict o)) none = .ok (.dict (updRec d o)) ∧
    (∀ k, lookup (updRec d o) k =
      match lookup o k with
      | none => lookup d k
      | some v => some (updItem (lookup d k) v)) ∧
    (∀ a v, updateRecursively (.leaf a) (.val v) none = .error .lenaTypeError) ∧
    (∀ a, updateRecursively (.dict d) (.val (.leaf a)) none = .error .lenaTypeError) ∧
    (∀ v x, updateRecursively (.dict d) (.val v) (some x) = .error .lenaValueError) := by
  refine ⟨rfl, lookup_updRec o ho d, ?_, ?_, ?_⟩
  · intro a v; cases v <;> rfl
  · intro a; rfl
  · intro v x; rfl

/-- `SetContext(key, value)` with a plain value: the static context it reports after `_set_context(c)` is
`c` with `value` assigned at the key path (and `c` itself is not changed: the model's `setContext`
returns only the new element) -/
theorem set_context_plain (p : List String) (hne : p ≠ []) (hp : WFPath p) (v : Val) (hv : NotTemplate v) (c : Entries) :
    ∃ s, setCtxInit (joinDots p) v = .ok s ∧
      s.getContext = .ok (.dict (ucSet true [] p v)) ∧
      (s.setContext (.dict c)).2 = none ∧
      (s.setContext (.dict c)).1.getContext = .ok (.dict (ucSet true c p v)) := by
  have h0 := fuw_plain p hne hp v hv []
  have hc := fuw_plain p hne hp v hv c
  refine ⟨⟨joinDots p, v, some (.dict (ucSet true [] p v))⟩, ?_, rfl, ?_, ?_⟩
  · simp [setCtxInit, SetCtx.setContext, h0]
  · simp [SetCtx.setContext, hc]
  · simp [SetCtx.setContext, hc, SetCtx.getContext]

/-- a template whose field is missing in the empty context: the construction succeeds (the
`LenaKeyError` is stored), `_get_context` raises it until a `_set_context` succeeds -/
theorem set_context_missing (key s : String) (fc : Fmt) (hs : s.toList.contains '{' = true)
    (hi : formatInit (some s) = .ok fc) (hk : formatCall fc (.dict []) = .error .lenaKeyError) :
    ∃ st, setCtxInit key (.leaf (.str s)) = .ok st ∧ st.getContext = .error .lenaKeyError := by
  refine ⟨⟨key, .leaf (.str s), none⟩, ?_, rfl⟩
  have : formatUpdateWith key (.leaf (.str s)) (.dict []) = .error .lenaKeyError := by
    unfold formatUpdateWith formatValue
    simp only [hs, hi, hk, if_true]
  simp [setCtxInit, SetCtx.setContext, this]

/-! ## 10. The Boolean forms that the driver executes decide the hypotheses of the theorems

(`wfPathB_iff`, `valWFB_iff` are in `Lemmas/C08.lean`; `strFieldsB_iff`, `notTemplateB_iff` above) -/

theorem pieceWFB_iff (p : Piece) : pieceWFB p = true ↔ p.WF := by
  cases p with
  | lit s =>
    simp only [pieceWFB, Piece.WF, List.all_eq_true, Bool.and_eq_true, bne_iff_ne, ne_eq]
  | field q =>
    simp only [pieceWFB, Piece.WF, Bool.and_eq_true, wfPathB_iff, List.all_eq_true, bne_iff_ne, ne_eq,
      Bool.not_eq_true']

/-- `illFormedB`, which the driver evaluates on the whole option matrix, decides `IllFormed` -/
theorem illFormedB_iff (a : UCArgs) : illFormedB a = true ↔ IllFormed a := by
  obtain ⟨sub, upd, value, dflt, skip, rais, rec⟩ := a
  cases sub with
  | none => simp [illFormedB, IllFormed]
  | some sc =>
    by_cases hsc : sc = ""
    · subst hsc; simp [illFormedB, IllFormed]
    · cases upd with
      | simple v =>
        cases dflt <;> cases skip <;> cases rais <;>
          simp [illFormedB, IllFormed, nActive, hsc, jinjaRejects]
      | str u =>
        cases hm : matchValueTemplate u.toList <;> cases hj : jinjaParse u <;>
        by_cases hb : '{' ∈ u.toList <;>
        cases dflt <;> cases skip <;> cases rais <;> cases value <;>
          simp [illFormedB, IllFormed, nActive, hsc, jinjaRejects, hm, hj, hb]

/-! ## 11. The malformed-argument contract after the two patches (/verif/notes/C08_defect_1, _2) -/

/-- a key that is not a string: `str_to_dict`, `str_to_list`, `DeleteContext`, `format_update_with` and
`SetContext` all answer `LenaTypeError` -/
theorem non_string_key (v : Option Val) (x : Val) (d : Val) (hv : NotTemplate x) :
    strToDictE none v = .error .lenaTypeError ∧
    strToListE none = .error .lenaTypeError ∧
    dcInit .other = .error .lenaTypeError ∧
    formatUpdateWith none x d = .error .lenaTypeError ∧
    setCtxInit none x = .error .lenaTypeError := by
  have h : formatUpdateWith none x (.dict []) = .error .lenaTypeError := by
    unfold formatUpdateWith; rw [formatValue_plain x _ hv]; rfl
  refine ⟨rfl, rfl, rfl, ?_, ?_⟩
  · unfold formatUpdateWith; rw [formatValue_plain x _ hv]; rfl
  · simp [setCtxInit, SetCtx.setContext, h]

theorem dropWhileSpace_nonspace (l : List Char) (c : Char) (hc : isSpace c = false) :
    dropWhileSpace (c :: l) = c :: l := by
  simp [dropWhileSpace, hc]

theorem dropWhileSpace_spaces : ∀ (l r : List Char), (∀ c ∈ l, isSpace c = true) → dropWhileSpace (l ++ r) = dropWhileSpace r
  | [], r, _ => rfl
  | c :: l, r, h => by
    have hc := h c (by simp)
    simp only [List.cons_append, dropWhileSpace, hc, if_true]
    exact dropWhileSpace_spaces l r (fun x hx => h x (by simp [hx]))

/-- `update[2:-2].strip()`: blanks around a key whose first and last characters are not blank are dropped -/
theorem strip_blanks (l r key : List Char) (hl : ∀ c ∈ l, isSpace c = true) (hr : ∀ c ∈ r, isSpace c = true)
    (hne : key ≠ []) (h0 : ∀ c, key.head? = some c → isSpace c = false)
    (h1 : ∀ c, key.getLast? = some c → isSpace c = false) :
    strip (l ++ key ++ r) = key := by
  unfold strip
  obtain ⟨c0, t, ht⟩ : ∃ c0 t, key = c0 :: t := by
    cases key with
    | nil => exact absurd rfl hne
    | cons a b => exact ⟨a, b, rfl⟩
  obtain ⟨t', c1, ht'⟩ : ∃ t' c1, key = t' ++ [c1] := by
    rcases List.eq_nil_or_concat key with h | ⟨a, b, h⟩
    · exact absurd h hne
    · exact ⟨a, b, by simpa using h⟩
  have hc0 : isSpace c0 = false := h0 c0 (by simp [ht])
  have hc1 : isSpace c1 = false := h1 c1 (by simp [ht'])
  rw [List.append_assoc, dropWhileSpace_spaces l _ hl]
  have e1 : key ++ r = c0 :: (t ++ r) := by simp [ht]
  rw [e1, dropWhileSpace_nonspace _ _ hc0, ← e1, ht', List.append_assoc, List.reverse_append, List.reverse_append]
  have hr' : ∀ c ∈ r.reverse, isSpace c = true := fun c hc => hr c (by simpa using hc)
  rw [List.append_assoc, dropWhileSpace_spaces r.reverse _ hr']
  simp only [List.reverse_cons, List.reverse_nil, List.nil_append, List.singleton_append]
  rw [dropWhileSpace_nonspace _ _ hc1]
  simp

theorem matchBody_spec : ∀ (body : List Char) (seen : Bool), (∀ c ∈ body, c ≠ '{' ∧ c ≠ '}') →
    ∀ tail : List Char, matchBody (body ++ '}' :: '}' :: tail) seen =
      ((seen || body.any (fun c => !isSpace c)) && decide (tail = []))
  | [], seen, _, tail => by
    cases tail <;> simp [matchBody]
  | c :: r, seen, h, tail => by
    have hc := h c (by simp)
    simp only [List.cons_append, matchBody, hc.1, hc.2, if_false]
    rw [matchBody_spec r _ (fun x hx => h x (by simp [hx])) tail]
    simp [Bool.or_assoc]

/-- **value_template** — `UpdateContext(…, value=True)` accepts exactly `{{` + brace-free text with a
non-blank character + `}}` and nothing after it (a final newline included: `LenaValueError`); the key is
that text without the blanks around it -/
theorem value_template (body tail : List Char) (hb : ∀ c ∈ body, c ≠ '{' ∧ c ≠ '}') :
    matchValueTemplate ('{' :: '{' :: (body ++ '}' :: '}' :: tail)) =
      (body.any (fun c => !isSpace c) && decide (tail = [])) ∧
    valueKey (String.ofList ('{' :: '{' :: (body ++ ['}', '}']))) = String.ofList (strip body) := by
  constructor
  · simp only [matchValueTemplate]
    rw [matchBody_spec body false hb tail]
    simp
  · unfold valueKey
    simp only [String.toList_ofList, List.drop_succ_cons, List.drop_zero, List.length_cons, List.length_append,
      List.length_nil]
    congr 2
    have : body.length + (0 + 1 + 1) + 1 + 1 - 4 = body.length := by omega
    rw [this, List.take_left']
    rfl

example : matchValueTemplate "{{ a.b }}".toList = true ∧ valueKey "{{ a.b }}" = "a.b" := by decide
example : matchValueTemplate "{{a}}\n".toList = false ∧ matchValueTemplate "{{ }}".toList = false := by decide

/-! ## 12. `to_string` of lists, floats and objects; `Context` -/

/-- `to_string` raises `LenaValueError` exactly for a value with an item that `json.dumps` cannot encode
(an object of another class), and otherwise returns the canonical tokens that the theorems of section 7
are about; a list is encoded element by element, in order, between brackets -/
theorem to_string_errors (v : Val) :
    (serialisable v = true → toStringE v = .ok (toTokens v)) ∧
    (serialisable v = false → toStringE v = .error .lenaValueError) ∧
    (∀ k s, serialisable (.dict [(k, .leaf (.obj s))]) = false) ∧
    (∀ x y : Val, toTokens (.list [x, y]) = .lbrack :: (toTokens x ++ .comma :: toTokens y ++ [.rbrack])) := by
  refine ⟨?_, ?_, ?_, ?_⟩
  · intro h; simp [toStringE, h]
  · intro h; simp [toStringE, h]
  · intro k s; simp [serialisable, serialisableE]
  · intro x y; simp [toTokens, elemTokens]

/-- lists keep their order in `to_string`: two lists with the same elements in another order give
different strings -/
example : toTokens (.list [.leaf (.int 1), .leaf (.int 2)]) ≠ toTokens (.list [.leaf (.int 2), .leaf (.int 1)]) := by
  decide

/-- `Context.__call__` on a `(data, context)` pair keeps data and items; `Context.__getattr__` returns the
item of a public name, `LenaAttributeError` when it is missing, `AttributeError` for a private name -/
theorem context_element {δ : Type} (x : δ) (c : Entries) (name : String) :
    contextCall (Item.pair x c) = .ok (.pair x c) ∧
    (name.toList.head? = some '_' → contextGetAttr c name = .error .attributeError) ∧
    (name.toList.head? ≠ some '_' → ∀ v, lookup c name = some v → contextGetAttr c name = .ok v) ∧
    (name.toList.head? ≠ some '_' → lookup c name = none → contextGetAttr c name = .error .lenaAttributeError) := by
  refine ⟨rfl, ?_, ?_, ?_⟩
  · intro h; simp [contextGetAttr, h]
  · intro h v hv; simp [contextGetAttr, h, hv]
  · intro h hv; simp [contextGetAttr, h, hv]

example : contextRepr [("2", .dict [("3", .leaf (.int 4))]), ("1", .leaf (.int 1))] =
    .ok "{\n    \"1\": 1,\n    \"2\": {\n        \"3\": 4\n    }\n}" := by decide

/-! ## 13. `to_string` of dictionaries with keys that are not strings (`JVal`) -/

/-- a key as `Leaf.str` -/
def strItem (e : String × List Tok) : Leaf × List Tok := (.str e.1, e.2)

theorem insertJ_str (k : String) (t : List Tok) : ∀ l : List (String × List Tok),
    insertJ (.str k) t (l.map strItem) = (insertItem k t l).map strItem
  | [] => rfl
  | (k', t') :: r => by
    simp only [List.map_cons, strItem, insertJ, keyLe, insertItem]
    by_cases h : k ≤ k'
    · simp [h, strItem]
    · simp only [h, decide_false, Bool.false_eq_true, if_false, List.map_cons, strItem]
      rw [← insertJ_str k t r]

theorem sortJ_str : ∀ l : List (String × List Tok), sortJ (l.map strItem) = (sortItems l).map strItem
  | [] => rfl
  | (k, t) :: r => by
    simp only [List.map_cons, strItem, sortJ, sortItems]
    rw [sortJ_str r, insertJ_str]

theorem textItems_str : ∀ l : List (String × List Tok), textItems (l.map strItem) = some l
  | [] => rfl
  | (k, t) :: r => by
    simp only [List.map_cons, strItem, textItems, keyText, textItems_str r]

theorem keys_entriesToJ : ∀ es : Entries, (entriesToJ es).map (·.1) = es.map (fun e => Leaf.str e.1)
  | [] => rfl
  | (k, v) :: r => by simp [entriesToJ, keys_entriesToJ r]

theorem keysSortable_str (es : Entries) : keysSortable ((entriesToJ es).map (·.1)) = some true := by
  rw [keys_entriesToJ]
  have h1 : (es.map (fun e => Leaf.str e.1)).any keyIsFloat = false := by
    simp [List.any_eq_false, keyIsFloat]
  have h2 : (es.map (fun e => Leaf.str e.1)).all keyIsStr = true := by
    simp [List.all_eq_true, keyIsStr]
  simp [keysSortable, h1, h2]

theorem jElems_cons2 (a b : JVal) (r : List JVal) :
    (∀ t l, jTokens a = .ok t → jElems (b :: r) = .ok l → jElems (a :: b :: r) = .ok (t ++ .comma :: l)) ∧
    (∀ e, jTokens a = .error e → jElems (a :: b :: r) = .error e) ∧
    (∀ t e, jTokens a = .ok t → jElems (b :: r) = .error e → jElems (a :: b :: r) = .error e) := by
  refine ⟨?_, ?_, ?_⟩
  · intro t l h1 h2; rw [jElems]; simp only [h1, h2]
  · intro e h1; rw [jElems]; simp only [h1]
  · intro t e h1 h2; rw [jElems]; simp only [h1, h2]

theorem jItems_cons (k : Leaf) (v : JVal) (r : List (Leaf × JVal)) :
    (∀ t l, jTokens v = .ok t → jItems r = .ok l → jItems ((k, v) :: r) = .ok ((k, t) :: l)) ∧
    (∀ e, jTokens v = .error e → jItems ((k, v) :: r) = .error e) ∧
    (∀ t e, jTokens v = .ok t → jItems r = .error e → jItems ((k, v) :: r) = .error e) := by
  refine ⟨?_, ?_, ?_⟩
  · intro t l h1 h2; rw [jItems]; simp only [h1, h2]
  · intro e h1; rw [jItems]; simp only [h1]
  · intro t e h1 h2; rw [jItems]; simp only [h1, h2]

mutual
/-- **to_string_raw_keys (string keys)** — on a string-keyed value the general encoder `jTokens` is
`to_string` as the theorems of section 7 know it: the canonical tokens, or `LenaValueError` for an
unserialisable item -/
theorem jTokens_toJ : ∀ v : Val, jTokens v.toJ =
    cond (serialisable v) (.ok (toTokens v)) (.error .lenaValueError)
  | .leaf a => by cases a <;> simp [Val.toJ, jTokens, serialisable, toTokens]
  | .dict es => by
    have h2 := jItems_toJ es
    simp only [Val.toJ, jTokens, keysSortable_str, serialisable, toTokens]
    rw [h2]
    cases h : serialisableE es with
    | false => simp
    | true =>
      simp only [cond_true]
      have : (itemTokens es).map (fun e => ((Leaf.str e.1, e.2) : Leaf × List Tok)) = (itemTokens es).map strItem := rfl
      rw [this, sortJ_str, textItems_str]
  | .list xs => by
    have h2 := jElems_toJ xs
    simp only [Val.toJ, jTokens, serialisable, toTokens]
    rw [h2]
    cases h : serialisableL xs <;> simp
theorem jItems_toJ : ∀ es : Entries, jItems (entriesToJ es) =
    cond (serialisableE es) (.ok ((itemTokens es).map (fun e => (Leaf.str e.1, e.2)))) (.error .lenaValueError)
  | [] => by simp [entriesToJ, jItems, serialisableE, itemTokens]
  | (k, v) :: r => by
    have h1 := jTokens_toJ v
    have h2 := jItems_toJ r
    obtain ⟨c1, c2, c3⟩ := jItems_cons (.str k) v.toJ (entriesToJ r)
    simp only [entriesToJ, serialisableE, itemTokens]
    cases hv : serialisable v with
    | false =>
      rw [hv] at h1
      rw [c2 _ h1]; simp
    | true =>
      rw [hv] at h1
      cases hr : serialisableE r with
      | false => rw [hr] at h2; rw [c3 _ _ h1 h2]; simp
      | true => rw [hr] at h2; rw [c1 _ _ h1 h2]; simp
theorem jElems_toJ : ∀ xs : List Val, jElems (listToJ xs) =
    cond (serialisableL xs) (.ok (elemTokens xs)) (.error .lenaValueError)
  | [] => by simp [listToJ, jElems, serialisableL, elemTokens]
  | [v] => by
    have h1 := jTokens_toJ v
    simp only [listToJ, jElems, serialisableL, elemTokens]
    rw [h1]
    cases serialisable v <;> simp
  | v :: w :: r => by
    have h1 := jTokens_toJ v
    have h2 := jElems_toJ (w :: r)
    simp only [listToJ] at h2
    obtain ⟨c1, c2, c3⟩ := jElems_cons2 v.toJ w.toJ (listToJ r)
    have he : elemTokens (v :: w :: r) = toTokens v ++ Tok.comma :: elemTokens (w :: r) := by
      rw [elemTokens]
    have hs : serialisableL (v :: w :: r) = (serialisable v && serialisableL (w :: r)) := by
      rw [serialisableL]
    simp only [listToJ]
    rw [he, hs]
    cases hv : serialisable v with
    | false =>
      rw [hv] at h1
      rw [c2 _ h1]; simp
    | true =>
      rw [hv] at h1
      cases hr : serialisableL (w :: r) with
      | false => rw [hr] at h2; rw [c3 _ _ h1 h2]; simp
      | true => rw [hr] at h2; rw [c1 _ _ h1 h2]; simp
end

/-- **to_string_raw_keys** — the documented behaviour for other keys: keys of kinds that cannot be
compared (a string and a number, `None` and anything) and keys that are not `str/int/bool/float/None` are
a `LenaValueError`; integer keys are sorted as numbers and written in decimal — so `{1: x}` and
`{"1": x}` give the same string (the judgement recorded in DESIGN.md: outside the string-keyed domain) -/
theorem to_string_raw_keys (x y : JVal) (s : String) (i : Int) (o : Option String) :
    jTokens (.dict [(.str s, x), (.int i, y)]) = .error .lenaValueError ∧
    jTokens (.dict [(.none, x), (.int i, y)]) = .error .lenaValueError ∧
    jTokens (.dict [(.obj o, .leaf (.int 0))]) = .error .lenaValueError ∧
    jTokens (.dict [(.int i, .leaf (.int 0))]) = jTokens (.dict [(.str (toString i), .leaf (.int 0))]) := by
  refine ⟨?_, ?_, ?_, ?_⟩
  · simp [jTokens, keysSortable, keyIsFloat, keyIsStr, keyIsNum]
  · simp [jTokens, keysSortable, keyIsFloat, keyIsStr, keyIsNum]
  · simp [jTokens, jItems, keysSortable, keyIsFloat, keyIsStr, keyIsNum, sortJ, insertJ, textItems, keyText]
  · simp [jTokens, jItems, keysSortable, keyIsFloat, keyIsStr, keyIsNum, sortJ, insertJ, textItems, keyText]

example : jTokens (.dict [(.int 10, .leaf .none), (.int 9, .leaf .none), (.bool true, .leaf .none)]) =
    .ok [.lbrace, .key "true", .colon, .scalar .none, .comma, .key "9", .colon, .scalar .none, .comma,
         .key "10", .colon, .scalar .none, .rbrace] := by decide

theorem renderPieces_errors (strict : Bool) (ctx : Entries) : ∀ (ps : List Piece) (e : Exc),
    renderPieces strict ctx ps = .error e → e = .unmodelled
  | [], e, h => by simp [renderPieces] at h
  | .lit s :: r, e, h => by
    simp only [renderPieces] at h
    cases hr : renderPieces strict ctx r with
    | error e' => rw [hr] at h; simp at h; subst h; exact renderPieces_errors strict ctx r e' hr
    | ok o => rw [hr] at h; cases o <;> simp at h
  | .field p :: r, e, h => by
    simp only [renderPieces] at h
    cases hg : getPath (.dict ctx) p with
    | none =>
      rw [hg] at h
      simp only at h
      split at h
      · simp at h
      · exact renderPieces_errors strict ctx r e h
    | some w =>
      rw [hg] at h
      simp only [strOfVal] at h
      cases hp : pyStrVal w with
      | none => rw [hp] at h; simp at h; exact h.symm
      | some t =>
        rw [hp] at h
        simp only at h
        cases hr : renderPieces strict ctx r with
        | error e' => rw [hr] at h; simp at h; subst h; exact renderPieces_errors strict ctx r e' hr
        | ok o => rw [hr] at h; cases o <;> simp at h

/-! ## 14. The exception contract: which exceptions can leave each callable

"… a malformed argument by LenaTypeError/LenaValueError, never by another exception."  `unmodelled` is not an
exception but the model declining (a `str()` it does not transcribe, a format specification, jinja2 syntax
outside the fragment); `valueError` is the builtin `ValueError` of `str.format` that `format_context`
documents. -/

mutual
theorem keysOfVal_errors : ∀ (v : Val) (e : Exc), keysOfVal v = .error e → e = .lenaValueError ∨ e = .unmodelled
  | .leaf a, e, h => by
    cases a <;> simp [keysOfVal] at h
    exact Or.inr h.symm
  | .list [], e, h => by simp [keysOfVal] at h
  | .list (_ :: _), e, h => by simp [keysOfVal] at h; exact Or.inr h.symm
  | .dict es, e, h => by
    simp only [keysOfVal] at h
    exact keysOfEntries_errors es e h
theorem keysOfEntries_errors : ∀ (es : Entries) (e : Exc), keysOfEntries es = .error e →
    e = .lenaValueError ∨ e = .unmodelled
  | [], e, h => by simp [keysOfEntries] at h
  | [(k, v)], e, h => by
    simp only [keysOfEntries] at h
    cases hv : keysOfVal v with
    | ok ks => rw [hv] at h; simp at h
    | error e' =>
      rw [hv] at h; simp at h; subst h
      exact keysOfVal_errors v e' hv
  | _ :: _ :: _, e, h => by simp [keysOfEntries] at h; exact Or.inl h.symm
end

/-- **get_recursively raises only its documented exceptions**: `LenaTypeError` (not a dictionary, keys of a wrong
type), `LenaValueError` (two keys at a level), `LenaKeyError` (a missing key — and only when no default was given) -/
theorem getRec_errors (d : Val) (k : KeyArg) (dflt : Option Val) (e : Exc) (h : getRec d k dflt = .error e) :
    e = .lenaTypeError ∨ e = .lenaValueError ∨ e = .unmodelled ∨ (e = .lenaKeyError ∧ dflt = none) := by
  unfold getRec at h
  split at h
  · rename_i es
    cases hn : normKeys k with
    | error e' =>
      rw [hn] at h; simp at h; subst h
      cases k with
      | str s => simp [normKeys] at hn
      | other => simp [normKeys] at hn; exact Or.inl hn.symm
      | list ks => simp only [normKeys] at hn; split at hn <;> simp at hn; exact Or.inl hn.symm
      | dict es' =>
        simp only [normKeys] at hn
        rcases keysOfEntries_errors es' e' hn with h | h
        · exact Or.inr (Or.inl h)
        · exact Or.inr (Or.inr (Or.inl h))
    | ok ks =>
      rw [hn] at h
      simp only at h
      cases hw : walk es ks with
      | some v => rw [hw] at h; simp at h
      | none =>
        rw [hw] at h
        cases dflt with
        | some dv => simp at h
        | none => simp at h; exact Or.inr (Or.inr (Or.inr ⟨h.symm, rfl⟩))
  · simp at h; exact Or.inl h.symm

theorem lookupArgs_spec (ctx : Val) : ∀ (args : List String),
    (∀ e, lookupArgs ctx args = .error e → e = .lenaTypeError ∨ e = .lenaKeyError) ∧
    (∀ vs, lookupArgs ctx args = .ok vs → vs.length = args.length)
  | [] => by simp [lookupArgs]
  | a :: as => by
    obtain ⟨ih1, ih2⟩ := lookupArgs_spec ctx as
    constructor
    · intro e h
      simp only [lookupArgs] at h
      cases hg : getRec ctx (.str a) none with
      | error e' =>
        rw [hg] at h; simp at h; subst h
        rcases getRec_errors ctx _ _ e' hg with h | h | h | ⟨h, _⟩
        · exact Or.inl h
        · exfalso
          subst h
          unfold getRec at hg
          split at hg
          · simp [normKeys] at hg; split at hg <;> simp at hg
          · simp at hg
        · exfalso
          subst h
          unfold getRec at hg
          split at hg
          · simp [normKeys] at hg; split at hg <;> simp at hg
          · simp at hg
        · exact Or.inr h
      | ok v =>
        rw [hg] at h
        simp only at h
        cases hr : lookupArgs ctx as with
        | error e' => rw [hr] at h; simp at h; subst h; exact ih1 e' hr
        | ok vs => rw [hr] at h; simp at h
    · intro vs h
      simp only [lookupArgs] at h
      cases hg : getRec ctx (.str a) none with
      | error e' => rw [hg] at h; simp at h
      | ok v =>
        rw [hg] at h
        simp only at h
        cases hr : lookupArgs ctx as with
        | error e' => rw [hr] at h; simp at h
        | ok vs' => rw [hr] at h; simp at h; subst h; simp [ih2 vs' hr]

theorem strOfVals_spec : ∀ (vs : List Val),
    (∀ e, strOfVals vs = .error e → e = .unmodelled) ∧ (∀ ss, strOfVals vs = .ok ss → ss.length = vs.length)
  | [] => by simp [strOfVals]
  | v :: r => by
    obtain ⟨ih1, ih2⟩ := strOfVals_spec r
    constructor
    · intro e h
      simp only [strOfVals, strOfVal] at h
      cases hp : pyStrVal v with
      | none => rw [hp] at h; simp at h; exact h.symm
      | some t =>
        rw [hp] at h
        simp only at h
        cases hr : strOfVals r with
        | error e' => rw [hr] at h; simp at h; subst h; exact ih1 e' hr
        | ok ss => rw [hr] at h; simp at h
    · intro ss h
      simp only [strOfVals, strOfVal] at h
      cases hp : pyStrVal v with
      | none => rw [hp] at h; simp at h
      | some t =>
        rw [hp] at h
        simp only at h
        cases hr : strOfVals r with
        | error e' => rw [hr] at h; simp at h
        | ok ss' => rw [hr] at h; simp at h; subst h; simp [ih2 ss' hr]

/-- **format_context at call time**: a formatter built from any string raises only `LenaKeyError` (a missing
field), `LenaTypeError` (the context is not a dictionary) or the documented builtin `ValueError` of `str.format`
(a single brace) — in particular never `IndexError`: `str.format` cannot run out of positional arguments,
because the scanner stores a field name for every place that takes one (`scan_cnt`) -/
theorem formatCall_errors (s : String) (f : Fmt) (ctx : Val) (e : Exc) (hi : formatInit (some s) = .ok f)
    (h : formatCall f ctx = .error e) :
    e = .lenaKeyError ∨ e = .lenaTypeError ∨ e = .valueError ∨ e = .unmodelled := by
  unfold formatCall at h
  obtain ⟨la1, la2⟩ := lookupArgs_spec ctx f.args
  cases hl : lookupArgs ctx f.args with
  | error e' =>
    rw [hl] at h; simp at h; subst h
    rcases la1 e' hl with h | h
    · exact Or.inr (Or.inl h)
    · exact Or.inl h
  | ok vs =>
    rw [hl] at h
    simp only at h
    obtain ⟨so1, so2⟩ := strOfVals_spec vs
    cases hs : strOfVals vs with
    | error e' => rw [hs] at h; simp at h; subst h; exact Or.inr (Or.inr (Or.inr (so1 e' hs)))
    | ok ss =>
      rw [hs] at h
      simp only at h
      cases hp : pyFormat f.fstr ss with
      | ok o => rw [hp] at h; simp at h
      | error e' =>
        rw [hp] at h; simp at h; subst h
        rcases pyFormat_errors f.fstr ss e' hp with h | h | ⟨_, hlt⟩
        · exact Or.inr (Or.inr (Or.inl h))
        · exact Or.inr (Or.inr (Or.inr h))
        · exfalso
          have := formatInit_cnt s f hi
          have := so2 ss hs
          have := la2 vs hl
          omega

/-- **format_update_with raises only Lena exceptions** (and the documented `ValueError` of a template with a
single brace): `LenaTypeError` (key or dictionary of a wrong type), `LenaValueError` (empty key, malformed
template), `LenaKeyError` (a missing field) -/
theorem formatUpdateWith_errors (key : Option String) (value d : Val) (e : Exc)
    (h : formatUpdateWith key value d = .error e) :
    e = .lenaTypeError ∨ e = .lenaValueError ∨ e = .lenaKeyError ∨ e = .valueError ∨ e = .unmodelled := by
  unfold formatUpdateWith at h
  cases hv : formatValue value d with
  | error e' =>
    rw [hv] at h; simp at h; subst h
    unfold formatValue at hv
    split at hv
    · rename_i t
      split at hv
      · cases hi : formatInit (some t) with
        | error e2 =>
          rw [hi] at hv; simp at hv; subst hv
          rcases formatInit_total t with ⟨f, hf⟩ | hf
          · rw [hf] at hi; simp at hi
          · rw [hf] at hi; simp at hi; exact Or.inr (Or.inl hi.symm)
        | ok fc =>
          rw [hi] at hv
          simp only at hv
          cases hc : formatCall fc d with
          | ok r => rw [hc] at hv; simp at hv
          | error e2 =>
            rw [hc] at hv; simp at hv; subst hv
            rcases formatCall_errors t fc d e2 hi hc with h | h | h | h
            · exact Or.inr (Or.inr (Or.inl h))
            · exact Or.inl h
            · exact Or.inr (Or.inr (Or.inr (Or.inl h)))
            · exact Or.inr (Or.inr (Or.inr (Or.inr h)))
      · simp at hv
    · simp at hv
  | ok vf =>
    rw [hv] at h
    simp only at h
    unfold assignFormatted at h
    cases hk : strToDictE key (some vf) with
    | error e' =>
      rw [hk] at h; simp at h; subst h
      cases key with
      | none => simp [strToDictE] at hk; exact Or.inl hk.symm
      | some k =>
        simp only [strToDictE, strToDict] at hk
        split at hk
        · simp at hk; exact Or.inr (Or.inl hk.symm)
        · have hne : splitDots k ≠ [] := by
            unfold splitDots
            have := splitDotsC_ne_nil k.toList
            simpa using this
          rw [nestList_eq _ _ hne] at hk
          simp at hk
    | ok fctx =>
      rw [hk] at h
      simp only [updateRecursively, Option.isSome_none, Bool.false_eq_true, if_false] at h
      split at h
      · simp at h
      · simp at h; exact Or.inl h.symm

/-- **UpdateContext at call time raises only `LenaKeyError`** (a missing key with `raise_on_missing`, or with
neither a default nor `skip_on_missing`) -/
theorem ucCall_errors {δ : Type} (uc : UC) (v : Item δ) (e : Exc) (h : ucCall uc v = .error e) :
    e = .lenaKeyError ∨ e = .unmodelled := by
  unfold ucCall at h
  cases hc : ucCompute uc v.context with
  | ok c => rw [hc] at h; cases c <;> simp at h
  | error e' =>
    rw [hc] at h; simp at h; subst h
    unfold ucCompute at hc
    split at hc
    · simp at hc
    · rename_i key _
      have hnk : normKeys (.str key) = .ok ((((splitDots key).filter (· ≠ ""))).map Leaf.str) := rfl
      split at hc
      · rw [get_eq_path v.context _ _ none hnk] at hc
        cases hg : getPath (.dict v.context) ((splitDots key).filter (· ≠ "")) with
        | none => rw [hg] at hc; simp at hc; split at hc <;> simp at hc; exact Or.inl hc.symm
        | some w => rw [hg] at hc; simp at hc
      · rename_i dv _
        rw [get_eq_path v.context _ _ (some dv) hnk] at hc
        cases hg : getPath (.dict v.context) ((splitDots key).filter (· ≠ "")) <;> rw [hg] at hc <;> simp at hc
    · simp at hc
    · rename_i ps strict _
      cases hr : renderPieces strict v.context ps with
      | error e2 =>
        rw [hr] at hc; simp at hc; subst hc
        exact Or.inr (renderPieces_errors strict v.context ps e2 hr)
      | ok o =>
        rw [hr] at hc
        cases o with
        | some t => simp at hc
        | none => simp at hc; split at hc <;> simp at hc; exact Or.inl hc.symm
    · simp at hc; exact Or.inr hc.symm

/-! ## 15. From the constructor ARGUMENTS to the outcome (review F4)

The theorems of section 3 are about an element `uc` in a given internal state; these say which state
`UpdateContext.__init__` builds from its arguments, and compose the two. -/

/-- a key path that can stand between the braces of `UpdateContext(…, "{{key.path}}", value=True)`: its keys
have no brace and no blank -/
def ValueKeyPath (p : List String) : Prop :=
  p ≠ [] ∧ WFPath p ∧ ∀ k ∈ p, ∀ c ∈ k.toList, c ≠ '{' ∧ c ≠ '}' ∧ isSpace c = false

/-- `"{{" + blanks + "key.path" + blanks + "}}"` -/
def valueTemplate (l r : List Char) (p : List String) : String :=
  String.ofList ('{' :: '{' :: ((l ++ (joinDots p).toList ++ r) ++ ['}', '}']))

theorem joinDots_chars (p : List String) (hp : ValueKeyPath p) :
    (joinDots p).toList ≠ [] ∧ ∀ c ∈ (joinDots p).toList, c ≠ '{' ∧ c ≠ '}' ∧ isSpace c = false := by
  constructor
  · intro e
    exact joinDots_ne_empty p hp.1 hp.2.1 (String.toList_eq_nil_iff.1 e)
  · intro c hc
    simp only [joinDots, String.toList_ofList] at hc
    rcases mem_joinDotsC _ c hc with rfl | ⟨w, hw, hcw⟩
    · decide
    · simp only [List.mem_map] at hw
      obtain ⟨k, hk, rfl⟩ := hw
      exact hp.2.2 k hk c hcw

/-- **ucInit_value** — `UpdateContext(sub, "{{ key.path }}", value=True, default?, skip?, raise?, recursively?)`
with at most one of the three missing-key options: the element addresses the sub-context path, copies the
item `key.path` (the blanks are not part of the key), keeps the options, and raises on a missing key
exactly when `raise_on_missing` was given or neither a default nor `skip_on_missing` -/
theorem ucInit_value (q p : List String) (hq : WFPath q) (hqne : q ≠ []) (hp : ValueKeyPath p)
    (l r : List Char) (hl : ∀ c ∈ l, isSpace c = true ∧ c ≠ '{' ∧ c ≠ '}')
    (hr : ∀ c ∈ r, isSpace c = true ∧ c ≠ '{' ∧ c ≠ '}')
    (dflt : Option Val) (skip rais rec : Bool)
    (hact : dflt.isSome.toNat + rais.toNat + skip.toNat ≤ 1) :
    ucInit ⟨some (joinDots q), .str (valueTemplate l r p), true, dflt, skip, rais, rec⟩ =
      .ok ⟨q, .ctxValue (joinDots p), dflt, skip, (if !dflt.isSome && !skip then true else rais), rec⟩ := by
  obtain ⟨hkne, hkc⟩ := joinDots_chars p hp
  have hbody : ∀ c ∈ l ++ (joinDots p).toList ++ r, c ≠ '{' ∧ c ≠ '}' := by
    intro c hc
    simp only [List.mem_append] at hc
    rcases hc with (hc | hc) | hc
    · exact (hl c hc).2
    · exact ⟨(hkc c hc).1, (hkc c hc).2.1⟩
    · exact (hr c hc).2
  obtain ⟨hm, hk⟩ := value_template (l ++ (joinDots p).toList ++ r) [] hbody
  have hany : (l ++ (joinDots p).toList ++ r).any (fun c => !isSpace c) = true := by
    obtain ⟨c0, t, ht⟩ : ∃ c0 t, (joinDots p).toList = c0 :: t := by
      cases h : (joinDots p).toList with
      | nil => exact absurd h hkne
      | cons a b => exact ⟨a, b, rfl⟩
    simp only [List.any_eq_true, List.mem_append]
    exact ⟨c0, Or.inl (Or.inr (by rw [ht]; simp)), by simp [(hkc c0 (by rw [ht]; simp)).2.2]⟩
  have hstrip : strip (l ++ (joinDots p).toList ++ r) = (joinDots p).toList :=
    strip_blanks l r _ (fun c hc => (hl c hc).1) (fun c hc => (hr c hc).1) hkne
      (fun c hc => (hkc c (List.mem_of_mem_head? hc)).2.2)
      (fun c hc => (hkc c (List.mem_of_mem_getLast? hc)).2.2)
  have hmatch : matchValueTemplate (valueTemplate l r p).toList = true := by
    unfold valueTemplate
    rw [String.toList_ofList]
    have := hm
    simp only [List.append_assoc, List.cons_append, List.nil_append] at this ⊢
    rw [this]
    simp only [List.append_assoc] at hany
    simp [hany]
  have hkey : valueKey (valueTemplate l r p) = joinDots p := by
    unfold valueTemplate
    rw [hk, hstrip, String.ofList_toList]
  have hsub : strToList (joinDots q) = q := by
    unfold strToList
    rw [if_neg (joinDots_ne_empty q hqne hq)]
    exact splitDots_joinDots q hqne (fun k hk => (hq k hk).2)
  have hne : joinDots q ≠ "" := joinDots_ne_empty q hqne hq
  unfold ucInit
  simp only [hne, if_false, hsub, hmatch, hkey, Bool.true_and, if_true]
  rw [if_neg (by omega)]

example : ValueKeyPath ["a", "b"] := by
  refine ⟨by simp, ?_, ?_⟩
  · intro k hk; simp at hk; rcases hk with rfl | rfl <;> decide
  · intro k hk; simp at hk; rcases hk with rfl | rfl <;> decide

example : valueTemplate [' '] [' '] ["a", "b"] = "{{ a.b }}" := by decide

/-- **update_context_value_end_to_end** — for every combination of `default / skip_on_missing /
raise_on_missing / recursively` (at most one of the first three) and every value `v`: the element built from the
arguments copies the item named between the braces to the sub-context; when that item is missing it writes
the default, or returns the value unchanged (`skip_on_missing`), or raises `LenaKeyError` (`raise_on_missing`, and
also when none of the three was given) -/
theorem update_context_value_end_to_end {δ : Type} (q p : List String) (hq : WFPath q) (hqne : q ≠ [])
    (hp : ValueKeyPath p) (l r : List Char) (hl : ∀ c ∈ l, isSpace c = true ∧ c ≠ '{' ∧ c ≠ '}')
    (hr : ∀ c ∈ r, isSpace c = true ∧ c ≠ '{' ∧ c ≠ '}')
    (dflt : Option Val) (skip rais rec : Bool) (hact : dflt.isSome.toNat + rais.toNat + skip.toNat ≤ 1)
    (v : Item δ) :
    ∃ uc, ucInit ⟨some (joinDots q), .str (valueTemplate l r p), true, dflt, skip, rais, rec⟩ = .ok uc ∧
      ucCall uc v =
        match getPath (.dict v.context) p with
        | some w => .ok (.pair v.data (ucSet rec v.context q w))
        | none =>
          match dflt with
          | some dv => .ok (.pair v.data (ucSet rec v.context q dv))
          | none => if skip then .ok v else .error .lenaKeyError := by
  refine ⟨_, ucInit_value q p hq hqne hp l r hl hr dflt skip rais rec hact, ?_⟩
  have hm := missing_key_matrix_value
    ⟨q, .ctxValue (joinDots p), dflt, skip, (if !dflt.isSome && !skip then true else rais), rec⟩ p hp.2.1 rfl v.context
  simp only at hm
  unfold ucCall
  rw [hm]
  cases getPath (.dict v.context) p with
  | some w => rfl
  | none =>
    cases dflt with
    | some dv => rfl
    | none => cases skip <;> rfl

/-- **format_update_with with a template, end to end** — `format_update_with(key, "lit{{f1}}lit{{f2}}…", d)`
assigns the literals interleaved with `str(item)` to the key path when every field names an item, raises
`LenaKeyError` and assigns nothing when one is missing; and — the frame — every item of `d` whose path is not
prefix-comparable with the key path is what it was -/
theorem fuw_template_exact (p : List String) (hne : p ≠ []) (hp : WFPath p) (ps : List Piece)
    (hw : ∀ x ∈ ps, x.WF) (hfield : ∃ f, Piece.field f ∈ ps) (d : Entries) :
    (fieldsPresent d ps = false →
      formatUpdateWith (some (joinDots p)) (.leaf (.str (templateString ps))) (.dict d) = .error .lenaKeyError) ∧
    (fieldsPresent d ps = true → StrFields d ps →
      ∃ d', formatUpdateWith (some (joinDots p)) (.leaf (.str (templateString ps))) (.dict d) = .ok (.dict d') ∧
        getPath (.dict d') p = some (.leaf (.str (renderSpec d ps))) ∧
        ∀ q, ¬ p <+: q → ¬ q <+: p → getPath (.dict d') q = getPath (.dict d) q) := by
  obtain ⟨f, hf, hcall⟩ := format_exact ps hw
  have hbrace : (templateString ps).toList.contains '{' = true := by
    obtain ⟨fp, hfp⟩ := hfield
    unfold templateString
    rw [String.toList_ofList]
    simp only [List.contains_eq_mem, decide_eq_true_eq]
    clear hf hcall hw
    induction ps with
    | nil => simp at hfp
    | cons x r ih =>
      cases x with
      | lit s =>
        simp only [List.map_cons, Piece.toTP, render0, List.mem_append]
        exact Or.inr (ih (by simpa using hfp))
      | field g => simp [Piece.toTP, render0]
  obtain ⟨h1, h2, _⟩ := fuw_template p hne hp (templateString ps) hbrace d
  constructor
  · intro hpres
    exact h2 f _ hf ((hcall d).1 hpres)
  · intro hpres hstr
    refine ⟨ucSet true d p (.leaf (.str (renderSpec d ps))), h1 f _ hf ((hcall d).2 hpres hstr), ?_, ?_⟩
    · rw [getPath_ucSet_same true _ p d hne]
      simp [updItem]
    · intro q hq1 hq2
      exact getPath_ucSet_frame true _ p d q hne hq1 hq2

/-- the frame of `format_update_with` with a plain value, spelled out -/
theorem fuw_frame (p : List String) (hne : p ≠ []) (hp : WFPath p) (v : Val) (hv : NotTemplate v) (d : Entries) :
    ∃ d', formatUpdateWith (some (joinDots p)) v (.dict d) = .ok (.dict d') ∧
      getPath (.dict d') p = some (updItem (getPath (.dict d) p) v) ∧
      ∀ q, ¬ p <+: q → ¬ q <+: p → getPath (.dict d') q = getPath (.dict d) q := by
  refine ⟨ucSet true d p v, fuw_plain p hne hp v hv d, ?_, ?_⟩
  · rw [getPath_ucSet_same true _ p d hne]; rfl
  · intro q hq1 hq2
    exact getPath_ucSet_frame true _ p d q hne hq1 hq2

/-! ### jinja2 templates: from the template string to the pieces, and the formatting-string element end to end -/

theorem nameChar_props (c : Char) (h : isNameChar c = true ∨ c = '.') :
    isSpace c = false ∧ c ≠ '\n' ∧ c ≠ '\r' ∧ c ≠ '{' ∧ c ≠ '}' ∧ c ≠ '\'' ∧ c ≠ '"' := by
  have hr : 46 ≤ c.toNat ∧ c.toNat ≤ 122 := by
    rcases h with h | h
    · simp only [isNameChar, Bool.or_eq_true, Bool.and_eq_true, decide_eq_true_eq, beq_iff_eq] at h
      omega
    · subst h; decide
  refine ⟨?_, ?_, ?_, ?_, ?_, ?_, ?_⟩
  · simp only [isSpace]; simp; omega
  all_goals (intro e; subst e; revert hr; decide)

theorem isName_chars (w : List Char) (h : isName w = true) : w ≠ [] ∧ ∀ c ∈ w, isNameChar c = true ∧ c ≠ '.' := by
  cases w with
  | nil => simp [isName] at h
  | cons c r =>
    simp only [isName, Bool.and_eq_true, List.all_eq_true] at h
    refine ⟨by simp, ?_⟩
    have hstart : isNameChar c = true := by
      have := h.1
      simp only [isNameStart, isNameChar, Bool.or_eq_true, Bool.and_eq_true, decide_eq_true_eq, beq_iff_eq] at this ⊢
      omega
    intro x hx
    have hx' : isNameChar x = true := by
      rcases List.mem_cons.1 hx with rfl | hx
      · exact hstart
      · exact h.2 x hx
    exact ⟨hx', by intro e; subst e; revert hx'; decide⟩

/-- a literal of a jinja2 template of the modelled fragment: no brace, no line break -/
def JLit (s : String) : Prop := ∀ c ∈ s.toList, c ≠ '{' ∧ c ≠ '}' ∧ c ≠ '\n' ∧ c ≠ '\r'

/-- a field: a non-empty dotted path of names (`[A-Za-z_][A-Za-z0-9_]*`) -/
def JField (p : List String) : Prop := p ≠ [] ∧ ∀ k ∈ p, isName k.toList = true

def JPiece : Piece → Prop
  | .lit s => JLit s
  | .field p => JField p

/-- what a parser returns for a list of pieces: adjacent literals merged, empty literals dropped; `acc` is the
literal read so far -/
def mergeLits : List Char → List Piece → List Piece
  | acc, [] => if acc = [] then [] else [.lit (String.ofList acc)]
  | acc, .lit s :: r => mergeLits (acc ++ s.toList) r
  | acc, .field p :: r => (if acc = [] then [] else [.lit (String.ofList acc)]) ++ .field p :: mergeLits [] r

theorem dropSpaces_nonspace (c : Char) (r : List Char) (h : isSpace c = false) : dropSpaces (c :: r) = c :: r := by
  simp [dropSpaces, h]

theorem trimSpaces_id (n : List Char) (hne : n ≠ []) (h : ∀ c ∈ n, isSpace c = false) : trimSpaces n = n := by
  unfold trimSpaces
  obtain ⟨c0, t, ht⟩ : ∃ c0 t, n = c0 :: t := by
    cases n with
    | nil => exact absurd rfl hne
    | cons a b => exact ⟨a, b, rfl⟩
  obtain ⟨t', c1, ht'⟩ : ∃ t' c1, n = t' ++ [c1] := by
    rcases List.eq_nil_or_concat n with h0 | ⟨a, b, h0⟩
    · exact absurd h0 hne
    · exact ⟨a, b, by simpa using h0⟩
  have e1 : dropSpaces n = n := by rw [ht]; exact dropSpaces_nonspace _ _ (h c0 (by simp [ht]))
  rw [e1]
  have e2 : n.reverse = c1 :: t'.reverse := by rw [ht']; simp
  rw [e2, dropSpaces_nonspace _ _ (h c1 (by simp [ht'])), ← e2]
  simp

theorem fieldOf_name (p : List String) (hp : JField p) : fieldOf (joinDots p).toList = .ok [.field p] := by
  have hcomp : ∀ w ∈ p.map String.toList, w ≠ [] ∧ ∀ c ∈ w, isNameChar c = true ∧ c ≠ '.' := by
    intro w hw
    simp only [List.mem_map] at hw
    obtain ⟨k, hk, rfl⟩ := hw
    exact isName_chars _ (hp.2 k hk)
  have hn : (joinDots p).toList = joinDotsC (p.map String.toList) := by simp [joinDots]
  have hne : joinDotsC (p.map String.toList) ≠ [] :=
    joinDotsC_ne_nil _ (by simpa using hp.1) (fun w hw => (hcomp w hw).1)
  have hsp : ∀ c ∈ joinDotsC (p.map String.toList), isSpace c = false := by
    intro c hc
    rcases mem_joinDotsC _ c hc with rfl | ⟨w, hw, hcw⟩
    · decide
    · exact (nameChar_props c (Or.inl ((hcomp w hw).2 c hcw).1)).1
  have hsplit : splitDotsC (joinDotsC (p.map String.toList)) = p.map String.toList :=
    splitDotsC_joinDotsC _ (by simpa using hp.1) (fun w hw hc => ((hcomp w hw).2 _ hc).2 rfl)
  unfold fieldOf
  rw [hn, trimSpaces_id _ hne hsp]
  simp only [hne, if_false, hsplit]
  have hall : (p.map String.toList).all isName = true := by
    simp only [List.all_eq_true, List.mem_map]
    rintro w ⟨k, hk, rfl⟩
    exact hp.2 k hk
  simp [hall, List.map_map, Function.comp_def, String.ofList_toList]

theorem jinjaGo_text_lit : ∀ (l lit rest : List Char) (outs : List Piece),
    (∀ c ∈ l, c ≠ '{' ∧ c ≠ '}' ∧ c ≠ '\n' ∧ c ≠ '\r') →
    jinjaGo (.text lit) (l ++ rest) outs = jinjaGo (.text (l.reverse ++ lit)) rest outs
  | [], lit, rest, outs, _ => by simp
  | c :: l, lit, rest, outs, h => by
    have hc := h c (by simp)
    simp only [List.cons_append, jinjaGo, hc.1, hc.2.2.1, hc.2.2.2, or_self, if_false]
    rw [jinjaGo_text_lit l (c :: lit) rest outs (fun x hx => h x (by simp [hx]))]
    simp

theorem jinjaGo_expr_name : ∀ (n w rest : List Char) (outs : List Piece),
    (∀ c ∈ n, c ≠ '\n' ∧ c ≠ '\r' ∧ c ≠ '{' ∧ c ≠ '}' ∧ c ≠ '\'' ∧ c ≠ '"') →
    jinjaGo (.expr w) (n ++ '}' :: '}' :: rest) outs =
      match fieldOf (w.reverse ++ n) with
      | .ok f => jinjaGo (.text []) rest (f ++ outs)
      | .syntaxError => .syntaxError
      | .foreign => .foreign
  | [], w, rest, outs, _ => by
    simp only [List.nil_append, jinjaGo, if_true, List.append_nil]
    cases fieldOf w.reverse <;> rfl
  | c :: n, w, rest, outs, h => by
    have hc := h c (by simp)
    simp only [List.cons_append, jinjaGo, hc.1, hc.2.1, hc.2.2.1, hc.2.2.2.1, hc.2.2.2.2.1, hc.2.2.2.2.2, or_self,
      if_false]
    rw [jinjaGo_expr_name n (c :: w) rest outs (fun x hx => h x (by simp [hx]))]
    simp

theorem jinjaGo_pieces : ∀ (ps : List Piece), (∀ x ∈ ps, JPiece x) → ∀ (lit : List Char) (outs : List Piece),
    jinjaGo (.text lit) (render0 (ps.map Piece.toTP)) outs = .ok ((mergeLits lit.reverse ps).reverse ++ outs)
  | [], _, lit, outs => by
    simp only [List.map_nil, render0, jinjaGo, pushLit, mergeLits]
    by_cases h : lit = [] <;> simp [h]
  | .lit s :: r, h, lit, outs => by
    have hs : JLit s := h (.lit s) (by simp)
    simp only [List.map_cons, Piece.toTP, render0]
    rw [jinjaGo_text_lit s.toList lit _ outs hs, jinjaGo_pieces r (fun x hx => h x (by simp [hx]))]
    simp [mergeLits]
  | .field p :: r, h, lit, outs => by
    have hp : JField p := h (.field p) (by simp)
    have hn : ∀ c ∈ (joinDots p).toList, c ≠ '\n' ∧ c ≠ '\r' ∧ c ≠ '{' ∧ c ≠ '}' ∧ c ≠ '\'' ∧ c ≠ '"' := by
      intro c hc
      simp only [joinDots, String.toList_ofList] at hc
      have : isNameChar c = true ∨ c = '.' := by
        rcases mem_joinDotsC _ c hc with rfl | ⟨w, hw, hcw⟩
        · exact Or.inr rfl
        · simp only [List.mem_map] at hw
          obtain ⟨k, hk, rfl⟩ := hw
          exact Or.inl ((isName_chars _ (hp.2 k hk)).2 c hcw).1
      exact (nameChar_props c this).2
    simp only [List.map_cons, Piece.toTP, render0]
    have h1 : ('{' : Char) ≠ '\n' ∧ ('{' : Char) ≠ '\r' := by decide
    simp only [jinjaGo, h1.1, h1.2, or_self, if_false, if_true]
    rw [jinjaGo_expr_name _ [] _ _ hn]
    simp only [List.reverse_nil, List.nil_append, fieldOf_name p hp]
    rw [jinjaGo_pieces r (fun x hx => h x (by simp [hx]))]
    simp only [mergeLits, pushLit, List.reverse_nil, List.reverse_append, List.reverse_cons, List.singleton_append,
      List.reverse_eq_nil_iff]
    by_cases hl : lit = [] <;> simp [hl]

/-- **jinjaParse_templateString** — the model's jinja2 parser reads back the pieces a template string was built
from (adjacent literals merged, empty ones dropped): literals without braces and line breaks, fields that are
dotted paths of names -/
theorem jinjaParse_templateString (ps : List Piece) (h : ∀ x ∈ ps, JPiece x) :
    jinjaParse (templateString ps) = .ok (mergeLits [] ps) := by
  unfold jinjaParse templateString
  rw [String.toList_ofList, jinjaGo_pieces ps h [] []]
  simp

example : jinjaParse "x{{ab.c}}y{{d}}" = .ok [.lit "x", .field ["ab", "c"], .lit "y", .field ["d"]] := by decide

theorem ofList_append (a b : List Char) : String.ofList (a ++ b) = String.ofList a ++ String.ofList b := by
  apply String.toList_inj.1
  simp [String.toList_append]

theorem mergeLits_spec (ctx : Entries) : ∀ (ps : List Piece) (acc : List Char),
    renderSpec ctx (mergeLits acc ps) = String.ofList acc ++ renderSpec ctx ps ∧
    fieldsPresent ctx (mergeLits acc ps) = fieldsPresent ctx ps ∧
    (∀ f, Piece.field f ∈ mergeLits acc ps ↔ Piece.field f ∈ ps)
  | [], acc => by
    simp only [mergeLits]
    by_cases h : acc = []
    · subst h; simp [renderSpec, fieldsPresent]
    · simp [h, renderSpec, fieldsPresent]
  | .lit s :: r, acc => by
    obtain ⟨h1, h2, h3⟩ := mergeLits_spec ctx r (acc ++ s.toList)
    simp only [mergeLits]
    refine ⟨?_, ?_, ?_⟩
    · rw [h1, ofList_append, String.ofList_toList]; simp [renderSpec, String.append_assoc]
    · rw [h2]; simp [fieldsPresent]
    · intro f; rw [h3]; simp
  | .field p :: r, acc => by
    obtain ⟨h1, h2, h3⟩ := mergeLits_spec ctx r []
    simp only [mergeLits]
    refine ⟨?_, ?_, ?_⟩
    · by_cases h : acc = []
      · subst h; simp [renderSpec, h1]
      · simp [h, renderSpec, h1]
    · by_cases h : acc = [] <;> simp [h, fieldsPresent, h2]
    · intro f
      by_cases h : acc = [] <;> simp [h, h3]

theorem templateString_has_brace : ∀ (ps : List Piece), (∃ f, Piece.field f ∈ ps) →
    '{' ∈ (templateString ps).toList := by
  intro ps ⟨fp, hfp⟩
  unfold templateString
  rw [String.toList_ofList]
  induction ps with
  | nil => simp at hfp
  | cons x r ih =>
    cases x with
    | lit s =>
      simp only [List.map_cons, Piece.toTP, render0, List.mem_append]
      exact Or.inr (ih (by simpa using hfp))
    | field g => simp [Piece.toTP, render0]

/-- **ucInit_template** — `UpdateContext(sub, "lit{{f1}}lit{{f2}}…", skip_on_missing?, raise_on_missing?, recursively?)`
(no default, at most one of the two options, at least one field): the element addresses the sub-context path,
holds the parsed template, strict exactly when one of the two options was given, and keeps the options -/
theorem ucInit_template (q : List String) (hq : WFPath q) (hqne : q ≠ []) (ps : List Piece)
    (hps : ∀ x ∈ ps, JPiece x) (hf : ∃ f, Piece.field f ∈ ps) (skip rais rec : Bool)
    (hact : rais.toNat + skip.toNat ≤ 1) :
    ucInit ⟨some (joinDots q), .str (templateString ps), false, none, skip, rais, rec⟩ =
      .ok ⟨q, .template (mergeLits [] ps) (rais || skip), none, skip, rais, rec⟩ := by
  have hsub : strToList (joinDots q) = q := by
    unfold strToList
    rw [if_neg (joinDots_ne_empty q hqne hq)]
    exact splitDots_joinDots q hqne (fun k hk => (hq k hk).2)
  have hne : joinDots q ≠ "" := joinDots_ne_empty q hqne hq
  have hb := templateString_has_brace ps hf
  have hj := jinjaParse_templateString ps hps
  unfold ucInit
  simp only [hne, if_false, hsub, Option.isSome_none, Bool.false_and, Bool.false_eq_true, hj]
  cases rais <;> cases skip <;> simp_all

/-- **update_context_template_end_to_end** — for every combination of `skip_on_missing / raise_on_missing /
recursively` and every value: the element built from a formatting string writes the literals interleaved
with `str(item)` of the fields to the sub-context; when a field names no item it writes the empty string for
it by default, returns the value unchanged with `skip_on_missing`, raises `LenaKeyError` with
`raise_on_missing` -/
theorem update_context_template_end_to_end {δ : Type} (q : List String) (hq : WFPath q) (hqne : q ≠ [])
    (ps : List Piece) (hps : ∀ x ∈ ps, JPiece x) (hf : ∃ f, Piece.field f ∈ ps) (skip rais rec : Bool)
    (hact : rais.toNat + skip.toNat ≤ 1) (v : Item δ) (hstr : StrFields v.context ps) :
    ∃ uc, ucInit ⟨some (joinDots q), .str (templateString ps), false, none, skip, rais, rec⟩ = .ok uc ∧
      ucCall uc v =
        if (rais || skip) && !fieldsPresent v.context ps then
          (if rais then .error .lenaKeyError else .ok v)
        else .ok (.pair v.data (ucSet rec v.context q (.leaf (.str (renderSpec v.context ps))))) := by
  refine ⟨_, ucInit_template q hq hqne ps hps hf skip rais rec hact, ?_⟩
  obtain ⟨m1, m2, m3⟩ := mergeLits_spec v.context ps []
  have hstr' : StrFields v.context (mergeLits [] ps) := by
    intro p hp w hw
    exact hstr p ((m3 p).1 hp) w hw
  have hm := missing_key_matrix_template
    ⟨q, .template (mergeLits [] ps) (rais || skip), none, skip, rais, rec⟩ (mergeLits [] ps) (rais || skip) rfl
    v.context hstr'
  simp only at hm
  unfold ucCall
  rw [hm, m2, m1]
  have he : String.ofList [] ++ renderSpec v.context ps = renderSpec v.context ps := by
    apply String.toList_inj.1; simp
  rw [he]
  by_cases hc : ((rais || skip) && !fieldsPresent v.context ps) = true
  · rw [if_pos hc, if_pos hc]
    cases rais <;> simp
  · rw [if_neg hc, if_neg hc]

/-! ## Non-vacuity: concrete instances of the hypotheses used above -/

example : EntriesWF [("a", .dict [("b", .leaf (.int 7)), ("c", .leaf (.int 1))]), ("b", .leaf .none)] := by
  simp [EntriesWF, Val.WF, lookup]

-- `update_exact`: UpdateContext("output.plot", {"scatter": True}) on a value without context
example : ucCompute ⟨["output", "plot"], .simple (.dict [("scatter", .leaf (.bool true))]), none, false, false, true⟩ [] =
    .ok (.update (.dict [("scatter", .leaf (.bool true))])) := rfl
example : ucCall (δ := Nat) ⟨["output", "plot"], .simple (.dict [("scatter", .leaf (.bool true))]), none, false, false, true⟩
    (.bare 0) = .ok (.pair 0 [("output", .dict [("plot", .dict [("scatter", .leaf (.bool true))])])]) := by decide

-- `missing_key_outcomes`: the three configurations on a context without the key
example : joinDots ["a", "b"] = "a.b" := by decide
example : ucCall (δ := Nat) ⟨["o"], .ctxValue "a.b", some (.leaf (.int 0)), false, false, true⟩ (.pair 1 [("a", .leaf (.int 5))]) =
    .ok (.pair 1 [("a", .leaf (.int 5)), ("o", .leaf (.int 0))]) := by decide
example : ucCall (δ := Nat) ⟨["o"], .ctxValue "a.b", none, true, false, true⟩ (.pair 1 [("a", .leaf (.int 5))]) =
    .ok (.pair 1 [("a", .leaf (.int 5))]) := by decide
example : ucCall (δ := Nat) ⟨["o"], .ctxValue "a.b", none, false, true, true⟩ (.pair 1 [("a", .leaf (.int 5))]) =
    .error .lenaKeyError := by decide

-- `format_exact`: the fields of "{{x.y}}_{{z}}" in {"x": {"y": 10}, "z": 1}
example : fieldsPresent [("x", .dict [("y", .leaf (.int 10))]), ("z", .leaf (.int 1))]
    [.field ["x", "y"], .lit "_", .field ["z"]] = true := by decide
example : renderSpec [("x", .dict [("y", .leaf (.int 10))]), ("z", .leaf (.int 1))]
    [.field ["x", "y"], .lit "_", .field ["z"]] = "10_1" := by decide
example : (formatInit (some "{{x.y}}_{{z}}")).toOption.map
    (fun f => formatCall f (.dict [("x", .dict [("y", .leaf (.int 10))]), ("z", .leaf (.int 1))])) =
    some (.ok "10_1") := by decide

-- `to_string_canonical`: two equal dictionaries in different key order, two different ones
example : DictEq (.dict [("a", .leaf (.int 1)), ("b", .dict [("c", .leaf .none), ("d", .leaf (.str "x"))])])
    (.dict [("b", .dict [("d", .leaf (.str "x")), ("c", .leaf .none)]), ("a", .leaf (.int 1))]) :=
  (pyEq_iff _ _ (by simp [EntriesWF, Val.WF, lookup])).1 (by decide)
example : ¬ DictEq (.dict [("a", .leaf (.int 1))]) (.dict [("a", .leaf (.bool true))]) :=
  fun h => absurd ((pyEq_iff _ _ (by simp [EntriesWF, Val.WF, lookup])).2 h) (by decide)

-- `get_eq_path`: the three notations of the path a.b normalise to it
example : normKeys (.str "a.b") = .ok (["a", "b"].map Leaf.str) := by decide
example : normKeys (.dict [("a", .leaf (.str "b"))]) = .ok (["a", "b"].map Leaf.str) := by decide

-- `merge_keeps_siblings`: {"b": {"d": 4}} merged into {"a": 1, "b": {"c": 3}} keeps c
example : EntriesWF [("d", .leaf (.int 4))] := by simp [EntriesWF, Val.WF, lookup]
example : updRec [("a", .leaf (.int 1)), ("b", .dict [("c", .leaf (.int 3))])] [("b", .dict [("d", .leaf (.int 4))])] =
    [("a", .leaf (.int 1)), ("b", .dict [("c", .leaf (.int 3)), ("d", .leaf (.int 4))])] := by decide

-- `fuw_plain`, `fuw_frame`, `non_string_key`: values that are not templates
example : NotTemplate (.leaf (.int 5)) := by intro s h; cases h
example : NotTemplate (.leaf (.str "plain")) := (notTemplateB_iff _).1 (by decide)
example : formatUpdateWith (some "a.b") (.leaf (.int 5)) (.dict [("x", .leaf (.int 3))]) =
    .ok (.dict [("x", .leaf (.int 3)), ("a", .dict [("b", .leaf (.int 5))])]) := by decide

-- `fuw_template`, `fuw_template_exact`, `set_context_missing`: a template with a field
example : "{{x}}_y".toList.contains '{' = true := by decide
example : (formatInit (some "{{x}}_y")).toOption.map (fun f => formatCall f (.dict [])) = some (.error .lenaKeyError) := by
  decide
example : (Piece.field ["x"]).WF ∧ (Piece.lit "_y").WF :=
  ⟨(pieceWFB_iff _).1 (by decide), (pieceWFB_iff _).1 (by decide)⟩

-- `missing_key_matrix_template`, `update_context_template_end_to_end`: a context in which every field is a scalar
example : StrFields [("a", .dict [("b", .leaf (.int 7))]), ("c", .leaf (.bool false))]
    [.field ["a", "b"], .lit "_x", .field ["c"]] := (strFieldsB_iff _ _).1 (by decide)
example : JPiece (.field ["a", "b"]) ∧ JPiece (.lit "_x") := by
  refine ⟨⟨by simp, ?_⟩, ?_⟩
  · intro k hk; simp at hk; rcases hk with rfl | rfl <;> decide
  · intro c hc; simp at hc; rcases hc with rfl | rfl <;> decide

-- `strip_blanks`, `value_template`
example : strip " a.b ".toList = "a.b".toList := by decide

-- `to_string_inj_chars_partial`: a value without numbers, with characters that JSON escapes
example : numFree (.dict [("a\"b", .list [.leaf (.str "x\\y\né"), .leaf .none, .leaf (.bool true)])]) = true := by decide

end Lena.C08
