import LenaModel.Model.C14Tok
import LenaModel.Lemmas.C14Tok
/-! # C14 — token-level theorems: applying a variable changes neither the variable nor any part of the value's
context other than `context.variable`

`Model/C14Tok.lean` transcribes `Variable.__call__` with object identities (tokens).  The statements below are
about *objects*: which ones a call writes to, which ones end up in the returned context.  They are what the
pure model (`Props/C14.lean`: `call_frame`, purity) cannot express, and what the seeded change
`copy.deepcopy → copy.copy` (seeded/C14-B) violates.  The harness compares tokens with `id()` of the real objects
(correspondence) and evaluates the same statements on them (oracle). -/
namespace Lena.C14.Tok
open Lena.C14

variable {names : List String}

/-- the hypothesis: the objects of the variable's `var_context` are older than the counter, and none of them is
an object of the value's context (the variable and the value do not share objects) -/
structure Sep (next vt : Nat) (vc : TSlots) (ctx : Option (Nat × TSlots)) : Prop where
  varOld : ∀ t ∈ tokens (.dict vt vc), t < next
  disjoint : ∀ t ∈ tokens (.dict vt vc), t ∉ ctxTokens ctx

/-- the executable check the driver reports for every generated case implies the hypothesis -/
theorem sepB_sound {next vt : Nat} {vc : TSlots} {ctx : Option (Nat × TSlots)} (h : sepB next vt vc ctx = true) :
    Sep next vt vc ctx := by
  simp only [sepB, Bool.and_eq_true, List.all_eq_true, decide_eq_true_eq, Bool.not_eq_true'] at h
  refine ⟨fun t ht => (h.1 t ht).1, fun t ht hin => ?_⟩
  have h2 := (h.1 t ht).2
  cases ctx with
  | none => simp [ctxTokens] at hin
  | some p =>
    obtain ⟨c, cs⟩ := p
    have hc : (tokens (TV.dict c cs)).contains t = true := by
      simpa [ctxTokens] using hin
    simp only [] at h2
    rw [hc] at h2
    cases h2

/-- the objects a call may write to besides new ones are objects of the value's context -/
theorem spineTokens_sub (ctx : Option (Nat × TSlots)) {t : Nat} (ht : t ∈ spineTokens names ctx) : t ∈ ctxTokens ctx := by
  cases ctx with
  | none => simp [spineTokens] at ht
  | some p =>
    obtain ⟨c, cs⟩ := p
    simp only [spineTokens, List.mem_cons] at ht
    simp only [ctxTokens, tokens, List.mem_cons]
    rcases ht with rfl | ht
    · exact Or.inl rfl
    · right
      have hall : AllS (fun t => t ∈ tokensS cs) cs := fun t ht => ht
      cases hg : getT cs (kVariable names) with
      | none => rw [hg] at ht; simp at ht
      | some cv =>
        rw [hg] at ht
        have hcv := AllS_getT hall hg
        cases cv with
        | dict k d =>
          rw [AllT_dict] at hcv
          simp only [List.mem_cons] at ht
          rcases ht with rfl | ht
          · exact hcv.1
          · cases hc : getT d (kCompose names) with
            | none => rw [hc] at ht; simp at ht
            | some cl =>
              rw [hc] at ht
              have hcl := AllS_getT hcv.2 hc
              cases cl with
              | list tk l =>
                simp only [List.mem_singleton] at ht
                rw [AllT_list] at hcl
                rw [ht]; exact hcl.1
              | int i => simp at ht
              | str s => simp at ht
              | tuple l => simp at ht
              | dict k2 l => simp at ht
        | int i => simp at ht
        | str s => simp at ht
        | tuple l => simp at ht
        | list k l => simp at ht

/-- **Applying a variable does not change the variable, and the result shares nothing with it**: if the
variable's objects and the value's objects are disjoint, a call writes to no object of `var_context`, no object of
`var_context` is reachable from the returned context, and the same separation holds again for the returned
value (so it holds for every later application: `callsT_variable_untouched`). -/
theorem callT_variable_untouched {fx : Bool} {next vt : Nat} {vc : TSlots} {ctx : Option (Nat × TSlots)} {r : CallRes}
    (hs : Sep next vt vc ctx) (h : callT names fx next vt vc ctx = .ok r) :
    (∀ t ∈ r.writes, t ∉ tokens (.dict vt vc)) ∧
    (∀ t ∈ tokens (.dict r.ctxTok r.ctx), t ∉ tokens (.dict vt vc)) ∧
    Sep r.next vt vc (some (r.ctxTok, r.ctx)) := by
  obtain ⟨h1, h2, h3, _⟩ := callT_spec h
  have hnot : ∀ t, (next ≤ t ∨ t ∈ ctxTokens ctx) → t ∉ tokens (.dict vt vc) := by
    intro t ht hv
    rcases ht with ht | ht
    · have := hs.varOld t hv; omega
    · exact hs.disjoint t hv ht
  refine ⟨fun t ht => hnot t ?_, fun t ht => hnot t (h2 t ht), ⟨fun t ht => ?_, fun t ht hin => ?_⟩⟩
  · rcases h3 t ht with h4 | h4
    · exact Or.inl h4
    · exact Or.inr (spineTokens_sub ctx h4)
  · have := hs.varOld t ht; omega
  · exact hnot t (h2 t (by simpa [ctxTokens] using hin)) ht

/-- **… however often it is applied, each time to the value the previous application returned** -/
theorem callsT_variable_untouched (fx : Bool) (vt : Nat) (vc : TSlots) :
    ∀ (k next : Nat) (ctx : Option (Nat × TSlots)), Sep next vt vc ctx →
      ∀ r, .ok r ∈ callsT names fx vt vc k next ctx →
        (∀ t ∈ r.writes, t ∉ tokens (.dict vt vc)) ∧ (∀ t ∈ tokens (.dict r.ctxTok r.ctx), t ∉ tokens (.dict vt vc))
  | 0, _, _, _, r, hr => by simp [callsT] at hr
  | k + 1, next, ctx, hs, r, hr => by
    simp only [callsT] at hr
    cases hc : callT names fx next vt vc ctx with
    | error e => simp [hc] at hr
    | ok r1 =>
      simp only [hc, List.mem_cons] at hr
      obtain ⟨h1, h2, h3⟩ := callT_variable_untouched hs hc
      rcases hr with hr | hr
      · cases hr; exact ⟨h1, h2⟩
      · exact callsT_variable_untouched fx vt vc k r1.next _ h3 r hr

/-- **… nor any part of the value's context other than `context.variable`** — as objects: the returned context is
the value's context object, every key other than `variable` holds the very same object as before, and the only
pre-existing objects written to are the context, the old `context.variable` and its `compose` list -/
theorem callT_frame {fx : Bool} {next vt c : Nat} {vc cs : TSlots} {r : CallRes}
    (h : callT names fx next vt vc (some (c, cs)) = .ok r) :
    r.ctxTok = c ∧ (∀ k, k ≠ kVariable names → getT r.ctx k = getT cs k) ∧
    ∀ t ∈ r.writes, t < next → t ∈ spineTokens names (some (c, cs)) := by
  obtain ⟨_, _, h3, h4⟩ := callT_spec h
  refine ⟨(h4 c cs rfl).1, (h4 c cs rfl).2, fun t ht hlt => ?_⟩
  rcases h3 t ht with h5 | h5
  · omega
  · exact h5

/-- **the token model refines the value model**: forgetting the identities, `callT` is `updateContext` of
`Model/C14.lean` (the context part of `call`) on the erased arguments — same result, same exception -/
theorem callT_erase (fx : Bool) (next vt : Nat) (vc : TSlots) (ctx : Option (Nat × TSlots)) :
    eraseR (callT names fx next vt vc ctx) =
      updateContext names fx (match ctx with | some (_, cs) => eraseS cs | none => emptyD names.length) (eraseS vc) := by
  rw [callT_eq]
  cases ctx with
  | none => simp only []; rw [callCore_erase, eraseS_replicate]
  | some p => obtain ⟨c, cs⟩ := p; simp only []; rw [callCore_erase]


end Lena.C14.Tok
