import LenaModel.Model.C14Tok
import LenaModel.Lemmas.C14Tok
/-! # C14 — token-level theorems: applying a variable changes neither the variable nor any part of the value's
context other than `context.variable`

`Model/C14Tok.lean` transcribes `Variable.__call__` with object identities (tokens).  The statements below are
about *objects*: which ones a call writes to, which ones end up in the returned context.  They are what the
pure model (`Props/C14.lean`: `call_frame`, purity) cannot express, and what the seeded change
`copy.deepcopy → copy.copy` (seeded/C14-B) violates.  The harness compares tokens with `id()` of the real objects
(correspondence) and evaluates the same statements on them (oracle). -/
namespace Lena.C14.Tok
open Lena.C14

variable {names : List String}

/-- the hypothesis: the objects of the variable's `var_context` are older than the counter, and none of them is
an object of the value's context (the variable and the value do not share objects) -/
structure Sep (next vt : Nat) (vc : TSlots) (ctx : Option (Nat × TSlots)) : Prop where
  varOld : ∀ t ∈ tokens (.dict vt vc), t < next
  disjoint : ∀ t ∈ tokens (.dict vt vc), t ∉ ctxTokens ctx

/-- the executable check the driver reports for every generated case implies the hypothesis -/
theorem sepB_sound {next vt : Nat} {vc : TSlots} {ctx : Option (Nat × TSlots)} (h : sepB next vt vc ctx = true) :
    Sep next vt vc ctx := by
  simp only [sepB, Bool.and_eq_true, List.all_eq_true, decide_eq_true_eq, Bool.not_eq_true'] at h
  refine ⟨fun t ht => (h.1 t ht).1, fun t ht hin => ?_⟩
  have h2 := (h.1 t ht).2
  cases ctx with
  | none => simp [ctxTokens] at hin
  | some p =>
    obtain ⟨c, cs⟩ := p
    have hc : (tokens (TV.dict c cs)).contains t = true := by
      simpa [ctxTokens] using hin
    simp only [] at h2
    rw [hc] at h2
    cases h2

/-- the objects a call may write to besides new ones are objects of the value's context -/
theorem spineTokens_sub (ctx : Option (Nat × TSlots)) {t : Nat} (ht : t ∈ spineTokens names ctx) : t ∈ ctxTokens ctx := by
  cases ctx with
  | none => simp [spineTokens] at ht
  | some p =>
    obtain ⟨c, cs⟩ := p
    simp only [spineTokens, List.mem_cons] at ht
    simp only [ctxTokens, tokens, List.mem_cons]
    rcases ht with rfl | ht
    · exact Or.inl rfl
    · right
      have hall : AllS (fun t => t ∈ tokensS cs) cs := fun t ht => ht
      cases hg : getT cs (kVariable names) with
      | none => rw [hg] at ht; simp at ht
      | some cv =>
        rw [hg] at ht
        have hcv := AllS_getT hall hg
        cases cv with
        | dict k d =>
          rw [AllT_dict] at hcv
          simp only [List.mem_cons] at ht
          rcases ht with rfl | ht
          · exact hcv.1
          · cases hc : getT d (kCompose names) with
            | none => rw [hc] at ht; simp at ht
            | some cl =>
              rw [hc] at ht
              have hcl := AllS_getT hcv.2 hc
              cases cl with
              | list tk l =>
                simp only [List.mem_singleton] at ht
                rw [AllT_list] at hcl
                rw [ht]; exact hcl.1
              | int i => simp at ht
              | str s => simp at ht
              | tuple l => simp at ht
              | dict k2 l => simp at ht
        | int i => simp at ht
        | str s => simp at ht
        | tuple l => simp at ht
        | list k l => simp at ht

/-- **Applying a variable does not change any variable that shares nothing with the value** — the applied one
(`vt`/`vc`) or any other (`wt`/`wc`): if the objects of `wc` and the value's objects are disjoint, the call writes to
no object of `wc`, no object of `wc` is reachable from the returned context, and the same separation holds again for
the returned value. -/
theorem callT_other_untouched {fx : Bool} {next vt wt : Nat} {vc wc : TSlots} {ctx : Option (Nat × TSlots)} {r : CallRes}
    (hs : Sep next wt wc ctx) (h : callT names fx next vt vc ctx = .ok r) :
    (∀ t ∈ r.writes, t ∉ tokens (.dict wt wc)) ∧
    (∀ t ∈ tokens (.dict r.ctxTok r.ctx), t ∉ tokens (.dict wt wc)) ∧
    Sep r.next wt wc (some (r.ctxTok, r.ctx)) := by
  obtain ⟨h1, h2, h3, _⟩ := callT_spec h
  have hnot : ∀ t, (next ≤ t ∨ t ∈ ctxTokens ctx) → t ∉ tokens (.dict wt wc) := by
    intro t ht hv
    rcases ht with ht | ht
    · have := hs.varOld t hv; omega
    · exact hs.disjoint t hv ht
  refine ⟨fun t ht => hnot t ?_, fun t ht => hnot t (h2 t ht), ⟨fun t ht => ?_, fun t ht hin => ?_⟩⟩
  · rcases h3 t ht with h4 | h4
    · exact Or.inl h4
    · exact Or.inr (spineTokens_sub ctx h4)
  · have := hs.varOld t ht; omega
  · exact hnot t (h2 t (by simpa [ctxTokens] using hin)) ht

/-- **Applying a variable does not change the variable, and the result shares nothing with it** -/
theorem callT_variable_untouched {fx : Bool} {next vt : Nat} {vc : TSlots} {ctx : Option (Nat × TSlots)} {r : CallRes}
    (hs : Sep next vt vc ctx) (h : callT names fx next vt vc ctx = .ok r) :
    (∀ t ∈ r.writes, t ∉ tokens (.dict vt vc)) ∧
    (∀ t ∈ tokens (.dict r.ctxTok r.ctx), t ∉ tokens (.dict vt vc)) ∧
    Sep r.next vt vc (some (r.ctxTok, r.ctx)) :=
  callT_other_untouched hs h

/-- **… in a chain of different variables, none of them is changed by any application** (`Sequence(v₁,…,vₙ)` on
identities: the objects `cvar[type_] = old_cvar[type_]` moves from one step's context into the next one's are
objects of the copies, never of a variable) -/
theorem seqT_variables_untouched (fx : Bool) (ws : List (Nat × TSlots)) :
    ∀ (vars : List (Nat × TSlots)) (next : Nat) (ctx : Option (Nat × TSlots)),
      (∀ w ∈ ws, Sep next w.1 w.2 ctx) →
      ∀ r, .ok r ∈ seqT names fx vars next ctx → ∀ w ∈ ws,
        (∀ t ∈ r.writes, t ∉ tokens (.dict w.1 w.2)) ∧ (∀ t ∈ tokens (.dict r.ctxTok r.ctx), t ∉ tokens (.dict w.1 w.2))
  | [], _, _, _, r, hr, _, _ => by simp [seqT] at hr
  | (vt, vc) :: rest, next, ctx, hs, r, hr, w, hw => by
    simp only [seqT] at hr
    cases hc : callT names fx next vt vc ctx with
    | error e => simp [hc] at hr
    | ok r1 =>
      simp only [hc, List.mem_cons] at hr
      rcases hr with hr | hr
      · cases hr
        have := callT_other_untouched (hs w hw) hc
        exact ⟨this.1, this.2.1⟩
      · exact seqT_variables_untouched fx ws rest r1.next _
          (fun w' hw' => (callT_other_untouched (hs w' hw') hc).2.2) r hr w hw

/-- **… however often it is applied, each time to the value the previous application returned** -/
theorem callsT_variable_untouched (fx : Bool) (vt : Nat) (vc : TSlots) :
    ∀ (k next : Nat) (ctx : Option (Nat × TSlots)), Sep next vt vc ctx →
      ∀ r, .ok r ∈ callsT names fx vt vc k next ctx →
        (∀ t ∈ r.writes, t ∉ tokens (.dict vt vc)) ∧ (∀ t ∈ tokens (.dict r.ctxTok r.ctx), t ∉ tokens (.dict vt vc))
  | 0, _, _, _, r, hr => by simp [callsT] at hr
  | k + 1, next, ctx, hs, r, hr => by
    simp only [callsT] at hr
    cases hc : callT names fx next vt vc ctx with
    | error e => simp [hc] at hr
    | ok r1 =>
      simp only [hc, List.mem_cons] at hr
      obtain ⟨h1, h2, h3⟩ := callT_variable_untouched hs hc
      rcases hr with hr | hr
      · cases hr; exact ⟨h1, h2⟩
      · exact callsT_variable_untouched fx vt vc k r1.next _ h3 r hr

/-- **… nor any part of the value's context other than `context.variable`** — as objects: the returned context is
the value's context object, every key other than `variable` holds the very same object as before, and the only
pre-existing objects written to are the context, the old `context.variable` and its `compose` list -/
theorem callT_frame {fx : Bool} {next vt c : Nat} {vc cs : TSlots} {r : CallRes}
    (h : callT names fx next vt vc (some (c, cs)) = .ok r) :
    r.ctxTok = c ∧ (∀ k, k ≠ kVariable names → getT r.ctx k = getT cs k) ∧
    ∀ t ∈ r.writes, t < next → t ∈ spineTokens names (some (c, cs)) := by
  obtain ⟨_, _, h3, h4⟩ := callT_spec h
  refine ⟨(h4 c cs rfl).1, (h4 c cs rfl).2, fun t ht hlt => ?_⟩
  rcases h3 t ht with h5 | h5
  · omega
  · exact h5

/-- **the token model refines the value model**: forgetting the identities, `callT` is `updateContext` of
`Model/C14.lean` (the context part of `call`) on the erased arguments — same result, same exception -/
theorem callT_erase (fx : Bool) (next vt : Nat) (vc : TSlots) (ctx : Option (Nat × TSlots)) :
    eraseR (callT names fx next vt vc ctx) =
      updateContext names fx (match ctx with | some (_, cs) => eraseS cs | none => emptyD names.length) (eraseS vc) := by
  rw [callT_eq]
  cases ctx with
  | none => simp only []; rw [callCore_erase, eraseS_replicate]
  | some p => obtain ⟨c, cs⟩ := p; simp only []; rw [callCore_erase]


/-- **Repeated application to equal values gives equal results**: whatever the identities of the objects and the
state of the counter, two applications of variables with equal `var_context` values to contexts with equal values
give equal results (or the same exception) -/
theorem callT_results_equal (fx : Bool) (n1 n2 vt1 vt2 c1 c2 : Nat) (vc1 vc2 cs1 cs2 : TSlots)
    (hv : eraseS vc1 = eraseS vc2) (hc : eraseS cs1 = eraseS cs2) :
    eraseR (callT names fx n1 vt1 vc1 (some (c1, cs1))) = eraseR (callT names fx n2 vt2 vc2 (some (c2, cs2))) := by
  rw [callT_erase, callT_erase]
  simp only [hv, hc]

/-! ### a concrete instance (non-vacuity of `Sep`, `callT_spec`, `callT_variable_untouched`, `callT_frame`)

Alphabet `compose, name, t0, ta, type, variable`; the variable `Variable("v", f, type="ta")` (objects 0, 1) applied to
a value whose context (object 2) carries `context.variable = {"name": "z", "type": "t0", "t0": {"name": "z"}}`
(objects 3, 4); counter 5. -/

def exN : List String := ["compose", "name", "t0", "ta", "type", "variable"]
def exVc : TSlots := [none, some (.str "v"), none, some (.dict 1 [none, some (.str "v"), none, none, none, none]),
  some (.str "ta"), none]
def exCs : TSlots := [none, none, none, none, none,
  some (.dict 3 [none, some (.str "z"), some (.dict 4 [none, some (.str "z"), none, none, none, none]), none,
    some (.str "t0"), none])]

example : sepB 5 0 exVc (some (2, exCs)) = true := by decide

/-- the call succeeds; it creates the copy (objects 5, 6) and the list `['t0', 'ta']` (object 7), writes to the old
`context.variable` (3: gets `compose`), the new list (7), the copy (5) and the context (2) — to nothing of the variable
(0, 1); the sub-context of `t0` in the result is the old object 4 -/
example : (match callT exN true 5 0 exVc (some (2, exCs)) with
    | .ok r => some (r.writes, r.next, getT r.ctx 5)
    | .error _ => none) =
    some ([3, 7, 5, 2], 8,
      some (.dict 5 [some (.list 7 [.str "t0", .str "ta"]), some (.str "v"),
        some (.dict 4 [none, some (.str "z"), none, none, none, none]),
        some (.dict 6 [none, some (.str "v"), none, none, none, none]), some (.str "ta"), none])) := by rfl

end Lena.C14.Tok
