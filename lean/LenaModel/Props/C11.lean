import LenaModel.Lemmas.C11
/-! # C11 — property theorems: SplitIntoBins runs the analysis per cell on exactly that cell's values

Property (properties.jsonl, C11): *For any analysis sequence, argument variable and edges, (1) SplitIntoBins
computes in each cell exactly what a private copy of the sequence computes from the sub-flow of values whose
argument falls into that cell (in arrival order), (2) ignores values outside the edges, (3) and yields
histograms over the given edges that hold those per-cell results, (4) with context.variable describing the
argument variable.  (5) IterateBins enumerates every cell of such a histogram once with its own edges and
context, and (6) MapBins returns a histogram of identical shape and edges whose every cell is the sequence
applied to the corresponding cell.*

All theorems are about the transcribed model `LenaModel/Model/C11.lean`, for **all** inputs:
* the analysis is an arbitrary `Analysis σ D ρ ε` (any state type, any `fill` that may raise, any `compute`
  generator that yields any number of results and may raise) — this covers every `FillComputeSeq` built from
  accumulators with pre/post elements;
* edges of any dimension over any linearly ordered type `α`, flows of any length, any argument variable
  (its getter may raise), any in-range interpolation guess of the bin search;
* contexts are arbitrary slot vectors (`Model/C14.lean`).

Vocabulary (`Lemmas/C11.lean`): `cellAt bins p` (the cell at index path `p`), `PathIn p dims`, `route` /
`routedTo` (the cell `fill` routes a value to), `subflow … p flow` (the values routed to cell `p`, in arrival
order), `insideFlow`, `ctxAfter` (context of the last value inside the edges), `Trace` (what a generator
yields and how it ends).  From `Lemmas/C06.lean`: `ValidEdges`, `dimsOf`, `InCell` (half-open cell
membership), `GuessesOK`, `Proper`.

Map sentence → theorem:
 all of (1)–(4) in one statement: `split_into_bins_spec`;
 (1) `cell_is_subflow`, `cells_share_nothing`, `fill_one`, `fill_error_is_cells`, `route_inCell`, `subflow_halfopen`;
 (2) `outside_ignored`, `route_outside`;
 (3) `result_shape`, `result_count_le`, `result_count_stop`, `compute_raise`, `compute_complete`
     (on top of `mdMapE_char`, `mdSeqMapRun_out/_stop/_raise` in `Lemmas/C11.lean`);
 (4) `context_is_last_inside`, `result_shape` (the yielded context), `variable_in_context`, `variable_fresh`,
     `context_frame`, `compute_context_error`;
 (5) `iterate_bins_once`, `iterate_each_cell_once`, `iterate_all_cells`, `cell_edges_own`, `iterate_cell_context`,
     `iterate_bins_count`, `iterate_passes`, `iterate_passes_unselected`;
 (6) `map_bins_shape`, `map_bins_cells_independent`, `map_bins_count_le`, `map_bins_start_error`, `map_bins_passes`;
 construction: `new_valid`, `new_rejects_edges`, `new_rejects_seq`, `new_rejects_argvar`;
 `histogram(edges, bins)`: `mkHistogram_ok`, `mkHistogram_nested1_ok` (edges `[[0, 1, 2]]`, after fix 8d715e5);
 extension: `compute_twice_untyped`, `compute_twice_typed_differs`, `two_level_cells`, `analysis_fillAll_eq`,
 `cellToStringOpts_default`, `cellToStringOpts_names`, `iterateBinsInit_ok_iff`, `mapBinsInit_ok_iff`, and the
 Boolean twins of the vocabulary (`inRangeB_iff`, `pathInB_iff`, `lexLtB_iff`, `isCellEdgesB_iff`, `inCellB_iff`). -/

namespace Lena.C11

open Lena
open Lena.C06 (Edges Coord ValidEdges ValidAxis dimsOf InCell GuessesOK Proper)
open Lena.C14 (V Slots Value getSlot setSlot emptyD key)

set_option linter.unusedSectionVars false

variable {α β γ σ ρ ε D ο : Type}

/-! ## construction -/
section New
variable [LT α] [LE α] [DecidableLT α] [DecidableLE α] [DecidableEq α]
  [Std.IsLinearOrder α] [Std.LawfulOrderLT α]
variable (names : List String)

/-- `SplitIntoBins(seq, arg_var, edges)` with valid arguments: one copy of the analysis in its initial
state per cell, `len(axis) − 1` cells along every axis, empty `_cur_context`. -/
theorem new_valid {edges : Edges α} (he : ValidEdges edges) (init : σ) :
    (SIB.new names (some init) true edges : Except (Exc ε) (SIB α σ)) =
      .ok { edges := edges, bins := NArr.full (dimsOf edges.axes) init, curContext := emptyD names.length } := by
  have h1 : ∀ a ∈ edges.axes, a ≠ [] := by
    intro a ha h; have := (he.2 a ha).1; simp [h] at this
  simp [SIB.new, C06.checkEdgesIncreasing_ok he, C06.initBins_eq init _ he.1 h1, dimsOf]

/-- edges that are not strictly increasing with at least two values per axis: `LenaValueError` -/
theorem new_rejects_edges {edges : Edges α} (he : ¬ ValidEdges edges) (init : σ) :
    (SIB.new names (some init) true edges : Except (Exc ε) (SIB α σ)) = .error .lenaValueError := by
  simp [SIB.new, C06.checkEdgesIncreasing_err he, Exc.ofErr]

/-- a `seq` that is not convertible to a `FillComputeSeq`: `LenaTypeError` (checked first) -/
theorem new_rejects_seq (argVarOk : Bool) (edges : Edges α) :
    (SIB.new names (none : Option σ) argVarOk edges : Except (Exc ε) (SIB α σ)) = .error .lenaTypeError := rfl

/-- an `arg_var` that is not a `Variable`: `LenaTypeError` (checked before the edges) -/
theorem new_rejects_argvar (init : σ) (edges : Edges α) :
    (SIB.new names (some init) false edges : Except (Exc ε) (SIB α σ)) = .error .lenaTypeError := rfl

/-- whatever `new` returns successfully was built from valid edges -/
theorem new_ok_inv {seq : Option σ} {b : Bool} {edges : Edges α} {s0 : SIB α σ}
    (h : (SIB.new names seq b edges : Except (Exc ε) (SIB α σ)) = .ok s0) :
    ∃ init, seq = some init ∧ ValidEdges edges ∧
      s0 = { edges := edges, bins := NArr.full (dimsOf edges.axes) init, curContext := emptyD names.length } := by
  cases seq with
  | none => simp [SIB.new] at h
  | some init =>
    cases b with
    | false => simp [SIB.new] at h
    | true =>
      by_cases he : ValidEdges edges
      · rw [new_valid names he init] at h
        exact ⟨init, rfl, he, by simpa using h.symm⟩
      · rw [new_rejects_edges names he init] at h
        simp at h

end New

/-! ## (1), (2): `fill` -/
section Fill
variable [LT α] [LE α] [DecidableLT α] [DecidableLE α] [DecidableEq α]
  [Std.IsLinearOrder α] [Std.LawfulOrderLT α]
variable (names : List String) (an : Analysis σ D ρ ε) (av : ArgVar α D ε) (guess : Nat → Nat → Nat → Int)

theorem binsLoop_length (g : Nat → Nat → Nat → Int) : ∀ (axes : List (List α)) (xs : List α) (k : Nat) (r : List Int),
    C06.binsLoop g k xs axes = .ok r → r.length = axes.length
  | [], _, _, r, h => by simp [C06.binsLoop] at h; simp [h]
  | _ :: _, [], _, r, h => by simp [C06.binsLoop] at h
  | arr :: axes, x :: xs, k, r, h => by
    simp only [C06.binsLoop, bind, Except.bind] at h
    cases h1 : C06.bin1d (g k) x arr with
    | error e => simp [h1] at h
    | ok i =>
      cases h2 : C06.binsLoop g (k + 1) xs axes with
      | error e => simp [h1, h2] at h
      | ok r' =>
        simp [h1, h2, pure, Except.pure] at h
        subst h
        simp [binsLoop_length g axes xs (k + 1) r' h2]

/-- for valid edges, a bin index reported by `get_bin_on_value` has one component per axis -/
theorem getBinOnValue_length {e : Edges α} (he : ValidEdges e) (x : Coord α) (idx : List Int)
    (h : C06.getBinOnValue guess x e = .ok idx) : idx.length = e.axes.length := by
  cases x with
  | scalar x =>
    cases e with
    | flat arr =>
      simp only [C06.getBinOnValue, bind, Except.bind] at h
      cases h1 : C06.bin1d (guess 0) x arr with
      | error e => simp [h1] at h
      | ok i => simp [h1, pure, Except.pure] at h; subst h; simp [Edges.axes]
    | nested axes =>
      simp only [C06.getBinOnValue] at h
      split at h <;> simp at h
  | tuple xs =>
    cases e with
    | flat arr =>
      have ha : ValidAxis arr := he.2 arr (by simp [Edges.axes])
      have : ¬ arr.length = 0 := by have := ha.1; omega
      simp only [C06.getBinOnValue, this, if_false] at h
      split at h <;> simp at h
    | nested axes =>
      simp only [C06.getBinOnValue] at h
      split at h
      · simp at h
      · exact binsLoop_length guess axes xs 0 idx h

theorem idxLen_of_valid {e : Edges α} (he : ValidEdges e) : IdxLen guess e (dimsOf e.axes) := by
  intro x idx h
  rw [getBinOnValue_length guess he x idx h]
  simp [dimsOf]

/-- in a regular array the path of an in-range bin index leads to a cell -/
theorem cellAt_of_pathOf {dims : List Nat} {a : NArr σ} (hs : NArr.HasShape dims a) {idx : List Int}
    {p : List Nat} (h : pathOf dims idx = some p) : ∃ c, cellAt a p = some c := by
  rw [pathOf_eq] at h
  split at h
  · rename_i hr
    simp only [Option.some.injEq] at h
    subst h
    obtain ⟨c, hc, _⟩ := fillWalk_in (ε := Empty) (fun c => .ok c) dims a idx hs hr
    exact ⟨c, hc⟩
  · simp at h

theorem cellAt_of_route {dims : List Nat} {a : NArr σ} (hs : NArr.HasShape dims a) {edges : Edges α}
    {v : Value D} {p : List Nat} (h : route names av guess edges dims v = .ok (some p)) :
    ∃ c, cellAt a p = some c := by
  unfold route at h
  split at h
  · simp at h
  · split at h
    · simp at h
    · simp only [Except.ok.injEq] at h
      exact cellAt_of_pathOf hs h

/-- **One `fill`** (sentences 1 and 2 for a single value).  In a `SplitIntoBins` with valid edges and regular
bins, `fill(val)`
* raises what the getter of the argument variable or `get_bin_on_value` raises;
* leaves the whole state as it is when the value is outside the edges;
* otherwise hands the value to exactly the cell it is routed to — the new state differs from the old one in
  that one cell and in `_cur_context`, which becomes the context of the value; an exception of that cell's
  analysis propagates. -/
theorem fill_one {s : SIB α σ} (he : ValidEdges s.edges) (hs : NArr.HasShape (dimsOf s.edges.axes) s.bins)
    (v : Value D) :
    (∀ e, route names av guess s.edges (dimsOf s.edges.axes) v = .error e →
      SIB.fill names an av guess s v = .error e) ∧
    (route names av guess s.edges (dimsOf s.edges.axes) v = .ok none →
      SIB.fill names an av guess s v = .ok s) ∧
    (∀ p, route names av guess s.edges (dimsOf s.edges.axes) v = .ok (some p) →
      ∃ c, cellAt s.bins p = some c ∧
        (∀ e, an.fill c v = .error e → SIB.fill names an av guess s v = .error (.inner e)) ∧
        (∀ c', an.fill c v = .ok c' →
          SIB.fill names an av guess s v =
            .ok { s with bins := NArr.modifyAt (fun _ => c') s.bins p,
                         curContext := (C14.getDataContext names v).2 })) := by
  have hspec := fill_spec names an av guess s hs (idxLen_of_valid guess he) v
  refine ⟨?_, ?_, ?_⟩
  · intro e hr; rw [hspec, hr]
  · intro hr; rw [hspec, hr]
  · intro p hr
    obtain ⟨c, hc⟩ := cellAt_of_route names av guess hs hr
    refine ⟨c, hc, ?_, ?_⟩
    · intro e hf; rw [hspec, hr]; simp only [hc, hf]
    · intro c' hf; rw [hspec, hr]; simp only [hc, hf]

/-- **Sentence (2): values outside the edges are ignored.**  If no cell is found for the value (`route`
says `none`: some coordinate is below its first or not below its last edge, see `route_outside`), `fill`
changes nothing at all — no cell, not `_cur_context`. -/
theorem outside_ignored {s : SIB α σ} (he : ValidEdges s.edges) (hs : NArr.HasShape (dimsOf s.edges.axes) s.bins)
    (v : Value D) (h : route names av guess s.edges (dimsOf s.edges.axes) v = .ok none) :
    SIB.fill names an av guess s v = .ok s :=
  (fill_one names an av guess he hs v).2.1 h

/-- **Sentence (1): every cell holds exactly what a private copy of the analysis computes from the cell's
sub-flow.**  For a `SplitIntoBins` built by `__init__` from any edges (any dimension) around any analysis, and
any flow that `fill` accepts: the edges are unchanged, the bins keep their regular shape, and for *every*
cell `p` the state of the cell is the state that the analysis reaches from its initial state on
`subflow p flow` — the values routed to `p`, in arrival order — and on nothing else. -/
theorem cell_is_subflow {seq : Option σ} {b : Bool} {edges : Edges α} {s0 s : SIB α σ} (flow : List (Value D))
    (hnew : (SIB.new names seq b edges : Except (Exc ε) (SIB α σ)) = .ok s0)
    (hrun : SIB.fillAll names an av guess s0 flow = .ok s) :
    ∃ init, seq = some init ∧ s.edges = edges ∧ NArr.HasShape (dimsOf edges.axes) s.bins ∧
      ∀ p, PathIn p (dimsOf edges.axes) →
        ∃ c, cellAt s.bins p = some c ∧
          an.fillAll init (subflow names av guess edges (dimsOf edges.axes) p flow) = .ok c := by
  obtain ⟨init, hseq, he, hs0⟩ := new_ok_inv names hnew
  subst hs0
  have hsh : NArr.HasShape (dimsOf edges.axes) (NArr.full (dimsOf edges.axes) init) := C06.hasShape_full init _
  obtain ⟨hed, hshape, hcells, _⟩ :=
    fillAllFrom_ok names an av guess flow 0 _ s hsh (idxLen_of_valid guess he) hrun
  refine ⟨init, hseq, hed, hshape, ?_⟩
  intro p hp
  have hsome := (cellAt_isSome_iff _ _ p hsh).2 hp
  cases hc0 : cellAt (NArr.full (dimsOf edges.axes) init) p with
  | none => simp [hc0] at hsome
  | some c0 =>
    have : c0 = init := cellAt_full init _ p c0 hc0
    subst this
    exact hcells p c0 hc0

/-- **Cells share nothing**: from *any* state with regular bins (not only a fresh one), a flow of fills moves
every cell from its own previous state by its own sub-flow; in particular a cell to which no value is routed
keeps its state. -/
theorem cells_share_nothing {s0 s : SIB α σ} (he : ValidEdges s0.edges)
    (hs : NArr.HasShape (dimsOf s0.edges.axes) s0.bins) (flow : List (Value D))
    (hrun : SIB.fillAll names an av guess s0 flow = .ok s) :
    ∀ p c0, cellAt s0.bins p = some c0 →
      ∃ c, cellAt s.bins p = some c ∧
        an.fillAll c0 (subflow names av guess s0.edges (dimsOf s0.edges.axes) p flow) = .ok c :=
  (fillAllFrom_ok names an av guess flow 0 s0 s hs (idxLen_of_valid guess he) hrun).2.2.1

/-- **Sentence (4), first half: `_cur_context` is the context of the last value inside the edges** (the
empty context of `__init__` when there is none), as that value arrived. -/
theorem context_is_last_inside {seq : Option σ} {b : Bool} {edges : Edges α} {s0 s : SIB α σ}
    (flow : List (Value D))
    (hnew : (SIB.new names seq b edges : Except (Exc ε) (SIB α σ)) = .ok s0)
    (hrun : SIB.fillAll names an av guess s0 flow = .ok s) :
    s.curContext =
      (match (insideFlow names av guess edges (dimsOf edges.axes) flow).getLast? with
       | none => emptyD names.length
       | some v => (C14.getDataContext names v).2) := by
  obtain ⟨init, hseq, he, hs0⟩ := new_ok_inv names hnew
  subst hs0
  have hsh : NArr.HasShape (dimsOf edges.axes) (NArr.full (dimsOf edges.axes) init) := C06.hasShape_full init _
  exact (fillAllFrom_ok names an av guess flow 0 _ s hsh (idxLen_of_valid guess he) hrun).2.2.2

theorem analysis_fillAll_append (c : σ) (xs : List (Value D)) (v : Value D) :
    an.fillAll c (xs ++ [v]) =
      (match an.fillAll c xs with
       | .error e => .error e
       | .ok c' => an.fill c' v) := by
  induction xs generalizing c with
  | nil => simp only [List.nil_append, Analysis.fillAll]; cases an.fill c v <;> rfl
  | cons x xs ih =>
    simp only [List.cons_append, Analysis.fillAll]
    cases an.fill c x with
    | error e => rfl
    | ok c' => exact ih c'

/-- **A failing flow** (exceptions as outcomes).  If `fill` raises at position `m`, then all earlier values
were accepted, and the exception is either that of routing the value (getter / `get_bin_on_value`), or —
wrapped as `inner` — exactly the exception that the *private analysis of the cell the value is routed to*
raises on that cell's sub-flow including the value. -/
theorem fill_error_is_cells {seq : Option σ} {b : Bool} {edges : Edges α} {s0 : SIB α σ} (flow : List (Value D))
    {m : Nat} {e : Exc ε}
    (hnew : (SIB.new names seq b edges : Except (Exc ε) (SIB α σ)) = .ok s0)
    (hrun : SIB.fillAll names an av guess s0 flow = .error (m, e)) :
    ∃ init pre v post, seq = some init ∧ flow = pre ++ v :: post ∧ m = pre.length ∧
      (route names av guess edges (dimsOf edges.axes) v = .error e ∨
       ∃ p e', route names av guess edges (dimsOf edges.axes) v = .ok (some p) ∧ e = .inner e' ∧
         an.fillAll init (subflow names av guess edges (dimsOf edges.axes) p (pre ++ [v])) = .error e') := by
  obtain ⟨init, hseq, he, hs0⟩ := new_ok_inv names hnew
  subst hs0
  have hsh : NArr.HasShape (dimsOf edges.axes) (NArr.full (dimsOf edges.axes) init) := C06.hasShape_full init _
  obtain ⟨pre, v, post, sm, hfl, hm, hpre, hv⟩ := fillAllFrom_error names an av guess flow 0 _ m e hrun
  obtain ⟨hed, hshape, hcells, _⟩ :=
    fillAllFrom_ok names an av guess pre 0 _ sm hsh (idxLen_of_valid guess he) hpre
  refine ⟨init, pre, v, post, hseq, hfl, by omega, ?_⟩
  simp only [] at hed hcells
  have hl : IdxLen guess sm.edges (dimsOf edges.axes) := by rw [hed]; exact idxLen_of_valid guess he
  rw [fill_spec names an av guess sm hshape hl v, hed] at hv
  cases hr : route names av guess edges (dimsOf edges.axes) v with
  | error e0 =>
    simp only [hr, Except.error.injEq] at hv
    subst hv
    exact Or.inl rfl
  | ok r =>
    cases r with
    | none => simp [hr] at hv
    | some p =>
      simp only [hr] at hv
      cases hc : cellAt sm.bins p with
      | none =>
        obtain ⟨c, hc'⟩ := cellAt_of_route names av guess hshape hr
        simp [hc] at hc'
      | some c =>
        simp only [hc] at hv
        cases hf : an.fill c v with
        | ok c' => simp [hf] at hv
        | error e' =>
          simp only [hf, Except.error.injEq] at hv
          refine Or.inr ⟨p, e', rfl, hv.symm, ?_⟩
          have hsome := (cellAt_isSome_iff _ _ p hshape).1 (by simp [hc])
          have hsome0 := (cellAt_isSome_iff _ _ p hsh).2 hsome
          cases hc0 : cellAt (NArr.full (dimsOf edges.axes) init) p with
          | none => simp [hc0] at hsome0
          | some c0 =>
            have : c0 = init := cellAt_full init _ p c0 hc0
            subst this
            obtain ⟨c1, hc1, hrun1⟩ := hcells p c0 hc0
            rw [hc] at hc1
            simp only [Option.some.injEq] at hc1
            subst hc1
            have hrt : routedTo names av guess edges (dimsOf edges.axes) v = some p := by simp [routedTo, hr]
            have : subflow names av guess edges (dimsOf edges.axes) p (pre ++ [v]) =
                subflow names av guess edges (dimsOf edges.axes) p pre ++ [v] := by
              simp [subflow, List.filter_append, hrt]
            rw [this, analysis_fillAll_append, hrun1]
            exact hf

/-! ### routing = half-open cell membership -/

/-- **The right cell, also for border values.**  With an in-range interpolation guess, for a value whose
argument `xs` has the right form for the edges: the value is routed to cell `p` iff `p` is the cell whose
half-open intervals `[low, high)` contain `xs` in every dimension (`C06.InCell`; at most one such cell:
`C06.inCell_unique`). -/
theorem route_inCell {edges : Edges α} (he : ValidEdges edges) (hg : GuessesOK guess) {v : Value D}
    {x : Coord α} {xs : List α} (hx : av.getter (C14.getDataContext names v).1 = .ok x)
    (hp : Proper edges x xs) (p : List Nat) :
    route names av guess edges (dimsOf edges.axes) v = .ok (some p) ↔ InCell edges.axes xs p := by
  have hspec := C06.getBinOnValue_spec guess hg he hp
  have hiff := C06.inCell_iff edges.axes xs p (C06.validEdges_strictInc he) hp.length
  simp only [route, hx, hspec, pathOf_eq]
  rw [hiff]
  by_cases hr : C06.InRange (C06.indices edges.axes xs) (dimsOf edges.axes)
  · simp only [hr, if_true, Except.ok.injEq, Option.some.injEq, true_and]
    exact eq_comm
  · simp [hr]

/-- … and it is ignored iff no cell contains `xs` -/
theorem route_outside {edges : Edges α} (he : ValidEdges edges) (hg : GuessesOK guess) {v : Value D}
    {x : Coord α} {xs : List α} (hx : av.getter (C14.getDataContext names v).1 = .ok x)
    (hp : Proper edges x xs) :
    route names av guess edges (dimsOf edges.axes) v = .ok none ↔ ∀ p, ¬ InCell edges.axes xs p := by
  have hspec := C06.getBinOnValue_spec guess hg he hp
  simp only [route, hx, hspec, pathOf_eq]
  by_cases hr : C06.InRange (C06.indices edges.axes xs) (dimsOf edges.axes)
  · simp only [hr, if_true, Except.ok.injEq, reduceCtorEq, false_iff]
    intro hall
    exact hall _ ((C06.inCell_iff edges.axes xs _ (C06.validEdges_strictInc he) hp.length).2 ⟨hr, rfl⟩)
  · simp only [hr, if_false, true_iff]
    intro p hin
    exact hr ((C06.inCell_iff edges.axes xs p (C06.validEdges_strictInc he) hp.length).1 hin).1

/-- membership in a cell's sub-flow, in terms of the half-open cell: for a flow whose values all have a
well-formed argument, `subflow p flow` consists of exactly the values of the flow that lie in cell `p` -/
theorem subflow_halfopen {edges : Edges α} (he : ValidEdges edges) (hg : GuessesOK guess) (p : List Nat)
    (flow : List (Value D)) (v : Value D) {x : Coord α} {xs : List α}
    (hx : av.getter (C14.getDataContext names v).1 = .ok x) (hp : Proper edges x xs) :
    v ∈ subflow names av guess edges (dimsOf edges.axes) p flow ↔ v ∈ flow ∧ InCell edges.axes xs p := by
  simp only [subflow, List.mem_filter, beq_iff_eq]
  have h1 := route_inCell names av guess he hg hx hp p
  constructor
  · rintro ⟨hm, hr⟩
    refine ⟨hm, h1.1 ?_⟩
    unfold routedTo at hr
    split at hr
    · rename_i r hr'; rw [hr', hr]
    · simp at hr
  · rintro ⟨hm, hin⟩
    exact ⟨hm, by simp [routedTo, h1.2 hin]⟩

end Fill

/-! ## (3), (4): `compute` -/
section Compute
variable [LT α] [LE α] [DecidableLT α] [DecidableLE α] [DecidableEq α]
  [Std.IsLinearOrder α] [Std.LawfulOrderLT α]
variable (names : List String) (an : Analysis σ D ρ ε) (av : ArgVar α D ε)

theorem mkHistogram_eq {e : Edges α} {b : NArr β} {h : Hist α β}
    (hm : (mkHistogram e b : Except (Exc ε) (Hist α β)) = .ok h) : h = ⟨e, b⟩ := by
  unfold mkHistogram at hm
  repeat (split at hm <;> try (simp at hm)) <;> try (exact hm.symm)
  all_goals (first | exact hm.symm | (simp at hm) | skip)

theorem dimsOf_ne_nil' {e : Edges α} (he : ValidEdges e) : dimsOf e.axes ≠ [] := by
  have := he.1
  simpa [dimsOf] using this

/-- `histogram(edges, bins)` accepts bins of the regular shape of valid edges — in the flat format of
one-dimensional edges as well as in the nested format with any number of axes, one included (`[[0, 1, 2]]`,
accepted since the fix 8d715e5 of `histogram.__init__`) -/
theorem mkHistogram_ok {e : Edges α} (he : ValidEdges e) {b : NArr β}
    (hs : NArr.HasShape (dimsOf e.axes) b) :
    (mkHistogram e b : Except (Exc ε) (Hist α β)) = .ok ⟨e, b⟩ := by
  cases b with
  | leaf v =>
    have := dimsOf_ne_nil' he
    cases hd : dimsOf e.axes with
    | nil => exact absurd hd this
    | cons n ns => rw [hd] at hs; simp [NArr.HasShape] at hs
  | node xs =>
    cases e with
    | flat arr =>
      simp only [Edges.axes, dimsOf, List.map_cons, List.map_nil, NArr.HasShape] at hs
      simp [mkHistogram, C06.checkEdgesIncreasing_ok he, C06.lenBins, hs.1]
    | nested axes =>
      cases axes with
      | nil => exact absurd rfl he.1
      | cons a0 rest =>
        simp only [Edges.axes, dimsOf, List.map_cons, NArr.HasShape] at hs
        simp [mkHistogram, C06.checkEdgesIncreasing_ok he, C06.lenBins, hs.1]

/-- in particular for one axis in the nested form (the former quirk of `histogram.__init__`) -/
theorem mkHistogram_nested1_ok {arr : List α} (he : ValidEdges (.nested [arr])) {b : NArr β}
    (hs : NArr.HasShape [arr.length - 1] b) :
    (mkHistogram (.nested [arr]) b : Except (Exc ε) (Hist α β)) = .ok ⟨.nested [arr], b⟩ :=
  mkHistogram_ok he (by simpa [dimsOf, Edges.axes] using hs)

/-- valid edges have at least one cell -/
theorem exists_cell {e : Edges α} (he : ValidEdges e) {a : NArr β} (hs : NArr.HasShape (dimsOf e.axes) a) :
    ∃ p c, cellAt a p = some c := by
  have hpos : ∀ n ∈ dimsOf e.axes, 0 < n := by
    intro n hn
    simp only [dimsOf, List.mem_map] at hn
    obtain ⟨arr, ha, rfl⟩ := hn
    have := (he.2 arr ha).1
    omega
  have hp : ∀ (dims : List Nat), (∀ n ∈ dims, 0 < n) → PathIn (dims.map (fun _ => 0)) dims := by
    intro dims
    induction dims with
    | nil => intro _; simp [PathIn]
    | cons n ns ih =>
      intro h
      exact ⟨h n (by simp), ih (fun m hm => h m (List.mem_cons_of_mem _ hm))⟩
  have := (cellAt_isSome_iff _ a _ hs).2 (hp _ hpos)
  cases hc : cellAt a ((dimsOf e.axes).map (fun _ => 0)) with
  | none => simp [hc] at this
  | some c => exact ⟨_, c, hc⟩

/-- `compute()` when `_update_context` succeeds: the `_MdSeqMap` over the cells' generators -/
theorem compute_eq {s : SIB α σ} (he : ValidEdges s.edges) (hs : NArr.HasShape (dimsOf s.edges.axes) s.bins)
    {ctx : Slots} (hctx : C14.updateContext names true s.curContext av.varCtx = .ok ctx) :
    SIB.compute names an av s =
      mdSeqMapRun (fun result =>
        match (mkHistogram s.edges result : Except (Exc ε) (Hist α ρ)) with
        | .error e => .error e
        | .ok h => .ok (h, ctx)) (cellTraces an s) := by
  cases hd : dimsOf s.edges.axes with
  | nil => exact absurd hd (dimsOf_ne_nil' he)
  | cons n ns =>
    rw [hd] at hs
    simp only [SIB.compute, hctx, mdMap_ok _ ns n s.bins hs, cellTraces]
    rfl

/-- **Sentence (4), error outcome**: when `Variable._update_context` raises (e.g. a `compose` entry of the
flow's context that is not a list), `compute()` raises that exception before yielding anything. -/
theorem compute_context_error (s : SIB α σ) {e : C14.Err}
    (hctx : C14.updateContext names true s.curContext av.varCtx = .error e) :
    SIB.compute names an av s = ⟨[], some (Exc.ofVarErr e)⟩ := by
  simp only [SIB.compute, hctx]

/-- **Sentence (3): the yielded histograms hold the per-cell results over the given edges**, and
**sentence (4)**: each comes with `_cur_context` updated by the argument variable.  For the `j`-th value
`(h, c)` that `compute()` yields: `c` is the updated context, `h.edges` are the edges of the
`SplitIntoBins`, `h.bins` have the regular shape of the edges, and the cell `p` of `h` holds the `j`-th result
that the analysis in cell `p` computes. -/
theorem result_shape {s : SIB α σ} (he : ValidEdges s.edges) (hs : NArr.HasShape (dimsOf s.edges.axes) s.bins)
    {ctx : Slots} (hctx : C14.updateContext names true s.curContext av.varCtx = .ok ctx)
    (j : Nat) (h : Hist α ρ) (c : Slots)
    (hj : (SIB.compute names an av s).out[j]? = some (h, c)) :
    c = ctx ∧ h.edges = s.edges ∧ NArr.HasShape (dimsOf s.edges.axes) h.bins ∧
      ∀ p cst, cellAt s.bins p = some cst →
        ∃ r, (an.compute cst).out[j]? = some r ∧ cellAt h.bins p = some r := by
  rw [compute_eq names an av he hs hctx] at hj
  have hst : NArr.HasShape (dimsOf s.edges.axes) (cellTraces an s) := hasShape_map _ _ _ hs
  obtain ⟨result, hsh, hc, hm⟩ := mdSeqMapRun_out _ _ hst (dimsOf_ne_nil' he) j _ hj
  cases hmk : (mkHistogram s.edges result : Except (Exc ε) (Hist α ρ)) with
  | error e => simp [hmk] at hm
  | ok h' =>
    simp only [hmk, Except.ok.injEq, Prod.mk.injEq] at hm
    obtain ⟨rfl, rfl⟩ := hm
    have := mkHistogram_eq hmk
    subst this
    refine ⟨rfl, rfl, hsh, ?_⟩
    intro p cst hp
    have ht : cellAt (cellTraces an s) p = some (an.compute cst).liftInner := by
      simp [cellTraces, cellAt_map, hp]
    obtain ⟨r, hr, hcr⟩ := hc p _ ht
    exact ⟨r, hr, hcr⟩

/-- **Sentence (3), number of histograms**: never more than any cell has results … -/
theorem result_count_le {s : SIB α σ} (he : ValidEdges s.edges) (hs : NArr.HasShape (dimsOf s.edges.axes) s.bins)
    (p : List Nat) (cst : σ) (hp : cellAt s.bins p = some cst) :
    (SIB.compute names an av s).out.length ≤ (an.compute cst).out.length := by
  cases hctx : C14.updateContext names true s.curContext av.varCtx with
  | error e => simp [compute_context_error names an av s hctx]
  | ok ctx =>
    rw [compute_eq names an av he hs hctx]
    have hst : NArr.HasShape (dimsOf s.edges.axes) (cellTraces an s) := hasShape_map _ _ _ hs
    have ht : cellAt (cellTraces an s) p = some (an.compute cst).liftInner := by
      simp [cellTraces, cellAt_map, hp]
    exact mdSeqMapRun_length_le _ _ hst (dimsOf_ne_nil' he) p _ ht

/-- … and when `compute()` ends normally, exactly as many as the cell with the fewest results has (that
cell's generator ended normally): the *minimum over the cells*. -/
theorem result_count_stop {s : SIB α σ} (he : ValidEdges s.edges) (hs : NArr.HasShape (dimsOf s.edges.axes) s.bins)
    (hfin : (SIB.compute names an av s).fin = none) :
    ∃ p cst, cellAt s.bins p = some cst ∧
      (an.compute cst).out.length = (SIB.compute names an av s).out.length ∧ (an.compute cst).fin = none := by
  cases hctx : C14.updateContext names true s.curContext av.varCtx with
  | error e => simp [compute_context_error names an av s hctx] at hfin
  | ok ctx =>
    rw [compute_eq names an av he hs hctx] at hfin ⊢
    have hst : NArr.HasShape (dimsOf s.edges.axes) (cellTraces an s) := hasShape_map _ _ _ hs
    obtain ⟨p, t, ht, hlen, hf⟩ := mdSeqMapRun_stop _ _ hst (dimsOf_ne_nil' he) hfin
    simp only [cellTraces, cellAt_map] at ht
    cases hc : cellAt s.bins p with
    | none => simp [hc] at ht
    | some cst =>
      simp only [hc, Option.map_some, Option.some.injEq] at ht
      subst ht
      refine ⟨p, cst, hc, hlen, ?_⟩
      simpa [Trace.liftInner] using hf

/-- **Exceptions of the cells' generators propagate**: when `compute()` raises after `_update_context`
succeeded, it raises — wrapped as `inner` — the exception with which the
generator of a cell ended that has the fewest results. -/
theorem compute_raise {s : SIB α σ} (he : ValidEdges s.edges)
    (hs : NArr.HasShape (dimsOf s.edges.axes) s.bins)
    {ctx : Slots} (hctx : C14.updateContext names true s.curContext av.varCtx = .ok ctx)
    (e : Exc ε) (hfin : (SIB.compute names an av s).fin = some e) :
    ∃ p cst e', cellAt s.bins p = some cst ∧
      (an.compute cst).out.length = (SIB.compute names an av s).out.length ∧
      (an.compute cst).fin = some e' ∧ e = .inner e' := by
  rw [compute_eq names an av he hs hctx] at hfin ⊢
  have hst : NArr.HasShape (dimsOf s.edges.axes) (cellTraces an s) := hasShape_map _ _ _ hs
  have hne : ∃ p t, cellAt (cellTraces an s) p = some t := exists_cell he hst
  rcases mdSeqMapRun_raise _ _ hst (dimsOf_ne_nil' he) hne e hfin with ⟨p, t, ht, hlen, hf⟩ | ⟨result, hsh, _, hm⟩
  · simp only [cellTraces, cellAt_map] at ht
    cases hc : cellAt s.bins p with
    | none => simp [hc] at ht
    | some cst =>
      simp only [hc, Option.map_some, Option.some.injEq] at ht
      subst ht
      simp only [Trace.liftInner, Option.map_eq_some_iff] at hf
      obtain ⟨e', he', hee⟩ := hf
      exact ⟨p, cst, e', hc, hlen, he', hee.symm⟩
  · rw [mkHistogram_ok he hsh] at hm
    simp at hm

/-- **Sentences (3)+(4) together, the regular case**: if no cell's generator raises, `_update_context`
succeeds, `compute()` ends normally, and the number of histograms
is the minimum over the cells of the number of results. -/
theorem compute_complete {s : SIB α σ} (he : ValidEdges s.edges)
    (hs : NArr.HasShape (dimsOf s.edges.axes) s.bins)
    {ctx : Slots} (hctx : C14.updateContext names true s.curContext av.varCtx = .ok ctx)
    (hall : ∀ p cst, cellAt s.bins p = some cst → (an.compute cst).fin = none) :
    (SIB.compute names an av s).fin = none ∧
    (∀ p cst, cellAt s.bins p = some cst →
      (SIB.compute names an av s).out.length ≤ (an.compute cst).out.length) ∧
    (∃ p cst, cellAt s.bins p = some cst ∧
      (an.compute cst).out.length = (SIB.compute names an av s).out.length) := by
  have hfin : (SIB.compute names an av s).fin = none := by
    cases hf : (SIB.compute names an av s).fin with
    | none => rfl
    | some e =>
      obtain ⟨p, cst, e', hc, _, hfe, _⟩ := compute_raise names an av he hs hctx e hf
      rw [hall p cst hc] at hfe
      simp at hfe
  refine ⟨hfin, fun p cst hp => result_count_le names an av he hs p cst hp, ?_⟩
  obtain ⟨p, cst, hc, hlen, _⟩ := result_count_stop names an av he hs hfin
  exact ⟨p, cst, hc, hlen⟩

/-- **The property in one statement** (sentences 1–4).  Build a `SplitIntoBins` from any edges around any
analysis, fill any flow that is accepted, iterate `compute()`: the `j`-th value yielded is a histogram over the
given edges, of the regular shape of the edges, whose cell `p` — for *every* cell `p` — holds the `j`-th result
that a private copy of the analysis computes after being filled with exactly the sub-flow of the values routed
to `p` (`route_inCell`: the values whose argument lies in the half-open cell `p`), in arrival order; and its
context is the context of the last value inside the edges, updated by the argument variable. -/
theorem split_into_bins_spec {seq : Option σ} {b : Bool} {edges : Edges α} {s0 s : SIB α σ}
    (guess : Nat → Nat → Nat → Int) (flow : List (Value D))
    (hnew : (SIB.new names seq b edges : Except (Exc ε) (SIB α σ)) = .ok s0)
    (hrun : SIB.fillAll names an av guess s0 flow = .ok s)
    (j : Nat) (h : Hist α ρ) (c : Slots) (hj : (SIB.compute names an av s).out[j]? = some (h, c)) :
    ∃ init, seq = some init ∧ h.edges = edges ∧ NArr.HasShape (dimsOf edges.axes) h.bins ∧
      (∀ p, PathIn p (dimsOf edges.axes) →
        ∃ cst r, an.fillAll init (subflow names av guess edges (dimsOf edges.axes) p flow) = .ok cst ∧
          (an.compute cst).out[j]? = some r ∧ cellAt h.bins p = some r) ∧
      C14.updateContext names true
        (match (insideFlow names av guess edges (dimsOf edges.axes) flow).getLast? with
         | none => emptyD names.length
         | some v => (C14.getDataContext names v).2) av.varCtx = .ok c := by
  obtain ⟨init, hseq, hed, hshape, hcells⟩ := cell_is_subflow names an av guess flow hnew hrun
  have hcur := context_is_last_inside names an av guess flow hnew hrun
  obtain ⟨_, _, he, _⟩ := new_ok_inv names hnew
  have he' : ValidEdges s.edges := by rw [hed]; exact he
  have hs' : NArr.HasShape (dimsOf s.edges.axes) s.bins := by rw [hed]; exact hshape
  cases hctx : C14.updateContext names true s.curContext av.varCtx with
  | error e => simp [compute_context_error names an av s hctx] at hj
  | ok ctx =>
    obtain ⟨hc, hhe, hhs, hres⟩ := result_shape names an av he' hs' hctx j h c hj
    rw [hed] at hhe hhs
    refine ⟨init, hseq, hhe, hhs, ?_, by rw [← hcur, hctx, hc]⟩
    intro p hp
    obtain ⟨cst, hcst, hfill⟩ := hcells p hp
    obtain ⟨r, hr, hcr⟩ := hres p cst hcst
    exact ⟨cst, r, hfill, hr, hcr⟩

/-! ### (4) what `_update_context` does to the context -/

theorem getSlot_setSlot' : ∀ (l : Slots) (i j : Nat) (v : Option V),
    getSlot (setSlot l i v) j = if j = i then v else getSlot l j
  | [], 0, 0, v => by simp [setSlot, getSlot]
  | [], 0, j + 1, v => by simp [setSlot, getSlot]
  | [], i + 1, 0, v => by simp [setSlot, getSlot]
  | [], i + 1, j + 1, v => by
    have := getSlot_setSlot' [] i j v
    simp only [getSlot, setSlot, List.getElem?_cons_succ] at this ⊢
    simp only [this, Nat.add_right_cancel_iff]
    simp
  | x :: r, 0, 0, v => by simp [setSlot, getSlot]
  | x :: r, 0, j + 1, v => by simp [setSlot, getSlot]
  | x :: r, i + 1, 0, v => by simp [setSlot, getSlot]
  | x :: r, i + 1, j + 1, v => by
    have := getSlot_setSlot' r i j v
    simp only [getSlot, setSlot, List.getElem?_cons_succ] at this ⊢
    simp only [this, Nat.add_right_cancel_iff]

/-- **Sentence (4): `context.variable` describes the argument variable.**  The context of every yielded
histogram has under `variable` the dictionary that `Variable._update_context` builds from the flow's
`context.variable` and the variable's own `var_context` (`C14.updateVar`, characterised by the C14 theorems:
the variable's attributes, plus the composition history of typed variables) … -/
theorem variable_in_context {cur vc ctx : Slots} (h : C14.updateContext names true cur vc = .ok ctx) :
    ∃ r, C14.updateVar names true (getSlot cur (C14.kVariable names)) vc = .ok r ∧
      getSlot ctx (C14.kVariable names) = some (.dict r) := by
  unfold C14.updateContext at h
  cases hu : C14.updateVar names true (getSlot cur (C14.kVariable names)) vc with
  | error e => simp [hu] at h
  | ok r =>
    simp only [hu, Except.ok.injEq] at h
    subst h
    exact ⟨r, rfl, by simp [getSlot_setSlot']⟩

/-- … every other key of the flow's context is preserved … -/
theorem context_frame {cur vc ctx : Slots} (h : C14.updateContext names true cur vc = .ok ctx) (k : Nat)
    (hk : k ≠ C14.kVariable names) : getSlot ctx k = getSlot cur k := by
  unfold C14.updateContext at h
  cases hu : C14.updateVar names true (getSlot cur (C14.kVariable names)) vc with
  | error e => simp [hu] at h
  | ok r =>
    simp only [hu, Except.ok.injEq] at h
    subst h
    simp [getSlot_setSlot', hk]

/-- … and when the flow's context has no `variable` (in particular for flows without context),
`context.variable` is exactly the `var_context` of the argument variable. -/
theorem variable_fresh (cur vc : Slots) (h : getSlot cur (C14.kVariable names) = none) :
    C14.updateContext names true cur vc = .ok (setSlot cur (C14.kVariable names) (some (.dict vc))) := by
  simp [C14.updateContext, h, C14.updateVar]

end Compute

/-! ## (5), (6): `IterateBins`, `MapBins` -/
section Bins
variable [LT α] [LE α] [DecidableLT α] [DecidableLE α] [DecidableEq α]
  [Std.IsLinearOrder α] [Std.LawfulOrderLT α]
variable (names : List String)

/-- the example bin of a histogram with valid edges and regular bins is its first cell `[0]…[0]` -/
theorem exampleBin_ok {h : Hist α β} (he : ValidEdges h.edges) (hs : NArr.HasShape (dimsOf h.edges.axes) h.bins) :
    ∃ b00, (exampleBin h : Except (Exc ε) β) = .ok b00 ∧
      cellAt h.bins ((dimsOf h.edges.axes).map (fun _ => 0)) = some b00 := by
  have hpos : ∀ n ∈ dimsOf h.edges.axes, 0 < n := by
    intro n hn
    simp only [dimsOf, List.mem_map] at hn
    obtain ⟨arr, ha, rfl⟩ := hn
    have := (he.2 arr ha).1
    omega
  have hp : ∀ (dims : List Nat), (∀ n ∈ dims, 0 < n) → PathIn (dims.map (fun _ => 0)) dims := by
    intro dims
    induction dims with
    | nil => intro _; simp [PathIn]
    | cons n ns ih =>
      intro h
      exact ⟨h n (by simp), ih (fun m hm => h m (List.mem_cons_of_mem _ hm))⟩
  have := (cellAt_isSome_iff _ h.bins _ hs).2 (hp _ hpos)
  cases hc : cellAt h.bins ((dimsOf h.edges.axes).map (fun _ => 0)) with
  | none => simp [hc] at this
  | some c =>
    refine ⟨c, ?_, rfl⟩
    have hrep : List.replicate (Edges.dim h.edges) 0 = (dimsOf h.edges.axes).map (fun _ => 0) := by
      cases h.edges with
      | flat arr => simp [Edges.dim, Edges.axes, dimsOf]
      | nested axes =>
        simp only [Edges.dim, Edges.axes, dimsOf, List.map_map]
        induction axes with
        | nil => rfl
        | cons a rest ih => simp [List.replicate_succ, ih]
    simp only [exampleBin, hrep, getBin_of_cellAt _ _ _ hc]

/-- **Sentence (5): `IterateBins` enumerates every cell once with its own edges and context.**  For a
histogram with valid edges and regular bins whose example bin is selected, `IterateBins.run` yields, for the
cells in `iter_bins` order (`NArr.cells`: every cell exactly once, lexicographic in the index), the output
of that cell (`cellOutput`: built from *that* cell's content and *that* cell's edges, see `cell_edges_own`)
— stopping at the first cell for which building the context raises. -/
theorem iterate_bins_once (sel : D → Bool) (createEdgesStr : List (α × α) → Option V → Except (Exc ε) V)
    (encEdges : List (α × α) → V) {h : Hist α (Value D)} (he : ValidEdges h.edges)
    (hs : NArr.HasShape (dimsOf h.edges.axes) h.bins) (ctx : Option Slots)
    (hsel : ∀ b00, (exampleBin h : Except (Exc ε) (Value D)) = .ok b00 →
      sel (C14.getDataContext names b00).1 = true) :
    iterateBinsOne names sel createEdgesStr encEdges (.hist h ctx) =
      traceMapM (cellOutput names createEdgesStr encEdges (ctx.getD (emptyD names.length)) h.edges.axes)
        (NArr.cells h.bins) := by
  obtain ⟨b00, hb, _⟩ := exampleBin_ok (ε := ε) he hs
  have hidx : binIndices h.edges = (NArr.cells h.bins).map (·.1) := by
    rw [cells_fst _ _ hs]
    simp [binIndices, dimsOf, List.map_map, Function.comp_def]
  simp only [iterateBinsOne, hb, hsel b00 hb, Bool.not_true, Bool.false_eq_true, if_false, hidx]
  rw [traceMapM_map]
  apply traceMapM_congr
  rintro ⟨p, v⟩ hm
  have hc := cellAt_of_mem_cells _ p v hm
  simp only [binWithEdges, getBin_of_cellAt _ _ _ hc, cellOutput]
  cases cellEdges (ε := ε) h.edges.axes p <;> rfl

/-- the index paths `IterateBins` goes through are exactly the cells of the histogram … -/
theorem iterate_all_cells (a : NArr β) (p : List Nat) :
    p ∈ (NArr.cells a).map (·.1) ↔ (cellAt a p).isSome := by
  simp only [List.mem_map]
  constructor
  · rintro ⟨⟨q, v⟩, hm, rfl⟩
    simp [cellAt_of_mem_cells a q v hm]
  · intro h
    cases hc : cellAt a p with
    | none => simp [hc] at h
    | some v => exact ⟨(p, v), mem_cells_of_cellAt a p v hc, rfl⟩

/-- … and the edges used for the cell `p` are that cell's own: `(axes[k][p[k]], axes[k][p[k]+1])` for every
axis `k` (`cellEdges` never fails for a cell of a regular array) -/
theorem cell_edges_own {h : Hist α β} (hs : NArr.HasShape (dimsOf h.edges.axes) h.bins) (p : List Nat) (v : β)
    (hm : (p, v) ∈ NArr.cells h.bins) :
    ∃ ce, (cellEdges h.edges.axes p : Except (Exc ε) (List (α × α))) = .ok ce ∧ IsCellEdges h.edges.axes p ce := by
  have hc := cellAt_of_mem_cells _ p v hm
  have hp := (cellAt_isSome_iff _ _ p hs).1 (by simp [hc])
  exact cellEdges_spec ε h.edges.axes p hp

/-- when no cell's context construction raises, the number of values is the number of cells -/
theorem iterate_bins_count (sel : D → Bool) (createEdgesStr : List (α × α) → Option V → Except (Exc ε) V)
    (encEdges : List (α × α) → V) {h : Hist α (Value D)} (he : ValidEdges h.edges)
    (hs : NArr.HasShape (dimsOf h.edges.axes) h.bins) (ctx : Option Slots)
    (hsel : ∀ b00, (exampleBin h : Except (Exc ε) (Value D)) = .ok b00 →
      sel (C14.getDataContext names b00).1 = true)
    (g : List Nat × Value D → FVal α D)
    (hok : ∀ pc ∈ NArr.cells h.bins,
      cellOutput names createEdgesStr encEdges (ctx.getD (emptyD names.length)) h.edges.axes pc = .ok (g pc)) :
    iterateBinsOne names sel createEdgesStr encEdges (.hist h ctx) = ⟨(NArr.cells h.bins).map g, none⟩ := by
  rw [iterate_bins_once names sel createEdgesStr encEdges he hs ctx hsel]
  exact traceMapM_ok _ g _ hok

/-- **Sentence (5), the cell's context.**  For a cell whose own context has neither `bins` nor `bin`: the
yielded context is the cell's context with `bins` = the histogram's context and `bin` = `{edges: the cell's
edges, edges_str: create_edges_str(edges, histogram context.variable)}`; the data is the cell's data. -/
theorem iterate_cell_context (createEdgesStr : List (α × α) → Option V → Except (Exc ε) V)
    (encEdges : List (α × α) → V) (hk : kBin names ≠ kBins names) (hctx : Slots) (histc : Value D)
    (be : List (α × α)) (es : V)
    (hes : createEdgesStr be (getSlot hctx (C14.kVariable names)) = .ok es)
    (h1 : getSlot (C14.getDataContext names histc).2 (kBins names) = none)
    (h2 : getSlot (C14.getDataContext names histc).2 (kBin names) = none) :
    binContext names createEdgesStr encEdges hctx histc be =
      .ok (.pair (C14.getDataContext names histc).1
        (setSlot (setSlot (C14.getDataContext names histc).2 (kBins names) (some (.dict hctx))) (kBin names)
          (some (.dict (setSlot (setSlot (emptyD names.length) (kEdges names) (some (encEdges be)))
            (kEdgesStr names) (some es)))))) := by
  have h3 : getSlot (setSlot (C14.getDataContext names histc).2 (kBins names) (some (.dict hctx))) (kBin names) = none := by
    rw [getSlot_setSlot']; simp [hk, h2]
  simp only [binContext, hes, updateNested, h1, h3]

/-- values that are not histograms pass `IterateBins` unchanged -/
theorem iterate_passes (sel : D → Bool) (createEdgesStr : List (α × α) → Option V → Except (Exc ε) V)
    (encEdges : List (α × α) → V) (v : Value D) :
    iterateBinsOne names sel createEdgesStr encEdges (.plain v : FVal α D) = ⟨[.plain v], none⟩ := rfl

/-- histograms whose example bin is not selected pass unchanged -/
theorem iterate_passes_unselected (sel : D → Bool) (createEdgesStr : List (α × α) → Option V → Except (Exc ε) V)
    (encEdges : List (α × α) → V) (h : Hist α (Value D)) (ctx : Option Slots) (b00 : Value D)
    (hb : (exampleBin h : Except (Exc ε) (Value D)) = .ok b00)
    (hsel : sel (C14.getDataContext names b00).1 = false) :
    iterateBinsOne names sel createEdgesStr encEdges (.hist h ctx) = ⟨[.hist h ctx], none⟩ := by
  simp [iterateBinsOne, hb, hsel]

/-! ### `MapBins` -/

theorem startCell_ok_iff (seqStart : Value D → Except ε (Trace (Value D) ε)) (cell : Value D)
    (t' : Trace (Value D) (Exc ε)) :
    startCell seqStart cell = .ok t' ↔ ∃ t, seqStart cell = .ok t ∧ t' = t.liftInner := by
  unfold startCell
  cases seqStart cell with
  | error e => simp
  | ok t => simp [eq_comm]

theorem startCell_error_iff (seqStart : Value D → Except ε (Trace (Value D) ε)) (cell : Value D) (e : Exc ε) :
    startCell seqStart cell = .error e ↔ ∃ e', seqStart cell = .error e' ∧ e = .inner e' := by
  unfold startCell
  cases seqStart cell with
  | error e0 => simp [eq_comm]
  | ok t => simp

/-- what `mapBinsOne` does with a selected histogram with valid edges and regular bins: the generators of
all cells are created first (`mdMapE startCell`), then iterated in lockstep -/
theorem mapBinsOne_selected (seqStart : Value D → Except ε (Trace (Value D) ε)) (sel : Value D → Bool)
    (drop : Bool) {h : Hist α (Value D)} (he : ValidEdges h.edges)
    (hs : NArr.HasShape (dimsOf h.edges.axes) h.bins) (ctx : Option Slots)
    (hsel : ∀ b00, (exampleBin h : Except (Exc ε) (Value D)) = .ok b00 → sel b00 = true) :
    mapBinsOne names seqStart sel drop (.hist h ctx) =
      (match mdMapE (startCell seqStart) .lenaTypeError .unmodelled h.bins with
       | .error e => ⟨[], some e⟩
       | .ok traces =>
         mdSeqMapRun (mapBinsResult names drop h.edges (ctx.getD (emptyD names.length))) traces) := by
  obtain ⟨b00, hb, _⟩ := exampleBin_ok (ε := ε) he hs
  simp only [mapBinsOne, hb, hsel b00 hb, Bool.not_true, Bool.false_eq_true, if_false]
  rfl

/-- **Sentence (6): `MapBins` returns histograms of identical shape and edges whose every cell is the
sequence applied to the corresponding cell.**  For a selected histogram with valid edges and regular bins,
the `j`-th value yielded is a histogram with context, over the same edges, with bins of the same regular
shape, and its cell `p` holds the `j`-th result of a fresh copy of the sequence run on the cell `p` alone —
its data part when `drop_bins_context` is set. -/
theorem map_bins_shape (seqStart : Value D → Except ε (Trace (Value D) ε)) (sel : Value D → Bool) (drop : Bool)
    {h : Hist α (Value D)} (he : ValidEdges h.edges) (hs : NArr.HasShape (dimsOf h.edges.axes) h.bins)
    (ctx : Option Slots)
    (hsel : ∀ b00, (exampleBin h : Except (Exc ε) (Value D)) = .ok b00 → sel b00 = true)
    (j : Nat) (fv : FVal α D)
    (hj : (mapBinsOne names seqStart sel drop (.hist h ctx)).out[j]? = some fv) :
    ∃ h' c', fv = .hist h' (some c') ∧ h'.edges = h.edges ∧ NArr.HasShape (dimsOf h.edges.axes) h'.bins ∧
      ∀ p cell, cellAt h.bins p = some cell →
        ∃ t r, seqStart cell = .ok t ∧ t.out[j]? = some r ∧
          cellAt h'.bins p = some (if drop then dataOnly names r else r) := by
  rw [mapBinsOne_selected names seqStart sel drop he hs ctx hsel] at hj
  cases hd : dimsOf h.edges.axes with
  | nil => exact absurd hd (dimsOf_ne_nil' he)
  | cons n ns =>
    have hs' := hs
    rw [hd] at hs'
    cases hst0 : mdMapE (startCell seqStart) (Exc.lenaTypeError : Exc ε) .unmodelled h.bins with
    | error e => simp [hst0] at hj
    | ok traces =>
    simp only [hst0] at hj
    obtain ⟨hst, hcok⟩ := (mdMapE_char (startCell seqStart) _ _ (n :: ns) h.bins hs' (by simp)).1 traces hst0
    obtain ⟨result, hsh, hc, hm⟩ := mdSeqMapRun_out _ _ hst (by simp) j _ hj
    have hcells : ∀ p cell, cellAt h.bins p = some cell →
        ∃ t r, seqStart cell = .ok t ∧ t.out[j]? = some r ∧ cellAt result p = some r := by
      intro p cell hp
      obtain ⟨t', ht', hct⟩ := hcok p cell hp
      obtain ⟨t, hst1, rfl⟩ := (startCell_ok_iff seqStart cell t').1 ht'
      obtain ⟨r, hr, hcr⟩ := hc p _ hct
      exact ⟨t, r, hst1, hr, hcr⟩
    unfold mapBinsResult at hm
    cases drop with
    | true =>
      simp only [if_true, mdMap_ok _ ns n result hsh, liftErr] at hm
      cases hmk : (mkHistogram h.edges (NArr.map (dataOnly names) result) : Except (Exc ε) (Hist α (Value D))) with
      | error e => simp [hmk] at hm
      | ok nh =>
        have := mkHistogram_eq hmk
        subst this
        simp only [hmk] at hm
        cases hex : (exampleOfArray result : Except (Exc ε) (Value D)) with
        | error e => simp [hex] at hm
        | ok ex =>
          simp only [hex] at hm
          have hshape : NArr.HasShape (n :: ns) (NArr.map (dataOnly names) result) := hasShape_map _ _ _ hsh
          have hcell' : ∀ p cell, cellAt h.bins p = some cell →
              ∃ t r, seqStart cell = .ok t ∧ t.out[j]? = some r ∧
                cellAt (NArr.map (dataOnly names) result) p = some (dataOnly names r) := by
            intro p cell hp
            obtain ⟨t, r, hst1, hr, hcr⟩ := hcells p cell hp
            exact ⟨t, r, hst1, hr, by simp [cellAt_map, hcr]⟩
          split at hm
          · split at hm
            · simp at hm
            · simp only [Except.ok.injEq] at hm
              exact ⟨_, _, hm.symm, rfl, hshape, by simpa using hcell'⟩
          · simp only [Except.ok.injEq] at hm
            exact ⟨_, _, hm.symm, rfl, hshape, by simpa using hcell'⟩
    | false =>
      simp only [Bool.false_eq_true, if_false] at hm
      cases hmk : (mkHistogram h.edges result : Except (Exc ε) (Hist α (Value D))) with
      | error e => simp [hmk] at hm
      | ok nh =>
        have := mkHistogram_eq hmk
        subst this
        simp only [hmk] at hm
        cases hex : (exampleOfArray result : Except (Exc ε) (Value D)) with
        | error e => simp [hex] at hm
        | ok ex =>
          simp only [hex] at hm
          split at hm
          · split at hm
            · simp at hm
            · simp only [Except.ok.injEq] at hm
              exact ⟨_, _, hm.symm, rfl, hsh, by simpa using hcells⟩
          · simp only [Except.ok.injEq] at hm
            exact ⟨_, _, hm.symm, rfl, hsh, by simpa using hcells⟩

/-- **Sentence (6): cell `p` of the result depends on cell `p` of the input only** — no state of the
sequence leaks from one cell to another, whatever the sequence does internally (`seqStart` is *any*
function of the cell: a fresh copy of a stateful sequence).  Take two histograms over valid edges of the
same shape that agree in the cell `p` (all other cells, and the contexts, may differ): whenever both runs
yield a `j`-th histogram, these agree in the cell `p`. -/
theorem map_bins_cells_independent (seqStart : Value D → Except ε (Trace (Value D) ε)) (sel : Value D → Bool)
    (drop : Bool) {h1 h2 : Hist α (Value D)} (he1 : ValidEdges h1.edges) (he2 : ValidEdges h2.edges)
    (hs1 : NArr.HasShape (dimsOf h1.edges.axes) h1.bins) (hs2 : NArr.HasShape (dimsOf h2.edges.axes) h2.bins)
    (ctx1 ctx2 : Option Slots)
    (hsel1 : ∀ b00, (exampleBin h1 : Except (Exc ε) (Value D)) = .ok b00 → sel b00 = true)
    (hsel2 : ∀ b00, (exampleBin h2 : Except (Exc ε) (Value D)) = .ok b00 → sel b00 = true)
    (p : List Nat) (cell : Value D) (hp1 : cellAt h1.bins p = some cell) (hp2 : cellAt h2.bins p = some cell)
    (j : Nat) (fv1 fv2 : FVal α D)
    (hj1 : (mapBinsOne names seqStart sel drop (.hist h1 ctx1)).out[j]? = some fv1)
    (hj2 : (mapBinsOne names seqStart sel drop (.hist h2 ctx2)).out[j]? = some fv2) :
    ∃ h1' c1 h2' c2 r, fv1 = .hist h1' (some c1) ∧ fv2 = .hist h2' (some c2) ∧
      cellAt h1'.bins p = some r ∧ cellAt h2'.bins p = some r := by
  obtain ⟨h1', c1, hf1, _, _, hc1⟩ := map_bins_shape names seqStart sel drop he1 hs1 ctx1 hsel1 j fv1 hj1
  obtain ⟨h2', c2, hf2, _, _, hc2⟩ := map_bins_shape names seqStart sel drop he2 hs2 ctx2 hsel2 j fv2 hj2
  obtain ⟨t1, r1, hst1, hr1, hcell1⟩ := hc1 p cell hp1
  obtain ⟨t2, r2, hst2, hr2, hcell2⟩ := hc2 p cell hp2
  rw [hst1] at hst2
  simp only [Except.ok.injEq] at hst2
  subst hst2
  rw [hr1] at hr2
  simp only [Option.some.injEq] at hr2
  subst hr2
  exact ⟨h1', c1, h2', c2, _, hf1, hf2, hcell1, hcell2⟩

/-- `MapBins` yields no more histograms than the sequence yields results on any cell (the minimum over the
cells when it ends normally: `mdSeqMapRun_stop`) -/
theorem map_bins_count_le (seqStart : Value D → Except ε (Trace (Value D) ε)) (sel : Value D → Bool) (drop : Bool)
    {h : Hist α (Value D)} (he : ValidEdges h.edges) (hs : NArr.HasShape (dimsOf h.edges.axes) h.bins)
    (ctx : Option Slots)
    (hsel : ∀ b00, (exampleBin h : Except (Exc ε) (Value D)) = .ok b00 → sel b00 = true)
    (p : List Nat) (cell : Value D) (hp : cellAt h.bins p = some cell) (t : Trace (Value D) ε)
    (ht : seqStart cell = .ok t) :
    (mapBinsOne names seqStart sel drop (.hist h ctx)).out.length ≤ t.out.length := by
  rw [mapBinsOne_selected names seqStart sel drop he hs ctx hsel]
  cases hd : dimsOf h.edges.axes with
  | nil => exact absurd hd (dimsOf_ne_nil' he)
  | cons n ns =>
    have hs' := hs
    rw [hd] at hs'
    cases hst0 : mdMapE (startCell seqStart) (Exc.lenaTypeError : Exc ε) .unmodelled h.bins with
    | error e => simp
    | ok traces =>
      simp only []
      obtain ⟨hst, hcok⟩ := (mdMapE_char (startCell seqStart) _ _ (n :: ns) h.bins hs' (by simp)).1 traces hst0
      obtain ⟨t', ht', hct⟩ := hcok p cell hp
      obtain ⟨t0, hst1, rfl⟩ := (startCell_ok_iff seqStart cell t').1 ht'
      rw [ht] at hst1
      simp only [Except.ok.injEq] at hst1
      subst hst1
      exact mdSeqMapRun_length_le _ _ hst (by simp) p _ hct

/-- **Exceptions at creation**: `Sequence.run` is evaluated immediately, so a cell on which the sequence
raises when it is started (e.g. an accumulator inside it refuses the cell) makes `MapBins` raise that
exception before anything is yielded; conversely, when `MapBins` raises before the first round's `next`,
some cell's sequence raised it. -/
theorem map_bins_start_error (seqStart : Value D → Except ε (Trace (Value D) ε)) (sel : Value D → Bool)
    (drop : Bool) {h : Hist α (Value D)} (he : ValidEdges h.edges)
    (hs : NArr.HasShape (dimsOf h.edges.axes) h.bins) (ctx : Option Slots)
    (hsel : ∀ b00, (exampleBin h : Except (Exc ε) (Value D)) = .ok b00 → sel b00 = true) :
    (∀ e, mdMapE (startCell seqStart) (Exc.lenaTypeError : Exc ε) .unmodelled h.bins = .error e →
      mapBinsOne names seqStart sel drop (.hist h ctx) = ⟨[], some e⟩ ∧
      ∃ p cell e', cellAt h.bins p = some cell ∧ seqStart cell = .error e' ∧ e = .inner e') ∧
    ((∀ p cell, cellAt h.bins p = some cell → ∃ t, seqStart cell = .ok t) →
      ∃ traces, mdMapE (startCell seqStart) (Exc.lenaTypeError : Exc ε) .unmodelled h.bins = .ok traces) := by
  have hd := dimsOf_ne_nil' he
  have hchar := mdMapE_char (startCell seqStart) (Exc.lenaTypeError : Exc ε) .unmodelled _ h.bins hs hd
  refine ⟨?_, ?_⟩
  · intro e hst0
    refine ⟨by rw [mapBinsOne_selected names seqStart sel drop he hs ctx hsel, hst0], ?_⟩
    obtain ⟨p, cell, hp, hf⟩ := hchar.2 e hst0
    obtain ⟨e', he', hee⟩ := (startCell_error_iff seqStart cell e).1 hf
    exact ⟨p, cell, e', hp, he', hee⟩
  · intro hall
    cases hst0 : mdMapE (startCell seqStart) (Exc.lenaTypeError : Exc ε) .unmodelled h.bins with
    | ok traces => exact ⟨traces, rfl⟩
    | error e =>
      obtain ⟨p, cell, hp, hf⟩ := hchar.2 e hst0
      obtain ⟨e', he', _⟩ := (startCell_error_iff seqStart cell e).1 hf
      obtain ⟨t, ht⟩ := hall p cell hp
      rw [ht] at he'
      simp at he'

/-- values that are not histograms, and histograms whose example bin is not selected, pass `MapBins`
unchanged -/
theorem map_bins_passes (seqStart : Value D → Except ε (Trace (Value D) ε)) (sel : Value D → Bool) (drop : Bool) :
    (∀ v : Value D, mapBinsOne names seqStart sel drop (.plain v : FVal α D) = ⟨[.plain v], none⟩) ∧
    (∀ (h : Hist α (Value D)) (ctx : Option Slots) (b00 : Value D),
      (exampleBin h : Except (Exc ε) (Value D)) = .ok b00 → sel b00 = false →
      mapBinsOne names seqStart sel drop (.hist h ctx) = ⟨[.hist h ctx], none⟩) := by
  refine ⟨fun v => rfl, ?_⟩
  intro h ctx b00 hb hsel
  simp [mapBinsOne, hb, hsel]

end Bins

/-- **Sentence (5), "once"**: the index paths that `IterateBins` goes through (`iterate_bins_once`) are
strictly increasing in lexicographic order — so no cell is visited twice — and they are exactly the cells
(`iterate_all_cells`). -/
theorem iterate_each_cell_once {dims : List Nat} {a : NArr β} (hs : NArr.HasShape dims a) :
    ((NArr.cells a).map (·.1)).Pairwise LexLt ∧ ((NArr.cells a).map (·.1)).Nodup ∧
    ∀ p, p ∈ (NArr.cells a).map (·.1) ↔ PathIn p dims := by
  refine ⟨(cells_sorted hs).1, (cells_sorted hs).2, ?_⟩
  intro p
  rw [iterate_all_cells, cellAt_isSome_iff dims a p hs]

/-! ## extension: a second `compute()`, two-level splits, `cell_to_string` options,
constructors, the Boolean twins of the specification vocabulary -/
section Extension
variable [LT α] [LE α] [DecidableLT α] [DecidableLE α] [DecidableEq α]
  [Std.IsLinearOrder α] [Std.LawfulOrderLT α]
variable (names : List String)

theorem setSlot_setSlot' : ∀ (l : Slots) (i : Nat) (v w : Option V), setSlot (setSlot l i v) i w = setSlot l i w
  | [], 0, v, w => rfl
  | [], i + 1, v, w => by simp [setSlot, setSlot_setSlot' [] i v w]
  | x :: r, 0, v, w => rfl
  | x :: r, i + 1, v, w => by simp [setSlot, setSlot_setSlot' r i v w]

/-- `_update_context` with an untyped variable on a context that the same variable has just been written
into changes nothing (the variable's context is truthy or not, it has neither `type` nor `compose`) -/
theorem updateContext_idempotent (cur vc : Slots) (hcur : getSlot cur (C14.kVariable names) = none)
    (ht : C14.hasKey vc (C14.kType names) = false) (hc : C14.hasKey vc (C14.kCompose names) = false) :
    ∃ ctx, C14.updateContext names true cur vc = .ok ctx ∧ C14.updateContext names true ctx vc = .ok ctx := by
  refine ⟨setSlot cur (C14.kVariable names) (some (.dict vc)), variable_fresh names cur vc hcur, ?_⟩
  have hu : C14.updateVar names true (some (.dict vc)) vc = .ok vc := by
    unfold C14.updateVar
    by_cases htr : C14.V.truthy (.dict vc) = true
    · simp [htr, ht, hc]
    · simp [htr]
  simp [C14.updateContext, getSlot_setSlot', hu, setSlot_setSlot']

/-- **A second `compute()`** (not part of the property's statement; modelled because `_update_context` works on
`_cur_context` in place).  For a flow without `context.variable` and an *untyped* argument variable, iterating
`compute()` again on the same object yields exactly the same histograms and contexts (the cells' generators are
recreated; the analysis' `compute` is assumed not to change its state). -/
theorem compute_twice_untyped (an : Analysis σ D ρ ε) (av : ArgVar α D ε) (s : SIB α σ)
    (hcur : getSlot s.curContext (C14.kVariable names) = none)
    (ht : C14.hasKey av.varCtx (C14.kType names) = false)
    (hc : C14.hasKey av.varCtx (C14.kCompose names) = false) :
    SIB.computeAgain names an av s = SIB.compute names an av s := by
  obtain ⟨ctx, h1, h2⟩ := updateContext_idempotent names s.curContext av.varCtx hcur ht hc
  simp only [SIB.computeAgain, SIB.afterCompute, h1, SIB.compute, h2]

/-- … whereas a *typed* variable is composed with itself: the contexts of the second run differ
(`compose: [t, t]`).  Witness: the variable `Variable("x", …, type="t")` on an empty context. -/
theorem compute_twice_typed_differs :
    let names := ["compose", "name", "t", "type", "variable"]
    let vc : Slots := [none, some (.str "x"), some (.dict [none, some (.str "x"), none, none, none]), some (.str "t"), none]
    ∃ c1 c2, C14.updateContext names true (emptyD 5) vc = .ok c1 ∧ C14.updateContext names true c1 vc = .ok c2 ∧
      c1 ≠ c2 := by
  refine ⟨_, _, rfl, rfl, by decide +kernel⟩

/-! ### two-level split -/

/-- filling a `SplitIntoBins` used as the accumulator of an outer analysis is `SplitIntoBins.fill` -/
theorem analysis_fillAll_eq (an : Analysis σ D ρ ε) (av : ArgVar α D ε) (guess : Nat → Nat → Nat → Int)
    {ρ' : Type} (after : Trace (Hist α ρ × Slots) (Exc ε) → Trace ρ' (Exc ε)) :
    ∀ (flow : List (Value D)) (k : Nat) (s s' : SIB α σ),
      (SIB.analysis names an av guess after).fillAll s flow = .ok s' ↔
        SIB.fillAllFrom names an av guess k s flow = .ok s'
  | [], k, s, s' => by simp [Analysis.fillAll, SIB.fillAllFrom]
  | v :: vs, k, s, s' => by
    simp only [Analysis.fillAll, SIB.fillAllFrom, SIB.analysis]
    cases hf : SIB.fill names an av guess s v with
    | error e => simp
    | ok s1 => exact analysis_fillAll_eq an av guess after vs (k + 1) s1 s'

/-- **Two-level split** (`SplitIntoBins` around `FillComputeSeq(SplitIntoBins(analysis, …), *after)`): after
any accepted flow, the inner cell `q` of the outer cell `p` holds exactly what the innermost analysis computes
from the values routed to `p` by the outer variable *and* to `q` by the inner variable, in arrival order.
(The generic theorems apply twice, because a `SplitIntoBins` is itself a fill/compute machine.) -/
theorem two_level_cells {α' : Type} [LT α'] [LE α'] [DecidableLT α'] [DecidableLE α'] [DecidableEq α']
    [Std.IsLinearOrder α'] [Std.LawfulOrderLT α']
    (an : Analysis σ D ρ ε) (avI : ArgVar α' D ε) (gI : Nat → Nat → Nat → Int)
    {ρ' : Type} (after : Trace (Hist α' ρ × Slots) (Exc ε) → Trace ρ' (Exc ε))
    (avO : ArgVar α D (Exc ε)) (gO : Nat → Nat → Nat → Int)
    {seqI : Option σ} {bI bO : Bool} {edgesI : Edges α'} {edgesO : Edges α}
    {sI0 : SIB α' σ} {sO0 sO : SIB α (SIB α' σ)} (flow : List (Value D))
    (hnewI : (SIB.new names seqI bI edgesI : Except (Exc ε) (SIB α' σ)) = .ok sI0)
    (hnewO : (SIB.new names (some sI0) bO edgesO : Except (Exc (Exc ε)) (SIB α (SIB α' σ))) = .ok sO0)
    (hrun : SIB.fillAll names (SIB.analysis names an avI gI after) avO gO sO0 flow = .ok sO) :
    ∃ init, seqI = some init ∧
      ∀ p, PathIn p (dimsOf edgesO.axes) →
        ∃ sI, cellAt sO.bins p = some sI ∧ sI.edges = edgesI ∧
          ∀ q, PathIn q (dimsOf edgesI.axes) →
            ∃ c, cellAt sI.bins q = some c ∧
              an.fillAll init
                (subflow names avI gI edgesI (dimsOf edgesI.axes) q
                  (subflow names avO gO edgesO (dimsOf edgesO.axes) p flow)) = .ok c := by
  obtain ⟨s00, hs00, _, _, hcellsO⟩ :=
    cell_is_subflow names (SIB.analysis names an avI gI after) avO gO flow hnewO hrun
  simp only [Option.some.injEq] at hs00
  subst hs00
  obtain ⟨init, hseq, _, _⟩ := new_ok_inv names hnewI
  refine ⟨init, hseq, ?_⟩
  intro p hp
  obtain ⟨sI, hsI, hfill⟩ := hcellsO p hp
  have hfill' := (analysis_fillAll_eq names an avI gI after _ 0 sI0 sI).1 hfill
  obtain ⟨init', hseq', hedI, _, hcellsI⟩ := cell_is_subflow names an avI gI _ hnewI hfill'
  rw [hseq] at hseq'
  simp only [Option.some.injEq] at hseq'
  subst hseq'
  exact ⟨sI, hsI, hedI, hcellsI⟩

/-! ### `cell_to_string` with keyword arguments, constructors -/

theorem joinWith_underscore : ∀ l : List String, joinWith "_" l = joinUnderscore l
  | [] => rfl
  | [s] => rfl
  | s :: t :: r => by simp [joinWith, joinUnderscore, joinWith_underscore (t :: r)]

/-- the default keyword arguments give the default `cell_to_string` -/
theorem cellToStringOpts_default (fmt : α → String) (ce : List (α × α)) (vc : Option V) :
    (cellToStringOpts names fmt {} ce vc : Except (Exc ε) V) = cellToString names fmt ce vc := by
  unfold cellToStringOpts cellToString
  cases coordNames (ε := ε) names ce.length vc with
  | error e => rfl
  | ok cn =>
    by_cases h : ce.length ≠ cn.length
    · simp [h]
    · simp [h, joinWith_underscore, String.append_assoc]

/-- explicit `coord_names`: the variable context is not consulted; a wrong number of names is a
`LenaValueError`; otherwise the coordinates are formatted one by one, reversed on demand, and joined -/
theorem cellToStringOpts_names (fmt : α → String) (o : CtsOpts) (cn : List String) (ho : o.coordNames = some cn)
    (ce : List (α × α)) (vc : Option V) :
    (cellToStringOpts names fmt o ce vc : Except (Exc ε) V) =
      if ce.length ≠ cn.length then .error .lenaValueError
      else .ok (.str (joinWith o.join
        ((fun l => if o.reverse then l.reverse else l)
          (List.zipWith (fun (e : α × α) nm =>
            o.fmtPre ++ fmt e.1 ++ o.fmtMid1 ++ nm ++ o.fmtMid2 ++ fmt e.2 ++ o.fmtPost) ce cn)))) := by
  simp only [cellToStringOpts, ho]

/-- the constructors reject exactly the arguments that are not callable / not convertible -/
theorem iterateBinsInit_ok_iff (a b : Bool) :
    (iterateBinsInit a b : Except (Exc ε) Unit) = .ok () ↔ a = true ∧ b = true := by
  cases a <;> cases b <;> simp [iterateBinsInit]

theorem mapBinsInit_ok_iff (a b : Bool) :
    (mapBinsInit a b : Except (Exc ε) Unit) = .ok () ↔ a = true ∧ b = true := by
  cases a <;> cases b <;> simp [mapBinsInit]

/-! ### the Boolean twins that the driver evaluates are the propositions of the theorems -/

theorem inCellB_iff : ∀ (axes : List (List α)) (xs : List α) (idx : List Nat),
    inCellB axes xs idx = true ↔ InCell axes xs idx
  | [], [], [] => by simp [inCellB, InCell]
  | [], [], _ :: _ => by simp [inCellB, InCell]
  | [], _ :: _, _ => by simp [inCellB, InCell]
  | _ :: _, [], _ => by simp [inCellB, InCell]
  | _ :: _, _ :: _, [] => by simp [inCellB, InCell]
  | arr :: axes, x :: xs, i :: idx => by
    simp only [inCellB, InCell, Bool.and_eq_true, inCellB_iff axes xs idx]
    constructor
    · rintro ⟨h, hr⟩
      refine ⟨?_, hr⟩
      cases h1 : arr[i]? with
      | none => simp [h1] at h
      | some lo =>
        cases h2 : arr[i + 1]? with
        | none => simp [h1, h2] at h
        | some hi =>
          simp only [h1, h2, Bool.and_eq_true, decide_eq_true_eq] at h
          obtain ⟨hl2, e2⟩ := List.getElem?_eq_some_iff.1 h2
          obtain ⟨_, e1⟩ := List.getElem?_eq_some_iff.1 h1
          exact ⟨hl2, by rw [e1]; exact h.1, by rw [e2]; exact h.2⟩
    · rintro ⟨⟨hl, h1, h2⟩, hr⟩
      refine ⟨?_, hr⟩
      have hl' : i < arr.length := by omega
      simp [List.getElem?_eq_getElem hl, List.getElem?_eq_getElem hl', h1, h2]

end Extension

/-! ## non-vacuity: concrete instances of the hypotheses (tests, not theorems) -/
section Examples
open Lena.C06 (exEdges exEdges_valid midGuess midGuess_ok ex_inCell ex_noCell)

/-- an analysis that stores the data parts; `compute()` yields the number of stored values -/
def exAn : Analysis (List (List Int)) (List Int) Nat Unit where
  fill := fun s v => .ok (s ++ [(C14.getDataContext [] v).1])
  compute := fun s => ⟨[s.length], none⟩

/-- the argument variable: the data is the coordinate tuple; its `var_context` is empty here -/
def exAv : ArgVar Int (List Int) Unit := ⟨fun d => .ok (.tuple d), []⟩

def exG : Nat → Nat → Nat → Int := fun _ => midGuess

def exS0 : SIB Int (List (List Int)) := ⟨exEdges, NArr.full [3, 2] [], []⟩

-- `new_valid`: a 3 × 2 mesh of empty analyses
example : (SIB.new [] (some []) true exEdges : Except (Exc Unit) (SIB Int (List (List Int)))) = .ok exS0 :=
  new_valid [] exEdges_valid []

-- `route_inCell`: the point (3, 1) is routed to the cell (2, 1); `route_outside`: (3, 6) is ignored
theorem ex_route_in : route [] exAv exG exEdges [3, 2] (.bare [3, 1]) = .ok (some [2, 1]) :=
  (route_inCell [] exAv exG exEdges_valid (fun _ => midGuess_ok) (v := .bare [3, 1]) rfl
    (Proper.nested _ _ rfl) [2, 1]).2 ex_inCell

theorem ex_route_out : route [] exAv exG exEdges [3, 2] (.bare [3, 6]) = .ok none :=
  (route_outside [] exAv exG exEdges_valid (fun _ => midGuess_ok) (v := .bare [3, 6]) rfl
    (Proper.nested _ _ rfl)).2 ex_noCell

def exS1 : SIB Int (List (List Int)) :=
  ⟨exEdges, .node [.node [.leaf [], .leaf []], .node [.leaf [], .leaf []], .node [.leaf [], .leaf [[3, 1]]]], []⟩

-- `fill_one`, `outside_ignored`: the hypotheses of `cell_is_subflow` / `cells_share_nothing` /
-- `context_is_last_inside` hold for the flow (3, 1), (3, 6)
theorem ex_fill1 : SIB.fill [] exAn exAv exG exS0 (.bare [3, 1]) = .ok exS1 := by
  obtain ⟨c, hc, _, hok⟩ := (fill_one [] exAn exAv exG (s := exS0) exEdges_valid (C06.hasShape_full _ _)
    (.bare [3, 1])).2.2 [2, 1] ex_route_in
  have : c = [] := cellAt_full [] [3, 2] [2, 1] c hc
  subst this
  rw [hok [[3, 1]] rfl]
  rfl

theorem ex_fill2 : SIB.fill [] exAn exAv exG exS1 (.bare [3, 6]) = .ok exS1 :=
  outside_ignored [] exAn exAv exG (s := exS1) exEdges_valid
    (by simp [exS1, exEdges, dimsOf, Edges.axes, NArr.HasShape]) (.bare [3, 6]) ex_route_out

example : SIB.fillAll [] exAn exAv exG exS0 [.bare [3, 1], .bare [3, 6]] = .ok exS1 := by
  simp [SIB.fillAll, SIB.fillAllFrom, ex_fill1, ex_fill2]

-- `result_shape`, `compute_complete`, …: `compute()` of that state yields one histogram of counts
example : C14.updateContext [] true exS1.curContext exAv.varCtx = .ok [some (.dict [])] := rfl
example : (SIB.compute [] exAn exAv exS1).out.map (fun hc => hc.1.bins) =
    [.node [.node [.leaf 0, .leaf 0], .node [.leaf 0, .leaf 0], .node [.leaf 0, .leaf 1]]] := by rfl

-- exceptions as outcomes: an analysis that refuses every value (`fill_error_is_cells`) and whose generator
-- raises at once (`compute_raise`)
def exBad : Analysis (List (List Int)) (List Int) Nat Unit where
  fill := fun _ _ => .error ()
  compute := fun _ => ⟨[], some ()⟩

example : SIB.fillAll [] exBad exAv exG exS0 [.bare [3, 1], .bare [3, 6]] = .error (0, .inner ()) := by
  obtain ⟨c, _, herr, _⟩ := (fill_one [] exBad exAv exG (s := exS0) exEdges_valid (C06.hasShape_full _ _)
    (.bare [3, 1])).2.2 [2, 1] ex_route_in
  simp [SIB.fillAll, SIB.fillAllFrom, herr () rfl]

example : (SIB.compute [] exBad exAv exS0).fin = some (.inner ()) ∧ (SIB.compute [] exBad exAv exS0).out = [] := by
  constructor <;> rfl

-- `iterate_bins_once`, `iterate_cell_context`, `map_bins_shape`: a histogram of two cells with contexts
def exH : Hist Int (Value Int) := ⟨.flat [0, 2, 4], .node [.leaf (.pair 7 [none, none]), .leaf (.bare 8)]⟩
theorem exH_valid : ValidEdges exH.edges := by
  refine ⟨by simp [exH, Edges.axes], ?_⟩
  intro arr h
  simp only [exH, Edges.axes, List.mem_cons, List.not_mem_nil, or_false] at h
  subst h
  exact ⟨by decide, by unfold C06.StrictInc; decide⟩
example : NArr.HasShape (dimsOf exH.edges.axes) exH.bins := by simp [exH, dimsOf, Edges.axes, NArr.HasShape]
example : (iterateBinsOne ["bin", "bins"] (fun _ => true) (fun _ _ => (.ok (.str "s") : Except (Exc Unit) V))
    (encEdges V.int) (.hist exH none)).out.length = 2 := by decide
example : kBin ["bin", "bins"] ≠ kBins ["bin", "bins"] := by decide
example : ((mapBinsOne ["bin", "bins"] (fun c => (.ok ⟨[c, c], none⟩ : Except Unit (Trace (Value Int) Unit))) (fun _ => true) true
    (.hist exH none)).out.map (fun fv => match fv with | .hist h _ => some h.bins | .plain _ => none)) =
    [some (.node [.leaf (.bare 7), .leaf (.bare 8)]), some (.node [.leaf (.bare 7), .leaf (.bare 8)])] := by rfl

-- `map_bins_cells_independent`, `map_bins_start_error`: a *stateful* sequence of the correspondence check
-- (`Sequence(Sum-like accumulator, lambda s: 10 * s)`): every cell gets a fresh copy — 70 and 80, not 70 and 150
def exHV : Hist Int (Value V) := ⟨.flat [0, 2, 4], .node [.leaf (.bare (.int 7)), .leaf (.bare (.int 8))]⟩
example : ((mapBinsOne ["value"] (Conc.seqStart ["value"] [.acc 0, .scale 10]) (fun _ => true) true
    (.hist exHV none)).out.map (fun fv => match fv with | .hist h _ => some h.bins | .plain _ => none)) =
    [some (.node [.leaf (.bare (.int 70)), .leaf (.bare (.int 80))])] := by rfl
-- an accumulator that refuses a cell (a string cannot be added) raises when the sequence is started
example : mapBinsOne (α := Int) ["value"] (Conc.seqStart ["value"] [.acc 0]) (fun _ => true) true
    (.hist ⟨.flat [0, 2, 4], .node [.leaf (.bare (.int 7)), .leaf (.bare (.str "s"))]⟩ none) =
    ⟨[], some (.inner "Other:TypeError")⟩ := by rfl

end Examples

end Lena.C11
