import LenaModel.Lemmas.C11
