import LenaModel.Props.C12
import LenaModel.Model.C12Ext
import LenaModel.Lemmas.C12Spec
import LenaModel.Props.C06
/-! # C12 — property theorems, second part (`Model/C12Ext.lean`)

`iter_cells` with coordinate ranges, `get_bin_edges` / `get_bin_on_index`, the CSV text (`"{:f}"` rounding), the
element `HistToGraph`, `GroupScale.__call__`, `graph + x`, and `scale(None)` inside `scale_to`. -/

namespace Lena.C12
open Lena Lena.NArr

/-! ## `iter_cells(coord_ranges=…)`

"iter_bins, iter_bins_with_edges and iter_cells agree on content, index and edges" also when the iteration ranges are
given as coordinate ranges.  Which cells are selected is transcribed from the code (`coord_range_axis_selects`); it
differs from lena's docstring, see notes/C12_defect_2.md. -/

/-- for one axis: the two bin searches return (any interpolation guess within bounds, any non-empty edge array), and
an appended range `(lower, upper)` is a valid index range of that axis -/
theorem coordRangeAxis_valid (guess : Nat → Nat → Int) (hg : C06.GuessOK guess) (e : List Q) (hne : e ≠ []) (cr : Q × Q) :
    ∃ r, coordRangeAxis guess e cr = .ok r ∧ ∀ lo up, r = some (lo, up) → ValidRange e (some lo, some up) := by
  obtain ⟨r1, h1, l1, u1⟩ := C06.bin1d_returns guess hg e hne cr.1
  obtain ⟨r2, h2, l2, u2⟩ := C06.bin1d_returns guess hg e hne cr.2
  unfold coordRangeAxis
  simp only [h1, h2, bind, Except.bind]
  by_cases hc : (if r1 = -1 then (0 : Int) else r1) ≥ (e.length : Int) ∨ (if r2 = (e.length : Int) then r2 - 1 else r2) ≤ 0
  · exact ⟨none, by simp [hc, pure, Except.pure], by simp⟩
  · refine ⟨some (if r1 = -1 then (0 : Int) else r1, if r2 = (e.length : Int) then r2 - 1 else r2),
      by simp [hc, pure, Except.pure], ?_⟩
    intro lo up h
    simp at h
    obtain ⟨rfl, rfl⟩ := h
    constructor
    · intro l hl; simp at hl; subst hl; split <;> omega
    · intro u hu; simp at hu; subst hu; split <;> omega

theorem coordRangesLoop_valid (guess : Nat → Nat → Nat → Int) (hg : ∀ k, C06.GuessOK (guess k)) :
    ∀ (k : Nat) (axes : List (List Q)) (crs : List (Q × Q)), axes.length = crs.length → (∀ e ∈ axes, e ≠ []) →
      ∃ r, coordRangesLoop guess k axes crs = .ok r ∧ ∀ rg, r = some rg → ValidRanges axes rg
  | _, [], [], _, _ => ⟨some [], rfl, by intro rg h; simp at h; subst h; trivial⟩
  | _, [], _ :: _, h, _ => by simp at h
  | _, _ :: _, [], h, _ => by simp at h
  | k, e :: es, cr :: crs, hl, hne => by
    obtain ⟨r, hr, hv⟩ := coordRangeAxis_valid (guess k) (hg k) e (hne e List.mem_cons_self) cr
    obtain ⟨rs, hrs, hvs⟩ := coordRangesLoop_valid guess hg (k + 1) es crs (by simpa using hl)
      (fun x hx => hne x (List.mem_cons_of_mem _ hx))
    cases r with
    | none => exact ⟨none, by simp [coordRangesLoop, hr, bind, Except.bind, pure, Except.pure], by simp⟩
    | some p =>
      obtain ⟨lo, up⟩ := p
      cases rs with
      | none => exact ⟨none, by simp [coordRangesLoop, hr, hrs, bind, Except.bind, pure, Except.pure], by simp⟩
      | some rest =>
        refine ⟨some ((some lo, some up) :: rest),
          by simp [coordRangesLoop, hr, hrs, bind, Except.bind, pure, Except.pure], ?_⟩
        intro rg h
        simp at h
        subst h
        exact ⟨hv lo up rfl, hvs rest rfl⟩

/-- `iter_cells(hist, coord_ranges=crs)` with one coordinate range per axis of a well-formed histogram with
non-empty edge arrays: it raises nothing and yields either nothing or — for index ranges `rg` valid for the
histogram — exactly the cells of `iter_bins` whose index lies in every range, in the same order, with their content,
index and edges.  Any dimension, any interpolation guess within bounds. -/
theorem iter_cells_coord_ranges (guess : Nat → Nat → Nat → Int) (hg : ∀ k, C06.GuessOK (guess k)) (h : Hist) (wf : h.WF)
    (hne : h.edges.NonEmptyAxes) (cr : Q × Q) (crs : List (Q × Q)) (hl : h.edges.axes.length = (cr :: crs).length) :
    iterCellsCoord guess h false (.many (cr :: crs)) = .ok [] ∨
    ∃ r rs, ValidRanges h.edges.axes (r :: rs) ∧
      iterCellsCoord guess h false (.many (cr :: crs)) =
        .ok (((cells h.bins).filter (fun p => selAll (List.zipWith rangePred h.edges.axes (r :: rs)) p.1)).map
          (fun p => { edges := cellEdgesRef h.edges.axes p.1, bin := .leaf p.2, index := p.1 })) := by
  obtain ⟨res, hres, hv⟩ := coordRangesLoop_valid guess hg 0 h.edges.axes (cr :: crs) hl hne
  cases res with
  | none => left; simp [iterCellsCoord, hres, bind, Except.bind, pure, Except.pure]
  | some rg =>
    right
    have hvr := hv rg rfl
    cases rg with
    | nil =>
      have := validRanges_length _ _ hvr
      rw [hl] at this; simp at this
    | cons r rs =>
      exact ⟨r, rs, hvr, by simp [iterCellsCoord, hres, bind, Except.bind, iter_cells_ranges h wf r rs hvr]⟩

/-- both `ranges` and `coord_ranges`: `LenaTypeError` -/
theorem iter_cells_both_ranges (guess : Nat → Nat → Nat → Int) (h : Hist) (c : CoordRangesArg) :
    iterCellsCoord guess h true c = .error .lenaTypeError := rfl

theorem increasingPairs_eq : ∀ (e : List Q), increasingPairs e = C06.increasingPairs e
  | [] => rfl
  | [_] => rfl
  | a :: b :: rest => by simp [increasingPairs, C06.increasingPairs, increasingPairs_eq (b :: rest)]

/-- what the code selects on one axis with strictly increasing edges (`increasingPairs`, the test of
`check_edges_increasing`): with `n(v) = edgesNotAbove e v` the number of edges `≤ v`, the bins
`max(0, n(low) − 1) ≤ i < n(high) − 1`, and nothing at all when `n(high) ≤ 1`.  The bin that contains `high` has
index `n(high) − 1`: it is *not* selected (lena's docstring says it is).  In particular the branch
`if upper_bin_ind == max_ind: upper_bin_ind -= 1` (hist_functions.py:577-578) is never taken. -/
theorem coord_range_axis_selects (guess : Nat → Nat → Int) (hg : C06.GuessOK guess) (e : List Q)
    (hinc : increasingPairs e = true) (hne : e ≠ []) (lo hi : Q) :
    coordRangeAxis guess e (lo, hi) =
      .ok (if edgesNotAbove e hi ≤ 1 then none
           else some (max ((edgesNotAbove e lo : Int) - 1) 0, (edgesNotAbove e hi : Int) - 1)) := by
  have hinc' : C06.StrictInc e := (C06.increasingPairs_iff e).1 (by rw [← increasingPairs_eq]; exact hinc)
  have hc : ∀ v, edgesNotAbove e v = C06.countLE e v := fun _ => rfl
  simp only [hc]
  have h1 := C06.bin1d_spec guess lo (hg.at e lo) hinc' hne
  have h2 := C06.bin1d_spec guess hi (hg.at e hi) hinc' hne
  have k1 := C06.countLE_le_length e lo
  have k2 := C06.countLE_le_length e hi
  unfold coordRangeAxis
  simp only [h1, h2, bind, Except.bind]
  have hup : ¬ ((C06.countLE e hi : Int) - 1 = (e.length : Int)) := by omega
  simp only [hup, if_false]
  by_cases hz : C06.countLE e hi ≤ 1
  · have : (if (C06.countLE e lo : Int) - 1 = -1 then (0 : Int) else (C06.countLE e lo : Int) - 1) ≥ (e.length : Int) ∨
        (C06.countLE e hi : Int) - 1 ≤ 0 := Or.inr (by omega)
    simp [this, hz, pure, Except.pure]
  · have hlen : e.length ≠ 0 := by simpa using hne
    have : ¬ ((if (C06.countLE e lo : Int) - 1 = -1 then (0 : Int) else (C06.countLE e lo : Int) - 1) ≥ (e.length : Int) ∨
        (C06.countLE e hi : Int) - 1 ≤ 0) := by
      split <;> omega
    simp only [this, if_false, hz, pure, Except.pure]
    congr 3
    split <;> omega

/-- edges `[0, 1, 2, 3, 4]`, bins `[10, 11, 12, 13]` -/
def exHist4 : Hist :=
  { edges := .flat [0, 1, 2, 3, 4], bins := .node [.leaf 10, .leaf 11, .leaf 12, .leaf 13], nOut := 0, scale := none }

example : (iterCellsCoord (fun _ lo _ => lo) exHist4 false (.many [(1/2, 5/2)])).toOption.map
    (fun l => l.map (·.index)) = some [[0], [1]] := by decide +kernel

/-! ## `get_bin_edges`, `get_bin_on_index` -/

/-- `get_bin_edges(idx, edges)` for multidimensional edges and an index in range: the edges of that cell -/
theorem get_bin_edges_nested (es : List (List Q)) (idx : List Nat) (hin : InRange es idx) :
    getBinEdges (.tuple idx) (.nested es) = .ok (.pairs (cellEdgesRef es idx)) := by
  simp [getBinEdges, cellEdges_ok es idx hin, bind, Except.bind, pure, Except.pure]

/-- `get_bin_edges(i, edges)` and `get_bin_edges((i, …), edges)` for one-dimensional edges -/
theorem get_bin_edges_flat (e : List Q) (i : Nat) (rest : List Nat) (hi : i + 1 < e.length) :
    getBinEdges (.num i) (.flat e) = .ok (.pair e[i] e[i + 1]) ∧
    getBinEdges (.tuple (i :: rest)) (.flat e) = .ok (.pair e[i] e[i + 1]) := by
  have h0 : e[i]? = some e[i] := List.getElem?_eq_getElem (by omega)
  have h1 : e[i + 1]? = some e[i + 1] := List.getElem?_eq_getElem hi
  simp [getBinEdges, h0, h1]

/-- `get_bin_on_index(idx, bins)` returns the cell `v` exactly for the `(idx, v)` that `iter_bins` yields -/
theorem get_bin_on_index_cells (bins : NArr Q) (idx : List Nat) (v : Q) :
    getBinOnIndex (.tuple idx) bins = .ok (.leaf v) ↔ (idx, v) ∈ cells bins := by
  simp [getBinOnIndex, getBin_eq_ok_iff, mem_cells_iff]

/-! ## CSV text

"… that parse back to the edges and contents within the printed precision": a printed number is the integer
`millionths x` followed by six decimals; it differs from `x` by at most half a millionth. -/

theorem roundHalfEven_close (a b : Nat) (hb : 0 < b) :
    2 * (roundHalfEven a b * b) ≤ 2 * a + b ∧ 2 * a ≤ 2 * (roundHalfEven a b * b) + b := by
  have hdm := Nat.div_add_mod a b
  have hlt := Nat.mod_lt a hb
  have key : ∀ n, n = a / b ∨ n = a / b + 1 → (n = a / b → 2 * (a % b) ≤ b) → (n = a / b + 1 → b ≤ 2 * (a % b)) →
      2 * (n * b) ≤ 2 * a + b ∧ 2 * a ≤ 2 * (n * b) + b := by
    intro n hn h1 h2
    rcases hn with rfl | rfl
    · have := h1 rfl
      have hm : a / b * b = b * (a / b) := Nat.mul_comm _ _
      constructor <;> omega
    · have := h2 rfl
      have hm : (a / b + 1) * b = b * (a / b) + b := by rw [Nat.add_mul, Nat.mul_comm]; simp
      constructor <;> omega
  unfold roundHalfEven
  simp only
  split
  · exact key _ (Or.inl rfl) (fun _ => by omega) (fun h => by omega)
  · split
    · exact key _ (Or.inr rfl) (fun h => by omega) (fun _ => by omega)
    · split
      · exact key _ (Or.inl rfl) (fun _ => by omega) (fun h => by omega)
      · exact key _ (Or.inr rfl) (fun h => by omega) (fun _ => by omega)

/-- the precision of `"{:f}"`: the printed value `millionths x / 10⁶` is within half a millionth of `|x|`
(stated without division: `x = num/den`) -/
theorem fmt_precision (x : Q) :
    2 * (millionths x * x.den) ≤ 2 * (x.num.natAbs * 1000000) + x.den ∧
    2 * (x.num.natAbs * 1000000) ≤ 2 * (millionths x * x.den) + x.den :=
  roundHalfEven_close _ _ x.den_pos

example : fmtF (1 / 3) = "0.333333" ∧ fmtF (-5 / 2) = "-2.500000" ∧ fmtF (3 / 128) = "0.023438" ∧
    fmtF (1 / 128) = "0.007812" := by decide +kernel

/-- the lines of the CSV text: the header (if not empty), then one line per row, each the `"{:f}"` numbers of the
row joined by the separator; the text joins them with `row_end + "\n"` and ends with `last_row_end` -/
theorem csv_text_spec (f : CsvFormat) (rows : List (List Q)) :
    csvText f rows = (f.rowEnd ++ "\n").intercalate (csvLines f rows) ++ f.lastRowEnd ∧
    csvLines f rows = (match f.header with | none => [] | some h => if h.isEmpty then [] else [h]) ++
      rows.map (fun row => f.separator.intercalate (row.map fmtF)) ∧
    (csvLines f rows).length = rows.length + (match f.header with | none => 0 | some h => if h.isEmpty then 0 else 1) := by
  refine ⟨rfl, rfl, ?_⟩
  unfold csvLines
  cases f.header with
  | none => simp
  | some h => by_cases hh : h.isEmpty <;> simp [hh] <;> omega

/-- `ToCSV.run` writes the text of exactly the rows of `csv_rows_1d` / `csv_rows_2d` -/
theorem csv_text_of_rows (f : CsvFormat) (h : Hist) (toCsv : Bool) (ctxDup : Option Bool) (elemDup : Bool)
    (rows : List (List Q)) (hr : toCsvHist h toCsv ctxDup elemDup = .ok (.table rows)) :
    toCsvHistText f h toCsv ctxDup elemDup = .ok (.text (csvText f rows)) := by
  simp [toCsvHistText, hr, bind, Except.bind, pure, Except.pure]

example : (toCsvHistText { separator := ",", header := some "x,y", rowEnd := "", lastRowEnd := "" } exHist true none
    true).toOption.map (fun o => match o with | .text t => t | .unchanged => "") =
    some "x,y\n0.000000,1.000000\n1.000000,2.000000\n3.000000,2.000000" := by decide +kernel

/-! ## the element `HistToGraph`, `GroupScale.__call__`, `graph + x`, `scale(None)` -/

/-- `HistToGraph`: construction rejects a `make_value` that is not a `Variable` (`LenaTypeError`) and an unknown
`get_coordinate` (`LenaValueError`); `run` passes non-histograms and histograms with
`context.histogram.to_graph = False` unchanged and converts the others with `hist_to_graph` (to which
`hist_to_graph_points` applies) -/
theorem hist_to_graph_element (mode : CoordMode) (fields : FieldNamesArg) (sc : ScaleArg) (g : Q → List Q) :
    mkHistToGraph .notVariable mode fields sc = .error .lenaTypeError ∧
    mkHistToGraph .none .bad fields sc = .error .lenaValueError ∧
    mkHistToGraph (.variable g) .bad fields sc = .error .lenaValueError ∧
    (mode ≠ .bad → ∃ el, mkHistToGraph (.variable g) mode fields sc = .ok el ∧
      ∀ h, histToGraphRun el false h true = .ok .unchanged ∧ histToGraphRun el true h false = .ok .unchanged ∧
        (∀ h1 gr, histToGraph h (some g) mode fields sc = .ok (h1, gr) →
          ∃ o, histToGraphRun el true h true = .ok o ∧ o = .graph h1 gr)) := by
  refine ⟨rfl, rfl, rfl, ?_⟩
  intro hm
  refine ⟨{ getter := g, mode := mode, fieldNames := fields, scale := sc }, by simp [mkHistToGraph, hm], ?_⟩
  intro h
  refine ⟨rfl, rfl, ?_⟩
  intro h1 gr hh
  exact ⟨_, by simp [histToGraphRun, hh, bind, Except.bind, pure, Except.pure], rfl⟩

/-- `GroupScale(…)(group)`: a group that is not a list or tuple is rejected with `LenaValueError` and left alone;
otherwise it is `scale_to` -/
theorem group_scale_call (t : ScaleTarget) (group : List Struct) (az au : Bool) :
    groupScaleCall t false group az au = (group, some .lenaValueError) ∧
    groupScaleCall t true group az au = scaleTo t group az au := ⟨rfl, rfl⟩

/-- `graph + x` for an `x` that is not a graph: builtin `TypeError` (`NotImplemented`) -/
theorem graph_add_not_graph (a : Graph) (h : Hist) :
    graphAddAny a .other = .error .typeError ∧ graphAddAny a (.hist h) = .error .typeError ∧
    ∀ b, graphAddAny a (.graph b) = graphAdd a b := ⟨rfl, rfl, fun _ => rfl⟩

/-- `data.scale(None)` — what `scale_to` calls when the selected candidate is a graph of unknown scale — rescales
nothing: a graph is untouched, a histogram at most stores its computed scale, an object without `scale` still has
none -/
theorem scale_none_reads_only (g : Graph) (h : Hist) (d' : Struct) :
    structScale (.graph g) none = .ok (.graph g) ∧ structScale .other none = .attributeError ∧
    (structScale (.hist h) none = .ok d' → ∃ I, d' = .hist { h with scale := some I }) := by
  refine ⟨rfl, rfl, ?_⟩
  intro hs
  unfold structScale at hs
  cases hg : getScale h false with
  | error e => simp [hg] at hs
  | ok p =>
    obtain ⟨h1, I⟩ := p
    simp [hg] at hs
    exact ⟨I, by rw [← hs, getScale_frame h h1 false I hg]⟩

/-! ## `add` followed by `scale`: the scale of a sum is the integral of the sum

Multi-step sentence: after `c = a.add(b, w)` — whatever scales `a` and `b` had stored (computed, set or stale) — `c.scale()`
is the integral of `c`'s own bins, and `c.scale(s)` makes the recomputed scale equal `s`. -/

/-- the histogram returned by `add` has no stored scale, so `scale()` of it computes the integral of its bins -/
theorem add_then_scale (a b c c' : Hist) (w I : Q) (t : Tol) (h : add a b w t = .ok c)
    (hg : getScale c false = .ok (c', I)) : integral c.bins c.edges.axes = .ok I ∧ c' = { c with scale := some I } := by
  have hn := (add_cellwise a b c w t h).2.2.2.2.2
  refine ⟨?_, getScale_frame c c' false I hg⟩
  cases hi : integral c.bins c.edges.axes with
  | error e => simp [getScale, hn, hi, bind, Except.bind] at hg
  | ok J =>
    simp [getScale, hn, hi, bind, Except.bind, pure, Except.pure] at hg
    rw [hg.2]

/-- rescaling a sum: the recomputed scale of `a.add(b, w)` after `scale(s)` is `s` -/
theorem add_then_rescale (a b c c' : Hist) (w s : Q) (t : Tol) (h : add a b w t = .ok c) (hs : setScale c s = .ok c') :
    getScale c' true = .ok ({ c' with scale := some s }, s) :=
  hist_scale_recomputed_partial c c' s hs (by
    intro x hx
    rw [(add_cellwise a b c w t h).2.2.2.2.2] at hx
    cases hx)

example : ((add { exHist with scale := some 5 } { exHist with bins := .node [.leaf 3, .leaf 1], scale := some 5 } 2
    ⟨0, 0⟩).toOption.bind (fun c => (getScale c false).toOption)).map (·.2) = some 15 := by decide +kernel

/-! ## Every format of one-dimensional edges (`[x0, …]` and `[[x0, …]]`) -/

/-- the edges are not one axis nested in a list -/
def Edges.NotNested1 (e : Edges) : Prop := ∀ ax, e ≠ .nested [ax]

theorem mkHistU_eq (e : Edges) (b : Option (NArr Q)) (i : Q) (hn : e.NotNested1) : mkHistU e b i = mkHist e b i := by
  unfold mkHistU mkHist
  cases hc : checkEdgesIncreasing e with
  | error er => simp [bind, Except.bind]
  | ok u =>
    simp only [bind, Except.bind]
    cases e with
    | flat ax => simp [Edges.axes] <;> rfl
    | nested axs =>
      cases axs with
      | nil => simp [Edges.axes] <;> rfl
      | cons a0 rest =>
        cases rest with
        | nil => exact absurd rfl (hn a0)
        | cons a1 r => simp [Edges.axes] <;> rfl

theorem add_eq_addWith : add = addWith mkHist := rfl

theorem addU_eq (a b : Hist) (w : Q) (t : Tol) (hn : a.edges.NotNested1) : addU a b w t = add a b w t := by
  have : ∀ (nb : NArr Q), mkHistU a.edges (some nb) 0 = mkHist a.edges (some nb) 0 := fun nb => mkHistU_eq _ _ _ hn
  simp only [addU, add_eq_addWith, addWith, this]

theorem toCsvHistU_eq (h : Hist) (toCsv : Bool) (ctxDup : Option Bool) (elemDup : Bool) (hn : h.edges.NotNested1) :
    toCsvHistU h toCsv ctxDup elemDup = toCsvHist h toCsv ctxDup elemDup := by
  unfold toCsvHistU toCsvHist
  cases he : h.edges with
  | flat ax => simp [Edges.axes] <;> rfl
  | nested axs =>
    cases axs with
    | nil => simp [Edges.axes] <;> rfl
    | cons a0 rest =>
      cases rest with
      | nil => exact absurd he (hn a0)
      | cons a1 r =>
        cases r with
        | nil => simp [Edges.axes] <;> rfl
        | cons a2 r' => simp [Edges.axes] <;> rfl

/-- what `histogram(edges, bins=b)` stores, for every format of the edges -/
theorem mkHistU_some (e : Edges) (b : NArr Q) (i : Q) (nh : Hist) (hk : mkHistU e (some b) i = .ok nh) :
    nh.edges = e ∧ nh.bins = b ∧ nh.scale = none ∧ nh.nOut = 0 := by
  unfold mkHistU at hk
  cases hce : checkEdgesIncreasing e with
  | error er => simp [hce, bind, Except.bind] at hk
  | ok u =>
    simp only [hce, bind, Except.bind] at hk
    split at hk
    · simp at hk
    · cases hl : lenBins b with
      | error er => simp [hl] at hk
      | ok n =>
        simp only [hl] at hk
        split at hk
        · simp at hk
        · simp [pure, Except.pure] at hk
          subst hk
          exact ⟨rfl, rfl, rfl, rfl⟩

/-- `add_cellwise` for any constructor that stores what it is given -/
theorem addWith_cellwise (mk : Edges → Option (NArr Q) → Q → Except Err Hist)
    (hmk : ∀ e b i nh, mk e (some b) i = .ok nh → nh.edges = e ∧ nh.bins = b ∧ nh.scale = none ∧ nh.nOut = 0)
    (a b c : Hist) (w : Q) (t : Tol) (h : addWith mk a b w t = .ok c) :
    a.nbins = b.nbins ∧ iscloseEdges t a.edges b.edges = .ok true ∧
      c.edges = a.edges ∧ c.bins = zipWith (fun x y => x + y * w) a.bins b.bins ∧
      c.nOut = a.nOut + b.nOut * w ∧ c.scale = none := by
  by_cases hn : a.nbins = b.nbins
  case neg => simp [addWith, hn, bind, Except.bind, pure, Except.pure] at h
  cases hc : iscloseEdges t a.edges b.edges with
  | error e => simp [addWith, hn, hc, bind, Except.bind] at h
  | ok cl =>
    cases cl with
    | false => simp [addWith, hn, hc, bind, Except.bind, pure, Except.pure] at h
    | true =>
      have key : ∃ ob nb nh, weightedBins b w = .ok ob ∧ mdMap2 (· + ·) a.bins ob = .ok nb ∧
          mk a.edges (some nb) 0 = .ok nh ∧ c = { nh with nOut := a.nOut + b.nOut * w } := by
        by_cases hw : w = 1
        · subst hw
          simp only [addWith, hn, hc, bind, Except.bind, pure, Except.pure, ne_eq, not_true_eq_false, if_false,
            Bool.not_true, Bool.false_eq_true] at h
          cases hm : mdMap2 (· + ·) a.bins b.bins with
          | error e => simp [hm] at h
          | ok nb =>
            cases hk : mk a.edges (some nb) 0 with
            | error e => simp [hm, hk] at h
            | ok nh =>
              simp [hm, hk] at h
              exact ⟨b.bins, nb, nh, by simp [weightedBins, pure, Except.pure], hm, hk, by rw [← h]; simp⟩
        · simp only [addWith, hn, hc, bind, Except.bind, pure, Except.pure, ne_eq, not_true_eq_false, if_false,
            Bool.not_true, Bool.false_eq_true, hw, not_false_eq_true, if_true] at h
          cases ho : mdMap (fun val => val * w) b.bins with
          | error e => simp [ho] at h
          | ok ob =>
            cases hm : mdMap2 (· + ·) a.bins ob with
            | error e => simp [ho, hm] at h
            | ok nb =>
              cases hk : mk a.edges (some nb) 0 with
              | error e => simp [ho, hm, hk] at h
              | ok nh =>
                simp [ho, hm, hk] at h
                exact ⟨ob, nb, nh, by simp [weightedBins, hw, ho], hm, hk, h.symm⟩
      obtain ⟨ob, nb, nh, ho, hm, hk, rfl⟩ := key
      have hnb := weightedBins_zip a b w ob nb ho hm
      have hst := hmk _ _ _ _ hk
      exact ⟨hn, rfl, hst.1, by rw [← hnb]; exact hst.2.1, rfl, hst.2.2.1⟩

/-- `add_cellwise` for every format of the edges (also `[[x0, …]]`): when `a.add(b, w)` returns, the numbers of
bins agree, the edges are close, the sum has `a`'s edges, the cell-wise bins `a + b*w`, `n_out_of_range`
`a + b*w` and no stored scale.  All inputs. -/
theorem addU_cellwise (a b c : Hist) (w : Q) (t : Tol) (h : addU a b w t = .ok c) :
    a.nbins = b.nbins ∧ iscloseEdges t a.edges b.edges = .ok true ∧
      c.edges = a.edges ∧ c.bins = zipWith (fun x y => x + y * w) a.bins b.bins ∧
      c.nOut = a.nOut + b.nOut * w ∧ c.scale = none :=
  addWith_cellwise mkHistU mkHistU_some a b c w t h

/-- a histogram given bins of the shape of its (checked) edges, in any format -/
structure Hist.ValidU (h : Hist) : Prop where
  wf : h.WF
  edges_ok : checkEdgesIncreasing h.edges = .ok ()

/-- histograms with equal edges (any format) are always added -/
theorem addU_defined (a b : Hist) (w : Q) (t : Tol) (ha : a.ValidU) (hb : b.ValidU) (he : a.edges = b.edges)
    (hr : 0 ≤ t.rel) : ∃ c, addU a b w t = .ok c := by
  have hn : a.nbins = b.nbins := by simp [Hist.nbins, he]
  have hc : iscloseEdges t a.edges b.edges = .ok true := by rw [← he]; exact iscloseEdges_self t hr _
  obtain ⟨e0, rest, hax⟩ : ∃ e0 rest, a.edges.axes = e0 :: rest := by
    cases hax : a.edges.axes with
    | nil => exact absurd hax ha.wf.1
    | cons e es => exact ⟨e, es, rfl⟩
  have hdims : a.nbins = (e0.length - 1) :: nbinsOf rest := by simp [Hist.nbins, nbinsOf, hax]
  have hsa : HasShape ((e0.length - 1) :: nbinsOf rest) a.bins := hdims ▸ ha.wf.2
  have hsb : HasShape ((e0.length - 1) :: nbinsOf rest) b.bins := by rw [← hdims, hn]; exact hb.wf.2
  obtain ⟨ob, ho, hso⟩ : ∃ ob, weightedBins b w = .ok ob ∧ HasShape ((e0.length - 1) :: nbinsOf rest) ob := by
    unfold weightedBins
    by_cases hw : w = 1
    · exact ⟨b.bins, by simp [hw, pure, Except.pure], hsb⟩
    · exact ⟨map (fun val => val * w) b.bins, by simp [hw, mdMap_ok _ _ _ b.bins hsb], hasShape_map _ _ _ hsb⟩
  have hm := mdMap2_ok (· + ·) _ _ a.bins ob hsa hso
  have hsz := hasShape_zipWith (· + ·) _ a.bins ob hsa hso
  obtain ⟨nh, hk⟩ : ∃ nh, mkHistU a.edges (some (zipWith (· + ·) a.bins ob)) 0 = .ok nh := by
    unfold mkHistU
    simp only [ha.edges_ok, bind, Except.bind, hax]
    cases hz : zipWith (· + ·) a.bins ob with
    | leaf v => rw [hz] at hsz; simp [HasShape] at hsz
    | node xs =>
      rw [hz] at hsz
      simp only [HasShape] at hsz
      exact ⟨{ edges := a.edges, bins := .node xs, nOut := 0, scale := none },
        by simp [lenBins, hsz.1, pure, Except.pure]⟩
  refine ⟨{ nh with nOut := a.nOut + b.nOut * w }, ?_⟩
  by_cases hw : w = 1
  · subst hw
    have : ob = b.bins := by simp [weightedBins, pure, Except.pure] at ho; exact ho.symm
    subst this
    simp [addU, addWith, hn, hc, hm, hk, bind, Except.bind, pure, Except.pure]
  · have : mdMap (fun val => val * w) b.bins = .ok ob := by simpa [weightedBins, hw] using ho
    simp [addU, addWith, hn, hc, hw, this, hm, hk, bind, Except.bind, pure, Except.pure]

/-- the nested one-dimensional example `histogram([[0, 1, 3]], bins=[1, 2])` -/
def exHistN : Hist := { exHist with edges := .nested [[0, 1, 3]] }

example : (addU exHistN exHistN 2 ⟨0, 0⟩).toOption.map (fun c => (values c.bins, c.edges)) =
    some ([3, 6], .nested [[0, 1, 3]]) := by decide +kernel
example : exHistN.ValidU := ⟨⟨by simp [exHistN, Edges.axes], by simp [exHistN, exHist, Hist.nbins, nbinsOf, Edges.axes, HasShape]⟩,
  ok_of_toOption _ _ (by decide +kernel)⟩

/-- CSV rows of a one-dimensional histogram in either format of the edges (`csv_rows_1d` for `[[x0, …]]` too) -/
theorem csv_rows_1d_any (nested : Bool) (xs vs : List Q) (xLast vLast : Q) (hlen : xs.length = vs.length + 1) (nOut : Q)
    (sc : Option Q) (ctxDup : Option Bool) (elemDup : Bool) :
    toCsvHistU { edges := if nested then .nested [xs ++ [xLast]] else .flat (xs ++ [xLast]),
                 bins := bins1d (vs ++ [vLast]), nOut := nOut, scale := sc } true ctxDup elemDup =
      .ok (.table (List.zipWith (fun x v => [x, v]) xs (vs ++ [vLast]) ++
        (if ctxDup.getD elemDup then [[xLast, vLast]] else []))) := by
  have := rows1d_spec xs (vs ++ [vLast]) xLast vLast vs rfl (by simp [hlen])
  cases nested <;> cases ctxDup <;> simp [toCsvHistU, Edges.axes, this, bind, Except.bind, pure, Except.pure]

example : toCsvHistU exHistN true none true = .ok (.table [[0, 1], [1, 2], [3, 2]]) :=
  csv_rows_1d_any true [0, 1] [1] 3 2 rfl 1 none none true
example : (iterCells exHistN none).toOption.map (fun l => l.map (fun c => (c.edges, c.index))) =
    some [([(0, 1)], [0]), ([(1, 3)], [1])] := by decide +kernel

/-! ## What `integral` (the scale of a histogram) computes -/

theorem foldl_mul_eq (l : List Q) : ∀ (t : Q), l.foldl (· * ·) t = t * l.foldl (· * ·) 1 := by
  induction l with
  | nil => intro t; simp
  | cons x xs ih =>
    intro t
    simp only [List.foldl_cons]
    rw [ih (t * x), ih (1 * x)]
    grind

theorem binLengths_volume : ∀ (axes : List (List Q)) (idx : List Nat), InRange axes idx →
    ∃ l, binLengths axes idx = .ok l ∧ prod l = cellVolume (cellEdgesRef axes idx)
  | [], [], _ => ⟨[], by simp [binLengths], by simp [prod, cellVolume, cellEdgesRef]⟩
  | [], _ :: _, h => by simp [InRange] at h
  | _ :: _, [], _ => ⟨[], by simp [binLengths], by simp [prod, cellVolume, cellEdgesRef]⟩
  | e :: es, i :: is, h => by
    obtain ⟨hi, ht⟩ := h
    obtain ⟨l, hl, hp⟩ := binLengths_volume es is ht
    have h1 : i + 1 < e.length := by omega
    have h0 : i < e.length := by omega
    refine ⟨(e[i + 1] - e[i]) :: l, ?_, ?_⟩
    · simp [binLengths, List.getElem?_eq_getElem h1, List.getElem?_eq_getElem h0, hl, bind, Except.bind, pure,
        Except.pure]
    · simp only [prod, List.foldl_cons, cellEdgesRef, cellVolume, List.getD_eq_getElem?_getD,
        List.getElem?_eq_getElem h1, List.getElem?_eq_getElem h0, Option.getD_some] at hp ⊢
      rw [foldl_mul_eq, hp]
      grind

theorem integralLoop_spec (axes : List (List Q)) : ∀ (l : List (List Nat × Q)) (t : Q),
    (∀ p ∈ l, InRange axes p.1) →
    integralLoop axes l t = .ok (t + (l.map (fun p => cellVolume (cellEdgesRef axes p.1) * p.2)).sum)
  | [], t, _ => by simp [integralLoop]; grind
  | (ind, c) :: rest, t, h => by
    obtain ⟨lens, hl, hp⟩ := binLengths_volume axes ind (h (ind, c) List.mem_cons_self)
    have ih := integralLoop_spec axes rest (t + prod lens * c) (fun p hp' => h p (List.mem_cons_of_mem _ hp'))
    simp only [integralLoop, hl, bind, Except.bind, List.map_cons, List.sum_cons, hp]
    congr 1
    grind

/-- **the scale of a histogram** (`integral`, hence `hist.scale()` of a histogram without a stored scale) is the sum
over the cells that `iter_bins` yields of (product of the cell's side lengths) × (content), for every well-formed
histogram of any dimension.  `integralRef` is defined independently of `integral`, from `cells` and `cellEdgesRef`. -/
theorem integral_spec (h : Hist) (wf : h.WF) :
    integral h.bins h.edges.axes = .ok (integralRef h.edges.axes h.bins) := by
  have hs : HasShape (nbinsOf h.edges.axes) h.bins := wf.2
  have := integralLoop_spec h.edges.axes (cells h.bins) 0 (fun p hp => inRange_of_mem_cells _ _ hs p hp)
  have h0 : ∀ x : Q, 0 + x = x := fun x => by grind
  rw [h0] at this
  simpa [integral, integralRef] using this

/-- `hist.scale()` of a well-formed histogram without a stored scale is that sum, and is stored -/
theorem hist_scale_value (h : Hist) (wf : h.WF) (hn : h.scale = none) (rc : Bool) :
    getScale h rc = .ok ({ h with scale := some (integralRef h.edges.axes h.bins) }, integralRef h.edges.axes h.bins) := by
  simp [getScale, hn, integral_spec h wf, bind, Except.bind, pure, Except.pure]

example : integralRef exHist2.edges.axes exHist2.bins = 10 := by decide +kernel
example : (getScale exHist2 false).toOption.map (·.2) = some 10 := by decide +kernel

/-! ## The printed number parses back to `millionths` -/

theorem splitDot_append (ds rest : List Char) (h : '.' ∉ ds) : splitDot (ds ++ '.' :: rest) = (ds, rest) := by
  induction ds with
  | nil => simp [splitDot]
  | cons c cs ih =>
    have hc : c ≠ '.' := fun hc => h (by simp [hc])
    have := ih (fun hm => h (List.mem_cons_of_mem _ hm))
    simp [splitDot, hc, this, Prod.map]

theorem dot_not_mem_toDigits (n : Nat) : '.' ∉ Nat.toDigits 10 n := by
  intro h
  have := Nat.isDigit_of_mem_toDigits (by omega) (by omega) h
  simp [Char.isDigit] at this

theorem head_toDigits_ne_minus (n : Nat) : ∀ c rest, Nat.toDigits 10 n = c :: rest → c ≠ '-' := by
  intro c rest h hc
  have hm : c ∈ Nat.toDigits 10 n := by rw [h]; simp
  have := Nat.isDigit_of_mem_toDigits (by omega) (by omega) hm
  rw [hc] at this
  simp [Char.isDigit] at this

theorem ofDigitChars_pad (k n : Nat) :
    Nat.ofDigitChars 10 (List.replicate k '0' ++ Nat.toDigits 10 n) 0 = n := by
  rw [Nat.ofDigitChars_append, Nat.ofDigitChars_replicate_zero]
  simp [Nat.ofDigitChars_ten_toDigits]

/-- the characters that `fmtF` prints -/
theorem fmtF_toList (x : Q) :
    (fmtF x).toList = (if x < 0 then ['-'] else []) ++ Nat.toDigits 10 (millionths x / 1000000) ++ '.' ::
      (List.replicate (6 - (Nat.toDigits 10 (millionths x % 1000000)).length) '0' ++
        Nat.toDigits 10 (millionths x % 1000000)) := by
  have hl : ∀ n : Nat, n.repr.length = (Nat.toDigits 10 n).length := by
    intro n; rw [← String.length_toList, Nat.toList_repr]
  unfold fmtF pad6
  by_cases hx : x < 0 <;> simp [hx, String.toList_append, Nat.toString_eq_repr, hl]

/-- **"rows … that parse back … within the printed precision"**: reading the printed text of `x` back gives the
sign of `x` and exactly `millionths x` millionths — which `fmt_precision` places within half a millionth of `|x|`.
For every rational (every int and finite float). -/
theorem parse_fmt (x : Q) : parseFixed (fmtF x).toList = (decide (x < 0), millionths x) := by
  rw [fmtF_toList]
  have hsplit := splitDot_append (Nat.toDigits 10 (millionths x / 1000000))
    (List.replicate (6 - (Nat.toDigits 10 (millionths x % 1000000)).length) '0' ++
      Nat.toDigits 10 (millionths x % 1000000)) (dot_not_mem_toDigits _)
  have hval : Nat.ofDigitChars 10 (Nat.toDigits 10 (millionths x / 1000000)) 0 * 1000000 +
      Nat.ofDigitChars 10 (List.replicate (6 - (Nat.toDigits 10 (millionths x % 1000000)).length) '0' ++
        Nat.toDigits 10 (millionths x % 1000000)) 0 = millionths x := by
    rw [ofDigitChars_pad, Nat.ofDigitChars_ten_toDigits]
    have := Nat.div_add_mod (millionths x) 1000000
    omega
  by_cases hx : x < 0
  · simp only [hx, if_true, List.cons_append, List.nil_append, parseFixed, stripSign, hsplit,
      hval, decide_true]
  · simp only [hx, if_false, List.nil_append, decide_false]
    cases hd : Nat.toDigits 10 (millionths x / 1000000) with
    | nil => exact absurd hd Nat.toDigits_ne_nil
    | cons c rest =>
      have hc := head_toDigits_ne_minus _ c rest hd
      rw [hd] at hsplit hval
      have hss : ∀ r, stripSign (c :: r) = (false, c :: r) := by
        intro r
        unfold stripSign
        split
        · rename_i heq; simp at heq; exact absurd heq.1 hc
        · rfl
      simp only [List.cons_append] at hsplit ⊢
      simp only [parseFixed, hss, hsplit, hval]

example : parseFixed (fmtF (-5 / 2)).toList = (true, 2500000) ∧ parseFixed (fmtF (1 / 3)).toList = (false, 333333) := by
  decide +kernel

/-! ## "makes the recomputed scale equal s": true only when the stored scale is not stale -/

/-- the sentence without a side condition -/
def hist_scale_recomputed_full : Prop :=
  ∀ (h h' : Hist) (s : Q), setScale h s = .ok h' → (getScale h' true).toOption.map (·.2) = some s

/-- … is false of the code: a histogram whose stored `_scale` is stale (the documented situation "after changing
(filling) the histogram one must explicitly recompute the scale") is rescaled by `s/stored`, not `s/integral`.
Witness: edges `[0,1,3]`, bins `[1,2]` (integral 5) with stored scale 1, rescaled to 10: recomputed scale 50.
`hist_scale_recomputed_partial` is the sentence under the hypothesis that a stored scale is the integral. -/
theorem hist_scale_recomputed_full_false : ¬ hist_scale_recomputed_full := by
  intro hf
  have h1 : ∃ h', setScale { exHist with scale := some 1 } 10 = .ok h' ∧
      (getScale h' true).toOption.map (·.2) = some 50 := by
    cases hs : setScale { exHist with scale := some 1 } 10 with
    | error e =>
      have : (setScale { exHist with scale := some 1 } 10).toOption.isSome = true := by decide +kernel
      simp [hs, Except.toOption] at this
    | ok h' =>
      refine ⟨h', rfl, ?_⟩
      have : ((setScale { exHist with scale := some 1 } 10).toOption.bind
          (fun h' => (getScale h' true).toOption.map (·.2))) = some 50 := by decide +kernel
      simpa [hs, Except.toOption] using this
  obtain ⟨h', hs, hr⟩ := h1
  have := hf _ h' 10 hs
  rw [hr] at this
  exact absurd this (by decide +kernel)

/-! ## CSV rows of every valid one- and two-dimensional histogram (link of `csv_rows_*` to `Hist.WF`) -/

theorem hasShape1_form : ∀ (n : Nat) (a : NArr Q), HasShape [n] a → ∃ vals, a = bins1d vals ∧ vals.length = n
  | _, .leaf _, h => by simp [HasShape] at h
  | n, .node xs, h => by
    simp only [HasShape] at h
    have key : ∀ (l : List (NArr Q)), (∀ x ∈ l, HasShape [] x) → ∃ vals : List Q, l = vals.map .leaf := by
      intro l
      induction l with
      | nil => intro _; exact ⟨[], rfl⟩
      | cons x l ih =>
        intro hl
        obtain ⟨vals, hv⟩ := ih (fun y hy => hl y (List.mem_cons_of_mem _ hy))
        cases x with
        | leaf v => exact ⟨v :: vals, by simp [hv]⟩
        | node _ => have := hl _ List.mem_cons_self; simp [HasShape] at this
    obtain ⟨vals, hv⟩ := key xs h.2
    exact ⟨vals, by simp [bins1d, hv], by rw [← h.1, hv]; simp⟩

theorem hasShape2_form (n m : Nat) (a : NArr Q) (h : HasShape [n, m] a) :
    ∃ vals, a = bins2d vals ∧ vals.length = n ∧ ∀ r ∈ vals, r.length = m := by
  cases a with
  | leaf _ => simp [HasShape] at h
  | node xs =>
    simp only [HasShape] at h
    have key : ∀ (l : List (NArr Q)), (∀ x ∈ l, HasShape [m] x) →
        ∃ vals : List (List Q), l = vals.map bins1d ∧ ∀ r ∈ vals, r.length = m := by
      intro l
      induction l with
      | nil => intro _; exact ⟨[], rfl, by simp⟩
      | cons x l ih =>
        intro hl
        obtain ⟨vals, hv, hr⟩ := ih (fun y hy => hl y (List.mem_cons_of_mem _ hy))
        obtain ⟨r, hx, hrl⟩ := hasShape1_form m x (hl x List.mem_cons_self)
        exact ⟨r :: vals, by simp [hv, hx], by
          intro r' hr'
          rcases List.mem_cons.1 hr' with rfl | hr'
          · exact hrl
          · exact hr r' hr'⟩
    obtain ⟨vals, hv, hr⟩ := key xs h.2
    exact ⟨vals, by simp [bins2d, hv], by rw [← h.1, hv]; simp, hr⟩

theorem checkEdges1d_length (e : List Q) (h : checkEdges1d e = .ok ()) : 2 ≤ e.length := by
  unfold checkEdges1d at h
  split at h
  · simp at h
  · omega

/-- **one row per cell**, for every valid one-dimensional histogram (edges flat or nested in a list): without
`duplicate_last_bin` the CSV rows are exactly `[lower edge, content]` for the cells of `iter_bins`, in that order -/
theorem csv_rows_valid_1d (h : Hist) (hv : h.ValidU) (e : List Q) (hax : h.edges.axes = [e]) :
    toCsvHistU h true none false = .ok (.table ((cells h.bins).map (cellRow h.edges.axes))) := by
  have hs : HasShape [e.length - 1] h.bins := by
    have := hv.wf.2; simpa [Hist.nbins, nbinsOf, hax] using this
  obtain ⟨vals, hb, hvl⟩ := hasShape1_form _ _ hs
  have hlen : 2 ≤ e.length := by
    have hc := hv.edges_ok
    cases hed : h.edges with
    | flat e' =>
      rw [hed] at hc hax
      simp [Edges.axes] at hax
      subst hax
      simp only [checkEdgesIncreasing] at hc
      split at hc
      · simp at hc
      · exact checkEdges1d_length _ hc
    | nested es =>
      rw [hed] at hc hax
      simp [Edges.axes] at hax
      subst hax
      simp only [checkEdgesIncreasing, List.isEmpty_cons, checkEdgesAxes] at hc
      simp at hc
      split at hc
      · simp at hc
      · omega
  have hne : e ≠ [] := by intro h0; rw [h0] at hlen; simp at hlen
  have hsplit : e = e.dropLast ++ [e.getLast hne] := (List.dropLast_concat_getLast hne).symm
  have hxl : e.dropLast.length = vals.length := by simp [hvl]
  have hvne : vals ≠ [] := by
    intro h0; rw [h0] at hvl; simp at hvl; omega
  have hr := rows1d_spec e.dropLast vals (e.getLast hne) (vals.getLast hvne) vals.dropLast
    (List.dropLast_concat_getLast hvne).symm hxl false
  rw [← hsplit] at hr
  have hcell := csv_one_row_per_cell_1d e.dropLast vals (e.getLast hne) hxl
  rw [← hsplit] at hcell
  simp only [toCsvHistU, hax, hb, hr, bind, Except.bind, pure, Except.pure, Bool.not_true, Bool.false_eq_true, if_false,
    List.append_nil]
  rw [hcell]

example : toCsvHistU exHistN true none false = .ok (.table ((cells exHistN.bins).map (cellRow exHistN.edges.axes))) :=
  csv_rows_valid_1d exHistN ⟨⟨by simp [exHistN, Edges.axes], by simp [exHistN, exHist, Hist.nbins, nbinsOf, Edges.axes, HasShape]⟩,
    ok_of_toOption _ _ (by decide +kernel)⟩ [0, 1, 3] rfl

theorem checkEdgesAxes_length : ∀ (es : List (List Q)), checkEdgesAxes es = .ok () → ∀ e ∈ es, 2 ≤ e.length
  | [], _ => by simp
  | a :: rest, h => by
    simp only [checkEdgesAxes] at h
    split at h
    · simp at h
    · rename_i hl
      cases hc : checkEdges1d a with
      | error er => simp [hc, bind, Except.bind] at h
      | ok u =>
        simp [hc, bind, Except.bind] at h
        intro e he
        rcases List.mem_cons.1 he with rfl | he
        · omega
        · exact checkEdgesAxes_length rest h e he

/-- **one row per cell**, for every valid two-dimensional histogram: without `duplicate_last_bin` the CSV rows are
exactly `[lower x edge, lower y edge, content]` for the cells of `iter_bins`, in that order -/
theorem csv_rows_valid_2d (h : Hist) (hv : h.ValidU) (ex ey : List Q) (hed : h.edges = .nested [ex, ey]) :
    toCsvHistU h true none false = .ok (.table ((cells h.bins).map (cellRow h.edges.axes))) := by
  have hax : h.edges.axes = [ex, ey] := by simp [hed, Edges.axes]
  have hs : HasShape [ex.length - 1, ey.length - 1] h.bins := by
    have := hv.wf.2; simpa [Hist.nbins, nbinsOf, hax] using this
  obtain ⟨vals, hb, hvl, hvr⟩ := hasShape2_form _ _ _ hs
  have hc := hv.edges_ok
  rw [hed] at hc
  simp only [checkEdgesIncreasing, List.isEmpty_cons, Bool.false_eq_true, if_false] at hc
  have hlx : 2 ≤ ex.length := checkEdgesAxes_length _ hc ex (by simp)
  have hly : 2 ≤ ey.length := checkEdgesAxes_length _ hc ey (by simp)
  have hnx : ex ≠ [] := by intro h0; rw [h0] at hlx; simp at hlx
  have hny : ey ≠ [] := by intro h0; rw [h0] at hly; simp at hly
  have hsx : ex = ex.dropLast ++ [ex.getLast hnx] := (List.dropLast_concat_getLast hnx).symm
  have hsy : ey = ey.dropLast ++ [ey.getLast hny] := (List.dropLast_concat_getLast hny).symm
  have hxl : ex.dropLast.length = vals.length := by simp [hvl]
  have hvne : vals ≠ [] := by intro h0; rw [h0] at hvl; simp at hvl; omega
  have hyne : ey.dropLast ≠ [] := by
    intro h0; have := congrArg List.length h0; simp at this; omega
  have hrows : ∀ r ∈ vals, r.length = ey.dropLast.length := by
    intro r hr; rw [hvr r hr]; simp
  have hr := rows2d_spec ex.dropLast ey.dropLast (ex.getLast hnx) (ey.getLast hny) vals vals.dropLast (vals.getLast hvne)
    (List.dropLast_concat_getLast hvne).symm hxl hyne hrows false
  rw [← hsx, ← hsy] at hr
  have hcell := csv_one_row_per_cell_2d ex.dropLast ey.dropLast (ex.getLast hnx) (ey.getLast hny) vals hxl hrows
  rw [← hsx, ← hsy] at hcell
  simp only [toCsvHistU, hax, hb, hr, bind, Except.bind, pure, Except.pure, Bool.not_true, Bool.false_eq_true, if_false,
    List.append_nil]
  rw [hcell]

example : toCsvHistU exHist2 true none false = .ok (.table ((cells exHist2.bins).map (cellRow exHist2.edges.axes))) :=
  csv_rows_valid_2d exHist2 ⟨exHist2_wf, ok_of_toOption _ _ (by decide +kernel)⟩ [0, 1, 3] [0, 2] rfl

/-! ## Non-vacuity: the hypotheses of the theorems with hypotheses are satisfiable -/

/-- the trivial interpolation guess `ind_min` is within bounds -/
theorem guessOK_lo : C06.GuessOK (fun lo _ => (lo : Int)) := by
  intro lo hi h
  constructor <;> simp <;> omega

example : ∃ g, mkGraph [[1, 2], [3, 4], [1, 1]] (.tuple ["x".toList, "y".toList, "error_y_low".toList]) (some 2) = .ok g ∧
    (graphSetScale g 3).toOption.map (·.coords) = some [[1, 2], [9/2, 6], [3/2, 3/2]] := by
  obtain ⟨g, hg, _⟩ := graph_valid_naming [[1, 2], [3, 4], [1, 1]] ["x".toList, "y".toList] ["error_y_low".toList]
    (some 2) (by simp) (by decide) (by
      intro f hf
      simp at hf
      subst hf
      exact ⟨by decide, "y".toList, by decide⟩) (by decide) (by decide) (by decide)
  obtain ⟨g', last, hs, _, _, _, _, _, hcols⟩ := graph_scale _ _ _ g hg 2 3 rfl (by decide +kernel)
  refine ⟨g, hg, ?_⟩
  have h1 : (mkGraph [[1, 2], [3, 4], [1, 1]] (.tuple ["x".toList, "y".toList, "error_y_low".toList]) (some 2)).toOption.bind
      (fun g => (graphSetScale g 3).toOption.map (·.coords)) = some [[1, 2], [9/2, 6], [3/2, 3/2]] := by decide +kernel
  have hg' : mkGraph [[1, 2], [3, 4], [1, 1]] (.tuple ["x".toList, "y".toList, "error_y_low".toList]) (some 2) = .ok g := hg
  rw [hg'] at h1
  exact h1

example : ∃ I, getScale exHist2 false = .ok ({ exHist2 with scale := some I }, I) ∧ (I ≠ 0 → ∃ h', setScale exHist2 7 = .ok h') := by
  obtain ⟨I, h1, _, h3⟩ := hist_scale_total exHist2 exHist2_wf 7
  exact ⟨I, h1, h3⟩
example : ∃ h', setNevents exHist 6 true = .ok h' := set_nevents_total exHist exHist_wf 6 true (by decide +kernel)
example : ∀ c, add exHist { exHist with bins := .node [.leaf 10, .leaf 20] } 2 ⟨0, 0⟩ = .ok c →
    get? c.bins [1] = some (.leaf (2 + 20 * 2)) ∧ exHist.edges = ({ exHist with bins := .node [.leaf 10, .leaf 20] } : Hist).edges :=
  fun c h => ⟨add_cell _ _ c 2 _ h [1] 2 20 rfl rfl,
    add_only_equal_edges _ _ c 2 h (by simp [exHist, Edges.NonEmptyAxes, Edges.axes]) (by simp [exHist, Edges.NonEmptyAxes, Edges.axes])⟩
example : (add exHist { exHist with bins := .node [.leaf 10, .leaf 20] } 2 ⟨0, 0⟩).toOption.isSome = true := by decide +kernel
example : scaleTo .selectHist [.other, .other] false false = ([.other, .other], some .lenaValueError) :=
  (scale_to_selector .selectHist (by intro s h; cases h) [.other, .other] false false).1 rfl
example : coordRangeAxis (fun lo _ => (lo : Int)) [0, 1, 2, 3, 4] (1/2, 5/2) = .ok (some (0, 2)) := by
  have := coord_range_axis_selects _ guessOK_lo [0, 1, 2, 3, 4] (by decide +kernel) (by simp) (1/2) (5/2)
  rw [this]
  have h1 : edgesNotAbove [0, 1, 2, 3, 4] (5 / 2) = 3 := by decide +kernel
  have h2 : edgesNotAbove [0, 1, 2, 3, 4] (1 / 2) = 1 := by decide +kernel
  simp [h1, h2]
example : getBinEdges (.tuple [1, 0]) exHist2.edges = .ok (.pairs [(1, 3), (0, 2)]) :=
  get_bin_edges_nested [[0, 1, 3], [0, 2]] [1, 0] (by simp [InRange])
example : getBinEdges (.num 1) (.flat [0, 1, 3]) = .ok (.pair 1 3) := (get_bin_edges_flat [0, 1, 3] 1 [] (by simp)).1
example : iterCellsCoord (fun _ lo _ => (lo : Int)) exHist4 false (.many [(1/2, 5/2)]) = .ok [] ∨
    ∃ r rs, ValidRanges exHist4.edges.axes (r :: rs) ∧
      iterCellsCoord (fun _ lo _ => (lo : Int)) exHist4 false (.many [(1/2, 5/2)]) =
        .ok (((cells exHist4.bins).filter (fun p => selAll (List.zipWith rangePred exHist4.edges.axes (r :: rs)) p.1)).map
          (fun p => { edges := cellEdgesRef exHist4.edges.axes p.1, bin := .leaf p.2, index := p.1 })) :=
  iter_cells_coord_ranges _ (fun _ => guessOK_lo) exHist4
    ⟨by simp [exHist4, Edges.axes], by simp [exHist4, Hist.nbins, nbinsOf, Edges.axes, HasShape]⟩
    (by simp [exHist4, Edges.NonEmptyAxes, Edges.axes]) (1/2, 5/2) [] (by simp [exHist4, Edges.axes])

end Lena.C12
