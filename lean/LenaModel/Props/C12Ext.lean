import LenaModel.Props.C12
import LenaModel.Model.C12Ext
import LenaModel.Lemmas.C12Spec
import LenaModel.Props.C06
/-! # C12 — property theorems, second part (`Model/C12Ext.lean`)

`iter_cells` with coordinate ranges, `get_bin_edges` / `get_bin_on_index`, the CSV text (`"{:f}"` rounding), the
element `HistToGraph`, `GroupScale.__call__`, `graph + x`, and `scale(None)` inside `scale_to`. -/

namespace Lena.C12
open Lena Lena.NArr

/-! ## `iter_cells(coord_ranges=…)`

"iter_bins, iter_bins_with_edges and iter_cells agree on content, index and edges" also when the iteration ranges are
given as coordinate ranges.  Which cells are selected is transcribed from the code (`coord_range_axis_selects`); it
differs from lena's docstring, see notes/C12_defect_2.md. -/

/-- for one axis: the two bin searches return (any interpolation guess within bounds, any non-empty edge array), and
an appended range `(lower, upper)` is a valid index range of that axis -/
theorem coordRangeAxis_valid (guess : Nat → Nat → Int) (hg : C06.GuessOK guess) (e : List Q) (hne : e ≠ []) (cr : Q × Q) :
    ∃ r, coordRangeAxis guess e cr = .ok r ∧ ∀ lo up, r = some (lo, up) → ValidRange e (some lo, some up) := by
  obtain ⟨r1, h1, l1, u1⟩ := C06.bin1d_returns guess hg e hne cr.1
  obtain ⟨r2, h2, l2, u2⟩ := C06.bin1d_returns guess hg e hne cr.2
  unfold coordRangeAxis
  simp only [h1, h2, bind, Except.bind]
  by_cases hc : (if r1 = -1 then (0 : Int) else r1) ≥ (e.length : Int) ∨ (if r2 = (e.length : Int) then r2 - 1 else r2) ≤ 0
  · exact ⟨none, by simp [hc, pure, Except.pure], by simp⟩
  · refine ⟨some (if r1 = -1 then (0 : Int) else r1, if r2 = (e.length : Int) then r2 - 1 else r2),
      by simp [hc, pure, Except.pure], ?_⟩
    intro lo up h
    simp at h
    obtain ⟨rfl, rfl⟩ := h
    constructor
    · intro l hl; simp at hl; subst hl; split <;> omega
    · intro u hu; simp at hu; subst hu; split <;> omega

theorem coordRangesLoop_valid (guess : Nat → Nat → Nat → Int) (hg : ∀ k, C06.GuessOK (guess k)) :
    ∀ (k : Nat) (axes : List (List Q)) (crs : List (Q × Q)), axes.length = crs.length → (∀ e ∈ axes, e ≠ []) →
      ∃ r, coordRangesLoop guess k axes crs = .ok r ∧ ∀ rg, r = some rg → ValidRanges axes rg
  | _, [], [], _, _ => ⟨some [], rfl, by intro rg h; simp at h; subst h; trivial⟩
  | _, [], _ :: _, h, _ => by simp at h
  | _, _ :: _, [], h, _ => by simp at h
  | k, e :: es, cr :: crs, hl, hne => by
    obtain ⟨r, hr, hv⟩ := coordRangeAxis_valid (guess k) (hg k) e (hne e List.mem_cons_self) cr
    obtain ⟨rs, hrs, hvs⟩ := coordRangesLoop_valid guess hg (k + 1) es crs (by simpa using hl)
      (fun x hx => hne x (List.mem_cons_of_mem _ hx))
    cases r with
    | none => exact ⟨none, by simp [coordRangesLoop, hr, bind, Except.bind, pure, Except.pure], by simp⟩
    | some p =>
      obtain ⟨lo, up⟩ := p
      cases rs with
      | none => exact ⟨none, by simp [coordRangesLoop, hr, hrs, bind, Except.bind, pure, Except.pure], by simp⟩
      | some rest =>
        refine ⟨some ((some lo, some up) :: rest),
          by simp [coordRangesLoop, hr, hrs, bind, Except.bind, pure, Except.pure], ?_⟩
        intro rg h
        simp at h
        subst h
        exact ⟨hv lo up rfl, hvs rest rfl⟩

/-- `iter_cells(hist, coord_ranges=crs)` with one coordinate range per axis of a well-formed histogram with
non-empty edge arrays: it raises nothing and yields either nothing or — for index ranges `rg` valid for the
histogram — exactly the cells of `iter_bins` whose index lies in every range, in the same order, with their content,
index and edges.  Any dimension, any interpolation guess within bounds. -/
theorem iter_cells_coord_ranges (guess : Nat → Nat → Nat → Int) (hg : ∀ k, C06.GuessOK (guess k)) (h : Hist) (wf : h.WF)
    (hne : h.edges.NonEmptyAxes) (cr : Q × Q) (crs : List (Q × Q)) (hl : h.edges.axes.length = (cr :: crs).length) :
    iterCellsCoord guess h false (.many (cr :: crs)) = .ok [] ∨
    ∃ r rs, ValidRanges h.edges.axes (r :: rs) ∧
      iterCellsCoord guess h false (.many (cr :: crs)) =
        .ok (((cells h.bins).filter (fun p => selAll (List.zipWith rangePred h.edges.axes (r :: rs)) p.1)).map
          (fun p => { edges := cellEdgesRef h.edges.axes p.1, bin := .leaf p.2, index := p.1 })) := by
  obtain ⟨res, hres, hv⟩ := coordRangesLoop_valid guess hg 0 h.edges.axes (cr :: crs) hl hne
  cases res with
  | none => left; simp [iterCellsCoord, hres, bind, Except.bind, pure, Except.pure]
  | some rg =>
    right
    have hvr := hv rg rfl
    cases rg with
    | nil =>
      have := validRanges_length _ _ hvr
      rw [hl] at this; simp at this
    | cons r rs =>
      exact ⟨r, rs, hvr, by simp [iterCellsCoord, hres, bind, Except.bind, iter_cells_ranges h wf r rs hvr]⟩

/-- both `ranges` and `coord_ranges`: `LenaTypeError` -/
theorem iter_cells_both_ranges (guess : Nat → Nat → Nat → Int) (h : Hist) (c : CoordRangesArg) :
    iterCellsCoord guess h true c = .error .lenaTypeError := rfl

theorem increasingPairs_eq : ∀ (e : List Q), increasingPairs e = C06.increasingPairs e
  | [] => rfl
  | [_] => rfl
  | a :: b :: rest => by simp [increasingPairs, C06.increasingPairs, increasingPairs_eq (b :: rest)]

/-- what the code selects on one axis with strictly increasing edges (`increasingPairs`, the test of
`check_edges_increasing`): with `n(v) = edgesNotAbove e v` the number of edges `≤ v`, the bins
`max(0, n(low) − 1) ≤ i < n(high) − 1`, and nothing at all when `n(high) ≤ 1`.  The bin that contains `high` has
index `n(high) − 1`: it is *not* selected (lena's docstring says it is).  In particular the branch
`if upper_bin_ind == max_ind: upper_bin_ind -= 1` (hist_functions.py:577-578) is never taken. -/
theorem coord_range_axis_selects (guess : Nat → Nat → Int) (hg : C06.GuessOK guess) (e : List Q)
    (hinc : increasingPairs e = true) (hne : e ≠ []) (lo hi : Q) :
    coordRangeAxis guess e (lo, hi) =
      .ok (if edgesNotAbove e hi ≤ 1 then none
           else some (max ((edgesNotAbove e lo : Int) - 1) 0, (edgesNotAbove e hi : Int) - 1)) := by
  have hinc' : C06.StrictInc e := (C06.increasingPairs_iff e).1 (by rw [← increasingPairs_eq]; exact hinc)
  have hc : ∀ v, edgesNotAbove e v = C06.countLE e v := fun _ => rfl
  simp only [hc]
  have h1 := C06.bin1d_spec guess lo (hg.at e lo) hinc' hne
  have h2 := C06.bin1d_spec guess hi (hg.at e hi) hinc' hne
  have k1 := C06.countLE_le_length e lo
  have k2 := C06.countLE_le_length e hi
  unfold coordRangeAxis
  simp only [h1, h2, bind, Except.bind]
  have hup : ¬ ((C06.countLE e hi : Int) - 1 = (e.length : Int)) := by omega
  simp only [hup, if_false]
  by_cases hz : C06.countLE e hi ≤ 1
  · have : (if (C06.countLE e lo : Int) - 1 = -1 then (0 : Int) else (C06.countLE e lo : Int) - 1) ≥ (e.length : Int) ∨
        (C06.countLE e hi : Int) - 1 ≤ 0 := Or.inr (by omega)
    simp [this, hz, pure, Except.pure]
  · have hlen : e.length ≠ 0 := by simpa using hne
    have : ¬ ((if (C06.countLE e lo : Int) - 1 = -1 then (0 : Int) else (C06.countLE e lo : Int) - 1) ≥ (e.length : Int) ∨
        (C06.countLE e hi : Int) - 1 ≤ 0) := by
      split <;> omega
    simp only [this, if_false, hz, pure, Except.pure]
    congr 3
    split <;> omega

/-- edges `[0, 1, 2, 3, 4]`, bins `[10, 11, 12, 13]` -/
def exHist4 : Hist :=
  { edges := .flat [0, 1, 2, 3, 4], bins := .node [.leaf 10, .leaf 11, .leaf 12, .leaf 13], nOut := 0, scale := none }

example : (iterCellsCoord (fun _ lo _ => lo) exHist4 false (.many [(1/2, 5/2)])).toOption.map
    (fun l => l.map (·.index)) = some [[0], [1]] := by decide +kernel

/-! ## `get_bin_edges`, `get_bin_on_index` -/

/-- `get_bin_edges(idx, edges)` for multidimensional edges and an index in range: the edges of that cell -/
theorem get_bin_edges_nested (es : List (List Q)) (idx : List Nat) (hin : InRange es idx) :
    getBinEdges (.tuple idx) (.nested es) = .ok (.pairs (cellEdgesRef es idx)) := by
  simp [getBinEdges, cellEdges_ok es idx hin, bind, Except.bind, pure, Except.pure]

/-- `get_bin_edges(i, edges)` and `get_bin_edges((i, …), edges)` for one-dimensional edges -/
theorem get_bin_edges_flat (e : List Q) (i : Nat) (rest : List Nat) (hi : i + 1 < e.length) :
    getBinEdges (.num i) (.flat e) = .ok (.pair e[i] e[i + 1]) ∧
    getBinEdges (.tuple (i :: rest)) (.flat e) = .ok (.pair e[i] e[i + 1]) := by
  have h0 : e[i]? = some e[i] := List.getElem?_eq_getElem (by omega)
  have h1 : e[i + 1]? = some e[i + 1] := List.getElem?_eq_getElem hi
  simp [getBinEdges, h0, h1]

/-- `get_bin_on_index(idx, bins)` returns the cell `v` exactly for the `(idx, v)` that `iter_bins` yields -/
theorem get_bin_on_index_cells (bins : NArr Q) (idx : List Nat) (v : Q) :
    getBinOnIndex (.tuple idx) bins = .ok (.leaf v) ↔ (idx, v) ∈ cells bins := by
  simp [getBinOnIndex, getBin_eq_ok_iff, mem_cells_iff]

/-! ## CSV text

"… that parse back to the edges and contents within the printed precision": a printed number is the integer
`millionths x` followed by six decimals; it differs from `x` by at most half a millionth. -/

theorem roundHalfEven_close (a b : Nat) (hb : 0 < b) :
    2 * (roundHalfEven a b * b) ≤ 2 * a + b ∧ 2 * a ≤ 2 * (roundHalfEven a b * b) + b := by
  have hdm := Nat.div_add_mod a b
  have hlt := Nat.mod_lt a hb
  have key : ∀ n, n = a / b ∨ n = a / b + 1 → (n = a / b → 2 * (a % b) ≤ b) → (n = a / b + 1 → b ≤ 2 * (a % b)) →
      2 * (n * b) ≤ 2 * a + b ∧ 2 * a ≤ 2 * (n * b) + b := by
    intro n hn h1 h2
    rcases hn with rfl | rfl
    · have := h1 rfl
      have hm : a / b * b = b * (a / b) := Nat.mul_comm _ _
      constructor <;> omega
    · have := h2 rfl
      have hm : (a / b + 1) * b = b * (a / b) + b := by rw [Nat.add_mul, Nat.mul_comm]; simp
      constructor <;> omega
  unfold roundHalfEven
  simp only
  split
  · exact key _ (Or.inl rfl) (fun _ => by omega) (fun h => by omega)
  · split
    · exact key _ (Or.inr rfl) (fun h => by omega) (fun _ => by omega)
    · split
      · exact key _ (Or.inl rfl) (fun _ => by omega) (fun h => by omega)
      · exact key _ (Or.inr rfl) (fun h => by omega) (fun _ => by omega)

/-- the precision of `"{:f}"`: the printed value `millionths x / 10⁶` is within half a millionth of `|x|`
(stated without division: `x = num/den`) -/
theorem fmt_precision (x : Q) :
    2 * (millionths x * x.den) ≤ 2 * (x.num.natAbs * 1000000) + x.den ∧
    2 * (x.num.natAbs * 1000000) ≤ 2 * (millionths x * x.den) + x.den :=
  roundHalfEven_close _ _ x.den_pos

example : fmtF (1 / 3) = "0.333333" ∧ fmtF (-5 / 2) = "-2.500000" ∧ fmtF (3 / 128) = "0.023438" ∧
    fmtF (1 / 128) = "0.007812" := by decide +kernel

/-- the lines of the CSV text: the header (if not empty), then one line per row, each the `"{:f}"` numbers of the
row joined by the separator; the text joins them with `row_end + "\n"` and ends with `last_row_end` -/
theorem csv_text_spec (f : CsvFormat) (rows : List (List Q)) :
    csvText f rows = (f.rowEnd ++ "\n").intercalate (csvLines f rows) ++ f.lastRowEnd ∧
    csvLines f rows = (match f.header with | none => [] | some h => if h.isEmpty then [] else [h]) ++
      rows.map (fun row => f.separator.intercalate (row.map fmtF)) ∧
    (csvLines f rows).length = rows.length + (match f.header with | none => 0 | some h => if h.isEmpty then 0 else 1) := by
  refine ⟨rfl, rfl, ?_⟩
  unfold csvLines
  cases f.header with
  | none => simp
  | some h => by_cases hh : h.isEmpty <;> simp [hh] <;> omega

/-- `ToCSV.run` writes the text of exactly the rows of `csv_rows_1d` / `csv_rows_2d` -/
theorem csv_text_of_rows (f : CsvFormat) (h : Hist) (toCsv : Bool) (ctxDup : Option Bool) (elemDup : Bool)
    (rows : List (List Q)) (hr : toCsvHist h toCsv ctxDup elemDup = .ok (.table rows)) :
    toCsvHistText f h toCsv ctxDup elemDup = .ok (.text (csvText f rows)) := by
  simp [toCsvHistText, hr, bind, Except.bind, pure, Except.pure]

example : (toCsvHistText { separator := ",", header := some "x,y", rowEnd := "", lastRowEnd := "" } exHist true none
    true).toOption.map (fun o => match o with | .text t => t | .unchanged => "") =
    some "x,y\n0.000000,1.000000\n1.000000,2.000000\n3.000000,2.000000" := by decide +kernel

/-! ## the element `HistToGraph`, `GroupScale.__call__`, `graph + x`, `scale(None)` -/

/-- `HistToGraph`: construction rejects a `make_value` that is not a `Variable` (`LenaTypeError`) and an unknown
`get_coordinate` (`LenaValueError`); `run` passes non-histograms and histograms with
`context.histogram.to_graph = False` unchanged and converts the others with `hist_to_graph` (to which
`hist_to_graph_points` applies) -/
theorem hist_to_graph_element (mode : CoordMode) (fields : FieldNamesArg) (sc : ScaleArg) (g : Q → List Q) :
    mkHistToGraph .notVariable mode fields sc = .error .lenaTypeError ∧
    mkHistToGraph .none .bad fields sc = .error .lenaValueError ∧
    mkHistToGraph (.variable g) .bad fields sc = .error .lenaValueError ∧
    (mode ≠ .bad → ∃ el, mkHistToGraph (.variable g) mode fields sc = .ok el ∧
      ∀ h, histToGraphRun el false h true = .ok .unchanged ∧ histToGraphRun el true h false = .ok .unchanged ∧
        (∀ h1 gr, histToGraph h (some g) mode fields sc = .ok (h1, gr) →
          ∃ o, histToGraphRun el true h true = .ok o ∧ o = .graph h1 gr)) := by
  refine ⟨rfl, rfl, rfl, ?_⟩
  intro hm
  refine ⟨{ getter := g, mode := mode, fieldNames := fields, scale := sc }, by simp [mkHistToGraph, hm], ?_⟩
  intro h
  refine ⟨rfl, rfl, ?_⟩
  intro h1 gr hh
  exact ⟨_, by simp [histToGraphRun, hh, bind, Except.bind, pure, Except.pure], rfl⟩

/-- `GroupScale(…)(group)`: a group that is not a list or tuple is rejected with `LenaValueError` and left alone;
otherwise it is `scale_to` -/
theorem group_scale_call (t : ScaleTarget) (group : List Struct) (az au : Bool) :
    groupScaleCall t false group az au = (group, some .lenaValueError) ∧
    groupScaleCall t true group az au = scaleTo t group az au := ⟨rfl, rfl⟩

/-- `graph + x` for an `x` that is not a graph: builtin `TypeError` (`NotImplemented`) -/
theorem graph_add_not_graph (a : Graph) (h : Hist) :
    graphAddAny a .other = .error .typeError ∧ graphAddAny a (.hist h) = .error .typeError ∧
    ∀ b, graphAddAny a (.graph b) = graphAdd a b := ⟨rfl, rfl, fun _ => rfl⟩

/-- `data.scale(None)` — what `scale_to` calls when the selected candidate is a graph of unknown scale — rescales
nothing: a graph is untouched, a histogram at most stores its computed scale, an object without `scale` still has
none -/
theorem scale_none_reads_only (g : Graph) (h : Hist) (d' : Struct) :
    structScale (.graph g) none = .ok (.graph g) ∧ structScale .other none = .attributeError ∧
    (structScale (.hist h) none = .ok d' → ∃ I, d' = .hist { h with scale := some I }) := by
  refine ⟨rfl, rfl, ?_⟩
  intro hs
  unfold structScale at hs
  cases hg : getScale h false with
  | error e => simp [hg] at hs
  | ok p =>
    obtain ⟨h1, I⟩ := p
    simp [hg] at hs
    exact ⟨I, by rw [← hs, getScale_frame h h1 false I hg]⟩

/-! ## `add` followed by `scale`: the scale of a sum is the integral of the sum

Multi-step sentence: after `c = a.add(b, w)` — whatever scales `a` and `b` had stored (computed, set or stale) — `c.scale()`
is the integral of `c`'s own bins, and `c.scale(s)` makes the recomputed scale equal `s`. -/

/-- the histogram returned by `add` has no stored scale, so `scale()` of it computes the integral of its bins -/
theorem add_then_scale (a b c c' : Hist) (w I : Q) (t : Tol) (h : add a b w t = .ok c)
    (hg : getScale c false = .ok (c', I)) : integral c.bins c.edges.axes = .ok I ∧ c' = { c with scale := some I } := by
  have hn := (add_cellwise a b c w t h).2.2.2.2.2
  refine ⟨?_, getScale_frame c c' false I hg⟩
  cases hi : integral c.bins c.edges.axes with
  | error e => simp [getScale, hn, hi, bind, Except.bind] at hg
  | ok J =>
    simp [getScale, hn, hi, bind, Except.bind, pure, Except.pure] at hg
    rw [hg.2]

/-- rescaling a sum: the recomputed scale of `a.add(b, w)` after `scale(s)` is `s` -/
theorem add_then_rescale (a b c c' : Hist) (w s : Q) (t : Tol) (h : add a b w t = .ok c) (hs : setScale c s = .ok c') :
    getScale c' true = .ok ({ c' with scale := some s }, s) :=
  hist_scale_recomputed c c' s hs (by
    intro x hx
    rw [(add_cellwise a b c w t h).2.2.2.2.2] at hx
    cases hx)

example : ((add { exHist with scale := some 5 } { exHist with bins := .node [.leaf 3, .leaf 1], scale := some 5 } 2
    ⟨0, 0⟩).toOption.bind (fun c => (getScale c false).toOption)).map (·.2) = some 15 := by decide +kernel

end Lena.C12
