import LenaModel.Model.C18Ctx
import LenaModel.Props.C18Split
/-! # C18 — cache file names from the static context (`Cache._set_context`)

`resolve` (Model/C18Ctx.lean) names the caches of a templated pipeline.  The name of a templated cache depends only
on the `SetContext` elements before it (`resolve_tcache_name`); distinct (template, value) pairs are distinct files,
different from every plain name (`nameId_inj`, `nameId_ge`); therefore a run under one static context never reads or
writes the cache stored under another one or under the unformatted name (`run_leaves_other_names`), and all theorems
of `Props/C18.lean` apply to the resolved pipeline. -/

namespace Lena.C18

theorem resolve_append (nb V : Nat) : ∀ (xs ys : List TEl) (ctx : SCtx),
    resolve nb V ctx (xs ++ ys) = resolve nb V ctx xs ++ resolve nb V (ctxAfter ctx xs) ys
  | [], _, _ => rfl
  | .el e :: xs, ys, ctx => by simp [resolve, ctxAfter, resolve_append nb V xs ys ctx]
  | .setctx k v :: xs, ys, ctx => by simp [resolve, ctxAfter, resolve_append nb V xs ys ((k, v) :: ctx)]
  | .tcache t k rc :: xs, ys, ctx => by simp [resolve, ctxAfter, resolve_append nb V xs ys ctx]

/-- **the file of a templated Cache is determined by the `SetContext` elements before it**: the elements after
it (`ys`) play no role, and of the elements before it only the bindings they leave -/
theorem resolve_tcache_name (nb V : Nat) (xs ys : List TEl) (ctx : SCtx) (t k : Nat) (rc : Bool) :
    resolve nb V ctx (xs ++ .tcache t k rc :: ys) =
      resolve nb V ctx xs ++ .cache (nameId nb V t ((ctxAfter ctx xs).get k)) rc :: resolve nb V (ctxAfter ctx xs) ys := by
  rw [resolve_append]; rfl

/-- a later `SetContext` for the same key overrides an earlier one; without one the name stays the template -/
theorem ctx_get_latest (ctx : SCtx) (k v : Nat) : SCtx.get ((k, v) :: ctx) k = some v := by simp [SCtx.get]

example : resolve 1 2 [] [.setctx 0 1, .setctx 0 0, .tcache 0 0 false, .tcache 1 1 false]
    = [.cache 2 false, .cache 4 false] := by decide

/-- distinct (template, value) pairs are distinct files -/
theorem nameId_inj (nb V t t' : Nat) (ov ov' : Option Nat) (hv : ∀ v, ov = some v → v < V) (hv' : ∀ v, ov' = some v → v < V)
    (h : nameId nb V t ov = nameId nb V t' ov') : t = t' ∧ ov = ov' := by
  have key : ∀ (a a' r r' : Nat), r < V + 1 → r' < V + 1 → a * (V + 1) + r = a' * (V + 1) + r' → a = a' ∧ r = r' := by
    intro a a' r r' hr hr' e
    have h1 : (a * (V + 1) + r) / (V + 1) = a := by
      rw [Nat.add_comm, Nat.add_mul_div_right _ _ (by omega), Nat.div_eq_of_lt hr]; omega
    have h2 : (a' * (V + 1) + r') / (V + 1) = a' := by
      rw [Nat.add_comm, Nat.add_mul_div_right _ _ (by omega), Nat.div_eq_of_lt hr']; omega
    have ha : a = a' := by rw [← h1, ← h2, e]
    subst ha
    exact ⟨rfl, by omega⟩
  cases ov with
  | none =>
    cases ov' with
    | none =>
      simp only [nameId] at h
      exact ⟨(key t t' 0 0 (by omega) (by omega) (by omega)).1, rfl⟩
    | some v' =>
      simp only [nameId] at h
      have := hv' v' rfl
      have := (key t t' 0 (v' + 1) (by omega) (by omega) (by omega)).2
      omega
  | some v =>
    have := hv v rfl
    cases ov' with
    | none =>
      simp only [nameId] at h
      have := (key t t' (v + 1) 0 (by omega) (by omega) (by omega)).2
      omega
    | some v' =>
      simp only [nameId] at h
      have := hv' v' rfl
      obtain ⟨h1, h2⟩ := key t t' (v + 1) (v' + 1) (by omega) (by omega) (by omega)
      exact ⟨h1, by congr 1; omega⟩

/-- and they differ from every plain name -/
theorem nameId_ge (nb V t : Nat) (ov : Option Nat) : nb ≤ nameId nb V t ov := by
  cases ov <;> simp [nameId] <;> omega

/-- **a run under one static context leaves the caches under other names alone** — the cache stored under the
unformatted name or under another value of the key is neither replayed nor overwritten: every file that is not
the file of a Cache of the resolved pipeline is unchanged by the run. -/
theorem run_leaves_other_names (nb V : Nat) (mode : Mode) (fs : FS) (s : SrcSpec) (tels : List TEl) (ctx : SCtx) (k : Nat)
    (hm : ModeOk mode (resolve nb V ctx tels)) (hd : Distinct (resolve nb V ctx tels)) (c : Nat)
    (hc : c ∉ cacheIds (resolve nb V ctx tels)) :
    (runPipe mode fs s (resolve nb V ctx tels) k).fs c = fs c :=
  run_touches_only_own_caches mode fs s _ k hm hd c hc

/-- interplay with a cache that exists under the old (unformatted) name: with `SetContext(k0, 1)` the pipeline uses
the file `t0_1`; the flow stored under `t0_{{k0}}` (id 1) is not replayed and stays; without the `SetContext` it is -/
example :
    let fs := FS.empty.set 1 ⟨some [7, 8], none⟩
    let withCtx := resolve 1 2 [] [.setctx 0 1, .tcache 0 0 false]
    let without := resolve 1 2 [] [.tcache 0 0 false]
    (runPipe .source fs ⟨[1, 2, 3], none⟩ withCtx 9).outs.map (·.1) = [1, 2, 3] ∧
    (runPipe .source fs ⟨[1, 2, 3], none⟩ withCtx 9).fs 1 = ⟨some [7, 8], none⟩ ∧
    (runPipe .source fs ⟨[1, 2, 3], none⟩ withCtx 9).fs 3 = ⟨some [1, 2, 3], none⟩ ∧
    (runPipe .source fs ⟨[1, 2, 3], none⟩ without 9).outs.map (·.1) = [7, 8] := by decide

end Lena.C18
