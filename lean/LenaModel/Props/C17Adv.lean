import LenaModel.Model.C17Adv
import LenaModel.Props.C17
import LenaModel.Props.C17Ext
/-! # C17 — theorems added after the adversary round

1. **Families of objects made with `copy.deepcopy`** (`Model/C17Adv`): an object is not disturbed by what is
   done with the others, nor by being copied; a copy behaves as the object it was copied from would have;
   every fresh copy of a `Slice` fills exactly the slice of the values *it* is fed with.
2. **The elements never look into the values** (naturality): running an element on a flow whose values
   were replaced through any function `f` gives the `f`-images of what it gives on the original flow — for
   `Slice.run` (every branch), `fill_into`, `Reverse`, `Chain`, `RunningChunkBy`.  This is what allows the
   harness to run the model on integers and translate its answers to flows of `(data, context)` pairs,
   lists, strings…; and it is the clause a "convenience" that unpacks or flattens values breaks. -/

namespace Lena.C17

/-! ## 1. Families -/

section Family
variable {σ ο ε : Type}

theorem famEvents_append (step : σ → ο → σ × ε) : ∀ (ops1 : List (FamOp ο)) (fam : List σ) (ops2 : List (FamOp ο)),
    famEvents step fam (ops1 ++ ops2)
      = famEvents step fam ops1 ++ famEvents step (famAfter step fam ops1) ops2
  | [], _, _ => rfl
  | op :: ops1, fam, ops2 => by
    simp only [List.cons_append, famEvents, famAfter]
    cases (famStep step fam op).2 with
    | none => exact famEvents_append step ops1 _ ops2
    | some e => simp only [List.cons_append, famEvents_append step ops1 _ ops2]

theorem eventsOf_append (j : Nat) : ∀ (es1 es2 : List (Nat × ε)),
    eventsOf j (es1 ++ es2) = eventsOf j es1 ++ eventsOf j es2
  | [], _ => rfl
  | (i, e) :: es1, es2 => by
    simp only [List.cons_append, eventsOf]
    split <;> simp [eventsOf_append j es1 es2]

/-- **An object is not disturbed by the others, nor by being copied.**  In every sequence of operations on a
family — calls on any objects, `copy.deepcopy` of any objects (of object `j` itself too), in any order — the
outcomes of the calls on object `j` are those of object `j` alone receiving its own calls. -/
theorem family_object_independent (step : σ → ο → σ × ε) :
    ∀ (ops : List (FamOp ο)) (fam : List σ) (j : Nat) (c : σ), fam[j]? = some c →
      eventsOf j (famEvents step fam ops) = objEvents step c (opsOf j ops)
  | [], _, _, _, _ => rfl
  | .act i o :: ops, fam, j, c, hj => by
    have hjl : j < fam.length := (List.getElem?_eq_some_iff.mp hj).1
    simp only [famEvents, famStep]
    cases hi : fam[i]? with
    | none =>
      have hne : i ≠ j := by intro h; rw [h, hj] at hi; cases hi
      simp only [opsOf, if_neg hne]
      exact family_object_independent step ops fam j c hj
    | some ci =>
      by_cases h : i = j
      · subst h
        rw [hj] at hi; cases hi
        simp only [eventsOf, opsOf, if_true, objEvents]
        rw [family_object_independent step ops (fam.set i (step c o).1) i (step c o).1
          (by simp [List.getElem?_set_self hjl])]
      · simp only [eventsOf, opsOf, if_neg h]
        exact family_object_independent step ops (fam.set i (step ci o).1) j c
          (by rw [List.getElem?_set_ne h]; exact hj)
  | .copy i :: ops, fam, j, c, hj => by
    have hjl : j < fam.length := (List.getElem?_eq_some_iff.mp hj).1
    simp only [famEvents, famStep, opsOf]
    cases hi : fam[i]? with
    | none => exact family_object_independent step ops fam j c hj
    | some ci =>
      exact family_object_independent step ops (fam ++ [ci]) j c
        (by rw [List.getElem?_append_left hjl]; exact hj)

/-- **A copy behaves as the object it was copied from would have.**  After `copy.deepcopy(fam[i])` the new
object (number `fam.length`) answers its calls exactly as `fam[i]` — in the state it had when it was
copied — would answer them, whatever else is done with the family (the original included). -/
theorem family_copy_as_original (step : σ → ο → σ × ε) (fam : List σ) (i : Nat) (c : σ) (hi : fam[i]? = some c)
    (ops : List (FamOp ο)) :
    eventsOf fam.length (famEvents step fam (.copy i :: ops)) = objEvents step c (opsOf fam.length ops) := by
  simp only [famEvents, famStep, hi]
  exact family_object_independent step ops (fam ++ [c]) fam.length c (by simp)

/-- the state of one object after its own calls -/
theorem objAfter_append (step : σ → ο → σ × ε) : ∀ (l1 : List ο) (c : σ) (l2 : List ο),
    objAfter step c (l1 ++ l2) = objAfter step (objAfter step c l1) l2
  | [], _, _ => rfl
  | o :: l1, c, l2 => by simp only [List.cons_append, objAfter]; exact objAfter_append step l1 _ l2

/-- **The state of every object is the state of its ancestor after the calls of its lineage**: the calls
made on its ancestors before the respective `copy.deepcopy`, then those made on itself — nothing else. -/
theorem family_lineage (step : σ → ο → σ × ε) :
    ∀ (ops : List (FamOp ο)) (fam : List σ) (j r : Nat) (l : List ο),
      lineage fam.length j ops = some (r, l) →
      (famAfter step fam ops)[j]? = (fam[r]?).map (fun c => objAfter step c l)
  | [], fam, j, r, l, h => by
    simp only [lineage] at h
    split at h
    · cases h; simp [famAfter, objAfter]
    · cases h
  | .act i o :: ops, fam, j, r, l, h => by
    simp only [lineage] at h
    simp only [famAfter, famStep]
    by_cases hi : i < fam.length
    · rw [if_pos hi] at h
      have hget : fam[i]? = some fam[i] := List.getElem?_eq_getElem hi
      simp only [hget]
      cases hl : lineage fam.length j ops with
      | none => simp [hl] at h
      | some p =>
        obtain ⟨r', l'⟩ := p
        simp only [hl] at h
        have hlen : (fam.set i (step fam[i] o).1).length = fam.length := List.length_set
        have ih := family_lineage step ops (fam.set i (step fam[i] o).1) j r' l' (by rw [hlen]; exact hl)
        rw [ih]
        by_cases hr : r' = i
        · rw [if_pos hr] at h; cases h
          subst hr
          simp [List.getElem?_set_self hi, hget, objAfter]
        · rw [if_neg hr] at h; cases h
          rw [List.getElem?_set_ne (Ne.symm hr)]
    · rw [if_neg hi] at h
      have hget : fam[i]? = none := List.getElem?_eq_none (by omega)
      simp only [hget]
      exact family_lineage step ops fam j r l h
  | .copy i :: ops, fam, j, r, l, h => by
    simp only [lineage] at h
    simp only [famAfter, famStep]
    by_cases hi : i < fam.length
    · rw [if_pos hi] at h
      have hget : fam[i]? = some fam[i] := List.getElem?_eq_getElem hi
      simp only [hget]
      cases hl : lineage (fam.length + 1) j ops with
      | none => simp [hl] at h
      | some p =>
        obtain ⟨r', l'⟩ := p
        simp only [hl] at h
        have hlen : (fam ++ [fam[i]]).length = fam.length + 1 := by simp
        have ih := family_lineage step ops (fam ++ [fam[i]]) j r' l' (by rw [hlen]; exact hl)
        rw [ih]
        by_cases hr : r' = fam.length
        · rw [if_pos hr] at h; cases h
          subst hr
          simp [hget]
        · rw [if_neg hr] at h; cases h
          by_cases hlt : r < fam.length
          · rw [List.getElem?_append_left hlt]
          · have h1 : (fam ++ [fam[i]])[r]? = none := List.getElem?_eq_none (by simp; omega)
            have h2 : fam[r]? = none := List.getElem?_eq_none (by omega)
            rw [h1, h2]
    · rw [if_neg hi] at h
      have hget : fam[i]? = none := List.getElem?_eq_none (by omega)
      simp only [hget]
      exact family_lineage step ops fam j r l h

/-- an object of the initial family is its own ancestor and its lineage are the calls made on it -/
theorem lineage_existing : ∀ (ops : List (FamOp ο)) (n j : Nat), j < n →
    lineage n j ops = some (j, opsOf j ops)
  | [], n, j, h => by simp [lineage, opsOf, h]
  | .act i o :: ops, n, j, h => by
    simp only [lineage, opsOf, lineage_existing ops n j h]
    by_cases hi : i < n
    · rw [if_pos hi]
      by_cases hij : i = j
      · subst hij; simp
      · have : ¬ j = i := fun e => hij e.symm
        simp [hij, this]
    · rw [if_neg hi]
      have : i ≠ j := by omega
      simp [this]
  | .copy i :: ops, n, j, h => by
    simp only [lineage, opsOf, lineage_existing ops (n + 1) j (by omega), lineage_existing ops n j h]
    by_cases hi : i < n
    · rw [if_pos hi]
      have : ¬ j = n := by omega
      simp [this]
    · rw [if_neg hi]

/-- `k` copies of a fresh object: `k + 1` objects in the state of the original -/
theorem famAfter_fresh_copies (step : σ → ο → σ × ε) (c : σ) : ∀ (k m : Nat),
    famAfter step (List.replicate (m + 1) c) (List.replicate k (.copy 0)) = List.replicate (m + 1 + k) c
  | 0, _ => rfl
  | k + 1, m => by
    simp only [List.replicate_succ (n := k), famAfter, famStep]
    have h0 : (List.replicate (m + 1) c)[0]? = some c := by simp
    simp only [h0]
    have : List.replicate (m + 1) c ++ [c] = List.replicate (m + 1 + 1) c := by
      rw [List.replicate_succ' (n := m + 1)]
    rw [this, famAfter_fresh_copies step c k (m + 1)]
    congr 1; omega

theorem famEvents_copies (step : σ → ο → σ × ε) : ∀ (k : Nat) (fam : List σ),
    famEvents step fam (List.replicate k (.copy 0)) = []
  | 0, _ => rfl
  | k + 1, fam => by
    simp only [List.replicate_succ, famEvents, famStep]
    cases fam[0]? <;> exact famEvents_copies step k _

/-- **Fresh copies are independent objects in the state of the original.**  Make `k` copies of a fresh object
`c`, then do anything with the family (calls on any object, further copies): the outcomes of the calls on
each of the `k + 1` objects are those of a fresh `c` alone receiving that object's calls. -/
theorem fresh_copies_independent (step : σ → ο → σ × ε) (c : σ) (k j : Nat) (hj : j ≤ k) (ops : List (FamOp ο)) :
    eventsOf j (famEvents step [c] (List.replicate k (.copy 0) ++ ops)) = objEvents step c (opsOf j ops) := by
  rw [famEvents_append, eventsOf_append, famEvents_copies]
  have h := famAfter_fresh_copies step c k 0
  simp only [Nat.zero_add, List.replicate_one] at h
  rw [h]
  simp only [eventsOf, List.nil_append]
  exact family_object_independent step ops _ j c (by rw [List.getElem?_replicate]; simp; omega)

theorem objEvents_append (step : σ → ο → σ × ε) : ∀ (l1 : List ο) (c : σ) (l2 : List ο),
    objEvents step c (l1 ++ l2) = objEvents step c l1 ++ objEvents step (objAfter step c l1) l2
  | [], _, _ => rfl
  | o :: l1, c, l2 => by simp only [List.cons_append, objEvents, objAfter, objEvents_append step l1]

/-- **The outcomes of the calls on any object — a copy, a copy of a copy — are those of its ancestor alone.**
If object `j` descends from object `r` of the initial family with lineage `l`, then `l = pre ++ own` where
`pre` are the calls its ancestors received before the respective copies and the outcomes of the calls on `j`
are those of `fam[r]`, brought by `pre` into the state at the time of the copy, receiving `own`.  For an
object of the initial family `pre` is empty. -/
theorem family_lineage_events (step : σ → ο → σ × ε) :
    ∀ (ops : List (FamOp ο)) (fam : List σ) (j r : Nat) (l : List ο) (c : σ),
      lineage fam.length j ops = some (r, l) → fam[r]? = some c →
      ∃ pre own, l = pre ++ own ∧ (j < fam.length → pre = []) ∧
        eventsOf j (famEvents step fam ops) = objEvents step (objAfter step c pre) own
  | [], fam, j, r, l, c, h, hc => by
    simp only [lineage] at h
    split at h
    · cases h; exact ⟨[], [], rfl, fun _ => rfl, rfl⟩
    · cases h
  | .act i o :: ops, fam, j, r, l, c, h, hc => by
    simp only [lineage] at h
    simp only [famEvents, famStep]
    by_cases hi : i < fam.length
    · rw [if_pos hi] at h
      have hget : fam[i]? = some fam[i] := List.getElem?_eq_getElem hi
      simp only [hget]
      have hlen : (fam.set i (step fam[i] o).1).length = fam.length := List.length_set
      cases hl : lineage fam.length j ops with
      | none => simp [hl] at h
      | some p =>
        obtain ⟨r', l'⟩ := p
        simp only [hl] at h
        by_cases hr : r' = i
        · rw [if_pos hr] at h
          have e1 : r' = r := by injection h with h; exact (Prod.mk.inj h).1
          have e2 : o :: l' = l := by injection h with h; exact (Prod.mk.inj h).2
          have hri : r = i := e1 ▸ hr
          have hcc : c = fam[i] := by rw [hri, hget] at hc; exact (Option.some.inj hc).symm
          obtain ⟨pre, own, hl', hpre, hev⟩ := family_lineage_events step ops (fam.set i (step fam[i] o).1) j i l'
            (step fam[i] o).1 (by rw [hlen, ← hr]; exact hl) (by simp [List.getElem?_set_self hi])
          by_cases hij : i = j
          · have hp : pre = [] := hpre (by rw [hlen, ← hij]; exact hi)
            refine ⟨[], o :: own, by rw [← e2, hl', hp]; rfl, fun _ => rfl, ?_⟩
            rw [hp] at hev
            simp only [eventsOf, if_pos hij, objAfter, objEvents, hcc] at hev ⊢
            rw [hev]
          · have hjn : ¬ j < fam.length := by
              intro hj
              rw [lineage_existing ops fam.length j hj] at hl
              have : j = r' := (Prod.mk.inj (Option.some.inj hl)).1
              exact hij (hr ▸ this ▸ rfl)
            refine ⟨o :: pre, own, by rw [← e2, hl']; rfl, fun hj => absurd hj hjn, ?_⟩
            simp only [eventsOf, if_neg hij, objAfter, hcc]
            exact hev
        · rw [if_neg hr] at h; cases h
          have hij : i ≠ j := by
            intro e; subst e
            rw [lineage_existing ops fam.length i hi] at hl
            cases hl; exact hr rfl
          obtain ⟨pre, own, hl', hpre, hev⟩ := family_lineage_events step ops (fam.set i (step fam[i] o).1) j r l c
            (by rw [hlen]; exact hl) (by rw [List.getElem?_set_ne (Ne.symm hr)]; exact hc)
          refine ⟨pre, own, hl', fun hj => hpre (by rw [hlen]; exact hj), ?_⟩
          simp only [eventsOf, if_neg hij]
          exact hev
    · rw [if_neg hi] at h
      have hget : fam[i]? = none := List.getElem?_eq_none (by omega)
      simp only [hget]
      exact family_lineage_events step ops fam j r l c h hc
  | .copy i :: ops, fam, j, r, l, c, h, hc => by
    simp only [lineage] at h
    simp only [famEvents, famStep]
    by_cases hi : i < fam.length
    · rw [if_pos hi] at h
      have hget : fam[i]? = some fam[i] := List.getElem?_eq_getElem hi
      simp only [hget]
      have hlen : (fam ++ [fam[i]]).length = fam.length + 1 := by simp
      cases hl : lineage (fam.length + 1) j ops with
      | none => simp [hl] at h
      | some p =>
        obtain ⟨r', l'⟩ := p
        simp only [hl] at h
        by_cases hr : r' = fam.length
        · rw [if_pos hr] at h; cases h
          subst hr
          rw [hget] at hc; cases hc
          obtain ⟨pre, own, hl', hpre, hev⟩ := family_lineage_events step ops (fam ++ [fam[i]]) j fam.length l
            fam[i] (by rw [hlen]; exact hl) (by simp)
          exact ⟨pre, own, hl', fun hj => hpre (by rw [hlen]; omega), hev⟩
        · rw [if_neg hr] at h; cases h
          have hrl : r < fam.length := (List.getElem?_eq_some_iff.mp hc).1
          obtain ⟨pre, own, hl', hpre, hev⟩ := family_lineage_events step ops (fam ++ [fam[i]]) j r l c
            (by rw [hlen]; exact hl) (by rw [List.getElem?_append_left hrl]; exact hc)
          exact ⟨pre, own, hl', fun hj => hpre (by rw [hlen]; omega), hev⟩
    · rw [if_neg hi] at h
      have hget : fam[i]? = none := List.getElem?_eq_none (by omega)
      simp only [hget]
      exact family_lineage_events step ops fam j r l c h hc

end Family

/-! ### Families of `Slice` objects -/

theorem objEvents_slice {α : Type} : ∀ (ops : List (SliceOp α)) (c : SliceInst),
    objEvents sliceStep c ops = c.events ops
  | [], _ => rfl
  | o :: ops, c => by simp only [objEvents, SliceInst.events, sliceStep, objEvents_slice ops]

/-- **Every fresh copy of a `Slice` fills exactly the slice of the values it is fed with.**  For non-negative
or `None` `start`, `stop` and a step `None` or `≥ 1`: construct `Slice(start, stop, step)`, make `k`
`copy.deepcopy`s, then do anything with the `k + 1` objects (`fill_into` and `run` on any of them in any
interleaving, further copies).  For each of them, the values for which `element.fill` was called are
`xs[start:stop:step]` where `xs` are the values fed to *that* object. -/
theorem slice_copies_fill_eq {α : Type} (start stop step : Option Int) (hs : GoodStep step)
    (h1 : noneOrNonneg start = true) (h2 : noneOrNonneg stop = true) (c : SliceInst)
    (hc : mkSliceInst start stop step = some c) (k j : Nat) (hj : j ≤ k) (ops : List (FamOp (SliceOp α))) :
    filledOf (fillVals (opsOf j ops))
        (fillEvs (eventsOf j (famEvents sliceStep [c] (List.replicate k (.copy 0) ++ ops))))
      = pySlice (fillVals (opsOf j ops)) start stop ((step.getD 1).toNat) := by
  have hstep : 1 ≤ (step.getD 1).toNat := by have := goodStep_getD hs; omega
  rw [fresh_copies_independent sliceStep c k j hj ops, objEvents_slice]
  rw [mkSliceInst_nonneg start stop step hs h1 h2] at hc
  cases hc
  rw [slice_fill_ignores_runs _ _ _ _ _ rfl]
  simp only []
  rw [fill_trace_eq _ _ _ hstep]
  have hxs := slice_fill_into_eq (α := α) start stop step hs h1 h2 (fillVals (opsOf j ops))
  obtain ⟨st, hst⟩ := hxs
  simp only [sliceFillAll, mkSliceInst_nonneg start stop step hs h1 h2] at hst
  rw [fill_into_eq _ _ _ hstep] at hst
  simp only [FillRun.filled.injEq] at hst
  exact hst.1

/-- **Every run of any object of the family is the slice of its flow**, whatever was done before with this
object, its ancestors or the others. -/
theorem slice_family_run_eq {α : Type} (start stop step : Option Int) (hs : GoodStep step) (c : SliceInst)
    (hc : mkSliceInst start stop step = some c) (ops : List (FamOp (SliceOp α))) (j : Nat) (d : SliceInst)
    (hd : (famAfter sliceStep [c] ops)[j]? = some d) (xs : List α) :
    (sliceStep d (.run xs)).2 = .ran (some (.ok (pySlice xs start stop ((step.getD 1).toNat)))) := by
  -- the object descends from `c` through calls that never change `kind`
  have hk : ∀ (ops : List (FamOp (SliceOp α))) (fam : List SliceInst),
      (∀ x ∈ fam, x.kind = c.kind) → ∀ x ∈ famAfter sliceStep fam ops, x.kind = c.kind := by
    intro ops
    induction ops with
    | nil => intro fam h; exact h
    | cons op ops ih =>
      intro fam h
      simp only [famAfter]
      apply ih
      cases op with
      | act i o =>
        simp only [famStep]
        cases hi : fam[i]? with
        | none => exact h
        | some ci =>
          intro x hx
          rcases List.mem_or_eq_of_mem_set hx with hx | hx
          · exact h x hx
          · rw [hx]
            have hci : ci.kind = c.kind := h ci (List.mem_of_getElem? hi)
            have := SliceInst.after_kind [o] ci
            simp only [SliceInst.after] at this
            simp only [sliceStep]
            rw [this, hci]
      | copy i =>
        simp only [famStep]
        cases hi : fam[i]? with
        | none => exact h
        | some ci =>
          intro x hx
          rcases List.mem_append.mp hx with hx | hx
          · exact h x hx
          · simp only [List.mem_singleton] at hx
            rw [hx]; exact h ci (List.mem_of_getElem? hi)
  have hdk : d.kind = c.kind :=
    hk ops [c] (by intro x hx; simp only [List.mem_singleton] at hx; rw [hx]) d (List.mem_of_getElem? hd)
  simp only [sliceStep, SliceInst.step, hdk, mkSliceInst_kind hc, slice_run_eq_pyslice start stop step hs xs]

example : famEvents sliceStep [⟨.islice 1 (some 6) 2, fillInit 1⟩]
      [.copy 0, .act 0 (.fill (10 : Int)), .act 1 (.fill 20), .act 0 (.fill 11), .act 1 (.fill 21), .copy 0,
       .act 2 (.fill 30), .act 2 (.fill 31)]
    = [(0, .fill .skipped), (1, .fill .skipped), (0, .fill .filled), (1, .fill .filled),
       (2, .fill .skipped), (2, .fill .filled)] := by decide
example : lineage (ο := Nat) 1 2 [.copy 0, .act 0 7, .act 1 8, .copy 1, .act 0 9, .act 2 5]
    = some (0, [8, 5]) := by decide
example : mkSliceInst (some 1) (some 6) (some 2) = some ⟨.islice 1 (some 6) 2, fillInit 1⟩ := by decide

/-! ## 2. The elements never look into the values (naturality) -/

section Natural
variable {α β : Type} (f : α → β)

theorem everyNthAux_map (k : Nat) : ∀ (xs : List α) (j : Nat),
    everyNthAux k j (xs.map f) = (everyNthAux k j xs).map f
  | [], _ => by simp [everyNthAux]
  | x :: xs, 0 => by simp [everyNthAux, everyNthAux_map k xs]
  | x :: xs, j + 1 => by simp [everyNthAux, everyNthAux_map k xs]

/-- Python slicing commutes with replacing the values -/
theorem pySlice_map (xs : List α) (start stop : Option Int) (step : Nat) :
    pySlice (xs.map f) start stop step = (pySlice xs start stop step).map f := by
  simp only [pySlice, everyNth, List.length_map, ← List.map_drop, ← List.map_take, everyNthAux_map]

/-- **`Slice.run` never looks into the values**: for every `start`, `stop` (negative ones too — all seven
branches of `_run_negative_islice`) and every good step, replacing the values of the flow through `f`
replaces the yielded values through `f`; in particular a value that is itself a tuple, a list, a string is
passed on as it is. -/
theorem slice_run_natural (start stop step : Option Int) (hs : GoodStep step) (xs : List α) :
    sliceRun (mkSlice start stop step) (xs.map f)
      = (sliceRun (mkSlice start stop step) xs).map (fun o => match o with
          | .ok ys => .ok (ys.map f)
          | .indexError => .indexError) := by
  rw [slice_run_eq_pyslice start stop step hs, slice_run_eq_pyslice start stop step hs, pySlice_map]
  rfl

/-- `Reverse` never looks into the values -/
theorem reverse_natural (xs : List α) : reverseRun (xs.map f) = (reverseRun xs).map f := by
  rw [reverse_spec, reverse_spec, List.map_reverse]

/-- **`Chain` never looks into the values of its iterables**: whatever the values are (tuples, lists,
strings: iterables themselves), each is yielded as it is — also when there is a single iterable. -/
theorem chain_natural (xss : List (List α)) : chainCall (xss.map (List.map f)) = (chainCall xss).map f := by
  rw [chain_spec, chain_spec, List.map_flatten]

/-- one iterable: its values, not the values of its values -/
theorem chain_single (xs : List α) : chainCall [xs] = xs := by simp [chainCall]

/-- any split of the iterables: chaining is associative -/
theorem chain_append (xss yss : List (List α)) : chainCall (xss ++ yss) = chainCall xss ++ chainCall yss := by
  rw [chain_spec, chain_spec, chain_spec, List.flatten_append]

theorem windows_map (cs : Nat) : ∀ (xs : List α), windows cs (xs.map f) = (windows cs xs).map (List.map f)
  | [] => by simp only [List.map_nil, windows]; split <;> simp
  | x :: xs => by
    simp only [List.map_cons, windows, List.length_cons, List.length_map]
    split
    · rfl
    · rw [windows_map cs xs]
      simp [List.map_take]

/-- `RunningChunkBy` never looks into the values: the chunks of the replaced flow are the replaced chunks -/
theorem chunks_natural (cs : Nat) (xs : List α) :
    runningChunkBy cs (xs.map f) = (runningChunkBy cs xs).map (List.map f) := by
  rw [chunks_are_windows_all, chunks_are_windows_all, windows_map]

/-- `fill_into` never looks at the values: which calls fill, skip or raise `LenaStopFill` depends only on
how many values were fed -/
theorem fillTrace_map (stop : Option Nat) (step : Nat) : ∀ (xs : List α) (s : FillState),
    fillTrace stop step s (xs.map f) = fillTrace stop step s xs
  | [], _ => rfl
  | _ :: xs, s => by simp only [List.map_cons, fillTrace, fillTrace_map stop step xs]

theorem filledOf_map : ∀ (xs : List α) (os : List FillOut), filledOf (xs.map f) os = (filledOf xs os).map f
  | [], _ => by simp [filledOf]
  | _ :: _, [] => by simp [filledOf]
  | x :: xs, .filled :: os => by simp [filledOf, filledOf_map xs os]
  | x :: xs, .skipped :: os => by simp [filledOf, filledOf_map xs os]
  | x :: xs, .stopFill :: os => by simp [filledOf, filledOf_map xs os]

/-- the values `fill_into` passes to `element.fill` are passed as they are -/
theorem fill_into_natural (start : Nat) (stop : Option Nat) (step : Nat) (xs : List α) :
    filledOf (xs.map f) (fillTrace stop step (fillInit start) (xs.map f))
      = (filledOf xs (fillTrace stop step (fillInit start) xs)).map f := by
  rw [fillTrace_map, filledOf_map]

example : sliceRun (mkSlice (some (-3)) none none) ([1, 2, 3, 4].map (fun i : Int => (i, [i])))
    = some (.ok [(2, [2]), (3, [3]), (4, [4])]) := by decide
example : chainCall [[[1, 2], [3]]] = [[1, 2], [3]] := by decide

end Natural

end Lena.C17
