import LenaModel.Model.C03G
import LenaModel.Lemmas.C03X
import LenaModel.Props.C03
import LenaModel.Props.C03X
/-! # C03 — property theorems, part 6: `Split.run` as a generator; several runs of one Split alive at once

*"For every list of branches, every bufsize and every flow, the output of Split.run is …"* —
for EVERY call of `run`, also when the generator a previous call returned has not been exhausted.
`Model/C03G.lean` transcribes `run` as a machine whose frame (`GenS`: `active_seqs`, `ind`, the
iterator, `orig_buf`, `flow_was_empty`) is private to the generator while the branch objects
(`ObjStore`) are shared.

* `gen_alone` — REFINEMENT: a generator resumed until it is exhausted, alone, produces exactly
  the event trace of `Split.runTrace` (for arbitrary stateful branches), within `genFuel` steps;
* `runSched_stateless` — for stateless branches, under ANY interleaving of the steps of any number
  of generators of one Split, every generator does what it does alone;
* `interleaved_runs` — hence each of them yields `Split.run` of its own flow. -/

namespace Lena.C03

variable {σ α : Type}

/-! ## 22. the store -/

theorem ObjStore.set_same (st : ObjStore σ α) (i : Nat) (b : Branch σ α) : (st.set i b) i = b := by
  simp [ObjStore.set]

theorem ObjStore.set_other (st : ObjStore σ α) (i j : Nat) (b : Branch σ α) (h : j ≠ i) :
    (st.set i b) j = st j := by
  simp [ObjStore.set, h]

theorem ObjStore.set_self (st : ObjStore σ α) (i : Nat) : st.set i (st i) = st := by
  funext j
  unfold ObjStore.set
  split
  · rename_i h; rw [h]
  · rfl

theorem map_set_of_not_mem (st : ObjStore σ α) (i : Nat) (b : Branch σ α) (l : List Nat) (h : i ∉ l) :
    l.map (st.set i b) = l.map st := by
  apply List.map_congr_left
  intro j hj
  exact ObjStore.set_other _ _ _ _ (fun e => h (e ▸ hj))

theorem storeOf_mem (d : Branch σ α) (brs : List (Branch σ α)) (hnd : (brs.map (·.id)).Nodup) :
    ∀ b ∈ brs, storeOf d brs b.id = b := by
  intro b hb
  unfold storeOf
  have := findObj_map (fun c => c) (fun _ => rfl) brs hnd b hb
  simp only [List.map_id_fun', id_eq] at this
  rw [this]
  rfl

/-! ## 23. steps of one generator -/

theorem microStep_fin (bs : Option Nat) (st : ObjStore σ α) (g : GenS α) (h : g.fin = true) :
    microStep bs st g = ([], st, g) := by
  simp [microStep, h]

theorem genIter_fin (bs : Option Nat) (n : Nat) (st : ObjStore σ α) (g : GenS α) (h : g.fin = true) :
    genIter bs n st g = ([], st, g) := by
  induction n with
  | zero => rfl
  | succ n ih => simp [genIter, microStep_fin bs st g h, ih]

theorem genIter_add (bs : Option Nat) (a b : Nat) :
    ∀ (st : ObjStore σ α) (g : GenS α),
      genIter bs (a + b) st g =
        ((genIter bs a st g).1 ++ (genIter bs b (genIter bs a st g).2.1 (genIter bs a st g).2.2).1,
          (genIter bs b (genIter bs a st g).2.1 (genIter bs a st g).2.2).2) := by
  induction a with
  | zero => intro st g; simp [genIter]
  | succ a ih =>
    intro st g
    rw [Nat.succ_add]
    simp only [genIter]
    rw [ih]
    simp [List.append_assoc]

theorem genIter_one (bs : Option Nat) (st : ObjStore σ α) (g : GenS α) :
    genIter bs 1 st g = microStep bs st g := by
  simp [genIter]

/-- once exhausted, further steps do nothing -/
theorem genIter_after_fin (bs : Option Nat) (k n : Nat) (st : ObjStore σ α) (g : GenS α)
    (h : (genIter bs k st g).2.2.fin = true) (hn : k ≤ n) : genIter bs n st g = genIter bs k st g := by
  obtain ⟨m, rfl⟩ := Nat.exists_eq_add_of_le hn
  rw [genIter_add, genIter_fin bs m _ _ h]
  simp

theorem microStep_todo_cons (bs : Option Nat) (st : ObjStore σ α) (g : GenS α) (buf : List α) (i : Nat)
    (r : List Nat) (hf : g.fin = false) (hfin : g.final = none) (hb : g.blk = some buf) (ht : g.todo = i :: r) :
    microStep bs st g = match stepFull buf (st i) with
      | (ev, b', .stay) => (ev, st.set i b', { g with done := g.done ++ [i], todo := r })
      | (ev, b', .drop) => (ev, st.set i b', { g with todo := r })
      | (_, _, .abort e) => e.elim := by
  simp [microStep, hf, hfin, hb, ht] <;> rfl

theorem microStep_todo_nil (bs : Option Nat) (st : ObjStore σ α) (g : GenS α) (buf : List α)
    (hf : g.fin = false) (hfin : g.final = none) (hb : g.blk = some buf) (ht : g.todo = []) :
    microStep bs st g = ([], st, { g with blk := none, todo := g.done, done := [] }) := by
  simp [microStep, hf, hfin, hb, ht]

theorem microStep_read (bs : Option Nat) (st : ObjStore σ α) (g : GenS α)
    (hf : g.fin = false) (hfin : g.final = none) (hb : g.blk = none) :
    microStep bs st g =
      if (readBlock bs g.flow).1.isEmpty then ([], st, { g with final := some g.todo })
      else ([], st, { g with flow := (readBlock bs g.flow).2, blk := some (readBlock bs g.flow).1,
                              fwe := false, done := [] }) := by
  simp [microStep, hf, hfin, hb]

theorem microStep_final_cons (bs : Option Nat) (st : ObjStore σ α) (g : GenS α) (i : Nat) (r : List Nat)
    (hf : g.fin = false) (hfin : g.final = some (i :: r)) :
    microStep bs st g =
      ((finalFull g.fwe (st i)).1, st.set i (finalFull g.fwe (st i)).2.1, { g with final := some r }) := by
  simp [microStep, hf, hfin]

theorem microStep_final_nil (bs : Option Nat) (st : ObjStore σ α) (g : GenS α)
    (hf : g.fin = false) (hfin : g.final = some []) :
    microStep bs st g = ([], st, { g with fin := true }) := by
  simp [microStep, hf, hfin]

/-- ONE PASS over the active sequences: `len(todo)` steps of the generator are the fold of the
loop body over the objects the store holds for `todo`; the objects that stay are appended to
`done`; the store is changed at the numbers in `todo` only and holds the new objects -/
theorem genIter_pass (bs : Option Nat) (buf : List α) :
    ∀ (t : List Nat) (st : ObjStore σ α) (g : GenS α),
      g.fin = false → g.final = none → g.blk = some buf → g.todo = t → t.Nodup →
      (∀ i ∈ t, (st i).id = i) →
      ∃ st', genIter bs t.length st g =
          ((foldG (ε := Empty) (stepFull buf) (t.map st)).events, st',
            { g with done := g.done ++ (foldG (ε := Empty) (stepFull buf) (t.map st)).act.map (·.id),
                     todo := [] }) ∧
        (∀ j, j ∉ t → st' j = st j) ∧
        (∀ b ∈ (foldG (ε := Empty) (stepFull buf) (t.map st)).act, st' b.id = b) ∧
        ((foldG (ε := Empty) (stepFull buf) (t.map st)).act.map (·.id)).Sublist t := by
  intro t
  induction t with
  | nil =>
    intro st g hf hfin hb ht _ _
    refine ⟨st, ?_, fun _ _ => rfl, ?_, ?_⟩
    · cases g
      simp_all [genIter, foldG]
    · intro b hb'; simp [foldG] at hb'
    · simp [foldG]
  | cons i r ih =>
    intro st g hf hfin hb ht hnd hwf
    have hir : i ∉ r := (List.nodup_cons.mp hnd).1
    have hndr : r.Nodup := (List.nodup_cons.mp hnd).2
    have hid : (st i).id = i := hwf i (List.mem_cons_self ..)
    obtain ⟨ev, b', res, hs⟩ : ∃ ev b' res, stepFull buf (st i) = (ev, b', res) := ⟨_, _, _, rfl⟩
    have hb'id : b'.id = i := by
      have := (stepFull_id buf (st i)).1
      rw [hs] at this
      simpa [hid] using this
    have hmap : r.map (st.set i b') = r.map st := map_set_of_not_mem st i b' r hir
    have hwf' : ∀ j ∈ r, ((st.set i b') j).id = j := by
      intro j hj
      have : j ≠ i := fun e => hir (e ▸ hj)
      rw [ObjStore.set_other _ _ _ _ this]
      exact hwf j (List.mem_cons_of_mem _ hj)
    have hms := microStep_todo_cons bs st g buf i r hf hfin hb ht
    rw [hs] at hms
    cases res with
    | abort e => exact e.elim
    | stay =>
      simp only at hms
      obtain ⟨st', h1, h2, h3, h4⟩ := ih (st.set i b') { g with done := g.done ++ [i], todo := r }
        hf hfin hb rfl hndr hwf'
      rw [hmap] at h1 h3 h4
      refine ⟨st', ?_, ?_, ?_, ?_⟩
      · simp only [List.length_cons, genIter, hms, h1, List.map_cons, foldG, hs, hb'id,
          List.append_assoc, List.cons_append, List.nil_append]
      · intro j hj
        have hji : j ≠ i := fun e => hj (e ▸ List.mem_cons_self ..)
        rw [h2 j (fun h => hj (List.mem_cons_of_mem _ h)), ObjStore.set_other _ _ _ _ hji]
      · intro b hbm
        simp only [List.map_cons, foldG, hs, List.mem_cons] at hbm
        rcases hbm with rfl | hbm
        · rw [hb'id, h2 i hir, ObjStore.set_same]
        · exact h3 b hbm
      · simp only [List.map_cons, foldG, hs, hb'id]
        exact List.Sublist.cons_cons _ h4
    | drop =>
      simp only at hms
      obtain ⟨st', h1, h2, h3, h4⟩ := ih (st.set i b') { g with todo := r }
        hf hfin hb rfl hndr hwf'
      rw [hmap] at h1 h3 h4
      refine ⟨st', ?_, ?_, ?_, ?_⟩
      · simp only [List.length_cons, genIter, hms, h1, List.map_cons, foldG, hs]
      · intro j hj
        have hji : j ≠ i := fun e => hj (e ▸ List.mem_cons_self ..)
        rw [h2 j (fun h => hj (List.mem_cons_of_mem _ h)), ObjStore.set_other _ _ _ _ hji]
      · intro b hbm
        simp only [List.map_cons, foldG, hs] at hbm
        exact h3 b hbm
      · simp only [List.map_cons, foldG, hs]
        exact List.Sublist.cons _ h4

/-- the frame between two blocks (`ind = 0`, no buffer): `active_seqs = todo` -/
def GenS.idle (flow : List α) (todo : List Nat) (fwe : Bool) : GenS α :=
  { flow := flow, blk := none, done := [], todo := todo, fwe := fwe, final := none, fin := false }

theorem GenS.start_eq (ids : List Nat) (flow : List α) : GenS.start ids flow = GenS.idle flow ids true := rfl

/-- ONE BLOCK: read it, one pass, leave the inner loop — `len(todo) + 2` steps -/
theorem genIter_block (bs : Option Nat) (st : ObjStore σ α) (flow : List α) (todo : List Nat) (fwe : Bool)
    (hne : (readBlock bs flow).1.isEmpty = false) (hnd : todo.Nodup) (hwf : ∀ i ∈ todo, (st i).id = i) :
    ∃ st', genIter bs (todo.length + 2) st (GenS.idle flow todo fwe) =
        ((foldB (stepBranch (readBlock bs flow).1) (todo.map st)).1, st',
          GenS.idle (readBlock bs flow).2
            ((foldB (stepBranch (readBlock bs flow).1) (todo.map st)).2.map (·.id)) false) ∧
      (∀ j, j ∉ todo → st' j = st j) ∧
      (∀ b ∈ (foldB (stepBranch (readBlock bs flow).1) (todo.map st)).2, st' b.id = b) ∧
      ((foldB (stepBranch (readBlock bs flow).1) (todo.map st)).2.map (·.id)).Sublist todo := by
  have e : todo.length + 2 = 1 + (todo.length + 1) := by omega
  rw [e, genIter_add, genIter_one, microStep_read bs st (GenS.idle flow todo fwe) rfl rfl rfl]
  simp only [GenS.idle, hne, Bool.false_eq_true, ↓reduceIte]
  obtain ⟨st', h1, h2, h3, h4⟩ := genIter_pass bs (readBlock bs flow).1 todo st
    { flow := (readBlock bs flow).2, blk := some (readBlock bs flow).1, done := [], todo := todo, fwe := false,
      final := none, fin := false }
    rfl rfl rfl rfl hnd hwf
  obtain ⟨f1, f2, _⟩ := foldG_stepFull (readBlock bs flow).1 (todo.map st)
  rw [f1, f2] at h1
  rw [f2] at h3 h4
  refine ⟨st', ?_, h2, h3, h4⟩
  rw [genIter_add, h1, genIter_one]
  simp only [List.nil_append]
  rw [microStep_todo_nil bs st' _ (readBlock bs flow).1 rfl rfl rfl rfl]
  simp

theorem mul_le_mul' {a b c d : Nat} (h1 : a ≤ c) (h2 : b ≤ d) : a * b ≤ c * d := Nat.mul_le_mul h1 h2

/-- ALL BLOCKS, and the read that finds the flow exhausted: the steps of the generator are
`passes` over the blocks; it is left at the start of the final pass -/
theorem genIter_blocks (bs : Option Nat) (hbs : bs ≠ some 0) :
    ∀ (n : Nat) (st : ObjStore σ α) (flow : List α) (todo : List Nat) (fwe : Bool), flow.length < n →
      todo.Nodup → (∀ i ∈ todo, (st i).id = i) →
      ∃ k st', k ≤ flow.length * (todo.length + 2) + 1 ∧
        genIter bs k st (GenS.idle flow todo fwe) =
          ((passes (blocks bs flow) (todo.map st)).1, st',
            { flow := [], blk := none, done := [],
              todo := (passes (blocks bs flow) (todo.map st)).2.map (·.id),
              fwe := fwe && (blocks bs flow).isEmpty,
              final := some ((passes (blocks bs flow) (todo.map st)).2.map (·.id)), fin := false }) ∧
        (∀ b ∈ (passes (blocks bs flow) (todo.map st)).2, st' b.id = b) ∧
        ((passes (blocks bs flow) (todo.map st)).2.map (·.id)).Sublist todo := by
  intro n
  induction n with
  | zero => intro st flow todo fwe h; omega
  | succ n ih =>
    intro st flow todo fwe hlen hnd hwf
    have hmapid : (todo.map st).map (·.id) = todo := by
      rw [List.map_map]
      conv => rhs; rw [← List.map_id todo]
      apply List.map_congr_left
      intro i hi
      exact hwf i hi
    cases flow with
    | nil =>
      refine ⟨1, st, by omega, ?_, ?_, ?_⟩
      · rw [genIter_one, microStep_read bs st (GenS.idle [] todo fwe) rfl rfl rfl]
        simp [GenS.idle, readBlock_nil, blocks_nil, passes, hmapid]
      · intro b hbm
        rw [blocks_nil] at hbm
        simp only [passes, List.mem_map] at hbm
        obtain ⟨i, hi, rfl⟩ := hbm
        rw [hwf i hi]
      · rw [blocks_nil]
        simp only [passes, hmapid]
        exact List.Sublist.refl _
    | cons x xs =>
      obtain ⟨hne, hbl⟩ := blocks_readBlock bs hbs (x :: xs) (by simp)
      have hrl := readBlock_length bs hbs (x :: xs) (by simp)
      have hemp : (readBlock bs (x :: xs)).1.isEmpty = false := by
        cases h1 : (readBlock bs (x :: xs)).1 with
        | nil => exact absurd h1 hne
        | cons _ _ => rfl
      obtain ⟨st1, b1, b2, b3, b4⟩ := genIter_block bs st (x :: xs) todo fwe hemp hnd hwf
      have hnd1 : ((foldB (stepBranch (readBlock bs (x :: xs)).1) (todo.map st)).2.map (·.id)).Nodup := b4.nodup hnd
      have hwf1 : ∀ i ∈ (foldB (stepBranch (readBlock bs (x :: xs)).1) (todo.map st)).2.map (·.id),
          (st1 i).id = i := by
        intro i hi
        simp only [List.mem_map] at hi
        obtain ⟨b, hbm, rfl⟩ := hi
        rw [b3 b hbm]
      have hmap1 : ((foldB (stepBranch (readBlock bs (x :: xs)).1) (todo.map st)).2.map (·.id)).map st1 =
          (foldB (stepBranch (readBlock bs (x :: xs)).1) (todo.map st)).2 := by
        rw [List.map_map]
        conv => rhs; rw [← List.map_id (foldB (stepBranch (readBlock bs (x :: xs)).1) (todo.map st)).2]
        apply List.map_congr_left
        intro b hbm
        exact b3 b hbm
      have hlen1 : (readBlock bs (x :: xs)).2.length < n := by
        simp only [List.length_cons] at hlen hrl
        omega
      obtain ⟨k, st2, k1, k2, k3, k4⟩ := ih st1 (readBlock bs (x :: xs)).2
        ((foldB (stepBranch (readBlock bs (x :: xs)).1) (todo.map st)).2.map (·.id)) false hlen1 hnd1 hwf1
      rw [hmap1] at k2 k3 k4
      have hlt : ((foldB (stepBranch (readBlock bs (x :: xs)).1) (todo.map st)).2.map (·.id)).length ≤ todo.length :=
        b4.length_le
      refine ⟨(todo.length + 2) + k, st2, ?_, ?_, ?_, ?_⟩
      · have h1 : (readBlock bs (x :: xs)).2.length *
            (((foldB (stepBranch (readBlock bs (x :: xs)).1) (todo.map st)).2.map (·.id)).length + 2) ≤
            xs.length * (todo.length + 2) := by
          apply mul_le_mul'
          · simp only [List.length_cons] at hrl; omega
          · omega
        simp only [List.length_cons, Nat.succ_mul]
        omega
      · rw [genIter_add, b1, k2, hbl]
        simp only [passes, Bool.and_false, List.isEmpty_cons, Bool.false_and]
      · rw [hbl]
        simpa only [passes] using k3
      · rw [hbl]
        simp only [passes]
        exact k4.trans b4

/-- THE FINAL PASS: `len(rest) + 1` steps -/
theorem genIter_final (bs : Option Nat) :
    ∀ (t : List Nat) (st : ObjStore σ α) (g : GenS α), g.fin = false → g.final = some t → t.Nodup →
      ∃ st', genIter bs (t.length + 1) st g =
        ((finalPassG (finalFull g.fwe) (t.map st)).1, st', { g with final := some [], fin := true }) := by
  intro t
  induction t with
  | nil =>
    intro st g hf hfin _
    refine ⟨st, ?_⟩
    show genIter bs 1 st g = _
    rw [genIter_one, microStep_final_nil bs st g hf hfin]
    cases g
    simp_all [finalPassG]
  | cons i r ih =>
    intro st g hf hfin hnd
    have hir : i ∉ r := (List.nodup_cons.mp hnd).1
    obtain ⟨st', h⟩ := ih (st.set i (finalFull g.fwe (st i)).2.1) { g with final := some r } hf rfl
      (List.nodup_cons.mp hnd).2
    rw [map_set_of_not_mem st i _ r hir] at h
    refine ⟨st', ?_⟩
    have e : (i :: r).length + 1 = 1 + (r.length + 1) := by simp; omega
    rw [e, genIter_add, genIter_one, microStep_final_cons bs st g i r hf hfin, h]
    simp only [List.map_cons, finalPassG]
    obtain ⟨ev, b', ex, hx⟩ : ∃ ev b' ex, finalFull g.fwe (st i) = (ev, b', ex) := ⟨_, _, _, rfl⟩
    cases ex with
    | some e => exact e.elim
    | none => simp [hx]

/-- REFINEMENT: the generator `s.run(flow)`, resumed until it is exhausted with nothing else
touching the branch objects in between, produces the event trace of `Split.runTrace` — within
`genFuel` steps, after which it stays exhausted.  (`st` is any store that holds the branches of
`s` under their ids.) -/
theorem gen_alone (s : Split σ α) (hv : s.Valid) (hnd : (s.branches.map (·.id)).Nodup)
    (st : ObjStore σ α) (hst : ∀ b ∈ s.branches, st b.id = b) (flow : List α) :
    ∃ k, k ≤ genFuel s.branches.length flow.length ∧
      ∀ n, k ≤ n →
        (genIter s.bufsize n st (GenS.start (s.branches.map (·.id)) flow)).1 = s.runTrace flow ∧
        (genIter s.bufsize n st (GenS.start (s.branches.map (·.id)) flow)).2.2.fin = true := by
  have hmap : (s.branches.map (·.id)).map st = s.branches := by
    rw [List.map_map]
    conv => rhs; rw [← List.map_id s.branches]
    apply List.map_congr_left
    intro b hb
    exact hst b hb
  have hwf : ∀ i ∈ s.branches.map (·.id), (st i).id = i := by
    intro i hi
    simp only [List.mem_map] at hi
    obtain ⟨b, hb, rfl⟩ := hi
    rw [hst b hb]
  obtain ⟨k1, st1, hk1, h1, h3, h4⟩ := genIter_blocks s.bufsize hv (flow.length + 1) st
    flow (s.branches.map (·.id)) true (by omega) hnd hwf
  simp only [hmap] at hk1 h1 h3 h4
  have hnd2 : ((passes (blocks s.bufsize flow) s.branches).2.map (·.id)).Nodup := h4.nodup hnd
  have hmap2 : ((passes (blocks s.bufsize flow) s.branches).2.map (·.id)).map st1 =
      (passes (blocks s.bufsize flow) s.branches).2 := by
    rw [List.map_map]
    conv => rhs; rw [← List.map_id (passes (blocks s.bufsize flow) s.branches).2]
    apply List.map_congr_left
    intro b hb
    exact h3 b hb
  obtain ⟨st2, h2⟩ := genIter_final s.bufsize ((passes (blocks s.bufsize flow) s.branches).2.map (·.id)) st1
    { flow := [], blk := none, done := [], todo := (passes (blocks s.bufsize flow) s.branches).2.map (·.id),
      fwe := true && (blocks s.bufsize flow).isEmpty,
      final := some ((passes (blocks s.bufsize flow) s.branches).2.map (·.id)), fin := false } rfl rfl hnd2
  rw [hmap2] at h2
  have hfp := (finalPassG_finalFull (true && (blocks s.bufsize flow).isEmpty)
    (passes (blocks s.bufsize flow) s.branches).2 (by
      cases hbl : blocks s.bufsize flow with
      | nil => exact Or.inl rfl
      | cons blk rest => exact Or.inr (passes_noSource blk rest s.branches))).1
  have hlen : (passes (blocks s.bufsize flow) s.branches).2.length ≤ s.branches.length := by
    have := h4.length_le
    simpa using this
  have htotal : (genIter s.bufsize (k1 + (((passes (blocks s.bufsize flow) s.branches).2.map (·.id)).length + 1)) st
        (GenS.start (s.branches.map (·.id)) flow)).1 = s.runTrace flow ∧
      (genIter s.bufsize (k1 + (((passes (blocks s.bufsize flow) s.branches).2.map (·.id)).length + 1)) st
        (GenS.start (s.branches.map (·.id)) flow)).2.2.fin = true := by
    rw [genIter_add, GenS.start_eq, h1]
    simp only
    rw [h2]
    simp only [hfp]
    rw [loop_refines_spec s hv]
    simp [Split.runSpec]
  refine ⟨k1 + (((passes (blocks s.bufsize flow) s.branches).2.map (·.id)).length + 1), ?_, ?_⟩
  · unfold genFuel
    simp only [List.length_map] at hk1 ⊢
    have : flow.length * (s.branches.length + 2) + 1 + (s.branches.length + 1) ≤
        (flow.length + 1) * (s.branches.length + 2) + s.branches.length + 2 := by
      rw [Nat.succ_mul]; omega
    omega
  · intro n hn
    rw [genIter_after_fin s.bufsize _ n st _ htotal.2 hn]
    exact htotal

/-! ## 24. stateless branches: any interleaving -/

theorem fillBuf_stateless (i : Nat) (ops : Ops σ α) (h : ops.Stateless) :
    ∀ (s : σ) (xs : List α), (fillBuf i ops s xs).2.1 = s := by
  intro s xs
  induction xs generalizing s with
  | nil => rfl
  | cons x xs ih =>
    obtain ⟨s', stp, hf⟩ : ∃ s' stp, ops.fill s x = (s', stp) := ⟨_, _, rfl⟩
    have hs : s' = s := by have := h.2.1 s x; rw [hf] at this; exact this
    subst hs
    cases stp with
    | true => rw [fillBuf_cons_stop i ops s' s' x xs hf]
    | false => rw [fillBuf_cons_ok i ops s' s' x xs hf]; exact ih s'

/-- a step of the loop body leaves a stateless object as it is -/
theorem stepFull_stateless (buf : List α) (b : Branch σ α) (h : b.ops.Stateless) :
    (stepFull buf b).2.1 = b := by
  obtain ⟨h1, h2, h3, h4, h5⟩ := h
  have hfb := fillBuf_stateless b.id b.ops ⟨h1, h2, h3, h4, h5⟩ b.st buf
  obtain ⟨i, kind, ops, s0⟩ := b
  simp only at h1 h3 h4 h5 hfb
  unfold stepFull
  cases kind <;> simp only
  · rw [h1]
  · split
    · rw [hfb, h3]
    · rw [hfb]
  · rw [hfb, h4]
  · rw [h5]

theorem finalFull_stateless (fwe : Bool) (b : Branch σ α) (h : b.ops.Stateless) :
    (finalFull fwe b).2.1 = b := by
  obtain ⟨h1, _, h3, h4, h5⟩ := h
  obtain ⟨i, kind, ops, s0⟩ := b
  simp only at h1 h3 h4 h5
  unfold finalFull
  cases kind <;> simp only
  · rw [h1]
  · rw [h3]
  · split
    · rw [h4]
    · rfl
  · split
    · rw [h5]
    · rfl

/-- every object of the store is stateless -/
def StoreStateless (st : ObjStore σ α) : Prop := ∀ i, (st i).ops.Stateless

/-- a step of a generator leaves a store of stateless objects as it is: all it changes is its
own frame -/
theorem microStep_store_stateless (bs : Option Nat) (st : ObjStore σ α) (hst : StoreStateless st)
    (g : GenS α) : (microStep bs st g).2.1 = st := by
  obtain ⟨flow, blk, done, todo, fwe, final, fin⟩ := g
  unfold microStep
  cases fin with
  | true => simp
  | false =>
    simp only [Bool.false_eq_true, ↓reduceIte]
    cases final with
    | some l =>
      cases l with
      | nil => rfl
      | cons i rest =>
        simp only
        rw [finalFull_stateless _ _ (hst i), ObjStore.set_self]
    | none =>
      cases blk with
      | none =>
        simp only
        split <;> rfl
      | some buf =>
        cases todo with
        | nil => rfl
        | cons i rest =>
          simp only
          have hs := stepFull_stateless buf (st i) (hst i)
          obtain ⟨ev, b', res, hx⟩ : ∃ ev b' res, stepFull buf (st i) = (ev, b', res) := ⟨_, _, _, rfl⟩
          rw [hx] at hs
          simp only at hs
          subst hs
          rw [hx]
          cases res with
          | stay => simp only [ObjStore.set_self]
          | drop => simp only [ObjStore.set_self]
          | abort e => exact e.elim

theorem genIter_succ_stateless (bs : Option Nat) (st : ObjStore σ α) (hst : StoreStateless st)
    (n : Nat) (g : GenS α) :
    genIter bs (n + 1) st g =
      ((microStep bs st g).1 ++ (genIter bs n st (microStep bs st g).2.2).1,
        (genIter bs n st (microStep bs st g).2.2).2) := by
  simp only [genIter]
  rw [microStep_store_stateless bs st hst g]

/-- ANY INTERLEAVING: generators of one Split over stateless branches, resumed step by step in an
arbitrary order `sched`, leave the shared objects as they are, and every generator `k` is, after
the schedule, exactly where it would be after the same number of steps — `sched.count k` — made
alone; it has produced the same events -/
theorem runSched_stateless (bs : Option Nat) (st : ObjStore σ α) (hst : StoreStateless st) :
    ∀ (sched : List Nat) (gs : List (GenS α × List (Ev α))),
      (runSched bs sched st gs).1 = st ∧
      ∀ k, (runSched bs sched st gs).2[k]? =
        gs[k]?.map (fun p => ((genIter bs (sched.count k) st p.1).2.2,
                               p.2 ++ (genIter bs (sched.count k) st p.1).1)) := by
  intro sched
  induction sched with
  | nil =>
    intro gs
    refine ⟨rfl, fun k => ?_⟩
    simp only [runSched, List.count_nil, genIter, List.append_nil]
    cases gs[k]? <;> rfl
  | cons k0 rest ih =>
    intro gs
    simp only [runSched]
    cases hg : gs[k0]? with
    | none =>
      simp only
      obtain ⟨i1, i2⟩ := ih gs
      refine ⟨i1, fun k => ?_⟩
      rw [i2 k]
      by_cases hk : k0 = k
      · subst hk; rw [hg]; rfl
      · rw [List.count_cons_of_ne hk]
    | some p =>
      obtain ⟨g, acc⟩ := p
      simp only
      rw [microStep_store_stateless bs st hst g]
      obtain ⟨i1, i2⟩ := ih (gs.set k0 ((microStep bs st g).2.2, acc ++ (microStep bs st g).1))
      refine ⟨i1, fun k => ?_⟩
      rw [i2 k]
      have hlt : k0 < gs.length := by
        rcases Nat.lt_or_ge k0 gs.length with h | h
        · exact h
        · rw [List.getElem?_eq_none h] at hg; cases hg
      by_cases hk : k0 = k
      · subst hk
        rw [List.getElem?_set_self hlt, hg, List.count_cons_self]
        simp only [Option.map_some]
        rw [genIter_succ_stateless bs st hst]
        simp [List.append_assoc]
      · rw [List.getElem?_set_ne hk, List.count_cons_of_ne hk]

/-- SEVERAL RUNS OF ONE SPLIT ALIVE AT THE SAME TIME.  Let the branches be stateless.  Start
`s.run(flow)` for each of the `flows` and resume the generators in an arbitrary order (any
schedule that lets each of them make at least `genFuel` steps — after which it is exhausted and
further `next()` calls do nothing): every run has produced the event trace of `Split.runTrace` of
ITS flow, hence yielded `Split.run` of its flow — the documented schedule — independently of the
other runs and of the order. -/
theorem interleaved_runs (s : Split σ α) (hv : s.Valid) (hnd : (s.branches.map (·.id)).Nodup)
    (st : ObjStore σ α) (hst : ∀ b ∈ s.branches, st b.id = b) (hsl : StoreStateless st)
    (flows : List (List α)) (sched : List Nat)
    (hlong : ∀ k (h : k < flows.length), genFuel s.branches.length flows[k].length ≤ sched.count k) :
    (runSched s.bufsize sched st (flows.map (fun f => (GenS.start (s.branches.map (·.id)) f, [])))).2.map
        (fun p => p.2) = flows.map s.runTrace ∧
    (runSched s.bufsize sched st (flows.map (fun f => (GenS.start (s.branches.map (·.id)) f, [])))).1 = st := by
  obtain ⟨r1, r2⟩ := runSched_stateless s.bufsize st hsl sched
    (flows.map (fun f => (GenS.start (s.branches.map (·.id)) f, [])))
  refine ⟨?_, r1⟩
  apply List.ext_getElem?
  intro k
  rw [List.getElem?_map, r2 k, List.getElem?_map, List.getElem?_map]
  by_cases hk : k < flows.length
  · rw [List.getElem?_eq_getElem hk]
    simp only [Option.map_some, List.nil_append]
    obtain ⟨n, hn, hall⟩ := gen_alone s hv hnd st hst flows[k]
    rw [(hall (sched.count k) (Nat.le_trans hn (hlong k hk))).1]
  · rw [List.getElem?_eq_none (by omega)]
    rfl

/-- … in terms of the yielded values -/
theorem interleaved_runs_outputs (s : Split σ α) (hv : s.Valid) (hnd : (s.branches.map (·.id)).Nodup)
    (hne : s.branches ≠ [])
    (st : ObjStore σ α) (hst : ∀ b ∈ s.branches, st b.id = b) (hsl : StoreStateless st)
    (flows : List (List α)) (sched : List Nat)
    (hlong : ∀ k (h : k < flows.length), genFuel s.branches.length flows[k].length ≤ sched.count k) :
    (runSched s.bufsize sched st (flows.map (fun f => (GenS.start (s.branches.map (·.id)) f, [])))).2.map
        (fun p => outputs p.2) = flows.map s.run := by
  have h := (interleaved_runs s hv hnd st hst hsl flows sched hlong).1
  have he : s.branches.isEmpty = false := by
    cases hb : s.branches with
    | nil => exact absurd hb hne
    | cons _ _ => rfl
  have : flows.map s.run = (flows.map s.runTrace).map outputs := by
    rw [List.map_map]
    apply List.map_congr_left
    intro f _
    simp [Split.run, he]
  rw [this, ← h, List.map_map]
  rfl

/-! ### non-vacuity, and a Split whose runs DO interfere (stateful branches) -/

section demoGen

theorem sspec_stateless (tag : Nat) (sp : SSpec) : (sp.ops tag).Stateless := by
  cases sp <;> exact ⟨fun _ => rfl, fun _ _ => rfl, fun _ => rfl, fun _ => rfl, fun _ _ => rfl⟩

theorem seqOps_stateless (pre post : List (α → α)) (o : Ops σ α) (h : o.Stateless) :
    (seqOps pre post o).Stateless := by
  obtain ⟨h1, h2, h3, h4, h5⟩ := h
  exact ⟨fun s => h1 s, fun s x => h2 s _, fun s => h3 s, fun s => h4 s, fun s buf => h5 s _⟩

/-- the harness branches of op "inter" are stateless -/
theorem shspec_stateless (tag : Nat) (h : SHSpec) : (h.ops tag).Stateless := by
  unfold SHSpec.ops
  split
  · exact seqOps_stateless _ _ _ (sspec_stateless tag h.base)
  · exact sspec_stateless tag h.base

theorem mkStatelessBranches_stateless (l : List SHSpec) :
    ∀ start, ∀ b ∈ mkStatelessBranches start l, b.ops.Stateless := by
  induction l with
  | nil => intro start b hb; simp [mkStatelessBranches] at hb
  | cons h r ih =>
    intro start b hb
    simp only [mkStatelessBranches, List.mem_cons] at hb
    rcases hb with rfl | hb
    · exact shspec_stateless start h
    · exact ih (start + 1) b hb

/-- a store built from stateless branches is stateless -/
theorem storeOf_stateless (d : Branch σ α) (brs : List (Branch σ α)) (hd : d.ops.Stateless)
    (h : ∀ b ∈ brs, b.ops.Stateless) : StoreStateless (storeOf d brs) := by
  intro i
  unfold storeOf
  induction brs with
  | nil => simpa [findObj] using hd
  | cons b r ih =>
    simp only [findObj]
    split
    · simpa using h b (List.mem_cons_self ..)
    · exact ih (fun c hc => h c (List.mem_cons_of_mem _ hc))

theorem mkStatelessBranches_nodup (l : List SHSpec) (start : Nat) :
    ((mkStatelessBranches start l).map (·.id)).Nodup := by
  have : (mkStatelessBranches start l).map (·.id) = List.range' start l.length := by
    induction l generalizing start with
    | nil => rfl
    | cons x r ih => simp [mkStatelessBranches, ih, List.range'_succ]
  rw [this]; exact List.nodup_range'

/-- THE CASES OF THE DRIVER OP "inter" satisfy the hypotheses of `interleaved_runs`: for the
Split over stateless harness branches and the store the driver builds, every sufficiently long
order of resumption gives every run the output of `Split.run` on its own flow -/
theorem interleaved_harness (sp : List SHSpec) (d : SHSpec) (bs : Option Nat) (hbs : bs ≠ some 0) (cb : Bool)
    (flows : List (List V)) (sched : List Nat)
    (hlong : ∀ k (h : k < flows.length), genFuel (d :: sp).length flows[k].length ≤ sched.count k) :
    let brs := mkStatelessBranches 0 (d :: sp)
    let s : Split Unit V := { branches := brs, bufsize := bs, copyBuf := cb }
    (runSched bs sched (storeOf ⟨0, d.base.kind, d.ops 0, ()⟩ brs)
        (flows.map (fun f => (GenS.start (brs.map (·.id)) f, [])))).2.map (fun p => outputs p.2) =
      flows.map s.run := by
  intro brs s
  have hnd : (brs.map (·.id)).Nodup := mkStatelessBranches_nodup (d :: sp) 0
  have hsl : ∀ b ∈ brs, b.ops.Stateless := mkStatelessBranches_stateless (d :: sp) 0
  have hlen : brs.length = (d :: sp).length := by
    have := congrArg List.length (show brs.map (·.id) = List.range' 0 (d :: sp).length from by
      have : ∀ (l : List SHSpec) (start : Nat),
          (mkStatelessBranches start l).map (·.id) = List.range' start l.length := by
        intro l
        induction l with
        | nil => intro start; rfl
        | cons x r ih => intro start; simp [mkStatelessBranches, ih, List.range'_succ]
      exact this (d :: sp) 0)
    simpa using this
  exact interleaved_runs_outputs s hbs hnd (by simp [s, brs, mkStatelessBranches])
    (storeOf ⟨0, d.base.kind, d.ops 0, ()⟩ brs) (storeOf_mem _ brs hnd)
    (storeOf_stateless _ brs (shspec_stateless 0 d) hsl) flows sched
    (by intro k h; rw [show s.branches.length = (d :: sp).length from hlen]; exact hlong k h)

/-- the four-kind demo Split of `Props/C03.lean` (stateful: its fill branches accumulate) -/
def demoStore : ObjStore (List Nat) Nat := storeOf ⟨0, .source, demoOps, []⟩ demoBranches

-- alone, the generator machine yields what `Split.run` yields (`gen_alone`) …
example : outputs (genIter (some 2) 40 demoStore (GenS.start [0, 1, 2, 3] [1, 2, 3])).1 =
    (demoSplit (some 2)).run [1, 2, 3] := by decide +kernel
example : (genIter (some 2) 40 demoStore (GenS.start [0, 1, 2, 3] [1, 2, 3])).2.2.fin = true := by decide +kernel
-- … but two runs of this STATEFUL Split, resumed alternately, do interfere (the second run finds the
-- objects as the first steps of the first one left them): statelessness is needed in `interleaved_runs`
example : ((runSched (some 2) ((List.range 60).map (· % 2)) demoStore
      [(GenS.start [0, 1, 2, 3] [1, 2, 3], []), (GenS.start [0, 1, 2, 3] [9], [])]).2.map (fun p => outputs p.2))
    ≠ [(demoSplit (some 2)).run [1, 2, 3], (demoSplit (some 2)).run [9]] := by decide +kernel

end demoGen

end Lena.C03
