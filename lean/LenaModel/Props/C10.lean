import LenaModel.Model.C10
import LenaModel.Lemmas.C10
/-! # C10 — selective elements pass the values they do not select through unchanged

Property (properties.jsonl, C10): elements that act only on particular kinds of values yield every value they
do not select as the very same object, in unchanged relative order, and without touching the file system;
what they produce for the selected values does not depend on which unselected values are interleaved with
them.

Structure of this file (helper lemmas are in `Lemmas/C10.lean`; vocabulary — `Passes`, `loop`, `merge`,
`IsPattern`, `mergeBlocks`, `pick`, `passedOf`, `prodsOf`, `pdfSpec` — in `Model/C10.lean`)
1. the generic law for loops `for val in flow: <body>` whose body passes unselected values (`Passes`):
   `interleave_law` (= `run(interleave(A,B)) = interleave(run(A),B)`: blocks, final state, exception) and
   its readings `selected_independent` ("what they produce for the selected values does not depend on
   which unselected values are interleaved"), `unselected_same_objects_in_order` ("the very same object,
   in unchanged relative order"), `state_untouched_by_unselected` ("without touching the file system"),
   `every_flow_is_an_interleaving`, `run_determined_by_selected`;
2. one instance lemma per element — the transcribed loop body passes what the element's selection
   predicate rejects (`toCSV_passes`, `write_passes`, `render_passes`, `png_passes`, `histToGraph_passes`,
   `iterateBins_passes`, `mapBins_passes`, `runIf_passes`, `mapGroup_passes`) — and the law for each `…Run`;
3. element-specific facts: the elements that never touch the state at all, `Write`'s "already written"
   branch, and exactness of the selection predicates (`…_same_object_iff`: a value is yielded as the
   very same object iff it is not selected);
4. `LaTeXToPDF`, whose process pool yields finished results also while unselected values pass:
   `pdf_unselected_same_objects_in_order`, `pdf_unselected_touches_only_pool_files` (every schedule of the
   external processes) and `pdf_selected_multiset` / `pdf_selected_independent` (the multiset of results);
4b. pipelines ("inserting such an element into a pipeline never alters values meant for other
   elements"): `pipe_passes`, `insert_invisible_before/after`, `pipeline_interleave`;
4c. loops that yield more after the flow (`GroupPlots`): `interleave_law_tail`, `groupPlots_interleave`;
4d. the locality hypothesis of the token model: `Local`, `CtxLocal`, `shared_eq_loop_of_local` (under locality
   Python's reference semantics is the value-passing semantics of this file), `…_ctxLocal` for the output
   elements, `write_shared_interleave`; the examples of section 5 show that without it the property fails;
5. non-vacuity examples.
All theorems are for flows, interleavings, element settings, schedules and inner sequences of any size. -/

namespace Lena.C10

variable {σ α β : Type}

/-! ## 1. The generic law -/

/-- one unselected value at the head of the flow: it is yielded, alone, and the run goes on from the
same state as if it had not been there -/
theorem loop_cons_unselected (f : σ → α → Step σ α) (sel : α → Bool) (hp : Passes f sel) (s : σ) (v : α)
    (vs : List α) (hv : sel v = false) :
    loop f s (v :: vs) = ⟨[v] :: (loop f s vs).blocks, (loop f s vs).st, (loop f s vs).err⟩ :=
  loop_cons_ok f s s v vs [v] (hp s v hv)

/-- **The interleaving law** (`run(interleave(A, B)) = interleave(run(A), B)`).
For every pattern `p` interleaving a list `A` with a list `B` of values the element does not select: the
blocks of the run on the interleaved flow are the blocks of the run on `A` alone with every `b ∈ B`
standing, by itself and as the very same value, where the pattern puts it; the final state (file system)
and the exception are those of the run on `A` alone. -/
theorem interleave_law (f : σ → α → Step σ α) (sel : α → Bool) (hp : Passes f sel) :
    ∀ (p : List Bool) (A B : List α) (s : σ), IsPattern p A B → (∀ b ∈ B, sel b = false) →
      loop f s (merge p A B) =
        ⟨mergeBlocks (loop f s A).err.isSome p (loop f s A).blocks B, (loop f s A).st, (loop f s A).err⟩
  | [], A, B, s, hpat, _ => by
    obtain ⟨h1, h2⟩ := hpat
    have hA : A = [] := by simpa using h1.symm
    have hB : B = [] := by simpa using h2.symm
    subst hA hB
    simp [merge, loop, mergeBlocks]
  | true :: p, [], B, s, hpat, _ => by
    obtain ⟨h1, _⟩ := hpat
    simp at h1
  | true :: p, a :: as, B, s, hpat, hB => by
    have hpat' : IsPattern p as B := by
      obtain ⟨h1, h2⟩ := hpat
      constructor
      · simpa using h1
      · simpa using h2
    have ih := fun s' => interleave_law f sel hp p as B s' hpat' hB
    rcases h : f s a with ⟨out, s', _ | e⟩
    · have hne := loop_blocks_ne_nil_of_err f as s'
      rw [show merge (true :: p) (a :: as) B = a :: merge p as B from rfl,
        loop_cons_ok f s s' a _ out h, loop_cons_ok f s s' a as out h, ih s']
      cases he : (loop f s' as).err with
      | none => simp [mergeBlocks]
      | some e =>
        have := hne (by simp [he])
        simp [mergeBlocks, this]
    · rw [show merge (true :: p) (a :: as) B = a :: merge p as B from rfl,
        loop_cons_err f s s' a _ out e h, loop_cons_err f s s' a as out e h]
      simp [mergeBlocks]
  | false :: p, A, [], s, hpat, _ => by
    obtain ⟨_, h2⟩ := hpat
    simp at h2
  | false :: p, A, b :: bs, s, hpat, hB => by
    have hpat' : IsPattern p A bs := by
      obtain ⟨h1, h2⟩ := hpat
      constructor
      · simpa using h1
      · simpa using h2
    have hb : sel b = false := hB b (by simp)
    have ih := interleave_law f sel hp p A bs s hpat' (fun x hx => hB x (by simp [hx]))
    have hm : merge (false :: p) A (b :: bs) = b :: merge p A bs := by
      cases A <;> rfl
    rw [hm, loop_cons_unselected f sel hp s b _ hb, ih]
    cases A <;> simp [mergeBlocks]

/-- flat form: the output stream of the interleaved run -/
theorem interleave_out (f : σ → α → Step σ α) (sel : α → Bool) (hp : Passes f sel) (p : List Bool)
    (A B : List α) (s : σ) (hpat : IsPattern p A B) (hB : ∀ b ∈ B, sel b = false) :
    (loop f s (merge p A B)).out =
      (mergeBlocks (loop f s A).err.isSome p (loop f s A).blocks B).flatten := by
  rw [interleave_law f sel hp p A B s hpat hB]; rfl

/-! ### reading the law: what stands at the positions of `A`, what at the positions of `B` -/

/-- **What is produced for the selected values does not depend on the interleaved unselected ones.**
The blocks standing at the positions of `A` in the run on `merge p A B` are exactly the blocks of the run on
`A` alone — whatever `B` and `p` are — and so are the final state and the exception. -/
theorem selected_independent (f : σ → α → Step σ α) (sel : α → Bool) (hp : Passes f sel) (p : List Bool)
    (A B : List α) (s : σ) (hpat : IsPattern p A B) (hB : ∀ b ∈ B, sel b = false) :
    pick true p (loop f s (merge p A B)).blocks = (loop f s A).blocks ∧
    (loop f s (merge p A B)).st = (loop f s A).st ∧
    (loop f s (merge p A B)).err = (loop f s A).err := by
  rw [interleave_law f sel hp p A B s hpat hB]
  refine ⟨?_, rfl, rfl⟩
  apply pick_true_mergeBlocks
  · exact Nat.le_of_eq hpat.2
  · intro hf
    refine ⟨loop_blocks_ne_nil_of_err f A s hf, ?_⟩
    rw [hpat.1]; exact loop_blocks_length_le f A s
  · intro hf
    rw [hpat.1]
    apply loop_blocks_length_of_ok
    cases h : (loop f s A).err with
    | none => rfl
    | some e => simp [h] at hf

/-- two different ways of interleaving two different lists of unselected values give the same results for
the selected values -/
theorem selected_independent_of_pattern (f : σ → α → Step σ α) (sel : α → Bool) (hp : Passes f sel) (p p' : List Bool)
    (A B B' : List α) (s : σ) (hpat : IsPattern p A B) (hpat' : IsPattern p' A B')
    (hB : ∀ b ∈ B, sel b = false) (hB' : ∀ b ∈ B', sel b = false) :
    pick true p (loop f s (merge p A B)).blocks = pick true p' (loop f s (merge p' A B')).blocks ∧
    (loop f s (merge p A B)).st = (loop f s (merge p' A B')).st ∧
    (loop f s (merge p A B)).err = (loop f s (merge p' A B')).err := by
  obtain ⟨h1, h2, h3⟩ := selected_independent f sel hp p A B s hpat hB
  obtain ⟨h1', h2', h3'⟩ := selected_independent f sel hp p' A B' s hpat' hB'
  exact ⟨h1.trans h1'.symm, h2.trans h2'.symm, h3.trans h3'.symm⟩

/-- **Unselected values come out as the very same values, each once, in unchanged relative order**: at
the positions of `B` stand the values of `B` themselves — all of them if the run ends normally; if a selected
value raises, exactly those that stand before it in the flow (`consumedB`: the `false` entries of the pattern
before the position of the failing block). -/
theorem unselected_same_objects_in_order (f : σ → α → Step σ α) (sel : α → Bool) (hp : Passes f sel)
    (p : List Bool) (A B : List α) (s : σ) (hpat : IsPattern p A B) (hB : ∀ b ∈ B, sel b = false) :
    ((loop f s A).err = none →
      pick false p (loop f s (merge p A B)).blocks = B.map (fun b => [b])) ∧
    pick false p (loop f s (merge p A B)).blocks =
      (B.take (consumedB (loop f s A).err.isSome p (loop f s A).blocks.length)).map (fun b => [b]) := by
  rw [interleave_law f sel hp p A B s hpat hB]
  constructor
  · intro he
    simp only [he, Option.isSome_none]
    apply pick_false_mergeBlocks_of_ok p _ B hpat.2
    rw [hpat.1]; exact loop_blocks_length_of_ok f A s he
  · exact pick_false_mergeBlocks_cut p _ B _

/-- the same, read on the flat output stream: the unselected values are a subsequence of what is yielded
(same objects, same relative order) — all of them when the run ends normally -/
theorem unselected_sublist_of_out (f : σ → α → Step σ α) (sel : α → Bool) (hp : Passes f sel)
    (p : List Bool) (A B : List α) (s : σ) (hpat : IsPattern p A B) (hB : ∀ b ∈ B, sel b = false)
    (hok : (loop f s A).err = none) : B.Sublist (loop f s (merge p A B)).out := by
  rw [interleave_out f sel hp p A B s hpat hB, hok]
  have hlen := loop_blocks_length_of_ok f A s hok
  rw [← hpat.1] at hlen
  exact sublist_flatten_mergeBlocks p _ B hpat.2 hlen

/-- **The state (file system) is not touched by unselected values**: a flow of unselected values only
leaves the state as it was and yields exactly these values -/
theorem state_untouched_by_unselected (f : σ → α → Step σ α) (sel : α → Bool) (hp : Passes f sel) :
    ∀ (B : List α) (s : σ), (∀ b ∈ B, sel b = false) → loop f s B = ⟨B.map (fun b => [b]), s, none⟩
  | [], s, _ => rfl
  | b :: bs, s, hB => by
    rw [loop_cons_unselected f sel hp s b bs (hB b (by simp)),
      state_untouched_by_unselected f sel hp bs s (fun x hx => hB x (by simp [hx]))]
    simp

/-- every flow is the interleaving of its selected values with its unselected values -/
theorem every_flow_is_an_interleaving (sel : α → Bool) : ∀ xs : List α,
    merge (xs.map sel) (xs.filter sel) (xs.filter (fun x => !sel x)) = xs ∧
    IsPattern (xs.map sel) (xs.filter sel) (xs.filter (fun x => !sel x))
  | [] => by simp [merge, IsPattern]
  | x :: xs => by
    obtain ⟨ih1, ih2, ih3⟩ := every_flow_is_an_interleaving sel xs
    cases hx : sel x
    · refine ⟨?_, ?_, ?_⟩
      · simp only [List.map_cons, hx, List.filter_cons, Bool.not_false, Bool.false_eq_true, if_false, if_true]
        have : ∀ (as : List α) bs, merge (false :: xs.map sel) as (x :: bs) = x :: merge (xs.map sel) as bs := by
          intro as bs; cases as <;> rfl
        rw [this, ih1]
      · simpa [hx] using ih2
      · simpa [hx] using ih3
    · refine ⟨?_, ?_, ?_⟩
      · simp only [List.map_cons, hx, List.filter_cons, Bool.not_true, Bool.false_eq_true, if_false, if_true]
        rw [show merge (true :: xs.map sel) (x :: xs.filter sel) (xs.filter fun x => !sel x) =
          x :: merge (xs.map sel) (xs.filter sel) (xs.filter fun x => !sel x) from rfl, ih1]
      · simpa [hx] using ih2
      · simpa [hx] using ih3

/-- consequently, for ANY flow: the final state and the exception of the run are those of the run on the
selected values alone, and the blocks at the selected positions are the blocks of that run -/
theorem run_determined_by_selected (f : σ → α → Step σ α) (sel : α → Bool) (hp : Passes f sel) (xs : List α)
    (s : σ) :
    pick true (xs.map sel) (loop f s xs).blocks = (loop f s (xs.filter sel)).blocks ∧
    (loop f s xs).st = (loop f s (xs.filter sel)).st ∧
    (loop f s xs).err = (loop f s (xs.filter sel)).err := by
  obtain ⟨h1, h2⟩ := every_flow_is_an_interleaving sel xs
  have := selected_independent f sel hp (xs.map sel) (xs.filter sel) (xs.filter (fun x => !sel x)) s h2
    (by intro b hb; simpa using (List.mem_filter.1 hb).2)
  rwa [h1] at this

/-! ## 2. The elements: their transcribed loop bodies pass what their selection predicate rejects -/

/-- `ToCSV`: values whose context forbids the conversion, histograms of dimension ≥ 3 and data without
`rows()` pass -/
theorem toCSV_passes (cfg : CsvCfg) : Passes (toCSVStep (σ := σ) cfg) toCSVSel := by
  intro s v h
  unfold toCSVSel at h
  unfold toCSVStep
  simp only [ctxOr_d]
  cases hc : csvAllowed v.dict
  · simp
  · simp only [hc, Bool.true_and] at h
    cases hd : v.data <;> simp_all [Data.hasRows]

/-- `Write`: values that are not writable (`is_writable` false) pass -/
theorem write_passes (cfg : WriteCfg) : Passes (writeStep cfg) writeSel := by
  intro s v h
  unfold writeSel at h
  unfold writeStep
  simp [ctxOr_d, h]

/-- `RenderLaTeX`: values rejected by `select_data` pass -/
theorem render_passes (cfg : RenderCfg) : Passes (renderStep (σ := σ) cfg) (renderSel cfg) := by
  intro s v h
  unfold renderStep
  simp [h]

/-- `PDFToPNG`: values whose `context.output.filetype` is not `"pdf"` pass -/
theorem png_passes (cfg : PngCfg) : Passes (pngStep cfg) pngSel := by
  intro s v h
  unfold pngStep
  simp [h]

/-- `HistToGraph`: non-histograms and histograms with a false `context.histogram.to_graph` pass -/
theorem histToGraph_passes (cfg : H2GCfg) : Passes (histToGraphStep (σ := σ) cfg) histToGraphSel := by
  intro s v h
  unfold histToGraphSel at h
  unfold histToGraphStep
  simp only [ctxOr_d]
  cases hh : v.data.isHist
  · simp
  · simp only [hh, Bool.true_and] at h
    simp [h]

/-- `IterateBins`: non-histograms and histograms whose bins `select_bins` rejects pass -/
theorem iterateBins_passes (sb : BinKind → Bool) : Passes (iterateBinsStep (σ := σ) sb) (iterateBinsSel sb) := by
  intro s v h
  unfold iterateBinsSel at h
  unfold iterateBinsStep
  cases hd : v.data <;> simp_all

/-- `MapBins`: non-histograms and histograms whose bins `select_bins` rejects pass -/
theorem mapBins_passes (sb : BinKind → Bool) (inner : Item → CellRes) (dc : Bool) :
    Passes (mapBinsStep (σ := σ) sb inner dc) (mapBinsSel sb) := by
  intro s v h
  unfold mapBinsSel at h
  unfold mapBinsStep
  cases hd : v.data <;> simp_all

/-- `RunIf`: values rejected by `select` pass — whatever the inner sequence is -/
theorem runIf_passes (select : Item → Bool) (inner : σ → List Item → Step σ Item) :
    Passes (runIfStep select inner) select := by
  intro s v h
  unfold runIfStep
  simp [h]

/-- `MapGroup(map_scalars=False)`: values without `context.group` or with non-iterable data pass —
whatever the inner sequence is -/
theorem mapGroup_passes (inner : σ → List Item → Step σ Item) : Passes (mapGroupStep inner) mapGroupSel := by
  intro s v h
  unfold mapGroupSel hasKey Item.dict at h
  unfold mapGroupStep
  cases hc : v.ctx with
  | none => simp
  | some c =>
    simp only [hc] at h
    cases hg : lookup c.d "group" with
    | none => simp [hg]
    | some g =>
      simp only [hg, Option.isSome_some, Bool.true_and] at h
      simp [hg, h]

/-! ### the guards of the code coincide with the documented selection rules

`toCSVSel`, `isWritable`, `isCsv`, `pngSel`, `pdfSel`, `histToGraphSel`, `mapGroupSel` are transcribed from the tests
in the loops; `toCSVDoc`, `writeDoc`, … (Model) are written from the docstrings over `docGet`.  With these
equalities the `…_passes` theorems say: what the *documentation* calls not selected passes. -/

theorem docGet_eq_getRec : ∀ (ks : List String) (d : Dict), ks ≠ [] → docGet (.dict d) ks = getRec d ks
  | [], _, h => absurd rfl h
  | [k], d, _ => by
    simp only [docGet, getRec]
    cases lookup d k <;> simp [docGet]
  | k :: k' :: r, d, _ => by
    simp only [docGet, getRec]
    cases hl : lookup d k with
    | none => rfl
    | some w =>
      cases w with
      | dict d' => simpa using docGet_eq_getRec (k' :: r) d' (by simp)
      | _ => simp [docGet]

theorem toCSVSel_eq_doc (v : Item) : toCSVSel v = toCSVDoc v := by
  unfold toCSVSel toCSVDoc csvAllowed notDisabled
  rw [docGet_eq_getRec _ _ (by simp)]
  congr 1
  cases v.data with
  | rows id k upd => cases k <;> rfl
  | _ => rfl

theorem writeSel_eq_doc (v : Item) : writeSel v = writeDoc v := by
  unfold writeSel isWritable writeDoc
  rw [docGet_eq_getRec _ _ (by simp)]
  cases hg : getRec v.dict ["output", "write"] with
  | none => cases v.data <;> rfl
  | some x =>
    cases x with
    | bool b => cases b <;> cases v.data <;> rfl
    | _ => cases v.data <;> rfl

theorem isCsv_eq_doc (v : Item) : isCsv v = renderDoc v := by
  unfold isCsv renderDoc hasStrAt
  rw [docGet_eq_getRec _ _ (by simp)]

theorem pngSel_eq_doc (v : Item) : pngSel v = pngDoc v := by
  unfold pngSel pngDoc hasStrAt
  rw [docGet_eq_getRec _ _ (by simp)]

theorem pdfSel_eq_doc (v : Item) : pdfSel v = pdfDoc v := by
  unfold pdfSel pdfDoc hasStrAt
  rw [docGet_eq_getRec _ _ (by simp)]

theorem histToGraphSel_eq_doc (v : Item) : histToGraphSel v = histToGraphDoc v := by
  unfold histToGraphSel histToGraphDoc graphAllowed notDisabled
  rw [docGet_eq_getRec _ _ (by simp)]
  cases v.data <;> rfl

theorem mapGroupSel_eq_doc (v : Item) : mapGroupSel v = mapGroupDoc v := by
  unfold mapGroupSel mapGroupDoc hasKey
  rw [docGet_eq_getRec _ _ (by simp)]
  rfl

/-- **`ToCSV` passes what its documentation does not call convertible** -/
theorem toCSV_passes_doc (cfg : CsvCfg) : Passes (toCSVStep (σ := σ) cfg) toCSVDoc := by
  intro s v h; exact toCSV_passes cfg s v (by rw [toCSVSel_eq_doc]; exact h)

/-- **`Write` passes what its documentation says is not written** -/
theorem write_passes_doc (cfg : WriteCfg) : Passes (writeStep cfg) writeDoc := by
  intro s v h; exact write_passes cfg s v (by rw [writeSel_eq_doc]; exact h)

/-- **`RenderLaTeX` (default `select_data`) passes values whose `context.output.filetype` is not `"csv"`** -/
theorem render_passes_doc (cfg : RenderCfg) (hd : cfg.selectData = none) :
    Passes (renderStep (σ := σ) cfg) renderDoc := by
  intro s v h
  apply render_passes cfg s v
  simp only [renderSel, hd, isCsv_eq_doc]; exact h

/-- **`PDFToPNG` passes values whose `context.output.filetype` is not `"pdf"`** -/
theorem png_passes_doc (cfg : PngCfg) : Passes (pngStep cfg) pngDoc := by
  intro s v h; exact png_passes cfg s v (by rw [pngSel_eq_doc]; exact h)

/-- **`HistToGraph` passes non-histograms and histograms with `context.histogram.to_graph` false** -/
theorem histToGraph_passes_doc (cfg : H2GCfg) : Passes (histToGraphStep (σ := σ) cfg) histToGraphDoc := by
  intro s v h; exact histToGraph_passes cfg s v (by rw [histToGraphSel_eq_doc]; exact h)

/-- **`MapGroup(map_scalars=False)` passes what is not a group** -/
theorem mapGroup_passes_doc (inner : σ → List Item → Step σ Item) : Passes (mapGroupStep inner) mapGroupDoc := by
  intro s v h; exact mapGroup_passes inner s v (by rw [mapGroupSel_eq_doc]; exact h)

/-! ### the law for each element's `run` -/

/-- `ToCSV.run(interleave(A, B)) = interleave(ToCSV.run(A), B)` -/
theorem toCSV_interleave (cfg : CsvCfg) (p : List Bool) (A B : List Item) (s : σ) (hpat : IsPattern p A B)
    (hB : ∀ b ∈ B, toCSVSel b = false) :
    toCSVRun cfg s (merge p A B) =
      ⟨mergeBlocks (toCSVRun cfg s A).err.isSome p (toCSVRun cfg s A).blocks B, (toCSVRun cfg s A).st,
        (toCSVRun cfg s A).err⟩ :=
  interleave_law _ _ (toCSV_passes cfg) p A B s hpat hB

/-- `Write.run`, for every construction setting and every initial file system -/
theorem write_interleave (cfg : WriteCfg) (p : List Bool) (A B : List Item) (fs : FS) (hpat : IsPattern p A B)
    (hB : ∀ b ∈ B, writeSel b = false) :
    writeRun cfg fs (merge p A B) =
      ⟨mergeBlocks (writeRun cfg fs A).err.isSome p (writeRun cfg fs A).blocks B, (writeRun cfg fs A).st,
        (writeRun cfg fs A).err⟩ :=
  interleave_law _ _ (write_passes cfg) p A B fs hpat hB

theorem render_interleave (cfg : RenderCfg) (p : List Bool) (A B : List Item) (s : σ) (hpat : IsPattern p A B)
    (hB : ∀ b ∈ B, renderSel cfg b = false) :
    renderRun cfg s (merge p A B) =
      ⟨mergeBlocks (renderRun cfg s A).err.isSome p (renderRun cfg s A).blocks B, (renderRun cfg s A).st,
        (renderRun cfg s A).err⟩ :=
  interleave_law _ _ (render_passes cfg) p A B s hpat hB

theorem png_interleave (cfg : PngCfg) (p : List Bool) (A B : List Item) (fs : FS) (hpat : IsPattern p A B)
    (hB : ∀ b ∈ B, pngSel b = false) :
    pngRun cfg fs (merge p A B) =
      ⟨mergeBlocks (pngRun cfg fs A).err.isSome p (pngRun cfg fs A).blocks B, (pngRun cfg fs A).st,
        (pngRun cfg fs A).err⟩ :=
  interleave_law _ _ (png_passes cfg) p A B fs hpat hB

theorem histToGraph_interleave (cfg : H2GCfg) (p : List Bool) (A B : List Item) (s : σ) (hpat : IsPattern p A B)
    (hB : ∀ b ∈ B, histToGraphSel b = false) :
    histToGraphRun cfg s (merge p A B) =
      ⟨mergeBlocks (histToGraphRun cfg s A).err.isSome p (histToGraphRun cfg s A).blocks B, (histToGraphRun cfg s A).st,
        (histToGraphRun cfg s A).err⟩ :=
  interleave_law _ _ (histToGraph_passes cfg) p A B s hpat hB

theorem iterateBins_interleave (sb : BinKind → Bool) (p : List Bool) (A B : List Item) (s : σ)
    (hpat : IsPattern p A B) (hB : ∀ b ∈ B, iterateBinsSel sb b = false) :
    iterateBinsRun sb s (merge p A B) =
      ⟨mergeBlocks (iterateBinsRun sb s A).err.isSome p (iterateBinsRun sb s A).blocks B,
        (iterateBinsRun sb s A).st, (iterateBinsRun sb s A).err⟩ :=
  interleave_law _ _ (iterateBins_passes sb) p A B s hpat hB

theorem mapBins_interleave (sb : BinKind → Bool) (inner : Item → CellRes) (dc : Bool) (p : List Bool) (A B : List Item)
    (s : σ) (hpat : IsPattern p A B) (hB : ∀ b ∈ B, mapBinsSel sb b = false) :
    mapBinsRun sb inner dc s (merge p A B) =
      ⟨mergeBlocks (mapBinsRun sb inner dc s A).err.isSome p (mapBinsRun sb inner dc s A).blocks B,
        (mapBinsRun sb inner dc s A).st, (mapBinsRun sb inner dc s A).err⟩ :=
  interleave_law _ _ (mapBins_passes sb inner dc) p A B s hpat hB

/-- `RunIf.run`, for every selector and every inner sequence (stateful ones included: `σ` is any state the
inner sequence and the file system may have) -/
theorem runIf_interleave (select : Item → Bool) (inner : σ → List Item → Step σ Item) (p : List Bool)
    (A B : List Item) (s : σ) (hpat : IsPattern p A B) (hB : ∀ b ∈ B, select b = false) :
    runIfRun select inner s (merge p A B) =
      ⟨mergeBlocks (runIfRun select inner s A).err.isSome p (runIfRun select inner s A).blocks B,
        (runIfRun select inner s A).st, (runIfRun select inner s A).err⟩ :=
  interleave_law _ _ (runIf_passes select inner) p A B s hpat hB

theorem mapGroup_interleave (inner : σ → List Item → Step σ Item) (p : List Bool) (A B : List Item) (s : σ)
    (hpat : IsPattern p A B) (hB : ∀ b ∈ B, mapGroupSel b = false) :
    mapGroupRun inner s (merge p A B) =
      ⟨mergeBlocks (mapGroupRun inner s A).err.isSome p (mapGroupRun inner s A).blocks B,
        (mapGroupRun inner s A).st, (mapGroupRun inner s A).err⟩ :=
  interleave_law _ _ (mapGroup_passes inner) p A B s hpat hB

/-! ## 3. Element-specific facts -/

/-! The five `…_state_untouched` theorems below are *free theorems*: the transcribed loop bodies of these elements are
polymorphic in the state, so they cannot touch it.  They record the modelling decision "this element has no file
system"; that the real elements write nothing is checked by the directory snapshots of the harness. -/

/-- `ToCSV` never touches the file system (or any other state), whatever the flow -/
theorem toCSV_state_untouched (cfg : CsvCfg) (xs : List Item) (s : σ) : (toCSVRun cfg s xs).st = s := by
  apply loop_state_const
  intro s v
  simp only [toCSVStep]
  repeat' split
  all_goals rfl

theorem render_state_untouched (cfg : RenderCfg) (xs : List Item) (s : σ) : (renderRun cfg s xs).st = s := by
  apply loop_state_const
  intro s v
  simp only [renderStep]
  repeat' split
  all_goals rfl

theorem histToGraph_state_untouched (cfg : H2GCfg) (xs : List Item) (s : σ) : (histToGraphRun cfg s xs).st = s := by
  apply loop_state_const
  intro s v
  simp only [histToGraphStep]
  repeat' split
  all_goals rfl

theorem iterateBins_state_untouched (sb : BinKind → Bool) (xs : List Item) (s : σ) :
    (iterateBinsRun sb s xs).st = s := by
  apply loop_state_const
  intro s v
  simp only [iterateBinsStep]
  repeat' split
  all_goals rfl

theorem mapBins_state_untouched (sb : BinKind → Bool) (inner : Item → CellRes) (dc : Bool) (xs : List Item) (s : σ) :
    (mapBinsRun sb inner dc s xs).st = s := by
  apply loop_state_const
  intro s v
  unfold mapBinsStep
  split
  · split
    · rfl
    · exact mapBinsRounds_st _ _ _ _ _ _ _ _ _
  · rfl

/-- `Write`: a value whose data is already the path it would be written to ("already written by another
Write") is yielded as the same object and the file system is not touched -/
theorem write_already_written (cfg : WriteCfg) (fs : FS) (v : Item) (c : Ctx) (outputc : Dict)
    (filename : String) (fileext : CV) (filepath : String)
    (hc : v.ctx = some c) (hw : isWritable v.data c.d = true) (ho : lookup c.d "output" = some (.dict outputc))
    (hm : makeFilename cfg outputc = .ok (filename, fileext, filepath)) (hd : v.data.eqStr filepath = true) :
    writeStep cfg fs v = ⟨[v], fs, none⟩ := by
  have hk : hasKey c.d "output" = true := by simp [hasKey, ho]
  have hv : v.withDict c.d = v := by
    unfold Item.withDict; simp only [hc]
    cases v; simp_all
  unfold writeStep
  simp [Item.ctxOr, hc, hw, hk, ho, hm, hd, hv]

/-- the other face of that branch: when the context has no `output` yet, `Write` inserts `output: {}` *before*
it finds out that the value was "already written" (write.py:205-206 precede 221-223) — the value is yielded
as the very same object, the file system is not touched, but its context has gained the empty entry.
(The value is a string the context does not forbid to write, i.e. a value `Write` selects.) -/
theorem write_already_written_adds_output (cfg : WriteCfg) (fs : FS) (v : Item) (c : Ctx)
    (filename : String) (fileext : CV) (filepath : String)
    (hc : v.ctx = some c) (hw : isWritable v.data c.d = true) (ho : lookup c.d "output" = none)
    (hm : makeFilename cfg [] = .ok (filename, fileext, filepath)) (hd : v.data.eqStr filepath = true) :
    writeStep cfg fs v = ⟨[v.withDict (setKey c.d "output" (.dict []))], fs, none⟩ := by
  have hk : hasKey c.d "output" = false := by simp [hasKey, ho]
  have hl : ∀ d : Dict, lookup (setKey d "output" (.dict [])) "output" = some (.dict []) := by
    intro d; induction d with
    | nil => simp [setKey, lookup]
    | cons x r ih =>
      obtain ⟨k, w⟩ := x
      by_cases hkk : k = "output" <;> simp [setKey, lookup, hkk, ih]
  unfold writeStep
  simp [Item.ctxOr, hc, hw, hk, hl, hm, hd]

/-! ### the selection predicates are exact: a selected value is never yielded as it came

Every object made while a value is processed has a new identity (`Tok.made`), so for the elements below a
consumed value is yielded as the very same object **iff** it is not selected (`Write`'s "already written"
branch and `RunIf`/`MapGroup` with an inner sequence that returns its input are the exceptions). -/

/-- for a loop body that passes unselected values and makes only new objects for selected ones: a
consumed value is yielded as the very same object **iff** it is not selected -/
theorem same_object_iff_unselected (f : σ → Item → Step σ Item) (sel : Item → Bool) (hp : Passes f sel)
    (hf : ∀ s v, sel v = true → AllFresh v (f s v).out) (s : σ) (v : Item) :
    (∃ y ∈ (f s v).out, y.tok = v.tok) ↔ sel v = false := by
  constructor
  · rintro ⟨y, hy, hyt⟩
    cases hs : sel v
    · rfl
    · exact absurd hyt ((hf s v hs).ne y hy)
  · intro hs
    rw [hp s v hs]
    exact ⟨v, by simp [pass], rfl⟩

theorem toCSV_same_object_iff (cfg : CsvCfg) (s : σ) (v : Item) :
    (∃ y ∈ (toCSVStep cfg s v).out, y.tok = v.tok) ↔ toCSVSel v = false :=
  same_object_iff_unselected _ _ (toCSV_passes cfg) (toCSV_selected_fresh cfg) s v

theorem render_same_object_iff (cfg : RenderCfg) (s : σ) (v : Item) :
    (∃ y ∈ (renderStep cfg s v).out, y.tok = v.tok) ↔ renderSel cfg v = false :=
  same_object_iff_unselected _ _ (render_passes cfg) (render_selected_fresh cfg) s v

theorem png_same_object_iff (cfg : PngCfg) (fs : FS) (v : Item) :
    (∃ y ∈ (pngStep cfg fs v).out, y.tok = v.tok) ↔ pngSel v = false :=
  same_object_iff_unselected _ _ (png_passes cfg) (png_selected_fresh cfg) fs v

theorem histToGraph_same_object_iff (cfg : H2GCfg) (s : σ) (v : Item) :
    (∃ y ∈ (histToGraphStep cfg s v).out, y.tok = v.tok) ↔ histToGraphSel v = false :=
  same_object_iff_unselected _ _ (histToGraph_passes cfg) (histToGraph_selected_fresh cfg) s v

theorem iterateBins_same_object_iff (sb : BinKind → Bool) (s : σ) (v : Item) :
    (∃ y ∈ (iterateBinsStep sb s v).out, y.tok = v.tok) ↔ iterateBinsSel sb v = false :=
  same_object_iff_unselected _ _ (iterateBins_passes sb) (iterateBins_selected_fresh sb) s v

theorem mapBins_same_object_iff (sb : BinKind → Bool) (inner : Item → CellRes) (dc : Bool) (s : σ) (v : Item) :
    (∃ y ∈ (mapBinsStep sb inner dc s v).out, y.tok = v.tok) ↔ mapBinsSel sb v = false :=
  same_object_iff_unselected _ _ (mapBins_passes sb inner dc) (mapBins_selected_fresh sb inner dc) s v

theorem mapGroup_same_object_iff (inner : σ → List Item → Step σ Item) (s : σ) (v : Item) :
    (∃ y ∈ (mapGroupStep inner s v).out, y.tok = v.tok) ↔ mapGroupSel v = false :=
  same_object_iff_unselected _ _ (mapGroup_passes inner) (mapGroup_selected_fresh inner) s v

/-! ## 4. `LaTeXToPDF`: unselected values pass as they are, in order, whenever the processes end -/

/-- while an unselected value is processed the pool may yield finished results, then the value itself
follows, as it is; no exception -/
theorem pdf_unselected_step (ow : Bool) (sch : Sched) (st : PdfSt) (v : Item) (h : pdfSel v = false) :
    (pdfStep ow sch st v).out = (popReturned sch st.iter st.fs st.pool).2.1 ++ [.pass v] ∧
    (pdfStep ow sch st v).err = none := by
  simp [pdfStep, h]

/-- **`LaTeXToPDF`: the unselected values are yielded as the very same objects, each once, in unchanged
relative order — for every schedule of the external processes.**  (All of them if the run ends normally,
those consumed before the exception otherwise.) -/
theorem pdf_unselected_same_objects_in_order (ow : Bool) (sch : Sched) (fs : FS) (xs : List Item) :
    passedOf (pdfRun ow sch fs xs).out =
      (xs.take (pdfRun ow sch fs xs).blocks.length).filter (fun v => !pdfSel v) ∧
    ((pdfRun ow sch fs xs).err = none →
      passedOf (pdfRun ow sch fs xs).out = xs.filter (fun v => !pdfSel v)) := by
  have hl := pdf_loop_passed ow sch xs ⟨fs, [], 0, 0⟩
  have hlen := loop_blocks_length_of_ok (pdfStep ow sch) xs ⟨fs, [], 0, 0⟩
  unfold pdfRun PdfRun.out
  cases he : (loop (pdfStep ow sch) ⟨fs, [], 0, 0⟩ xs).err with
  | some e => simp [he, hl]
  | none =>
    have hd := pdfDrain_prod sch (loop (pdfStep ow sch) ⟨fs, [], 0, 0⟩ xs).st.pool
      (loop (pdfStep ow sch) ⟨fs, [], 0, 0⟩ xs).st.fs
    simp only [he, passedOf_append, hl, hd, List.append_nil, hlen he, List.take_length, true_and]
    intro _; trivial

/-- **`LaTeXToPDF` does not touch the file system for an unselected value**: while it passes, the only
files that can change are the pdf files of processes that were launched earlier and end now (written by
the external converter); with an empty pool nothing changes at all. -/
theorem pdf_unselected_touches_only_pool_files (ow : Bool) (sch : Sched) (st : PdfSt) (v : Item)
    (h : pdfSel v = false) :
    (∀ q, q ∉ st.pool.map (·.key) → Agree (pdfStep ow sch st v).st.fs st.fs q) ∧
    (st.pool = [] → (pdfStep ow sch st v).st.fs = st.fs ∧ (pdfStep ow sch st v).out = [.pass v]) := by
  constructor
  · intro q hq
    have := (popReturned_spec sch st.iter st.pool st.fs).2.2 q hq
    simpa [pdfStep, h] using this
  · intro hp
    simp [pdfStep, h, hp, popReturned]

/-! ### `LaTeXToPDF`: the multiset of what is produced for the selected values

The pool delays and may reorder the results, and *when* a result appears depends on the external
processes; but as a multiset the produced values are a function (`pdfSpec`) of the selected values, the
initial file system and the return codes — not of the interleaved unselected values, and not of the
timing — provided the files do not collide (`KeysOK []`: the pdf names of the selected values are pairwise
different and no tex name is one of them; two selected values with the same file name race with each
other in the real code, whatever is interleaved). -/

theorem pdf_selected_multiset (ow : Bool) (sch : Sched) (fs : FS) (xs : List Item)
    (hok : (pdfRun ow sch fs xs).err = none) (hk : KeysOK [] xs) :
    (prodsOf (pdfRun ow sch fs xs).out).Perm (pdfSpec ow sch.rc fs 0 (xs.filter pdfSel)) := by
  rw [pdfRun_err] at hok
  have h := pdf_loop_spec ow sch xs ⟨fs, [], 0, 0⟩ hok (by simpa using hk)
  have hd := pdfDrain_spec sch (loop (pdfStep ow sch) ⟨fs, [], 0, 0⟩ xs).st.pool
    (loop (pdfStep ow sch) ⟨fs, [], 0, 0⟩ xs).st.fs
  unfold pdfRun PdfRun.out
  simp only [hok, prodsOf_append, hd]
  simpa [pending] using h

theorem keysOK_of_same_selected {xs xs' : List Item} (hA : xs.filter pdfSel = xs'.filter pdfSel)
    (hk : KeysOK [] xs) : KeysOK [] xs' := by
  have e : selTex xs' = selTex xs := by simp [selTex, hA]
  constructor
  · simpa [selKeys, e] using hk.nodup
  · intro t ht; simpa [selKeys, e] using hk.texNotKey t (by rw [← e]; exact ht)

/-- **`LaTeXToPDF`: whether the run raises, and what, is decided by the selected values and the initial file
system** (`pdfSpecErr`) — for every schedule, whatever is interleaved -/
theorem pdf_err_determined (ow : Bool) (sch : Sched) (fs : FS) (xs : List Item) (hk : KeysOK [] xs) :
    (pdfRun ow sch fs xs).err = pdfSpecErr ow fs (xs.filter pdfSel) := by
  rw [pdfRun_err]
  exact pdf_loop_err ow sch xs ⟨fs, [], 0, 0⟩ (by simpa using hk)

/-- two flows with the same selected values, any two schedules: the same exception or none -/
theorem pdf_err_independent (ow : Bool) (sch sch' : Sched) (fs : FS) (xs xs' : List Item)
    (hA : xs.filter pdfSel = xs'.filter pdfSel) (hk : KeysOK [] xs) :
    (pdfRun ow sch fs xs).err = (pdfRun ow sch' fs xs').err := by
  rw [pdf_err_determined ow sch fs xs hk, pdf_err_determined ow sch' fs xs' (keysOK_of_same_selected hA hk), hA]

/-- **`LaTeXToPDF`: what is produced for the selected values does not depend — as a multiset — on the
interleaved unselected values nor on when the processes end.**  Two flows with the same selected values
(any unselected values interleaved in any way), two schedules with the same return codes; if one of the runs
ends normally so does the other (`pdf_err_independent`). -/
theorem pdf_selected_independent (ow : Bool) (sch sch' : Sched) (fs : FS) (xs xs' : List Item)
    (hA : xs.filter pdfSel = xs'.filter pdfSel) (hrc : sch.rc = sch'.rc)
    (hok : (pdfRun ow sch fs xs).err = none) (hk : KeysOK [] xs) :
    (pdfRun ow sch' fs xs').err = none ∧
    (prodsOf (pdfRun ow sch fs xs).out).Perm (prodsOf (pdfRun ow sch' fs xs').out) := by
  have hk' : KeysOK [] xs' := keysOK_of_same_selected hA hk
  have hok' : (pdfRun ow sch' fs xs').err = none := by
    rw [← pdf_err_independent ow sch sch' fs xs xs' hA hk]; exact hok
  have h1 := pdf_selected_multiset ow sch fs xs hok hk
  have h2 := pdf_selected_multiset ow sch' fs xs' hok' hk'
  rw [hA, hrc] at h1
  exact ⟨hok', h1.trans h2.symm⟩

/-- **`LaTeXToPDF`: the file system after the run differs from the one before only at the pdf names of the
selected values** — for every schedule, whether the run raises or not, whatever unselected values (strings
naming other files and directories included) are interleaved: nothing they name is created, written or touched -/
theorem pdf_fs_untouched_elsewhere (ow : Bool) (sch : Sched) (fs : FS) (xs : List Item) (q : String)
    (hq : q ∉ selKeys xs) : Agree (pdfRun ow sch fs xs).fs fs q := by
  obtain ⟨h1, h2⟩ := pdf_loop_fs ow sch q xs ⟨fs, [], 0, 0⟩ (by simp) hq
  unfold pdfRun
  cases he : (loop (pdfStep ow sch) ⟨fs, [], 0, 0⟩ xs).err with
  | some e => simpa [he] using h1
  | none =>
    have hd := pdfDrain_agree sch q (loop (pdfStep ow sch) ⟨fs, [], 0, 0⟩ xs).st.pool
      (loop (pdfStep ow sch) ⟨fs, [], 0, 0⟩ xs).st.fs h2
    simpa [he] using hd.trans h1

/-- in particular a flow without selected values leaves the file system as it was, at every path -/
theorem pdf_fs_untouched_of_unselected (ow : Bool) (sch : Sched) (fs : FS) (xs : List Item)
    (hx : ∀ x ∈ xs, pdfSel x = false) (q : String) : Agree (pdfRun ow sch fs xs).fs fs q := by
  apply pdf_fs_untouched_elsewhere
  have : xs.filter pdfSel = [] := by
    rw [List.filter_eq_nil_iff]; intro x hxm; simp [hx x hxm]
  simp [selKeys, selTex, this]

/-- the full statement — also for runs that end with an exception — is **false of the code**: which results of the
process pool are out before the exception depends on when the processes end, i.e. on how many values (selected
or not) were consumed meanwhile -/
def pdf_failing_run_independent_full : Prop :=
  ∀ (ow : Bool) (sch sch' : Sched) (fs : FS) (xs xs' : List Item),
    xs.filter pdfSel = xs'.filter pdfSel → sch.rc = sch'.rc → KeysOK [] xs →
    (prodsOf (pdfRun ow sch fs xs).out).Perm (prodsOf (pdfRun ow sch' fs xs').out)

/-! ### a used element object (`pdfRunFrom`): the pool left by a run that raised, the launch counter -/

theorem pdfRun_eq_from (ow : Bool) (sch : Sched) (fs : FS) (xs : List Item) :
    pdfRun ow sch fs xs = (pdfRunFrom ow sch ⟨fs, [], 0, 0⟩ xs).1 := by
  cases h : (loop (pdfStep ow sch) ⟨fs, [], 0, 0⟩ xs).err <;> simp [pdfRun, pdfRunFrom, h]

/-- **a second (third, …) run of the same `LaTeXToPDF` object**: unselected values still pass as the same
objects in order, whatever pool the previous run left -/
theorem pdf_from_unselected_same_objects_in_order (ow : Bool) (sch : Sched) (st : PdfSt) (xs : List Item) :
    passedOf (pdfRunFrom ow sch st xs).1.out =
      (xs.take (pdfRunFrom ow sch st xs).1.blocks.length).filter (fun v => !pdfSel v) := by
  have hl := pdf_loop_passed ow sch xs { st with iter := 0 }
  unfold pdfRunFrom PdfRun.out
  cases he : (loop (pdfStep ow sch) { st with iter := 0 } xs).err with
  | some e => simp [he, passedOf_append, hl, passedOf_nil]
  | none =>
    have hd := pdfDrain_prod sch (loop (pdfStep ow sch) { st with iter := 0 } xs).st.pool
      (loop (pdfStep ow sch) { st with iter := 0 } xs).st.fs
    simp [he, passedOf_append, hl, hd]

/-- … the exception is decided by the selected values and the file system the run starts with … -/
theorem pdf_from_err_determined (ow : Bool) (sch : Sched) (st : PdfSt) (xs : List Item)
    (hk : KeysOK (st.pool.map (·.key)) xs) :
    (pdfRunFrom ow sch st xs).1.err = pdfSpecErr ow st.fs (xs.filter pdfSel) := by
  have h := pdf_loop_err ow sch xs { st with iter := 0 } hk
  unfold pdfRunFrom
  cases he : (loop (pdfStep ow sch) { st with iter := 0 } xs).err with
  | some e => simpa [he] using h
  | none => simpa [he] using h

/-- … and a run that ends normally produces, as a multiset, the results of the processes left over from the
previous run plus the timing-free description of the selected values (launch numbers continue) -/
theorem pdf_from_selected_multiset (ow : Bool) (sch : Sched) (st : PdfSt) (xs : List Item)
    (hok : (pdfRunFrom ow sch st xs).1.err = none) (hk : KeysOK (st.pool.map (·.key)) xs) :
    (prodsOf (pdfRunFrom ow sch st xs).1.out).Perm
      (pending sch.rc st.pool ++ pdfSpec ow sch.rc st.fs st.launched (xs.filter pdfSel)) := by
  have hok' : (loop (pdfStep ow sch) { st with iter := 0 } xs).err = none := by
    unfold pdfRunFrom at hok
    cases he : (loop (pdfStep ow sch) { st with iter := 0 } xs).err with
    | none => rfl
    | some e => simp [he] at hok
  have h := pdf_loop_spec ow sch xs { st with iter := 0 } hok' hk
  have hd := pdfDrain_spec sch (loop (pdfStep ow sch) { st with iter := 0 } xs).st.pool
    (loop (pdfStep ow sch) { st with iter := 0 } xs).st.fs
  unfold pdfRunFrom PdfRun.out
  simp only [hok', prodsOf_append, hd]
  exact h

/-- a run that ends normally leaves an empty pool; one that raises leaves its processes to the next run -/
theorem pdf_from_pool_after (ow : Bool) (sch : Sched) (st : PdfSt) (xs : List Item)
    (hok : (pdfRunFrom ow sch st xs).1.err = none) : (pdfRunFrom ow sch st xs).2.pool = [] := by
  unfold pdfRunFrom at hok ⊢
  cases he : (loop (pdfStep ow sch) { st with iter := 0 } xs).err with
  | none => simp [he]
  | some e => simp [he] at hok

/-! ## 4b. Pipelines: inserting a selective element never alters values meant for other elements -/

/-- `Sequence(E1, E2)` of two selective elements is selective: it passes what neither selects -/
theorem pipe_passes (f1 f2 : σ → Item → Step σ Item) (sel1 sel2 : Item → Bool) (h1 : Passes f1 sel1)
    (h2 : Passes f2 sel2) : Passes (pipeStep f1 f2) (fun v => sel1 v || sel2 v) := by
  intro s v h
  simp only [Bool.or_eq_false_iff] at h
  unfold pipeStep
  rw [h1 s v h.1]
  simp [pass, loop, h2 s v h.2, Run.out]

/-- `Sequence(E1, …, En)` passes what none of its elements selects -/
theorem pipeAll_passes : ∀ (l : List ((σ → Item → Step σ Item) × (Item → Bool))),
    (∀ p ∈ l, Passes p.1 p.2) → Passes (pipeAll (l.map (·.1))) (fun v => l.any (fun p => p.2 v))
  | [], _ => by intro s v _; rfl
  | p :: l, h => by
    have ih := pipeAll_passes l (fun q hq => h q (List.mem_cons_of_mem _ hq))
    have := pipe_passes p.1 (pipeAll (l.map (·.1))) p.2 _ (h p (by simp)) ih
    simpa [pipeAll] using this

/-- **Inserting a selective element in front of a pipeline is invisible for the values it does not
select**: they reach the rest of the pipeline exactly as if the element were not there (same results,
same state, same exception). -/
theorem insert_invisible_before (f1 f2 : σ → Item → Step σ Item) (sel1 : Item → Bool) (h1 : Passes f1 sel1)
    (s : σ) (v : Item) (hv : sel1 v = false) : pipeStep f1 f2 s v = f2 s v := by
  unfold pipeStep
  rw [h1 s v hv]
  rcases h : f2 s v with ⟨out, s', _ | e⟩ <;> simp [pass, loop, h, Run.out]

/-- **Appending a selective element to a pipeline is invisible when it selects nothing of what the
pipeline yields for a value**: results, state and exception are those of the pipeline alone. -/
theorem insert_invisible_after (f1 f2 : σ → Item → Step σ Item) (sel2 : Item → Bool) (h2 : Passes f2 sel2)
    (s : σ) (v : Item) (hv : ∀ y ∈ (f1 s v).out, sel2 y = false) : pipeStep f1 f2 s v = f1 s v := by
  have hflat : ∀ l : List Item, (l.map (fun b => [b])).flatten = l := by
    intro l; induction l <;> simp_all
  simp only [pipeStep]
  rw [state_untouched_by_unselected f2 sel2 h2 (f1 s v).out (f1 s v).st hv]
  simp only [Run.out, hflat]

/-- the interleaving law for a whole pipeline of selective elements: values that no element selects
stand, as the very same objects, where the pattern puts them, and everything else — results, final
state, exception — is as for the other values alone -/
theorem pipeline_interleave (l : List ((σ → Item → Step σ Item) × (Item → Bool)))
    (hl : ∀ p ∈ l, Passes p.1 p.2) (p : List Bool) (A B : List Item) (s : σ) (hpat : IsPattern p A B)
    (hB : ∀ b ∈ B, ∀ q ∈ l, q.2 b = false) :
    pipeRun (l.map (·.1)) s (merge p A B) =
      ⟨mergeBlocks (pipeRun (l.map (·.1)) s A).err.isSome p (pipeRun (l.map (·.1)) s A).blocks B,
        (pipeRun (l.map (·.1)) s A).st, (pipeRun (l.map (·.1)) s A).err⟩ := by
  apply interleave_law _ _ (pipeAll_passes l hl) p A B s hpat
  intro b hb
  simp only [List.any_eq_false]
  intro q hq
  simp [hB b hb q hq]

/-- an element that only knows the file system passes the same values in a world with more state -/
theorem liftFS_passes {ω : Type} (get : ω → FS) (set : ω → FS → ω) (hgs : ∀ w, set w (get w) = w)
    (f : FS → Item → Step FS Item) (sel : Item → Bool) (h : Passes f sel) : Passes (liftFS get set f) sel := by
  intro w v hv
  simp [liftFS, h (get w) v hv, pass, hgs]

/-! ## 4c. Loops that yield more after the flow (`GroupPlots`) -/

/-- the interleaving law with a tail: the blocks interleave as before; what is yielded after the flow, the
final state and the exception are those of the run on the selected values alone -/
theorem interleave_law_tail (f : σ → α → Step σ α) (fin : σ → Step σ α) (sel : α → Bool) (hp : Passes f sel)
    (p : List Bool) (A B : List α) (s : σ) (hpat : IsPattern p A B) (hB : ∀ b ∈ B, sel b = false) :
    loopTail f fin s (merge p A B) =
      { loopTail f fin s A with
        blocks := mergeBlocks (loop f s A).err.isSome p (loopTail f fin s A).blocks B } := by
  simp only [loopTail]
  rw [interleave_law f sel hp p A B s hpat hB]
  cases h : (loop f s A).err <;> first | simp | simp [h]

/-- `GroupPlots`: values rejected by `select` pass — whatever `group_by` and `yield_selected` are -/
theorem groupPlots_passes (cfg : GPCfg) : Passes (groupPlotsStep cfg) cfg.select := by
  intro g v h
  simp [groupPlotsStep, h]

/-- `GroupPlots.run(interleave(A, B)) = interleave(GroupPlots.run(A), B)` followed by the same groups: the
unselected values do not enter any group, from whatever state of the groups the run starts (an element
object that is used again keeps its groups) -/
theorem groupPlots_interleave (cfg : GPCfg) (p : List Bool) (A B : List Item) (g : Groups)
    (hpat : IsPattern p A B) (hB : ∀ b ∈ B, cfg.select b = false) :
    groupPlotsRun cfg g (merge p A B) =
      { groupPlotsRun cfg g A with
        blocks := mergeBlocks (loop (groupPlotsStep cfg) g A).err.isSome p (groupPlotsRun cfg g A).blocks B } :=
  interleave_law_tail _ _ _ (groupPlots_passes cfg) p A B g hpat hB

/-! ## 4d. The locality hypothesis of the token model

The theorems above are about value-passing steps.  Python passes references; `sharedStep` (Model) is the
reference semantics.  For a flow whose values have context objects of their own (`Local`) and a loop body
that writes only into the context of the value it processes or into objects it made (`CtxLocal`) the two
agree.  `CtxLocal` is proved for `ToCSV`, `Write`, `RenderLaTeX`, `PDFToPNG`, `HistToGraph`, `IterateBins`,
`MapBins`, and for `RunIf` under the same hypothesis on its inner sequence (which is arbitrary); it is not proved
for `MapGroup` (same reason, plus the member contexts it hands to the inner sequence) and not stated for
`LaTeXToPDF`, whose pool *keeps* context objects between steps (its loop is not a `sharedStep` instance) — for
these two the reference semantics is covered by the correspondence only.  For flows that are not `Local` the
property itself fails (examples in section 5; the harness confirms it on the real code: cases labelled
`alias:`). -/

/-- all context objects of the flow are different source objects -/
def Local (xs : List Item) : Prop := (ctxToks xs).Nodup ∧ ∀ t ∈ ctxToks xs, ∃ n, t = Tok.src n

/-- the loop body yields contexts that are the context of the processed value or objects made meanwhile -/
def CtxLocal (f : σ → Item → Step σ Item) : Prop :=
  ∀ s v y, y ∈ (f s v).out → ∀ c, y.ctx = some c →
    v.ctx.map (·.tok) = some c.tok ∨ ∃ t k, c.tok = Tok.made t k

theorem local_of_localB (xs : List Item) (h : localB xs = true) : Local xs := by
  simp only [localB, Bool.and_eq_true, decide_eq_true_eq, List.all_eq_true] at h
  refine ⟨h.1, ?_⟩
  intro t ht
  have := h.2 t ht
  cases t with
  | src n => exact ⟨n, rfl⟩
  | made p k => simp at this

/-- **Under locality the reference semantics is the value-passing semantics**: same blocks, same state,
same exception, from any heap that knows none of the flow's contexts yet -/
theorem shared_eq_loop_of_local (f : σ → Item → Step σ Item) (hf : CtxLocal f) :
    ∀ (xs : List Item) (s : σ) (h : Heap), Local xs → (∀ t ∈ ctxToks xs, h.get t = none) →
      (loop (sharedStep f) (s, h) xs).blocks = (loop f s xs).blocks ∧
      (loop (sharedStep f) (s, h) xs).st.1 = (loop f s xs).st ∧
      (loop (sharedStep f) (s, h) xs).err = (loop f s xs).err
  | [], s, h, _, _ => ⟨rfl, rfl, rfl⟩
  | v :: vs, s, h, hl, hh => by
    have hsub : ∀ t ∈ ctxToks vs, t ∈ ctxToks (v :: vs) := by
      intro t ht
      cases hc : v.ctx with
      | none => rw [ctxToks_cons_none v vs hc]; exact ht
      | some c => rw [ctxToks_cons_some v vs c hc]; exact List.mem_cons_of_mem _ ht
    have hv : v.refresh h = v := by
      apply Item.refresh_of_none
      intro c hc
      apply hh
      rw [ctxToks_cons_some v vs c hc]; simp
    rcases hr : f s v with ⟨out, s', _ | e⟩
    · have hstep : sharedStep f (s, h) v = ⟨out, (s', h.record out), none⟩ := by simp [sharedStep, hv, hr]
      rw [loop_cons_ok _ _ _ _ _ _ hstep, loop_cons_ok _ _ _ _ _ _ hr]
      have hl' : Local vs := by
        refine ⟨?_, fun t ht => hl.2 t (hsub t ht)⟩
        cases hc : v.ctx with
        | none => have := hl.1; rwa [ctxToks_cons_none v vs hc] at this
        | some c =>
          have := hl.1
          rw [ctxToks_cons_some v vs c hc] at this
          exact (List.nodup_cons.1 this).2
      have hh' : ∀ t ∈ ctxToks vs, (h.record out).get t = none := by
        intro t ht
        apply Heap.get_record_none t out h (hh t (hsub t ht))
        intro y hy c hc hct
        obtain ⟨n, hn⟩ := hl.2 t (hsub t ht)
        rcases hf s v y (by rw [hr]; exact hy) c hc with h1 | ⟨t', k, h1⟩
        · -- the context of `v` itself: it does not occur among the later values
          cases hcv : v.ctx with
          | none => simp [hcv] at h1
          | some cv =>
            simp only [hcv, Option.map_some, Option.some.injEq] at h1
            have := hl.1
            rw [ctxToks_cons_some v vs cv hcv] at this
            have hnot := (List.nodup_cons.1 this).1
            rw [h1, hct] at hnot
            exact hnot ht
        · rw [hct, hn] at h1
          exact Tok.noConfusion h1
      obtain ⟨i1, i2, i3⟩ := shared_eq_loop_of_local f hf vs s' (h.record out) hl' hh'
      exact ⟨by simp [i1], i2, i3⟩
    · have hstep : sharedStep f (s, h) v = ⟨out, (s', h.record out), some e⟩ := by simp [sharedStep, hv, hr]
      rw [loop_cons_err _ _ _ _ _ _ _ hstep, loop_cons_err _ _ _ _ _ _ _ hr]
      exact ⟨rfl, rfl, rfl⟩

/-- what a step yields for `v` carries `v`'s own context object or objects made meanwhile -/
def OutLocal (v : Item) (out : List Item) : Prop :=
  ∀ y ∈ out, ∀ c, y.ctx = some c → v.ctx.map (·.tok) = some c.tok ∨ ∃ t k, c.tok = Tok.made t k

theorem outLocal_nil (v : Item) : OutLocal v [] := by intro y hy; simp at hy

theorem outLocal_self (v : Item) : OutLocal v [v] := by
  intro y hy c hc
  simp only [List.mem_singleton] at hy
  subst hy
  exact Or.inl (by simp [hc])

theorem outLocal_withDict (v : Item) (d : Dict) : OutLocal v [v.withDict d] := by
  intro y hy c hc
  simp only [List.mem_singleton] at hy
  subst hy
  unfold Item.withDict at hc
  cases hv : v.ctx with
  | none => simp [hv] at hc
  | some cv =>
    simp only [hv, Option.some.injEq] at hc
    subst hc
    exact Or.inl rfl

theorem outLocal_mk (v : Item) (k : Nat) (data : Data) (d : Dict) :
    OutLocal v [mk v k data ⟨(v.ctxOr 0).tok, d⟩] := by
  intro y hy c hc
  simp only [List.mem_singleton] at hy
  subst hy
  simp only [mk, Option.some.injEq] at hc
  subst hc
  unfold Item.ctxOr
  cases hv : v.ctx with
  | none => exact Or.inr ⟨_, _, rfl⟩
  | some cv => exact Or.inl rfl

theorem toCSV_ctxLocal (cfg : CsvCfg) : CtxLocal (toCSVStep (σ := σ) cfg) := by
  intro s v
  show OutLocal v (toCSVStep cfg s v).out
  simp only [toCSVStep, pass]
  repeat' split
  all_goals first | exact outLocal_nil _ | exact outLocal_self _ | exact outLocal_mk _ _ _ _

theorem render_ctxLocal (cfg : RenderCfg) : CtxLocal (renderStep (σ := σ) cfg) := by
  intro s v
  show OutLocal v (renderStep cfg s v).out
  simp only [renderStep, pass]
  repeat' split
  all_goals first | exact outLocal_nil _ | exact outLocal_self _ | exact outLocal_mk _ _ _ _

theorem png_ctxLocal (cfg : PngCfg) : CtxLocal (pngStep cfg) := by
  intro s v
  show OutLocal v (pngStep cfg s v).out
  simp only [pngStep, pass]
  repeat' split
  all_goals first | exact outLocal_nil _ | exact outLocal_self _ | exact outLocal_mk _ _ _ _

theorem histToGraph_ctxLocal (cfg : H2GCfg) : CtxLocal (histToGraphStep (σ := σ) cfg) := by
  intro s v
  show OutLocal v (histToGraphStep cfg s v).out
  simp only [histToGraphStep, pass]
  repeat' split
  all_goals first | exact outLocal_nil _ | exact outLocal_self _ | exact outLocal_mk _ _ _ _

theorem write_ctxLocal (cfg : WriteCfg) : CtxLocal (writeStep cfg) := by
  intro s v
  show OutLocal v (writeStep cfg s v).out
  simp only [writeStep, pass]
  repeat' split
  all_goals first
    | exact outLocal_nil _ | exact outLocal_self _ | exact outLocal_withDict _ _ | exact outLocal_mk _ _ _ _

theorem iterateBins_ctxLocal (sb : BinKind → Bool) : CtxLocal (iterateBinsStep (σ := σ) sb) := by
  intro s v
  show OutLocal v (iterateBinsStep sb s v).out
  simp only [iterateBinsStep, pass]
  repeat' split
  all_goals first
    | exact outLocal_nil _
    | exact outLocal_self _
    | (intro y hy c hc
       simp only [List.mem_map, List.mem_range] at hy
       obtain ⟨i, _, rfl⟩ := hy
       simp only [Option.some.injEq] at hc
       subst hc
       exact Or.inr ⟨_, _, rfl⟩)

theorem mapBinsRounds_outLocal (dc : Bool) (v : Item) (h : HistD) (d : Dict) (res : List CellRes) (s : σ) :
    ∀ (fuel k : Nat) (acc : List Item), OutLocal v acc → OutLocal v (mapBinsRounds dc v h d res s fuel k acc).out
  | 0, _, acc, ha => by
    intro y hy
    simp only [mapBinsRounds, List.mem_reverse] at hy
    exact ha y hy
  | fuel + 1, k, acc, ha => by
    unfold mapBinsRounds
    split
    · intro y hy
      simp only [List.mem_reverse] at hy
      exact ha y hy
    · intro y hy
      simp only [List.mem_reverse] at hy
      exact ha y hy
    · apply mapBinsRounds_outLocal dc v h d res s fuel (k + 1)
      intro y hy c hc
      simp only [List.mem_cons] at hy
      rcases hy with rfl | hy
      · simp only [Option.some.injEq] at hc
        subst hc
        exact Or.inr ⟨_, _, rfl⟩
      · exact ha y hy c hc

theorem mapBins_ctxLocal (sb : BinKind → Bool) (inner : Item → CellRes) (dc : Bool) :
    CtxLocal (mapBinsStep (σ := σ) sb inner dc) := by
  intro s v
  show OutLocal v (mapBinsStep sb inner dc s v).out
  simp only [mapBinsStep, pass]
  repeat' split
  all_goals first
    | exact outLocal_self _
    | exact mapBinsRounds_outLocal _ _ _ _ _ _ _ _ _ (outLocal_nil _)

/-- `RunIf`: as local as its inner sequence — a hypothesis on the user's sequence, which is arbitrary -/
theorem runIf_ctxLocal (select : Item → Bool) (inner : σ → List Item → Step σ Item)
    (hi : ∀ s v, OutLocal v (inner s [v]).out) : CtxLocal (runIfStep select inner) := by
  intro s v
  show OutLocal v (runIfStep select inner s v).out
  simp only [runIfStep, pass]
  split
  · exact hi s v
  · exact outLocal_self _

/-- consequently: for `Local` flows the interleaving law of `Write` holds under reference semantics too -/
theorem write_shared_interleave (cfg : WriteCfg) (p : List Bool) (A B : List Item) (fs : FS)
    (hpat : IsPattern p A B) (hB : ∀ b ∈ B, writeSel b = false) (hl : Local (merge p A B)) (hlA : Local A) :
    (loop (sharedStep (writeStep cfg)) (fs, []) (merge p A B)).blocks =
      mergeBlocks (loop (sharedStep (writeStep cfg)) (fs, []) A).err.isSome p
        (loop (sharedStep (writeStep cfg)) (fs, []) A).blocks B ∧
    (loop (sharedStep (writeStep cfg)) (fs, []) (merge p A B)).st.1 =
      (loop (sharedStep (writeStep cfg)) (fs, []) A).st.1 := by
  obtain ⟨h1, h2, _⟩ := shared_eq_loop_of_local (writeStep cfg) (write_ctxLocal cfg) (merge p A B) fs [] hl
    (fun _ _ => rfl)
  obtain ⟨a1, a2, a3⟩ := shared_eq_loop_of_local (writeStep cfg) (write_ctxLocal cfg) A fs [] hlA (fun _ _ => rfl)
  rw [h1, h2, a1, a2, a3]
  have := write_interleave cfg p A B fs hpat hB
  unfold writeRun at this
  rw [this]
  exact ⟨rfl, rfl⟩

/-! ## 4e. Adversary round: the selection by `output.filetype` is exact; reference semantics of an unselected value

Sentences of the property: "yield every value they do not select as the very same object" — for `RenderLaTeX`,
`LaTeXToPDF`, `PDFToPNG` *not selected* is: `context.output.filetype` is not the string `"csv"` / `"tex"` / `"pdf"`
(a dictionary or a list that contains the word, another spelling, the word at another place of the context do not
select: `…_passes_unless_filetype_is_…`); and "unchanged": under Python's reference semantics (`sharedStep`) an
unselected value changes the content of no context object (`shared_unselected_untouched`), whatever the flow values
share. -/

/-- the selection tests that compare `context.output.filetype` with a word are exact: selected iff the entry IS
that string -/
theorem filetype_sel_iff (v : Item) (w : String) :
    hasStrAt v.dict ["output", "filetype"] w = true ↔
      docGet (.dict v.dict) ["output", "filetype"] = some (.str w) := by
  unfold hasStrAt
  cases h : docGet (.dict v.dict) ["output", "filetype"] with
  | none => simp
  | some x => cases x <;> simp

theorem png_passes_unless_filetype_is_pdf (cfg : PngCfg) (fs : FS) (v : Item)
    (h : docGet (.dict v.dict) ["output", "filetype"] ≠ some (.str "pdf")) : pngStep cfg fs v = pass fs v := by
  apply png_passes_doc cfg fs v
  cases hs : pngDoc v
  · rfl
  · exact absurd ((filetype_sel_iff v "pdf").1 hs) h

theorem render_passes_unless_filetype_is_csv (cfg : RenderCfg) (hd : cfg.selectData = none) (s : σ) (v : Item)
    (h : docGet (.dict v.dict) ["output", "filetype"] ≠ some (.str "csv")) : renderStep cfg s v = pass s v := by
  apply render_passes_doc cfg hd s v
  cases hs : renderDoc v
  · rfl
  · exact absurd ((filetype_sel_iff v "csv").1 hs) h

theorem pdf_passes_unless_filetype_is_tex (ow : Bool) (sch : Sched) (st : PdfSt) (v : Item)
    (h : docGet (.dict v.dict) ["output", "filetype"] ≠ some (.str "tex")) :
    (pdfStep ow sch st v).out = (popReturned sch st.iter st.fs st.pool).2.1 ++ [.pass v] ∧
    (pdfStep ow sch st v).err = none := by
  apply pdf_unselected_step
  rw [pdfSel_eq_doc]
  cases hs : pdfDoc v
  · rfl
  · exact absurd ((filetype_sel_iff v "tex").1 hs) h

theorem Heap.get_set (h : Heap) (k t : Tok) (d : Dict) :
    (h.set k d).get t = if k = t then some d else h.get t := by
  induction h with
  | nil => simp [Heap.set, Heap.get]
  | cons p r ih =>
    obtain ⟨t', d'⟩ := p
    simp only [Heap.set]
    by_cases h1 : t' = k
    · subst h1
      simp only [if_true, Heap.get]
      by_cases h2 : t' = t <;> simp [h2]
    · simp only [h1, if_false, Heap.get, ih]
      by_cases h2 : t' = t
      · subst h2; simp; intro h3; exact absurd h3.symm h1
      · simp [h2]

/-- **Reference semantics: an unselected value leaves every context object as it is**: the step yields the value as
the program sees it, raises nothing, leaves the state (file system) alone, and every object of the heap keeps its
content — the only new entry the heap can get is the value's own context with the content it came with; the
value itself looks afterwards as it looked before.  (No locality hypothesis.) -/
theorem shared_unselected_untouched (f : σ → Item → Step σ Item) (sel : Item → Bool) (hp : Passes f sel)
    (s : σ) (h : Heap) (v : Item) (hv : sel (v.refresh h) = false) :
    (sharedStep f (s, h) v).out = [v.refresh h] ∧ (sharedStep f (s, h) v).err = none ∧
    (sharedStep f (s, h) v).st.1 = s ∧
    (∀ t, (sharedStep f (s, h) v).st.2.get t = h.get t ∨
      (h.get t = none ∧ ∃ c, v.ctx = some c ∧ c.tok = t ∧ (sharedStep f (s, h) v).st.2.get t = some c.d)) ∧
    (v.refresh (sharedStep f (s, h) v).st.2) = v.refresh h := by
  have hf := hp s (v.refresh h) hv
  obtain ⟨tok, data, ctx⟩ := v
  cases ctx with
  | none =>
    simp [sharedStep, Item.refresh, pass, Heap.record] at hf ⊢
    simp [hf]
  | some c =>
    obtain ⟨ct, cd⟩ := c
    cases hg : h.get ct with
    | none =>
      have hr : Item.refresh h ⟨tok, data, some ⟨ct, cd⟩⟩ = ⟨tok, data, some ⟨ct, cd⟩⟩ := by
        simp [Item.refresh, hg]
      rw [hr] at hf
      cases ct with
      | src n =>
        simp only [sharedStep, hr, hf, pass, Heap.record, List.foldl_cons, List.foldl_nil]
        refine ⟨trivial, trivial, trivial, ?_, ?_⟩
        · intro t
          rw [Heap.get_set]
          by_cases ht : Tok.src n = t
          · right; subst ht; simp [hg]
          · left; simp [ht]
        · simp [Item.refresh, Heap.get_set]
      | made p k =>
        simp only [sharedStep, hr, hf, pass, Heap.record, List.foldl_cons, List.foldl_nil]
        exact ⟨trivial, trivial, trivial, fun t => Or.inl trivial, trivial⟩
    | some d =>
      have hr : Item.refresh h ⟨tok, data, some ⟨ct, cd⟩⟩ = ⟨tok, data, some ⟨ct, d⟩⟩ := by
        simp [Item.refresh, hg]
      rw [hr] at hf
      cases ct with
      | src n =>
        simp only [sharedStep, hr, hf, pass, Heap.record, List.foldl_cons, List.foldl_nil]
        refine ⟨trivial, trivial, trivial, ?_, ?_⟩
        · intro t
          rw [Heap.get_set]
          by_cases ht : Tok.src n = t
          · left; subst ht; simp [hg]
          · left; simp [ht]
        · simp [Item.refresh, Heap.get_set]
      | made p k =>
        simp only [sharedStep, hr, hf, pass, Heap.record, List.foldl_cons, List.foldl_nil]
        exact ⟨trivial, trivial, trivial, fun t => Or.inl trivial, trivial⟩

/-! ## 4f. Seed round I/J: the bin `select_bins` is shown is the WHOLE bin with zero index on every axis

`IterateBins.run` / `MapBins.run` test `select_bins` on `get_example_bin(hist)`.  The loop bodies of section 2 abstract
that bin by `h.bin`.  Here the nested Python lists are modelled (`PyV`, `HistD.binsVal`, `getBinOnIndex`,
`exampleOfHist`), and the abstraction is proved: for every histogram with `dim` axes of at least one bin, whatever the
bins hold — also lists, empty lists, lists of histograms — the example bin is the bin itself, so a histogram whose
bins are containers is selected by the class of the container only and passes otherwise ("yield every value they do
not select as the very same object").  The descent `while isinstance(bins, list): bins = bins[0]` (what
`get_example_bin` does for a bare array of bins) agrees with it exactly when the bins are not lists. -/

/-- `kindOfPyV` reads back the kind of a bin from its value -/
theorem kindOfPyV_binVal (k : BinKind) : kindOfPyV (binVal k) = k := by
  cases k with
  | cont c f => cases c <;> cases f <;> rfl
  | _ => rfl

/-- `get_bin_on_index([0] * dim, bins)`: one subscript per axis — the bin at index 0…0, whole, for every content
`b` of the bins (all shapes with at least one bin per axis) -/
theorem getBinOnIndex_nestBins (b : PyV) (shape : List Nat) (h : ∀ n ∈ shape, 0 < n) :
    getBinOnIndex (List.replicate shape.length 0) (nestBins b shape) = .ok b := by
  induction shape with
  | nil => simp [nestBins, getBinOnIndex]
  | cons n ns ih =>
    have hn : 0 < n := h n (by simp)
    have hns : ∀ m ∈ ns, 0 < m := fun m hm => h m (by simp [hm])
    obtain ⟨k, rfl⟩ : ∃ k, n = k + 1 := ⟨n - 1, by omega⟩
    simp only [List.length_cons, List.replicate_succ, nestBins, getBinOnIndex, List.getElem?_cons_zero]
    exact ih hns

/-- `get_example_bin(hist)` is the bin of `hist`, whatever it holds (a list in a bin is returned whole) -/
theorem exampleOfHist_wellShaped (h : HistD) (hw : h.WellShaped) :
    exampleOfHist h.dim h.binsVal = .ok (binVal h.bin) := by
  obtain ⟨hl, hp⟩ := hw
  unfold exampleOfHist HistD.binsVal
  rw [← hl]
  exact getBinOnIndex_nestBins _ _ hp

/-- the loop body of `IterateBins.run` with the example bin computed on the nested lists IS the transcribed body
(which tests `select_bins` on `h.bin`) -/
theorem iterateBinsStepE_eq (sb : BinKind → Bool) (s : σ) (v : Item)
    (hw : ∀ h, v.data = .hist h → h.WellShaped) :
    iterateBinsStepE sb s v = iterateBinsStep sb s v := by
  unfold iterateBinsStepE
  cases hd : v.data with
  | hist h =>
    simp only [exampleOfHist_wellShaped h (hw h hd), kindOfPyV_binVal]
    unfold iterateBinsStep
    simp [hd]
  | _ => unfold iterateBinsStep; simp [hd]

/-- the same for `MapBins.run` -/
theorem mapBinsStepE_eq (sb : BinKind → Bool) (inner : Item → CellRes) (dc : Bool) (s : σ) (v : Item)
    (hw : ∀ h, v.data = .hist h → h.WellShaped) :
    mapBinsStepE sb inner dc s v = mapBinsStep sb inner dc s v := by
  unfold mapBinsStepE
  cases hd : v.data with
  | hist h =>
    simp only [exampleOfHist_wellShaped h (hw h hd), kindOfPyV_binVal]
    unfold mapBinsStep
    simp [hd]
  | _ => unfold mapBinsStep; simp [hd]

/-- `IterateBins`, example bin looked up on the nested lists: what `select_bins` rejects passes -/
theorem iterateBinsE_passes (sb : BinKind → Bool) (s : σ) (v : Item)
    (hw : ∀ h, v.data = .hist h → h.WellShaped) (hsel : iterateBinsSel sb v = false) :
    iterateBinsStepE sb s v = pass s v := by
  rw [iterateBinsStepE_eq sb s v hw]
  exact iterateBins_passes sb s v hsel

/-- `MapBins` likewise -/
theorem mapBinsE_passes (sb : BinKind → Bool) (inner : Item → CellRes) (dc : Bool) (s : σ) (v : Item)
    (hw : ∀ h, v.data = .hist h → h.WellShaped) (hsel : mapBinsSel sb v = false) :
    mapBinsStepE sb inner dc s v = pass s v := by
  rw [mapBinsStepE_eq sb inner dc s v hw]
  exact mapBins_passes sb inner dc s v hsel

/-- **container bins**: a histogram whose bins are containers of a class `select_bins` rejects passes `IterateBins`
as it is — whatever stands in the containers (`f`: nothing, a histogram, a pair, a list …), for every shape -/
theorem iterateBins_container_bins_pass (sb : BinKind → Bool) (s : σ) (v : Item) (h : HistD) (c : ContCls)
    (hd : v.data = .hist h) (hw : h.WellShaped) (hc : ∀ f, sb (.cont c f) = false) (f : ContFirst)
    (hb : h.bin = .cont c f) :
    iterateBinsStepE sb s v = pass s v := by
  apply iterateBinsE_passes
  · intro h' hh; rw [hd] at hh; cases hh; exact hw
  · simp [iterateBinsSel, hd, hb, hc f]

/-- the same for `MapBins` -/
theorem mapBins_container_bins_pass (sb : BinKind → Bool) (inner : Item → CellRes) (dc : Bool) (s : σ) (v : Item)
    (h : HistD) (c : ContCls) (hd : v.data = .hist h) (hw : h.WellShaped) (hc : ∀ f, sb (.cont c f) = false)
    (f : ContFirst) (hb : h.bin = .cont c f) :
    mapBinsStepE sb inner dc s v = pass s v := by
  apply mapBinsE_passes
  · intro h' hh; rw [hd] at hh; cases hh; exact hw
  · simp [mapBinsSel, hd, hb, hc f]

/-- the descent `while isinstance(bins, list): bins = bins[0]` does not stop at the bin: it goes on INTO the bin -/
theorem exampleOfArray_nestBins (b : PyV) (shape : List Nat) (h : ∀ n ∈ shape, 0 < n) :
    exampleOfArray (nestBins b shape) = exampleOfArray b := by
  induction shape with
  | nil => rfl
  | cons n ns ih =>
    have hn : 0 < n := h n (by simp)
    have hns : ∀ m ∈ ns, 0 < m := fun m hm => h m (by simp [hm])
    obtain ⟨k, rfl⟩ : ∃ k, n = k + 1 := ⟨n - 1, by omega⟩
    simp only [nestBins, List.replicate_succ, exampleOfArray]
    exact ih hns

/-- … so the two ways of `get_example_bin` agree on histograms whose bins are not lists (numbers, histograms, tuples,
pairs, dictionaries): that is why no test with such bins tells them apart -/
theorem exampleOfArray_eq_exampleOfHist_of_not_list (h : HistD) (hw : h.WellShaped)
    (hb : ∀ f, h.bin ≠ .cont .list f) :
    exampleOfArray h.binsVal = exampleOfHist h.dim h.binsVal := by
  rw [exampleOfHist_wellShaped h hw, HistD.binsVal, exampleOfArray_nestBins _ _ hw.2]
  cases hk : h.bin with
  | cont c f =>
    cases c with
    | list => exact absurd hk (hb f)
    | _ => rfl
  | _ => rfl

/-- … and differ on lists: with an empty list in bin 0 the descent raises `IndexError` on an unselected value, with
a list that starts with a histogram it takes the histogram of lists for a histogram of histograms -/
theorem arrayDescent_differs (sb : BinKind → Bool) (s : σ) (v : Item) (h : HistD) (hd : v.data = .hist h)
    (hw : h.WellShaped) :
    (h.bin = .cont .list .empty → iterateBinsStepArr sb s v = ⟨[], s, some .indexError⟩) ∧
    (h.bin = .cont .list .hist → iterateBinsStepArr sb s v = iterateBinsStep (fun _ => sb .hist) s v) := by
  unfold iterateBinsStepArr
  simp only [hd, HistD.binsVal, exampleOfArray_nestBins _ _ hw.2]
  constructor <;> intro hb <;> simp [hb, binVal, contItems, exampleOfArray, kindOfPyV]

/-! ## 5. Non-vacuity: concrete instances of the hypotheses and of the runs -/

section examples

/-- a bare number -/
def exInt : Item := ⟨.src 0, .int 7, none⟩
/-- a one-dimensional histogram of numbers with context -/
def exHist : Item := ⟨.src 2, .hist ⟨1, 1, [2], .num⟩, some ⟨.src 3, [("n", .int 1)]⟩⟩
/-- a histogram whose bins are vectors: `ToCSV` raises `LenaTypeError` on it -/
def exBad : Item := ⟨.src 4, .hist ⟨2, 1, [2], .vec⟩, none⟩
/-- a histogram whose context disables the conversion -/
def exOff : Item := ⟨.src 6, .hist ⟨3, 1, [2], .num⟩, some ⟨.src 7, [("output", .dict [("to_csv", .bool false)])]⟩⟩

-- the hypotheses of `interleave_law` / `toCSV_interleave` hold for a non-trivial interleaving
example : IsPattern [true, false, true, false] [exHist, exBad] [exInt, exOff] := ⟨rfl, rfl⟩
example : merge [true, false, true, false] [exHist, exBad] [exInt, exOff] = [exHist, exInt, exBad, exOff] := rfl
example : ∀ b ∈ [exInt, exOff], toCSVSel b = false := by decide
example : toCSVSel exHist = true ∧ toCSVSel exBad = true := by decide
-- the run: `exHist` is converted (one new value), `exInt` passes, `exBad` raises; `exOff` is never consumed
example : (toCSVRun ⟨true, false⟩ () [exHist, exInt, exBad, exOff]).err = some .lenaTypeError := by decide
example : (toCSVRun ⟨true, false⟩ () [exHist, exInt, exBad, exOff]).blocks.map (fun b => b.map (·.tok)) =
    [[.made (.src 2) 0], [.src 0], []] := by decide
example : (toCSVRun ⟨true, false⟩ () [exInt, exHist, exOff]).blocks.map (fun b => b.map (·.tok)) =
    [[.src 0], [.made (.src 2) 0], [.src 6]] := by decide
-- `mergeBlocks` stops after the failing block
example : mergeBlocks true [true, false, true, false] [[1], ([] : List Nat)] [8, 9] = [[1], [8], []] := by decide
example : mergeBlocks false [true, false, true, false] [[1], [2, 3]] [8, 9] = [[1], [8], [2, 3], [9]] := by decide
example : pick true [true, false, true, false] [[1], [8], [2, 3], [9]] = [[1], [2, 3]] := by decide
example : pick false [true, false, true, false] [[1], [8], [2, 3], [9]] = [[8], [9]] := by decide

/-- `Write`: a string with context, an empty file system with the output directory -/
def exCfg : WriteCfg := ⟨"out", "output", false, false⟩
def exFS : FS := ⟨[], ["out"], 5⟩
def exStr : Item := ⟨.src 10, .str "text", some ⟨.src 1, [("output", .dict [("filename", .str "f")])]⟩⟩
def exNoWrite : Item := ⟨.src 2, .str "text", some ⟨.src 3, [("output", .dict [("write", .bool false)])]⟩⟩
def exWritten : Item := ⟨.src 4, .str "out/f.txt", some ⟨.src 5, [("output", .dict [("filename", .str "f")])]⟩⟩

example : writeSel exStr = true ∧ writeSel exNoWrite = false ∧ writeSel exInt = false := by decide
-- the selected string is written (one file, the path is yielded in a new tuple with the same context object)
example : (writeRun exCfg exFS [exNoWrite, exStr, exInt]).st.files.map (fun f => (f.path, f.content)) =
    [("out/f.txt", .lit "text")] := by decide +kernel
example : (writeRun exCfg exFS [exNoWrite, exStr, exInt]).blocks.map (fun b => b.map (·.tok)) =
    [[.src 2], [.made (.src 10) 0], [.src 0]] := by decide +kernel
-- the hypotheses of `write_already_written` are satisfiable
example : isWritable exWritten.data [("output", .dict [("filename", .str "f")])] = true ∧
    (makeFilename exCfg [("filename", .str "f")]).toOption.map (fun r => (r.1, r.2.2)) = some ("f", "out/f.txt") ∧
    exWritten.data.eqStr "out/f.txt" = true := by decide +kernel

-- … and those of `write_already_written_adds_output`: the default path, a context without `output`
def exWritten2 : Item := ⟨.src 6, .str "out/output.txt", some ⟨.src 7, [("n", .int 1)]⟩⟩
example : isWritable exWritten2.data [("n", .int 1)] = true ∧
    (makeFilename exCfg []).toOption.map (fun r => (r.1, r.2.2)) = some ("output", "out/output.txt") ∧
    exWritten2.data.eqStr "out/output.txt" = true := by decide +kernel
example : ((writeStep exCfg exFS exWritten2).out.map (fun y => (y.tok, y.dict.map (·.1)))) =
    [(.src 6, ["n", "output"])] := by decide +kernel

/-- `LaTeXToPDF`: a tex file whose process ends while the next, unselected, value is processed -/
def exTex : Item := ⟨.src 0, .str "a.tex", some ⟨.src 1, [("output", .dict [("filetype", .str "tex")])]⟩⟩
def exSched : Sched := ⟨fun _ => 1, fun _ => 0⟩

example : pdfSel exTex = true ∧ pdfSel exInt = false := by decide
example : (pdfRun false exSched ⟨[], [], 5⟩ [exTex, exInt]).blocks.map (fun b => b.map (fun e => (e.isPass, e.item.tok))) =
    [[], [(false, .made (.src 0) 0), (true, .src 0)]] := by decide
example : (passedOf (pdfRun false exSched ⟨[], [], 5⟩ [exTex, exInt]).out).map (·.tok) = [exInt.tok] := by
  decide +kernel

-- the hypothesis `KeysOK []` of `pdf_selected_multiset` holds for two tex files with different names
def exTex2 : Item := ⟨.src 4, .str "b.tex", some ⟨.src 5, [("output", .dict [("filetype", .str "tex")])]⟩⟩
example : KeysOK [] [exTex, exInt, exTex2] := by
  constructor
  · decide +kernel
  · decide +kernel
example : (pdfRun false exSched ⟨[], [], 5⟩ [exTex, exInt, exTex2]).err = none := by decide +kernel
example : ((prodsOf (pdfRun false exSched ⟨[], [], 5⟩ [exTex, exInt, exTex2]).out).map (·.data.eqStr "a.pdf")) =
    [true, false] := by decide +kernel

-- the locality hypothesis is needed: an unselected value that shares its context object with a selected string
-- comes out of `Write` with a changed context (reference semantics), although it passes as the same object
def exSharedA : Item := ⟨.src 0, .str "text", some ⟨.src 1, [("n", .int 1)]⟩⟩
def exSharedB : Item := ⟨.src 2, .int 7, some ⟨.src 1, [("n", .int 1)]⟩⟩
example : localB [exSharedA, exSharedB] = false := by decide
example : writeSel exSharedB = false := by decide
example : (finalView (loop (sharedStep (writeStep exCfg)) (exFS, []) [exSharedB, exSharedA]).st.2
      (loop (sharedStep (writeStep exCfg)) (exFS, []) [exSharedB, exSharedA]).blocks).map
        (fun b => b.map (fun y => (y.tok, y.dict.map (·.1)))) =
    [[(.src 2, ["n", "output"])], [(.made (.src 0) 0, ["n", "output"])]] := by decide +kernel
-- … while with a context object of its own it is untouched (`Local`)
def exOwnB : Item := ⟨.src 2, .int 7, some ⟨.src 3, [("n", .int 1)]⟩⟩
example : localB [exOwnB, exSharedA] = true := by decide
example : (finalView (loop (sharedStep (writeStep exCfg)) (exFS, []) [exOwnB, exSharedA]).st.2
      (loop (sharedStep (writeStep exCfg)) (exFS, []) [exOwnB, exSharedA]).blocks).map
        (fun b => b.map (fun y => (y.tok, y.dict.map (·.1)))) =
    [[(.src 2, ["n"])], [(.made (.src 0) 0, ["n", "output"])]] := by decide +kernel
-- the same selected object twice: the second time `Write` finds the file name the first time left in the context
example : ((loop (sharedStep (writeStep exCfg)) (exFS, []) [exSharedA, exSharedA]).blocks.map
      (fun b => b.map (fun y => (lookup y.dict "output").isSome))) = [[true], [true]] ∧
    ((loop (writeStep exCfg) exFS [exSharedA, exSharedA]).st.files.length = 1) := by decide +kernel

-- `GroupPlots`: two groups by parity, the string passes; the groups come after the flow
def exGP : GPCfg := ⟨fun v => match v.data with | .int _ => true | _ => false,
  fun v => match v.data with | .int i => .ok (if i % 2 == 0 then "even" else "odd") | _ => .error .typeError, false⟩
def exI (n : Nat) (i : Int) : Item := ⟨.src n, .int i, none⟩
example : (groupPlotsRun exGP [] [exI 0 1, exStr, exI 2 2, exI 4 3]).blocks.map (fun b => b.map (·.tok)) =
    [[], [.src 10], [], []] := by decide +kernel
example : (groupPlotsRun exGP [] [exI 0 1, exStr, exI 2 2, exI 4 3]).tail.map
    (fun y => match y.data with | .seq _ l => l.length | _ => 0) = [2, 1] := by decide +kernel

-- the full statement about failing runs is false: the same selected values, one flow with a number in front;
-- the process of `exTex` ends at iteration 2 — reached before `exErr` raises only in the longer flow
def exErr : Item := ⟨.src 8, .int 5, some ⟨.src 9, [("output", .dict [("filetype", .str "tex")])]⟩⟩
theorem pdf_failing_run_independent_full_false : ¬ pdf_failing_run_independent_full := by
  intro h
  have hk : KeysOK [] [exInt, exTex, exErr] := by
    constructor
    · decide +kernel
    · decide +kernel
  have := (h false ⟨fun _ => 2, fun _ => 0⟩ ⟨fun _ => 2, fun _ => 0⟩ ⟨[], [], 5⟩ [exInt, exTex, exErr] [exTex, exErr]
    (by rfl) rfl hk).length_eq
  revert this
  decide +kernel
-- … although the exception itself is the same (`pdf_err_independent`)
example : (pdfRun false ⟨fun _ => 2, fun _ => 0⟩ ⟨[], [], 5⟩ [exInt, exTex, exErr]).err = some .attributeError ∧
    (pdfRun false ⟨fun _ => 2, fun _ => 0⟩ ⟨[], [], 5⟩ [exTex, exErr]).err = some .attributeError := by
  decide +kernel
-- a used object: the run above leaves nothing / the shorter one leaves its process in the pool
example : (pdfRunFrom false ⟨fun _ => 2, fun _ => 0⟩ ⟨⟨[], [], 5⟩, [], 0, 0⟩ [exTex, exErr]).2.pool.length = 1 := by
  decide +kernel
-- hypotheses of `pdf_selected_independent`: two different interleavings, two schedules with the same return codes
example : [exTex, exInt, exTex2].filter pdfSel = [exInt, exTex, exInt, exTex2, exInt].filter pdfSel := by rfl
example : (pdfRun false exSched ⟨[], [], 5⟩ [exTex, exInt, exTex2]).err = none := by decide +kernel
-- the extension rule (commit 7f5ee11): only the extension is replaced
example : pdfName "a.tex.d/t1.tex" = "a.tex.d/t1.pdf" ∧ pdfName "x.tex.bak" = "x.pdf.bak" := by decide +kernel

-- `pipeline_interleave` / `pipeAll_passes`: a concrete pipeline ToCSV → Write with its hypotheses
def exPipe : List ((FS → Item → Step FS Item) × (Item → Bool)) :=
  [(toCSVStep ⟨true, false⟩, toCSVDoc), (writeStep exCfg, writeDoc)]
example : ∀ q ∈ exPipe, Passes q.1 q.2 := by
  intro q hq
  simp only [exPipe, List.mem_cons, List.mem_singleton, List.not_mem_nil, or_false] at hq
  rcases hq with rfl | rfl
  · exact toCSV_passes_doc _
  · exact write_passes_doc _
example : ∀ b ∈ [exInt, exOff], ∀ q ∈ exPipe, q.2 b = false := by decide
example : (pipeRun (exPipe.map (·.1)) exFS [exInt, exHist, exOff]).blocks.map (fun b => b.map (·.tok)) =
    [[.src 0], [.made (.made (.src 2) 0) 0], [.src 6]] := by decide +kernel
example : (pipeRun (exPipe.map (·.1)) exFS [exInt, exHist, exOff]).st.files.map (·.path) = ["out/output.csv"] := by
  decide +kernel
-- `insert_invisible_after`: what ToCSV yields for `exHist` carries filetype csv, which PDFToPNG does not select
example : ∀ y ∈ (toCSVStep (σ := FS) ⟨true, false⟩ exFS exHist).out, pngSel y = false := by decide
-- `runIf_interleave` with a stateful inner sequence (a counter kept between calls), `mapGroup_interleave`,
-- `mapBins_interleave`: selected and unselected values for them
def exIsInt (v : Item) : Bool := match v.data with | .int _ => true | _ => false
example : exIsInt exInt = true ∧ exIsInt exStr = false := by decide
example : (runIfRun exIsInt (innerApply .count) (⟨exFS, 0⟩ : World) [exI 0 5, exStr, exI 2 6]).blocks.map
    (fun b => b.map (fun y => match y.data with | .seq _ (.int n :: _) => n | _ => -1)) = [[0], [-1], [1]] := by
  decide +kernel
def exGroup : Item := ⟨.src 0, .seq false [.int 1, .int 2], some ⟨.src 1, [("group", .list [.dict [], .dict []])]⟩⟩
example : mapGroupSel exGroup = true ∧ mapGroupSel exInt = false ∧ mapGroupSel exStr = false := by decide
example : (mapGroupRun (innerApply .dup) (⟨exFS, 0⟩ : World) [exStr, exGroup]).blocks.map (·.length) = [1, 2] := by
  decide +kernel
example : mapBinsSel (fun k => k == .vec) exBad = true ∧ mapBinsSel (fun k => k == .vec) exHist = false := by decide
example : (mapBinsRun (fun k => k == .vec) (cellInnerApply .dup) true () [exHist, exBad]).blocks.map
    (fun b => b.map (·.tok)) = [[.src 2], [.made (.src 4) 0, .made (.src 4) 2]] := by decide +kernel
-- `write_shared_interleave`: `Local (merge p A B)` and `Local A` hold for values with contexts of their own
example : Local (merge [false, true] [exSharedA] [exOwnB]) ∧ Local [exSharedA] :=
  ⟨local_of_localB _ (by decide), local_of_localB _ (by decide)⟩

/-- a dictionary with the key `pdf` under `output.filetype` -/
def exNearMiss : Item :=
  ⟨.src 0, .str "p1.pdf", some ⟨.src 1, [("output", .dict [("filetype", .dict [("pdf", .bool true), ("png", .bool true)])])]⟩⟩
example : pngStep ⟨"png", false⟩ exFS exNearMiss = pass exFS exNearMiss :=
  png_passes_unless_filetype_is_pdf _ _ _ (by simp [exNearMiss, Item.dict, docGet, lookup])
example : pdfDoc exNearMiss = false ∧ renderDoc exNearMiss = false ∧ pngDoc exNearMiss = false := by
  simp [pdfDoc, renderDoc, pngDoc, hasStrAt, exNearMiss, Item.dict, docGet, lookup]
-- `shared_unselected_untouched`: a value `Write` does not select, met with an empty heap and with a heap that
-- holds another content for its context object
example : writeSel (exNoWrite.refresh []) = false := by decide
example : exNoWrite.refresh (sharedStep (writeStep exCfg) (exFS, []) exNoWrite).st.2 = exNoWrite.refresh [] :=
  (shared_unselected_untouched (writeStep exCfg) writeSel (write_passes exCfg) exFS [] exNoWrite (by decide)).2.2.2.2
-- a bare generator is not a group (`mapGroup_passes`); a histogram of `(data, context)` bins whose context forbids
-- the conversion is not selected by `HistToGraph` (`histToGraph_passes_doc`)
def exGen : Item := ⟨.src 0, .other "generator" 0 true, none⟩
def exGenCtx : Item := ⟨.src 2, .other "generator" 0 true, some ⟨.src 3, [("foo", .int 1)]⟩⟩
example : mapGroupSel exGen = false ∧ mapGroupSel exGenCtx = false := by decide
def exPairBinsOff : Item :=
  ⟨.src 0, .hist ⟨1, 1, [2], .pair⟩, some ⟨.src 1, [("histogram", .dict [("to_graph", .bool false)])]⟩⟩
example : histToGraphDoc exPairBinsOff = false := by decide
example : histToGraphStep ⟨.default, 2, false⟩ () exPairBinsOff = pass () exPairBinsOff :=
  histToGraph_passes_doc _ () _ (by decide)

/-! seed round I/J: histograms whose bins hold containers -/

/-- what `SplitIntoBins(StoreFilled(), …)` makes: a list per bin, the first one empty (2 x 1 bins) -/
def exStored : Item := ⟨.src 20, .hist ⟨7, 2, [2, 1], .cont .list .empty⟩, some ⟨.src 21, [("variable", .dict [("name", .str "x")])]⟩⟩
/-- a list of histograms in every bin -/
def exListOfHists : Item := ⟨.src 22, .hist ⟨8, 1, [2], .cont .list .hist⟩, none⟩
/-- the default `select_bins` of `IterateBins`: histograms -/
def sbHist : BinKind → Bool := fun k => k.cls == "histogram"

example : (⟨7, 2, [2, 1], .cont .list .empty⟩ : HistD).WellShaped := by
  refine ⟨rfl, ?_⟩
  intro n hn
  simp at hn
  omega
-- the example bin of the histogram is the (empty) list itself; the descent into the array of bins falls through it
example : (match exampleOfHist 2 (HistD.binsVal ⟨7, 2, [2, 1], .cont .list .empty⟩) with
    | .ok (.list []) => true | _ => false) = true := by decide
example : (match exampleOfArray (HistD.binsVal ⟨7, 2, [2, 1], .cont .list .empty⟩) with
    | .indexError => true | _ => false) = true := by decide
example : (match exampleOfArray (HistD.binsVal ⟨8, 1, [2], .cont .list .hist⟩) with
    | .ok (.atom .hist) => true | _ => false) = true := by decide
-- hypotheses of `iterateBins_container_bins_pass`: a list is not a histogram, whatever it holds
example : ∀ f, sbHist (.cont .list f) = false := by intro f; rfl
-- both pass `IterateBins()` as they are, in order, next to a histogram of histograms that is iterated
example : ((loop (iterateBinsStepE sbHist) () [exStored, exListOfHists]).blocks.map (·.map (·.tok)),
    (loop (iterateBinsStepE sbHist) () [exStored, exListOfHists]).err)
    = ([[.src 20], [.src 22]], none) := by decide
-- the body with the array descent (NOT the code) raises on the first and takes the second apart
example : (iterateBinsStepArr sbHist () exStored).err = some .indexError := by decide
example : ((iterateBinsStepArr sbHist () exListOfHists).out.map (·.tok)) = [.made (.src 22) 0, .made (.src 22) 2] := by decide
-- `MapBins(seq, select_bins=[tuple])` passes a histogram of lists
example : (mapBinsStepE (fun k => k.cls == "tuple") (cellInnerApply .dup) true () exListOfHists).out.map (·.tok)
    = [.src 22] := by decide

end examples

end Lena.C10
