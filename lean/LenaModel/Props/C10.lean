import LenaModel.Model.C10
/-! # C10 — selective elements pass the values they do not select through unchanged

Property (properties.jsonl, C10): elements that act only on particular kinds of values yield every value they
do not select as the very same object, in unchanged relative order, and without touching the file system;
what they produce for the selected values does not depend on which unselected values are interleaved with
them.

Structure of this file
1. the generic law for loops `for val in flow: <body>` whose body passes unselected values (`Passes`):
   `interleave_law` (= `run(interleave(A,B)) = interleave(run(A),B)`, blocks, final state and exception),
   and its corollaries `selected_independent`, `unselected_same_objects_in_order`,
   `state_untouched_by_unselected`, `every_flow_is_an_interleaving`, `run_determined_by_selected`;
2. one instance lemma per element: the transcribed loop body passes the values the element's selection
   predicate rejects (`toCSV_passes`, `write_passes`, …), and the law instantiated for each `…Run`;
3. element-specific facts: which elements never touch the state, `Write`'s "already written" branch;
4. `LaTeXToPDF`, whose process pool yields finished results also while unselected values pass.
All theorems are for flows, interleavings, element settings and inner sequences of any size. -/

namespace Lena.C10

variable {σ α : Type}

/-! ## 1. The generic law -/

/-- the loop body yields a value it does not select as it is, and does nothing else -/
def Passes (f : σ → α → Step σ α) (sel : α → Bool) : Prop :=
  ∀ s v, sel v = false → f s v = pass s v

theorem loop_nil (f : σ → α → Step σ α) (s : σ) : loop f s [] = ⟨[], s, none⟩ := rfl

theorem loop_cons_ok (f : σ → α → Step σ α) (s s' : σ) (v : α) (vs out : List α)
    (h : f s v = ⟨out, s', none⟩) :
    loop f s (v :: vs) = ⟨out :: (loop f s' vs).blocks, (loop f s' vs).st, (loop f s' vs).err⟩ := by
  simp [loop, h]

theorem loop_cons_err (f : σ → α → Step σ α) (s s' : σ) (v : α) (vs out : List α) (e : Exc)
    (h : f s v = ⟨out, s', some e⟩) :
    loop f s (v :: vs) = ⟨[out], s', some e⟩ := by
  simp [loop, h]

/-- one unselected value at the head of the flow: it is yielded, alone, and the run goes on from the
same state as if it had not been there -/
theorem loop_cons_unselected (f : σ → α → Step σ α) (sel : α → Bool) (hp : Passes f sel) (s : σ) (v : α)
    (vs : List α) (hv : sel v = false) :
    loop f s (v :: vs) = ⟨[v] :: (loop f s vs).blocks, (loop f s vs).st, (loop f s vs).err⟩ :=
  loop_cons_ok f s s v vs [v] (hp s v hv)

theorem loop_blocks_length_le (f : σ → α → Step σ α) : ∀ (xs : List α) (s : σ),
    (loop f s xs).blocks.length ≤ xs.length
  | [], s => by simp [loop]
  | v :: vs, s => by
    rcases h : f s v with ⟨out, s', _ | e⟩
    · rw [loop_cons_ok f s s' v vs out h]; simpa using loop_blocks_length_le f vs s'
    · rw [loop_cons_err f s s' v vs out e h]; simp

theorem loop_blocks_length_of_ok (f : σ → α → Step σ α) : ∀ (xs : List α) (s : σ),
    (loop f s xs).err = none → (loop f s xs).blocks.length = xs.length
  | [], s, _ => by simp [loop]
  | v :: vs, s, he => by
    rcases h : f s v with ⟨out, s', _ | e⟩
    · rw [loop_cons_ok f s s' v vs out h] at he ⊢
      simpa using loop_blocks_length_of_ok f vs s' he
    · rw [loop_cons_err f s s' v vs out e h] at he; simp at he

theorem loop_blocks_ne_nil_of_err (f : σ → α → Step σ α) : ∀ (xs : List α) (s : σ),
    (loop f s xs).err.isSome = true → (loop f s xs).blocks ≠ []
  | [], s, he => by simp [loop] at he
  | v :: vs, s, _ => by
    rcases h : f s v with ⟨out, s', _ | e⟩
    · rw [loop_cons_ok f s s' v vs out h]; simp
    · rw [loop_cons_err f s s' v vs out e h]; simp

/-- **The interleaving law** (`run(interleave(A, B)) = interleave(run(A), B)`).
For every pattern `p` interleaving a list `A` with a list `B` of values the element does not select: the
blocks of the run on the interleaved flow are the blocks of the run on `A` alone with every `b ∈ B`
standing, by itself and as the very same value, where the pattern puts it; the final state (file system)
and the exception are those of the run on `A` alone. -/
theorem interleave_law (f : σ → α → Step σ α) (sel : α → Bool) (hp : Passes f sel) :
    ∀ (p : List Bool) (A B : List α) (s : σ), IsPattern p A B → (∀ b ∈ B, sel b = false) →
      loop f s (merge p A B) =
        ⟨mergeBlocks (loop f s A).err.isSome p (loop f s A).blocks B, (loop f s A).st, (loop f s A).err⟩
  | [], A, B, s, hpat, _ => by
    obtain ⟨h1, h2⟩ := hpat
    have hA : A = [] := by simpa using h1.symm
    have hB : B = [] := by simpa using h2.symm
    subst hA hB
    simp [merge, loop, mergeBlocks]
  | true :: p, [], B, s, hpat, _ => by
    obtain ⟨h1, _⟩ := hpat
    simp at h1
  | true :: p, a :: as, B, s, hpat, hB => by
    have hpat' : IsPattern p as B := by
      obtain ⟨h1, h2⟩ := hpat
      constructor
      · simpa using h1
      · simpa using h2
    have ih := fun s' => interleave_law f sel hp p as B s' hpat' hB
    rcases h : f s a with ⟨out, s', _ | e⟩
    · have hne := loop_blocks_ne_nil_of_err f as s'
      rw [show merge (true :: p) (a :: as) B = a :: merge p as B from rfl,
        loop_cons_ok f s s' a _ out h, loop_cons_ok f s s' a as out h, ih s']
      cases he : (loop f s' as).err with
      | none => simp [mergeBlocks]
      | some e =>
        have := hne (by simp [he])
        simp [mergeBlocks, this]
    · rw [show merge (true :: p) (a :: as) B = a :: merge p as B from rfl,
        loop_cons_err f s s' a _ out e h, loop_cons_err f s s' a as out e h]
      simp [mergeBlocks]
  | false :: p, A, [], s, hpat, _ => by
    obtain ⟨_, h2⟩ := hpat
    simp at h2
  | false :: p, A, b :: bs, s, hpat, hB => by
    have hpat' : IsPattern p A bs := by
      obtain ⟨h1, h2⟩ := hpat
      constructor
      · simpa using h1
      · simpa using h2
    have hb : sel b = false := hB b (by simp)
    have ih := interleave_law f sel hp p A bs s hpat' (fun x hx => hB x (by simp [hx]))
    have hm : merge (false :: p) A (b :: bs) = b :: merge p A bs := by
      cases A <;> rfl
    rw [hm, loop_cons_unselected f sel hp s b _ hb, ih]
    cases A <;> simp [mergeBlocks]

/-- flat form: the output stream of the interleaved run -/
theorem interleave_out (f : σ → α → Step σ α) (sel : α → Bool) (hp : Passes f sel) (p : List Bool)
    (A B : List α) (s : σ) (hpat : IsPattern p A B) (hB : ∀ b ∈ B, sel b = false) :
    (loop f s (merge p A B)).out =
      (mergeBlocks (loop f s A).err.isSome p (loop f s A).blocks B).flatten := by
  rw [interleave_law f sel hp p A B s hpat hB]; rfl

/-! ### reading the law: what stands at the positions of `A`, what at the positions of `B` -/

theorem pick_true_mergeBlocks : ∀ (p : List Bool) (blocks : List (List α)) (B : List α) (failed : Bool),
    p.count false ≤ B.length →
    (failed = true → blocks ≠ [] ∧ blocks.length ≤ p.count true) →
    (failed = false → blocks.length = p.count true) →
    pick true p (mergeBlocks failed p blocks B) = blocks
  | [], blocks, B, failed, _, h1, h2 => by
    cases failed
    · have := h2 rfl
      simp at this
      simp [this, mergeBlocks, pick]
    · have := (h1 rfl).2
      simp at this
      exact absurd this (h1 rfl).1
  | true :: p, [], B, failed, _, h1, h2 => by
    cases failed
    · have := h2 rfl
      simp at this
    · exact absurd rfl (h1 rfl).1
  | true :: p, blk :: as, B, failed, hB, h1, h2 => by
    by_cases hstop : (failed && as.isEmpty) = true
    · simp only [Bool.and_eq_true, List.isEmpty_iff] at hstop
      obtain ⟨_, has⟩ := hstop
      subst has
      simp [mergeBlocks, pick, *]
    · have ih := pick_true_mergeBlocks p as B failed (by simpa using hB)
        (fun hf => by
          have := h1 hf
          constructor
          · intro has; subst has; simp [hf] at hstop
          · simpa using this.2)
        (fun hf => by simpa using h2 hf)
      simp only [Bool.not_eq_true] at hstop
      simp [mergeBlocks, hstop, pick, ih]
  | false :: p, blocks, [], failed, hB, _, _ => by simp at hB
  | false :: p, blocks, b :: bs, failed, hB, h1, h2 => by
    have ih := pick_true_mergeBlocks p blocks bs failed (by simpa using hB)
      (fun hf => by simpa using h1 hf) (fun hf => by simpa using h2 hf)
    have : mergeBlocks failed (false :: p) blocks (b :: bs) = [b] :: mergeBlocks failed p blocks bs := by
      cases blocks <;> rfl
    simp [this, pick, ih]

theorem pick_false_mergeBlocks_of_ok : ∀ (p : List Bool) (blocks : List (List α)) (B : List α),
    p.count false = B.length → blocks.length = p.count true →
    pick false p (mergeBlocks false p blocks B) = B.map (fun b => [b])
  | [], blocks, B, hB, _ => by
    have : B = [] := by simpa using hB.symm
    simp [this, mergeBlocks, pick]
  | true :: p, [], B, _, h => by simp at h
  | true :: p, blk :: as, B, hB, h => by
    have ih := pick_false_mergeBlocks_of_ok p as B (by simpa using hB) (by simpa using h)
    simp [mergeBlocks, pick, ih]
  | false :: p, blocks, [], hB, _ => by simp at hB
  | false :: p, blocks, b :: bs, hB, h => by
    have ih := pick_false_mergeBlocks_of_ok p blocks bs (by simpa using hB) (by simpa using h)
    have : mergeBlocks false (false :: p) blocks (b :: bs) = [b] :: mergeBlocks false p blocks bs := by
      cases blocks <;> rfl
    simp [this, pick, ih]

theorem pick_false_mergeBlocks_prefix : ∀ (p : List Bool) (blocks : List (List α)) (B : List α) (failed : Bool),
    ∃ k, pick false p (mergeBlocks failed p blocks B) = (B.take k).map (fun b => [b])
  | [], blocks, B, failed => ⟨0, by simp [mergeBlocks, pick]⟩
  | true :: p, [], B, failed => ⟨0, by simp [mergeBlocks, pick]⟩
  | true :: p, blk :: as, B, failed => by
    by_cases hstop : (failed && as.isEmpty) = true
    · exact ⟨0, by simp [mergeBlocks, hstop, pick]⟩
    · obtain ⟨k, hk⟩ := pick_false_mergeBlocks_prefix p as B failed
      simp only [Bool.not_eq_true] at hstop
      exact ⟨k, by simp [mergeBlocks, hstop, pick, hk]⟩
  | false :: p, blocks, [], failed => ⟨0, by cases blocks <;> simp [mergeBlocks, pick]⟩
  | false :: p, blocks, b :: bs, failed => by
    obtain ⟨k, hk⟩ := pick_false_mergeBlocks_prefix p blocks bs failed
    have : mergeBlocks failed (false :: p) blocks (b :: bs) = [b] :: mergeBlocks failed p blocks bs := by
      cases blocks <;> rfl
    exact ⟨k + 1, by simp [this, pick, hk]⟩

/-- **What is produced for the selected values does not depend on the interleaved unselected ones.**
The blocks standing at the positions of `A` in the run on `merge p A B` are exactly the blocks of the run on
`A` alone — whatever `B` and `p` are — and so are the final state and the exception. -/
theorem selected_independent (f : σ → α → Step σ α) (sel : α → Bool) (hp : Passes f sel) (p : List Bool)
    (A B : List α) (s : σ) (hpat : IsPattern p A B) (hB : ∀ b ∈ B, sel b = false) :
    pick true p (loop f s (merge p A B)).blocks = (loop f s A).blocks ∧
    (loop f s (merge p A B)).st = (loop f s A).st ∧
    (loop f s (merge p A B)).err = (loop f s A).err := by
  rw [interleave_law f sel hp p A B s hpat hB]
  refine ⟨?_, rfl, rfl⟩
  apply pick_true_mergeBlocks
  · exact Nat.le_of_eq hpat.2
  · intro hf
    refine ⟨loop_blocks_ne_nil_of_err f A s hf, ?_⟩
    rw [hpat.1]; exact loop_blocks_length_le f A s
  · intro hf
    rw [hpat.1]
    apply loop_blocks_length_of_ok
    cases h : (loop f s A).err with
    | none => rfl
    | some e => simp [h] at hf

/-- two different ways of interleaving two different lists of unselected values give the same results for
the selected values -/
theorem selected_independent_of_pattern (f : σ → α → Step σ α) (sel : α → Bool) (hp : Passes f sel) (p p' : List Bool)
    (A B B' : List α) (s : σ) (hpat : IsPattern p A B) (hpat' : IsPattern p' A B')
    (hB : ∀ b ∈ B, sel b = false) (hB' : ∀ b ∈ B', sel b = false) :
    pick true p (loop f s (merge p A B)).blocks = pick true p' (loop f s (merge p' A B')).blocks ∧
    (loop f s (merge p A B)).st = (loop f s (merge p' A B')).st ∧
    (loop f s (merge p A B)).err = (loop f s (merge p' A B')).err := by
  obtain ⟨h1, h2, h3⟩ := selected_independent f sel hp p A B s hpat hB
  obtain ⟨h1', h2', h3'⟩ := selected_independent f sel hp p' A B' s hpat' hB'
  exact ⟨h1.trans h1'.symm, h2.trans h2'.symm, h3.trans h3'.symm⟩

/-- **Unselected values come out as the very same values, each once, in unchanged relative order**: at
the positions of `B` stand the values of `B` themselves — all of them if the run ends normally, those
consumed before the exception otherwise. -/
theorem unselected_same_objects_in_order (f : σ → α → Step σ α) (sel : α → Bool) (hp : Passes f sel)
    (p : List Bool) (A B : List α) (s : σ) (hpat : IsPattern p A B) (hB : ∀ b ∈ B, sel b = false) :
    ((loop f s A).err = none →
      pick false p (loop f s (merge p A B)).blocks = B.map (fun b => [b])) ∧
    ∃ k, pick false p (loop f s (merge p A B)).blocks = (B.take k).map (fun b => [b]) := by
  rw [interleave_law f sel hp p A B s hpat hB]
  constructor
  · intro he
    simp only [he, Option.isSome_none]
    apply pick_false_mergeBlocks_of_ok p _ B hpat.2
    rw [hpat.1]; exact loop_blocks_length_of_ok f A s he
  · exact pick_false_mergeBlocks_prefix p _ B _

/-- **The state (file system) is not touched by unselected values**: a flow of unselected values only
leaves the state as it was and yields exactly these values -/
theorem state_untouched_by_unselected (f : σ → α → Step σ α) (sel : α → Bool) (hp : Passes f sel) :
    ∀ (B : List α) (s : σ), (∀ b ∈ B, sel b = false) → loop f s B = ⟨B.map (fun b => [b]), s, none⟩
  | [], s, _ => rfl
  | b :: bs, s, hB => by
    rw [loop_cons_unselected f sel hp s b bs (hB b (by simp)),
      state_untouched_by_unselected f sel hp bs s (fun x hx => hB x (by simp [hx]))]
    simp

/-- every flow is the interleaving of its selected values with its unselected values -/
theorem every_flow_is_an_interleaving (sel : α → Bool) : ∀ xs : List α,
    merge (xs.map sel) (xs.filter sel) (xs.filter (fun x => !sel x)) = xs ∧
    IsPattern (xs.map sel) (xs.filter sel) (xs.filter (fun x => !sel x))
  | [] => by simp [merge, IsPattern]
  | x :: xs => by
    obtain ⟨ih1, ih2, ih3⟩ := every_flow_is_an_interleaving sel xs
    cases hx : sel x
    · refine ⟨?_, ?_, ?_⟩
      · simp only [List.map_cons, hx, List.filter_cons, Bool.not_false, Bool.false_eq_true, if_false, if_true]
        have : ∀ (as : List α) bs, merge (false :: xs.map sel) as (x :: bs) = x :: merge (xs.map sel) as bs := by
          intro as bs; cases as <;> rfl
        rw [this, ih1]
      · simpa [hx] using ih2
      · simpa [hx] using ih3
    · refine ⟨?_, ?_, ?_⟩
      · simp only [List.map_cons, hx, List.filter_cons, Bool.not_true, Bool.false_eq_true, if_false, if_true]
        rw [show merge (true :: xs.map sel) (x :: xs.filter sel) (xs.filter fun x => !sel x) =
          x :: merge (xs.map sel) (xs.filter sel) (xs.filter fun x => !sel x) from rfl, ih1]
      · simpa [hx] using ih2
      · simpa [hx] using ih3

/-- consequently, for ANY flow: the final state and the exception of the run are those of the run on the
selected values alone, and the blocks at the selected positions are the blocks of that run -/
theorem run_determined_by_selected (f : σ → α → Step σ α) (sel : α → Bool) (hp : Passes f sel) (xs : List α)
    (s : σ) :
    pick true (xs.map sel) (loop f s xs).blocks = (loop f s (xs.filter sel)).blocks ∧
    (loop f s xs).st = (loop f s (xs.filter sel)).st ∧
    (loop f s xs).err = (loop f s (xs.filter sel)).err := by
  obtain ⟨h1, h2⟩ := every_flow_is_an_interleaving sel xs
  have := selected_independent f sel hp (xs.map sel) (xs.filter sel) (xs.filter (fun x => !sel x)) s h2
    (by intro b hb; simpa using (List.mem_filter.1 hb).2)
  rwa [h1] at this

/-! ## 2. The elements: their transcribed loop bodies pass what their selection predicate rejects -/

theorem ctxOr_d (v : Item) (k : Nat) : (v.ctxOr k).d = v.dict := by
  unfold Item.ctxOr Item.dict; cases v.ctx <;> rfl

/-- `ToCSV`: values whose context forbids the conversion, histograms of dimension ≥ 3 and data without
`rows()` pass -/
theorem toCSV_passes : Passes (toCSVStep (σ := σ)) toCSVSel := by
  intro s v h
  unfold toCSVSel at h
  unfold toCSVStep
  simp only [ctxOr_d]
  cases hc : csvAllowed v.dict
  · simp
  · simp only [hc, Bool.true_and] at h
    cases hd : v.data <;> simp_all [Data.hasRows]

/-- `Write`: values that are not writable (`is_writable` false) pass -/
theorem write_passes (cfg : WriteCfg) : Passes (writeStep cfg) writeSel := by
  intro s v h
  unfold writeSel at h
  unfold writeStep
  simp [ctxOr_d, h]

/-- `RenderLaTeX`: values rejected by `select_data` pass -/
theorem render_passes (cfg : RenderCfg) : Passes (renderStep (σ := σ) cfg) (renderSel cfg) := by
  intro s v h
  unfold renderStep
  simp [h]

/-- `PDFToPNG`: values whose `context.output.filetype` is not `"pdf"` pass -/
theorem png_passes (cfg : PngCfg) : Passes (pngStep cfg) pngSel := by
  intro s v h
  unfold pngStep
  simp [h]

/-- `HistToGraph`: non-histograms and histograms with a false `context.histogram.to_graph` pass -/
theorem histToGraph_passes : Passes (histToGraphStep (σ := σ)) histToGraphSel := by
  intro s v h
  unfold histToGraphSel at h
  unfold histToGraphStep
  simp only [ctxOr_d]
  cases hh : v.data.isHist
  · simp
  · simp only [hh, Bool.true_and] at h
    simp [h]

/-- `IterateBins`: non-histograms and histograms whose bins `select_bins` rejects pass -/
theorem iterateBins_passes (sb : BinKind → Bool) : Passes (iterateBinsStep (σ := σ) sb) (iterateBinsSel sb) := by
  intro s v h
  unfold iterateBinsSel at h
  unfold iterateBinsStep
  cases hd : v.data <;> simp_all

/-- `MapBins`: non-histograms and histograms whose bins `select_bins` rejects pass -/
theorem mapBins_passes (sb : BinKind → Bool) (inner : Item → CellRes) :
    Passes (mapBinsStep (σ := σ) sb inner) (mapBinsSel sb) := by
  intro s v h
  unfold mapBinsSel at h
  unfold mapBinsStep
  cases hd : v.data <;> simp_all

/-- `RunIf`: values rejected by `select` pass — whatever the inner sequence is -/
theorem runIf_passes (select : Item → Bool) (inner : σ → List Item → Step σ Item) :
    Passes (runIfStep select inner) select := by
  intro s v h
  unfold runIfStep
  simp [h]

/-- `MapGroup(map_scalars=False)`: values without `context.group` or with non-iterable data pass —
whatever the inner sequence is -/
theorem mapGroup_passes (inner : σ → List Item → Step σ Item) : Passes (mapGroupStep inner) mapGroupSel := by
  intro s v h
  unfold mapGroupSel hasKey Item.dict at h
  unfold mapGroupStep
  cases hc : v.ctx with
  | none => simp
  | some c =>
    simp only [hc] at h
    cases hg : lookup c.d "group" with
    | none => simp [hg]
    | some g =>
      simp only [hg, Option.isSome_some, Bool.true_and] at h
      simp [hg, h]

/-! ### the law for each element's `run` -/

/-- `ToCSV.run(interleave(A, B)) = interleave(ToCSV.run(A), B)` -/
theorem toCSV_interleave (p : List Bool) (A B : List Item) (s : σ) (hpat : IsPattern p A B)
    (hB : ∀ b ∈ B, toCSVSel b = false) :
    toCSVRun s (merge p A B) =
      ⟨mergeBlocks (toCSVRun s A).err.isSome p (toCSVRun s A).blocks B, (toCSVRun s A).st, (toCSVRun s A).err⟩ :=
  interleave_law _ _ toCSV_passes p A B s hpat hB

/-- `Write.run`, for every construction setting and every initial file system -/
theorem write_interleave (cfg : WriteCfg) (p : List Bool) (A B : List Item) (fs : FS) (hpat : IsPattern p A B)
    (hB : ∀ b ∈ B, writeSel b = false) :
    writeRun cfg fs (merge p A B) =
      ⟨mergeBlocks (writeRun cfg fs A).err.isSome p (writeRun cfg fs A).blocks B, (writeRun cfg fs A).st,
        (writeRun cfg fs A).err⟩ :=
  interleave_law _ _ (write_passes cfg) p A B fs hpat hB

theorem render_interleave (cfg : RenderCfg) (p : List Bool) (A B : List Item) (s : σ) (hpat : IsPattern p A B)
    (hB : ∀ b ∈ B, renderSel cfg b = false) :
    renderRun cfg s (merge p A B) =
      ⟨mergeBlocks (renderRun cfg s A).err.isSome p (renderRun cfg s A).blocks B, (renderRun cfg s A).st,
        (renderRun cfg s A).err⟩ :=
  interleave_law _ _ (render_passes cfg) p A B s hpat hB

theorem png_interleave (cfg : PngCfg) (p : List Bool) (A B : List Item) (fs : FS) (hpat : IsPattern p A B)
    (hB : ∀ b ∈ B, pngSel b = false) :
    pngRun cfg fs (merge p A B) =
      ⟨mergeBlocks (pngRun cfg fs A).err.isSome p (pngRun cfg fs A).blocks B, (pngRun cfg fs A).st,
        (pngRun cfg fs A).err⟩ :=
  interleave_law _ _ (png_passes cfg) p A B fs hpat hB

theorem histToGraph_interleave (p : List Bool) (A B : List Item) (s : σ) (hpat : IsPattern p A B)
    (hB : ∀ b ∈ B, histToGraphSel b = false) :
    histToGraphRun s (merge p A B) =
      ⟨mergeBlocks (histToGraphRun s A).err.isSome p (histToGraphRun s A).blocks B, (histToGraphRun s A).st,
        (histToGraphRun s A).err⟩ :=
  interleave_law _ _ histToGraph_passes p A B s hpat hB

theorem iterateBins_interleave (sb : BinKind → Bool) (p : List Bool) (A B : List Item) (s : σ)
    (hpat : IsPattern p A B) (hB : ∀ b ∈ B, iterateBinsSel sb b = false) :
    iterateBinsRun sb s (merge p A B) =
      ⟨mergeBlocks (iterateBinsRun sb s A).err.isSome p (iterateBinsRun sb s A).blocks B,
        (iterateBinsRun sb s A).st, (iterateBinsRun sb s A).err⟩ :=
  interleave_law _ _ (iterateBins_passes sb) p A B s hpat hB

theorem mapBins_interleave (sb : BinKind → Bool) (inner : Item → CellRes) (p : List Bool) (A B : List Item)
    (s : σ) (hpat : IsPattern p A B) (hB : ∀ b ∈ B, mapBinsSel sb b = false) :
    mapBinsRun sb inner s (merge p A B) =
      ⟨mergeBlocks (mapBinsRun sb inner s A).err.isSome p (mapBinsRun sb inner s A).blocks B,
        (mapBinsRun sb inner s A).st, (mapBinsRun sb inner s A).err⟩ :=
  interleave_law _ _ (mapBins_passes sb inner) p A B s hpat hB

/-- `RunIf.run`, for every selector and every inner sequence (stateful ones included: `σ` is any state the
inner sequence and the file system may have) -/
theorem runIf_interleave (select : Item → Bool) (inner : σ → List Item → Step σ Item) (p : List Bool)
    (A B : List Item) (s : σ) (hpat : IsPattern p A B) (hB : ∀ b ∈ B, select b = false) :
    runIfRun select inner s (merge p A B) =
      ⟨mergeBlocks (runIfRun select inner s A).err.isSome p (runIfRun select inner s A).blocks B,
        (runIfRun select inner s A).st, (runIfRun select inner s A).err⟩ :=
  interleave_law _ _ (runIf_passes select inner) p A B s hpat hB

theorem mapGroup_interleave (inner : σ → List Item → Step σ Item) (p : List Bool) (A B : List Item) (s : σ)
    (hpat : IsPattern p A B) (hB : ∀ b ∈ B, mapGroupSel b = false) :
    mapGroupRun inner s (merge p A B) =
      ⟨mergeBlocks (mapGroupRun inner s A).err.isSome p (mapGroupRun inner s A).blocks B,
        (mapGroupRun inner s A).st, (mapGroupRun inner s A).err⟩ :=
  interleave_law _ _ (mapGroup_passes inner) p A B s hpat hB

/-! ## 3. Element-specific facts -/

/-- a loop whose body never changes the state leaves it as it was -/
theorem loop_state_const {β : Type} (f : σ → α → Step σ β) (h : ∀ s v, (f s v).st = s) :
    ∀ (xs : List α) (s : σ), (loop f s xs).st = s
  | [], s => rfl
  | v :: vs, s => by
    have hv := h s v
    rcases hf : f s v with ⟨out, s', _ | e⟩
    · rw [hf] at hv; simp only at hv; subst hv
      simp only [loop, hf]
      exact loop_state_const f h vs s'
    · rw [hf] at hv; simp only at hv; subst hv
      simp [loop, hf]

/-- `ToCSV` never touches the file system (or any other state), whatever the flow -/
theorem toCSV_state_untouched (xs : List Item) (s : σ) : (toCSVRun s xs).st = s := by
  apply loop_state_const
  intro s v
  simp only [toCSVStep]
  repeat' split
  all_goals rfl

theorem render_state_untouched (cfg : RenderCfg) (xs : List Item) (s : σ) : (renderRun cfg s xs).st = s := by
  apply loop_state_const
  intro s v
  simp only [renderStep]
  repeat' split
  all_goals rfl

theorem histToGraph_state_untouched (xs : List Item) (s : σ) : (histToGraphRun s xs).st = s := by
  apply loop_state_const
  intro s v
  simp only [histToGraphStep]
  repeat' split
  all_goals rfl

theorem iterateBins_state_untouched (sb : BinKind → Bool) (xs : List Item) (s : σ) :
    (iterateBinsRun sb s xs).st = s := by
  apply loop_state_const
  intro s v
  simp only [iterateBinsStep]
  repeat' split
  all_goals rfl

theorem mapBinsRounds_st (v : Item) (h : HistD) (d : Dict) (res : List CellRes) (s : σ) :
    ∀ (fuel k : Nat) (acc : List Item), (mapBinsRounds v h d res s fuel k acc).st = s
  | 0, _, _ => rfl
  | fuel + 1, k, acc => by
    unfold mapBinsRounds
    split
    · rfl
    · rfl
    · exact mapBinsRounds_st v h d res s fuel (k + 1) _

theorem mapBins_state_untouched (sb : BinKind → Bool) (inner : Item → CellRes) (xs : List Item) (s : σ) :
    (mapBinsRun sb inner s xs).st = s := by
  apply loop_state_const
  intro s v
  unfold mapBinsStep
  split
  · split
    · rfl
    · exact mapBinsRounds_st _ _ _ _ _ _ _ _
  · rfl

/-- `Write`: a value whose data is already the path it would be written to ("already written by another
Write") is yielded as the same object and the file system is not touched -/
theorem write_already_written (cfg : WriteCfg) (fs : FS) (v : Item) (c : Ctx) (outputc : Dict)
    (filename : String) (fileext : CV) (filepath : String)
    (hc : v.ctx = some c) (hw : isWritable v.data c.d = true) (ho : lookup c.d "output" = some (.dict outputc))
    (hm : makeFilename cfg outputc = .ok (filename, fileext, filepath)) (hd : v.data.eqStr filepath = true) :
    writeStep cfg fs v = ⟨[v], fs, none⟩ := by
  have hk : hasKey c.d "output" = true := by simp [hasKey, ho]
  have hv : v.withDict c.d = v := by
    unfold Item.withDict; simp only [hc]
    cases v; simp_all
  unfold writeStep
  simp [Item.ctxOr, hc, hw, hk, ho, hm, hd, hv]

end Lena.C10
