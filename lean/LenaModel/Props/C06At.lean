import LenaModel.Props.C06Ext
/-! # C06 — the fill, sequence and element theorems under the weakest hypothesis on the guesses

(review finding 2.)  The theorems of `Props/C06.lean` assume `GuessesOK` (every per-axis guess in
range at *every* pair `lo ≤ hi`), which the interpolation the code computes does not satisfy: it
is in range only where a search consults it.  Here every theorem about `get_bin_on_value`, `fill`,
sequences of fills and the element is proved again from `GuessesOKAt` / `OpsOKAt` / `ElOpsOKAt`
(per axis: `GuessOKAt axes[k] xs[k] (g k)`), and the two results that *discharge* the hypothesis —
the interpolation in exact integer arithmetic (`interpGuess_okAt`) and under an arbitrary monotone
rounding (`roundedGuessArr_okAt`) — are lifted to `fill`, `fillAll` and the element
(`fill_interp`, `weight_conserved_interp`, `fill_rounded`, `weight_conserved_rounded`,
`histEl2_run_rounded`).  `fillAll_ok_or_unmodelled`, `histEl2_run_ok_or_unmodelled` need no
hypothesis on the guesses at all.

**Since lena 4fbe73b (notes/C06_defect_3.md)** the search handles a guess outside its range, the
model has no `unmodelled` outcome in the search any more, and section "every guess" proves every
sentence of the property for EVERY guess function: `getBinOnValue_correct`, `fill_correct`,
`fill_exact_cell_any`, `fill_out_of_range_any`, `fill_frame_any`, `fillAll_correct`,
`weight_conserved_any`, `histEl2_run_correct`, `elem_weight_conserved_any` (with `bin1d_correct` in
`Props/C06Ext.lean`).  These are the theorems that carry the property; the `GuessesOK` / `…At` /
`…_ok_or_unmodelled` forms are kept as corollaries for the files that use them. -/
open Lena
namespace Lena.C06
set_option linter.unusedSectionVars false

section At
variable {α β : Type} [LT α] [LE α] [DecidableLT α] [DecidableLE α] [DecidableEq α]
  [Std.IsLinearOrder α] [Std.LawfulOrderLT α]

theorem GuessesOK.at {g : Nat → Nat → Nat → Int} (hg : GuessesOK g) (axes : List (List α)) (xs : List α) :
    GuessesOKAt axes xs g := fun k _ _ => (hg k).at _ _

theorem binsLoop_spec_at (g : Nat → Nat → Nat → Int) :
    ∀ (axes : List (List α)) (xs : List α) (k : Nat), xs.length = axes.length →
      (∀ arr ∈ axes, ValidAxis arr) →
      (∀ (j : Nat) (h₁ : j < axes.length) (h₂ : j < xs.length), GuessOKAt axes[j] xs[j] (g (k + j))) →
      binsLoop g k xs axes = .ok (indices axes xs)
  | [], [], _, _, _, _ => rfl
  | [], _ :: _, _, hl, _, _ => by simp at hl
  | _ :: _, [], _, hl, _, _ => by simp at hl
  | arr :: axes, x :: xs, k, hl, hv, hg => by
    have ha := hv arr (by simp)
    have hne : arr ≠ [] := by intro h; have := ha.1; simp [h] at this
    have h0 : GuessOKAt arr x (g k) := hg 0 (by simp) (by simp)
    have ih := binsLoop_spec_at g axes xs (k + 1) (by simpa using hl)
      (fun a hm => hv a (List.mem_cons_of_mem _ hm))
      (fun j h₁ h₂ => by
        have := hg (j + 1) (by simpa using h₁) (by simpa using h₂)
        rw [show k + (j + 1) = k + 1 + j by omega] at this
        exact this)
    simp [binsLoop, bin1d_spec (g k) x h0 ha.2 hne, ih, indices, bind, Except.bind, pure, Except.pure]

/-- **Sentence (4), any dimension, weakest hypothesis** -/
theorem getBinOnValue_spec_at (g : Nat → Nat → Nat → Int) {e : Edges α} (he : ValidEdges e)
    {c : Coord α} {xs : List α} (hp : Proper e c xs) (hg : GuessesOKAt e.axes xs g) :
    getBinOnValue g c e = .ok (indices e.axes xs) := by
  cases hp with
  | flat arr x =>
    have ha : ValidAxis arr := he.2 arr (by simp [Edges.axes])
    have hne : arr ≠ [] := by intro h; have := ha.1; simp [h] at this
    have h0 : GuessOKAt arr x (g 0) := hg 0 (by simp [Edges.axes]) (by simp)
    simp [getBinOnValue, bin1d_spec (g 0) x h0 ha.2 hne, indices, Edges.axes, bind, Except.bind, pure, Except.pure]
  | nested axes xs hl =>
    have : ¬ xs.length ≠ axes.length := by simp [hl]
    simp only [getBinOnValue, this, if_false]
    exact binsLoop_spec_at g axes xs 0 hl he.2 (fun j h₁ h₂ => by rw [Nat.zero_add]; exact hg j h₁ h₂)

variable [Lean.Grind.AddCommMonoid β]

/-- **Sentences (1)+(2), weakest hypothesis**: `fill` is the specification `specFill` -/
theorem fill_eq_specFill_at (g : Nat → Nat → Nat → Int) {h : Hist α β} (hwf : WF h)
    {c : Coord α} {xs : List α} (hp : Proper h.edges c xs) (hg : GuessesOKAt h.edges.axes xs g) (w : β) :
    fill g h c w =
      .ok { h with bins := (specFill h.edges.axes (h.bins, h.nOut) xs w).1,
                   nOut := (specFill h.edges.axes (h.bins, h.nOut) xs w).2 } := by
  rcases fill_ok_or_unmodelled g hwf hp w with h1 | h1
  · exact h1
  · exfalso
    have h2 := getBinOnValue_spec_at g hwf.edges hp hg
    simp only [fill, h2, bind, Except.bind] at h1
    -- with the indices known the walk cannot answer `unmodelled`: compare with in-range guesses
    have hmid : GuessesOK (fun _ lo _ => (lo : Int)) := fun _ lo hi hle => ⟨Int.le_refl _, Int.ofNat_le.2 hle⟩
    have h3 := fill_eq_specFill _ hmid hwf hp w
    simp only [fill, getBinOnValue_spec _ hmid hwf.edges hp, bind, Except.bind] at h3
    rw [h3] at h1
    cases h1

theorem fill_exact_cell_at (g : Nat → Nat → Nat → Int) {h : Hist α β} (hwf : WF h)
    {c : Coord α} {xs : List α} (hp : Proper h.edges c xs) (hg : GuessesOKAt h.edges.axes xs g) (w : β)
    {idx : List Nat} (hc : InCell h.edges.axes xs idx) :
    fill g h c w = .ok { h with bins := NArr.modifyAt (· + w) h.bins idx } := by
  rw [fill_eq_specFill_at g hwf hp hg w]
  simp only [specFill, (cellOf?_eq_some_iff _ _ idx (validEdges_strictInc hwf.edges) hp.length).2 hc]

theorem fill_out_of_range_at (g : Nat → Nat → Nat → Int) {h : Hist α β} (hwf : WF h)
    {c : Coord α} {xs : List α} (hp : Proper h.edges c xs) (hg : GuessesOKAt h.edges.axes xs g) (w : β)
    (hno : ∀ idx, ¬ InCell h.edges.axes xs idx) :
    fill g h c w = .ok { h with nOut := h.nOut + w } := by
  rw [fill_eq_specFill_at g hwf hp hg w]
  simp only [specFill, (cellOf?_eq_none_iff _ _ (validEdges_strictInc hwf.edges) hp.length).2 hno]

/-- **Sentences (1)–(3) observationally, weakest hypothesis** (the statement of `fill_frame`) -/
theorem fill_frame_at (g : Nat → Nat → Nat → Int) {h : Hist α β} (hwf : WF h)
    {c : Coord α} {xs : List α} (hp : Proper h.edges c xs) (hg : GuessesOKAt h.edges.axes xs g) (w : β) :
    ∃ h', fill g h c w = .ok h' ∧ h'.edges = h.edges ∧ h'.dim = h.dim ∧
      ((∃ idx c₀, InCell h.edges.axes xs idx ∧ h'.nOut = h.nOut ∧
          NArr.get? h.bins idx = some (.leaf c₀) ∧
          NArr.get? h'.bins idx = some (.leaf (c₀ + w)) ∧
          ∀ j, j ≠ idx → j.length = idx.length → NArr.get? h'.bins j = NArr.get? h.bins j)
       ∨ ((∀ idx, ¬ InCell h.edges.axes xs idx) ∧ h'.bins = h.bins ∧ h'.nOut = h.nOut + w)) := by
  have hmid : GuessesOK (fun _ lo _ => (lo : Int)) := fun _ lo hi hle => ⟨Int.le_refl _, Int.ofNat_le.2 hle⟩
  obtain ⟨h', hf, rest⟩ := fill_frame _ hmid hwf hp w
  refine ⟨h', ?_, rest⟩
  rw [fill_eq_specFill_at g hwf hp hg w, ← fill_eq_specFill _ hmid hwf hp w]
  exact hf

/-- a sequence of proper fills never raises; it is the specification-side interpreter -/
theorem fillAll_eq_specFillAll_at :
    ∀ (ops : List ((Nat → Nat → Nat → Int) × Coord α × β)) (h : Hist α β), WF h → OpsOKAt h.edges ops →
    fillAll h ops =
      .ok { h with bins := (specFillAll h.edges.axes (h.bins, h.nOut) (opsPoints h.edges ops)).1,
                   nOut := (specFillAll h.edges.axes (h.bins, h.nOut) (opsPoints h.edges ops)).2 }
  | [], h, _, _ => rfl
  | (g, c, w) :: rest, h, hwf, hops => by
    obtain ⟨xs, hp, hg⟩ := hops (g, c, w) (by simp)
    have h1 := fill_eq_specFill_at g hwf hp hg w
    have hwf1 := fill_wf g c w h1 hwf
    have ih := fillAll_eq_specFillAll_at rest _ hwf1 (fun op hm => hops op (List.mem_cons_of_mem _ hm))
    simp only [fillAll, h1, bind, Except.bind, ih, opsPoints, (properList?_iff _ _ _).2 hp,
      Option.getD_some, specFillAll]

theorem fillAll_ok_at (ops : List ((Nat → Nat → Nat → Int) × Coord α × β)) (h : Hist α β)
    (hwf : WF h) (hops : OpsOKAt h.edges ops) :
    ∃ h', fillAll h ops = .ok h' ∧ WF h' ∧ h'.edges = h.edges := by
  have := fillAll_eq_specFillAll_at ops h hwf hops
  refine ⟨_, this, ?_, rfl⟩
  -- well-formedness is an invariant of every fill that returns
  clear this
  induction ops generalizing h with
  | nil => exact hwf
  | cons op rest ih =>
    obtain ⟨g, c, w⟩ := op
    obtain ⟨xs, hp, hg⟩ := hops (g, c, w) (by simp)
    have h1 := fill_eq_specFill_at g hwf hp hg w
    have hwf1 := fill_wf g c w h1 hwf
    have := ih _ hwf1 (fun op hm => hops op (List.mem_cons_of_mem _ hm))
    simpa only [opsPoints, (properList?_iff _ _ _).2 hp, Option.getD_some, specFillAll] using this

/-- **Sentence (5) for the structure, weakest hypothesis** -/
theorem weight_conserved_at {e : Edges α} (he : ValidEdges e)
    (ops : List ((Nat → Nat → Nat → Int) × Coord α × β)) (hops : OpsOKAt e ops) :
    ∃ h₀ h, mkHist e none (0 : β) = .ok h₀ ∧ fillAll h₀ ops = .ok h ∧ h.edges = e ∧
      total h.bins + h.nOut = sumW (ops.map (·.2.2)) := by
  have hd := mkHist_valid he (0 : β)
  obtain ⟨hwf, hedges, hn, hb⟩ := mkHist_wf he (0 : β) hd
  obtain ⟨h, hf, _, he'⟩ := fillAll_ok_at ops _ hwf (by rw [hedges]; exact hops)
  have hc := (fillAll_conserves ops _ h hf).2
  simp only [total_full_zero, zero_add', Lean.Grind.AddCommMonoid.add_zero] at hc
  exact ⟨_, h, hd, hf, he', by simpa using hc⟩

end At

/-! ## no hypothesis on the guesses: sequences and the element -/
section AnyGuessSeq
variable {α β κ : Type} [LT α] [LE α] [DecidableLT α] [DecidableLE α] [DecidableEq α]
  [Std.IsLinearOrder α] [Std.LawfulOrderLT α] [Lean.Grind.AddCommMonoid β]

/-- **Any sequence, any guesses.**  A sequence of proper fills into a well-formed histogram
either is the specification-side interpreter (`specFillAll`) — in particular nothing raises and
the weight is conserved — or the model reports that a guess left its range. -/
theorem fillAll_ok_or_unmodelled :
    ∀ (ops : List ((Nat → Nat → Nat → Int) × Coord α × β)) (h : Hist α β), WF h →
      (∀ op ∈ ops, ∃ xs, Proper h.edges op.2.1 xs) →
    fillAll h ops =
      .ok { h with bins := (specFillAll h.edges.axes (h.bins, h.nOut) (opsPoints h.edges ops)).1,
                   nOut := (specFillAll h.edges.axes (h.bins, h.nOut) (opsPoints h.edges ops)).2 } ∨
    fillAll h ops = .error .unmodelled
  | [], h, _, _ => Or.inl rfl
  | (g, c, w) :: rest, h, hwf, hops => by
    obtain ⟨xs, hp⟩ := hops (g, c, w) (by simp)
    rcases fill_ok_or_unmodelled g hwf hp w with h1 | h1
    · have hwf1 := fill_wf g c w h1 hwf
      rcases fillAll_ok_or_unmodelled rest _ hwf1 (fun op hm => hops op (List.mem_cons_of_mem _ hm)) with h2 | h2
      · left
        simp only [fillAll, h1, bind, Except.bind, h2, opsPoints, (properList?_iff _ _ _).2 hp,
          Option.getD_some, specFillAll]
      · right; simp only [fillAll, h1, bind, Except.bind, h2]
    · right; simp [fillAll, h1, bind, Except.bind]

/-- **The element, any guesses.**  Along any history of proper fills and resets of an element whose
stored arguments build a well-formed histogram `h₀`: either nothing raises, the edges never change
and the sum of all bins plus `n_out_of_range` is `specSum` (initial content plus one unit per value
since the last reset), or the model reports that a guess left its range. -/
theorem histEl2_run_ok_or_unmodelled (empty : κ) (one : β) {h₀ : Hist α β} (hwf₀ : WF h₀) :
    ∀ (ops : List (ElOp α κ)) (e : HistEl2 α β κ),
      mkHist e.cfg.edges e.cfg.startBins e.cfg.initialValue = .ok h₀ →
      WF e.hist → e.hist.edges = h₀.edges → ElOpsProper h₀.edges ops →
      (∃ e', HistEl2.run empty one e ops = .ok e' ∧ e'.cfg = e.cfg ∧ WF e'.hist ∧ e'.hist.edges = h₀.edges ∧
        total e'.hist.bins + e'.hist.nOut =
          specSum (total h₀.bins + h₀.nOut) one (total e.hist.bins + e.hist.nOut) ops) ∨
      HistEl2.run empty one e ops = .error .unmodelled
  | [], e, _, hwf, hed, _ => Or.inl ⟨e, rfl, rfl, hwf, hed, rfl⟩
  | .fill g c ctx :: rest, e, hm, hwf, hed, hops => by
    obtain ⟨⟨xs, hp⟩, hrest⟩ := hops
    rcases fill_ok_or_unmodelled g hwf (hed ▸ hp) one with h1 | h1
    · have hwf1 := fill_wf g c one h1 hwf
      have hc := (fill_conserves g e.hist _ c one h1).2.2
      have he := (fill_conserves g e.hist _ c one h1).1
      rcases histEl2_run_ok_or_unmodelled empty one hwf₀ rest
          { e with hist := _, curContext := ctx.getD empty } hm hwf1 (he.trans hed) hrest with h2 | h2
      · obtain ⟨e', hr, hcfg, hwf', hed', hs⟩ := h2
        left
        refine ⟨e', ?_, hcfg, hwf', hed', ?_⟩
        · simp only [HistEl2.run, HistEl2.fill, h1, bind, Except.bind, pure, Except.pure]
          exact hr
        · rw [hs]; simp only [specSum, hc]
      · right
        simp only [HistEl2.run, HistEl2.fill, h1, bind, Except.bind, pure, Except.pure]
        exact h2
    · right; simp [HistEl2.run, HistEl2.fill, h1, bind, Except.bind]
  | .reset :: rest, e, hm, hwf, hed, hops => by
    rcases histEl2_run_ok_or_unmodelled empty one hwf₀ rest { e with hist := h₀, curContext := empty } hm hwf₀ rfl hops
      with h2 | h2
    · obtain ⟨e', hr, hcfg, hwf', hed', hs⟩ := h2
      left
      refine ⟨e', ?_, hcfg, hwf', hed', ?_⟩
      · simp only [HistEl2.run, HistEl2.reset, hm, bind, Except.bind, pure, Except.pure]
        exact hr
      · rw [hs]; simp only [specSum]
    · right
      simp only [HistEl2.run, HistEl2.reset, hm, bind, Except.bind, pure, Except.pure]
      exact h2

end AnyGuessSeq

/-! ## the element under the weakest hypothesis -/
section ElemAt
variable {α β κ : Type} [LT α] [LE α] [DecidableLT α] [DecidableLE α] [DecidableEq α]
  [Std.IsLinearOrder α] [Std.LawfulOrderLT α] [Lean.Grind.AddCommMonoid β]

theorem ElOpsOKAt.proper {e : Edges α} {ops : List (ElOp α κ)} (h : ElOpsOKAt e ops) : ElOpsProper e ops := by
  induction ops with
  | nil => trivial
  | cons op r ih =>
    cases op with
    | fill g c ctx => exact ⟨⟨h.1.choose, h.1.choose_spec.1⟩, ih h.2⟩
    | reset => exact ih h

/-- with guesses that are in range where consulted the element never answers `unmodelled` -/
theorem histEl2_run_not_unmodelled (empty : κ) (one : β) {h₀ : Hist α β} (hwf₀ : WF h₀) :
    ∀ (ops : List (ElOp α κ)) (e : HistEl2 α β κ),
      mkHist e.cfg.edges e.cfg.startBins e.cfg.initialValue = .ok h₀ →
      WF e.hist → e.hist.edges = h₀.edges → ElOpsOKAt h₀.edges ops →
      HistEl2.run empty one e ops ≠ .error .unmodelled
  | [], e, _, _, _, _ => by simp [HistEl2.run]
  | .fill g c ctx :: rest, e, hm, hwf, hed, hops => by
    obtain ⟨⟨xs, hp, hg⟩, hrest⟩ := hops
    have h1 := fill_eq_specFill_at g hwf (hed ▸ hp) (hed ▸ hg) one
    have hwf1 := fill_wf g c one h1 hwf
    have he := (fill_conserves g e.hist _ c one h1).1
    have ih := histEl2_run_not_unmodelled empty one hwf₀ rest
      { e with hist := _, curContext := ctx.getD empty } hm hwf1 (he.trans hed) hrest
    simp only [HistEl2.run, HistEl2.fill, h1, bind, Except.bind, pure, Except.pure]
    exact ih
  | .reset :: rest, e, hm, hwf, hed, hops => by
    have ih := histEl2_run_not_unmodelled empty one hwf₀ rest { e with hist := h₀, curContext := empty } hm hwf₀ rfl hops
    simp only [HistEl2.run, HistEl2.reset, hm, bind, Except.bind, pure, Except.pure]
    exact ih

/-- **Sentence (5) for a re-used element, weakest hypothesis** (the statement of
`histEl2_run_conserved` with `ElOpsOKAt`) -/
theorem histEl2_run_conserved_at (empty : κ) (one : β) {h₀ : Hist α β} (hwf₀ : WF h₀)
    (ops : List (ElOp α κ)) (e : HistEl2 α β κ)
    (hm : mkHist e.cfg.edges e.cfg.startBins e.cfg.initialValue = .ok h₀)
    (hwf : WF e.hist) (hed : e.hist.edges = h₀.edges) (hops : ElOpsOKAt h₀.edges ops) :
    ∃ e', HistEl2.run empty one e ops = .ok e' ∧ e'.cfg = e.cfg ∧ WF e'.hist ∧ e'.hist.edges = h₀.edges ∧
      total e'.hist.bins + e'.hist.nOut =
        specSum (total h₀.bins + h₀.nOut) one (total e.hist.bins + e.hist.nOut) ops := by
  rcases histEl2_run_ok_or_unmodelled empty one hwf₀ ops e hm hwf hed hops.proper with h | h
  · exact h
  · exact absurd h (histEl2_run_not_unmodelled empty one hwf₀ ops e hm hwf hed hops)

/-- **Sentence (5) for the element `Histogram(edges)`, weakest hypothesis** -/
theorem elem_weight_conserved_at (empty : κ) (one : β) {ed : Edges α} (he : ValidEdges ed)
    (vals : List ((Nat → Nat → Nat → Int) × Coord α × Option κ))
    (hv : ∀ v ∈ vals, ∃ xs, Proper ed v.2.1 xs ∧ GuessesOKAt ed.axes xs v.1) :
    ∃ e₀ e, HistEl.new empty ed none (0 : β) = .ok e₀ ∧ HistEl.fillAll empty one e₀ vals = .ok e ∧
      total e.hist.bins + e.hist.nOut = sumW (List.replicate vals.length one) ∧
      e.curContext = lastCtx empty empty vals := by
  have hops : OpsOKAt ed (toOps one vals) := by
    intro op hm
    obtain ⟨v, hvm, rfl⟩ := List.mem_map.1 hm
    exact hv v hvm
  obtain ⟨h₀, h, hm, hf, _, hn⟩ := weight_conserved_at (β := β) he (toOps one vals) hops
  refine ⟨{ hist := h₀, curContext := empty }, { hist := h, curContext := lastCtx empty empty vals }, ?_, ?_, ?_, rfl⟩
  · simp [HistEl.new, hm, bind, Except.bind, pure, Except.pure]
  · rw [histEl_fillAll_eq, hf]; rfl
  · simp only []; rw [hn, sumW_toOps]

end ElemAt

/-! ## discharging the hypothesis: exact integer interpolation -/
section Interp
variable {β κ : Type} [Lean.Grind.AddCommMonoid β]

theorem interpGuessN_okAt (axes : List (List Int)) (xs : List Int) :
    GuessesOKAt axes xs (interpGuessN axes xs) := by
  intro k h₁ h₂
  have : interpGuessN axes xs k = interpGuess axes[k] xs[k] := by
    funext lo hi
    simp [interpGuessN, List.getElem?_eq_getElem h₁, List.getElem?_eq_getElem h₂]
  rw [this]
  exact interpGuess_okAt _ _

/-- the operations of a list of (coordinate, weight) pairs, each search guessing by the exact
integer interpolation -/
def interpOps (e : Edges Int) (pts : List (Coord Int × β)) : List ((Nat → Nat → Nat → Int) × Coord Int × β) :=
  pts.map (fun p => (interpGuessN e.axes ((properList? e p.1).getD []), p.1, p.2))

/-- **`histogram.fill` with the interpolation of the source in exact integer arithmetic**: no
hypothesis on guesses is left — the fill is the specified one -/
theorem fill_interp {h : Hist Int β} (hwf : WF h) {c : Coord Int} {xs : List Int}
    (hp : Proper h.edges c xs) (w : β) :
    fill (interpGuessN h.edges.axes xs) h c w =
      .ok { h with bins := (specFill h.edges.axes (h.bins, h.nOut) xs w).1,
                   nOut := (specFill h.edges.axes (h.bins, h.nOut) xs w).2 } :=
  fill_eq_specFill_at _ hwf hp (interpGuessN_okAt _ _) w

/-- **Sentence (5) with the interpolation of the source in exact integer arithmetic**: for
strictly increasing integer edges in any dimension and any sequence of proper coordinates and
weights, nothing raises and the sum of all bins plus `n_out_of_range` is the total weight -/
theorem weight_conserved_interp {e : Edges Int} (he : ValidEdges e) (pts : List (Coord Int × β))
    (hp : ∀ p ∈ pts, ∃ xs, Proper e p.1 xs) :
    ∃ h₀ h, mkHist e none (0 : β) = .ok h₀ ∧ fillAll h₀ (interpOps e pts) = .ok h ∧ h.edges = e ∧
      total h.bins + h.nOut = sumW (pts.map (·.2)) := by
  have hops : OpsOKAt e (interpOps e pts) := by
    intro op hm
    obtain ⟨p, hpm, rfl⟩ := List.mem_map.1 hm
    obtain ⟨xs, hx⟩ := hp p hpm
    refine ⟨xs, hx, ?_⟩
    simp only [(properList?_iff _ _ _).2 hx, Option.getD_some]
    exact interpGuessN_okAt _ _
  obtain ⟨h₀, h, h1, h2, h3, h4⟩ := weight_conserved_at (β := β) he (interpOps e pts) hops
  refine ⟨h₀, h, h1, h2, h3, ?_⟩
  rw [h4]; simp [interpOps, List.map_map, Function.comp_def]

end Interp

/-! ## discharging the hypothesis: the interpolation under any monotone rounding -/
section Rounded
variable {β κ : Type} [Lean.Grind.AddCommMonoid β]

/-- what the interval argument needs of a rounding function on a mesh: monotone; `0`, `1` and the
integers below the axis lengths are fixed; the difference of two distinct edges of an axis is not
rounded to `0` -/
structure RoundingOK (fl : Rat → Rat) (axes : List (List Rat)) : Prop where
  mono : ∀ x y, x ≤ y → fl x ≤ fl y
  zero : fl 0 = 0
  one : fl 1 = 1
  ints : ∀ arr ∈ axes, ∀ d : Nat, d < arr.length → fl ((d : Int) : Rat) = ((d : Int) : Rat)
  nonzero : ∀ arr ∈ axes, ∀ (i j : Nat) (hi : i < arr.length) (hj : j < arr.length),
    arr[i] < arr[j] → 0 < fl (arr[j] - arr[i])

theorem roundedGuessN_okAt {fl : Rat → Rat} {axes : List (List Rat)} (hr : RoundingOK fl axes) (xs : List Rat) :
    GuessesOKAt axes xs (roundedGuessN fl axes xs) := by
  intro k h₁ h₂
  have : roundedGuessN fl axes xs k = roundedGuessArr fl axes[k] xs[k] := by
    funext lo hi
    simp [roundedGuessN, List.getElem?_eq_getElem h₁, List.getElem?_eq_getElem h₂]
  rw [this]
  have hm : axes[k] ∈ axes := List.getElem_mem h₁
  exact roundedGuessArr_okAt fl hr.mono hr.zero hr.one _ _ (hr.ints _ hm) (hr.nonzero _ hm)

def roundedOps (fl : Rat → Rat) (e : Edges Rat) (pts : List (Coord Rat × β)) :
    List ((Nat → Nat → Nat → Int) × Coord Rat × β) :=
  pts.map (fun p => (roundedGuessN fl e.axes ((properList? e p.1).getD []), p.1, p.2))

/-- **`histogram.fill` with the rounded interpolation** (every operation of the source expression
followed by a rounding satisfying `RoundingOK`): the fill is the specified one -/
theorem fill_rounded {fl : Rat → Rat} {h : Hist Rat β} (hwf : WF h) (hr : RoundingOK fl h.edges.axes)
    {c : Coord Rat} {xs : List Rat} (hp : Proper h.edges c xs) (w : β) :
    fill (roundedGuessN fl h.edges.axes xs) h c w =
      .ok { h with bins := (specFill h.edges.axes (h.bins, h.nOut) xs w).1,
                   nOut := (specFill h.edges.axes (h.bins, h.nOut) xs w).2 } :=
  fill_eq_specFill_at _ hwf hp (roundedGuessN_okAt hr _) w

/-- **Sentence (5) with the rounded interpolation** -/
theorem weight_conserved_rounded {fl : Rat → Rat} {e : Edges Rat} (he : ValidEdges e)
    (hr : RoundingOK fl e.axes) (pts : List (Coord Rat × β)) (hp : ∀ p ∈ pts, ∃ xs, Proper e p.1 xs) :
    ∃ h₀ h, mkHist e none (0 : β) = .ok h₀ ∧ fillAll h₀ (roundedOps fl e pts) = .ok h ∧ h.edges = e ∧
      total h.bins + h.nOut = sumW (pts.map (·.2)) := by
  have hops : OpsOKAt e (roundedOps fl e pts) := by
    intro op hm
    obtain ⟨p, hpm, rfl⟩ := List.mem_map.1 hm
    obtain ⟨xs, hx⟩ := hp p hpm
    refine ⟨xs, hx, ?_⟩
    simp only [(properList?_iff _ _ _).2 hx, Option.getD_some]
    exact roundedGuessN_okAt hr _
  obtain ⟨h₀, h, h1, h2, h3, h4⟩ := weight_conserved_at (β := β) he (roundedOps fl e pts) hops
  refine ⟨h₀, h, h1, h2, h3, ?_⟩
  rw [h4]; simp [roundedOps, List.map_map, Function.comp_def]

/-- a history of the element: `none` = `reset()`, `some (value, context)` = `fill`, each search
guessing by the rounded interpolation -/
def roundedElOps (fl : Rat → Rat) (e : Edges Rat) : List (Option (Coord Rat × Option κ)) → List (ElOp Rat κ)
  | [] => []
  | none :: r => .reset :: roundedElOps fl e r
  | some (c, ctx) :: r => .fill (roundedGuessN fl e.axes ((properList? e c).getD [])) c ctx :: roundedElOps fl e r

/-- **Sentence (5) for a re-used element with the rounded interpolation** -/
theorem histEl2_run_rounded {fl : Rat → Rat} (empty : κ) (one : β) {h₀ : Hist Rat β} (hwf₀ : WF h₀)
    (hr : RoundingOK fl h₀.edges.axes) (steps : List (Option (Coord Rat × Option κ)))
    (hp : ∀ s ∈ steps, ∀ c ctx, s = some (c, ctx) → ∃ xs, Proper h₀.edges c xs)
    (e : HistEl2 Rat β κ) (hm : mkHist e.cfg.edges e.cfg.startBins e.cfg.initialValue = .ok h₀)
    (hwf : WF e.hist) (hed : e.hist.edges = h₀.edges) :
    ∃ e', HistEl2.run empty one e (roundedElOps fl h₀.edges steps) = .ok e' ∧ e'.hist.edges = h₀.edges ∧
      total e'.hist.bins + e'.hist.nOut =
        specSum (total h₀.bins + h₀.nOut) one (total e.hist.bins + e.hist.nOut) (roundedElOps fl h₀.edges steps) := by
  have hops : ElOpsOKAt h₀.edges (roundedElOps (κ := κ) fl h₀.edges steps) := by
    induction steps with
    | nil => trivial
    | cons s r ih =>
      have ihr := ih (fun s' hs' => hp s' (List.mem_cons_of_mem _ hs'))
      cases s with
      | none => exact ihr
      | some p =>
        obtain ⟨c, ctx⟩ := p
        obtain ⟨xs, hx⟩ := hp (some (c, ctx)) (by simp) c ctx rfl
        refine ⟨⟨xs, hx, ?_⟩, ihr⟩
        simp only [(properList?_iff _ _ _).2 hx, Option.getD_some]
        exact roundedGuessN_okAt hr _
  obtain ⟨e', h1, _, _, h4, h5⟩ := histEl2_run_conserved_at empty one hwf₀ _ e hm hwf hed hops
  exact ⟨e', h1, h4, h5⟩

end Rounded

/-! ## every guess (the code after lena 4fbe73b, notes/C06_defect_3)

Since the search treats a guess at or beyond a bound as a guess on that bound, `bin1d_correct`
holds for every guess function, and with it every statement of the property holds with **no
hypothesis on the interpolation at all** — in particular for the IEEE-754 evaluation the code
really performs, whatever it rounds to. -/
section EveryGuess
variable {α β κ : Type} [LT α] [LE α] [DecidableLT α] [DecidableLE α] [DecidableEq α]
  [Std.IsLinearOrder α] [Std.LawfulOrderLT α]

/-- **Closed lower / open upper bound, every guess**: the result `r` is `−1` iff the value is below
the first edge, `len − 1` iff it is `≥` the last edge, and `i` iff `arr[i] ≤ val < arr[i+1]` -/
theorem bin1d_halfopen_any (guess : Nat → Nat → Int) {arr : List α} (hinc : StrictInc arr) (hne : arr ≠ [])
    (val : α) :
    ∃ r : Int, bin1d guess val arr = .ok r ∧
      (r = -1 ↔ val < arr[0]'(List.length_pos_iff.2 hne)) ∧
      (r = (arr.length : Int) - 1 ↔ arr[arr.length - 1]'(Nat.sub_lt (List.length_pos_iff.2 hne) Nat.one_pos) ≤ val) ∧
      (∀ (i : Nat) (h : i + 1 < arr.length), r = (i : Int) ↔ arr[i] ≤ val ∧ val < arr[i + 1]) := by
  have hmid : GuessOK (fun lo _ => (lo : Int)) := fun lo hi hle => ⟨Int.le_refl _, Int.ofNat_le.2 hle⟩
  obtain ⟨r, hr, rest⟩ := bin1d_halfopen _ hmid hinc hne val
  refine ⟨r, ?_, rest⟩
  rw [bin1d_correct guess val hinc hne, ← bin1d_correct (fun lo _ => (lo : Int)) val hinc hne]
  exact hr

theorem binsLoop_correct (g : Nat → Nat → Nat → Int) :
    ∀ (axes : List (List α)) (xs : List α) (k : Nat), xs.length = axes.length →
      (∀ arr ∈ axes, ValidAxis arr) → binsLoop g k xs axes = .ok (indices axes xs)
  | [], [], _, _, _ => rfl
  | [], _ :: _, _, hl, _ => by simp at hl
  | _ :: _, [], _, hl, _ => by simp at hl
  | arr :: axes, x :: xs, k, hl, hv => by
    have ha := hv arr (by simp)
    have hne : arr ≠ [] := by intro h; have := ha.1; simp [h] at this
    have ih := binsLoop_correct g axes xs (k + 1) (by simpa using hl)
      (fun a hm => hv a (List.mem_cons_of_mem _ hm))
    simp [binsLoop, bin1d_correct (g k) x ha.2 hne, ih, indices, bind, Except.bind, pure, Except.pure]

/-- **Sentence (4), any dimension, every guess**: the index reported along every axis is
(the number of edges not greater than the coordinate) − 1 -/
theorem getBinOnValue_correct (g : Nat → Nat → Nat → Int) {e : Edges α} (he : ValidEdges e)
    {c : Coord α} {xs : List α} (hp : Proper e c xs) :
    getBinOnValue g c e = .ok (indices e.axes xs) := by
  cases hp with
  | flat arr x =>
    have ha : ValidAxis arr := he.2 arr (by simp [Edges.axes])
    have hne : arr ≠ [] := by intro h; have := ha.1; simp [h] at this
    simp [getBinOnValue, bin1d_correct (g 0) x ha.2 hne, indices, Edges.axes, bind, Except.bind, pure, Except.pure]
  | nested axes xs hl =>
    have : ¬ xs.length ≠ axes.length := by simp [hl]
    simp only [getBinOnValue, this, if_false]
    exact binsLoop_correct g axes xs 0 hl he.2

variable [Lean.Grind.AddCommMonoid β]

/-- **Sentences (1)+(2), every guess**: in a well-formed histogram of any dimension a proper fill
is exactly `specFill` — the weight goes to the one cell containing the coordinate, or to
`n_out_of_range` if there is none -/
theorem fill_correct (g : Nat → Nat → Nat → Int) {h : Hist α β} (hwf : WF h)
    {c : Coord α} {xs : List α} (hp : Proper h.edges c xs) (w : β) :
    fill g h c w =
      .ok { h with bins := (specFill h.edges.axes (h.bins, h.nOut) xs w).1,
                   nOut := (specFill h.edges.axes (h.bins, h.nOut) xs w).2 } := by
  have hmid : GuessesOK (fun _ lo _ => (lo : Int)) := fun _ lo hi hle => ⟨Int.le_refl _, Int.ofNat_le.2 hle⟩
  have h3 := fill_eq_specFill _ hmid hwf hp w
  simp only [fill, getBinOnValue_correct _ hwf.edges hp] at h3 ⊢
  exact h3

theorem fill_exact_cell_any (g : Nat → Nat → Nat → Int) {h : Hist α β} (hwf : WF h)
    {c : Coord α} {xs : List α} (hp : Proper h.edges c xs) (w : β) {idx : List Nat}
    (hc : InCell h.edges.axes xs idx) :
    fill g h c w = .ok { h with bins := NArr.modifyAt (· + w) h.bins idx } := by
  rw [fill_correct g hwf hp w]
  simp only [specFill, (cellOf?_eq_some_iff _ _ idx (validEdges_strictInc hwf.edges) hp.length).2 hc]

theorem fill_out_of_range_any (g : Nat → Nat → Nat → Int) {h : Hist α β} (hwf : WF h)
    {c : Coord α} {xs : List α} (hp : Proper h.edges c xs) (w : β)
    (hno : ∀ idx, ¬ InCell h.edges.axes xs idx) :
    fill g h c w = .ok { h with nOut := h.nOut + w } := by
  rw [fill_correct g hwf hp w]
  simp only [specFill, (cellOf?_eq_none_iff _ _ (validEdges_strictInc hwf.edges) hp.length).2 hno]

/-- **Sentences (1)–(3) observationally, every guess** -/
theorem fill_frame_any (g : Nat → Nat → Nat → Int) {h : Hist α β} (hwf : WF h)
    {c : Coord α} {xs : List α} (hp : Proper h.edges c xs) (w : β) :
    ∃ h', fill g h c w = .ok h' ∧ h'.edges = h.edges ∧ h'.dim = h.dim ∧
      ((∃ idx c₀, InCell h.edges.axes xs idx ∧ h'.nOut = h.nOut ∧
          NArr.get? h.bins idx = some (.leaf c₀) ∧
          NArr.get? h'.bins idx = some (.leaf (c₀ + w)) ∧
          ∀ j, j ≠ idx → j.length = idx.length → NArr.get? h'.bins j = NArr.get? h.bins j)
       ∨ ((∀ idx, ¬ InCell h.edges.axes xs idx) ∧ h'.bins = h.bins ∧ h'.nOut = h.nOut + w)) := by
  have hmid : GuessesOK (fun _ lo _ => (lo : Int)) := fun _ lo hi hle => ⟨Int.le_refl _, Int.ofNat_le.2 hle⟩
  obtain ⟨h', hf, rest⟩ := fill_frame _ hmid hwf hp w
  refine ⟨h', ?_, rest⟩
  rw [fill_correct g hwf hp w, ← fill_eq_specFill _ hmid hwf hp w]
  exact hf

/-- **Any sequence of proper fills, every guess**: nothing raises, and the result is the
specification-side interpreter -/
theorem fillAll_correct :
    ∀ (ops : List ((Nat → Nat → Nat → Int) × Coord α × β)) (h : Hist α β), WF h →
      (∀ op ∈ ops, ∃ xs, Proper h.edges op.2.1 xs) →
    fillAll h ops =
      .ok { h with bins := (specFillAll h.edges.axes (h.bins, h.nOut) (opsPoints h.edges ops)).1,
                   nOut := (specFillAll h.edges.axes (h.bins, h.nOut) (opsPoints h.edges ops)).2 }
  | [], h, _, _ => rfl
  | (g, c, w) :: rest, h, hwf, hops => by
    obtain ⟨xs, hp⟩ := hops (g, c, w) (by simp)
    have h1 := fill_correct g hwf hp w
    have hwf1 := fill_wf g c w h1 hwf
    have ih := fillAll_correct rest _ hwf1 (fun op hm => hops op (List.mem_cons_of_mem _ hm))
    simp only [fillAll, h1, bind, Except.bind, ih, opsPoints, (properList?_iff _ _ _).2 hp,
      Option.getD_some, specFillAll]

/-- **Sentence (5) for the structure, every guess**: for strictly increasing edges in any
dimension and any sequence of proper coordinates and weights, creation succeeds, no fill raises,
the edges are unchanged, and the sum of all bins plus `n_out_of_range` equals the total weight -/
theorem weight_conserved_any {e : Edges α} (he : ValidEdges e)
    (ops : List ((Nat → Nat → Nat → Int) × Coord α × β)) (hops : ∀ op ∈ ops, ∃ xs, Proper e op.2.1 xs) :
    ∃ h₀ h, mkHist e none (0 : β) = .ok h₀ ∧ fillAll h₀ ops = .ok h ∧ h.edges = e ∧
      total h.bins + h.nOut = sumW (ops.map (·.2.2)) := by
  have hd := mkHist_valid he (0 : β)
  obtain ⟨hwf, hedges, hn, hb⟩ := mkHist_wf he (0 : β) hd
  have hf := fillAll_correct ops _ hwf (by rw [hedges]; exact hops)
  have hc := (fillAll_conserves ops _ _ hf).2
  simp only [total_full_zero, zero_add', Lean.Grind.AddCommMonoid.add_zero] at hc
  exact ⟨_, _, hd, hf, rfl, by simpa using hc⟩

/-- **Sentence (5) for a re-used element, every guess** -/
theorem histEl2_run_correct (empty : κ) (one : β) {h₀ : Hist α β} (hwf₀ : WF h₀) :
    ∀ (ops : List (ElOp α κ)) (e : HistEl2 α β κ),
      mkHist e.cfg.edges e.cfg.startBins e.cfg.initialValue = .ok h₀ →
      WF e.hist → e.hist.edges = h₀.edges → ElOpsProper h₀.edges ops →
      ∃ e', HistEl2.run empty one e ops = .ok e' ∧ e'.cfg = e.cfg ∧ WF e'.hist ∧ e'.hist.edges = h₀.edges ∧
        total e'.hist.bins + e'.hist.nOut =
          specSum (total h₀.bins + h₀.nOut) one (total e.hist.bins + e.hist.nOut) ops
  | [], e, _, hwf, hed, _ => ⟨e, rfl, rfl, hwf, hed, rfl⟩
  | .fill g c ctx :: rest, e, hm, hwf, hed, hops => by
    obtain ⟨⟨xs, hp⟩, hrest⟩ := hops
    have h1 := fill_correct g hwf (hed ▸ hp) one
    have hwf1 := fill_wf g c one h1 hwf
    have hc := (fill_conserves g e.hist _ c one h1).2.2
    have he := (fill_conserves g e.hist _ c one h1).1
    obtain ⟨e', hr, hcfg, hwf', hed', hs⟩ := histEl2_run_correct empty one hwf₀ rest
      { e with hist := _, curContext := ctx.getD empty } hm hwf1 (he.trans hed) hrest
    refine ⟨e', ?_, hcfg, hwf', hed', ?_⟩
    · simp only [HistEl2.run, HistEl2.fill, h1, bind, Except.bind, pure, Except.pure]
      exact hr
    · rw [hs]; simp only [specSum, hc]
  | .reset :: rest, e, hm, hwf, hed, hops => by
    obtain ⟨e', hr, hcfg, hwf', hed', hs⟩ :=
      histEl2_run_correct empty one hwf₀ rest { e with hist := h₀, curContext := empty } hm hwf₀ rfl hops
    refine ⟨e', ?_, hcfg, hwf', hed', ?_⟩
    · simp only [HistEl2.run, HistEl2.reset, hm, bind, Except.bind, pure, Except.pure]
      exact hr
    · rw [hs]; simp only [specSum]

/-- **Sentence (5) for the element `Histogram(edges)`, every guess** -/
theorem elem_weight_conserved_any (empty : κ) (one : β) {ed : Edges α} (he : ValidEdges ed)
    (vals : List ((Nat → Nat → Nat → Int) × Coord α × Option κ))
    (hv : ∀ v ∈ vals, ∃ xs, Proper ed v.2.1 xs) :
    ∃ e₀ e, HistEl.new empty ed none (0 : β) = .ok e₀ ∧ HistEl.fillAll empty one e₀ vals = .ok e ∧
      total e.hist.bins + e.hist.nOut = sumW (List.replicate vals.length one) ∧
      e.curContext = lastCtx empty empty vals := by
  have hops : ∀ op ∈ toOps one vals, ∃ xs, Proper ed op.2.1 xs := by
    intro op hm
    obtain ⟨v, hvm, rfl⟩ := List.mem_map.1 hm
    exact hv v hvm
  obtain ⟨h₀, h, hm, hf, _, hn⟩ := weight_conserved_any (β := β) he (toOps one vals) hops
  refine ⟨{ hist := h₀, curContext := empty }, { hist := h, curContext := lastCtx empty empty vals }, ?_, ?_, ?_, rfl⟩
  · simp [HistEl.new, hm, bind, Except.bind, pure, Except.pure]
  · rw [histEl_fillAll_eq, hf]; rfl
  · simp only []; rw [hn, sumW_toOps]

end EveryGuess

/-! ## non-vacuity: concrete instances (tests, not theorems) -/
section Examples

/-- rounding down to multiples of 1/8: a rounding that really rounds (`fl8 (3/10) = 1/4`) -/
def fl8 (x : Rat) : Rat := (((x * 8).floor : Int) : Rat) / 8

theorem fl8_mono (x y : Rat) (h : x ≤ y) : fl8 x ≤ fl8 y := by
  unfold fl8
  have h8 : x * 8 ≤ y * 8 := Rat.mul_le_mul_of_nonneg_right h (by grind)
  have hf : (((x * 8).floor : Int) : Rat) ≤ (((y * 8).floor : Int) : Rat) :=
    Rat.intCast_le_intCast.2 (Rat.le_floor_iff.2 (Rat.le_trans (Rat.floor_le _) h8))
  rw [Rat.div_def, Rat.div_def]
  exact Rat.mul_le_mul_of_nonneg_right hf (Rat.le_of_lt (Rat.inv_pos.2 (by grind)))

theorem fl8_int (n : Int) : fl8 (n : Rat) = (n : Rat) := by
  unfold fl8
  have : (n : Rat) * 8 = ((n * 8 : Int) : Rat) := by simp [Rat.intCast_mul]
  rw [this, Rat.floor_intCast]
  rw [Rat.intCast_mul, Rat.div_def, Rat.mul_assoc]
  have : ((8 : Int) : Rat) * (8 : Rat)⁻¹ = 1 := by
    have h8 : ((8 : Int) : Rat) = (8 : Rat) := by simp
    rw [h8]; exact Rat.mul_inv_cancel 8 (by grind)
  rw [this, Rat.mul_one]


/-- `fl8` satisfies `RoundingOK` on every mesh whose edges are integers -/
theorem fl8_roundingOK (axes : List (List Rat)) (hint : ∀ arr ∈ axes, ∀ x ∈ arr, ∃ n : Int, x = (n : Rat)) :
    RoundingOK fl8 axes where
  mono := fl8_mono
  zero := by have := fl8_int 0; simpa using this
  one := by have := fl8_int 1; simpa using this
  ints := fun _ _ d _ => fl8_int d
  nonzero := by
    intro arr ha i j hi hj hlt
    obtain ⟨m, hm⟩ := hint arr ha arr[i] (List.getElem_mem hi)
    obtain ⟨n, hn⟩ := hint arr ha arr[j] (List.getElem_mem hj)
    rw [hm, hn] at hlt ⊢
    have hmn : m < n := Rat.intCast_lt_intCast.1 hlt
    rw [← Rat.intCast_sub, fl8_int]
    have : (0 : Int) < n - m := by omega
    exact Rat.intCast_pos.2 this

/-- non-vacuity of `weight_conserved_rounded` / `fill_rounded` with a rounding that is not the identity -/
example (pts : List (Coord Rat × Int)) (hp : ∀ p ∈ pts, ∃ xs, Proper (.flat [0, 1, 4, 10] : Edges Rat) p.1 xs)
    (he : ValidEdges (.flat [0, 1, 4, 10] : Edges Rat)) :
    ∃ h₀ h, mkHist (.flat [0, 1, 4, 10] : Edges Rat) none (0 : Int) = .ok h₀ ∧
      fillAll h₀ (roundedOps fl8 (.flat [0, 1, 4, 10]) pts) = .ok h ∧ h.edges = .flat [0, 1, 4, 10] ∧
      total h.bins + h.nOut = sumW (pts.map (·.2)) :=
  weight_conserved_rounded he (fl8_roundingOK _ (by
    intro arr ha x hx
    simp only [Edges.axes, List.mem_cons, List.not_mem_nil, or_false] at ha
    subst ha
    simp only [List.mem_cons, List.not_mem_nil, or_false] at hx
    rcases hx with rfl | rfl | rfl | rfl
    · exact ⟨0, by simp⟩
    · exact ⟨1, by simp⟩
    · exact ⟨4, by simp⟩
    · exact ⟨10, by simp⟩)) pts hp


/-- every guess: a guess function that is never in range still fills the right cell
(`fill_exact_cell_any`; before lena 4fbe73b the model answered `unmodelled` here and the real code
could hang, notes/C06_defect_3.md) -/
example : fill (fun _ _ _ => -5) exHist (.tuple [3, 1]) (5 : Int) =
    .ok { exHist with bins := .node [.node [.leaf 0, .leaf 0], .node [.leaf 0, .leaf 0],
                                      .node [.leaf 0, .leaf 5]] } := by
  rw [fill_exact_cell_any _ exHist_wf ex_proper 5 ex_inCell]; rfl

example : ∃ h₀ h, mkHist exEdges none (0 : Int) = .ok h₀ ∧
    fillAll h₀ [(fun _ _ _ => 1000, .tuple [3, 1], 5), (fun _ _ _ => -7, .tuple [3, 6], -2)] = .ok h ∧
    h.edges = exEdges ∧ total h.bins + h.nOut = 3 :=
  weight_conserved_any exEdges_valid _ (by
    intro op hop
    simp only [List.mem_cons, List.not_mem_nil, or_false] at hop
    rcases hop with rfl | rfl <;> exact ⟨_, Proper.nested _ _ rfl⟩)

/-- `fill_interp`, `weight_conserved_interp` on the 3 × 2 mesh -/
example : fill (interpGuessN exHist.edges.axes [3, 1]) exHist (.tuple [3, 1]) (5 : Int) =
    .ok { exHist with bins := .node [.node [.leaf 0, .leaf 0], .node [.leaf 0, .leaf 0],
                                      .node [.leaf 0, .leaf 5]] } := by
  rw [fill_interp exHist_wf ex_proper 5]; rfl

example : ∃ h₀ h, mkHist exEdges none (0 : Int) = .ok h₀ ∧
    fillAll h₀ (interpOps exEdges [(.tuple [3, 1], 5), (.tuple [3, 6], -2), (.tuple [0, -3], 7)]) = .ok h ∧
    h.edges = exEdges ∧ total h.bins + h.nOut = 10 :=
  weight_conserved_interp exEdges_valid _ (by
    intro p hp
    simp only [List.mem_cons, List.not_mem_nil, or_false] at hp
    rcases hp with rfl | rfl | rfl <;> exact ⟨_, Proper.nested _ _ rfl⟩)

/-- `fillAll_eq_specFillAll`: the sequence `exOps` is the specification-side interpreter -/
example : fillAll exHist exOps =
    .ok { exHist with bins := .node [.node [.leaf 7, .leaf 0], .node [.leaf 0, .leaf 0], .node [.leaf 0, .leaf 5]],
                      nOut := -2 } := by
  rw [fillAll_eq_specFillAll exOps exHist exHist_wf exOps_ok]; rfl

/-- `elem_weight_conserved(_at)`: three values through `Histogram(exEdges)` -/
example : ∃ e₀ e, HistEl.new (none : Option Int) exEdges none (0 : Int) = .ok e₀ ∧
    HistEl.fillAll none 1 e₀ [(fun _ => midGuess, .tuple [3, 1], some (some 7)), (fun _ => midGuess, .tuple [3, 6], none),
      (fun _ _ hi => hi, .tuple [0, -3], some none)] = .ok e ∧
    total e.hist.bins + e.hist.nOut = 3 ∧ e.curContext = none :=
  elem_weight_conserved none (1 : Int) exEdges_valid _ (by
    intro v hv
    simp only [List.mem_cons, List.not_mem_nil, or_false] at hv
    rcases hv with rfl | rfl | rfl
    · exact ⟨fun _ => midGuess_ok, _, Proper.nested _ _ rfl⟩
    · exact ⟨fun _ => midGuess_ok, _, Proper.nested _ _ rfl⟩
    · exact ⟨fun _ => hiGuess_ok, _, Proper.nested _ _ rfl⟩)

/-- `mkHist_bins_wf`: a histogram created from its own bins is well-formed -/
example : ∃ h, mkHist exEdges (some (NArr.full [3, 2] (4 : Int))) (0 : Int) = .ok h ∧ WF h ∧ h.edges = exEdges ∧
    h.bins = NArr.full [3, 2] 4 ∧ h.nOut = 0 :=
  mkHist_bins_wf exEdges_valid _ 0 (hasShape_full 4 [3, 2])

end Examples

end Lena.C06
