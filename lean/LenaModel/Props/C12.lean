import LenaModel.Model.C12
import LenaModel.Lemmas.C12
import LenaModel.Lemmas.C12Hist
import LenaModel.Lemmas.C12Graph
import LenaModel.Lemmas.C12Csv
/-! # C12 — property theorems (histogram and graph arithmetic, scaling and conversions keep every cell)

All theorems are about the executable model `LenaModel/Model/C12.lean` (+ `NArr.lean`) over exact rationals, for
histograms of any dimension and shape, any contents, targets, weights and field names ("all inputs" = all values of
the model types; on states the constructor rejects, e.g. empty axes, the model is not claimed to be the code).
One-dimensional edges nested in a list (`[[x0, …]]`) are covered by `mkHistU`/`addU`/`toCsvHistU` and the theorems
`addU_cellwise`, `addU_defined`, `csv_rows_1d_any`, `csv_rows_valid_1d` of `Props/C12Ext.lean`; the iterator,
`scale`, `set_nevents`, `hist_to_graph` theorems here use `Edges.axes` only and hold for that format as they stand.  "Up to rounding" and the
printed precision of CSV numbers are floating-point facts outside the model (DESIGN.md section 8); the harness
checks them numerically on the real code.

Vocabulary used in the statements (defined, with their helper lemmas, in `Lemmas/C12*.lean`):
* `Hist.WF h` — `h` has at least one axis and its bins have the shape of its edges (`HasShape h.nbins h.bins`);
  `Hist.Valid` adds that the edges pass `check_edges_increasing` (what `histogram.__init__` accepts);
* `cells bins` — what `iter_bins(bins)` yields, `(index, content)` in order (`NArr.lean`); `get? bins idx` — `bins[i0][i1]…`;
* `cellEdgesRef axes idx` — the edges `((lo, hi), …)` of the cell with index `idx`;
* `ValidRanges axes rg`, `rangePred`, `selAll` — one valid `(low, up)` index range per axis, and the indices it selects;
* `isErrField f` — the field name starts with `error_`; `ErrorFieldOf c f` — `f` is `error_<c>` or `error_<c>_<suffix>`;
* `graphValue`, `pointOf mode mv edges v` — the point `hist_to_graph` makes of a cell: coordinates by mode, then value(s);
* `bins1d vals`, `bins2d vals` — bins given as (lists of) lists of numbers; `rowsFor ys yLast dup x r` — the CSV rows
  written for one `x`: one per `y` bin plus, when duplicating, the last one repeated at the last `y` edge;
  `cellRow axes (idx, v)` — lower edges of the cell, then its content. -/

namespace Lena.C12
open Lena Lena.NArr

/-- the example histogram of the non-vacuity checks: edges `[0, 1, 3]`, bins `[1, 2]`, one value out of range -/
def exHist : Hist := { edges := .flat [0, 1, 3], bins := .node [.leaf 1, .leaf 2], nOut := 1, scale := none }
/-- a two-dimensional example: edges `[[0, 1, 3], [0, 2]]`, bins `[[1], [2]]` -/
def exHist2 : Hist := { edges := .nested [[0, 1, 3], [0, 2]], bins := .node [.node [.leaf 1], .node [.leaf 2]],
                        nOut := 0, scale := none }

theorem exHist_wf : exHist.WF := by
  refine ⟨by simp [exHist, Edges.axes], ?_⟩
  simp [exHist, Hist.nbins, nbinsOf, Edges.axes, HasShape]
theorem exHist2_wf : exHist2.WF := by
  refine ⟨by simp [exHist2, Edges.axes], ?_⟩
  simp [exHist2, Hist.nbins, nbinsOf, Edges.axes, HasShape]

/-! ## Rescaling a histogram

"Rescaling a histogram … to s multiplies exactly its contents (bins and n_out_of_range) by s/old scale, leaves
edges … untouched, makes the recomputed scale equal s … and raises LenaValueError for a zero … scale". -/

/-- `hist.scale(s)`, when it returns: the old scale `I` (cached or computed) is not zero, every bin and
`n_out_of_range` are multiplied by `s/I`, the edges are untouched, the stored scale is `s`.  All inputs. -/
theorem hist_scale (h h' : Hist) (s : Q) (hs : setScale h s = .ok h') :
    ∃ I, getScale h false = .ok ({ h with scale := some I }, I) ∧ I ≠ 0 ∧
      h'.bins = map (fun b => b * s / I) h.bins ∧ h'.nOut = h.nOut * (s / I) ∧
      h'.edges = h.edges ∧ h'.scale = some s := by
  unfold setScale at hs
  cases hg : getScale h false with
  | error e => simp [hg, bind, Except.bind] at hs
  | ok p =>
    obtain ⟨h1, I⟩ := p
    have hf := getScale_frame h h1 false I hg
    simp only [hg, bind, Except.bind] at hs
    split at hs
    · simp at hs
    · rename_i hI
      cases hm : mdMap (fun binc => binc * s / I) h1.bins with
      | error e => simp [hm] at hs
      | ok b =>
        have hb := mdMap_eq_map _ _ _ hm
        simp [hm, pure, Except.pure] at hs
        subst hs
        subst hf
        exact ⟨I, rfl, hI, by simpa using hb, rfl, rfl, rfl⟩

example : (setScale exHist 10).toOption.map (fun h' => (values h'.bins, h'.nOut, h'.scale)) = some ([2, 4], 2, some 10) := by
  decide +kernel

/-- the recomputed scale after `hist.scale(s)` is `s`, when the old scale was the integral of the histogram (not a
stale cached value).  `_partial`: the sentence "makes the recomputed scale equal s" without this hypothesis is false
of the code (`hist_scale_recomputed_full`, `hist_scale_recomputed_full_false` in `Props/C12Ext.lean`: a stale stored
`_scale` is used as the old scale — lena documents that the user must recompute after changing the contents). -/
theorem hist_scale_recomputed_partial (h h' : Hist) (s : Q) (hs : setScale h s = .ok h')
    (hfresh : ∀ c, h.scale = some c → integral h.bins h.edges.axes = .ok c) :
    getScale h' true = .ok ({ h' with scale := some s }, s) := by
  obtain ⟨I, hg, hI, hb, _, he, _⟩ := hist_scale h h' s hs
  have hint : integral h.bins h.edges.axes = .ok I := by
    cases hsc : h.scale with
    | some c =>
      simp [getScale, hsc] at hg
      rw [← hg.2]
      exact hfresh c hsc
    | none =>
      cases hi : integral h.bins h.edges.axes with
      | error e => simp [getScale, hsc, hi, bind, Except.bind] at hg
      | ok c =>
        simp [getScale, hsc, hi, bind, Except.bind, pure, Except.pure] at hg
        rw [hg]
  have hfun : (fun b : Q => b * s / I) = (· * (s / I)) := by
    funext b; grind
  have := integral_map_mul h.bins h.edges.axes (s / I) I hint
  have hval : I * (s / I) = s := by grind
  unfold getScale
  simp only [hb, he, hfun, this, hval]
  cases h'.scale <;> simp [bind, Except.bind, pure, Except.pure]

example : (getScale ((setScale exHist2 10).toOption.getD exHist2) true).toOption.map (·.2) = some 10 := by
  decide +kernel

/-- a histogram whose scale is zero cannot be rescaled: `LenaValueError` -/
theorem hist_scale_zero (h : Hist) (s : Q) (hz : (getScale h false).toOption.map (·.2) = some 0) :
    setScale h s = .error .lenaValueError := by
  cases hg : getScale h false with
  | error e => simp [hg, Except.toOption] at hz
  | ok p =>
    obtain ⟨h1, I⟩ := p
    simp [hg, Except.toOption] at hz
    subst hz
    simp [setScale, hg, bind, Except.bind]

example : setScale { exHist with bins := .node [.leaf 2, .leaf (-1)] } 5 = .error .lenaValueError :=
  hist_scale_zero _ 5 (by decide +kernel)

/-- on a well-formed histogram `scale()` raises nothing, and `scale(s)` raises exactly when the scale is zero -/
theorem hist_scale_total (h : Hist) (wf : h.WF) (s : Q) :
    ∃ I, getScale h false = .ok ({ h with scale := some I }, I) ∧
      (I = 0 → setScale h s = .error .lenaValueError) ∧ (I ≠ 0 → ∃ h', setScale h s = .ok h') := by
  have hg : ∃ I h1, getScale h false = .ok (h1, I) := by
    cases hsc : h.scale with
    | some c => exact ⟨c, h, by simp [getScale, hsc]⟩
    | none =>
      obtain ⟨I, hI⟩ := integral_ok h.bins h.edges.axes wf.2
      exact ⟨I, { h with scale := some I }, by simp [getScale, hsc, hI, bind, Except.bind, pure, Except.pure]⟩
  obtain ⟨I, h1, hg⟩ := hg
  have hf := getScale_frame h h1 false I hg
  subst hf
  refine ⟨I, hg, ?_, ?_⟩
  · intro h0; subst h0; exact hist_scale_zero h s (by simp [hg, Except.toOption])
  · intro hI
    have hshape : ∃ n ns, h.nbins = n :: ns := by
      have := wf.1
      unfold Hist.nbins nbinsOf
      cases hax : h.edges.axes with
      | nil => exact absurd hax this
      | cons e es => exact ⟨_, _, rfl⟩
    obtain ⟨n, ns, hn⟩ := hshape
    have hm := mdMap_ok (fun binc : Q => binc * s / I) ns n h.bins (hn ▸ wf.2)
    exact ⟨{ h with bins := map (fun binc => binc * s / I) h.bins, nOut := h.nOut * (s / I), scale := some s },
      by simp [setScale, hg, bind, Except.bind, hI, hm, pure, Except.pure]⟩

/-! ## `get_nevents`, `set_nevents`

"set_nevents(n) makes get_nevents() equal n". -/

/-- `hist.set_nevents(n, include_out_of_range)`, when it returns: the old number of events was not zero, every bin
and `n_out_of_range` are multiplied by `n/old`, edges untouched, and `get_nevents(include_out_of_range)` is `n`
afterwards.  All inputs. -/
theorem set_nevents_spec (h h' : Hist) (n : Q) (incl : Bool) (hs : setNevents h n incl = .ok h') :
    getNevents h incl ≠ 0 ∧ getNevents h' incl = n ∧
      h'.bins = map (· * (n / getNevents h incl)) h.bins ∧ h'.nOut = h.nOut * (n / getNevents h incl) ∧
      h'.edges = h.edges := by
  unfold setNevents at hs
  simp only at hs
  split at hs
  · simp at hs
  · rename_i hold
    cases hm : mdMap (fun binc => binc * (n / getNevents h incl)) h.bins with
    | error e => simp [hm, bind, Except.bind] at hs
    | ok b =>
      have hb := mdMap_eq_map _ _ _ hm
      simp [hm, bind, Except.bind, pure, Except.pure] at hs
      subst hs
      refine ⟨hold, ?_, hb, rfl, rfl⟩
      subst hb
      unfold getNevents at hold ⊢
      simp only [values_map, sumQ_map_mul]
      cases incl <;> simp at hold ⊢ <;> grind

example : (setNevents exHist 8 true).toOption.map (fun h' => (values h'.bins, h'.nOut, getNevents h' true)) =
    some ([2, 4], 2, 8) := by decide +kernel

/-- a histogram with zero events cannot be rescaled: `LenaValueError` -/
theorem set_nevents_zero (h : Hist) (n : Q) (incl : Bool) (hz : getNevents h incl = 0) :
    setNevents h n incl = .error .lenaValueError := by
  simp [setNevents, hz]

example : setNevents { exHist with bins := .node [.leaf 2, .leaf (-2)] } 5 false = .error .lenaValueError :=
  set_nevents_zero _ _ _ (by decide +kernel)

/-- on a well-formed histogram `set_nevents` raises exactly when there are zero events -/
theorem set_nevents_total (h : Hist) (wf : h.WF) (n : Q) (incl : Bool) (hnz : getNevents h incl ≠ 0) :
    ∃ h', setNevents h n incl = .ok h' := by
  have hshape : ∃ m ms, h.nbins = m :: ms := by
    have := wf.1
    unfold Hist.nbins nbinsOf
    cases hax : h.edges.axes with
    | nil => exact absurd hax this
    | cons e es => exact ⟨_, _, rfl⟩
  obtain ⟨m, ms, hn⟩ := hshape
  have hm := mdMap_ok (fun binc : Q => binc * (n / getNevents h incl)) ms m h.bins (hn ▸ wf.2)
  exact ⟨{ h with bins := map (fun binc => binc * (n / getNevents h incl)) h.bins,
                  nOut := h.nOut * (n / getNevents h incl) },
    by simp [setNevents, hnz, hm, bind, Except.bind, pure, Except.pure]⟩

/-- `get_nevents` is the sum of the cells that `iter_bins` yields (plus `n_out_of_range` when asked) -/
theorem get_nevents_spec (h : Hist) :
    getNevents h false = sumQ ((cells h.bins).map (·.2)) ∧ getNevents h true = getNevents h false + h.nOut := by
  simp [getNevents, values]

/-! ## `histogram.add`

"histogram.add returns the cell-wise a + w*b without modifying its operands and only for equal edges".  (Operands
are values here; that the real objects are not modified is checked by the harness.) -/

/-- `a.add(b, w)`, when it returns `c`: the numbers of bins agree and the edges are close within the given
tolerances; `c` has the edges of `a`, its bins are the cell-wise `a + b*w` (for arrays of any shape), its
`n_out_of_range` is `a.n_out_of_range + b.n_out_of_range*w`, its scale is not computed.  All inputs. -/
theorem add_cellwise (a b c : Hist) (w : Q) (t : Tol) (h : add a b w t = .ok c) :
    a.nbins = b.nbins ∧ iscloseEdges t a.edges b.edges = .ok true ∧
      c.edges = a.edges ∧ c.bins = zipWith (fun x y => x + y * w) a.bins b.bins ∧
      c.nOut = a.nOut + b.nOut * w ∧ c.scale = none := by
  by_cases hn : a.nbins = b.nbins
  case neg => simp [add, hn, bind, Except.bind, pure, Except.pure] at h
  cases hc : iscloseEdges t a.edges b.edges with
  | error e => simp [add, hn, hc, bind, Except.bind] at h
  | ok cl =>
    cases cl with
    | false => simp [add, hn, hc, bind, Except.bind, pure, Except.pure] at h
    | true =>
      have key : ∃ ob nb nh, weightedBins b w = .ok ob ∧ mdMap2 (· + ·) a.bins ob = .ok nb ∧
          mkHist a.edges (some nb) 0 = .ok nh ∧ c = { nh with nOut := a.nOut + b.nOut * w } := by
        by_cases hw : w = 1
        · subst hw
          simp only [add, hn, hc, bind, Except.bind, pure, Except.pure, ne_eq, not_true_eq_false, if_false,
            Bool.not_true, Bool.false_eq_true] at h
          cases hm : mdMap2 (· + ·) a.bins b.bins with
          | error e => simp [hm] at h
          | ok nb =>
            cases hk : mkHist a.edges (some nb) 0 with
            | error e => simp [hm, hk] at h
            | ok nh =>
              simp [hm, hk] at h
              exact ⟨b.bins, nb, nh, by simp [weightedBins, pure, Except.pure], hm, hk, by rw [← h]; simp⟩
        · simp only [add, hn, hc, bind, Except.bind, pure, Except.pure, ne_eq, not_true_eq_false, if_false,
            Bool.not_true, Bool.false_eq_true, hw, not_false_eq_true, if_true] at h
          cases ho : mdMap (fun val => val * w) b.bins with
          | error e => simp [ho] at h
          | ok ob =>
            cases hm : mdMap2 (· + ·) a.bins ob with
            | error e => simp [ho, hm] at h
            | ok nb =>
              cases hk : mkHist a.edges (some nb) 0 with
              | error e => simp [ho, hm, hk] at h
              | ok nh =>
                simp [ho, hm, hk] at h
                exact ⟨ob, nb, nh, by simp [weightedBins, hw, ho], hm, hk, h.symm⟩
      obtain ⟨ob, nb, nh, ho, hm, hk, rfl⟩ := key
      have hnb := weightedBins_zip a b w ob nb ho hm
      have hst := mkHist_some _ _ _ _ hk
      exact ⟨hn, rfl, hst.1, by rw [← hnb]; exact hst.2.1, rfl, hst.2.2.1⟩

example : (add exHist { exHist with bins := .node [.leaf 10, .leaf 20], nOut := 3 } (1/2) ⟨0, 0⟩).toOption.map
    (fun c => (values c.bins, c.nOut)) = some ([6, 12], 5/2) := by decide +kernel

/-- cell-wise, spelled out: the cell of the sum at any index is `a[idx] + b[idx]*w` -/
theorem add_cell (a b c : Hist) (w : Q) (t : Tol) (h : add a b w t = .ok c) (idx : List Nat) (x y : Q)
    (hx : get? a.bins idx = some (.leaf x)) (hy : get? b.bins idx = some (.leaf y)) :
    get? c.bins idx = some (.leaf (x + y * w)) := by
  rw [(add_cellwise a b c w t h).2.2.2.1]
  exact get?_zipWith _ idx _ _ x y hx hy

/-- histograms with different numbers of bins are not added: `LenaValueError` -/
theorem add_rejects_nbins (a b : Hist) (w : Q) (t : Tol) (hn : a.nbins ≠ b.nbins) :
    add a b w t = .error .lenaValueError := by
  simp [add, hn, bind, Except.bind, pure, Except.pure]

/-- histograms whose edges are not close are not added: `LenaValueError` -/
theorem add_rejects_edges (a b : Hist) (w : Q) (t : Tol)
    (hc : (iscloseEdges t a.edges b.edges).toOption = some false) : add a b w t = .error .lenaValueError := by
  cases hc' : iscloseEdges t a.edges b.edges with
  | error e => simp [hc', Except.toOption] at hc
  | ok cl =>
    simp [hc', Except.toOption] at hc
    subst hc
    by_cases hn : a.nbins = b.nbins <;> simp [add, hn, hc', bind, Except.bind, pure, Except.pure]

example : add exHist { exHist with edges := .flat [0, 1, 4] } 1 ⟨1 / 1000000000, 0⟩ = .error .lenaValueError :=
  add_rejects_edges _ _ _ _ (by decide +kernel)
example : add exHist exHist2 1 ⟨1 / 1000000000, 0⟩ = .error .lenaValueError :=
  add_rejects_nbins _ _ _ _ (by decide +kernel)

/-- "only for equal edges": with zero tolerances, histograms (with non-empty edge arrays) that were added have
the same edges -/
theorem add_only_equal_edges (a b c : Hist) (w : Q) (h : add a b w ⟨0, 0⟩ = .ok c)
    (ha : a.edges.NonEmptyAxes) (hb : b.edges.NonEmptyAxes) : a.edges = b.edges := by
  obtain ⟨hn, hc, _⟩ := add_cellwise a b c w _ h
  unfold Hist.nbins at hn
  cases hea : a.edges with
  | flat ea =>
    cases heb : b.edges with
    | flat eb =>
      simp only [hea, heb, Edges.axes, iscloseEdges] at hn hc
      have := iscloseAxes_zero [ea] [eb] hn (by simpa [Edges.NonEmptyAxes, hea, Edges.axes] using ha)
        (by simpa [Edges.NonEmptyAxes, heb, Edges.axes] using hb)
        (by simp [iscloseAxes, hc, bind, Except.bind])
      simp at this
      rw [this]
    | nested eb =>
      rw [hea, heb] at hc
      cases ea with
      | nil =>
        have := ha [] (by simp [hea, Edges.axes])
        exact absurd rfl this
      | cons x ea => simp [iscloseEdges] at hc
  | nested ea =>
    cases heb : b.edges with
    | flat eb =>
      rw [hea, heb] at hc hn
      cases ea with
      | nil => simp [Edges.axes, nbinsOf] at hn
      | cons x ea => simp [iscloseEdges] at hc
    | nested eb =>
      simp only [hea, heb, Edges.axes, iscloseEdges] at hn hc
      rw [iscloseAxes_zero ea eb hn (by simpa [Edges.NonEmptyAxes, hea, Edges.axes] using ha)
        (by simpa [Edges.NonEmptyAxes, heb, Edges.axes] using hb) hc]

example : exHist.edges.NonEmptyAxes := by simp [exHist, Edges.NonEmptyAxes, Edges.axes]

/-! ## Iterators agree

"iter_bins, iter_bins_with_edges and iter_cells agree on content, index and edges". -/

/-- `iter_bins_with_edges(hist.bins, hist.edges)` yields, for the cells `(idx, v)` of `iter_bins(hist.bins)` in
the same order, the content `v` with the edges of cell `idx`.  Any dimension, any shape. -/
theorem iter_bins_with_edges_agrees (h : Hist) (wf : h.WF) :
    iterBinsWithEdges h.bins h.edges =
      .ok ((cells h.bins).map (fun p => (.leaf p.2, cellEdgesRef h.edges.axes p.1))) := by
  unfold iterBinsWithEdges
  simp only
  have hs : HasShape (nbinsOf h.edges.axes) h.bins := wf.2
  rw [ranges_eq, ← cells_fst _ _ hs]
  apply mapM_map_ok
  intro p hp
  obtain ⟨h1, h2⟩ := cell_facts h wf p hp
  simp [h1, h2, bind, Except.bind, pure, Except.pure]

/-- `iter_cells(hist)` (no ranges) yields, for the cells `(idx, v)` of `iter_bins(hist.bins)` in the same order,
`HistCell(edges of cell idx, v, idx)`.  Any dimension, any shape. -/
theorem iter_cells_agrees (h : Hist) (wf : h.WF) :
    iterCells h none =
      .ok ((cells h.bins).map (fun p => { edges := cellEdgesRef h.edges.axes p.1, bin := .leaf p.2, index := p.1 })) := by
  unfold iterCells
  simp only [Hist.dim, realIndRanges_default, bind, Except.bind]
  have hs : HasShape (nbinsOf h.edges.axes) h.bins := wf.2
  rw [← cells_fst _ _ hs]
  apply mapM_map_ok
  intro p hp
  obtain ⟨h1, h2⟩ := cell_facts h wf p hp
  simp [h1, h2, pure, Except.pure]

/-- the empty `ranges` tuple means no restriction, like `None` -/
theorem iter_cells_empty_ranges (h : Hist) : iterCells h (some []) = iterCells h none := rfl

/-- the three iterators agree: same cells, same order, same content, index and edges -/
theorem iterators_agree (h : Hist) (wf : h.WF) :
    ∃ bwe cs, iterBinsWithEdges h.bins h.edges = .ok bwe ∧ iterCells h none = .ok cs ∧
      bwe.map (·.1) = (cells h.bins).map (fun p => .leaf p.2) ∧
      cs.map (·.bin) = (cells h.bins).map (fun p => .leaf p.2) ∧
      cs.map (·.index) = (cells h.bins).map (·.1) ∧
      cs.map (·.edges) = bwe.map (·.2) ∧
      (cells h.bins).map (·.1) = indexProd (h.nbins.map List.range) :=
  ⟨_, _, iter_bins_with_edges_agrees h wf, iter_cells_agrees h wf, by simp [Function.comp_def],
    by simp [Function.comp_def], by simp [Function.comp_def], by simp [Function.comp_def], cells_fst _ _ wf.2⟩

example : (iterCells exHist2 none).toOption.map (fun l => l.map (fun c => (c.edges, c.index))) =
    some [([(0, 1), (0, 2)], [0, 0]), ([(1, 3), (0, 2)], [1, 0])] := by decide +kernel
example : (iterBinsWithEdges exHist2.bins exHist2.edges).toOption.map (fun l => l.map (·.2)) =
    some [[(0, 1), (0, 2)], [(1, 3), (0, 2)]] := by decide +kernel

/-! ### `iter_cells` with index ranges -/

/-- `iter_cells(hist, ranges)` with one valid index range per coordinate yields exactly the cells of `iter_bins`
whose index lies in every range, in the same order, as `HistCell(edges, content, index)`.  Any dimension. -/
theorem iter_cells_ranges (h : Hist) (wf : h.WF) (r : Option Int × Option Int) (rs : List (Option Int × Option Int))
    (hv : ValidRanges h.edges.axes (r :: rs)) :
    iterCells h (some (r :: rs)) =
      .ok (((cells h.bins).filter (fun p => selAll (List.zipWith rangePred h.edges.axes (r :: rs)) p.1)).map
        (fun p => { edges := cellEdgesRef h.edges.axes p.1, bin := .leaf p.2, index := p.1 })) := by
  have hs : HasShape (nbinsOf h.edges.axes) h.bins := wf.2
  unfold iterCells
  simp only [realIndRanges_valid _ _ hv, bind, Except.bind]
  rw [indexProd_filter _ _ (by
    have := validRanges_length _ _ hv
    simp [nbinsOf, ← this]), ← cells_fst _ _ hs, List.filter_map]
  apply mapM_map_ok
  intro p hp
  obtain ⟨h1, h2⟩ := cell_facts h wf p (List.mem_filter.1 hp).1
  simp [h1, h2, pure, Except.pure]

example : ValidRanges exHist2.edges.axes [(some 1, none), (none, some 1)] := by
  simp [ValidRanges, ValidRange, exHist2, Edges.axes]
example : (iterCells exHist2 (some [(some 1, none), (none, some 1)])).toOption.map (fun l => l.map (·.index)) =
    some [[1, 0]] := by decide +kernel

theorem iter_cells_bad_range (h : Hist) (r : Option Int × Option Int) (rs : List (Option Int × Option Int))
    (hl : (r :: rs).length ≤ h.edges.axes.length)
    (hbad : ∃ (k : Nat) (e : List Q) (r' : Option Int × Option Int), h.edges.axes[k]? = some e ∧ (r :: rs)[k]? = some r' ∧ ¬ ValidRange e r') :
    iterCells h (some (r :: rs)) = .error .lenaValueError := by
  unfold iterCells
  simp [realIndRanges_invalid _ _ hl hbad, bind, Except.bind]

example : iterCells exHist (some [(some (-1), none)]) = .error .lenaValueError :=
  iter_cells_bad_range _ _ _ (by simp [exHist, Edges.axes])
    ⟨0, [0, 1, 3], (some (-1), none), by simp [exHist, Edges.axes], by simp, by simp [ValidRange]⟩
example : iterCells exHist (some [(none, some 3)]) = .error .lenaValueError :=
  iter_cells_bad_range _ _ _ (by simp [exHist, Edges.axes])
    ⟨0, [0, 1, 3], (none, some 3), by simp [exHist, Edges.axes], by simp, by simp [ValidRange]⟩

/-! ## Rescaling a graph

"Rescaling … a graph to s multiplies exactly … the last coordinate and its error columns by s/old scale, leaves … the
other coordinates untouched, makes the … scale equal s … and raises LenaValueError for a zero or unknown scale". -/

/-- a graph whose scale is unknown or zero cannot be rescaled: `LenaValueError` -/
theorem graph_scale_unknown_or_zero (g : Graph) (s : Q) (h : g.scale = none ∨ g.scale = some 0) :
    graphSetScale g s = .error .lenaValueError := by
  rcases h with h | h <;> simp [graphSetScale, h]

/-- `graph.scale(s)` on a constructed graph with known non-zero scale `c` returns, stores the scale `s`, keeps
field names, dimension and the number of columns, multiplies by `s/c` exactly the last coordinate column
(position `dim - 1`) and the columns whose field is an error field of the last coordinate, and leaves every other
column untouched.  Any number of coordinates, any error fields, any valid naming. -/
theorem graph_scale (coords : List (List Q)) (fn : FieldNamesArg) (sc : Option Q) (g : Graph)
    (hg : mkGraph coords fn sc = .ok g) (c s : Q) (hc : sc = some c) (hc0 : c ≠ 0) :
    ∃ g' last, graphSetScale g s = .ok g' ∧ g.fieldNames[g.dim - 1]? = some last ∧
      g'.scale = some s ∧ g'.fieldNames = g.fieldNames ∧ g'.dim = g.dim ∧ g'.coords.length = coords.length ∧
      ∀ (i : Nat) (arr : List Q) (f : Name), coords[i]? = some arr → g.fieldNames[i]? = some f →
        ((i + 1 = g.dim ∨ ErrorFieldOf last f) → g'.coords[i]? = some (arr.map (fun v => s / c * v))) ∧
        (¬ (i + 1 = g.dim ∨ ErrorFieldOf last f) → g'.coords[i]? = some arr) := by
  obtain ⟨inv, hco, hsc, _, _, _, _⟩ := mkGraph_inv coords fn sc g hg
  have hdim0 : g.dim ≠ 0 := by have := inv.dim_pos; omega
  have hlt : g.dim - 1 < g.fieldNames.length := by have := inv.dim_parsed; have := inv.dim_pos; omega
  have hlast : g.fieldNames[g.dim - 1]? = some (g.fieldNames[g.dim - 1]) := List.getElem?_eq_getElem hlt
  refine ⟨{ g with
      coords := rescaleCoords (s / c) ((g.dim - 1) :: errIndices g.dim g.fieldNames[g.dim - 1] g.parsed 0) g.coords 0,
      scale := some s },
    g.fieldNames[g.dim - 1], ?_, hlast, rfl, rfl, rfl, ?_, ?_⟩
  · simp [graphSetScale, hsc, hc, hc0, hdim0, hlast]
  · simp [rescaleCoords_length, hco]
  · intro i arr f harr hf
    have harr' : g.coords[i]? = some arr := by rw [hco]; exact harr
    simp only [rescaleCoords_getElem?, harr', Option.map_some, Nat.add_zero, Option.some.injEq]
    -- membership in the index list ↔ the column belongs to the last coordinate
    have hlast_in : g.fieldNames[g.dim - 1] ∈ g.fieldNames.take g.dim := by
      rw [List.mem_take_iff_getElem]
      exact ⟨g.dim - 1, by have := inv.dim_pos; omega, rfl⟩
    have key : (i = g.dim - 1 ∨ ∃ j p, g.parsed[j]? = some p ∧ p.coord = g.fieldNames[g.dim - 1] ∧ i = j + 0 + g.dim) ↔
        (i + 1 = g.dim ∨ ErrorFieldOf g.fieldNames[g.dim - 1] f) := by
      constructor
      · rintro (h | ⟨j, p, hp, hpc, hi⟩)
        · left; have := inv.dim_pos; omega
        · right
          have hi' : i = g.dim + j := by omega
          subst hi'
          obtain ⟨p', hp1, _, hp3⟩ := inv.parsed_spec j f hf
          rw [hp] at hp1
          cases hp1
          have hferr : isErrField f = true :=
            inv.error_fields f (by
              rw [List.mem_drop_iff_getElem]
              have := (List.getElem?_eq_some_iff.1 hf)
              obtain ⟨hlen, hget⟩ := this
              exact ⟨j, by omega, hget⟩)
          rw [← errMatches_iff f _ hferr]
          have : g.fieldNames[g.dim - 1] ∈ (g.fieldNames.take g.dim).filter (errMatches (f.drop 6)) := by
            rw [hp3, hpc]; simp
          exact (List.mem_filter.1 this).2
      · rintro (h | h)
        · left; omega
        · right
          -- `f` is an error field, so it is not among the coordinate fields
          have hferr : isErrField f = true := by
            obtain ⟨rest, hr, _⟩ := h
            exact (isErrField_iff f).2 ⟨rest, hr⟩
          have hige : g.dim ≤ i := by
            rcases Nat.lt_or_ge i g.dim with hlt' | hge
            · have : f ∈ g.fieldNames.take g.dim := by
                rw [List.mem_take_iff_getElem]
                obtain ⟨hlen, hget⟩ := List.getElem?_eq_some_iff.1 hf
                exact ⟨i, by omega, hget⟩
              have := inv.coord_fields f this
              simp [hferr] at this
            · exact hge
          obtain ⟨j, rfl⟩ : ∃ j, i = g.dim + j := ⟨i - g.dim, by omega⟩
          obtain ⟨p, hp1, _, hp3⟩ := inv.parsed_spec j f hf
          refine ⟨j, p, hp1, ?_, by omega⟩
          have hm := (errMatches_iff f _ hferr).2 h
          have : g.fieldNames[g.dim - 1] ∈ (g.fieldNames.take g.dim).filter (errMatches (f.drop 6)) :=
            List.mem_filter.2 ⟨hlast_in, hm⟩
          rw [hp3] at this
          exact (List.mem_singleton.1 this).symm
    have hcont : (((g.dim - 1) :: errIndices g.dim g.fieldNames[g.dim - 1] g.parsed 0).contains i = true) ↔
        (i = g.dim - 1 ∨ ∃ j p, g.parsed[j]? = some p ∧ p.coord = g.fieldNames[g.dim - 1] ∧ i = j + 0 + g.dim) := by
      simp only [List.contains_eq_mem, List.mem_cons, mem_errIndices, decide_eq_true_eq]
    constructor
    · intro h
      rw [if_pos (hcont.2 (key.2 h))]
    · intro h
      rw [if_neg (fun h' => h (key.1 (hcont.1 h')))]

/-! ## `hist_to_graph`

"hist_to_graph yields one point per cell at its left/right/middle coordinate with that cell's value". -/

/-- `hist_to_graph(hist, make_value, get_coordinate, field_names, scale)`, when it returns for a well-formed
histogram and as many field names as a point has numbers (`dim` coordinates + `k` values): the rows of the graph are
exactly one point per cell of `iter_bins(hist.bins)`, in that order — the cell's left / right / middle coordinates
followed by its value(s); the field names are the given ones; the scale is the given number, the histogram's scale
(`scale=True`) or unknown; the histogram's contents are not changed.  Any dimension. -/
theorem hist_to_graph_points (h h1 : Hist) (wf : h.WF) (mv : Option (Q → List Q)) (mode : CoordMode)
    (fields : FieldNamesArg) (sc : ScaleArg) (g : Graph) (k : Nat)
    (hk : ∀ v, (graphValue mv v).length = k) (names : List Name) (hn : fieldNamesTuple fields = .ok names)
    (hlen : names.length = h.dim + k)
    (hok : histToGraph h mv mode fields sc = .ok (h1, g)) :
    g.rows = (cells h.bins).map (fun p => pointOf mode mv (cellEdgesRef h.edges.axes p.1) p.2) ∧
      g.fieldNames = names ∧ h1.bins = h.bins ∧ h1.edges = h.edges ∧ h1.nOut = h.nOut ∧
      (match sc with
        | .none => g.scale = none ∧ h1 = h
        | .num s => g.scale = some s ∧ h1 = h
        | .true => ∃ I, getScale h false = .ok (h1, I) ∧ g.scale = some I) := by
  unfold histToGraph at hok
  by_cases hmode : mode = .bad
  · simp [hmode] at hok
  simp only [hmode, if_false, hn, bind, Except.bind] at hok
  -- the scale argument
  cases e1 : resolveScale h sc with
  | error e => simp [e1] at hok
  | ok q =>
  obtain ⟨h1', s'⟩ := q
  have hres : h1'.bins = h.bins ∧ h1'.edges = h.edges ∧ h1'.nOut = h.nOut ∧
      (match sc with
        | .none => s' = none ∧ h1' = h
        | .num s => s' = some s ∧ h1' = h
        | .true => ∃ I, getScale h false = .ok (h1', I) ∧ s' = some I) := by
    cases sc with
    | none => simp [resolveScale] at e1; obtain ⟨rfl, rfl⟩ := e1; simp
    | num s => simp [resolveScale] at e1; obtain ⟨rfl, rfl⟩ := e1; simp
    | true =>
      simp only [resolveScale, bind, Except.bind] at e1
      cases hg : getScale h false with
      | error e => simp [hg] at e1
      | ok p =>
        obtain ⟨h2, I⟩ := p
        simp [hg, pure, Except.pure] at e1
        obtain ⟨rfl, rfl⟩ := e1
        have hf := getScale_frame h h2 false I hg
        refine ⟨?_, ?_, ?_, I, rfl, rfl⟩ <;> rw [hf]
  obtain ⟨hb, he, hno, hs'⟩ := hres
  simp only [e1] at hok
  have wf' : h1'.WF := by
    unfold Hist.WF Hist.nbins at *
    rw [hb, he]; exact wf
  rw [iter_bins_with_edges_agrees h1' wf'] at hok
  simp only at hok
  -- the loop
  have hcols : (names.map (fun _ => ([] : List Q))) ≠ [] := by
    have : names.length ≠ 0 := by
      have := wf.1
      have hd : h.dim ≠ 0 := by
        unfold Hist.dim; intro h0; exact this (List.length_eq_zero_iff.1 h0)
      omega
    intro h0
    exact this (by simpa using congrArg List.length h0)
  have hrowlen : ∀ p ∈ (cells h1'.bins).map (fun p => (p.2, cellEdgesRef h1'.edges.axes p.1)),
      (pointOf mode mv p.2 p.1).length = names.length := by
    intro p hp
    obtain ⟨q, hq, rfl⟩ := List.mem_map.1 hp
    have hs : HasShape (nbinsOf h1'.edges.axes) h1'.bins := wf'.2
    have hin := inRange_of_mem_cells _ _ hs q hq
    simp only [pointOf, List.length_append, getCoord_length mode hmode, cellEdgesRef_length _ _ hin, hk, hlen]
    simp [Hist.dim, he]
  obtain ⟨cols', l1, l2, l3, l4⟩ := graphLoop_spec mode mv names.length _ (names.map (fun _ => [])) 0 hcols
    (by simp) (by simp) hrowlen
  rw [List.map_map] at l1
  have hfun : ((fun p : Q × List (Q × Q) => ((NArr.leaf p.1 : NArr Q), p.2)) ∘
      fun p : List Nat × Q => (p.2, cellEdgesRef h1'.edges.axes p.1)) =
      fun p => (NArr.leaf p.2, cellEdgesRef h1'.edges.axes p.1) := rfl
  rw [hfun] at l1
  rw [l1] at hok
  simp only at hok
  cases hmk : mkGraph cols' (.tuple names) s' with
  | error e => simp [hmk] at hok
  | ok g' =>
    simp [hmk, pure, Except.pure] at hok
    obtain ⟨rfl, rfl⟩ := hok
    obtain ⟨_, gco, gsc, gfn, _, _, _⟩ := mkGraph_inv _ _ _ _ hmk
    have hz : zipRows (names.map (fun _ => ([] : List Q))) = [] := by
      have := zipRows_length 0 (names.map (fun _ => ([] : List Q))) hcols (by simp)
      exact List.length_eq_zero_iff.1 this
    refine ⟨?_, ?_, hb, he, hno, ?_⟩
    · simp only [Graph.rows, gco, l2, hz, List.nil_append, List.map_map, hb, he]
      rfl
    · simp [fieldNamesTuple] at gfn
      exact gfn.symm
    · cases sc <;> simp_all

example : (histToGraph exHist2 none .middle (.str "x,y,z".toList) .true).toOption.map
    (fun p => (p.2.rows, p.2.scale, p.2.dim)) = some ([[1/2, 1, 1], [2, 1, 2]], some 10, 3) := by decide +kernel
example : (histToGraph exHist (some (fun v => [v, v / 2])) .right (.tuple ["x".toList, "y".toList, "error_y".toList])
    (.num 7)).toOption.map (fun p => (p.2.rows, p.2.scale, p.2.dim)) =
    some ([[1, 1, 1/2], [3, 2, 1]], some 7, 2) := by decide +kernel

/-- an unknown `get_coordinate` is rejected: `LenaValueError` -/
theorem hist_to_graph_bad_mode (h : Hist) (mv : Option (Q → List Q)) (fields : FieldNamesArg) (sc : ScaleArg) :
    histToGraph h mv .bad fields sc = .error .lenaValueError := by
  simp [histToGraph]

/-- the three coordinate modes: the lower edges, the upper edges, the midpoints -/
theorem getCoord_spec (ed : List (Q × Q)) :
    getCoord .left ed = ed.map (·.1) ∧ getCoord .right ed = ed.map (·.2) ∧
      getCoord .middle ed = ed.map (fun c => (c.1 + c.2) / 2) := by
  refine ⟨rfl, rfl, ?_⟩
  simp only [getCoord]
  apply List.map_congr_left
  intro c _
  grind

/-! ## CSV rows

"ToCSV writes one row per cell (plus the rows duplicating the last edge when requested)".  Rows are tuples of
numbers here; the text and its precision are checked by the harness. -/

/-- `ToCSV.run` on a one-dimensional histogram with edges `xs ++ [xLast]` and as many bins `vals` as `xs`: one row
`(lower edge, content)` per bin in order, plus `(last edge, last content)` when `duplicate_last_bin` — the
context's `output.duplicate_last_bin`, if present, else the element's.  Any number of bins. -/
theorem csv_rows_1d (xs vs : List Q) (xLast vLast : Q) (hlen : xs.length = vs.length + 1) (nOut : Q)
    (sc : Option Q) (ctxDup : Option Bool) (elemDup : Bool) :
    toCsvHist { edges := .flat (xs ++ [xLast]), bins := bins1d (vs ++ [vLast]), nOut := nOut, scale := sc }
        true ctxDup elemDup =
      .ok (.table (List.zipWith (fun x v => [x, v]) xs (vs ++ [vLast]) ++
        (if ctxDup.getD elemDup then [[xLast, vLast]] else []))) := by
  have := rows1d_spec xs (vs ++ [vLast]) xLast vLast vs rfl (by simp [hlen])
  cases ctxDup <;> simp [toCsvHist, this, bind, Except.bind, pure, Except.pure]

example : toCsvHist exHist true none true = .ok (.table [[0, 1], [1, 2], [3, 2]]) :=
  csv_rows_1d [0, 1] [1] 3 2 rfl 1 none none true
example : toCsvHist exHist true (some false) true = .ok (.table [[0, 1], [1, 2]]) :=
  csv_rows_1d [0, 1] [1] 3 2 rfl 1 none (some false) true

/-- `ToCSV.run` on a two-dimensional histogram with edges `xs ++ [xLast]`, `ys ++ [yLast]` and contents `vals`
(one row of `ys.length` numbers per `x` bin): for every `x` bin one row `(x, y, content)` per `y` bin, plus (when
duplicating) the last of these at `yLast`; then (when duplicating) the same for the last `x` bin at `xLast`.
Without duplication that is one row per cell; with it `(nx + 1) * (ny + 1)` rows (`csv_rows_2d_count`). -/
theorem csv_rows_2d (xs ys : List Q) (xLast yLast : Q) (vs : List (List Q)) (rLast : List Q)
    (hx : xs.length = vs.length + 1) (hys : ys ≠ []) (hv : ∀ r ∈ vs ++ [rLast], r.length = ys.length)
    (nOut : Q) (sc : Option Q) (ctxDup : Option Bool) (elemDup : Bool) :
    toCsvHist { edges := .nested [xs ++ [xLast], ys ++ [yLast]], bins := bins2d (vs ++ [rLast]), nOut := nOut,
                scale := sc } true ctxDup elemDup =
      .ok (.table ((List.zipWith (rowsFor ys yLast (ctxDup.getD elemDup)) xs (vs ++ [rLast])).flatten ++
        (if ctxDup.getD elemDup then rowsFor ys yLast true xLast rLast else []))) := by
  have := rows2d_spec xs ys xLast yLast (vs ++ [rLast]) vs rLast rfl (by simp [hx]) hys hv
  cases ctxDup <;> simp [toCsvHist, this, bind, Except.bind, pure, Except.pure]

example : toCsvHist exHist2 true none true =
    .ok (.table [[0, 0, 1], [0, 2, 1], [1, 0, 2], [1, 2, 2], [3, 0, 2], [3, 2, 2]]) :=
  csv_rows_2d [0, 1] [0] 3 2 [[1]] [2] rfl (by simp) (by simp) 0 none none true

/-- the number of rows written for an `nx × ny` histogram: `nx * ny`, or `(nx + 1) * (ny + 1)` with
`duplicate_last_bin` -/
theorem csv_rows_2d_count (xs ys : List Q) (yLast xLast : Q) (vs : List (List Q)) (rLast : List Q)
    (hx : xs.length = vs.length + 1) (hys : ys ≠ []) (hv : ∀ r ∈ vs ++ [rLast], r.length = ys.length) (dup : Bool) :
    ((List.zipWith (rowsFor ys yLast dup) xs (vs ++ [rLast])).flatten ++
        (if dup then rowsFor ys yLast true xLast rLast else [])).length =
      (xs.length + (if dup then 1 else 0)) * (ys.length + (if dup then 1 else 0)) := by
  have h1 := flatten_zipWith_length (rowsFor ys yLast dup) (ys.length + (if dup then 1 else 0)) xs (vs ++ [rLast])
    (by simp [hx]) (fun x r hr => rowsFor_length ys yLast dup x r (hv r hr) hys)
  have h2 := rowsFor_length ys yLast true xLast rLast (hv rLast (by simp)) hys
  cases dup
  · simp [h1]
  · simp only [List.length_append, h1, if_true, h2]
    rw [Nat.add_mul]; omega

/-- a value whose context says `output.to_csv = False` is yielded unchanged -/
theorem csv_not_converted (h : Hist) (ctxDup : Option Bool) (elemDup : Bool) :
    toCsvHist h false ctxDup elemDup = .ok .unchanged := by
  simp [toCsvHist]

/-- histograms of three and more dimensions are yielded unchanged (with a warning) -/
theorem csv_dim3_unchanged (e1 e2 e3 : List Q) (es : List (List Q)) (b : NArr Q) (nOut : Q) (sc : Option Q)
    (toCsv : Bool) (ctxDup : Option Bool) (elemDup : Bool) :
    toCsvHist { edges := .nested (e1 :: e2 :: e3 :: es), bins := b, nOut := nOut, scale := sc } toCsv ctxDup elemDup =
      .ok .unchanged := by
  cases toCsv <;> simp [toCsvHist]

/-- a graph is written as its points, one row per point -/
theorem csv_graph_rows (g : Graph) : toCsvGraph g true = .table g.rows ∧ toCsvGraph g false = .unchanged := by
  simp [toCsvGraph]

/-! ## `scale_to`, `GroupScale`, `ScaleTo` use the structures' own `scale`

"scale_to / ScaleTo use structure.scale" (anchor): what happens to each structure is exactly `hist.scale(s)` /
`graph.scale(s)` of the theorems above. -/

/-- `ScaleTo(s)(value)` returns the structure rescaled by its own `scale(s)` method, and raises whatever that
raises -/
theorem scale_to_call_spec (d d' : Struct) (s : Q) :
    scaleToCall d s = .ok d' ↔
      (∃ h h', d = .hist h ∧ setScale h s = .ok h' ∧ d' = .hist h') ∨
      (∃ g g', d = .graph g ∧ graphSetScale g s = .ok g' ∧ d' = .graph g') := by
  unfold scaleToCall structScale
  cases d with
  | hist h =>
    cases hs : setScale h s with
    | ok h' =>
      simp only [hs]
      constructor
      · intro hd; simp at hd; exact Or.inl ⟨h, h', rfl, hs, hd.symm⟩
      · rintro (⟨h0, h0', he, hs0, rfl⟩ | ⟨g, g', he, _, _⟩)
        · cases he; rw [hs] at hs0; cases hs0; rfl
        · cases he
    | error e =>
      simp only [hs]
      constructor
      · intro hd; simp at hd
      · rintro (⟨h0, h0', he, hs0, _⟩ | ⟨g, g', he, _, _⟩)
        · cases he; rw [hs] at hs0; cases hs0
        · cases he
  | graph g =>
    cases hs : graphSetScale g s with
    | ok g' =>
      simp only [hs]
      constructor
      · intro hd; simp at hd; exact Or.inr ⟨g, g', rfl, hs, hd.symm⟩
      · rintro (⟨h0, h0', he, _, _⟩ | ⟨g0, g0', he, hs0, rfl⟩)
        · cases he
        · cases he; rw [hs] at hs0; cases hs0; rfl
    | error e =>
      simp only [hs]
      constructor
      · intro hd; simp at hd
      · rintro (⟨h0, h0', he, _, _⟩ | ⟨g0, g0', he, hs0, _⟩)
        · cases he
        · cases he; rw [hs] at hs0; cases hs0
  | other =>
    simp

/-- `ScaleTo` raises `LenaValueError` for a histogram with zero scale and for a graph with zero or unknown
scale; an object without `scale` gives the builtin `AttributeError` (`none`) -/
theorem scale_to_call_errors (s : Q) :
    (∀ h, (getScale h false).toOption.map (·.2) = some 0 → scaleToCall (.hist h) s = .error (some .lenaValueError)) ∧
    (∀ g, (g.scale = none ∨ g.scale = some 0) → scaleToCall (.graph g) s = .error (some .lenaValueError)) ∧
    scaleToCall .other s = .error none := by
  refine ⟨?_, ?_, rfl⟩
  · intro h hz
    simp [scaleToCall, structScale, hist_scale_zero h s hz]
  · intro g hg
    simp [scaleToCall, structScale, graph_scale_unknown_or_zero g s hg]

/-- what `scale_to` does to one item it does not stop at: rescaled by its own method, or left as it is because it
cannot be rescaled and that is allowed -/
inductive ItemDone (s : Option Q) (az au : Bool) : Struct → Struct → Prop
  | scaled (d d' : Struct) : structScale d s = .ok d' → ItemDone s az au d d'
  | zeroAllowed (d d' : Struct) : structScale d s = .raised .lenaValueError d' → az = true → ItemDone s az au d d'
  | unknownAllowed (d : Struct) : structScale d s = .attributeError → au = true → ItemDone s az au d d

/-- item by item -/
def AllDone (s : Option Q) (az au : Bool) : List Struct → List Struct → Prop
  | [], [] => True
  | d :: ds, d' :: ds' => ItemDone s az au d d' ∧ AllDone s az au ds ds'
  | _, _ => False

/-- the item `scale_to` stops at: it has no `scale` (and that is not allowed), or its `scale` raised (and, for a
`LenaValueError`, zero scales are not allowed); `d'` is what is left of it -/
def ItemFails (s : Option Q) (az au : Bool) (d d' : Struct) (e : Err) : Prop :=
  (structScale d s = .attributeError ∧ au = false ∧ e = .lenaValueError ∧ d' = d) ∨
  (structScale d s = .raised e d' ∧ (e = .lenaValueError → az = false))

/-- what the loop of `scale_to` leaves: without exception every item was handled in order; with an exception `err`
the items before the failing one were handled, the failing one is as its `scale` left it, the rest is untouched -/
def LoopPost (s : Option Q) (az au : Bool) (group group' : List Struct) : Option Err → Prop
  | none => AllDone s az au group group'
  | some err => ∃ pre pre' d d' post, group = pre ++ d :: post ∧ group' = pre' ++ d' :: post ∧
      AllDone s az au pre pre' ∧ ItemFails s az au d d' err

theorem scale_loop_spec (s : Option Q) (az au : Bool) : ∀ (group group' : List Struct) (e : Option Err),
    scaleLoop s az au group = (group', e) → LoopPost s az au group group' e
  | [], group', e, h => by
    simp [scaleLoop] at h
    obtain ⟨rfl, rfl⟩ := h
    exact (trivial : AllDone s az au [] [])
  | d :: rest, group', e, h => by
    simp only [scaleLoop] at h
    -- continue with the rest after a handled item `d ↦ d1`
    have cont : ∀ d1, ItemDone s az au d d1 →
        ((let (r, e) := scaleLoop s az au rest; (d1 :: r, e)) = (group', e)) →
        LoopPost s az au (d :: rest) group' e := by
      intro d1 hd1 hh
      cases hr : scaleLoop s az au rest with
      | mk r e' =>
        simp [hr] at hh
        obtain ⟨rfl, rfl⟩ := hh
        have ih := scale_loop_spec s az au rest r e' hr
        cases e' with
        | none => exact ⟨hd1, ih⟩
        | some err =>
          obtain ⟨pre, pre', d0, d', post, h1, h2, h3, h4⟩ := ih
          exact ⟨d :: pre, d1 :: pre', d0, d', post, by simp [h1], by simp [h2], ⟨hd1, h3⟩, h4⟩
    cases hs : structScale d s with
    | ok d1 =>
      simp only [hs] at h
      exact cont d1 (.scaled d d1 hs) h
    | attributeError =>
      simp only [hs] at h
      cases au with
      | true =>
        simp only [Bool.not_true, Bool.false_eq_true, if_false] at h
        exact cont d (.unknownAllowed d hs rfl) h
      | false =>
        simp at h
        obtain ⟨rfl, rfl⟩ := h
        exact ⟨[], [], d, d, rest, rfl, rfl, trivial, Or.inl ⟨hs, rfl, rfl, rfl⟩⟩
    | raised err d1 =>
      simp only [hs] at h
      by_cases herr : err = .lenaValueError
      · subst herr
        cases az with
        | true =>
          simp only [Bool.not_true, Bool.false_eq_true, if_false, if_true] at h
          exact cont d1 (.zeroAllowed d d1 hs rfl) h
        | false =>
          simp at h
          obtain ⟨rfl, rfl⟩ := h
          exact ⟨[], [], d, d1, rest, rfl, rfl, trivial, Or.inr ⟨hs, fun _ => rfl⟩⟩
      · simp [herr] at h
        obtain ⟨rfl, rfl⟩ := h
        exact ⟨[], [], d, d1, rest, rfl, rfl, trivial, Or.inr ⟨hs, fun h0 => absurd h0 herr⟩⟩

/-- `scale_to(number, group)` is that loop -/
theorem scale_to_number (s : Q) (group : List Struct) (az au : Bool) :
    scaleTo (.num s) group az au = scaleLoop (some s) az au group := rfl

/-- `scale_to(selector, group)`: no or several selected items raise `LenaValueError` and change nothing; a unique
candidate gives its scale (a histogram computes and stores it) to the loop -/
theorem scale_to_selector (t : ScaleTarget) (ht : ∀ s, t ≠ .num s) (group : List Struct) (az au : Bool) :
    (group.filter t.selects = [] → scaleTo t group az au = (group, some .lenaValueError)) ∧
    (∀ c1 c2 cs, group.filter t.selects = c1 :: c2 :: cs → scaleTo t group az au = (group, some .lenaValueError)) ∧
    (∀ cand cand' sc, group.filter t.selects = [cand] → structGetScale cand = .ok (cand', sc) →
      scaleTo t group az au = scaleLoop sc az au (replaceCand t cand' group)) := by
  cases t with
  | num s => exact absurd rfl (ht s)
  | selectHist =>
    refine ⟨fun h => by simp [scaleTo, h], fun c1 c2 cs h => by simp [scaleTo, h], fun c c' sc h hg => ?_⟩
    simp [scaleTo, h, hg]
  | selectGraph =>
    refine ⟨fun h => by simp [scaleTo, h], fun c1 c2 cs h => by simp [scaleTo, h], fun c c' sc h hg => ?_⟩
    simp [scaleTo, h, hg]

example : (scaleTo (.num 10) [.hist exHist, .other] false true).2 = none ∧
    ((scaleTo (.num 10) [.hist exHist, .other] false true).1.map
      (fun d => match d with | .hist h => values h.bins | _ => [])) = [[2, 4], []] := by decide +kernel
example : (scaleTo (.num 10) [.hist exHist, .other] false false).2 = some .lenaValueError := by decide +kernel

/-! ## Constructed histograms are well-formed; `add` is defined on equal edges -/

theorem hasShape_full (v : Q) : ∀ (dims : List Nat), HasShape dims (full dims v)
  | [] => by simp [full, HasShape]
  | n :: ns => by
    simp only [full, HasShape, List.length_replicate, true_and]
    intro x hx
    rw [List.eq_of_mem_replicate hx]
    exact hasShape_full v ns

/-- `histogram(edges)` (bins from `initial_value`) is well-formed: its bins have the shape of its edges, every
cell holds the initial value, nothing is out of range, the scale is not computed -/
theorem mkHist_wf (e : Edges) (init : Q) (h : Hist) (hk : mkHist e none init = .ok h) :
    h.WF ∧ h.edges = e ∧ h.bins = full (nbinsOf e.axes) init ∧ h.nOut = 0 ∧ h.scale = none ∧
      checkEdgesIncreasing e = .ok () := by
  unfold mkHist at hk
  cases hce : checkEdgesIncreasing e with
  | error err => simp [hce, bind, Except.bind] at hk
  | ok u =>
    simp only [hce, bind, Except.bind] at hk
    split at hk
    · simp at hk
    · simp at hk
    · rename_i e0 rest hax
      simp [pure, Except.pure] at hk
      subst hk
      refine ⟨⟨?_, ?_⟩, rfl, ?_, rfl, rfl, rfl⟩
      · simp [hax]
      · simp only [Hist.nbins, hax]; exact hasShape_full init _
      · simp [hax]

example : (mkHist (.nested [[0, 1, 3], [0, 2]]) none 0).toOption.map (fun h => values h.bins) = some [0, 0] := by
  decide +kernel

theorem isclose1_self (t : Tol) (hr : 0 ≤ t.rel) (x : Q) : isclose1 t x x = true := by
  simp only [isclose1, Rat.abs]
  have : x - x = 0 := by grind
  rw [this]
  simp
  have h1 : 0 ≤ t.rel * max (if 0 ≤ x then x else -x) (if 0 ≤ x then x else -x) := by
    apply Rat.mul_nonneg hr
    split <;> grind
  grind

theorem iscloseList_self (t : Tol) (hr : 0 ≤ t.rel) : ∀ (a : List Q), iscloseList t a a = .ok true
  | [] => rfl
  | x :: a => by simp [iscloseList, isclose1_self t hr x, iscloseList_self t hr a]

theorem iscloseAxes_self (t : Tol) (hr : 0 ≤ t.rel) : ∀ (a : List (List Q)), iscloseAxes t a a = .ok true
  | [] => rfl
  | x :: a => by simp [iscloseAxes, iscloseList_self t hr x, iscloseAxes_self t hr a, bind, Except.bind]

theorem iscloseEdges_self (t : Tol) (hr : 0 ≤ t.rel) (e : Edges) : iscloseEdges t e e = .ok true := by
  cases e with
  | flat a => simp [iscloseEdges, iscloseList_self t hr a]
  | nested a => simp [iscloseEdges, iscloseAxes_self t hr a]

/-- "…and only for equal edges" — conversely, valid histograms with equal edges are always added (any weight, any
non-negative tolerance): `add` raises nothing -/
theorem add_defined (a b : Hist) (w : Q) (t : Tol) (ha : a.Valid) (hb : b.Valid) (he : a.edges = b.edges)
    (hr : 0 ≤ t.rel) : ∃ c, add a b w t = .ok c := by
  have hn : a.nbins = b.nbins := by simp [Hist.nbins, he]
  have hc : iscloseEdges t a.edges b.edges = .ok true := by rw [← he]; exact iscloseEdges_self t hr _
  -- the shape
  obtain ⟨n, ns, hdims⟩ : ∃ n ns, a.nbins = n :: ns := by
    have := ha.wf.1
    unfold Hist.nbins nbinsOf
    cases hax : a.edges.axes with
    | nil => exact absurd hax this
    | cons e es => exact ⟨_, _, rfl⟩
  have hsa : HasShape (n :: ns) a.bins := hdims ▸ ha.wf.2
  have hsb : HasShape (n :: ns) b.bins := by rw [← hdims, hn]; exact hb.wf.2
  have hob : ∃ ob, weightedBins b w = .ok ob ∧ HasShape (n :: ns) ob := by
    unfold weightedBins
    by_cases hw : w = 1
    · exact ⟨b.bins, by simp [hw, pure, Except.pure], hsb⟩
    · exact ⟨map (fun val => val * w) b.bins, by simp [hw, mdMap_ok _ ns n b.bins hsb], hasShape_map _ _ _ hsb⟩
  obtain ⟨ob, ho, hso⟩ := hob
  have hm := mdMap2_ok (· + ·) ns n a.bins ob hsa hso
  have hsz := hasShape_zipWith (· + ·) (n :: ns) a.bins ob hsa hso
  -- the constructor accepts the new bins
  have hk : ∃ nh, mkHist a.edges (some (zipWith (· + ·) a.bins ob)) 0 = .ok nh := by
    unfold mkHist
    simp only [ha.edges_ok, bind, Except.bind]
    cases hz : zipWith (· + ·) a.bins ob with
    | leaf v => rw [hz] at hsz; simp [HasShape] at hsz
    | node xs =>
      rw [hz] at hsz
      simp only [HasShape] at hsz
      cases hed : a.edges with
      | flat e0 =>
        have : n = e0.length - 1 := by
          have := hdims; simp [Hist.nbins, nbinsOf, hed, Edges.axes] at this; exact this.1.symm
        simp [Edges.axes, lenBins, hsz.1, this, pure, Except.pure]
      | nested es =>
        cases es with
        | nil => have := ha.wf.1; simp [hed, Edges.axes] at this
        | cons e0 rest =>
          have h1 : n = e0.length - 1 := by
            have := hdims; simp [Hist.nbins, nbinsOf, hed, Edges.axes] at this; exact this.1.symm
          cases rest with
          | nil => exact absurd hed (ha.not_single_nested e0)
          | cons e1 rest' => simp [Edges.axes, lenBins, hsz.1, h1, pure, Except.pure]
  obtain ⟨nh, hk⟩ := hk
  refine ⟨{ nh with nOut := a.nOut + b.nOut * w }, ?_⟩
  by_cases hw : w = 1
  · subst hw
    have : ob = b.bins := by simp [weightedBins, pure, Except.pure] at ho; exact ho.symm
    subst this
    simp [add, hn, hc, hm, hk, bind, Except.bind, pure, Except.pure]
  · have : mdMap (fun val => val * w) b.bins = .ok ob := by simpa [weightedBins, hw] using ho
    simp [add, hn, hc, hw, this, hm, hk, bind, Except.bind, pure, Except.pure]

theorem ok_of_toOption {α : Type} (x : Except Err α) (a : α) (h : x.toOption = some a) : x = .ok a := by
  cases x with
  | error e => simp [Except.toOption] at h
  | ok b => simp [Except.toOption] at h; rw [h]

example : exHist.Valid := ⟨exHist_wf, ok_of_toOption _ _ (by decide +kernel), by simp [exHist]⟩
example : (add exHist { exHist with bins := .node [.leaf 5, .leaf 7] } (-1) ⟨1 / 1000000000, 0⟩).toOption.map
    (fun c => values c.bins) = some [-4, -5] := by decide +kernel

/-! ## Every valid naming is accepted -/

/-- "in every valid naming": coordinate fields first (at least one, none named `error_…`), then error fields each
belonging to exactly one coordinate, all names distinct, one array per name, arrays of equal length — such a graph is
accepted, and its dimension is the number of coordinate fields -/
theorem graph_valid_naming (coords : List (List Q)) (cs es : List Name) (sc : Option Q)
    (hcs : cs ≠ []) (hc : ∀ c ∈ cs, isErrField c = false)
    (he : ∀ f ∈ es, isErrField f = true ∧ ∃ c, cs.filter (errMatches (f.drop 6)) = [c])
    (hd : hasDuplicates (cs ++ es) = false) (hlen : (cs ++ es).length = coords.length)
    (hsame : sameLengths coords = true) :
    ∃ g, mkGraph coords (.tuple (cs ++ es)) sc = .ok g ∧ g.dim = cs.length ∧ g.fieldNames = cs ++ es ∧
      g.coords = coords ∧ g.scale = sc := by
  have hne : coords.isEmpty = false := by
    cases coords with
    | nil => simp at hlen; exact absurd hlen.1 hcs
    | cons _ _ => rfl
  have hsf := splitFields_ok cs es 0 0 hc (fun f hf => (he f hf).1)
  simp only [hcs, if_false, Nat.zero_add] at hsf
  have hcl : cs.length - 1 + 1 = cs.length := by
    have : cs.length ≠ 0 := by simpa using hcs
    omega
  obtain ⟨parsed, hp, hpl⟩ := parseErrs_ok cs (es.zipIdx cs.length) (by
    intro p hp
    obtain ⟨f, i⟩ := p
    have hf : f ∈ es := by
      have := List.mem_zipIdx hp
      rw [List.mem_iff_getElem]
      exact ⟨i - cs.length, by omega, this.2.2.symm⟩
    exact (he f hf).2)
  have hpe : parseErrorNames (cs ++ es) = .ok parsed := by
    simp [parseErrorNames, hsf, bind, Except.bind, hcl, hp]
  refine ⟨{ coords := coords, fieldNames := cs ++ es, scale := sc, parsed := parsed,
            dim := (cs ++ es).length - parsed.length }, ?_, ?_, rfl, rfl, rfl⟩
  · simp [mkGraph, hne, hsame, fieldNamesTuple, hlen, hd, hpe, bind, Except.bind, pure, Except.pure]
  · simp [hpl]

example : ∃ g, mkGraph [[1, 2], [3, 4], [1, 1]] (.tuple ["x".toList, "y".toList, "error_y_low".toList]) (some 2) = .ok g ∧
    g.dim = 2 := by
  obtain ⟨g, h1, h2, _⟩ := graph_valid_naming [[1, 2], [3, 4], [1, 1]] ["x".toList, "y".toList] ["error_y_low".toList]
    (some 2) (by simp) (by decide) (by
      intro f hf
      simp at hf
      subst hf
      exact ⟨by decide, "y".toList, by decide⟩) (by decide) (by decide) (by decide)
  exact ⟨g, h1, h2⟩

/-- `hist_to_graph` is defined on every well-formed histogram for the three coordinate modes, any `make_value` with
`k ≥ 0` values per bin and any valid naming of `dim + k` fields (`graph_valid_naming`), whatever the `scale` argument -/
theorem hist_to_graph_defined (h : Hist) (wf : h.WF) (mv : Option (Q → List Q)) (mode : CoordMode) (hmode : mode ≠ .bad)
    (sc : ScaleArg) (k : Nat) (hk : ∀ v, (graphValue mv v).length = k) (cs es : List Name)
    (hlen : (cs ++ es).length = h.dim + k)
    (hcs : cs ≠ []) (hc : ∀ c ∈ cs, isErrField c = false)
    (he : ∀ f ∈ es, isErrField f = true ∧ ∃ c, cs.filter (errMatches (f.drop 6)) = [c])
    (hd : hasDuplicates (cs ++ es) = false) :
    ∃ h1 g, histToGraph h mv mode (.tuple (cs ++ es)) sc = .ok (h1, g) ∧ g.dim = cs.length := by
  -- the scale argument never fails on a well-formed histogram
  obtain ⟨h1, s', hres, hb, hed⟩ : ∃ h1 s', resolveScale h sc = .ok (h1, s') ∧ h1.bins = h.bins ∧ h1.edges = h.edges := by
    cases sc with
    | none => exact ⟨h, none, rfl, rfl, rfl⟩
    | num s => exact ⟨h, some s, rfl, rfl, rfl⟩
    | true =>
      obtain ⟨I, hg, _⟩ := hist_scale_total h wf 0
      exact ⟨{ h with scale := some I }, some I, by simp [resolveScale, hg, bind, Except.bind, pure, Except.pure],
        rfl, rfl⟩
  have wf' : h1.WF := by
    unfold Hist.WF Hist.nbins at *
    rw [hb, hed]; exact wf
  have hit := iter_bins_with_edges_agrees h1 wf'
  have hcols : ((cs ++ es).map (fun _ => ([] : List Q))) ≠ [] := by
    intro h0
    have := congrArg List.length h0
    simp at this
    exact hcs this.1
  have hrowlen : ∀ p ∈ (cells h1.bins).map (fun p => (p.2, cellEdgesRef h1.edges.axes p.1)),
      (pointOf mode mv p.2 p.1).length = (cs ++ es).length := by
    intro p hp
    obtain ⟨q, hq, rfl⟩ := List.mem_map.1 hp
    have hs : HasShape (nbinsOf h1.edges.axes) h1.bins := wf'.2
    have hin := inRange_of_mem_cells _ _ hs q hq
    simp only [pointOf, List.length_append, getCoord_length mode hmode, cellEdgesRef_length _ _ hin, hk] at *
    rw [hed]; simp [Hist.dim] at hlen; omega
  obtain ⟨cols', l1, _, l3, l4⟩ := graphLoop_spec mode mv (cs ++ es).length _ ((cs ++ es).map (fun _ => [])) 0 hcols
    (by simp) (by intro c hc'; obtain ⟨_, _, rfl⟩ := List.mem_map.1 hc'; rfl) hrowlen
  rw [List.map_map] at l1
  have hfun : ((fun p : Q × List (Q × Q) => ((NArr.leaf p.1 : NArr Q), p.2)) ∘
      fun p : List Nat × Q => (p.2, cellEdgesRef h1.edges.axes p.1)) =
      fun p => (NArr.leaf p.2, cellEdgesRef h1.edges.axes p.1) := rfl
  rw [hfun] at l1
  obtain ⟨g, hg, hdim, _⟩ := graph_valid_naming cols' cs es s' hcs hc he hd l3.symm (sameLengths_of_all _ cols' l4)
  refine ⟨h1, g, ?_, hdim⟩
  unfold histToGraph
  simp only [hmode, if_false, fieldNamesTuple, bind, Except.bind, hres, hit, l1, hg, pure, Except.pure]

/-! ### CSV rows and the cells of `iter_bins` -/

/-- without `duplicate_last_bin`, the CSV rows of a one-dimensional histogram are exactly one row per cell of
`iter_bins`, in that order: the cell's lower edge and its content -/
theorem csv_one_row_per_cell_1d (xs vals : List Q) (xLast : Q) (hlen : xs.length = vals.length) :
    List.zipWith (fun x v => [x, v]) xs vals = (cells (bins1d vals)).map (cellRow [xs ++ [xLast]]) := by
  rw [cells_bins1d, List.map_map]
  have := rows1d_eq_cells xLast vals [] xs hlen
  simpa [Function.comp_def] using this

/-- without `duplicate_last_bin`, the CSV rows of a two-dimensional histogram are exactly one row per cell of
`iter_bins`, in that order: the cell's lower `x` and `y` edges and its content -/
theorem csv_one_row_per_cell_2d (xs ys : List Q) (xLast yLast : Q) (vals : List (List Q))
    (hx : xs.length = vals.length) (hv : ∀ r ∈ vals, r.length = ys.length) :
    (List.zipWith (rowsFor ys yLast false) xs vals).flatten =
      (cells (bins2d vals)).map (cellRow [xs ++ [xLast], ys ++ [yLast]]) := by
  have := rows2d_eq_cells ys xLast yLast vals [] xs hx hv
  simpa [bins2d, cells] using this

/-! ## Adding graphs (`graph.__add__`)

Not in the statement of C12; neighbouring "graph arithmetic".  The model shows what the code does: graphs without
error fields are added point by point; a first operand *with* error fields is rejected by the constructor, although
the docstring says "Error fields are ignored". -/

/-- two constructed graphs without error fields, with the same number of coordinates and the same numbers of points
in every coordinate, are added: the coordinates before the last are those of the first graph, the last ones are
added point by point, the scale is the sum of the scales if both are known (unknown otherwise), the field names are
those of the first graph -/
theorem graph_add_spec (ca cb : List (List Q)) (fa fb : FieldNamesArg) (sa sb : Option Q) (a b : Graph)
    (ha : mkGraph ca fa sa = .ok a) (hb : mkGraph cb fb sb = .ok b)
    (hna : a.parsed = []) (hdim : a.dim = b.dim)
    (hlen : ∀ i (h1 : i < ca.length) (h2 : i < cb.length), i < a.dim → ca[i].length = cb[i].length) :
    ∃ g xa xb, graphAdd a b = .ok g ∧ ca[a.dim - 1]? = some xa ∧ cb[a.dim - 1]? = some xb ∧
      g.coords = ca.take (a.dim - 1) ++ [List.zipWith (· + ·) xa xb] ∧ g.fieldNames = a.fieldNames ∧
      g.dim = a.dim ∧
      g.scale = (addScales sa sb) := by
  obtain ⟨ia, hca, hsa, _, _, hsla, hda⟩ := mkGraph_inv ca fa sa a ha
  obtain ⟨ib, hcb, hsb, _, _, _, _⟩ := mkGraph_inv cb fb sb b hb
  obtain ⟨hpa, _⟩ := mkGraph_parse ca fa sa a ha
  have hd0 : a.dim ≠ 0 := by have := ia.dim_pos; omega
  -- without error fields the number of columns is the dimension
  have hla : ca.length = a.dim := by
    have := ia.dim_parsed; have := ia.names_len; simp [hna, hca] at *; omega
  have hlb : a.dim ≤ cb.length := by
    have := ib.dim_parsed; have := ib.names_len; simp [hcb] at *; omega
  have hxa : ca[a.dim - 1]? = some (ca[a.dim - 1]'(by omega)) := List.getElem?_eq_getElem (by omega)
  have hxb : cb[a.dim - 1]? = some (cb[a.dim - 1]'(by omega)) := List.getElem?_eq_getElem (by omega)
  have hll : (ca[a.dim - 1]'(by omega)).length = (cb[a.dim - 1]'(by omega)).length :=
    hlen (a.dim - 1) (by omega) (by omega) (by omega)
  have hsame := sameCoordLengths_ok ca cb (a.dim - 1) (by omega) (by omega)
    (fun i _ h1 h2 => hlen i h1 h2 (by omega))
  -- the new columns have equal lengths
  obtain ⟨c0, rest, hca0⟩ : ∃ c0 rest, ca = c0 :: rest := by
    cases hc : ca with
    | nil => rw [hc] at hla; simp at hla; exact absurd hla.symm hd0
    | cons c0 rest => exact ⟨c0, rest, rfl⟩
  · have hall : ∀ x ∈ ca, x.length = c0.length := by
      intro x hx
      rw [hca0] at hx hsla
      rcases List.mem_cons.1 hx with rfl | hx
      · rfl
      · exact (sameLengths_iff rest c0).1 hsla x hx
    have hnew : sameLengths (ca.take (a.dim - 1) ++ [List.zipWith (· + ·) (ca[a.dim - 1]'(by omega))
        (cb[a.dim - 1]'(by omega))]) = true := by
      apply sameLengths_of_all c0.length
      intro x hx
      rcases List.mem_append.1 hx with hx | hx
      · exact hall x (List.mem_of_mem_take hx)
      · simp at hx
        subst hx
        simp [← hll, hall _ (List.getElem_mem _)]
    have hmk : ∃ g, mkGraph (ca.take (a.dim - 1) ++ [List.zipWith (· + ·) (ca[a.dim - 1]'(by omega))
        (cb[a.dim - 1]'(by omega))]) (.tuple a.fieldNames)
        (addScales sa sb) = .ok g ∧
        g.coords = ca.take (a.dim - 1) ++ [List.zipWith (· + ·) (ca[a.dim - 1]'(by omega)) (cb[a.dim - 1]'(by omega))] ∧
        g.fieldNames = a.fieldNames ∧ g.dim = a.dim ∧
        g.scale = (addScales sa sb) := by
      have hnl : a.fieldNames.length = (ca.take (a.dim - 1) ++ [List.zipWith (· + ·) (ca[a.dim - 1]'(by omega))
          (cb[a.dim - 1]'(by omega))]).length := by
        have := ia.names_len
        simp [hca, hla] at this ⊢
        omega
      refine ⟨{ coords := _, fieldNames := a.fieldNames, scale := addScales sa sb, parsed := a.parsed,
                dim := a.fieldNames.length - a.parsed.length }, ?_, rfl, rfl, ?_, rfl⟩
      · simp only [mkGraph, fieldNamesTuple, bind, Except.bind, hnew, hnl, hda, hpa, pure, Except.pure]
        simp
      · have := ia.dim_parsed; simp [hna] at this ⊢; omega
    obtain ⟨g, hg, g1, g2, g3, g4⟩ := hmk
    refine ⟨g, _, _, ?_, hxa, hxb, g1, g2, g3, g4⟩
    have hlt : ¬ ((cb[a.dim - 1]'(by omega)).length < (ca[a.dim - 1]'(by omega)).length) := by omega
    have hxa' : a.coords[a.dim - 1]? = some (ca[a.dim - 1]'(by omega)) := by rw [hca]; exact hxa
    have hxb' : b.coords[a.dim - 1]? = some (cb[a.dim - 1]'(by omega)) := by rw [hcb]; exact hxb
    simp only [graphAdd, hdim.symm, hd0, ne_eq, not_true_eq_false, if_false, hca, hcb, hsame, bind, Except.bind,
      Bool.not_true, Bool.false_eq_true, hxa, hxb, hlt, hsa, hsb]
    exact hg

/-- a first operand with error fields cannot be added (the constructor of the sum rejects the field names) -/
theorem graph_add_error_fields (ca : List (List Q)) (fa : FieldNamesArg) (sa : Option Q) (a b g : Graph)
    (ha : mkGraph ca fa sa = .ok a) (h : graphAdd a b = .ok g) : a.parsed = [] := by
  obtain ⟨ia, hca, _, _, _, _, _⟩ := mkGraph_inv ca fa sa a ha
  unfold graphAdd at h
  by_cases h1 : a.dim ≠ b.dim
  · simp [h1] at h
  by_cases h2 : a.dim = 0
  · simp [h2] at h
  simp only [h1, h2, if_false, bind, Except.bind] at h
  cases hs : sameCoordLengths a.coords b.coords (a.dim - 1) with
  | error e => simp [hs] at h
  | ok v =>
    simp only [hs] at h
    cases v with
    | false => simp at h
    | true =>
      simp only [Bool.not_true, Bool.false_eq_true, if_false] at h
      split at h
      · rename_i xa xb hxa hxb
        split at h
        · simp at h
        · obtain ⟨_, hco, _, hfn, _, _, _⟩ := mkGraph_inv _ _ _ _ h
          obtain ⟨ig, _⟩ := mkGraph_inv _ _ _ _ h
          have hl := ig.names_len
          simp [fieldNamesTuple] at hfn
          rw [hco, ← hfn] at hl
          simp at hl
          have := ia.dim_parsed
          have hmin : min (a.dim - 1) a.coords.length + 1 ≤ a.dim := by omega
          have : a.parsed.length = 0 := by omega
          exact List.length_eq_zero_iff.1 this
      · simp at h

example : (do
    let a ← mkGraph [[1, 2], [3, 4]] (.str "x,y".toList) (some 2)
    let b ← mkGraph [[1, 2], [10, 20]] (.str "x,y".toList) (some 3)
    graphAdd a b).toOption.map (fun (g : Graph) => (g.coords, g.scale)) = some ([[1, 2], [13, 24]], some 5) := by
  decide +kernel

end Lena.C12
