import LenaModel.Model.C12
import LenaModel.Lemmas.C12
import LenaModel.Lemmas.C12Hist
import LenaModel.Lemmas.C12Graph
/-! # C12 — property theorems (histogram and graph arithmetic, scaling and conversions keep every cell)

All theorems are about the executable model `LenaModel/Model/C12.lean` (+ `NArr.lean`) over exact rationals, for
histograms of any dimension and shape, any contents, targets, weights and field names.  "Up to rounding" and the
printed precision of CSV numbers are floating-point facts outside the model (DESIGN.md section 8); the harness
checks them numerically on the real code. -/

namespace Lena.C12
open Lena Lena.NArr

/-- a histogram whose bins have the shape of its edges (what `histogram.__init__` builds from `initial_value`,
and what `fill` keeps) -/
def Hist.WF (h : Hist) : Prop := h.edges.axes ≠ [] ∧ HasShape h.nbins h.bins

/-- the example histogram of the non-vacuity checks: edges `[0, 1, 3]`, bins `[1, 2]`, one value out of range -/
def exHist : Hist := { edges := .flat [0, 1, 3], bins := .node [.leaf 1, .leaf 2], nOut := 1, scale := none }
/-- a two-dimensional example: edges `[[0, 1, 3], [0, 2]]`, bins `[[1], [2]]` -/
def exHist2 : Hist := { edges := .nested [[0, 1, 3], [0, 2]], bins := .node [.node [.leaf 1], .node [.leaf 2]],
                        nOut := 0, scale := none }

theorem exHist_wf : exHist.WF := by
  refine ⟨by simp [exHist, Edges.axes], ?_⟩
  simp [exHist, Hist.nbins, nbinsOf, Edges.axes, HasShape]
theorem exHist2_wf : exHist2.WF := by
  refine ⟨by simp [exHist2, Edges.axes], ?_⟩
  simp [exHist2, Hist.nbins, nbinsOf, Edges.axes, HasShape]

/-! ## Rescaling a histogram

"Rescaling a histogram … to s multiplies exactly its contents (bins and n_out_of_range) by s/old scale, leaves
edges … untouched, makes the recomputed scale equal s … and raises LenaValueError for a zero … scale". -/

/-- `hist.scale(s)`, when it returns: the old scale `I` (cached or computed) is not zero, every bin and
`n_out_of_range` are multiplied by `s/I`, the edges are untouched, the stored scale is `s`.  All inputs. -/
theorem hist_scale (h h' : Hist) (s : Q) (hs : setScale h s = .ok h') :
    ∃ I, getScale h false = .ok ({ h with scale := some I }, I) ∧ I ≠ 0 ∧
      h'.bins = map (fun b => b * s / I) h.bins ∧ h'.nOut = h.nOut * (s / I) ∧
      h'.edges = h.edges ∧ h'.scale = some s := by
  unfold setScale at hs
  cases hg : getScale h false with
  | error e => simp [hg, bind, Except.bind] at hs
  | ok p =>
    obtain ⟨h1, I⟩ := p
    have hf := getScale_frame h h1 false I hg
    simp only [hg, bind, Except.bind] at hs
    split at hs
    · simp at hs
    · rename_i hI
      cases hm : mdMap (fun binc => binc * s / I) h1.bins with
      | error e => simp [hm] at hs
      | ok b =>
        have hb := mdMap_eq_map _ _ _ hm
        simp [hm, pure, Except.pure] at hs
        subst hs
        subst hf
        exact ⟨I, rfl, hI, by simpa using hb, rfl, rfl, rfl⟩

example : (setScale exHist 10).toOption.map (fun h' => (values h'.bins, h'.nOut, h'.scale)) = some ([2, 4], 2, some 10) := by
  decide +kernel

/-- the recomputed scale after `hist.scale(s)` is `s`, when the old scale was the integral of the histogram (not a
stale cached value) -/
theorem hist_scale_recomputed (h h' : Hist) (s : Q) (hs : setScale h s = .ok h')
    (hfresh : ∀ c, h.scale = some c → integral h.bins h.edges.axes = .ok c) :
    getScale h' true = .ok ({ h' with scale := some s }, s) := by
  obtain ⟨I, hg, hI, hb, _, he, _⟩ := hist_scale h h' s hs
  have hint : integral h.bins h.edges.axes = .ok I := by
    cases hsc : h.scale with
    | some c =>
      simp [getScale, hsc] at hg
      rw [← hg.2]
      exact hfresh c hsc
    | none =>
      cases hi : integral h.bins h.edges.axes with
      | error e => simp [getScale, hsc, hi, bind, Except.bind] at hg
      | ok c =>
        simp [getScale, hsc, hi, bind, Except.bind, pure, Except.pure] at hg
        rw [hg]
  have hfun : (fun b : Q => b * s / I) = (· * (s / I)) := by
    funext b; grind
  have := integral_map_mul h.bins h.edges.axes (s / I) I hint
  have hval : I * (s / I) = s := by grind
  unfold getScale
  simp only [hb, he, hfun, this, hval]
  cases h'.scale <;> simp [bind, Except.bind, pure, Except.pure]

example : (getScale ((setScale exHist2 10).toOption.getD exHist2) true).toOption.map (·.2) = some 10 := by
  decide +kernel

/-- a histogram whose scale is zero cannot be rescaled: `LenaValueError` -/
theorem hist_scale_zero (h : Hist) (s : Q) (hz : (getScale h false).toOption.map (·.2) = some 0) :
    setScale h s = .error .lenaValueError := by
  cases hg : getScale h false with
  | error e => simp [hg, Except.toOption] at hz
  | ok p =>
    obtain ⟨h1, I⟩ := p
    simp [hg, Except.toOption] at hz
    subst hz
    simp [setScale, hg, bind, Except.bind]

example : setScale { exHist with bins := .node [.leaf 2, .leaf (-1)] } 5 = .error .lenaValueError :=
  hist_scale_zero _ 5 (by decide +kernel)

/-- on a well-formed histogram `scale()` raises nothing, and `scale(s)` raises exactly when the scale is zero -/
theorem hist_scale_total (h : Hist) (wf : h.WF) (s : Q) :
    ∃ I, getScale h false = .ok ({ h with scale := some I }, I) ∧
      (I = 0 → setScale h s = .error .lenaValueError) ∧ (I ≠ 0 → ∃ h', setScale h s = .ok h') := by
  have hg : ∃ I h1, getScale h false = .ok (h1, I) := by
    cases hsc : h.scale with
    | some c => exact ⟨c, h, by simp [getScale, hsc]⟩
    | none =>
      obtain ⟨I, hI⟩ := integral_ok h.bins h.edges.axes wf.2
      exact ⟨I, { h with scale := some I }, by simp [getScale, hsc, hI, bind, Except.bind, pure, Except.pure]⟩
  obtain ⟨I, h1, hg⟩ := hg
  have hf := getScale_frame h h1 false I hg
  subst hf
  refine ⟨I, hg, ?_, ?_⟩
  · intro h0; subst h0; exact hist_scale_zero h s (by simp [hg, Except.toOption])
  · intro hI
    have hshape : ∃ n ns, h.nbins = n :: ns := by
      have := wf.1
      unfold Hist.nbins nbinsOf
      cases hax : h.edges.axes with
      | nil => exact absurd hax this
      | cons e es => exact ⟨_, _, rfl⟩
    obtain ⟨n, ns, hn⟩ := hshape
    have hm := mdMap_ok (fun binc : Q => binc * s / I) ns n h.bins (hn ▸ wf.2)
    exact ⟨{ h with bins := map (fun binc => binc * s / I) h.bins, nOut := h.nOut * (s / I), scale := some s },
      by simp [setScale, hg, bind, Except.bind, hI, hm, pure, Except.pure]⟩

/-! ## `get_nevents`, `set_nevents`

"set_nevents(n) makes get_nevents() equal n". -/

/-- `hist.set_nevents(n, include_out_of_range)`, when it returns: the old number of events was not zero, every bin
and `n_out_of_range` are multiplied by `n/old`, edges untouched, and `get_nevents(include_out_of_range)` is `n`
afterwards.  All inputs. -/
theorem set_nevents_spec (h h' : Hist) (n : Q) (incl : Bool) (hs : setNevents h n incl = .ok h') :
    getNevents h incl ≠ 0 ∧ getNevents h' incl = n ∧
      h'.bins = map (· * (n / getNevents h incl)) h.bins ∧ h'.nOut = h.nOut * (n / getNevents h incl) ∧
      h'.edges = h.edges := by
  unfold setNevents at hs
  simp only at hs
  split at hs
  · simp at hs
  · rename_i hold
    cases hm : mdMap (fun binc => binc * (n / getNevents h incl)) h.bins with
    | error e => simp [hm, bind, Except.bind] at hs
    | ok b =>
      have hb := mdMap_eq_map _ _ _ hm
      simp [hm, bind, Except.bind, pure, Except.pure] at hs
      subst hs
      refine ⟨hold, ?_, hb, rfl, rfl⟩
      subst hb
      unfold getNevents at hold ⊢
      simp only [values_map, sumQ_map_mul]
      cases incl <;> simp at hold ⊢ <;> grind

example : (setNevents exHist 8 true).toOption.map (fun h' => (values h'.bins, h'.nOut, getNevents h' true)) =
    some ([2, 4], 2, 8) := by decide +kernel

/-- a histogram with zero events cannot be rescaled: `LenaValueError` -/
theorem set_nevents_zero (h : Hist) (n : Q) (incl : Bool) (hz : getNevents h incl = 0) :
    setNevents h n incl = .error .lenaValueError := by
  simp [setNevents, hz]

example : setNevents { exHist with bins := .node [.leaf 2, .leaf (-2)] } 5 false = .error .lenaValueError :=
  set_nevents_zero _ _ _ (by decide +kernel)

/-- on a well-formed histogram `set_nevents` raises exactly when there are zero events -/
theorem set_nevents_total (h : Hist) (wf : h.WF) (n : Q) (incl : Bool) (hnz : getNevents h incl ≠ 0) :
    ∃ h', setNevents h n incl = .ok h' := by
  have hshape : ∃ m ms, h.nbins = m :: ms := by
    have := wf.1
    unfold Hist.nbins nbinsOf
    cases hax : h.edges.axes with
    | nil => exact absurd hax this
    | cons e es => exact ⟨_, _, rfl⟩
  obtain ⟨m, ms, hn⟩ := hshape
  have hm := mdMap_ok (fun binc : Q => binc * (n / getNevents h incl)) ms m h.bins (hn ▸ wf.2)
  exact ⟨{ h with bins := map (fun binc => binc * (n / getNevents h incl)) h.bins,
                  nOut := h.nOut * (n / getNevents h incl) },
    by simp [setNevents, hnz, hm, bind, Except.bind, pure, Except.pure]⟩

/-- `get_nevents` is the sum of the cells that `iter_bins` yields (plus `n_out_of_range` when asked) -/
theorem get_nevents_spec (h : Hist) :
    getNevents h false = sumQ ((cells h.bins).map (·.2)) ∧ getNevents h true = getNevents h false + h.nOut := by
  simp [getNevents, values]

/-! ## `histogram.add`

"histogram.add returns the cell-wise a + w*b without modifying its operands and only for equal edges".  (Operands
are values here; that the real objects are not modified is checked by the harness.) -/

/-- the weighted bins of the other histogram in `add`: `md_map(lambda val: val*weight, other.bins)` unless the
weight is 1 -/
def weightedBins (b : Hist) (w : Q) : Except Err (NArr Q) :=
  if w ≠ 1 then mdMap (fun val => val * w) b.bins else pure b.bins

theorem weightedBins_zip (a b : Hist) (w : Q) (ob nb : NArr Q) (ho : weightedBins b w = .ok ob)
    (hnb : mdMap2 (· + ·) a.bins ob = .ok nb) : nb = zipWith (fun x y => x + y * w) a.bins b.bins := by
  have h2 := mdMap2_eq_zipWith _ _ _ _ hnb
  unfold weightedBins at ho
  by_cases hw : w = 1
  · simp [hw, pure, Except.pure] at ho
    subst ho
    subst hw
    simpa using h2
  · simp [hw] at ho
    have := mdMap_eq_map _ _ _ ho
    subst this
    rw [h2, zipWith_map_right]

/-- what `histogram(edges, bins=b)` stores -/
theorem mkHist_some (e : Edges) (b : NArr Q) (i : Q) (nh : Hist) (hk : mkHist e (some b) i = .ok nh) :
    nh.edges = e ∧ nh.bins = b ∧ nh.scale = none ∧ nh.nOut = 0 := by
  unfold mkHist at hk
  cases hce : checkEdgesIncreasing e with
  | error e => simp [hce, bind, Except.bind] at hk
  | ok u =>
    simp only [hce, bind, Except.bind] at hk
    split at hk
    · simp at hk
    · simp at hk
    · cases hl : lenBins b with
      | error e => simp [hl] at hk
      | ok n =>
        simp only [hl] at hk
        split at hk
        · simp at hk
        · simp [pure, Except.pure] at hk
          subst hk
          exact ⟨rfl, rfl, rfl, rfl⟩

/-- `a.add(b, w)`, when it returns `c`: the numbers of bins agree and the edges are close within the given
tolerances; `c` has the edges of `a`, its bins are the cell-wise `a + b*w` (for arrays of any shape), its
`n_out_of_range` is `a.n_out_of_range + b.n_out_of_range*w`, its scale is not computed.  All inputs. -/
theorem add_cellwise (a b c : Hist) (w : Q) (t : Tol) (h : add a b w t = .ok c) :
    a.nbins = b.nbins ∧ iscloseEdges t a.edges b.edges = .ok true ∧
      c.edges = a.edges ∧ c.bins = zipWith (fun x y => x + y * w) a.bins b.bins ∧
      c.nOut = a.nOut + b.nOut * w ∧ c.scale = none := by
  by_cases hn : a.nbins = b.nbins
  case neg => simp [add, hn, bind, Except.bind, pure, Except.pure] at h
  cases hc : iscloseEdges t a.edges b.edges with
  | error e => simp [add, hn, hc, bind, Except.bind] at h
  | ok cl =>
    cases cl with
    | false => simp [add, hn, hc, bind, Except.bind, pure, Except.pure] at h
    | true =>
      have key : ∃ ob nb nh, weightedBins b w = .ok ob ∧ mdMap2 (· + ·) a.bins ob = .ok nb ∧
          mkHist a.edges (some nb) 0 = .ok nh ∧ c = { nh with nOut := a.nOut + b.nOut * w } := by
        by_cases hw : w = 1
        · subst hw
          simp only [add, hn, hc, bind, Except.bind, pure, Except.pure, ne_eq, not_true_eq_false, if_false,
            Bool.not_true, Bool.false_eq_true] at h
          cases hm : mdMap2 (· + ·) a.bins b.bins with
          | error e => simp [hm] at h
          | ok nb =>
            cases hk : mkHist a.edges (some nb) 0 with
            | error e => simp [hm, hk] at h
            | ok nh =>
              simp [hm, hk] at h
              exact ⟨b.bins, nb, nh, by simp [weightedBins, pure, Except.pure], hm, hk, by rw [← h]; simp⟩
        · simp only [add, hn, hc, bind, Except.bind, pure, Except.pure, ne_eq, not_true_eq_false, if_false,
            Bool.not_true, Bool.false_eq_true, hw, not_false_eq_true, if_true] at h
          cases ho : mdMap (fun val => val * w) b.bins with
          | error e => simp [ho] at h
          | ok ob =>
            cases hm : mdMap2 (· + ·) a.bins ob with
            | error e => simp [ho, hm] at h
            | ok nb =>
              cases hk : mkHist a.edges (some nb) 0 with
              | error e => simp [ho, hm, hk] at h
              | ok nh =>
                simp [ho, hm, hk] at h
                exact ⟨ob, nb, nh, by simp [weightedBins, hw, ho], hm, hk, h.symm⟩
      obtain ⟨ob, nb, nh, ho, hm, hk, rfl⟩ := key
      have hnb := weightedBins_zip a b w ob nb ho hm
      have hst := mkHist_some _ _ _ _ hk
      exact ⟨hn, rfl, hst.1, by rw [← hnb]; exact hst.2.1, rfl, hst.2.2.1⟩

example : (add exHist { exHist with bins := .node [.leaf 10, .leaf 20], nOut := 3 } (1/2) ⟨0, 0⟩).toOption.map
    (fun c => (values c.bins, c.nOut)) = some ([6, 12], 5/2) := by decide +kernel

/-- cell-wise, spelled out: the cell of the sum at any index is `a[idx] + b[idx]*w` -/
theorem add_cell (a b c : Hist) (w : Q) (t : Tol) (h : add a b w t = .ok c) (idx : List Nat) (x y : Q)
    (hx : get? a.bins idx = some (.leaf x)) (hy : get? b.bins idx = some (.leaf y)) :
    get? c.bins idx = some (.leaf (x + y * w)) := by
  rw [(add_cellwise a b c w t h).2.2.2.1]
  exact get?_zipWith _ idx _ _ x y hx hy

/-- histograms with different numbers of bins are not added: `LenaValueError` -/
theorem add_rejects_nbins (a b : Hist) (w : Q) (t : Tol) (hn : a.nbins ≠ b.nbins) :
    add a b w t = .error .lenaValueError := by
  simp [add, hn, bind, Except.bind, pure, Except.pure]

/-- histograms whose edges are not close are not added: `LenaValueError` -/
theorem add_rejects_edges (a b : Hist) (w : Q) (t : Tol)
    (hc : (iscloseEdges t a.edges b.edges).toOption = some false) : add a b w t = .error .lenaValueError := by
  cases hc' : iscloseEdges t a.edges b.edges with
  | error e => simp [hc', Except.toOption] at hc
  | ok cl =>
    simp [hc', Except.toOption] at hc
    subst hc
    by_cases hn : a.nbins = b.nbins <;> simp [add, hn, hc', bind, Except.bind, pure, Except.pure]

example : add exHist { exHist with edges := .flat [0, 1, 4] } 1 ⟨1 / 1000000000, 0⟩ = .error .lenaValueError :=
  add_rejects_edges _ _ _ _ (by decide +kernel)
example : add exHist exHist2 1 ⟨1 / 1000000000, 0⟩ = .error .lenaValueError :=
  add_rejects_nbins _ _ _ _ (by decide +kernel)

/-- with zero tolerances two numbers are close only when they are equal -/
theorem isclose1_zero (x y : Q) : isclose1 ⟨0, 0⟩ x y = true ↔ x = y := by
  simp only [isclose1, Rat.abs]
  constructor
  · intro h; grind
  · rintro rfl; grind

theorem iscloseList_zero : ∀ (a b : List Q), a.length = b.length → iscloseList ⟨0, 0⟩ a b = .ok true → a = b
  | [], [], _, _ => rfl
  | [], _ :: _, hl, _ => by simp at hl
  | _ :: _, [], hl, _ => by simp at hl
  | x :: a, y :: b, hl, h => by
    simp only [iscloseList] at h
    split at h
    · rename_i hxy
      rw [(isclose1_zero x y).1 hxy, iscloseList_zero a b (by simpa using hl) h]
    · simp at h

theorem iscloseAxes_zero : ∀ (a b : List (List Q)), nbinsOf a = nbinsOf b → (∀ e ∈ a, e ≠ []) → (∀ e ∈ b, e ≠ []) →
    iscloseAxes ⟨0, 0⟩ a b = .ok true → a = b
  | [], [], _, _, _, _ => rfl
  | [], _ :: _, hl, _, _, _ => by simp [nbinsOf] at hl
  | _ :: _, [], hl, _, _, _ => by simp [nbinsOf] at hl
  | x :: a, y :: b, hl, ha, hb, h => by
    simp only [iscloseAxes] at h
    simp only [nbinsOf, List.map_cons, List.cons.injEq] at hl
    have hx := ha x List.mem_cons_self
    have hy := hb y List.mem_cons_self
    have hlen : x.length = y.length := by
      have h1 : x.length ≠ 0 := by simpa using hx
      have h2 : y.length ≠ 0 := by simpa using hy
      omega
    cases hc : iscloseList ⟨0, 0⟩ x y with
    | error e => simp [hc, bind, Except.bind] at h
    | ok cl =>
      cases cl with
      | false => simp [hc, bind, Except.bind, pure, Except.pure] at h
      | true =>
        simp only [hc, bind, Except.bind, if_true] at h
        rw [iscloseList_zero x y hlen hc, iscloseAxes_zero a b hl.2 (fun e he => ha e (List.mem_cons_of_mem _ he))
          (fun e he => hb e (List.mem_cons_of_mem _ he)) h]

/-- no axis of the edges is empty (true of every constructed histogram) -/
def Edges.NonEmptyAxes (e : Edges) : Prop := ∀ ax ∈ e.axes, ax ≠ []

/-- "only for equal edges": with zero tolerances, histograms (with non-empty edge arrays) that were added have
the same edges -/
theorem add_only_equal_edges (a b c : Hist) (w : Q) (h : add a b w ⟨0, 0⟩ = .ok c)
    (ha : a.edges.NonEmptyAxes) (hb : b.edges.NonEmptyAxes) : a.edges = b.edges := by
  obtain ⟨hn, hc, _⟩ := add_cellwise a b c w _ h
  unfold Hist.nbins at hn
  cases hea : a.edges with
  | flat ea =>
    cases heb : b.edges with
    | flat eb =>
      simp only [hea, heb, Edges.axes, iscloseEdges] at hn hc
      have := iscloseAxes_zero [ea] [eb] hn (by simpa [Edges.NonEmptyAxes, hea, Edges.axes] using ha)
        (by simpa [Edges.NonEmptyAxes, heb, Edges.axes] using hb)
        (by simp [iscloseAxes, hc, bind, Except.bind])
      simp at this
      rw [this]
    | nested eb =>
      rw [hea, heb] at hc
      cases ea with
      | nil =>
        have := ha [] (by simp [hea, Edges.axes])
        exact absurd rfl this
      | cons x ea => simp [iscloseEdges] at hc
  | nested ea =>
    cases heb : b.edges with
    | flat eb =>
      rw [hea, heb] at hc hn
      cases ea with
      | nil => simp [Edges.axes, nbinsOf] at hn
      | cons x ea => simp [iscloseEdges] at hc
    | nested eb =>
      simp only [hea, heb, Edges.axes, iscloseEdges] at hn hc
      rw [iscloseAxes_zero ea eb hn (by simpa [Edges.NonEmptyAxes, hea, Edges.axes] using ha)
        (by simpa [Edges.NonEmptyAxes, heb, Edges.axes] using hb) hc]

example : exHist.edges.NonEmptyAxes := by simp [exHist, Edges.NonEmptyAxes, Edges.axes]

/-! ## Iterators agree

"iter_bins, iter_bins_with_edges and iter_cells agree on content, index and edges". -/

theorem ranges_eq (axes : List (List Q)) :
    axes.map (fun e => List.range (e.length - 1)) = (nbinsOf axes).map List.range := by
  simp [nbinsOf, List.map_map, Function.comp_def]

/-- what the three iterators have in common for every cell `(idx, v)` that `iter_bins` yields -/
theorem cell_facts (h : Hist) (wf : h.WF) (p : List Nat × Q) (hp : p ∈ cells h.bins) :
    getBin h.bins p.1 = .ok (.leaf p.2) ∧ cellEdges h.edges.axes p.1 = .ok (cellEdgesRef h.edges.axes p.1) := by
  refine ⟨?_, cellEdges_ok _ _ (inRange_of_mem_cells _ _ wf.2 p hp)⟩
  rw [getBin_eq_ok_iff]
  exact (mem_cells_iff h.bins p.1 p.2).1 hp

/-- `iter_bins_with_edges(hist.bins, hist.edges)` yields, for the cells `(idx, v)` of `iter_bins(hist.bins)` in
the same order, the content `v` with the edges of cell `idx`.  Any dimension, any shape. -/
theorem iter_bins_with_edges_agrees (h : Hist) (wf : h.WF) :
    iterBinsWithEdges h.bins h.edges =
      .ok ((cells h.bins).map (fun p => (.leaf p.2, cellEdgesRef h.edges.axes p.1))) := by
  unfold iterBinsWithEdges
  simp only
  have hs : HasShape (nbinsOf h.edges.axes) h.bins := wf.2
  rw [ranges_eq, ← cells_fst _ _ hs]
  apply mapM_map_ok
  intro p hp
  obtain ⟨h1, h2⟩ := cell_facts h wf p hp
  simp [h1, h2, bind, Except.bind, pure, Except.pure]

theorem rangeFromTo_zero (n : Nat) : rangeFromTo 0 ((n : Int)) = List.range n := by
  simp [rangeFromTo]

theorem realIndRanges_default : ∀ (axes : List (List Q)),
    realIndRanges axes (List.replicate axes.length (none, none)) = .ok ((nbinsOf axes).map List.range)
  | [] => by simp [realIndRanges, nbinsOf]
  | e :: es => by
    have ih := realIndRanges_default es
    have hcast : ((e.length : Int) - 1) = ((e.length - 1 : Nat) : Int) ∨ e.length = 0 := by omega
    simp only [List.length_cons, List.replicate_succ, realIndRanges, ih, bind, Except.bind, pure, Except.pure,
      nbinsOf, List.map_cons]
    congr 2
    rcases hcast with hc | hc
    · rw [hc, rangeFromTo_zero]
    · simp [hc, rangeFromTo]

/-- `iter_cells(hist)` (no ranges) yields, for the cells `(idx, v)` of `iter_bins(hist.bins)` in the same order,
`HistCell(edges of cell idx, v, idx)`.  Any dimension, any shape. -/
theorem iter_cells_agrees (h : Hist) (wf : h.WF) :
    iterCells h none =
      .ok ((cells h.bins).map (fun p => { edges := cellEdgesRef h.edges.axes p.1, bin := .leaf p.2, index := p.1 })) := by
  unfold iterCells
  simp only [Hist.dim, realIndRanges_default, bind, Except.bind]
  have hs : HasShape (nbinsOf h.edges.axes) h.bins := wf.2
  rw [← cells_fst _ _ hs]
  apply mapM_map_ok
  intro p hp
  obtain ⟨h1, h2⟩ := cell_facts h wf p hp
  simp [h1, h2, bind, Except.bind, pure, Except.pure]

/-- the empty `ranges` tuple means no restriction, like `None` -/
theorem iter_cells_empty_ranges (h : Hist) : iterCells h (some []) = iterCells h none := rfl

/-- the three iterators agree: same cells, same order, same content, index and edges -/
theorem iterators_agree (h : Hist) (wf : h.WF) :
    ∃ bwe cs, iterBinsWithEdges h.bins h.edges = .ok bwe ∧ iterCells h none = .ok cs ∧
      bwe.map (·.1) = (cells h.bins).map (fun p => .leaf p.2) ∧
      cs.map (·.bin) = (cells h.bins).map (fun p => .leaf p.2) ∧
      cs.map (·.index) = (cells h.bins).map (·.1) ∧
      cs.map (·.edges) = bwe.map (·.2) ∧
      (cells h.bins).map (·.1) = indexProd (h.nbins.map List.range) :=
  ⟨_, _, iter_bins_with_edges_agrees h wf, iter_cells_agrees h wf, by simp [Function.comp_def],
    by simp [Function.comp_def], by simp [Function.comp_def], by simp [Function.comp_def], cells_fst _ _ wf.2⟩

example : (iterCells exHist2 none).toOption.map (fun l => l.map (fun c => (c.edges, c.index))) =
    some [([(0, 1), (0, 2)], [0, 0]), ([(1, 3), (0, 2)], [1, 0])] := by decide +kernel
example : (iterBinsWithEdges exHist2.bins exHist2.edges).toOption.map (fun l => l.map (·.2)) =
    some [[(0, 1), (0, 2)], [(1, 3), (0, 2)]] := by decide +kernel

/-! ### `iter_cells` with index ranges -/

/-- all positions of an index tuple satisfy their predicate (and the lengths agree) -/
def selAll : List (Nat → Bool) → List Nat → Bool
  | [], [] => true
  | p :: ps, i :: is => p i && selAll ps is
  | _, _ => false

theorem indexProd_filter : ∀ (ps : List (Nat → Bool)) (rs : List (List Nat)), ps.length = rs.length →
    indexProd (List.zipWith (fun p r => r.filter p) ps rs) = (indexProd rs).filter (selAll ps)
  | [], [], _ => by simp [indexProd, selAll, List.filter]
  | [], _ :: _, h => by simp at h
  | _ :: _, [], h => by simp at h
  | p :: ps, r :: rs, h => by
    have ih := indexProd_filter ps rs (by simpa using h)
    simp only [List.zipWith_cons_cons, indexProd_cons, ih]
    clear h
    induction r with
    | nil => simp
    | cons i r ihr =>
      simp only [List.filter_cons, List.flatMap_cons, List.filter_append]
      rw [← ihr]
      by_cases hp : p i = true
      · simp only [hp, if_true, List.flatMap_cons]
        congr 1
        simp only [List.filter_map]
        congr 1
        apply List.filter_congr
        intro t _
        simp [selAll, hp]
      · simp only [hp, if_false]
        have : List.filter (selAll (p :: ps)) (List.map (fun x => i :: x) (indexProd rs)) = [] := by
          simp only [List.filter_eq_nil_iff, List.mem_map]
          rintro _ ⟨t, _, rfl⟩
          simp [selAll, hp]
        simp [this]

theorem filter_range_ge (lo : Nat) : ∀ u : Nat,
    (List.range u).filter (fun i => decide (lo ≤ i)) = (List.range (u - lo)).map (· + lo)
  | 0 => by simp
  | u + 1 => by
    rw [List.range_succ, List.filter_append, filter_range_ge lo u]
    by_cases h : lo ≤ u
    · have : u + 1 - lo = (u - lo) + 1 := by omega
      rw [this, List.range_succ, List.map_append]
      simp [h]
    · have : u + 1 - lo = u - lo := by omega
      simp [h, this]

theorem rangeFromTo_eq_filter (lo : Nat) (up : Int) : ∀ (n : Nat), up ≤ n →
    rangeFromTo lo up = (List.range n).filter (fun (i : Nat) => decide ((lo : Int) ≤ (i : Int) ∧ (i : Int) < up))
  | 0, hu => by
    have : up.toNat = 0 := by omega
    simp [rangeFromTo, this]
  | n + 1, hu => by
    by_cases hn : up ≤ (n : Int)
    · rw [rangeFromTo_eq_filter lo up n hn, List.range_succ, List.filter_append]
      have : ¬ ((n : Int) < up) := by omega
      simp [this]
    · have hup : up = ((n + 1 : Nat) : Int) := by omega
      subst hup
      simp only [rangeFromTo, Int.toNat_natCast]
      rw [← filter_range_ge lo (n + 1)]
      apply List.filter_congr
      intro i hi
      have := List.mem_range.1 hi
      simp
      omega

/-- a range `(low, up)` that `iter_cells` accepts for an axis -/
def ValidRange (e : List Q) (r : Option Int × Option Int) : Prop :=
  (∀ l, r.1 = some l → 0 ≤ l) ∧ (∀ u, r.2 = some u → u ≤ (e.length : Int) - 1)

/-- the bin indices `low ≤ i < up` that a range selects on an axis (`None`: no limit) -/
def rangePred (e : List Q) (r : Option Int × Option Int) : Nat → Bool :=
  fun i => decide (r.1.getD 0 ≤ (i : Int) ∧ (i : Int) < r.2.getD ((e.length : Int) - 1))

/-- one valid range per axis -/
def ValidRanges : List (List Q) → List (Option Int × Option Int) → Prop
  | [], [] => True
  | e :: es, r :: rs => ValidRange e r ∧ ValidRanges es rs
  | _, _ => False

theorem realIndRanges_cons_valid (e : List Q) (es : List (List Q)) (lo up : Option Int)
    (rs : List (Option Int × Option Int)) (hv : ValidRange e (lo, up)) :
    realIndRanges (e :: es) ((lo, up) :: rs) = (do
      let tail ← realIndRanges es rs
      pure (rangeFromTo (lo.getD 0).toNat (up.getD ((e.length : Int) - 1)) :: tail)) := by
  obtain ⟨hlo, hup⟩ := hv
  have h0 : ∀ l, lo = some l → ¬ l < 0 := fun l hl => by have := hlo l hl; omega
  have h1 : ∀ u, up = some u → ¬ u > (e.length : Int) - 1 := fun u hu => by have := hup u hu; omega
  cases lo <;> cases up <;> simp [realIndRanges, bind, Except.bind, pure, Except.pure, h0, h1]

theorem head_range_eq (e : List Q) (lo up : Option Int) (hv : ValidRange e (lo, up)) :
    rangeFromTo (lo.getD 0).toNat (up.getD ((e.length : Int) - 1)) =
      (List.range (e.length - 1)).filter (rangePred e (lo, up)) := by
  obtain ⟨hlo, hup⟩ := hv
  have hle : up.getD ((e.length : Int) - 1) ≤ ((e.length - 1 : Nat) : Int) := by
    cases up with
    | none => simp; omega
    | some u => have := hup u rfl; simp; omega
  rw [rangeFromTo_eq_filter _ _ (e.length - 1) hle]
  apply List.filter_congr
  intro i _
  have hnn : 0 ≤ lo.getD 0 := by
    cases lo with
    | none => simp
    | some l => simpa using hlo l rfl
  have hcast : (((lo.getD 0).toNat : Nat) : Int) = lo.getD 0 := by omega
  simp only [rangePred, hcast]

theorem realIndRanges_valid : ∀ (axes : List (List Q)) (rg : List (Option Int × Option Int)), ValidRanges axes rg →
    realIndRanges axes rg = .ok (List.zipWith (fun p r => r.filter p) (List.zipWith rangePred axes rg)
      ((nbinsOf axes).map List.range))
  | [], [], _ => by simp [realIndRanges, nbinsOf]
  | [], _ :: _, h => by simp [ValidRanges] at h
  | _ :: _, [], h => by simp [ValidRanges] at h
  | e :: es, (lo, up) :: rs, h => by
    obtain ⟨hv, ht⟩ := h
    have ih := realIndRanges_valid es rs ht
    rw [realIndRanges_cons_valid e es lo up rs hv, ih, head_range_eq e lo up hv]
    simp [bind, Except.bind, pure, Except.pure, nbinsOf]

theorem validRanges_length : ∀ (axes : List (List Q)) (rg : List (Option Int × Option Int)), ValidRanges axes rg →
    axes.length = rg.length
  | [], [], _ => rfl
  | [], _ :: _, h => by simp [ValidRanges] at h
  | _ :: _, [], h => by simp [ValidRanges] at h
  | _ :: es, _ :: rs, h => by simp [validRanges_length es rs h.2]

/-- `iter_cells(hist, ranges)` with one valid index range per coordinate yields exactly the cells of `iter_bins`
whose index lies in every range, in the same order, as `HistCell(edges, content, index)`.  Any dimension. -/
theorem iter_cells_ranges (h : Hist) (wf : h.WF) (r : Option Int × Option Int) (rs : List (Option Int × Option Int))
    (hv : ValidRanges h.edges.axes (r :: rs)) :
    iterCells h (some (r :: rs)) =
      .ok (((cells h.bins).filter (fun p => selAll (List.zipWith rangePred h.edges.axes (r :: rs)) p.1)).map
        (fun p => { edges := cellEdgesRef h.edges.axes p.1, bin := .leaf p.2, index := p.1 })) := by
  have hs : HasShape (nbinsOf h.edges.axes) h.bins := wf.2
  unfold iterCells
  simp only [realIndRanges_valid _ _ hv, bind, Except.bind]
  rw [indexProd_filter _ _ (by
    have := validRanges_length _ _ hv
    simp [nbinsOf, ← this]), ← cells_fst _ _ hs, List.filter_map]
  apply mapM_map_ok
  intro p hp
  obtain ⟨h1, h2⟩ := cell_facts h wf p (List.mem_filter.1 hp).1
  simp [h1, h2, pure, Except.pure]

example : ValidRanges exHist2.edges.axes [(some 1, none), (none, some 1)] := by
  simp [ValidRanges, ValidRange, exHist2, Edges.axes]
example : (iterCells exHist2 (some [(some 1, none), (none, some 1)])).toOption.map (fun l => l.map (·.index)) =
    some [[1, 0]] := by decide +kernel

/-- a negative lower index or an upper index beyond the number of bins is rejected: `LenaValueError` -/
theorem realIndRanges_invalid : ∀ (axes : List (List Q)) (rg : List (Option Int × Option Int)),
    rg.length ≤ axes.length →
    (∃ (k : Nat) (e : List Q) (r : Option Int × Option Int), axes[k]? = some e ∧ rg[k]? = some r ∧ ¬ ValidRange e r) →
    realIndRanges axes rg = .error .lenaValueError
  | _, [], _, ⟨k, _, _, _, h, _⟩ => by simp at h
  | [], _ :: _, hl, _ => by simp at hl
  | e :: es, (lo, up) :: rs, hl, ⟨k, e', r', h1, h2, h3⟩ => by
    by_cases hv : ValidRange e (lo, up)
    · cases k with
      | zero =>
        simp at h1 h2
        subst h1; subst h2
        exact absurd hv h3
      | succ k =>
        have ih := realIndRanges_invalid es rs (by simpa using hl) ⟨k, e', r', by simpa using h1, by simpa using h2, h3⟩
        obtain ⟨hlo, hup⟩ := hv
        have h0 : ∀ l, lo = some l → ¬ l < 0 := fun l hl => by have := hlo l hl; omega
        have h1 : ∀ u, up = some u → ¬ u > (e.length : Int) - 1 := fun u hu => by have := hup u hu; omega
        cases lo <;> cases up <;> simp [realIndRanges, ih, bind, Except.bind, pure, Except.pure, h0, h1]
    · cases lo with
      | some l =>
        by_cases hl0 : l < 0
        · simp [realIndRanges, hl0, bind, Except.bind]
        · cases up with
          | none =>
            exfalso; apply hv
            exact ⟨fun l' h => by (cases h; omega), fun u h => by cases h⟩
          | some u =>
            by_cases hgt : u > (e.length : Int) - 1
            · simp [realIndRanges, hl0, hgt, bind, Except.bind, pure, Except.pure]
            · exfalso; apply hv
              exact ⟨fun l' h => by (cases h; omega), fun u' h => by (cases h; omega)⟩
      | none =>
        cases up with
        | none =>
          exfalso; apply hv
          exact ⟨fun l' h => by (cases h), fun u h => by cases h⟩
        | some u =>
          by_cases hgt : u > (e.length : Int) - 1
          · simp [realIndRanges, hgt, bind, Except.bind, pure, Except.pure]
          · exfalso; apply hv
            exact ⟨fun l' h => by (cases h), fun u' h => by (cases h; omega)⟩

theorem iter_cells_bad_range (h : Hist) (r : Option Int × Option Int) (rs : List (Option Int × Option Int))
    (hl : (r :: rs).length ≤ h.edges.axes.length)
    (hbad : ∃ (k : Nat) (e : List Q) (r' : Option Int × Option Int), h.edges.axes[k]? = some e ∧ (r :: rs)[k]? = some r' ∧ ¬ ValidRange e r') :
    iterCells h (some (r :: rs)) = .error .lenaValueError := by
  unfold iterCells
  simp [realIndRanges_invalid _ _ hl hbad, bind, Except.bind]

example : iterCells exHist (some [(some (-1), none)]) = .error .lenaValueError :=
  iter_cells_bad_range _ _ _ (by simp [exHist, Edges.axes])
    ⟨0, [0, 1, 3], (some (-1), none), by simp [exHist, Edges.axes], by simp, by simp [ValidRange]⟩
example : iterCells exHist (some [(none, some 3)]) = .error .lenaValueError :=
  iter_cells_bad_range _ _ _ (by simp [exHist, Edges.axes])
    ⟨0, [0, 1, 3], (none, some 3), by simp [exHist, Edges.axes], by simp, by simp [ValidRange]⟩

/-! ## Rescaling a graph

"Rescaling … a graph to s multiplies exactly … the last coordinate and its error columns by s/old scale, leaves … the
other coordinates untouched, makes the … scale equal s … and raises LenaValueError for a zero or unknown scale". -/

/-- `field` is an error field of the coordinate `coord`: it is named `error_<coord>` or `error_<coord>_<suffix>` -/
def ErrorFieldOf (coord field : Name) : Prop :=
  ∃ rest, field = "error_".toList ++ rest ∧ (rest = coord ∨ ∃ tail, rest = coord ++ '_' :: tail)

theorem errMatches_iff (f c : Name) (hf : isErrField f = true) :
    errMatches (f.drop 6) c = true ↔ ErrorFieldOf c f := by
  obtain ⟨rest, rfl⟩ := (isErrField_iff f).1 hf
  have hd : (errorPrefix ++ rest).drop 6 = rest := by
    rw [← errorPrefix_length, List.drop_left]
  rw [hd]
  simp only [errMatches, Bool.or_eq_true, beq_iff_eq, List.isPrefixOf_iff_prefix]
  constructor
  · rintro (h | ⟨t, ht⟩)
    · exact ⟨rest, rfl, Or.inl h⟩
    · exact ⟨rest, rfl, Or.inr ⟨t, by simpa using ht.symm⟩⟩
  · rintro ⟨rest', h1, h2⟩
    have : rest' = rest := List.append_cancel_left h1.symm
    subst this
    rcases h2 with h | ⟨t, ht⟩
    · exact Or.inl h
    · exact Or.inr ⟨t, by simp [ht]⟩

/-- a graph whose scale is unknown or zero cannot be rescaled: `LenaValueError` -/
theorem graph_scale_unknown_or_zero (g : Graph) (s : Q) (h : g.scale = none ∨ g.scale = some 0) :
    graphSetScale g s = .error .lenaValueError := by
  rcases h with h | h <;> simp [graphSetScale, h]

/-- `graph.scale(s)` on a constructed graph with known non-zero scale `c` returns, stores the scale `s`, keeps
field names, dimension and the number of columns, multiplies by `s/c` exactly the last coordinate column
(position `dim - 1`) and the columns whose field is an error field of the last coordinate, and leaves every other
column untouched.  Any number of coordinates, any error fields, any valid naming. -/
theorem graph_scale (coords : List (List Q)) (fn : FieldNamesArg) (sc : Option Q) (g : Graph)
    (hg : mkGraph coords fn sc = .ok g) (c s : Q) (hc : sc = some c) (hc0 : c ≠ 0) :
    ∃ g' last, graphSetScale g s = .ok g' ∧ g.fieldNames[g.dim - 1]? = some last ∧
      g'.scale = some s ∧ g'.fieldNames = g.fieldNames ∧ g'.dim = g.dim ∧ g'.coords.length = coords.length ∧
      ∀ (i : Nat) (arr : List Q) (f : Name), coords[i]? = some arr → g.fieldNames[i]? = some f →
        ((i + 1 = g.dim ∨ ErrorFieldOf last f) → g'.coords[i]? = some (arr.map (fun v => s / c * v))) ∧
        (¬ (i + 1 = g.dim ∨ ErrorFieldOf last f) → g'.coords[i]? = some arr) := by
  obtain ⟨inv, hco, hsc, _, _, _, _⟩ := mkGraph_inv coords fn sc g hg
  have hdim0 : g.dim ≠ 0 := by have := inv.dim_pos; omega
  have hlt : g.dim - 1 < g.fieldNames.length := by have := inv.dim_parsed; have := inv.dim_pos; omega
  have hlast : g.fieldNames[g.dim - 1]? = some (g.fieldNames[g.dim - 1]) := List.getElem?_eq_getElem hlt
  refine ⟨{ g with
      coords := rescaleCoords (s / c) ((g.dim - 1) :: errIndices g.dim g.fieldNames[g.dim - 1] g.parsed 0) g.coords 0,
      scale := some s },
    g.fieldNames[g.dim - 1], ?_, hlast, rfl, rfl, rfl, ?_, ?_⟩
  · simp [graphSetScale, hsc, hc, hc0, hdim0, hlast]
  · simp [rescaleCoords_length, hco]
  · intro i arr f harr hf
    have harr' : g.coords[i]? = some arr := by rw [hco]; exact harr
    simp only [rescaleCoords_getElem?, harr', Option.map_some, Nat.add_zero, Option.some.injEq]
    -- membership in the index list ↔ the column belongs to the last coordinate
    have hlast_in : g.fieldNames[g.dim - 1] ∈ g.fieldNames.take g.dim := by
      rw [List.mem_take_iff_getElem]
      exact ⟨g.dim - 1, by have := inv.dim_pos; omega, rfl⟩
    have key : (i = g.dim - 1 ∨ ∃ j p, g.parsed[j]? = some p ∧ p.coord = g.fieldNames[g.dim - 1] ∧ i = j + 0 + g.dim) ↔
        (i + 1 = g.dim ∨ ErrorFieldOf g.fieldNames[g.dim - 1] f) := by
      constructor
      · rintro (h | ⟨j, p, hp, hpc, hi⟩)
        · left; have := inv.dim_pos; omega
        · right
          have hi' : i = g.dim + j := by omega
          subst hi'
          obtain ⟨p', hp1, _, hp3⟩ := inv.parsed_spec j f hf
          rw [hp] at hp1
          cases hp1
          have hferr : isErrField f = true :=
            inv.error_fields f (by
              rw [List.mem_drop_iff_getElem]
              have := (List.getElem?_eq_some_iff.1 hf)
              obtain ⟨hlen, hget⟩ := this
              exact ⟨j, by omega, hget⟩)
          rw [← errMatches_iff f _ hferr]
          have : g.fieldNames[g.dim - 1] ∈ (g.fieldNames.take g.dim).filter (errMatches (f.drop 6)) := by
            rw [hp3, hpc]; simp
          exact (List.mem_filter.1 this).2
      · rintro (h | h)
        · left; omega
        · right
          -- `f` is an error field, so it is not among the coordinate fields
          have hferr : isErrField f = true := by
            obtain ⟨rest, hr, _⟩ := h
            exact (isErrField_iff f).2 ⟨rest, hr⟩
          have hige : g.dim ≤ i := by
            rcases Nat.lt_or_ge i g.dim with hlt' | hge
            · have : f ∈ g.fieldNames.take g.dim := by
                rw [List.mem_take_iff_getElem]
                obtain ⟨hlen, hget⟩ := List.getElem?_eq_some_iff.1 hf
                exact ⟨i, by omega, hget⟩
              have := inv.coord_fields f this
              simp [hferr] at this
            · exact hge
          obtain ⟨j, rfl⟩ : ∃ j, i = g.dim + j := ⟨i - g.dim, by omega⟩
          obtain ⟨p, hp1, _, hp3⟩ := inv.parsed_spec j f hf
          refine ⟨j, p, hp1, ?_, by omega⟩
          have hm := (errMatches_iff f _ hferr).2 h
          have : g.fieldNames[g.dim - 1] ∈ (g.fieldNames.take g.dim).filter (errMatches (f.drop 6)) :=
            List.mem_filter.2 ⟨hlast_in, hm⟩
          rw [hp3] at this
          exact (List.mem_singleton.1 this).symm
    have hcont : (((g.dim - 1) :: errIndices g.dim g.fieldNames[g.dim - 1] g.parsed 0).contains i = true) ↔
        (i = g.dim - 1 ∨ ∃ j p, g.parsed[j]? = some p ∧ p.coord = g.fieldNames[g.dim - 1] ∧ i = j + 0 + g.dim) := by
      simp only [List.contains_eq_mem, List.mem_cons, mem_errIndices, decide_eq_true_eq]
    constructor
    · intro h
      rw [if_pos (hcont.2 (key.2 h))]
    · intro h
      rw [if_neg (fun h' => h (key.1 (hcont.1 h')))]

end Lena.C12
