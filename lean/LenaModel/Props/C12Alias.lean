import LenaModel.Model.C12Alias
import LenaModel.Props.C12
/-! # C12 — the value model is adequate for aliased list objects

"Rescaling … multiplies exactly its contents (bins …; the last coordinate and its error columns) by s/old scale, leaves
… the other coordinates untouched" — for ALL histograms and graphs, also those in which two columns (two rows of the
bins) are one list object.  `Model/C12.lean` states this about values; the theorems here say that reading the objects
after the operation gives exactly what the value model computes, whatever the sharing between the objects was, because
the code allocates new lists and never writes into an existing one (`Model/C12Alias.lean`).  The in-place variants
(not code of /repo) are shown to differ on aliased objects, so the statements are not vacuous about aliasing. -/

namespace Lena.C12

open Lena Lena.NArr

/-! ## columns of a graph -/

/-- allocation does not change what existing references read -/
theorem readCols_append (hp ext : ColHeap) : ∀ (cols : List Nat) (cs : List (List Q)),
    readCols hp cols = some cs → readCols (hp ++ ext) cols = some cs
  | [], cs, h => by simpa [readCols] using h
  | r :: rs, cs, h => by
    simp only [readCols] at h ⊢
    cases hr : hp[r]? with
    | none => simp [hr] at h
    | some c =>
      cases hrs : readCols hp rs with
      | none => simp [hr, hrs] at h
      | some cs' =>
        have hlt : r < hp.length := (List.getElem?_eq_some_iff.1 hr).1
        rw [List.getElem?_append_left hlt, hr, readCols_append hp ext rs cs' hrs]
        simpa [hr, hrs] using h

/-- the loop of `graph.scale` on objects: for EVERY heap and EVERY list of column references (any of them may
coincide) it succeeds, only appends to the heap (no existing list object is written), and the columns read through
the new references are exactly what the value-level loop `rescaleCoords` computes from the columns read before -/
theorem rescaleRefs_spec (c : Q) (inds : List Nat) : ∀ (cols : List Nat) (hp : ColHeap) (ind : Nat) (cs : List (List Q)),
    readCols hp cols = some cs →
    ∃ hp' cols', rescaleRefs c inds hp cols ind = some (hp', cols') ∧ (∃ ext, hp' = hp ++ ext) ∧
      readCols hp' cols' = some (rescaleCoords c inds cs ind)
  | [], hp, ind, cs, h => by
    simp only [readCols, Option.some.injEq] at h
    subst h
    exact ⟨hp, [], by simp [rescaleRefs], ⟨[], by simp⟩, by simp [readCols, rescaleCoords]⟩
  | r :: rest, hp, ind, cs, h => by
    simp only [readCols] at h
    cases hr : hp[r]? with
    | none => simp [hr] at h
    | some arr =>
      cases hrs : readCols hp rest with
      | none => simp [hr, hrs] at h
      | some cs' =>
        simp only [hr, hrs, Option.some.injEq] at h
        subst h
        by_cases hin : ind ∈ inds
        · have h1 := readCols_append hp [arr.map (fun v => c * v)] rest cs' hrs
          obtain ⟨hp', rest', hres, ⟨ext, hext⟩, hread⟩ := rescaleRefs_spec c inds rest _ (ind + 1) cs' h1
          refine ⟨hp', hp.length :: rest', ?_, ⟨[arr.map (fun v => c * v)] ++ ext, by simp [hext]⟩, ?_⟩
          · simp [rescaleRefs, hin, hr, hres]
          · have hnew : hp'[hp.length]? = some (arr.map fun v => c * v) := by
              subst hext
              simp
            simp [readCols, rescaleCoords, hin, hnew, hread]
        · obtain ⟨hp', rest', hres, ⟨ext, hext⟩, hread⟩ := rescaleRefs_spec c inds rest hp (ind + 1) cs' hrs
          refine ⟨hp', r :: rest', ?_, ⟨ext, hext⟩, ?_⟩
          · simp [rescaleRefs, hin, hres]
          · have hold : hp'[r]? = some arr := by
              subst hext
              rw [List.getElem?_append_left (List.getElem?_eq_some_iff.1 hr).1]
              exact hr
            simp [readCols, rescaleCoords, hin, hold, hread]

/-- `graph.scale(s)` on objects agrees with the value model for every sharing pattern: if the columns of `g` are
what the references `cols` read in `hp` (any two references may be the same object), then
* where the value model raises, the object model raises the same exception and nothing is written;
* where the value model returns `g'`, the object model returns a heap that extends `hp` (every list object that
  existed keeps its contents — in particular a column that is ALSO the x column stays what it was) and new column
  references that read exactly `g'.coords`, and the same scale.
With `graph_scale` (Props/C12.lean): exactly the last coordinate and its error columns are multiplied by `s/c`, the
other columns are untouched, also when some of them are one list object. -/
theorem graph_scale_aliasing (g : Graph) (hp : ColHeap) (cols : List Nat) (s : Q)
    (hread : readCols hp cols = some g.coords) :
    (∀ e, graphSetScale g s = .error e → graphSetScaleRefs g hp cols s = .error e) ∧
    (∀ g', graphSetScale g s = .ok g' →
      ∃ hp' cols', graphSetScaleRefs g hp cols s = .ok (hp', cols', g'.scale) ∧ (∃ ext, hp' = hp ++ ext) ∧
        readCols hp' cols' = some g'.coords) := by
  unfold graphSetScale graphSetScaleRefs
  cases hsc : g.scale with
  | none => simp
  | some sc =>
    by_cases h0 : sc = 0
    · simp [h0]
    · by_cases hd : g.dim = 0
      · simp [h0, hd]
      · cases hl : g.fieldNames[g.dim - 1]? with
        | none => simp [h0, hd, hl]
        | some last =>
          obtain ⟨hp', cols', hres, hext, hrd⟩ :=
            rescaleRefs_spec (s / sc) ((g.dim - 1) :: errIndices g.dim last g.parsed 0) cols hp 0 g.coords hread
          simp only [h0, hd, if_false, hl, hres]
          refine ⟨by simp, ?_⟩
          intro g' hg'
          simp only [Except.ok.injEq] at hg'
          subst hg'
          exact ⟨hp', cols', rfl, hext, hrd⟩

/-- non-vacuity, and the reason the statement is about objects: `graph([xs, xs], scale=2).scale(4)` with ONE list
`xs = [1, 2, 3]` for x and y.  The code (new lists) leaves x and doubles y; writing into the existing list doubles
both (in fact twice, were both columns rescaled). -/
example : (rescaleRefs 2 [1] [[1, 2, 3]] [0, 0] 0).bind (fun p => readCols p.1 p.2) = some [[1, 2, 3], [2, 4, 6]] := by
  decide +kernel
example : (rescaleInPlace 2 [1] [[1, 2, 3]] [0, 0] 0).bind (fun hp => readCols hp [0, 0]) = some [[2, 4, 6], [2, 4, 6]] := by
  decide +kernel
/-- symmetric errors given once: `graph([x, y, e, e], "x,y,error_y_low,error_y_high")`; in place the one error list
is multiplied twice -/
example : (rescaleInPlace 2 [1, 2, 3] [[0, 1], [4, 8], [1, 2]] [0, 1, 2, 2] 0).bind (fun hp => readCols hp [0, 1, 2, 2]) =
    some [[0, 1], [8, 16], [4, 8], [4, 8]] := by decide +kernel
example : (rescaleRefs 2 [1, 2, 3] [[0, 1], [4, 8], [1, 2]] [0, 1, 2, 2] 0).bind (fun p => readCols p.1 p.2) =
    some [[0, 1], [8, 16], [2, 4], [2, 4]] := by decide +kernel

/-- the in-place loop differs from the value model on some aliased graph: the statement `rescaleRefs_spec` is
false of it (so `rescaleRefs_spec` is a statement about aliasing, not only about values) -/
theorem rescaleInPlace_differs :
    ∃ (c : Q) (inds : List Nat) (hp : ColHeap) (cols : List Nat) (cs : List (List Q)), readCols hp cols = some cs ∧
      (rescaleInPlace c inds hp cols 0).bind (fun hp' => readCols hp' cols) ≠ some (rescaleCoords c inds cs 0) :=
  ⟨2, [1], [[1, 2, 3]], [0, 0], [[1, 2, 3], [1, 2, 3]], by decide +kernel, by decide +kernel⟩

/-! ## nested bins of a histogram -/

/-- what is read through an address is a list (numbers are entries, not objects) -/
theorem readBins_node : ∀ (fuel : Nat) (hp : BinHeap) (r : Nat) (a : NArr Q), readBins fuel hp r = some a → ∃ l, a = .node l
  | 0, _, _, _, h => by simp [readBins] at h
  | fuel + 1, hp, r, a, h => by
    simp only [readBins] at h
    cases hr : hp[r]? with
    | none => simp [hr] at h
    | some cells =>
      cases hc : readCells (readBins fuel hp) cells with
      | none => simp [hr, hc] at h
      | some xs => simp [hr, hc] at h; exact ⟨xs, h.symm⟩

/-- reading the entries of a list is monotone in the reader of the sub-lists -/
theorem readCells_mono (rd rd' : Nat → Option (NArr Q)) (hm : ∀ r a, rd r = some a → rd' r = some a) :
    ∀ (cells : List Cell) (xs : List (NArr Q)), readCells rd cells = some xs → readCells rd' cells = some xs
  | [], xs, h => by simpa [readCells] using h
  | .num v :: cs, xs, h => by
    simp only [readCells] at h ⊢
    cases hc : readCells rd cs with
    | none => simp [hc] at h
    | some xs' => rw [readCells_mono rd rd' hm cs xs' hc]; simpa [hc] using h
  | .ref r :: cs, xs, h => by
    simp only [readCells] at h ⊢
    cases hr : rd r with
    | none => simp [hr] at h
    | some a =>
      cases hc : readCells rd cs with
      | none => simp [hr, hc] at h
      | some xs' => rw [hm r a hr, readCells_mono rd rd' hm cs xs' hc]; simpa [hr, hc] using h

/-- allocation does not change what existing addresses read -/
theorem readBins_append (ext : BinHeap) : ∀ (fuel : Nat) (hp : BinHeap) (r : Nat) (a : NArr Q),
    readBins fuel hp r = some a → readBins fuel (hp ++ ext) r = some a
  | 0, _, _, _, h => by simp [readBins] at h
  | fuel + 1, hp, r, a, h => by
    simp only [readBins] at h ⊢
    cases hr : hp[r]? with
    | none => simp [hr] at h
    | some cells =>
      have hlt : r < hp.length := (List.getElem?_eq_some_iff.1 hr).1
      rw [List.getElem?_append_left hlt, hr]
      cases hc : readCells (readBins fuel hp) cells with
      | none => simp [hr, hc] at h
      | some xs =>
        have hx := readCells_mono _ _ (fun r a => readBins_append ext fuel hp r a) cells xs hc
        simp only [hr, hc] at h
        simpa [hx] using h

/-- the innermost level `[f(val) for val in array]`: where the value model maps the leaves, the object model builds
the list of the mapped numbers (which reads as the mapped leaves under any reader) -/
theorem cellNums_spec (f : Q → Q) (rd : Nat → Option (NArr Q)) (hrd : ∀ r a, rd r = some a → ∃ l, a = .node l) :
    ∀ (cells : List Cell) (xs ys : List (NArr Q)), readCells rd cells = some xs → mdMapLeaves f xs = .ok ys →
      ∃ vs, cellNums f cells = some vs ∧ ∀ rd' : Nat → Option (NArr Q), readCells rd' vs = some ys
  | [], xs, ys, h, hm => by
    simp only [readCells, Option.some.injEq] at h
    subst h
    simp only [mdMapLeaves, Except.ok.injEq] at hm
    subst hm
    exact ⟨[], rfl, fun _ => rfl⟩
  | .num v :: cs, xs, ys, h, hm => by
    simp only [readCells] at h
    cases hc : readCells rd cs with
    | none => simp [hc] at h
    | some xs' =>
      simp only [hc, Option.map_some, Option.some.injEq] at h
      subst h
      simp only [mdMapLeaves] at hm
      cases hr : mdMapLeaves f xs' with
      | error e => simp [hr, bind, Except.bind] at hm
      | ok ys' =>
        simp only [hr, bind, Except.bind, pure, Except.pure, Except.ok.injEq] at hm
        subst hm
        obtain ⟨vs, hvs, hread⟩ := cellNums_spec f rd hrd cs xs' ys' hc hr
        exact ⟨.num (f v) :: vs, by simp [cellNums, hvs], fun rd' => by simp [readCells, hread rd']⟩
  | .ref r :: cs, xs, ys, h, hm => by
    simp only [readCells] at h
    cases hr : rd r with
    | none => simp [hr] at h
    | some a =>
      cases hc : readCells rd cs with
      | none => simp [hr, hc] at h
      | some xs' =>
        simp only [hr, hc, Option.some.injEq] at h
        subst h
        obtain ⟨l, hl⟩ := hrd r a hr
        subst hl
        simp [mdMapLeaves] at hm

/-- the level `[md_map(f, sub) for sub in array]`, given the statement for the recursive calls: the sub-lists are
mapped in turn into new objects, the heap only grows, the new references read what the value model computes -/
theorem mdMapSubs_spec (f : Q → Q) (fuel : Nat)
    (IH : ∀ (hp : BinHeap) (r : Nat) (a b : NArr Q), readBins fuel hp r = some a → mdMap f a = .ok b →
      ∃ hp' r', mdMapH f fuel hp r = some (hp', r') ∧ (∃ ext, hp' = hp ++ ext) ∧ readBins fuel hp' r' = some b) :
    ∀ (cells : List Cell) (hp : BinHeap) (xs ys : List (NArr Q)),
      readCells (readBins fuel hp) cells = some xs → mdMapNodes f xs = .ok ys →
      ∃ hp' rs, mdMapSubs (mdMapH f fuel) hp cells = some (hp', rs) ∧ (∃ ext, hp' = hp ++ ext) ∧
        readCells (readBins fuel hp') (rs.map Cell.ref) = some ys
  | [], hp, xs, ys, h, hm => by
    simp only [readCells, Option.some.injEq] at h
    subst h
    simp only [mdMapNodes, Except.ok.injEq] at hm
    subst hm
    exact ⟨hp, [], rfl, ⟨[], by simp⟩, rfl⟩
  | .num v :: cs, hp, xs, ys, h, hm => by
    simp only [readCells] at h
    cases hc : readCells (readBins fuel hp) cs with
    | none => simp [hc] at h
    | some xs' =>
      simp only [hc, Option.map_some, Option.some.injEq] at h
      subst h
      simp [mdMapNodes, mdMap, bind, Except.bind] at hm
  | .ref r :: cs, hp, xs, ys, h, hm => by
    simp only [readCells] at h
    cases hr : readBins fuel hp r with
    | none => simp [hr] at h
    | some a =>
      cases hc : readCells (readBins fuel hp) cs with
      | none => simp [hr, hc] at h
      | some xs' =>
        simp only [hr, hc, Option.some.injEq] at h
        subst h
        simp only [mdMapNodes] at hm
        cases hy : mdMap f a with
        | error e => simp [hy, bind, Except.bind] at hm
        | ok y =>
          cases hys : mdMapNodes f xs' with
          | error e => simp [hy, hys, bind, Except.bind] at hm
          | ok ys' =>
            simp only [hy, hys, bind, Except.bind, pure, Except.pure, Except.ok.injEq] at hm
            subst hm
            obtain ⟨hp1, r1, hrec, ⟨e1, he1⟩, hread1⟩ := IH hp r a y hr hy
            have hc1 : readCells (readBins fuel hp1) cs = some xs' := by
              subst he1
              exact readCells_mono _ _ (fun r a => readBins_append e1 fuel hp r a) cs xs' hc
            obtain ⟨hp2, rs, hsubs, ⟨e2, he2⟩, hread2⟩ := mdMapSubs_spec f fuel IH cs hp1 xs' ys' hc1 hys
            refine ⟨hp2, r1 :: rs, by simp [mdMapSubs, hrec, hsubs], ⟨e1 ++ e2, by simp [he2, he1]⟩, ?_⟩
            have hr1 : readBins fuel hp2 r1 = some y := by
              subst he2
              exact readBins_append e2 fuel hp1 r1 y hread1
            simp [readCells, hr1, hread2]

/-- `md_map(f, array)` on objects, for EVERY heap — whatever sub-lists are shared, within `array` or with anything
else: if the object at `r` reads as the nested array `a` and the value model maps it to `b`, the object model
succeeds, only appends to the heap (no existing list object is written), and the new object reads as `b`. -/
theorem mdMapH_spec (f : Q → Q) : ∀ (fuel : Nat) (hp : BinHeap) (r : Nat) (a b : NArr Q),
    readBins fuel hp r = some a → mdMap f a = .ok b →
    ∃ hp' r', mdMapH f fuel hp r = some (hp', r') ∧ (∃ ext, hp' = hp ++ ext) ∧ readBins fuel hp' r' = some b
  | 0, _, _, _, _, h, _ => by simp [readBins] at h
  | fuel + 1, hp, r, a, b, h, hm => by
    simp only [readBins] at h
    cases hr : hp[r]? with
    | none => simp [hr] at h
    | some cells =>
      cases hc : readCells (readBins fuel hp) cells with
      | none => simp [hr, hc] at h
      | some xs =>
        simp only [hr, hc, Option.map_some, Option.some.injEq] at h
        subst h
        cases cells with
        | nil =>
          simp only [readCells, Option.some.injEq] at hc
          subst hc
          simp only [mdMap, Except.ok.injEq] at hm
          subst hm
          exact ⟨hp ++ [[]], hp.length, by simp [mdMapH, hr], ⟨[[]], rfl⟩, by simp [readBins, readCells]⟩
        | cons c cs =>
          cases c with
          | num v =>
            -- the value read starts with a leaf: `[f(val) for val in array]`
            have hxs : ∃ xs', xs = .leaf v :: xs' := by
              simp only [readCells] at hc
              cases hc' : readCells (readBins fuel hp) cs with
              | none => simp [hc'] at hc
              | some xs' => exact ⟨xs', by simpa [hc'] using hc.symm⟩
            obtain ⟨xs', hxs⟩ := hxs
            subst hxs
            simp only [mdMap] at hm
            cases hl : mdMapLeaves f (.leaf v :: xs') with
            | error e => simp [hl, bind, Except.bind] at hm
            | ok ys =>
              simp only [hl, bind, Except.bind, pure, Except.pure, Except.ok.injEq] at hm
              subst hm
              obtain ⟨vs, hvs, hread⟩ := cellNums_spec f (readBins fuel hp)
                (readBins_node fuel hp) (.num v :: cs) _ ys hc hl
              exact ⟨hp ++ [vs], hp.length, by simp [mdMapH, hr, hvs], ⟨[vs], rfl⟩, by simp [readBins, hread]⟩
          | ref r0 =>
            -- the value read starts with a list: `[md_map(f, sub) for sub in array]`
            have hxs : ∃ l xs', xs = .node l :: xs' := by
              simp only [readCells] at hc
              cases h0 : readBins fuel hp r0 with
              | none => simp [h0] at hc
              | some a0 =>
                cases hc' : readCells (readBins fuel hp) cs with
                | none => simp [h0, hc'] at hc
                | some xs' =>
                  obtain ⟨l, hl⟩ := readBins_node fuel hp r0 a0 h0
                  exact ⟨l, xs', by subst hl; simpa [h0, hc'] using hc.symm⟩
            obtain ⟨l, xs', hxs⟩ := hxs
            subst hxs
            simp only [mdMap] at hm
            cases hn : mdMapNodes f (.node l :: xs') with
            | error e => simp [hn, bind, Except.bind] at hm
            | ok ys =>
              simp only [hn, bind, Except.bind, pure, Except.pure, Except.ok.injEq] at hm
              subst hm
              obtain ⟨hp1, rs, hsubs, ⟨e1, he1⟩, hread⟩ :=
                mdMapSubs_spec f fuel (mdMapH_spec f fuel) (.ref r0 :: cs) hp _ ys hc hn
              refine ⟨hp1 ++ [rs.map Cell.ref], hp1.length, by simp [mdMapH, hr, hsubs], ⟨e1 ++ [rs.map Cell.ref], by simp [he1]⟩, ?_⟩
              have hread' := readCells_mono _ _ (fun r a => readBins_append [rs.map Cell.ref] fuel hp1 r a) _ ys hread
              simp [readBins, hread']

/-- `histogram.scale(s)` on objects: if the bins of `h` are what the object at `r` reads (rows may be one list
object, `bins=[row] * n`) and the value model rescales `h` to `h'`, then `md_map` on the objects — with the very
function of `setScale` — only appends to the heap and returns an object that reads as `h'.bins`: every cell is
multiplied exactly once, whatever the sharing. -/
theorem hist_scale_aliasing (h h' : Hist) (s : Q) (fuel : Nat) (hp : BinHeap) (r : Nat)
    (hread : readBins fuel hp r = some h.bins) (hs : setScale h s = .ok h') :
    ∃ sc hp' r', getScale h false = .ok ({ h with scale := some sc }, sc) ∧
      mdMapH (fun binc => binc * s / sc) fuel hp r = some (hp', r') ∧ (∃ ext, hp' = hp ++ ext) ∧
      readBins fuel hp' r' = some h'.bins := by
  unfold setScale at hs
  cases hg : getScale h false with
  | error e => simp [hg, bind, Except.bind] at hs
  | ok p =>
    obtain ⟨h1, sc⟩ := p
    have hh1 : h1 = { h with scale := some sc } := by
      unfold getScale at hg
      cases hsc : h.scale with
      | some s0 =>
        simp only [hsc, Except.ok.injEq, Prod.mk.injEq] at hg
        obtain ⟨h1e, h2e⟩ := hg
        subst h1e; subst h2e
        cases h; simp_all
      | none =>
        simp only [hsc] at hg
        cases hi : integral h.bins h.edges.axes with
        | error e => simp [hi, bind, Except.bind] at hg
        | ok i =>
          simp only [hi, bind, Except.bind, pure, Except.pure, Except.ok.injEq, Prod.mk.injEq] at hg
          obtain ⟨h1e, h2e⟩ := hg
          subst h1e; subst h2e
          rfl
    subst hh1
    simp only [hg, bind, Except.bind] at hs
    by_cases h0 : sc = 0
    · simp [h0] at hs
    · simp only [h0, if_false] at hs
      cases hm : mdMap (fun binc => binc * s / sc) h.bins with
      | error e => simp [hm] at hs
      | ok b =>
        simp only [hm, pure, Except.pure, Except.ok.injEq] at hs
        subst hs
        obtain ⟨hp', r', hres, hext, hrd⟩ := mdMapH_spec _ fuel hp r h.bins b hread hm
        exact ⟨sc, hp', r', rfl, hres, hext, hrd⟩

/-- `histogram.set_nevents(n)` on objects, as `hist_scale_aliasing` -/
theorem set_nevents_aliasing (h h' : Hist) (n : Q) (incl : Bool) (fuel : Nat) (hp : BinHeap) (r : Nat)
    (hread : readBins fuel hp r = some h.bins) (hs : setNevents h n incl = .ok h') :
    ∃ hp' r', mdMapH (fun binc => binc * (n / getNevents h incl)) fuel hp r = some (hp', r') ∧
      (∃ ext, hp' = hp ++ ext) ∧ readBins fuel hp' r' = some h'.bins := by
  unfold setNevents at hs
  by_cases h0 : getNevents h incl = 0
  · simp [h0] at hs
  · simp only [h0, if_false] at hs
    cases hm : mdMap (fun binc => binc * (n / getNevents h incl)) h.bins with
    | error e => simp [hm, bind, Except.bind] at hs
    | ok b =>
      simp only [hm, bind, Except.bind, pure, Except.pure, Except.ok.injEq] at hs
      subst hs
      exact mdMapH_spec _ fuel hp r h.bins b hread hm

/-- non-vacuity: `histogram([[0,1,2],[0,1,2]], bins=[row, row])` with ONE list `row = [1, 2]` (address 0; the
bins are the object at address 1), read as cells (index, content).  `md_map` (new lists) doubles every cell once;
the in-place variant doubles the shared row twice. -/
example : readBins 2 [[.num 1, .num 2], [.ref 0, .ref 0]] 1 = some (.node [.node [.leaf 1, .leaf 2], .node [.leaf 1, .leaf 2]]) := by
  rfl
example : (mdMapH (fun v => 2 * v) 2 [[.num 1, .num 2], [.ref 0, .ref 0]] 1).bind (fun p => (readBins 2 p.1 p.2).map cells) =
    some [([0, 0], 2), ([0, 1], 4), ([1, 0], 2), ([1, 1], 4)] := by decide +kernel
example : (mdMapInPlace (fun v => 2 * v) 2 [[.num 1, .num 2], [.ref 0, .ref 0]] 1).bind (fun hp => (readBins 2 hp 1).map cells) =
    some [([0, 0], 4), ([0, 1], 8), ([1, 0], 4), ([1, 1], 8)] := by decide +kernel
/-- the old objects are untouched by `md_map` -/
example : (mdMapH (fun v => 2 * v) 2 [[.num 1, .num 2], [.ref 0, .ref 0]] 1).bind (fun p => (readBins 2 p.1 1).map cells) =
    some [([0, 0], 1), ([0, 1], 2), ([1, 0], 1), ([1, 1], 2)] := by decide +kernel

/-- the in-place variant differs from the value model on some aliased bins: `mdMapH_spec` is false of it (so
`mdMapH_spec` is a statement about aliasing, not only about values) -/
theorem mdMapInPlace_differs :
    ∃ (f : Q → Q) (fuel : Nat) (hp : BinHeap) (r : Nat) (a b : NArr Q), readBins fuel hp r = some a ∧ mdMap f a = .ok b ∧
      (mdMapInPlace f fuel hp r).bind (fun hp' => readBins fuel hp' r) ≠ some b := by
  refine ⟨fun v => 2 * v, 2, [[.num 1, .num 2], [.ref 0, .ref 0]], 1,
    .node [.node [.leaf 1, .leaf 2], .node [.leaf 1, .leaf 2]], _, rfl,
    mdMap_ok _ [2] 2 _ (by simp [HasShape]), ?_⟩
  intro h
  have h2 := congrArg (Option.map cells) h
  revert h2
  decide +kernel

end Lena.C12
