import LenaModel.Model.C17Ext
import LenaModel.Props.C17
/-! # C17 — property theorems, part 2 (`Model/C17Ext`): `sys.maxsize` limits, argument forms and `ISlice`,
`__eq__`, containers of `RunningChunkBy`, `Chain` over shared one-shot iterators, executable spec predicates -/

namespace Lena.C17

/-! ### the executable predicates are the specification predicates -/

/-- `goodStepB` (run by the driver) decides `GoodStep` (hypothesis of the theorems) -/
theorem goodStepB_iff (step : Option Int) : goodStepB step = true ↔ GoodStep step := by
  cases step with
  | none => simp [goodStepB, GoodStep]
  | some s => simp [goodStepB, GoodStep]

/-- `hasNegB` decides `HasNeg` -/
theorem hasNegB_iff (start stop : Option Int) : hasNegB start stop = true ↔ HasNeg start stop := by
  rw [hasNeg_iff]
  unfold hasNegB
  cases noneOrNonneg start <;> cases noneOrNonneg stop <;> simp

theorem fillOutcomes_eq {α : Type} : ∀ (es : List (SliceEv α)), fillOutcomes es = fillEvs es
  | [] => rfl
  | .fill o :: es => by simp [fillOutcomes, fillEvs, fillOutcomes_eq es]
  | .ran o :: es => by simp [fillOutcomes, fillEvs, fillOutcomes_eq es]
  | .attributeError :: es => by simp [fillOutcomes, fillEvs, fillOutcomes_eq es]

theorem fillValues_eq {α : Type} : ∀ (ops : List (SliceOp α)), fillValues ops = fillVals ops
  | [] => rfl
  | .fill v :: ops => by simp [fillValues, fillVals, fillValues_eq ops]
  | .run xs :: ops => by simp [fillValues, fillVals, fillValues_eq ops]

/-! ### `Slice` within and beyond `sys.maxsize` -/

/-- the argument is `None` or an integer in `[-ms, ms]` -/
def InRange (ms : Nat) (v : Option Int) : Prop := ∀ i, v = some i → -(ms : Int) ≤ i ∧ i ≤ (ms : Int)

theorem tooBig_of_inRange {ms : Nat} {v : Option Int} (h : InRange ms v) : tooBig ms v = false := by
  cases v with
  | none => rfl
  | some i => have := h i rfl; simp [tooBig]; omega

/-- within the range of `ssize_t` the limits play no role at construction -/
theorem mkSliceMS_inRange (ms : Nat) (start stop step : Option Int)
    (h1 : InRange ms start) (h2 : InRange ms stop) (h3 : InRange ms step) :
    mkSliceMS ms start stop step = mkSlice start stop step := by
  simp [mkSliceMS, tooBig_of_inRange h1, tooBig_of_inRange h2, tooBig_of_inRange h3]

theorem dequeMaxlen_inRange (ms : Nat) (start stop : Option Int)
    (h1 : InRange ms start) (h2 : InRange ms stop) (m : Nat) (h : dequeMaxlen start stop = some m) :
    m ≤ ms := by
  unfold dequeMaxlen at h
  cases start with
  | none =>
    cases stop with
    | none => simp at h
    | some b => have := h2 b rfl; simp at h; omega
  | some a =>
    have ha := h1 a rfl
    by_cases hn : a ≥ 0
    · cases stop with
      | none => simp [hn] at h
      | some b => have := h2 b rfl; simp [hn] at h; omega
    · cases stop with
      | none => simp [hn] at h; omega
      | some b =>
        simp only [hn, if_false] at h
        split at h
        · cases h
        · simp at h; omega

/-- **`Slice(start, stop, step).run(xs) = xs[start:stop:step]` with the limits of `islice` and `deque` in the
model**: for all `start`, `stop` in `[-sys.maxsize, sys.maxsize] ∪ {None}`, every step in `[1, sys.maxsize] ∪
{None}` and every finite flow — no `LenaValueError`, no `OverflowError`, no `IndexError`. -/
theorem slice_run_eq_pyslice_ms (ms : Nat) (start stop step : Option Int) (hs : GoodStep step)
    (h1 : InRange ms start) (h2 : InRange ms stop) (h3 : InRange ms step) {α : Type} (xs : List α) :
    sliceRunMS ms (mkSliceMS ms start stop step) xs
      = some (.ok (pySlice xs start stop ((step.getD 1).toNat))) := by
  rw [mkSliceMS_inRange ms start stop step h1 h2 h3]
  have hrun := slice_run_eq_pyslice start stop step hs xs
  rw [mkSlice_good start stop step hs] at hrun ⊢
  by_cases hc : (noneOrNonneg start && noneOrNonneg stop) = true
  · rw [if_pos hc] at hrun ⊢
    simp only [sliceRun, Option.some.injEq, Out.ok.injEq] at hrun
    simp only [sliceRunMS, hrun]
  · rw [if_neg hc] at hrun ⊢
    simp only [sliceRunMS]
    cases hd : dequeMaxlen start stop with
    | none => simp only [hrun]
    | some m =>
      have := dequeMaxlen_inRange ms start stop h1 h2 m hd
      have hm : ¬ (m > ms) := by omega
      simp only [hm, if_false, hrun]

example : sliceRunMS 100 (mkSliceMS 100 (some (-3)) none (some 2)) [0, 1, 2, 3, 4] = some (.ok [2, 4]) := by
  decide

/-- a non-negative argument above `sys.maxsize` is rejected at construction (`islice`'s `ValueError` →
`LenaValueError`), although list slicing accepts it -/
theorem slice_rejects_huge (ms : Nat) (start stop step : Option Int)
    (hnn : (noneOrNonneg start && noneOrNonneg stop && noneOrNonneg step) = true)
    (hbig : (tooBig ms start || tooBig ms stop || tooBig ms step) = true) :
    mkSliceMS ms start stop step = .valueError := by
  simp only [mkSliceMS, hnn, hbig, if_true]

/-- with a negative index a step above `sys.maxsize` is rejected at construction as well -/
theorem slice_rejects_huge_step (ms : Nat) (start stop : Option Int) (s : Int) (hs : s > (ms : Int)) :
    mkSliceMS ms start stop (some s) = .valueError := by
  have hb : tooBig ms (some s) = true := by simp [tooBig, hs]
  unfold mkSliceMS
  split
  · simp [hb]
  · simp

/-- a deque longer than `sys.maxsize` cannot be created: `OverflowError` when the generator starts -/
theorem slice_huge_deque_overflows {α : Type} (ms : Nat) (a b : Option Int) (s m : Nat)
    (hd : dequeMaxlen a b = some m) (hm : m > ms) (xs : List α) :
    sliceRunMS ms (.negative a b s) xs = some .overflowError := by
  simp only [sliceRunMS, hd, hm, if_true]

example : mkSliceMS 100 (some 101) none none = .valueError := by decide
example : sliceRunMS 100 (mkSliceMS 100 (some (-101)) none none) [0, 1] = some .overflowError := by decide

/-! ### argument forms, `ISlice`, `__eq__` -/

/-- `Slice(stop)`, `Slice(start, stop)` and `ISlice(...)` are `Slice(start, stop, step)` with `None`s -/
theorem sliceOfArgs_forms (ms : Nat) (a b s : Option Int) :
    sliceOfArgs ms [b] = some (mkSliceMS ms none b none) ∧
    sliceOfArgs ms [a, b] = some (mkSliceMS ms a b none) ∧
    sliceOfArgs ms [a, b, s] = some (mkSliceMS ms a b s) := ⟨rfl, rfl, rfl⟩

/-- **all call forms slice**: whatever form built the `Slice` (or `ISlice`), `run` yields the Python slice with
the same arguments -/
theorem slice_args_run (ms : Nat) (args : List (Option Int)) (a b s : Option Int)
    (ht : argsTriple args = some (a, b, s)) (hs : GoodStep s)
    (h1 : InRange ms a) (h2 : InRange ms b) (h3 : InRange ms s) {α : Type} (xs : List α) :
    (sliceOfArgs ms args).bind (fun k => sliceRunMS ms k xs)
      = some (.ok (pySlice xs a b ((s.getD 1).toNat))) := by
  simp only [sliceOfArgs, ht, Option.map_some, Option.bind_some]
  exact slice_run_eq_pyslice_ms ms a b s hs h1 h2 h3 xs

example : argsTriple [some (-2)] = some (none, some (-2), none) := rfl

/-- `Slice.__eq__` is sound: equal `Slice` objects are the same element (and hence yield the same) -/
theorem sliceEq_sound (ms : Nat) (a b : List (Option Int)) (h : sliceEq a b = true) :
    sliceOfArgs ms a = sliceOfArgs ms b := by
  have : a = b := by simpa [sliceEq] using h
  rw [this]

/-- `Slice.__eq__` compares the call form: `Slice(1, 2) != Slice(1, 2, None)` although they yield the same -/
example : sliceEq [some 1, some 2] [some 1, some 2, none] = false ∧
    sliceOfArgs 100 [some 1, some 2] = sliceOfArgs 100 [some 1, some 2, none] := by decide

/-- `CountFrom.__eq__` is sound and complete: equal iff the same `start` and `step` -/
theorem countFromEq_iff (a b : CountFromInst) : countFromEq a b = true ↔ a = b := by
  cases a; cases b; simp [countFromEq]

theorem chainEq_iff (a b : List (List Int)) : chainEq a b = true ↔ a = b := by simp [chainEq]

/-! ### `RunningChunkBy` with its container, and chunk size 0 -/

theorem chunkLoopC_map {α κ : Type} (c : Container α κ) (cs : Nat) : ∀ (rest chunk : List α),
    chunkLoopC c cs chunk rest = (chunkLoop cs chunk rest).map c.build
  | [], chunk => by
    simp only [chunkLoopC, chunkLoop]
    split <;> simp
  | v :: rest, chunk => by
    simp only [chunkLoopC, chunkLoop, List.map_cons, chunkLoopC_map c cs rest]

/-- **container kinds**: whatever the container and the way it is called (`container(chunk)` for `tuple` and
`from_iterable=True`, `container(*chunk)` otherwise), `RunningChunkBy(cs, container).run(xs)` yields the
container built from each sliding window, in order (`cs ≥ 1`) -/
theorem chunks_container {α κ : Type} (c : Container α κ) (cs : Nat) (hcs : 1 ≤ cs) (xs : List α) :
    runningChunkByC c cs xs = (windows cs xs).map c.build := by
  rw [← chunks_are_windows cs hcs xs]
  simp only [runningChunkByC, runningChunkBy, chunkLoopC_map]

theorem chunkLoop_zero {α : Type} : ∀ (xs : List α), chunkLoop 0 [] xs = windows 0 xs
  | [] => by simp [chunkLoop, windows]
  | x :: xs => by
    have hd : dqAppend 0 ([] : List α) x = [] := by simp [dqAppend]
    rw [chunkLoop, hd, chunkLoop_zero xs, windows]
    simp

/-- chunk size 0 (outside the property's `1..5`): `n + 1` empty chunks — still the windows of size 0 -/
theorem chunks_are_windows_zero {α : Type} (xs : List α) : runningChunkBy 0 xs = windows 0 xs := by
  simp only [runningChunkBy, List.take_zero, List.drop_zero, dqOfFlow, List.foldl_nil]
  exact chunkLoop_zero xs

/-- for every chunk size -/
theorem chunks_are_windows_all {α : Type} (cs : Nat) (xs : List α) : runningChunkBy cs xs = windows cs xs := by
  cases cs with
  | zero => exact chunks_are_windows_zero xs
  | succ n => exact chunks_are_windows (n + 1) (by omega) xs

example : runningChunkByC setContainer 2 [3, 1, 1, 2] = [.set [1, 3], .set [1], .set [1, 2]] := by decide

/-! ### `Chain` over one-shot iterators shared by all calls -/

/-- the iterators before position `p` are exhausted -/
def DoneBefore {α : Type} (its : List (List α)) (p : Nat) : Prop :=
  ∀ j l, j < p → its[j]? = some l → l = []

theorem doneBefore_flatten {α : Type} : ∀ (p : Nat) (its : List (List α)), DoneBefore its p →
    its.flatten = (its.drop p).flatten
  | 0, _, _ => by simp
  | p + 1, [], _ => by simp
  | p + 1, x :: t, h => by
    have hx : x = [] := h 0 x (by omega) (by simp)
    have ht : DoneBefore t p := by
      intro j l hj hl
      exact h (j + 1) l (by omega) (by simpa using hl)
    rw [List.flatten_cons, hx, List.nil_append, List.drop_succ_cons]
    exact doneBefore_flatten p t ht

/-- one `next` of a chain object whose earlier iterators are exhausted: it yields the first value all the
iterators together still hold (`StopIteration` iff they hold none), removes exactly that value, and keeps every
chain object's "earlier iterators are exhausted" -/
theorem chainShNext_spec {α : Type} : ∀ (fuel : Nat) (its : List (List α)) (p : Nat),
    DoneBefore its p → its.length + 1 ≤ fuel + p →
    (chainShNext fuel its p).2.1.length = its.length ∧
    (match (chainShNext fuel its p).1 with
      | some v => its.flatten = v :: (chainShNext fuel its p).2.1.flatten
      | none => its.flatten = [] ∧ (chainShNext fuel its p).2.1 = its) ∧
    DoneBefore (chainShNext fuel its p).2.1 (chainShNext fuel its p).2.2 ∧
    (∀ q, DoneBefore its q → DoneBefore (chainShNext fuel its p).2.1 q)
  | 0, its, p, hd, hf => by
    have hdrop : its.drop p = [] := List.drop_eq_nil_of_le (by omega)
    have hfl : its.flatten = [] := by rw [doneBefore_flatten p its hd, hdrop]; rfl
    simp only [chainShNext]
    exact ⟨by first | trivial | rfl, ⟨hfl, by first | trivial | rfl⟩, hd, fun q hq => hq⟩
  | fuel + 1, its, p, hd, hf => by
    cases hp : its[p]? with
    | none =>
      have hlen : its.length ≤ p := List.getElem?_eq_none_iff.1 hp
      have hdrop : its.drop p = [] := List.drop_eq_nil_of_le hlen
      have hfl : its.flatten = [] := by rw [doneBefore_flatten p its hd, hdrop]; rfl
      simp only [chainShNext, hp]
      exact ⟨by first | trivial | rfl, ⟨hfl, by first | trivial | rfl⟩, hd, fun q hq => hq⟩
    | some l =>
      cases l with
      | nil =>
        have hd' : DoneBefore its (p + 1) := by
          intro j l hj hl
          by_cases hjp : j = p
          · subst hjp; rw [hp] at hl; cases hl; rfl
          · exact hd j l (by omega) hl
        have ih := chainShNext_spec fuel its (p + 1) hd' (by omega)
        simpa only [chainShNext, hp] using ih
      | cons v r =>
        have hlt : p < its.length := by
          rcases Nat.lt_or_ge p its.length with h | h
          · exact h
          · rw [List.getElem?_eq_none_iff.2 h] at hp; cases hp
        have hget : its[p] = v :: r := by
          have := List.getElem?_eq_getElem hlt
          rw [hp] at this; exact (Option.some.inj this).symm
        simp only [chainShNext, hp]
        refine ⟨by first | trivial | simp, ?_, ?_, ?_⟩
        · -- the value removed is the head of what is left
          have hd2 : DoneBefore (its.set p r) p := by
            intro j l hj hl
            rw [List.getElem?_set_ne (by omega)] at hl
            exact hd j l hj hl
          rw [doneBefore_flatten p its hd, doneBefore_flatten p (its.set p r) hd2,
            List.drop_eq_getElem_cons hlt, hget, List.drop_set]
          simp only [Nat.lt_irrefl, if_false, Nat.sub_self]
          rw [List.drop_eq_getElem_cons hlt, hget]
          simp only [List.set_cons_zero, List.flatten_cons, List.cons_append]
        · intro j l hj hl
          rw [List.getElem?_set_ne (by omega)] at hl
          exact hd j l hj hl
        · intro q hq j l hj hl
          by_cases hjp : p = j
          · subst hjp
            have := hq p (v :: r) hj hp
            cases this
          · rw [List.getElem?_set_ne hjp] at hl
            exact hq j l hj hl

/-- every chain object of the session has only exhausted iterators behind it -/
def ChainInv {α : Type} (s : ChainSh α) : Prop := ∀ p, p ∈ s.gens → DoneBefore s.its p

theorem chainInv_init {α : Type} (xss : List (List α)) : ChainInv { its := xss, gens := [] } := by
  intro p hp; cases hp

/-- one operation: the invariant is kept, and value yielded + values left = values before -/
theorem chainSh_step {α : Type} (s : ChainSh α) (h : ChainInv s) (op : GenOp Unit) :
    ChainInv (s.step op).1 ∧
    (match (s.step op).2 with
      | some (.value _ v) => s.its.flatten = v :: (s.step op).1.its.flatten
      | some (.stop _) => s.its.flatten = [] ∧ (s.step op).1.its = s.its
      | none => (s.step op).1.its = s.its) := by
  cases op with
  | start x =>
    refine ⟨?_, rfl⟩
    intro p hp
    simp only [ChainSh.step, List.mem_append, List.mem_singleton] at hp
    rcases hp with hp | rfl
    · exact h p hp
    · intro j l hj; omega
  | next i =>
    cases hgi : s.gens[i]? with
    | none =>
      simp only [ChainSh.step, hgi]
      exact ⟨h, by first | trivial | rfl⟩
    | some p =>
      have hpd : DoneBefore s.its p := h p (List.mem_of_getElem? hgi)
      obtain ⟨_, h2, h3, h4⟩ := chainShNext_spec (s.its.length + 1) s.its p hpd (by omega)
      have hinv : ∀ (o : Option (GenEv α)),
          ChainInv { its := (chainShNext (s.its.length + 1) s.its p).2.1,
                     gens := s.gens.set i (chainShNext (s.its.length + 1) s.its p).2.2 } := by
        intro _ q hq
        rcases List.mem_or_eq_of_mem_set hq with hq | rfl
        · exact h4 q (h q hq)
        · exact h3
      generalize hres : chainShNext (s.its.length + 1) s.its p = res at h2 h3 h4 hinv
      obtain ⟨o, its', p'⟩ := res
      cases o with
      | none =>
        simp only [ChainSh.step, hgi, hres]
        exact ⟨hinv none, h2⟩
      | some v =>
        simp only [ChainSh.step, hgi, hres]
        exact ⟨hinv none, h2⟩

theorem chainSh_conservation {α : Type} : ∀ (ops : List (GenOp Unit)) (s : ChainSh α), ChainInv s →
    allValues (s.events ops) ++ (s.after ops).its.flatten = s.its.flatten
  | [], s, _ => by simp [ChainSh.events, ChainSh.after, allValues]
  | op :: ops, s, h => by
    obtain ⟨hinv, hstep⟩ := chainSh_step s h op
    have ih := chainSh_conservation ops (s.step op).1 hinv
    simp only [ChainSh.events, ChainSh.after]
    cases hev : (s.step op).2 with
    | none =>
      rw [hev] at hstep
      simp only [] at hstep ⊢
      rw [ih, hstep]
    | some e =>
      rw [hev] at hstep
      cases e with
      | value g v =>
        simp only [allValues] at hstep ⊢
        rw [List.cons_append, ih, hstep]
      | stop g =>
        simp only [allValues] at hstep ⊢
        rw [ih, hstep.2]

/-- **`Chain` over one-shot iterators, called any number of times** (`itertools.chain` objects over the same
iterator objects, advanced in any interleaving): all the values the calls yield, in the order they are
yielded, followed by what the iterators still hold, are `itertools.chain(*iterables)` of the beginning —
every value is yielded exactly once, to whichever call asks first, in chain order. -/
theorem chain_shared_conservation {α : Type} (xss : List (List α)) (ops : List (GenOp Unit)) :
    allValues (ChainSh.events { its := xss, gens := [] } ops)
        ++ (ChainSh.after { its := xss, gens := [] } ops).its.flatten
      = chainCall xss := by
  rw [chainSh_conservation ops _ (chainInv_init xss), chain_spec]

theorem chainInv_after {α : Type} : ∀ (ops : List (GenOp Unit)) (s : ChainSh α), ChainInv s →
    ChainInv (s.after ops)
  | [], _, h => h
  | op :: ops, s, h => chainInv_after ops _ (chainSh_step s h op).1

/-- **a call stops only when every iterator is exhausted**: if, after any session, `next` of a chain object
raises `StopIteration`, none of the shared iterators holds a value any more -/
theorem chain_shared_stop {α : Type} (xss : List (List α)) (ops : List (GenOp Unit)) (i : Nat)
    (h : ((ChainSh.after { its := xss, gens := [] } ops).step (.next i)).2 = some (.stop i)) :
    (ChainSh.after { its := xss, gens := [] } ops).its.flatten = [] := by
  have hinv := chainInv_after ops _ (chainInv_init xss)
  have := (chainSh_step _ hinv (.next i)).2
  rw [h] at this
  exact this.1

example : ChainSh.events { its := [[1, 2], [], [3]], gens := [] }
      [.start (), .next 0, .start (), .next 1, .next 0, .next 0, .next 1]
    = [.value 0 1, .value 1 2, .value 0 3, .stop 0, .stop 1] := by decide

end Lena.C17
