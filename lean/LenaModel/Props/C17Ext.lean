import LenaModel.Model.C17Ext
import LenaModel.Props.C17
/-! # C17 — property theorems, part 2 (`Model/C17Ext`): `sys.maxsize` limits, argument forms and `ISlice`,
`__eq__`, containers of `RunningChunkBy`, `Chain` over shared one-shot iterators, executable spec predicates -/

namespace Lena.C17

/-! ### the executable predicates are the specification predicates -/

/-- `goodStepB` (run by the driver) decides `GoodStep` (hypothesis of the theorems) -/
theorem goodStepB_iff (step : Option Int) : goodStepB step = true ↔ GoodStep step := by
  cases step with
  | none => simp [goodStepB, GoodStep]
  | some s => simp [goodStepB, GoodStep]

/-- `hasNegB` decides `HasNeg` -/
theorem hasNegB_iff (start stop : Option Int) : hasNegB start stop = true ↔ HasNeg start stop := by
  rw [hasNeg_iff]
  unfold hasNegB
  cases noneOrNonneg start <;> cases noneOrNonneg stop <;> simp

theorem fillOutcomes_eq {α : Type} : ∀ (es : List (SliceEv α)), fillOutcomes es = fillEvs es
  | [] => rfl
  | .fill o :: es => by simp [fillOutcomes, fillEvs, fillOutcomes_eq es]
  | .ran o :: es => by simp [fillOutcomes, fillEvs, fillOutcomes_eq es]
  | .attributeError :: es => by simp [fillOutcomes, fillEvs, fillOutcomes_eq es]

theorem fillValues_eq {α : Type} : ∀ (ops : List (SliceOp α)), fillValues ops = fillVals ops
  | [] => rfl
  | .fill v :: ops => by simp [fillValues, fillVals, fillValues_eq ops]
  | .run xs :: ops => by simp [fillValues, fillVals, fillValues_eq ops]

/-! ### `Slice` within and beyond `sys.maxsize` -/

/-- the argument is `None` or an integer in `[-ms, ms]` -/
def InRange (ms : Nat) (v : Option Int) : Prop := ∀ i, v = some i → -(ms : Int) ≤ i ∧ i ≤ (ms : Int)

theorem tooBig_of_inRange {ms : Nat} {v : Option Int} (h : InRange ms v) : tooBig ms v = false := by
  cases v with
  | none => rfl
  | some i => have := h i rfl; simp [tooBig]; omega

/-- within the range of `ssize_t` the limits play no role at construction -/
theorem mkSliceMS_inRange (ms : Nat) (start stop step : Option Int)
    (h1 : InRange ms start) (h2 : InRange ms stop) (h3 : InRange ms step) :
    mkSliceMS ms start stop step = mkSlice start stop step := by
  simp [mkSliceMS, tooBig_of_inRange h1, tooBig_of_inRange h2, tooBig_of_inRange h3]

theorem dequeMaxlen_inRange (ms : Nat) (start stop : Option Int)
    (h1 : InRange ms start) (h2 : InRange ms stop) (m : Nat) (h : dequeMaxlen start stop = some m) :
    m ≤ ms := by
  unfold dequeMaxlen at h
  cases start with
  | none =>
    cases stop with
    | none => simp at h
    | some b => have := h2 b rfl; simp at h; omega
  | some a =>
    have ha := h1 a rfl
    by_cases hn : a ≥ 0
    · cases stop with
      | none => simp [hn] at h
      | some b => have := h2 b rfl; simp [hn] at h; omega
    · cases stop with
      | none => simp [hn] at h; omega
      | some b =>
        simp only [hn, if_false] at h
        split at h
        · cases h
        · simp at h; omega

/-- **`Slice(start, stop, step).run(xs) = xs[start:stop:step]` with the limits of `islice` and `deque` in the
model**: for all `start`, `stop` in `[-sys.maxsize, sys.maxsize] ∪ {None}`, every step in `[1, sys.maxsize] ∪
{None}` and every finite flow — no `LenaValueError`, no `OverflowError`, no `IndexError`. -/
theorem slice_run_eq_pyslice_ms (ms : Nat) (start stop step : Option Int) (hs : GoodStep step)
    (h1 : InRange ms start) (h2 : InRange ms stop) (h3 : InRange ms step) {α : Type} (xs : List α) :
    sliceRunMS ms (mkSliceMS ms start stop step) xs
      = some (.ok (pySlice xs start stop ((step.getD 1).toNat))) := by
  rw [mkSliceMS_inRange ms start stop step h1 h2 h3]
  have hrun := slice_run_eq_pyslice start stop step hs xs
  rw [mkSlice_good start stop step hs] at hrun ⊢
  by_cases hc : (noneOrNonneg start && noneOrNonneg stop) = true
  · rw [if_pos hc] at hrun ⊢
    simp only [sliceRun, Option.some.injEq, Out.ok.injEq] at hrun
    simp only [sliceRunMS, hrun]
  · rw [if_neg hc] at hrun ⊢
    simp only [sliceRunMS]
    cases hd : dequeMaxlen start stop with
    | none => simp only [hrun]
    | some m =>
      have := dequeMaxlen_inRange ms start stop h1 h2 m hd
      have hm : ¬ (m > ms) := by omega
      simp only [hm, if_false, hrun]

example : sliceRunMS 100 (mkSliceMS 100 (some (-3)) none (some 2)) [0, 1, 2, 3, 4] = some (.ok [2, 4]) := by
  decide

/-- a non-negative argument above `sys.maxsize` is rejected at construction (`islice`'s `ValueError` →
`LenaValueError`), although list slicing accepts it -/
theorem slice_rejects_huge (ms : Nat) (start stop step : Option Int)
    (hnn : (noneOrNonneg start && noneOrNonneg stop && noneOrNonneg step) = true)
    (hbig : (tooBig ms start || tooBig ms stop || tooBig ms step) = true) :
    mkSliceMS ms start stop step = .valueError := by
  simp only [mkSliceMS, hnn, hbig, if_true]

/-- with a negative index a step above `sys.maxsize` is rejected at construction as well -/
theorem slice_rejects_huge_step (ms : Nat) (start stop : Option Int) (s : Int) (hs : s > (ms : Int)) :
    mkSliceMS ms start stop (some s) = .valueError := by
  have hb : tooBig ms (some s) = true := by simp [tooBig, hs]
  unfold mkSliceMS
  split
  · simp [hb]
  · simp

/-- a deque longer than `sys.maxsize` cannot be created: `OverflowError` when the generator starts -/
theorem slice_huge_deque_overflows {α : Type} (ms : Nat) (a b : Option Int) (s m : Nat)
    (hd : dequeMaxlen a b = some m) (hm : m > ms) (xs : List α) :
    sliceRunMS ms (.negative a b s) xs = some .overflowError := by
  simp only [sliceRunMS, hd, hm, if_true]

example : mkSliceMS 100 (some 101) none none = .valueError := by decide
example : sliceRunMS 100 (mkSliceMS 100 (some (-101)) none none) [0, 1] = some .overflowError := by decide

/-! ### argument forms, `ISlice`, `__eq__` -/

/-- `Slice(stop)`, `Slice(start, stop)` and `ISlice(...)` are `Slice(start, stop, step)` with `None`s -/
theorem sliceOfArgs_forms (ms : Nat) (a b s : Option Int) :
    sliceOfArgs ms [b] = some (mkSliceMS ms none b none) ∧
    sliceOfArgs ms [a, b] = some (mkSliceMS ms a b none) ∧
    sliceOfArgs ms [a, b, s] = some (mkSliceMS ms a b s) := ⟨rfl, rfl, rfl⟩

/-- **all call forms slice**: whatever form built the `Slice` (or `ISlice`), `run` yields the Python slice with
the same arguments -/
theorem slice_args_run (ms : Nat) (args : List (Option Int)) (a b s : Option Int)
    (ht : argsTriple args = some (a, b, s)) (hs : GoodStep s)
    (h1 : InRange ms a) (h2 : InRange ms b) (h3 : InRange ms s) {α : Type} (xs : List α) :
    (sliceOfArgs ms args).bind (fun k => sliceRunMS ms k xs)
      = some (.ok (pySlice xs a b ((s.getD 1).toNat))) := by
  simp only [sliceOfArgs, ht, Option.map_some, Option.bind_some]
  exact slice_run_eq_pyslice_ms ms a b s hs h1 h2 h3 xs

example : argsTriple [some (-2)] = some (none, some (-2), none) := rfl

/-- `Slice.__eq__` is sound: equal `Slice` objects are the same element (and hence yield the same) -/
theorem sliceEq_sound (ms : Nat) (a b : List (Option Int)) (h : sliceEq a b = true) :
    sliceOfArgs ms a = sliceOfArgs ms b := by
  have : a = b := by simpa [sliceEq] using h
  rw [this]

/-- `Slice.__eq__` compares the call form: `Slice(1, 2) != Slice(1, 2, None)` although they yield the same -/
example : sliceEq [some 1, some 2] [some 1, some 2, none] = false ∧
    sliceOfArgs 100 [some 1, some 2] = sliceOfArgs 100 [some 1, some 2, none] := by decide

/-- `CountFrom.__eq__` is sound and complete: equal iff the same `start` and `step` -/
theorem countFromEq_iff (a b : CountFromInst) : countFromEq a b = true ↔ a = b := by
  cases a; cases b; simp [countFromEq]

theorem chainEq_iff (a b : List (List Int)) : chainEq a b = true ↔ a = b := by simp [chainEq]

/-! ### `RunningChunkBy` with its container, and chunk size 0 -/

theorem chunkLoopC_map {α κ : Type} (c : Container α κ) (cs : Nat) : ∀ (rest chunk : List α),
    chunkLoopC c cs chunk rest = (chunkLoop cs chunk rest).map c.build
  | [], chunk => by
    simp only [chunkLoopC, chunkLoop]
    split <;> simp
  | v :: rest, chunk => by
    simp only [chunkLoopC, chunkLoop, List.map_cons, chunkLoopC_map c cs rest]

/-- **container kinds**: whatever the container and the way it is called (`container(chunk)` for `tuple` and
`from_iterable=True`, `container(*chunk)` otherwise), `RunningChunkBy(cs, container).run(xs)` yields the
container built from each sliding window, in order (`cs ≥ 1`) -/
theorem chunks_container {α κ : Type} (c : Container α κ) (cs : Nat) (hcs : 1 ≤ cs) (xs : List α) :
    runningChunkByC c cs xs = (windows cs xs).map c.build := by
  rw [← chunks_are_windows cs hcs xs]
  simp only [runningChunkByC, runningChunkBy, chunkLoopC_map]

theorem chunkLoop_zero {α : Type} : ∀ (xs : List α), chunkLoop 0 [] xs = windows 0 xs
  | [] => by simp [chunkLoop, windows]
  | x :: xs => by
    have hd : dqAppend 0 ([] : List α) x = [] := by simp [dqAppend]
    rw [chunkLoop, hd, chunkLoop_zero xs, windows]
    simp

/-- chunk size 0 (outside the property's `1..5`): `n + 1` empty chunks — still the windows of size 0 -/
theorem chunks_are_windows_zero {α : Type} (xs : List α) : runningChunkBy 0 xs = windows 0 xs := by
  simp only [runningChunkBy, List.take_zero, List.drop_zero, dqOfFlow, List.foldl_nil]
  exact chunkLoop_zero xs

/-- for every chunk size -/
theorem chunks_are_windows_all {α : Type} (cs : Nat) (xs : List α) : runningChunkBy cs xs = windows cs xs := by
  cases cs with
  | zero => exact chunks_are_windows_zero xs
  | succ n => exact chunks_are_windows (n + 1) (by omega) xs

example : runningChunkByC setContainer 2 [3, 1, 1, 2] = [.set [1, 3], .set [1], .set [1, 2]] := by decide

/-! ### `Chain` over one-shot iterators shared by all calls -/

/-- the iterators before position `p` are exhausted -/
def DoneBefore {α : Type} (its : List (List α)) (p : Nat) : Prop :=
  ∀ j l, j < p → its[j]? = some l → l = []

theorem doneBefore_flatten {α : Type} : ∀ (p : Nat) (its : List (List α)), DoneBefore its p →
    its.flatten = (its.drop p).flatten
  | 0, _, _ => by simp
  | p + 1, [], _ => by simp
  | p + 1, x :: t, h => by
    have hx : x = [] := h 0 x (by omega) (by simp)
    have ht : DoneBefore t p := by
      intro j l hj hl
      exact h (j + 1) l (by omega) (by simpa using hl)
    rw [List.flatten_cons, hx, List.nil_append, List.drop_succ_cons]
    exact doneBefore_flatten p t ht

/-- one `next` of a chain object whose earlier iterators are exhausted: it yields the first value all the
iterators together still hold (`StopIteration` iff they hold none), removes exactly that value, and keeps every
chain object's "earlier iterators are exhausted" -/
theorem chainShNext_spec {α : Type} : ∀ (fuel : Nat) (its : List (List α)) (p : Nat),
    DoneBefore its p → its.length + 1 ≤ fuel + p →
    (chainShNext fuel its p).2.1.length = its.length ∧
    (match (chainShNext fuel its p).1 with
      | some v => its.flatten = v :: (chainShNext fuel its p).2.1.flatten
      | none => its.flatten = [] ∧ (chainShNext fuel its p).2.1 = its) ∧
    DoneBefore (chainShNext fuel its p).2.1 (chainShNext fuel its p).2.2 ∧
    (∀ q, DoneBefore its q → DoneBefore (chainShNext fuel its p).2.1 q)
  | 0, its, p, hd, hf => by
    have hdrop : its.drop p = [] := List.drop_eq_nil_of_le (by omega)
    have hfl : its.flatten = [] := by rw [doneBefore_flatten p its hd, hdrop]; rfl
    simp only [chainShNext]
    exact ⟨by first | trivial | rfl, ⟨hfl, by first | trivial | rfl⟩, hd, fun q hq => hq⟩
  | fuel + 1, its, p, hd, hf => by
    cases hp : its[p]? with
    | none =>
      have hlen : its.length ≤ p := List.getElem?_eq_none_iff.1 hp
      have hdrop : its.drop p = [] := List.drop_eq_nil_of_le hlen
      have hfl : its.flatten = [] := by rw [doneBefore_flatten p its hd, hdrop]; rfl
      simp only [chainShNext, hp]
      exact ⟨by first | trivial | rfl, ⟨hfl, by first | trivial | rfl⟩, hd, fun q hq => hq⟩
    | some l =>
      cases l with
      | nil =>
        have hd' : DoneBefore its (p + 1) := by
          intro j l hj hl
          by_cases hjp : j = p
          · subst hjp; rw [hp] at hl; cases hl; rfl
          · exact hd j l (by omega) hl
        have ih := chainShNext_spec fuel its (p + 1) hd' (by omega)
        simpa only [chainShNext, hp] using ih
      | cons v r =>
        have hlt : p < its.length := by
          rcases Nat.lt_or_ge p its.length with h | h
          · exact h
          · rw [List.getElem?_eq_none_iff.2 h] at hp; cases hp
        have hget : its[p] = v :: r := by
          have := List.getElem?_eq_getElem hlt
          rw [hp] at this; exact (Option.some.inj this).symm
        simp only [chainShNext, hp]
        refine ⟨by first | trivial | simp, ?_, ?_, ?_⟩
        · -- the value removed is the head of what is left
          have hd2 : DoneBefore (its.set p r) p := by
            intro j l hj hl
            rw [List.getElem?_set_ne (by omega)] at hl
            exact hd j l hj hl
          rw [doneBefore_flatten p its hd, doneBefore_flatten p (its.set p r) hd2,
            List.drop_eq_getElem_cons hlt, hget, List.drop_set]
          simp only [Nat.lt_irrefl, if_false, Nat.sub_self]
          rw [List.drop_eq_getElem_cons hlt, hget]
          simp only [List.set_cons_zero, List.flatten_cons, List.cons_append]
        · intro j l hj hl
          rw [List.getElem?_set_ne (by omega)] at hl
          exact hd j l hj hl
        · intro q hq j l hj hl
          by_cases hjp : p = j
          · subst hjp
            have := hq p (v :: r) hj hp
            cases this
          · rw [List.getElem?_set_ne hjp] at hl
            exact hq j l hj hl

/-- every chain object of the session has only exhausted iterators behind it -/
def ChainInv {α : Type} (s : ChainSh α) : Prop := ∀ p, p ∈ s.gens → DoneBefore s.its p

theorem chainInv_init {α : Type} (xss : List (List α)) : ChainInv { its := xss, gens := [] } := by
  intro p hp; cases hp

/-- one operation: the invariant is kept, and value yielded + values left = values before -/
theorem chainSh_step {α : Type} (s : ChainSh α) (h : ChainInv s) (op : GenOp Unit) :
    ChainInv (s.step op).1 ∧
    (match (s.step op).2 with
      | some (.value _ v) => s.its.flatten = v :: (s.step op).1.its.flatten
      | some (.stop _) => s.its.flatten = [] ∧ (s.step op).1.its = s.its
      | none => (s.step op).1.its = s.its) := by
  cases op with
  | start x =>
    refine ⟨?_, rfl⟩
    intro p hp
    simp only [ChainSh.step, List.mem_append, List.mem_singleton] at hp
    rcases hp with hp | rfl
    · exact h p hp
    · intro j l hj; omega
  | next i =>
    cases hgi : s.gens[i]? with
    | none =>
      simp only [ChainSh.step, hgi]
      exact ⟨h, by first | trivial | rfl⟩
    | some p =>
      have hpd : DoneBefore s.its p := h p (List.mem_of_getElem? hgi)
      obtain ⟨_, h2, h3, h4⟩ := chainShNext_spec (s.its.length + 1) s.its p hpd (by omega)
      have hinv : ∀ (o : Option (GenEv α)),
          ChainInv { its := (chainShNext (s.its.length + 1) s.its p).2.1,
                     gens := s.gens.set i (chainShNext (s.its.length + 1) s.its p).2.2 } := by
        intro _ q hq
        rcases List.mem_or_eq_of_mem_set hq with hq | rfl
        · exact h4 q (h q hq)
        · exact h3
      generalize hres : chainShNext (s.its.length + 1) s.its p = res at h2 h3 h4 hinv
      obtain ⟨o, its', p'⟩ := res
      cases o with
      | none =>
        simp only [ChainSh.step, hgi, hres]
        exact ⟨hinv none, h2⟩
      | some v =>
        simp only [ChainSh.step, hgi, hres]
        exact ⟨hinv none, h2⟩

theorem chainSh_conservation {α : Type} : ∀ (ops : List (GenOp Unit)) (s : ChainSh α), ChainInv s →
    allValues (s.events ops) ++ (s.after ops).its.flatten = s.its.flatten
  | [], s, _ => by simp [ChainSh.events, ChainSh.after, allValues]
  | op :: ops, s, h => by
    obtain ⟨hinv, hstep⟩ := chainSh_step s h op
    have ih := chainSh_conservation ops (s.step op).1 hinv
    simp only [ChainSh.events, ChainSh.after]
    cases hev : (s.step op).2 with
    | none =>
      rw [hev] at hstep
      simp only [] at hstep ⊢
      rw [ih, hstep]
    | some e =>
      rw [hev] at hstep
      cases e with
      | value g v =>
        simp only [allValues] at hstep ⊢
        rw [List.cons_append, ih, hstep]
      | stop g =>
        simp only [allValues] at hstep ⊢
        rw [ih, hstep.2]

/-- **`Chain` over one-shot iterators, called any number of times** (`itertools.chain` objects over the same
iterator objects, advanced in any interleaving): all the values the calls yield, in the order they are
yielded, followed by what the iterators still hold, are `itertools.chain(*iterables)` of the beginning —
every value is yielded exactly once, to whichever call asks first, in chain order. -/
theorem chain_shared_conservation {α : Type} (xss : List (List α)) (ops : List (GenOp Unit)) :
    allValues (ChainSh.events { its := xss, gens := [] } ops)
        ++ (ChainSh.after { its := xss, gens := [] } ops).its.flatten
      = chainCall xss := by
  rw [chainSh_conservation ops _ (chainInv_init xss), chain_spec]

theorem chainInv_after {α : Type} : ∀ (ops : List (GenOp Unit)) (s : ChainSh α), ChainInv s →
    ChainInv (s.after ops)
  | [], _, h => h
  | op :: ops, s, h => chainInv_after ops _ (chainSh_step s h op).1

/-- **a call stops only when every iterator is exhausted**: if, after any session, `next` of a chain object
raises `StopIteration`, none of the shared iterators holds a value any more -/
theorem chain_shared_stop {α : Type} (xss : List (List α)) (ops : List (GenOp Unit)) (i : Nat)
    (h : ((ChainSh.after { its := xss, gens := [] } ops).step (.next i)).2 = some (.stop i)) :
    (ChainSh.after { its := xss, gens := [] } ops).its.flatten = [] := by
  have hinv := chainInv_after ops _ (chainInv_init xss)
  have := (chainSh_step _ hinv (.next i)).2
  rw [h] at this
  exact this.1

example : ChainSh.events { its := [[1, 2], [], [3]], gens := [] }
      [.start (), .next 0, .start (), .next 1, .next 0, .next 0, .next 1]
    = [.value 0 1, .value 1 2, .value 0 3, .stop 0, .stop 1] := by decide

/-! ### `fill_into` of `Slice(start, stop, step)` as constructed (all call forms, `None` defaults) -/

/-- what the constructor builds for non-negative arguments and a good step: the `islice` kind and the initial
`fill_into` state — the `None` defaults (`start → 0`, `step → 1`) are applied here, in the model -/
theorem mkSliceInst_nonneg (start stop step : Option Int) (hs : GoodStep step)
    (h1 : noneOrNonneg start = true) (h2 : noneOrNonneg stop = true) :
    mkSliceInst start stop step
      = some { kind := .islice (start.getD 0).toNat (stop.map Int.toNat) ((step.getD 1).toNat),
               fill := fillInit (start.getD 0).toNat } := by
  unfold mkSliceInst
  rw [mkSlice_good start stop step hs]
  simp [h1, h2]

private theorem adj_start_nn (n : Nat) (start : Option Int) (h : noneOrNonneg start = true) :
    adj n (some ((start.getD 0).toNat : Int)) 0 = adj n start 0 := by
  cases start with
  | none => simp [adj]
  | some a =>
    have : 0 ≤ a := by simpa [noneOrNonneg] using h
    have e : ((a.toNat : Nat) : Int) = a := by omega
    simp only [Option.getD_some, e]

private theorem adj_stop_nn (n : Nat) (stop : Option Int) (h : noneOrNonneg stop = true) :
    adj n ((stop.map Int.toNat).map Int.ofNat) n = adj n stop n := by
  cases stop with
  | none => rfl
  | some a =>
    have : 0 ≤ a := by simpa [noneOrNonneg] using h
    have e : Int.ofNat a.toNat = a := by simp only [Int.ofNat_eq_natCast]; omega
    simp only [Option.map_some, e]

/-- **"its fill_into route fills exactly the same values for non-negative arguments"**, for the object
`Slice(start, stop, step)` itself: for all non-negative or `None` `start`, `stop`, every step `None` or `≥ 1`
and every finite flow fed value by value, the values passed to `element.fill` are `xs[start:stop:step]`. -/
theorem slice_fill_into_eq {α : Type} (start stop step : Option Int) (hs : GoodStep step)
    (h1 : noneOrNonneg start = true) (h2 : noneOrNonneg stop = true) (xs : List α) :
    ∃ st, sliceFillAll start stop step xs
      = .filled (pySlice xs start stop ((step.getD 1).toNat)) st := by
  have hstep : 1 ≤ (step.getD 1).toNat := by have := goodStep_getD hs; omega
  refine ⟨(fillAll (stop.map Int.toNat) (step.getD 1).toNat (fillInit (start.getD 0).toNat) 0 xs).2, ?_⟩
  simp only [sliceFillAll, mkSliceInst_nonneg start stop step hs h1 h2]
  rw [fill_into_eq _ _ _ hstep xs]
  unfold pySlice
  simp only [adj_start_nn _ _ h1, adj_stop_nn _ _ h2]

/-- **"raises LenaStopFill only when no later value could be selected"** for the object as constructed: if
`LenaStopFill` is raised while value number `i` is filled, then `stop` is an integer and every selected index
`start + k*step` that is `≥ i` is `≥ stop` (`start`, `step` with their `None` defaults). -/
theorem slice_stopfill_only_when_done {α : Type} (start stop step : Option Int) (hs : GoodStep step)
    (h1 : noneOrNonneg start = true) (h2 : noneOrNonneg stop = true) (xs ys : List α) (i : Nat)
    (h : sliceFillAll start stop step xs = .filled ys (some i)) :
    ∃ st : Int, stop = some st ∧
      ∀ k : Nat, (i : Int) ≤ start.getD 0 + k * step.getD 1 → st ≤ start.getD 0 + k * step.getD 1 := by
  have hg := goodStep_getD hs
  have hstep : 1 ≤ (step.getD 1).toNat := by omega
  simp only [sliceFillAll, mkSliceInst_nonneg start stop step hs h1 h2, FillRun.filled.injEq] at h
  obtain ⟨n, hn, hall⟩ := stopfill_only_when_done _ _ _ hstep xs i h.2
  cases stop with
  | none => simp at hn
  | some b =>
    have hb : 0 ≤ b := by simpa [noneOrNonneg] using h2
    have ha : 0 ≤ start.getD 0 := by
      cases start with
      | none => simp
      | some a => simpa [noneOrNonneg] using h1
    refine ⟨b, rfl, ?_⟩
    intro k hk
    simp only [Option.map_some, Option.some.injEq] at hn
    have e1 : ((start.getD 0).toNat : Int) = start.getD 0 := by omega
    have e2 : ((step.getD 1).toNat : Int) = step.getD 1 := by omega
    have hk' : i ≤ (start.getD 0).toNat + k * (step.getD 1).toNat := by
      have : ((i : Nat) : Int) ≤ (((start.getD 0).toNat + k * (step.getD 1).toNat : Nat) : Int) := by
        rw [Int.natCast_add, Int.natCast_mul, e1, e2]; exact hk
      exact Int.ofNat_le.mp this
    have := hall k hk'
    have h3 : ((n : Nat) : Int) ≤ (((start.getD 0).toNat + k * (step.getD 1).toNat : Nat) : Int) :=
      Int.ofNat_le.mpr this
    rw [Int.natCast_add, Int.natCast_mul, e1, e2] at h3
    omega

example : sliceFillAll (α := Int) none (some 3) none [10, 11, 12, 13, 14] = .filled [10, 11, 12] (some 3) := by
  decide
example : sliceFillAll (α := Int) (some 1) (some 6) (some 2) [0, 1, 2, 3, 4, 5, 6, 7]
    = .filled [1, 3, 5] (some 6) := by decide

/-! ### the exact index of `LenaStopFill` -/

theorem stopIdx_filled (c st step : Nat) (hs : 1 ≤ step) (hlt : c < st) :
    stopIdx (c + step) (c + 1) st step = stopIdx c c st step := by
  have h1 : ¬ (st ≤ c) := by omega
  simp only [stopIdx, h1, if_false]
  by_cases h2 : st ≤ c + step
  · have : (st - c - 1) / step = 0 := Nat.div_eq_of_lt (by omega)
    simp [h2, this]
  · have e : st - c - 1 = (st - (c + step) - 1) + step := by omega
    have hd : (st - c - 1) / step = (st - (c + step) - 1) / step + 1 := by
      rw [e, Nat.add_div_right _ (by omega)]
    simp only [h2, if_false, hd, Nat.succ_mul]
    omega

/-- where `fill_into` raises `LenaStopFill`, exactly (general position of the index iterator) -/
theorem fillAll_stop_exact {α : Type} (st step : Nat) (hs : 1 ≤ step) :
    ∀ (xs : List α) (next cnt : Nat) (s : FillState), FillGood (some st) step next cnt s →
      (fillAll (some st) step s cnt xs).2 =
        if stopIdx next cnt st step < cnt + xs.length then some (stopIdx next cnt st step) else none
  | [], next, cnt, s, hg => by
    have hle : cnt ≤ next := hg.2.1
    have : ¬ (stopIdx next cnt st step < cnt + 0) := by
      unfold stopIdx; split <;> omega
    simp only [fillAll, List.length_nil, this, if_false]
  | x :: rest, next, cnt, s, hg => by
    have hle : cnt ≤ next := hg.2.1
    have hstep := fillInto_step (some st) step hs next cnt s hg
    generalize hfi : fillInto (some st) step s = r at hstep
    obtain ⟨s', o⟩ := r
    simp only at hstep
    rcases hstep with ⟨⟨st', hst', hle'⟩, _, rfl⟩ | ⟨hlt, ⟨rfl, rfl, hg'⟩ | ⟨hne, rfl, hg'⟩⟩
    · cases hst'
      have e : stopIdx next cnt st step = cnt := by simp [stopIdx, hle']
      simp only [fillAll, hfi, e, List.length_cons]
      have : cnt < cnt + (rest.length + 1) := by omega
      simp [this]
    · have hlt' := hlt st rfl
      simp only [fillAll, hfi, List.length_cons]
      rw [fillAll_stop_exact st step hs rest _ _ s' hg', stopIdx_filled cnt st step hs hlt']
      have : cnt + 1 + rest.length = cnt + (rest.length + 1) := by omega
      rw [this]
    · have hlt' := hlt st rfl
      have h1 : ¬ (st ≤ next) := by omega
      have e : stopIdx next (cnt + 1) st step = stopIdx next cnt st step := by
        simp only [stopIdx, h1, if_false]
      simp only [fillAll, hfi, List.length_cons]
      rw [fillAll_stop_exact st step hs rest _ _ s' hg', e]
      have : cnt + 1 + rest.length = cnt + (rest.length + 1) := by omega
      rw [this]

/-- **exactly when `LenaStopFill` is raised**: with `stop = st`, feeding `xs` raises it at value number
`stopIdx start 0 st step` — 0 if nothing is selected (`st ≤ start`), otherwise one past the last selected index
`start + ⌊(st−start−1)/step⌋·step` (so, for `step > 1`, possibly before `st`: the "early exceptions" of the
docstring) — provided the flow is long enough to get there; otherwise it is not raised.  Both directions: the model
does raise it, and nowhere else. -/
theorem stopfill_exact {α : Type} (start st step : Nat) (hs : 1 ≤ step) (xs : List α) :
    (fillAll (some st) step (fillInit start) 0 xs).2 =
      if stopIdx start 0 st step < xs.length then some (stopIdx start 0 st step) else none := by
  have := fillAll_stop_exact st step hs xs start 0 (fillInit start) (fillGood_init (some st) step start)
  simpa only [Nat.zero_add] using this

/-- without a `stop`, `LenaStopFill` is never raised -/
theorem stopfill_never_without_stop {α : Type} (start step : Nat) (hs : 1 ≤ step) (xs : List α) :
    (fillAll none step (fillInit start) 0 xs).2 = none := by
  cases h : (fillAll none step (fillInit start) 0 xs).2 with
  | none => rfl
  | some i =>
    obtain ⟨st, hst, _⟩ := stopfill_only_when_done start none step hs xs i h
    cases hst

example : stopIdx 1 0 6 2 = 6 ∧ stopIdx 0 0 6 4 = 5 ∧ stopIdx 3 0 2 1 = 0 := by decide
example : (fillAll (some 6) 4 (fillInit 0) 0 [0, 1, 2, 3, 4, 5, 6, 7]).2 = some 5 := by decide

/-! ### bad steps, all call forms and kinds -/

/-- **"rejects other steps with LenaValueError at construction"** with the `sys.maxsize` limits in the model:
an integer step `≤ 0`, whatever `start` and `stop` are -/
theorem mkSliceMS_rejects_bad_step (ms : Nat) (start stop : Option Int) (s : Int) (hs : s ≤ 0) :
    mkSliceMS ms start stop (some s) = .valueError := by
  unfold mkSliceMS
  rw [slice_rejects_bad_step start stop s hs]
  split
  · split <;> rfl
  · split <;> rfl

/-- the same for every call form that has a step (`Slice(start, stop, step)`, `ISlice(...)`) -/
theorem sliceOfArgs_rejects_bad_step (ms : Nat) (a b : Option Int) (s : Int) (hs : s ≤ 0) :
    sliceOfArgs ms [a, b, some s] = some .valueError := by
  simp only [sliceOfArgs, argsTriple, Option.map_some, mkSliceMS_rejects_bad_step ms a b s hs]

/-- a float step is rejected at construction (definitional: `mkSliceStepArg` says what the code does) -/
theorem slice_rejects_float_step (ms : Nat) (start stop : Option Int) :
    mkSliceStepArg ms start stop .float = .valueError := rfl

example : sliceOfArgs 100 [some (-3), none, some 0] = some .valueError := by decide

end Lena.C17
