import LenaModel.Model.C17Num
import LenaModel.Props.C17
/-! # C17 — `CountFrom` equals `itertools.count` for every kind of number (seed round I/J)

"CountFrom equals itertools.count": `itertools.count(start, step)` adds the step repeatedly, in the arithmetic of its
arguments.  `countFromG` is that definition for any type with `+`.

* `countFromG_step`, `countFromG_head`, `countFromG_unique`: the values are *the* sequence that starts with `start`
  and in which every value is the previous one plus `step` — for ANY addition (floats included: this is the
  reference the oracle evaluates with the real `itertools.count`).
* `countFromG_exact`: in exact arithmetic (any commutative ring: ints, Fractions, Decimals within precision, dyadic
  floats within range) the `i`-th value is `start + i * step`; `countFromQ_spec` is the instance for rationals.
* `countFromG_int`: over the integers it is the `countFrom` of `Model/C17.lean` (so `countfrom_spec` and the session
  theorems speak about the same function).
* `countFromG_hom`, `countFromQ_scale`: the values are carried along by any additive map; hence a count over rationals
  with a common denominator `d` is the integer count divided by `d` (how the harness compares sessions on
  Fractions / Decimals / dyadic floats with the integer session model).
* `rounding_add_differs`: in an arithmetic that rounds, repeated addition and `start + i * step` are different
  sequences (the hypothesis of `countFromG_exact` cannot be dropped; the seed C17-J replaced one by the other). -/

namespace Lena.C17

variable {α β : Type}

theorem countFromG_length [Add α] (a s : α) (n : Nat) : (countFromG a s n).length = n := by
  induction n generalizing a with
  | zero => rfl
  | succ n ih => simp [countFromG, ih]

/-- the first value is `start` itself (no arithmetic is applied to it) -/
theorem countFromG_head [Add α] (a s : α) (n : Nat) : (countFromG a s (n + 1))[0]? = some a := by
  simp [countFromG]

/-- **repeated addition**: every value is the previous one plus `step`, in whatever arithmetic `+` is -/
theorem countFromG_step [Add α] (a s : α) (n i : Nat) (x : α)
    (h : (countFromG a s n)[i]? = some x) (hi : i + 1 < n) :
    (countFromG a s n)[i + 1]? = some (x + s) := by
  induction n generalizing a i with
  | zero => omega
  | succ n ih =>
    cases i with
    | zero =>
      cases n with
      | zero => omega
      | succ m =>
        simp [countFromG] at h ⊢
        rw [h]
    | succ j =>
      simp only [countFromG, List.getElem?_cons_succ] at h ⊢
      exact ih (a + s) j h (by omega)

/-- the two laws determine the sequence: a list of `n` values that starts with `start` and in which every value is the
previous one plus `step` is `countFromG start step n` -/
theorem countFromG_unique [Add α] (a s : α) (l : List α)
    (h0 : l ≠ [] → l[0]? = some a)
    (hs : ∀ i x, l[i]? = some x → i + 1 < l.length → l[i + 1]? = some (x + s)) :
    l = countFromG a s l.length := by
  induction l generalizing a with
  | nil => rfl
  | cons y ys ih =>
    have hy : y = a := by simpa using h0 (by simp)
    subst hy
    simp only [List.length_cons, countFromG, List.cons.injEq, true_and]
    apply ih
    · intro hne
      cases ys with
      | nil => exact absurd rfl hne
      | cons z zs =>
        have := hs 0 y (by simp) (by simp)
        simpa using this
    · intro i x hx hi
      have := hs (i + 1) x (by simpa using hx) (by simp; omega)
      simpa using this

example : countFromG (3 : Int) 4 3 = [3, 7, 11] := by decide

/-- over the integers `countFromG` is `countFrom` (the function of `countfrom_spec` and of the session model) -/
theorem countFromG_int (a s : Int) (n : Nat) : countFromG a s n = countFrom a s n := by
  induction n generalizing a with
  | zero => rfl
  | succ n ih => simp [countFromG, countFrom, ih]

/-- any additive map carries a count to the count of the images -/
theorem countFromG_hom [Add α] [Add β] (f : α → β) (hf : ∀ x y, f (x + y) = f x + f y) (a s : α) (n : Nat) :
    (countFromG a s n).map f = countFromG (f a) (f s) n := by
  induction n generalizing a with
  | zero => rfl
  | succ n ih => simp [countFromG, ih, hf]

section exact
attribute [local instance] Lean.Grind.Semiring.natCast

/-- **exact arithmetic**: in a commutative ring the `i`-th value of `itertools.count(start, step)` is
`start + i * step` -/
theorem countFromG_exact [Lean.Grind.CommRing α] (a s : α) (n : Nat) :
    countFromG a s n = (List.range n).map (fun (i : Nat) => a + (i : α) * s) := by
  induction n generalizing a with
  | zero => rfl
  | succ n ih =>
    rw [countFromG, ih, List.range_succ_eq_map]
    simp only [List.map_cons, List.map_map]
    congr 1
    · rw [Lean.Grind.Semiring.natCast_zero]; grind
    · apply List.map_congr_left
      intro i _
      simp only [Function.comp]
      rw [Lean.Grind.Semiring.natCast_succ]; grind

end exact

/-- `CountFrom(start, step)` on rationals (Fractions; Decimals and floats as far as their arithmetic is exact) -/
theorem countFromQ_spec (a s : Rat) (n : Nat) :
    countFromQ a s n = (List.range n).map (fun (i : Nat) => a + (i : Rat) * s) :=
  countFromG_exact a s n

example : countFromQ (1 / 3) (1 / 7) 3 = [1 / 3, 10 / 21, 13 / 21] := by decide +kernel

/-- a count over rationals with the common denominator `d` is the integer count divided by `d` -/
theorem countFromQ_scale (a s : Int) (d : Rat) (n : Nat) :
    countFromQ ((a : Rat) / d) ((s : Rat) / d) n = (countFrom a s n).map (fun (z : Int) => (z : Rat) / d) := by
  rw [← countFromG_int, countFromQ]
  rw [countFromG_hom (fun z : Int => (z : Rat) / d)]
  intro x y
  simp only [Rat.intCast_add, Rat.div_def, Rat.add_mul]

/-- in an arithmetic that rounds (every sum rounded down to an even number, as a float near `1e17` swallows `0.5`),
`itertools.count(4, 1)` stays at 4 while `start + i * step` moves on: the two forms are different sequences -/
theorem rounding_add_differs :
    countFromG (⟨4⟩ : Ev) ⟨1⟩ 5 = [⟨4⟩, ⟨4⟩, ⟨4⟩, ⟨4⟩, ⟨4⟩] ∧
    countMulG (⟨4⟩ : Ev) (fun i => ⟨i * 1⟩) 5 = [⟨4⟩, ⟨4⟩, ⟨6⟩, ⟨6⟩, ⟨8⟩] := by
  decide

end Lena.C17
