import LenaModel.Model.C05Sel
import LenaModel.Props.C05

/-!
# C05, addition: a `Filter` built from any selector is driver-consistent

Sentence 1 of C05 for the kind "Filter", for EVERY form of the selector (`Model/C05Sel.lean`): `Filter.fill_into` value
by value fills exactly what `Filter.run` yields, with the same exception / stop signal, whatever the selector is made of
(`raise_on_error` False or True at any level).  Plus what `raise_on_error=False` means: such a selector never raises.
-/

namespace Lena.C05

open Lena.Flow

/-- `Filter(x)` for every selector `x`: filling value by value = filling the output of `run` (same values, same end) -/
theorem selFilter_consistent (x : SelArg) (K : Sink κ Value) (fs : Lena.C17.FillState) (s : κ) (flow : Strm Value) :
    (feedS (stageSink (.filter x.evalFilter) K) (fs, s) flow).map Prod.snd = feedS K s (filterS x.evalFilter flow) :=
  filter_consistent x.evalFilter K fs s flow

/-- the element-level statement on the very function the driver evaluates (`driveStageObj (selFilterObj x)`): what
`FillSeq(Filter(x), store)` filled value by value leaves in the store = storing what `Filter(x).run` yields -/
theorem selFilter_stage_agree (x : SelArg) (flow : List Value) (term : Option Exc) :
    ∃ f r, driveStageObj (selFilterObj x) flow term = .ok (f, r) ∧
      f = feedS storeSinkV [] (filterS x.evalFilter ⟨flow, term⟩) := by
  refine ⟨_, _, rfl, ?_⟩
  exact filter_consistent x.evalFilter storeSinkV _ [] ⟨flow, term⟩

/-- `catchRoe false` never lets an exception through -/
theorem catchRoe_false_ok (r : Except Exc Bool) : ∃ b, catchRoe false r = .ok b := by
  cases r with
  | ok b => exact ⟨b, rfl⟩
  | error e => exact ⟨false, rfl⟩

/-- `Selector(x, raise_on_error=False)` never raises, whatever `x` is -/
theorem selector_roe_false_total (x : SelArg) (roe : Bool) (v : Value) :
    ∃ b, (SelArg.selector x false).inner roe v = .ok b := by
  simp only [SelArg.inner]
  exact catchRoe_false_ok _

/-- `Not(x, raise_on_error=False)` never raises: a full negation, an error in `x` counts as "not selected" -/
theorem not_roe_false_total (x : SelArg) (roe : Bool) (v : Value) :
    ∃ b, (SelArg.not x false).inner roe v = .ok b := by
  simp only [SelArg.inner]
  obtain ⟨b, hb⟩ := catchRoe_false_ok (SelArg.inner x false v)
  exact ⟨!b, by rw [hb]; rfl⟩

/-- so `Filter(Selector(x, raise_on_error=False))` passes or drops every value, in both drivers -/
theorem filter_roe_false_total (x : SelArg) (v : Value) :
    ∃ b, (SelArg.selector x false).evalFilter v = .ok b := by
  simp only [SelArg.evalFilter, SelArg.isObj, if_true]
  exact selector_roe_false_total x true v

/-- with the default `raise_on_error=True` the exception of the predicate is the selector's -/
theorem selector_roe_true (x : SelArg) (roe : Bool) (v : Value) :
    (SelArg.selector x true).inner roe v = SelArg.inner x true v := by
  simp only [SelArg.inner]
  cases SelArg.inner x true v <;> rfl

/-! non-vacuity: the predicate raises on a string, the `raise_on_error=False` selector drops it, the default one raises;
the `raise_on_error` of a container reaches its raw items only -/
example : (SelArg.pred .even).evalFilter (.str "s") = .error .typeError := by rfl
example : (SelArg.selector (.pred .even) false).evalFilter (.str "s") = .ok false := by rfl
example : (SelArg.selector (.pred .even) true).evalFilter (.str "s") = .error .typeError := by rfl
example : (SelArg.not (.pred .even) false).evalFilter (.str "s") = .ok true := by rfl
example : (SelArg.selector (.list [.pred .even, .selector (.pred .lt5) true]) false).evalFilter (.str "s") = .ok false := by
  rfl
example : (SelArg.or [.selector (.pred .even) true] false).evalFilter (.str "s") = .error .typeError := by rfl
example : (SelArg.or [.pred .even, .cls .str] false).evalFilter (.str "s") = .ok true := by rfl
example : (SelArg.and [.cls .int, .key "a"] true).evalFilter (.tup [.int 6, .dict [("a", .int 1)]]) = .ok true := by rfl

end Lena.C05
