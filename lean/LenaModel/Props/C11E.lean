import LenaModel.Props.C11
/-! # C11 — property theorems, second part (review follow-up)

* **Sentence 1 in one statement** (`cell_is_halfopen_subflow`): the state of every cell is the analysis run on
  the values of the flow whose argument lies in the half-open cell — no routing vocabulary left to assemble.
* **Analyses that do work when `compute()` is called** (`AnalysisE`, `SIB.computeE`): `FillComputeSeq.compute()`
  is evaluated immediately, so an eager post-element raises while `_MdSeqMap.__init__` creates the generators.
  `result_shapeE`, `result_count_leE`, `result_count_stopE`, `compute_raiseE`, `compute_completeE`,
  `computeE_start_error` are sentence 3 for such analyses (the theorems of `Props/C11.lean` about `SIB.compute`
  are the special case of lazy post-elements).
* **MapBins makes progress** (`map_bins_complete`, `map_bins_raise`): a model that never yields would not satisfy
  these.
* **The nesting branch of `update_nested`** (`updateNested_absent`, `updateNested_present`,
  `iterate_cell_context_nested`): a cell that already carries `context.bins` (two-level split).

What is **not** a theorem (stated here so that nobody reads more into the value model than it can say): that
the cells are *private copies* — that no object is shared between two cells, between a cell and the `seq`
object passed to `SplitIntoBins`, between `_cur_context` and the context of a flow value, or between the
contexts yielded for different cells/results — is outside a model in which `copy.deepcopy` is the identity.
`cells_share_nothing`, `map_bins_cells_independent` and "as the value arrived" in `context_is_last_inside` say
that the *transcribed algorithm* routes, updates and reads one cell / one value at a time; absence of aliasing
in the real objects is checked by the harness on the generated cases only (mutating pre-elements, re-use of the
analysis and variable objects, a downstream element behind `compute()`, identity tests on yielded contexts). -/

namespace Lena.C11

open Lena
open Lena.C06 (Edges Coord ValidEdges ValidAxis dimsOf InCell GuessesOK Proper)
open Lena.C14 (V Slots Value getSlot setSlot emptyD key)

set_option linter.unusedSectionVars false

variable {α β γ σ ρ ε D ο : Type}

section
variable [LT α] [LE α] [DecidableLT α] [DecidableLE α] [DecidableEq α]
  [Std.IsLinearOrder α] [Std.LawfulOrderLT α]
variable (names : List String)

/-! ## sentence 1, combined -/

/-- **Sentence (1) in one statement.**  Build a `SplitIntoBins` from any edges around any analysis, fill any
flow that is accepted, whose values all have an argument of the right form for the edges (`coords v` are its
components): then *every* cell `p` holds exactly the state that the analysis reaches, from its initial state,
on the values of the flow that lie in the half-open cell `p` (`low ≤ x < high` in every dimension — a value on
a border belongs to the cell above it), in arrival order.  Any in-range interpolation guess. -/
theorem cell_is_halfopen_subflow (an : Analysis σ D ρ ε) (av : ArgVar α D ε) (guess : Nat → Nat → Nat → Int)
    (hg : GuessesOK guess) {seq : Option σ} {b : Bool} {edges : Edges α} {s0 s : SIB α σ}
    (flow : List (Value D)) (coords : Value D → List α)
    (hform : ∀ v ∈ flow, ∃ x, av.getter (C14.getDataContext names v).1 = .ok x ∧ Proper edges x (coords v))
    (hnew : (SIB.new names seq b edges : Except (Exc ε) (SIB α σ)) = .ok s0)
    (hrun : SIB.fillAll names an av guess s0 flow = .ok s) :
    ∃ init, seq = some init ∧ s.edges = edges ∧ NArr.HasShape (dimsOf edges.axes) s.bins ∧
      ∀ p, PathIn p (dimsOf edges.axes) →
        ∃ c, cellAt s.bins p = some c ∧
          an.fillAll init (flow.filter (fun v => inCellB edges.axes (coords v) p)) = .ok c := by
  obtain ⟨init, hseq, hed, hsh, hcells⟩ := cell_is_subflow names an av guess flow hnew hrun
  obtain ⟨_, _, he, _⟩ := new_ok_inv names hnew
  refine ⟨init, hseq, hed, hsh, ?_⟩
  intro p hp
  obtain ⟨c, hc, hrun'⟩ := hcells p hp
  refine ⟨c, hc, ?_⟩
  have hfil : subflow names av guess edges (dimsOf edges.axes) p flow =
      flow.filter (fun v => inCellB edges.axes (coords v) p) := by
    unfold subflow
    apply List.filter_congr
    intro v hv
    obtain ⟨x, hx, hpr⟩ := hform v hv
    have h1 := route_inCell names av guess he hg hx hpr p
    by_cases hin : InCell edges.axes (coords v) p
    · have hr := h1.2 hin
      simp [routedTo, hr, (inCellB_iff _ _ _).2 hin]
    · have hb : inCellB edges.axes (coords v) p = false := by
        cases hbb : inCellB edges.axes (coords v) p with
        | false => rfl
        | true => exact absurd ((inCellB_iff _ _ _).1 hbb) hin
      have hne : routedTo names av guess edges (dimsOf edges.axes) v ≠ some p := by
        intro hrt
        apply hin
        apply h1.1
        unfold routedTo at hrt
        split at hrt
        · rename_i r hr'; rw [hr', hrt]
        · simp at hrt
      simp [hb, hne]
  rw [← hfil]
  exact hrun'

/-! ## analyses that do work when `compute()` is called -/

theorem startCellE_ok_iff (an : AnalysisE σ D ρ ε) (c : σ) (t' : Trace ρ (Exc ε)) :
    startCellE an c = .ok t' ↔ ∃ t, an.start c = .ok t ∧ t' = t.liftInner := by
  unfold startCellE
  cases an.start c with
  | error e => simp
  | ok t => simp [eq_comm]

theorem startCellE_error_iff (an : AnalysisE σ D ρ ε) (c : σ) (e : Exc ε) :
    startCellE an c = .error e ↔ ∃ e', an.start c = .error e' ∧ e = .inner e' := by
  unfold startCellE
  cases an.start c with
  | error e0 => simp [eq_comm]
  | ok t => simp

/-- `compute()` once the context is updated and all generators are created -/
theorem computeE_eq (an : AnalysisE σ D ρ ε) (av : ArgVar α D ε) {s : SIB α σ}
    {ctx : Slots} (hctx : C14.updateContext names true s.curContext av.varCtx = .ok ctx)
    {traces : NArr (Trace ρ (Exc ε))}
    (hst : mdMapE (startCellE an) (Exc.lenaTypeError : Exc ε) .unmodelled s.bins = .ok traces) :
    SIB.computeE names an av s =
      mdSeqMapRun (fun result =>
        match (mkHistogram s.edges result : Except (Exc ε) (Hist α ρ)) with
        | .error e => .error e
        | .ok h => .ok (h, ctx)) traces := by
  simp only [SIB.computeE, hctx, hst]
  rfl

/-- the generators that `_MdSeqMap.__init__` creates: one per cell, in the cell's place -/
theorem traces_spec (an : AnalysisE σ D ρ ε) {s : SIB α σ} (he : ValidEdges s.edges)
    (hs : NArr.HasShape (dimsOf s.edges.axes) s.bins) {traces : NArr (Trace ρ (Exc ε))}
    (hst : mdMapE (startCellE an) (Exc.lenaTypeError : Exc ε) .unmodelled s.bins = .ok traces) :
    NArr.HasShape (dimsOf s.edges.axes) traces ∧
      (∀ p cst, cellAt s.bins p = some cst → ∃ t, an.start cst = .ok t ∧ cellAt traces p = some t.liftInner) ∧
      (∀ p t', cellAt traces p = some t' → ∃ cst t, cellAt s.bins p = some cst ∧ an.start cst = .ok t ∧
        t' = t.liftInner) := by
  obtain ⟨hsh, hcok⟩ := (mdMapE_char (startCellE an) _ _ _ s.bins hs (dimsOf_ne_nil' he)).1 traces hst
  refine ⟨hsh, ?_, ?_⟩
  · intro p cst hp
    obtain ⟨t', ht', hct⟩ := hcok p cst hp
    obtain ⟨t, h1, rfl⟩ := (startCellE_ok_iff an cst t').1 ht'
    exact ⟨t, h1, hct⟩
  · intro p t' hp
    have hpath := (cellAt_isSome_iff _ _ p hsh).1 (by simp [hp])
    have hsome := (cellAt_isSome_iff _ _ p hs).2 hpath
    cases hc : cellAt s.bins p with
    | none => simp [hc] at hsome
    | some cst =>
      obtain ⟨t'', ht'', hct⟩ := hcok p cst hc
      obtain ⟨t, h1, rfl⟩ := (startCellE_ok_iff an cst t'').1 ht''
      rw [hp] at hct
      simp only [Option.some.injEq] at hct
      exact ⟨cst, t, rfl, h1, hct⟩

/-- **Exceptions when `compute()` is called** (an eager post-element): if some cell's `compute()` raises at the
call, `SplitIntoBins.compute()` raises that exception (wrapped as `inner`) before yielding anything; and if
every cell's `compute()` returns, all generators are created. -/
theorem computeE_start_error (an : AnalysisE σ D ρ ε) (av : ArgVar α D ε) {s : SIB α σ}
    (he : ValidEdges s.edges) (hs : NArr.HasShape (dimsOf s.edges.axes) s.bins)
    {ctx : Slots} (hctx : C14.updateContext names true s.curContext av.varCtx = .ok ctx) :
    (∀ e, mdMapE (startCellE an) (Exc.lenaTypeError : Exc ε) .unmodelled s.bins = .error e →
      SIB.computeE names an av s = ⟨[], some e⟩ ∧
      ∃ p cst e', cellAt s.bins p = some cst ∧ an.start cst = .error e' ∧ e = .inner e') ∧
    ((∀ p cst, cellAt s.bins p = some cst → ∃ t, an.start cst = .ok t) →
      ∃ traces, mdMapE (startCellE an) (Exc.lenaTypeError : Exc ε) .unmodelled s.bins = .ok traces) := by
  have hchar := mdMapE_char (startCellE an) (Exc.lenaTypeError : Exc ε) .unmodelled _ s.bins hs (dimsOf_ne_nil' he)
  refine ⟨?_, ?_⟩
  · intro e hst
    refine ⟨by simp only [SIB.computeE, hctx, hst], ?_⟩
    obtain ⟨p, cst, hp, hf⟩ := hchar.2 e hst
    obtain ⟨e', he', hee⟩ := (startCellE_error_iff an cst e).1 hf
    exact ⟨p, cst, e', hp, he', hee⟩
  · intro hall
    cases hst : mdMapE (startCellE an) (Exc.lenaTypeError : Exc ε) .unmodelled s.bins with
    | ok traces => exact ⟨traces, rfl⟩
    | error e =>
      obtain ⟨p, cst, hp, hf⟩ := hchar.2 e hst
      obtain ⟨e', he', _⟩ := (startCellE_error_iff an cst e).1 hf
      obtain ⟨t, ht⟩ := hall p cst hp
      rw [ht] at he'
      simp at he'

/-- **Sentence (3) for analyses with eager post-elements**: the `j`-th value yielded is a histogram over the
edges of the `SplitIntoBins`, of the regular shape, whose cell `p` holds the `j`-th result of the generator that
cell `p`'s `compute()` returned; its context is the updated `_cur_context`. -/
theorem result_shapeE (an : AnalysisE σ D ρ ε) (av : ArgVar α D ε) {s : SIB α σ} (he : ValidEdges s.edges)
    (hs : NArr.HasShape (dimsOf s.edges.axes) s.bins)
    {ctx : Slots} (hctx : C14.updateContext names true s.curContext av.varCtx = .ok ctx)
    (j : Nat) (h : Hist α ρ) (c : Slots) (hj : (SIB.computeE names an av s).out[j]? = some (h, c)) :
    c = ctx ∧ h.edges = s.edges ∧ NArr.HasShape (dimsOf s.edges.axes) h.bins ∧
      ∀ p cst, cellAt s.bins p = some cst →
        ∃ t r, an.start cst = .ok t ∧ t.out[j]? = some r ∧ cellAt h.bins p = some r := by
  cases hst : mdMapE (startCellE an) (Exc.lenaTypeError : Exc ε) .unmodelled s.bins with
  | error e => simp [SIB.computeE, hctx, hst] at hj
  | ok traces =>
    rw [computeE_eq names an av hctx hst] at hj
    obtain ⟨hsh, hcells, _⟩ := traces_spec an he hs hst
    obtain ⟨result, hrs, hc, hm⟩ := mdSeqMapRun_out _ _ hsh (dimsOf_ne_nil' he) j _ hj
    cases hmk : (mkHistogram s.edges result : Except (Exc ε) (Hist α ρ)) with
    | error e => simp [hmk] at hm
    | ok h' =>
      simp only [hmk, Except.ok.injEq, Prod.mk.injEq] at hm
      obtain ⟨rfl, rfl⟩ := hm
      have := mkHistogram_eq hmk
      subst this
      refine ⟨rfl, rfl, hrs, ?_⟩
      intro p cst hp
      obtain ⟨t, ht, hct⟩ := hcells p cst hp
      obtain ⟨r, hr, hcr⟩ := hc p _ hct
      exact ⟨t, r, ht, hr, hcr⟩

/-- never more histograms than any cell's generator has results -/
theorem result_count_leE (an : AnalysisE σ D ρ ε) (av : ArgVar α D ε) {s : SIB α σ} (he : ValidEdges s.edges)
    (hs : NArr.HasShape (dimsOf s.edges.axes) s.bins) (p : List Nat) (cst : σ) (hp : cellAt s.bins p = some cst)
    (t : Trace ρ ε) (ht : an.start cst = .ok t) :
    (SIB.computeE names an av s).out.length ≤ t.out.length := by
  cases hctx : C14.updateContext names true s.curContext av.varCtx with
  | error e => simp [SIB.computeE, hctx]
  | ok ctx =>
    cases hst : mdMapE (startCellE an) (Exc.lenaTypeError : Exc ε) .unmodelled s.bins with
    | error e => simp [SIB.computeE, hctx, hst]
    | ok traces =>
      rw [computeE_eq names an av hctx hst]
      obtain ⟨hsh, hcells, _⟩ := traces_spec an he hs hst
      obtain ⟨t0, ht0, hct⟩ := hcells p cst hp
      rw [ht] at ht0
      simp only [Except.ok.injEq] at ht0
      subst ht0
      exact mdSeqMapRun_length_le _ _ hsh (dimsOf_ne_nil' he) p _ hct

/-- when `compute()` ends normally: exactly as many as the cell with the fewest results (minimum over cells) -/
theorem result_count_stopE (an : AnalysisE σ D ρ ε) (av : ArgVar α D ε) {s : SIB α σ} (he : ValidEdges s.edges)
    (hs : NArr.HasShape (dimsOf s.edges.axes) s.bins)
    (hfin : (SIB.computeE names an av s).fin = none) :
    ∃ p cst t, cellAt s.bins p = some cst ∧ an.start cst = .ok t ∧
      t.out.length = (SIB.computeE names an av s).out.length ∧ t.fin = none := by
  cases hctx : C14.updateContext names true s.curContext av.varCtx with
  | error e => simp [SIB.computeE, hctx] at hfin
  | ok ctx =>
    cases hst : mdMapE (startCellE an) (Exc.lenaTypeError : Exc ε) .unmodelled s.bins with
    | error e => simp [SIB.computeE, hctx, hst] at hfin
    | ok traces =>
      rw [computeE_eq names an av hctx hst] at hfin ⊢
      obtain ⟨hsh, _, hback⟩ := traces_spec an he hs hst
      obtain ⟨p, t', ht', hlen, hf⟩ := mdSeqMapRun_stop _ _ hsh (dimsOf_ne_nil' he) hfin
      obtain ⟨cst, t, hc, hstart, rfl⟩ := hback p t' ht'
      exact ⟨p, cst, t, hc, hstart, hlen, by simpa [Trace.liftInner] using hf⟩

/-- **Where an exception of `compute()` comes from**: a cell whose `compute()` raised at the call, or a cell
with the fewest results whose generator ended with it — always wrapped as `inner`. -/
theorem compute_raiseE (an : AnalysisE σ D ρ ε) (av : ArgVar α D ε) {s : SIB α σ} (he : ValidEdges s.edges)
    (hs : NArr.HasShape (dimsOf s.edges.axes) s.bins)
    {ctx : Slots} (hctx : C14.updateContext names true s.curContext av.varCtx = .ok ctx)
    (e : Exc ε) (hfin : (SIB.computeE names an av s).fin = some e) :
    (∃ p cst e', cellAt s.bins p = some cst ∧ an.start cst = .error e' ∧ e = .inner e' ∧
      (SIB.computeE names an av s).out = []) ∨
    (∃ p cst t e', cellAt s.bins p = some cst ∧ an.start cst = .ok t ∧
      t.out.length = (SIB.computeE names an av s).out.length ∧ t.fin = some e' ∧ e = .inner e') := by
  cases hst : mdMapE (startCellE an) (Exc.lenaTypeError : Exc ε) .unmodelled s.bins with
  | error e0 =>
    obtain ⟨heq, p, cst, e', hp, hs', hee⟩ := (computeE_start_error names an av he hs hctx).1 e0 hst
    rw [heq] at hfin
    simp only [Option.some.injEq] at hfin
    subst hfin
    exact Or.inl ⟨p, cst, e', hp, hs', hee, by rw [heq]⟩
  | ok traces =>
    rw [computeE_eq names an av hctx hst] at hfin ⊢
    obtain ⟨hsh, _, hback⟩ := traces_spec an he hs hst
    have hne : ∃ p t, cellAt traces p = some t := exists_cell he hsh
    rcases mdSeqMapRun_raise _ _ hsh (dimsOf_ne_nil' he) hne e hfin with ⟨p, t', ht', hlen, hf⟩ | ⟨result, hrs, _, hm⟩
    · obtain ⟨cst, t, hc, hstart, rfl⟩ := hback p t' ht'
      simp only [Trace.liftInner, Option.map_eq_some_iff] at hf
      obtain ⟨e', he', hee⟩ := hf
      exact Or.inr ⟨p, cst, t, e', hc, hstart, hlen, he', hee.symm⟩
    · rw [mkHistogram_ok he hrs] at hm
      simp at hm

/-- **Sentence (3), the regular case, for any analysis**: if every cell's `compute()` returns a generator that
ends normally and `_update_context` succeeds, `SplitIntoBins.compute()` ends normally and yields exactly the
minimum over the cells of the number of results. -/
theorem compute_completeE (an : AnalysisE σ D ρ ε) (av : ArgVar α D ε) {s : SIB α σ} (he : ValidEdges s.edges)
    (hs : NArr.HasShape (dimsOf s.edges.axes) s.bins)
    {ctx : Slots} (hctx : C14.updateContext names true s.curContext av.varCtx = .ok ctx)
    (hall : ∀ p cst, cellAt s.bins p = some cst → ∃ t, an.start cst = .ok t ∧ t.fin = none) :
    (SIB.computeE names an av s).fin = none ∧
    (∀ p cst t, cellAt s.bins p = some cst → an.start cst = .ok t →
      (SIB.computeE names an av s).out.length ≤ t.out.length) ∧
    (∃ p cst t, cellAt s.bins p = some cst ∧ an.start cst = .ok t ∧
      t.out.length = (SIB.computeE names an av s).out.length) := by
  have hfin : (SIB.computeE names an av s).fin = none := by
    cases hf : (SIB.computeE names an av s).fin with
    | none => rfl
    | some e =>
      rcases compute_raiseE names an av he hs hctx e hf with ⟨p, cst, e', hp, hs', _⟩ | ⟨p, cst, t, e', hp, hs', _, hfe, _⟩
      · obtain ⟨t, ht, _⟩ := hall p cst hp
        rw [ht] at hs'
        simp at hs'
      · obtain ⟨t0, ht0, hf0⟩ := hall p cst hp
        rw [ht0] at hs'
        simp only [Except.ok.injEq] at hs'
        subst hs'
        rw [hf0] at hfe
        simp at hfe
  refine ⟨hfin, fun p cst t hp ht => result_count_leE names an av he hs p cst hp t ht, ?_⟩
  obtain ⟨p, cst, t, hc, hstart, hlen, _⟩ := result_count_stopE names an av he hs hfin
  exact ⟨p, cst, t, hc, hstart, hlen⟩

/-! ## `MapBins` makes progress -/

/-- `get_example_bin(new_bins)` of a regular array with a cell is its first cell -/
theorem exampleOfArray_ok (ε : Type) : ∀ (dims : List Nat) (a : NArr β), NArr.HasShape dims a → (∀ n ∈ dims, 0 < n) →
    ∃ ex, (exampleOfArray a : Except (Exc ε) β) = .ok ex
  | [], .leaf v, _, _ => ⟨v, rfl⟩
  | [], .node _, h, _ => by simp [NArr.HasShape] at h
  | _ :: _, .leaf _, h, _ => by simp [NArr.HasShape] at h
  | n :: ns, .node xs, h, hpos => by
    simp only [NArr.HasShape] at h
    cases xs with
    | nil =>
      have := hpos n (by simp)
      simp at h
      omega
    | cons x t =>
      obtain ⟨ex, hex⟩ := exampleOfArray_ok ε ns x (h.2 x (by simp))
        (fun m hm => hpos m (List.mem_cons_of_mem _ hm))
      exact ⟨ex, by simp [exampleOfArray, hex]⟩

theorem dims_pos {e : Edges α} (he : ValidEdges e) : ∀ n ∈ dimsOf e.axes, 0 < n := by
  intro n hn
  simp only [dimsOf, List.mem_map] at hn
  obtain ⟨arr, ha, rfl⟩ := hn
  have := (he.2 arr ha).1
  omega

/-- the body of MapBins' loop succeeds on a regular array of results when the histogram's context has no
`value` key (otherwise `update_nested("value", …)` may meet a non-dictionary and raise `TypeError`) -/
theorem mapBinsResult_ok (drop : Bool) {e : Edges α} (he : ValidEdges e) (context : Slots)
    (hval : getSlot context (kValue names) = none) {result : NArr (Value D)}
    (hs : NArr.HasShape (dimsOf e.axes) result) :
    ∃ fv, (mapBinsResult names drop e context result : Except (Exc ε) (FVal α D)) = .ok fv := by
  obtain ⟨ex, hex⟩ := exampleOfArray_ok ε _ result hs (dims_pos he)
  cases hd : dimsOf e.axes with
  | nil => exact absurd hd (dimsOf_ne_nil' he)
  | cons n ns =>
    have hs' := hs
    rw [hd] at hs'
    unfold mapBinsResult
    cases drop with
    | true =>
      have hshape : NArr.HasShape (dimsOf e.axes) (NArr.map (dataOnly names) result) := hasShape_map _ _ _ hs
      simp only [if_true, mdMap_ok _ ns n result hs', liftErr, mkHistogram_ok he hshape, hex, updateNested, hval]
      split <;> exact ⟨_, rfl⟩
    | false =>
      simp only [Bool.false_eq_true, if_false, mkHistogram_ok he hs, hex, updateNested, hval]
      split <;> exact ⟨_, rfl⟩

/-- **Where an exception of MapBins comes from** (selected histogram, valid edges, regular bins, a context
without `value`): a cell on which the sequence raised when it was started (then nothing was yielded), or a cell
with the fewest results whose generator ended with it. -/
theorem map_bins_raise (seqStart : Value D → Except ε (Trace (Value D) ε)) (sel : Value D → Bool) (drop : Bool)
    {h : Hist α (Value D)} (he : ValidEdges h.edges) (hs : NArr.HasShape (dimsOf h.edges.axes) h.bins)
    (ctx : Option Slots) (hval : getSlot (ctx.getD (emptyD names.length)) (kValue names) = none)
    (hsel : ∀ b00, (exampleBin h : Except (Exc ε) (Value D)) = .ok b00 → sel b00 = true)
    (e : Exc ε) (hfin : (mapBinsOne names seqStart sel drop (.hist h ctx)).fin = some e) :
    (∃ p cell e', cellAt h.bins p = some cell ∧ seqStart cell = .error e' ∧ e = .inner e' ∧
      (mapBinsOne names seqStart sel drop (.hist h ctx)).out = []) ∨
    (∃ p cell t e', cellAt h.bins p = some cell ∧ seqStart cell = .ok t ∧
      t.out.length = (mapBinsOne names seqStart sel drop (.hist h ctx)).out.length ∧
      t.fin = some e' ∧ e = .inner e') := by
  rw [mapBinsOne_selected names seqStart sel drop he hs ctx hsel] at hfin ⊢
  have hchar := mdMapE_char (startCell seqStart) (Exc.lenaTypeError : Exc ε) .unmodelled _ h.bins hs (dimsOf_ne_nil' he)
  cases hst : mdMapE (startCell seqStart) (Exc.lenaTypeError : Exc ε) .unmodelled h.bins with
  | error e0 =>
    simp only [hst, Option.some.injEq] at hfin
    subst hfin
    obtain ⟨p, cell, hp, hf⟩ := hchar.2 e0 hst
    obtain ⟨e', he', hee⟩ := (startCell_error_iff seqStart cell e0).1 hf
    exact Or.inl ⟨p, cell, e', hp, he', hee, rfl⟩
  | ok traces =>
    simp only [hst] at hfin ⊢
    obtain ⟨hsh, hcok⟩ := hchar.1 traces hst
    have hne : ∃ p t, cellAt traces p = some t := exists_cell he hsh
    rcases mdSeqMapRun_raise _ _ hsh (dimsOf_ne_nil' he) hne e hfin with ⟨p, t', ht', hlen, hf⟩ | ⟨result, hrs, _, hm⟩
    · have hpath := (cellAt_isSome_iff _ _ p hsh).1 (by simp [ht'])
      have hsome := (cellAt_isSome_iff _ _ p hs).2 hpath
      cases hc : cellAt h.bins p with
      | none => simp [hc] at hsome
      | some cell =>
        obtain ⟨t'', ht'', hct⟩ := hcok p cell hc
        obtain ⟨t, h1, rfl⟩ := (startCell_ok_iff seqStart cell t'').1 ht''
        rw [ht'] at hct
        simp only [Option.some.injEq] at hct
        subst hct
        simp only [Trace.liftInner, Option.map_eq_some_iff] at hf
        obtain ⟨e', he', hee⟩ := hf
        exact Or.inr ⟨p, cell, t, e', hc, h1, hlen, he', hee.symm⟩
    · obtain ⟨fv, hfv⟩ := mapBinsResult_ok (ε := ε) names drop he _ hval hrs
      rw [hfv] at hm
      simp at hm

/-- **Sentence (6), progress**: for a selected histogram with valid edges, regular bins and a context without
`value`, if the sequence can be started on every cell and no cell's generator raises, MapBins ends normally and
yields exactly the minimum over the cells of the number of results (each described by `map_bins_shape`). -/
theorem map_bins_complete (seqStart : Value D → Except ε (Trace (Value D) ε)) (sel : Value D → Bool) (drop : Bool)
    {h : Hist α (Value D)} (he : ValidEdges h.edges) (hs : NArr.HasShape (dimsOf h.edges.axes) h.bins)
    (ctx : Option Slots) (hval : getSlot (ctx.getD (emptyD names.length)) (kValue names) = none)
    (hsel : ∀ b00, (exampleBin h : Except (Exc ε) (Value D)) = .ok b00 → sel b00 = true)
    (hall : ∀ p cell, cellAt h.bins p = some cell → ∃ t, seqStart cell = .ok t ∧ t.fin = none) :
    (mapBinsOne names seqStart sel drop (.hist h ctx)).fin = none ∧
    (∀ p cell t, cellAt h.bins p = some cell → seqStart cell = .ok t →
      (mapBinsOne names seqStart sel drop (.hist h ctx)).out.length ≤ t.out.length) ∧
    (∃ p cell t, cellAt h.bins p = some cell ∧ seqStart cell = .ok t ∧
      t.out.length = (mapBinsOne names seqStart sel drop (.hist h ctx)).out.length) := by
  have hfin : (mapBinsOne names seqStart sel drop (.hist h ctx)).fin = none := by
    cases hf : (mapBinsOne names seqStart sel drop (.hist h ctx)).fin with
    | none => rfl
    | some e =>
      rcases map_bins_raise names seqStart sel drop he hs ctx hval hsel e hf with
        ⟨p, cell, e', hp, hs', _⟩ | ⟨p, cell, t, e', hp, hs', _, hfe, _⟩
      · obtain ⟨t, ht, _⟩ := hall p cell hp
        rw [ht] at hs'
        simp at hs'
      · obtain ⟨t0, ht0, hf0⟩ := hall p cell hp
        rw [ht0] at hs'
        simp only [Except.ok.injEq] at hs'
        subst hs'
        rw [hf0] at hfe
        simp at hfe
  refine ⟨hfin, fun p cell t hp ht => map_bins_count_le names seqStart sel drop he hs ctx hsel p cell hp t ht, ?_⟩
  rw [mapBinsOne_selected names seqStart sel drop he hs ctx hsel] at hfin ⊢
  have hchar := mdMapE_char (startCell seqStart) (Exc.lenaTypeError : Exc ε) .unmodelled _ h.bins hs (dimsOf_ne_nil' he)
  cases hst : mdMapE (startCell seqStart) (Exc.lenaTypeError : Exc ε) .unmodelled h.bins with
  | error e0 => simp [hst] at hfin
  | ok traces =>
    simp only [hst] at hfin ⊢
    obtain ⟨hsh, hcok⟩ := hchar.1 traces hst
    obtain ⟨p, t', ht', hlen, _⟩ := mdSeqMapRun_stop _ _ hsh (dimsOf_ne_nil' he) hfin
    have hpath := (cellAt_isSome_iff _ _ p hsh).1 (by simp [ht'])
    have hsome := (cellAt_isSome_iff _ _ p hs).2 hpath
    cases hc : cellAt h.bins p with
    | none => simp [hc] at hsome
    | some cell =>
      obtain ⟨t'', ht'', hct⟩ := hcok p cell hc
      obtain ⟨t, h1, rfl⟩ := (startCell_ok_iff seqStart cell t'').1 ht''
      rw [ht'] at hct
      simp only [Option.some.injEq] at hct
      subst hct
      exact ⟨p, cell, t, hc, h1, hlen⟩

/-! ## the nesting branch of `update_nested` -/

theorem nestSlots_absent (k : Nat) (x : V) : ∀ (i : Nat) (l : Slots), getSlot l i = none →
    nestSlots k x i l = .ok (setSlot l i (some x))
  | 0, [], _ => by simp [nestSlots, setSlot]
  | i + 1, [], _ => by simp [nestSlots, setSlot, nestSlots_absent k x i [] (by simp [getSlot])]
  | 0, none :: r, _ => by simp [nestSlots, setSlot]
  | 0, some w :: r, h => by simp [getSlot] at h
  | i + 1, s :: r, h => by
    have h' : getSlot r i = none := by simpa [getSlot] using h
    simp [nestSlots, setSlot, nestSlots_absent k x i r h']

/-- `update_nested(key, d, other)` when `d` has no `key`: `d[key] = other` -/
theorem updateNested_absent (k : Nat) (d other : Slots) (h : getSlot d k = none) :
    updateNested k d other = .ok (setSlot d k (some (.dict other))) := by
  simp [updateNested, h]

/-- `update_nested(key, d, other)` when `d` already has `key` (value `x`) and `other` has not: the old value is
kept *inside* the new one — `d[key] = other` with `other[key] = x`. -/
theorem updateNested_present (k : Nat) (d other : Slots) (x : V) (hx : getSlot d k = some x)
    (ho : getSlot other k = none) :
    updateNested k d other = .ok (setSlot d k (some (.dict (setSlot other k (some x))))) := by
  simp [updateNested, hx, nestInto, nestSlots_absent k x k other ho]

/-- **Sentence (5), a cell that already carries `context.bins`** (the cells of a two-level split): the context
yielded for it has `bins` = the histogram's context with the cell's previous `bins` nested inside
(`bins.bins`), and `bin` = the cell's own edges; the rest of the cell's context is kept. -/
theorem iterate_cell_context_nested (createEdgesStr : List (α × α) → Option V → Except (Exc ε) V)
    (encEdges : List (α × α) → V) (hk : kBin names ≠ kBins names) (hctx : Slots) (histc : Value D)
    (be : List (α × α)) (es : V) (x : V)
    (hes : createEdgesStr be (getSlot hctx (C14.kVariable names)) = .ok es)
    (h1 : getSlot (C14.getDataContext names histc).2 (kBins names) = some x)
    (h1' : getSlot hctx (kBins names) = none)
    (h2 : getSlot (C14.getDataContext names histc).2 (kBin names) = none) :
    binContext names createEdgesStr encEdges hctx histc be =
      .ok (.pair (C14.getDataContext names histc).1
        (setSlot (setSlot (C14.getDataContext names histc).2 (kBins names)
            (some (.dict (setSlot hctx (kBins names) (some x))))) (kBin names)
          (some (.dict (setSlot (setSlot (emptyD names.length) (kEdges names) (some (encEdges be)))
            (kEdgesStr names) (some es)))))) := by
  have h3 : getSlot (setSlot (C14.getDataContext names histc).2 (kBins names)
      (some (.dict (setSlot hctx (kBins names) (some x))))) (kBin names) = none := by
    rw [getSlot_setSlot']; simp [hk, h2]
  simp only [binContext, hes, updateNested_present _ _ _ x h1 h1', updateNested_absent _ _ _ h3]

end

/-! ## non-vacuity -/
section Examples
open Lena.C06 (exEdges exEdges_valid midGuess midGuess_ok)

-- `cell_is_halfopen_subflow`: the flow (3, 1), (3, 6) of `Props/C11.lean`; the cell (2, 1) gets (3, 1) only
example : [(Value.bare [3, 1] : Value (List Int)), .bare [3, 6]].filter
    (fun v => inCellB exEdges.axes (C14.getDataContext [] v).1 [2, 1]) = [.bare [3, 1]] := by rfl

-- an analysis with an eager post-element that refuses everything: `compute()` raises at the call
def exEager : AnalysisE (List (List Int)) (List Int) Nat Unit where
  fill := fun s v => .ok (s ++ [(C14.getDataContext [] v).1])
  start := fun s => if s.isEmpty then .error () else .ok ⟨[s.length], none⟩

example : SIB.computeE [] exEager exAv exS1 = ⟨[], some (.inner ())⟩ := by rfl
-- … and one that starts everywhere: one histogram of counts
example : (SIB.computeE [] exAn.toE exAv exS1).out.length = 1 ∧ (SIB.computeE [] exAn.toE exAv exS1).fin = none := by
  constructor <;> rfl

-- `map_bins_complete` / `map_bins_raise`: a sequence that yields the cell twice; one whose generator raises after its only result on the first cell
example : (mapBinsOne ["value"] (fun c => (.ok ⟨[c, c], none⟩ : Except Unit (Trace (Value V) Unit))) (fun _ => true) true
    (.hist exHV none)).out.length = 2 := by rfl
example : getSlot ((none : Option Slots).getD (emptyD 1)) (kValue ["value"]) = none := by rfl
example : (mapBinsOne ["value"] (fun c => (.ok ⟨[c], match c with | .bare (.int 7) => some () | _ => none⟩ :
      Except Unit (Trace (Value V) Unit))) (fun _ => true) true (.hist exHV none)).fin = some (.inner ()) := by rfl

-- `updateNested_present`, `iterate_cell_context_nested`: a cell context that already has `bins`
example : updateNested 1 [none, some (.int 7)] [some (.int 1), none] =
    .ok [none, some (.dict [some (.int 1), some (.int 7)])] :=
  updateNested_present 1 _ _ (.int 7) rfl rfl
example : kBin ["bin", "bins"] ≠ kBins ["bin", "bins"] := by decide

-- `compute_twice_untyped`: the state of `Props/C11.lean` (no `context.variable`, an untyped variable)
example : SIB.computeAgain [] exAn exAv exS1 = SIB.compute [] exAn exAv exS1 :=
  compute_twice_untyped [] exAn exAv exS1 rfl rfl rfl

-- `iterate_cell_context`: the first cell of `exH` (context without `bins`/`bin`)
example := iterate_cell_context (α := Int) (ε := Unit) (D := Int) ["bin", "bins"] (fun _ _ => .ok (.str "s"))
  (encEdges V.int) (by decide) [none, none] (.pair 7 [none, none]) [(0, 2)] (.str "s") rfl rfl rfl

-- `map_bins_count_le`: the sequence that yields a cell twice, on the cell 7 of `exHV`
example : (mapBinsOne ["value"] (fun c => (.ok ⟨[c, c], none⟩ : Except Unit (Trace (Value V) Unit))) (fun _ => true) true
    (.hist exHV none)).out.length ≤ 2 := by decide

-- `two_level_cells`: a 3 x 2 mesh of 3 x 2 meshes (the hypotheses hold; here for the empty flow)
example : ∃ (sI0 : SIB Int (List (List Int))) (sO0 : SIB Int (SIB Int (List (List Int)))),
    (SIB.new [] (some []) true exEdges : Except (Exc Unit) _) = .ok sI0 ∧
    (SIB.new [] (some sI0) true exEdges : Except (Exc (Exc Unit)) _) = .ok sO0 ∧
    SIB.fillAll [] (SIB.analysis [] exAn exAv exG (fun t => t)) ⟨fun d => .ok (.tuple d), []⟩ exG sO0 [] = .ok sO0 :=
  ⟨_, _, new_valid [] exEdges_valid [], new_valid [] exEdges_valid _, rfl⟩

end Examples

end Lena.C11
