import LenaModel.Model.C14
import LenaModel.Lemmas.C14
/-! # C14 — property theorems (variables compose like functions and keep each variable's description)

The model (`Model/C14.lean`) transcribes `lena/variables/variable.py`; `fx = true` is the tree with
`notes/C14_defect_1.patch` (commit 0eafe05 of /repo), `fx = false` the tree before it.  A dictionary is a slot
vector over the key alphabet `names`; `UP` (in `Lemmas/C14.lean`) is `_update_context` on well-formed dictionaries.

Sentence of the property → theorem (all for every chain length / nesting / input value, no bounds):

* "Compose(v1..vn) and the Sequence (v1..vn) produce the same data … and the same context"
  → **false without restriction** (`compose_eq_sequence_full`, refuted by `compose_ne_sequence_attr_clash`: an
  attribute named like an earlier type, `notes/C14_defect_3.md`); proved: `compose_eq_sequence_partial` (hypotheses
  `NamesOK`, `ChainWF` incl. "no attribute named like a type"; rests on `UP_assoc`: `_update_context` is associative);
  for the tree before the patch `compose_eq_sequence_pinned_partial` and the refutation `compose_ne_sequence_pinned`.
  `chainWFb_sound`: the Boolean check of `ChainWF` that the driver reports for every generated case is sound.
* "… the same data, vn.getter(...v1.getter(x)...)" → `seqCall_data`, `compose_getter`, `call_data`.
* "Combine produces the tuple of the getters' results" → `combine_tuple` (and `combine_context` for its context).
* "context.variable carries the name and attributes of the resulting variable" → `call_carries_attributes`
  (unconditional), `mkVariable_attributes`.
* "for variables with pairwise distinct non-empty types the attributes of every composed variable stay available
  under its type while compose lists the types in application order" → `types_persist`, `compose_order`,
  `earlier_types_persist` (hypothesis `LeavesOK`), on top of `seqCall_result` (the explicit result of a chain).
* "Applying a variable changes … [no] part of the value's context other than context.variable" → `call_frame`,
  `seqCall_frame`.  "changes neither the variable … so repeated application to equal values gives equal results":
  in the model `call` is a function of the variable and the value and returns no new variable, so this is true by
  construction; the harness checks it on the real objects (var_context snapshots, every value applied twice).
* the documented rejections of the constructors → `mkVariable_rejects`, `mkCompose_rejects`, `mkCombine_rejects`;
  an observation about the `name` keyword of `Compose` → `compose_name_keyword_ignored` (recorded judgement,
  `notes/C14_defect_2.md`; `compose_name_keyword` / `mkComposeN_no_name` for the patched constructor `mkComposeN`).
* attribute access ("all public attributes of a variable can be accessed using dot notation", `__setattr__`,
  `Combine.__getitem__`) → `getAttr_setAttr`, `getAttr_setAttr_ne`, `getAttr_private`, `getAttr_missing`,
  `getAttr_mkVariable`, `setAttr_reaches_context`, `combine_getitem`.
* **any nesting depth** ("for any variables": `Combine` inside `Compose` inside `Combine` …): the class of
  variables the chain theorems speak about is closed under the three constructors — `mkVariable_wf`,
  `mkComposeK_wf`, `mkCombine_wf` — hence, by mutual induction over expression trees, `evalExpr_wf` / `evalArgs_wf`
  (every tree that passes the syntactic check `exprOKb` constructs a variable whose getter is the reference
  semantics `exprData` and whose context is well-formed with history `exprTypes`), and
  `compose_eq_sequence_expr_partial`: Compose = Sequence for chains of such trees, from the executable check `chainOKb`
  alone.  `leavesOKb_sound`, `namesOK2b_sound`, `typesOKb_sound`, `chainWFb_sound`: the Boolean checks the driver
  reports imply the hypotheses.
* sentence 3 beyond plain leaves in a Sequence: `types_persist_compose` (for `Compose` itself), `compose_order_general`
  (any well-formed variables), `compose_order_expr` (expression trees).
* `rawValue_spec`: `lena.flow._has_context` / `get_data_context` on raw values (data that looks like a pair).
* object identities (in-place mutation) are in `Props/C14Tok.lean`.

Theorems that are true by definition of the model (`compose_getter`, `combine_tuple`, `call_data`, `seqCall_data`,
`call_frame`, `seqCall_frame`, `mkVariable_rejects`, `getAttr_*` except `getAttr_mkVariable`, `rawValue_spec`), the
soundness lemmas of the Boolean checks, and the theorems about variants that are not in /repo (`fx = false`,
`mkComposeN`) are listed as `AUX_THEOREMS` in the harness, not as obligations of the property. -/
namespace Lena.C14
open V

section
variable {names : List String} {D : Type}

/-- Hypotheses of `compose_eq_sequence_partial` on the value's `context.variable` `cv` and the variables' contexts `as`:
* a pre-existing `context.variable` that is a dictionary is well-formed (`VarWF`: over the alphabet, `compose` a
  non-empty list of strings, `type` a non-empty string); absent or non-dictionary values are unrestricted;
* every variable context is well-formed and has a `name`;
* no attribute is named like a type: a key of the pre-existing dictionary or of a variable context that is the
  name of a type of the run is one of the types that dictionary lists itself;
* no type is called `"compose"`. -/
structure ChainWF (names : List String) (cv : Option V) (as : List Slots) : Prop where
  pre : ∀ p, cv = some (.dict p) → VarWF names p ∧ NoClash names (allTypes names cv as) p
  vars : ∀ a ∈ as, VarWF names a ∧ NoClash names (allTypes names cv as) a ∧ (getSlot a (kName names)).isSome = true
  noCompose : inT names (allTypes names cv as) (kCompose names) = false

/-- Hypothesis needed only for the condition as pinned (`fx = false`): a pre-existing dictionary
`context.variable` has `type` whenever it has `compose`, and every variable but the last is typed. -/
def PinnedOK (names : List String) (fx : Bool) (cv : Option V) (as : List Slots) : Prop :=
  fx = true ∨ ((∀ p, cv = some (.dict p) → hasKey p (kCompose names) = true → hasKey p (kType names) = true) ∧
               ∀ b ∈ as.dropLast, hasKey b (kType names) = true)

/-- common proof of `compose_eq_sequence_partial` (patched condition) and `compose_eq_sequence_pinned_partial` -/
theorem compose_eq_sequence_gen (hn : NamesOK names) (fx : Bool) (vars : List (Variable D)) (hne : vars ≠ [])
    (x : Value D) (h : ChainWF names (cvarOf names x) (vars.map Variable.varCtx))
    (hfx : PinnedOK names fx (cvarOf names x) (vars.map Variable.varCtx)) :
    ∃ c, mkCompose names fx (vars.map some) (emptyD names.length) = .ok c ∧
         call names fx c x = seqCall names fx vars x := by
  cases vars with
  | nil => exact absurd rfl hne
  | cons v1 rest =>
    have hv : ∀ v ∈ v1 :: rest, VarWF names v.varCtx ∧ (getSlot v.varCtx (kName names)).isSome = true := by
      intro v hv
      have := h.vars v.varCtx (List.mem_map.2 ⟨v, hv, rfl⟩)
      exact ⟨this.1, this.2.2⟩
    have hct : ChainTyped names fx ((v1 :: rest).map Variable.varCtx) := by
      rcases hfx with h1 | h1
      · exact Or.inl h1
      · exact Or.inr h1.2
    refine ⟨_, mkCompose_ok hn v1 rest hv hct, ?_⟩
    have hA := VarWF_foldl hn (rest.map Variable.varCtx) v1.varCtx (hv v1 (by simp)).1
      (by intro b hb; obtain ⟨w, hw, rfl⟩ := List.mem_map.1 hb; exact (hv w (by simp [hw])).1)
    -- the value's data and context
    generalize hx : getDataContext names x = dc at *
    obtain ⟨d, ctx⟩ := dc
    have hcv : cvarOf names x = getSlot ctx (kVariable names) := by simp [cvarOf, hx]
    by_cases hdict : ∃ p, getSlot ctx (kVariable names) = some (.dict p)
    · -- a pre-existing dictionary: associativity of the update
      obtain ⟨p, hp⟩ := hdict
      have hpre := h.pre p (by rw [hcv, hp])
      have hsp : StepOK names fx p := by
        rcases hfx with h1 | h1
        · exact Or.inl h1
        · exact Or.inr (h1.1 p (by rw [hcv, hp]))
      have hxp : x = .pair d ctx := by
        cases x with
        | bare d0 => simp [getDataContext] at hx; rw [← hx.2] at hp; simp at hp
        | pair d0 c0 => simp [getDataContext] at hx; rw [hx.1, hx.2]
      subst hxp
      rw [seqCall_dict hn rest v1 d ctx p hp hpre.1 (hv v1 (by simp)).1 (fun w hw => (hv w (by simp [hw])).1) hsp hct]
      simp only [call, getDataContext, updateContext, hp, updateVar_eq_UP_gen hn hpre.1 hA hsp]
      have hT : allTypes names (cvarOf names (Value.pair d ctx)) (List.map Variable.varCtx (v1 :: rest)) =
          hist names p ++ hist names v1.varCtx ++ (rest.map Variable.varCtx).flatMap (hist names) := by
        simp [allTypes, hcv, hp, preHist, List.append_assoc]
      rw [fold_assoc hn hpre.1 hpre.2 h.noCompose (rest.map Variable.varCtx) v1.varCtx (hv v1 (by simp)).1
        (h.vars v1.varCtx (by simp)).2.1
        (by intro b hb; obtain ⟨w, hw, rfl⟩ := List.mem_map.1 hb
            have := h.vars w.varCtx (List.mem_map.2 ⟨w, by simp [hw], rfl⟩)
            exact ⟨this.1, this.2.1⟩)
        (by intro j hj; rw [hT]; exact hj)]
    · -- no dictionary there: the first variable either raises or starts a fresh history
      have hnd : ∀ p, getSlot ctx (kVariable names) ≠ some (.dict p) := fun p hp => hdict ⟨p, hp⟩
      have hcall : ∀ v : Variable D, call names fx v x =
          match updateVar names fx (getSlot ctx (kVariable names)) v.varCtx with
          | .ok r => .ok (v.getter d, setSlot ctx (kVariable names) (some (.dict r)))
          | .error e => .error e := by
        intro v
        simp only [call, hx, updateContext]
        cases updateVar names fx (getSlot ctx (kVariable names)) v.varCtx <;> rfl
      rcases updateVar_nondict (names := names) fx (getSlot ctx (kVariable names)) hnd with hok | ⟨e, herr⟩
      · rw [hcall, hok]
        have hs : seqCall names fx (v1 :: rest) x =
            seqCall names fx rest (.pair (v1.getter d) (setSlot ctx (kVariable names) (some (.dict v1.varCtx)))) := by
          simp only [seqCall, hcall, hok]
        rw [hs]
        cases rest with
        | nil => rfl
        | cons w r =>
          have ht' := ChainTyped.tail (by simpa using hct)
          rw [seqCall_dict hn r w _ _ v1.varCtx (by simp [getSlot_setSlot]) (hv v1 (by simp)).1 (hv w (by simp)).1
            (fun u hu => (hv u (by simp [hu])).1) (StepOK.of_typed ht'.2) (by simpa using ht'.1)]
          simp only [setSlot_setSlot, chainData, List.foldl_cons, List.map_cons]
      · rw [hcall, herr]
        simp only [seqCall, hcall, herr]

/-- **Compose(v₁,…,vₙ) and the Sequence (v₁,…,vₙ) produce the same data and the same context** (first sentence of
C14), for every chain length, every nesting (the `vᵢ` are arbitrary variables: plain, `Compose` or `Combine`, typed
or not), every input value — bare, with a context, with any pre-existing `context.variable` (a well-formed
dictionary, or anything that is not a dictionary, for which both raise the same exception or both ignore it).
`Compose(...)` is constructed without an exception and applying it equals applying the variables in order.
Holds for the tree with `notes/C14_defect_1.patch` (`fx = true`). -/
theorem compose_eq_sequence_partial (hn : NamesOK names) (vars : List (Variable D)) (hne : vars ≠ []) (x : Value D)
    (h : ChainWF names (cvarOf names x) (vars.map Variable.varCtx)) :
    ∃ c, mkCompose names true (vars.map some) (emptyD names.length) = .ok c ∧
         call names true c x = seqCall names true vars x :=
  compose_eq_sequence_gen hn true vars hne x h (Or.inl rfl)

/-- the statement of `compose_eq_sequence_partial` for the condition as pinned: false (`compose_ne_sequence_pinned`) -/
def compose_eq_sequence_pinned_full : Prop :=
  ∀ (names : List String) (D : Type), NamesOK names → ∀ (vars : List (Variable D)), vars ≠ [] → ∀ x : Value D,
    ChainWF names (cvarOf names x) (vars.map Variable.varCtx) →
    ∃ c, mkCompose names false (vars.map some) (emptyD names.length) = .ok c ∧
         call names false c x = seqCall names false vars x

/-- With the condition as pinned (`fx = false`, `/repo` before commit 0eafe05) the same holds only if every
variable but the last is typed and the pre-existing `context.variable` has a `type` whenever it has `compose`.
What is missing against the full statement: chains with an untyped non-last variable (`Combine` is untyped by
default) — for those the statement is false, see `compose_ne_sequence_pinned`. -/
theorem compose_eq_sequence_pinned_partial (hn : NamesOK names) (vars : List (Variable D)) (hne : vars ≠ [])
    (x : Value D) (h : ChainWF names (cvarOf names x) (vars.map Variable.varCtx))
    (hp : ∀ p, cvarOf names x = some (.dict p) → hasKey p (kCompose names) = true → hasKey p (kType names) = true)
    (ht : ∀ b ∈ (vars.map Variable.varCtx).dropLast, hasKey b (kType names) = true) :
    ∃ c, mkCompose names false (vars.map some) (emptyD names.length) = .ok c ∧
         call names false c x = seqCall names false vars x :=
  compose_eq_sequence_gen hn false vars hne x h (Or.inr ⟨hp, ht⟩)

/-- the executable check of the hypotheses (reported by the driver for every generated case) is sound -/
theorem chainWFb_sound {cv : Option V} {as : List Slots} (h : chainWFb names cv as = true) : ChainWF names cv as := by
  simp only [chainWFb, Bool.and_eq_true, Bool.not_eq_true', List.all_eq_true] at h
  obtain ⟨⟨hp, hv⟩, hc⟩ := h
  refine ⟨?_, ?_, hc⟩
  · intro p hcv
    subst hcv
    simp only [Bool.and_eq_true] at hp
    have hw := varWFb_sound hp.1
    exact ⟨hw, noClashB_sound hw.len hp.2⟩
  · intro a ha
    have := hv a ha
    have hw := varWFb_sound this.1.1
    exact ⟨hw, noClashB_sound hw.len this.1.2, this.2⟩

end
section
variable {names : List String} {D : Type}

/-! ### data: the getters applied in order; Combine gives the tuple of the getters' results -/

/-- applying a variable applies its getter to the data (any version of the condition, any input) -/
theorem call_data {fx : Bool} {v : Variable D} {x : Value D} {d : D} {c : Slots}
    (h : call names fx v x = .ok (d, c)) : d = v.getter (getDataContext names x).1 := by
  unfold call at h
  cases hu : updateContext names fx (getDataContext names x).2 v.varCtx with
  | error e => simp [hu] at h
  | ok c' => simp [hu] at h; exact h.1.symm

/-- **the Sequence (v₁,…,vₙ) produces the data `vₙ.getter(…v₁.getter(x)…)`** -/
theorem seqCall_data {fx : Bool} (vars : List (Variable D)) (x : Value D) {d : D} {c : Slots}
    (h : seqCall names fx vars x = .ok (d, c)) : d = chainData vars (getDataContext names x).1 := by
  induction vars generalizing x with
  | nil => simp [seqCall] at h; simp [chainData, h]
  | cons v r ih =>
    simp only [seqCall] at h
    cases hc : call names fx v x with
    | error e => simp [hc] at h
    | ok dc =>
      obtain ⟨d1, c1⟩ := dc
      simp only [hc] at h
      have := ih (.pair d1 c1) h
      rw [this, call_data hc]
      rfl

/-- **`Compose(v₁,…,vₙ)` has the getter `x ↦ vₙ.getter(…v₁.getter(x)…)`** (whenever it can be constructed) -/
theorem compose_getter {fx : Bool} {args : List (Option (Variable D))} {kw : Slots} {c : Variable D}
    (h : mkCompose names fx args kw = .ok c) : c.getter = chainData (args.filterMap id) := by
  unfold mkCompose at h
  split at h
  · cases h
  · simp only [] at h
    split at h
    · cases h
    · rename_i v1 rest hvars
      split at h
      · cases h
      · split at h
        · cases h
        · split at h
          · cases h
          · cases h; rw [hvars]; rfl

/-- **`Combine(v₁,…,vₙ)` produces the tuple of the getters' results** (whenever it can be constructed):
its getter is `x ↦ (v₁.getter(x), …, vₙ.getter(x))` -/
theorem combine_tuple (tup : List D → D) {args : List (Option (Variable D))} {kw : Slots} {c : Variable D}
    (h : mkCombine names tup args kw = .ok c) (x : D) :
    c.getter x = tup ((args.filterMap id).map (fun v => v.getter x)) := by
  unfold mkCombine at h
  split at h
  · cases h
  · split at h
    · cases h
    · simp only [] at h
      split at h
      · cases h
      · split at h
        · cases h
        · split at h
          · cases h
          · rw [mkVariable_getter h]

/-! ### frame: nothing but `context.variable` changes -/

/-- **applying a variable changes no part of the value's context other than `context.variable`** -/
theorem call_frame {fx : Bool} {v : Variable D} {x : Value D} {d : D} {c : Slots}
    (h : call names fx v x = .ok (d, c)) (k : Nat) (hk : k ≠ kVariable names) :
    getSlot c k = getSlot (getDataContext names x).2 k := by
  unfold call updateContext at h
  cases hu : updateVar names fx (getSlot (getDataContext names x).2 (kVariable names)) v.varCtx with
  | error e => simp [hu] at h
  | ok r =>
    simp [hu] at h
    rw [← h.2, getSlot_setSlot]
    simp [hk]

/-- the same for a whole chain -/
theorem seqCall_frame {fx : Bool} (vars : List (Variable D)) (x : Value D) {d : D} {c : Slots}
    (h : seqCall names fx vars x = .ok (d, c)) (k : Nat) (hk : k ≠ kVariable names) :
    getSlot c k = getSlot (getDataContext names x).2 k := by
  induction vars generalizing x with
  | nil => simp [seqCall] at h; rw [h]
  | cons v r ih =>
    simp only [seqCall] at h
    cases hc : call names fx v x with
    | error e => simp [hc] at h
    | ok dc =>
      obtain ⟨d1, c1⟩ := dc
      simp only [hc] at h
      rw [ih (.pair d1 c1) h, ← call_frame hc k hk]
      rfl

/-! ### the constructors reject what the documentation says they reject -/

/-- a getter that is a `Variable` or is not callable: `LenaTypeError` -/
theorem mkVariable_rejects (name ty : V) (kw : Slots) :
    mkVariable (D := D) names name .variable ty kw = .error .lenaTypeError ∧
    mkVariable (D := D) names name .notCallable ty kw = .error .lenaTypeError := ⟨rfl, rfl⟩

/-- `Compose()` without variables, with an argument that is not a `Variable`, or with a `getter` keyword:
`LenaTypeError` -/
theorem mkCompose_rejects (fx : Bool) (args : List (Option (Variable D))) (kw : Slots)
    (h : args = [] ∨ none ∈ args ∨ hasKey kw (kGetter names) = true) :
    mkCompose names fx args kw = .error .lenaTypeError := by
  unfold mkCompose
  by_cases hall : args.all Option.isSome = true
  · simp only [hall, Bool.not_true, Bool.false_eq_true, if_false]
    rcases h with h | h | h
    · subst h; rfl
    · have := List.all_eq_true.1 hall none h
      cases this
    · cases hv : List.filterMap id args with
      | nil => rfl
      | cons v1 rest => simp [h]
  · simp [hall]

/-- `Combine()` without variables or with an argument that is not a `Variable`: `LenaTypeError` -/
theorem mkCombine_rejects (tup : List D → D) (args : List (Option (Variable D))) (kw : Slots)
    (h : args = [] ∨ none ∈ args) :
    mkCombine names tup args kw = .error .lenaTypeError := by
  unfold mkCombine
  rcases h with h | h
  · subst h; rfl
  · by_cases he : args.isEmpty = true
    · simp [he]
    · have hall : args.all Option.isSome = false := by
        cases hx : args.all Option.isSome
        · rfl
        · have := List.all_eq_true.1 hx none h
          cases this
      simp [he, hall]

end

section
variable {names : List String} {D : Type}

/-! ### `context.variable` carries the name and the attributes of the resulting variable -/

/-- **`context.variable` carries the name and the attributes of the resulting variable**: after applying `v`
(to any value, under either version of the condition) `context.variable` is a dictionary that has every
binding of `v.var_context` — `name` included — except possibly `compose`, which is extended by the history -/
theorem call_carries_attributes {fx : Bool} {v : Variable D} {x : Value D} {d : D} {c : Slots}
    (h : call names fx v x = .ok (d, c)) :
    ∃ r, getSlot c (kVariable names) = some (.dict r) ∧
      ∀ j, j ≠ kCompose names → ∀ a, getSlot v.varCtx j = some a → getSlot r j = some a := by
  unfold call updateContext at h
  cases hu : updateVar names fx (getSlot (getDataContext names x).2 (kVariable names)) v.varCtx with
  | error e => simp [hu] at h
  | ok r =>
    simp [hu] at h
    refine ⟨r, ?_, fun j hjc a hj => updateVar_keeps hu hjc hj⟩
    rw [← h.2, getSlot_setSlot]; simp

/-- a plain `Variable(name, getter, type=ty, **kw)` carries the name and the attributes it was given:
`var_context["name"] == name` and `var_context[k] == kw[k]` (for a type that is not itself called `name`,
resp. `k`; `kw` holds neither `name` nor `type`: they are named parameters) -/
theorem mkVariable_attributes (hn : NamesOK names) {name : V} {f : D → D} {ty : String} {kw : Slots} {v : Variable D}
    (h : mkVariable names name (.fn f) (.str ty) kw = .ok v)
    (hkn : getSlot kw (kName names) = none) (hkt : getSlot kw (kType names) = none)
    (hty : key names ty ≠ kName names) :
    getSlot v.varCtx (kName names) = some name ∧
    ∀ j a, getSlot kw j = some a → j ≠ key names ty → getSlot v.varCtx j = some a := by
  unfold mkVariable at h
  simp only [] at h
  split at h
  · cases h
    refine ⟨?_, ?_⟩
    · rw [getSlot_dictUpdate, hkn, getSlot_setSlot]; simp
    · intro j a hj _
      rw [getSlot_dictUpdate, hj]
  · cases h
    refine ⟨?_, ?_⟩
    · rw [getSlot_setSlot, getSlot_setSlot, getSlot_dictUpdate, hkn, getSlot_setSlot]
      simp [hn.name_ne_type, Ne.symm hty]
    · intro j a hj hjt
      have hjty : j ≠ kType names := by intro he; rw [he, hkt] at hj; cases hj
      rw [getSlot_setSlot, getSlot_setSlot, getSlot_dictUpdate, hj]
      simp [hjty, hjt]

end

/-! ### concrete instances (non-vacuity) and the counterexample for the pinned condition

Alphabet `a, compose, name, t0, ta, tb, type, variable`; `exV0 = Variable("v0", f)` (untyped),
`exV1 = Variable("v1", g, type="ta", a=3)`, `exV2 = Variable("v2", h, type="tb")`; the value `exX` carries
`context.variable = {"name": "z", "type": "t0", "t0": {"name": "z"}}`. -/

def exNames : List String := ["a", "compose", "name", "t0", "ta", "tb", "type", "variable"]
def exVar (name : String) (f : Nat → Nat) (ty : String) (kw : Slots) : Variable Nat :=
  match mkVariable exNames (.str name) (.fn f) (.str ty) kw with
  | .ok v => v
  | .error _ => ⟨f, []⟩
def exV0 : Variable Nat := exVar "v0" (· + 1) "" (emptyD 8)
def exV1 : Variable Nat := exVar "v1" (2 * ·) "ta" [some (.int 3), none, none, none, none, none, none, none]
def exV2 : Variable Nat := exVar "v2" (· + 7) "tb" (emptyD 8)
def exPre : Slots :=
  [none, none, some (.str "z"), some (.dict (setSlot (emptyD 8) 2 (some (.str "z")))), none, none, some (.str "t0"), none]
def exX : Value Nat := .pair 5 (setSlot (emptyD 8) 7 (some (.dict exPre)))

theorem exNames_ok : NamesOK exNames := namesOKb_sound (by decide)

/-- `context.variable` of an outcome is a dictionary with a `compose` key -/
def hasComposeList (o : Option Slots) : Bool :=
  match o with
  | some c =>
    match getSlot c (kVariable exNames) with
    | some (.dict r) => hasKey r (kCompose exNames)
    | _ => false
  | none => false

/-- the hypotheses of `compose_eq_sequence_partial` hold for the chain (typed, untyped, typed) on the value `exX` … -/
example : ChainWF exNames (cvarOf exNames exX) ([exV1, exV0, exV2].map Variable.varCtx) :=
  chainWFb_sound (by decide)

/-- … and the common result lists all three types, with the sub-contexts of `t0`, `ta` and `tb` -/
example : ctxOf (seqCall exNames true [exV1, exV0, exV2] exX) =
    some (setSlot (emptyD 8) 7 (some (.dict
      [none, some (.seq false [.str "t0", .str "ta", .str "tb"]), some (.str "v2"),
       some (.dict (setSlot (emptyD 8) 2 (some (.str "z")))),
       some (.dict [some (.int 3), none, some (.str "v1"), none, none, none, none, none]),
       some (.dict (setSlot (emptyD 8) 2 (some (.str "v2")))), some (.str "tb"), none]))) := by rfl

/-- the hypotheses of `compose_eq_sequence_pinned_partial` hold for the chain (typed, typed) on `exX` -/
example : ChainWF exNames (cvarOf exNames exX) ([exV1, exV2].map Variable.varCtx) ∧
    (∀ p, cvarOf exNames exX = some (.dict p) → hasKey p (kCompose exNames) = true → hasKey p (kType exNames) = true) ∧
    (∀ b ∈ ([exV1, exV2].map Variable.varCtx).dropLast, hasKey b (kType exNames) = true) := by
  refine ⟨chainWFb_sound (by decide), ?_, ?_⟩
  · intro p hp
    have : p = exPre := by
      have h : cvarOf exNames exX = some (.dict exPre) := by rfl
      rw [h] at hp; cases hp; rfl
    subst this
    decide
  · intro b hb
    have : b = exV1.varCtx := by simpa using hb
    subst this
    decide

/-- **With the condition as pinned, `Compose(v0, v1)` and the Sequence `(v0, v1)` differ** on a value that
carries a typed `context.variable` when `v0` is untyped: the full statement is false for `fx = false`.
(`Compose` keeps the history `['t0', 'ta']`, the Sequence drops it.)  This is the defect reported in
`notes/C14_defect_1.md`, repaired by commit 0eafe05 of /repo. -/
theorem compose_ne_sequence_pinned : ¬ compose_eq_sequence_pinned_full := by
  intro h
  obtain ⟨c, hc, heq⟩ := h exNames Nat exNames_ok [exV0, exV1] (by simp) exX (chainWFb_sound (by decide))
  have hvc : c.varCtx = exV1.varCtx := by
    have h1 : (match mkCompose exNames false ([exV0, exV1].map some) (emptyD exNames.length) with
        | .ok c => some c.varCtx
        | .error _ => none) = some exV1.varCtx := by rfl
    rw [hc] at h1
    exact Option.some.inj h1
  have h2 : ctxOf (call exNames false c exX) = ctxOf (seqCall exNames false [exV0, exV1] exX) := by rw [heq]
  rw [ctxOf_call, hvc] at h2
  -- `Compose` leaves a `compose` list in `context.variable`, the Sequence does not
  have h3 := congrArg hasComposeList h2
  have hl : hasComposeList (match updateContext exNames false (getDataContext exNames exX).2 exV1.varCtx with
      | .ok c => some c
      | .error _ => none) = true := by rfl
  have hr : hasComposeList (ctxOf (seqCall exNames false [exV0, exV1] exX)) = false := by rfl
  have hcontra : true = false := hl.symm.trans (h3.trans hr)
  cases hcontra

/-! ### the unrestricted first sentence is false of the code: an attribute named like an earlier type

`ChainWF` contains `NoClash` ("no key of a variable context is named like a type of the run, except the types
that context lists itself").  The property statement has no such restriction ("arbitrary extra attributes").
Without it the statement is **false** of the code as it is (`notes/C14_defect_3.md`): -/

/-- `ChainWF` without `NoClash`: well-formed contexts with names, no type called `compose` -/
structure ChainWF0 (names : List String) (cv : Option V) (as : List Slots) : Prop where
  pre : ∀ p, cv = some (.dict p) → VarWF names p
  vars : ∀ a ∈ as, VarWF names a ∧ (getSlot a (kName names)).isSome = true
  noCompose : inT names (allTypes names cv as) (kCompose names) = false

/-- the first sentence of C14 for arbitrary attribute names (current condition, `fx = true`): **false**,
see `compose_ne_sequence_attr_clash`; the proved part is `compose_eq_sequence_partial` -/
def compose_eq_sequence_full : Prop :=
  ∀ (names : List String) (D : Type), NamesOK names → ∀ (vars : List (Variable D)), vars ≠ [] → ∀ x : Value D,
    ChainWF0 names (cvarOf names x) (vars.map Variable.varCtx) →
    ∃ c, mkCompose names true (vars.map some) (emptyD names.length) = .ok c ∧
         call names true c x = seqCall names true vars x

/-- `Variable("a", f, type="ta", t0=3)`: an attribute that is called like the type the value `exX` carries -/
def exVa : Variable Nat := exVar "a" (· + 1) "ta" [none, none, none, some (.int 3), none, none, none, none]

/-- what `context.variable` of an outcome holds under the key `t0` is a dictionary -/
def t0IsDict (o : Option Slots) : Bool :=
  match o with
  | some c =>
    match getSlot c (kVariable exNames) with
    | some (.dict r) => (match getSlot r (key exNames "t0") with | some (.dict _) => true | _ => false)
    | _ => false
  | none => false

/-- **`Compose(a, v2)` and the Sequence `(a, v2)` differ** on the value `exX` (which carries the typed
`context.variable` of `t0`) when `a` has an attribute called `t0`: after `Compose`, `context.variable["t0"]` is the
sub-context of the type `t0`; in the Sequence `a`'s attribute `3` shadows it and is then carried on as if it were
the type's sub-context.  All hypotheses of `compose_eq_sequence_partial` except `NoClash` hold.
Real code: the same (`notes/C14_defect_3.md`, with a proposed patch). -/
theorem compose_ne_sequence_attr_clash : ¬ compose_eq_sequence_full := by
  intro h
  have hwf : ChainWF0 exNames (cvarOf exNames exX) ([exVa, exV2].map Variable.varCtx) := by
    refine ⟨?_, ?_, by decide⟩
    · intro p hp
      have h0 : cvarOf exNames exX = some (.dict exPre) := by rfl
      rw [h0] at hp; cases hp
      exact varWFb_sound (by decide)
    · intro a ha
      simp only [List.map_cons, List.map_nil, List.mem_cons, List.not_mem_nil, or_false] at ha
      rcases ha with rfl | rfl
      · exact ⟨varWFb_sound (by decide), by decide⟩
      · exact ⟨varWFb_sound (by decide), by decide⟩
  obtain ⟨c, hc, heq⟩ := h exNames Nat exNames_ok [exVa, exV2] (by simp) exX hwf
  have hvc : c.varCtx =
      [none, some (.seq false [.str "ta", .str "tb"]), some (.str "v2"), none,
       some (.dict [none, none, some (.str "a"), some (.int 3), none, none, none, none]),
       some (.dict [none, none, some (.str "v2"), none, none, none, none, none]), some (.str "tb"), none] := by
    have h1 : (match mkCompose exNames true ([exVa, exV2].map some) (emptyD exNames.length) with
        | .ok c => some c.varCtx
        | .error _ => none) = some
      [none, some (.seq false [.str "ta", .str "tb"]), some (.str "v2"), none,
       some (.dict [none, none, some (.str "a"), some (.int 3), none, none, none, none]),
       some (.dict [none, none, some (.str "v2"), none, none, none, none, none]), some (.str "tb"), none] := by rfl
    rw [hc] at h1
    exact Option.some.inj h1
  have h2 : ctxOf (call exNames true c exX) = ctxOf (seqCall exNames true [exVa, exV2] exX) := by rw [heq]
  rw [ctxOf_call, hvc] at h2
  have h3 := congrArg t0IsDict h2
  have hl : t0IsDict (match updateContext exNames true (getDataContext exNames exX).2
      [none, some (.seq false [.str "ta", .str "tb"]), some (.str "v2"), none,
       some (.dict [none, none, some (.str "a"), some (.int 3), none, none, none, none]),
       some (.dict [none, none, some (.str "v2"), none, none, none, none, none]), some (.str "tb"), none] with
      | .ok c => some c
      | .error _ => none) = true := by rfl
  have hr : t0IsDict (ctxOf (seqCall exNames true [exVa, exV2] exX)) = false := by rfl
  have hcontra : true = false := hl.symm.trans (h3.trans hr)
  cases hcontra


section
variable {names : List String} {D : Type}

/-! ### pairwise distinct non-empty types: every type sub-context persists, `compose` lists the types in order -/

/-- `context.variable` after a chain of well-formed variables applied to a value (when no exception is raised:
the only possible one is the `TypeError` for a truthy `context.variable` that is not a dictionary):
the fold of `UP` over the variables' contexts, starting from the value's own `context.variable` -/
theorem seqCall_result (hn : NamesOK names) (vars : List (Variable D)) (hne : vars ≠ []) (x : Value D)
    (hpre : ∀ p, cvarOf names x = some (.dict p) → VarWF names p)
    (hv : ∀ v ∈ vars, VarWF names v.varCtx) {d : D} {c : Slots}
    (h : seqCall names true vars x = .ok (d, c)) :
    getSlot c (kVariable names) =
      some (.dict ((vars.map Variable.varCtx).foldl (UP names) (preDict names (cvarOf names x)))) := by
  cases vars with
  | nil => exact absurd rfl hne
  | cons v1 rest =>
    generalize hx : getDataContext names x = dc at *
    obtain ⟨d0, ctx⟩ := dc
    have hcv : cvarOf names x = getSlot ctx (kVariable names) := by simp [cvarOf, hx]
    by_cases hdict : ∃ p, getSlot ctx (kVariable names) = some (.dict p)
    · obtain ⟨p, hp⟩ := hdict
      have hxp : x = .pair d0 ctx := by
        cases x with
        | bare d1 => simp [getDataContext] at hx; rw [← hx.2] at hp; simp at hp
        | pair d1 c1 => simp [getDataContext] at hx; rw [hx.1, hx.2]
      subst hxp
      rw [seqCall_dict hn rest v1 d0 ctx p hp (hpre p (by rw [hcv, hp])) (hv v1 (by simp))
        (fun w hw => hv w (by simp [hw])) (Or.inl rfl) (Or.inl rfl)] at h
      cases h
      rw [getSlot_setSlot, hcv, hp]
      simp [preDict]
    · have hnd : ∀ p, getSlot ctx (kVariable names) ≠ some (.dict p) := fun p hp => hdict ⟨p, hp⟩
      have hpd : preDict names (cvarOf names x) = emptyD names.length := by
        rw [hcv]
        unfold preDict
        cases hg : getSlot ctx (kVariable names) with
        | none => rfl
        | some c0 =>
          cases c0 with
          | dict p => exact absurd hg (hnd p)
          | int i => rfl
          | str s => rfl
          | seq b l => rfl
      have hempty : ∀ a, UP names (emptyD names.length) a = a := by
        intro a
        apply UP_of_hist_nil
        simp [hist]
      have hcall : call names true v1 x =
          match updateVar names true (getSlot ctx (kVariable names)) v1.varCtx with
          | .ok r => .ok (v1.getter d0, setSlot ctx (kVariable names) (some (.dict r)))
          | .error e => .error e := by
        simp only [call, hx, updateContext]
        cases updateVar names true (getSlot ctx (kVariable names)) v1.varCtx <;> rfl
      rcases updateVar_nondict (names := names) true (getSlot ctx (kVariable names)) hnd with hok | ⟨e, herr⟩
      · have hs : seqCall names true (v1 :: rest) x =
            seqCall names true rest (.pair (v1.getter d0) (setSlot ctx (kVariable names) (some (.dict v1.varCtx)))) := by
          simp only [seqCall, hcall, hok]
        rw [hs] at h
        rw [hpd]
        simp only [List.map_cons, List.foldl_cons, hempty]
        cases rest with
        | nil =>
          simp [seqCall, getDataContext] at h
          rw [← h.2, getSlot_setSlot]; simp
        | cons w r =>
          rw [seqCall_dict hn r w _ _ v1.varCtx (by simp [getSlot_setSlot]) (hv v1 (by simp)) (hv w (by simp))
            (fun u hu => hv u (by simp [hu])) (Or.inl rfl) (Or.inl rfl)] at h
          cases h
          rw [getSlot_setSlot]
          simp
      · simp [seqCall, hcall, herr] at h

/-- Hypotheses of `types_persist` / `compose_order` on plain variables: **pairwise distinct non-empty types**
that are keys of the alphabet and not the words `name`, `type`, `compose`; keyword arguments over the
alphabet without `name`, `type` (named parameters) and `compose`; **no attribute named like a type** of the chain. -/
structure LeavesOK (names : List String) (leaves : List (Leaf D)) : Prop where
  nonempty : ∀ l ∈ leaves, l.ty ≠ ""
  inNames : ∀ l ∈ leaves, l.ty ∈ names
  reserved : ∀ l ∈ leaves, l.ty ≠ "name" ∧ l.ty ≠ "type" ∧ l.ty ≠ "compose"
  kwLen : ∀ l ∈ leaves, l.kw.length = names.length
  kwReserved : ∀ l ∈ leaves, getSlot l.kw (kName names) = none ∧ getSlot l.kw (kType names) = none ∧
    getSlot l.kw (kCompose names) = none
  distinct : (leaves.map Leaf.ty).Nodup
  noClash : ∀ l ∈ leaves, ∀ l' ∈ leaves, getSlot l.kw (key names l'.ty) = none

section leafFacts
variable (hn : NamesOK names) {leaves : List (Leaf D)} (hl : LeavesOK names leaves)
include hn hl

omit hn in
theorem Leaf.key_facts {l : Leaf D} (h : l ∈ leaves) :
    key names l.ty ≠ kName names ∧ key names l.ty ≠ kType names ∧ key names l.ty ≠ kCompose names ∧
    key names l.ty < names.length := by
  have hr := hl.reserved l h
  have hi := hl.inNames l h
  exact ⟨key_ne_of_ne hi hr.1, key_ne_of_ne hi hr.2.1, key_ne_of_ne hi hr.2.2, key_lt hi⟩

theorem Leaf.attrs_len {l : Leaf D} (h : l ∈ leaves) : (l.attrs names).length = names.length := by
  unfold Leaf.attrs
  have h1 : (setSlot (emptyD names.length) (kName names) (some l.name)).length = names.length := by
    rw [length_setSlot _ _ _ (by simpa using hn.kName_lt)]; simp
  rw [length_dictUpdate _ _ (h1.trans (hl.kwLen l h).symm), h1]

theorem Leaf.hist_ctx {l : Leaf D} (h : l ∈ leaves) : hist names (l.ctx names) = [.str l.ty] := by
  have kf := Leaf.key_facts hl h
  have hk := hl.kwReserved l h
  unfold hist
  rw [Leaf.getSlot_ctx, Leaf.getSlot_ctx]
  simp [Ne.symm hn.type_ne_compose, Ne.symm kf.2.2.1, hk.2.2, Ne.symm hn.name_ne_compose]

theorem Leaf.varWF {l : Leaf D} (h : l ∈ leaves) : VarWF names (l.ctx names) := by
  have kf := Leaf.key_facts hl h
  have hk := hl.kwReserved l h
  refine ⟨?_, ?_, ?_⟩
  · unfold Leaf.ctx
    have hal := Leaf.attrs_len hn hl h
    rw [length_setSlot, length_setSlot, hal]
    · rw [hal]; exact kf.2.2.2
    · rw [length_setSlot _ _ _ (by rw [hal]; exact kf.2.2.2), hal]; exact hn.kType_lt
  · intro v hv
    rw [Leaf.getSlot_ctx] at hv
    simp [Ne.symm hn.type_ne_compose, Ne.symm kf.2.2.1, hk.2.2, Ne.symm hn.name_ne_compose] at hv
  · intro v hv
    rw [Leaf.getSlot_ctx] at hv
    simp at hv
    exact ⟨l.ty, hv.symm, hl.nonempty l h⟩

omit hn in
/-- under its own type a leaf stores `{"name": name, **kw}`; it has no key named like another leaf's type -/
theorem Leaf.ctx_at_type {l l' : Leaf D} (h : l ∈ leaves) (h' : l' ∈ leaves) :
    getSlot (l.ctx names) (key names l'.ty) =
      if l'.ty = l.ty then some (.dict (l.attrs names)) else none := by
  have kf' := Leaf.key_facts hl h'
  rw [Leaf.getSlot_ctx]
  simp only [kf'.2.1, if_false]
  by_cases he : l'.ty = l.ty
  · simp [he]
  · have : key names l'.ty ≠ key names l.ty := key_ne_of_ne (hl.inNames l' h') he
    simp [this, he, hl.noClash l h l' h', kf'.1]

theorem flatMap_hist_leaves (sub : List (Leaf D)) (hsub : ∀ l ∈ sub, l ∈ leaves) :
    (sub.map (Leaf.ctx names)).flatMap (hist names) = sub.map (fun l => V.str l.ty) := by
  induction sub with
  | nil => rfl
  | cons l r ih =>
    simp only [List.map_cons, List.flatMap_cons, Leaf.hist_ctx hn hl (hsub l (by simp))]
    rw [ih (fun l' h' => hsub l' (by simp [h']))]
    rfl

end leafFacts

/-- **For variables with pairwise distinct non-empty types the attributes of every composed variable stay
available under its type**: after the chain `v₁,…,vₙ` of plain typed variables (no attribute named like a
type), applied to any value for which no exception is raised, `context.variable[typeᵢ] == {"name": nameᵢ, **kwᵢ}`
for every `i` — any chain length, any pre-existing `context.variable`. -/
theorem types_persist (hn : NamesOK names) (leaves : List (Leaf D)) (hne : leaves ≠ []) (hl : LeavesOK names leaves)
    (x : Value D) (hpre : ∀ p, cvarOf names x = some (.dict p) → VarWF names p) {d : D} {c : Slots}
    (h : seqCall names true (leaves.map (Leaf.var names)) x = .ok (d, c)) :
    ∃ r, getSlot c (kVariable names) = some (.dict r) ∧
      ∀ l ∈ leaves, getSlot r (key names l.ty) = some (.dict (l.attrs names)) := by
  have hres := seqCall_result hn (leaves.map (Leaf.var names)) (by simpa using hne) x hpre
    (by intro v hv; obtain ⟨l, hl', rfl⟩ := List.mem_map.1 hv; exact Leaf.varWF hn hl hl') h
  refine ⟨_, hres, ?_⟩
  intro l hmem
  obtain ⟨pre, post, hsplit⟩ := List.append_of_mem hmem
  have hctxs : (leaves.map (Leaf.var names)).map Variable.varCtx =
      pre.map (Leaf.ctx names) ++ l.ctx names :: post.map (Leaf.ctx names) := by
    rw [map_ctx_leaves, hsplit]; simp
  rw [hctxs]
  have kf := Leaf.key_facts hl hmem
  apply chain_persist hn _ _ _ _ kf.2.2.1
  · rw [Leaf.ctx_at_type hl hmem hmem]; simp
  · rw [Leaf.hist_ctx hn hl hmem]; simp [inT]
  · intro b hb
    obtain ⟨l2, hl2, rfl⟩ := List.mem_map.1 hb
    have hl2mem : l2 ∈ leaves := by rw [hsplit]; simp [hl2]
    rw [Leaf.ctx_at_type hl hl2mem hmem]
    have hnd := hl.distinct
    rw [hsplit] at hnd
    simp only [List.map_append, List.map_cons] at hnd
    have h3 := (List.nodup_append.1 hnd).2.1
    have h4 : l.ty ∉ post.map Leaf.ty := (List.nodup_cons.1 h3).1
    have : l.ty ≠ l2.ty := fun he => h4 (List.mem_map.2 ⟨l2, hl2, he.symm⟩)
    simp [this]

/-- **… while `compose` lists the types in application order**: after the same chain, if the value already
carried a composition history or the chain has at least two variables, `context.variable["compose"]` is the
pre-existing history followed by `[type₁, …, typeₙ]`. -/
theorem compose_order (hn : NamesOK names) (leaves : List (Leaf D)) (hne : leaves ≠ []) (hl : LeavesOK names leaves)
    (x : Value D) (hpre : ∀ p, cvarOf names x = some (.dict p) → VarWF names p)
    (hlen : preHist names (cvarOf names x) ≠ [] ∨ 2 ≤ leaves.length) {d : D} {c : Slots}
    (h : seqCall names true (leaves.map (Leaf.var names)) x = .ok (d, c)) :
    ∃ r, getSlot c (kVariable names) = some (.dict r) ∧
      getSlot r (kCompose names) =
        some (.seq false (preHist names (cvarOf names x) ++ leaves.map (fun l => V.str l.ty))) := by
  have hres := seqCall_result hn (leaves.map (Leaf.var names)) (by simpa using hne) x hpre
    (by intro v hv; obtain ⟨l, hl', rfl⟩ := List.mem_map.1 hv; exact Leaf.varWF hn hl hl') h
  refine ⟨_, hres, ?_⟩
  rw [map_ctx_leaves]
  rw [fold_compose hn _ _ (by simpa using hne), hist_preDict, flatMap_hist_leaves hn hl leaves (fun l h => h)]
  -- some history before the last variable
  rw [hist_preDict]
  rcases hlen with h1 | h1
  · intro he
    exact h1 (List.append_eq_nil_iff.1 he).1
  · intro he
    have h2 := (List.append_eq_nil_iff.1 he).2
    cases leaves with
    | nil => simp at h1
    | cons l1 r =>
      cases r with
      | nil => simp at h1
      | cons l2 r2 =>
        simp only [List.map_cons, List.dropLast_cons_cons, List.flatMap_cons] at h2
        rw [Leaf.hist_ctx hn hl (by simp)] at h2
        simp at h2

/-- the sub-contexts of the types the value already carried persist, too (for a type that is neither a type of
the chain nor an attribute name of one of its variables nor `name`/`type`/`compose`) -/
theorem earlier_types_persist (hn : NamesOK names) (leaves : List (Leaf D)) (hne : leaves ≠ []) (hl : LeavesOK names leaves)
    (x : Value D) (p : Slots) (hcv : cvarOf names x = some (.dict p)) (hp : VarWF names p)
    (s : String) (hs : V.str s ∈ hist names p)
    (hres : key names s ≠ kName names ∧ key names s ≠ kType names ∧ key names s ≠ kCompose names)
    (hfree : ∀ l ∈ leaves, key names s ≠ key names l.ty ∧ getSlot l.kw (key names s) = none)
    {d : D} {c : Slots} (h : seqCall names true (leaves.map (Leaf.var names)) x = .ok (d, c)) :
    ∃ r, getSlot c (kVariable names) = some (.dict r) ∧ getSlot r (key names s) = getSlot p (key names s) := by
  have hres' := seqCall_result hn (leaves.map (Leaf.var names)) (by simpa using hne) x
    (by intro q hq; rw [hcv] at hq; cases hq; exact hp)
    (by intro v hv; obtain ⟨l, hl', rfl⟩ := List.mem_map.1 hv; exact Leaf.varWF hn hl hl') h
  refine ⟨_, hres', ?_⟩
  rw [map_ctx_leaves, hcv]
  simp only [preDict]
  apply fold_persist hn _ _ hres.2.2
  · simp only [inT, List.any_eq_true]
    exact ⟨_, hs, by simp⟩
  · intro a ha
    obtain ⟨l, hl', rfl⟩ := List.mem_map.1 ha
    have hf := hfree l hl'
    rw [Leaf.getSlot_ctx]
    simp [hres.2.1, hf.1, hf.2, hres.1]

end

/-! ### a concrete instance of `LeavesOK` (non-vacuity of `types_persist`, `compose_order`, `earlier_types_persist`) -/

def exL1 : Leaf Nat := ⟨.str "v1", (2 * ·), "ta", [some (.int 3), none, none, none, none, none, none, none]⟩
def exL2 : Leaf Nat := ⟨.str "v2", (· + 7), "tb", emptyD 8⟩

example : LeavesOK exNames [exL1, exL2] := by
  refine ⟨?_, ?_, ?_, ?_, ?_, ?_, ?_⟩
  · intro l hl
    simp only [List.mem_cons, List.not_mem_nil, or_false] at hl
    rcases hl with rfl | rfl <;> decide
  · intro l hl
    simp only [List.mem_cons, List.not_mem_nil, or_false] at hl
    rcases hl with rfl | rfl <;> decide
  · intro l hl
    simp only [List.mem_cons, List.not_mem_nil, or_false] at hl
    rcases hl with rfl | rfl <;> decide
  · intro l hl
    simp only [List.mem_cons, List.not_mem_nil, or_false] at hl
    rcases hl with rfl | rfl <;> rfl
  · intro l hl
    simp only [List.mem_cons, List.not_mem_nil, or_false] at hl
    rcases hl with rfl | rfl <;> exact ⟨rfl, rfl, rfl⟩
  · decide
  · intro l hl l' hl'
    simp only [List.mem_cons, List.not_mem_nil, or_false] at hl hl'
    rcases hl with rfl | rfl <;> rcases hl' with rfl | rfl <;> rfl

/-- the two variables applied to `exX` (which carries the typed `context.variable` of `t0`): all three
sub-contexts are there and `compose == ['t0', 'ta', 'tb']` -/
example : (ctxOf (seqCall exNames true ([exL1, exL2].map (Leaf.var exNames)) exX)).bind
      (fun c => getSlot c (kVariable exNames)) =
    some (.dict
      [none, some (.seq false [.str "t0", .str "ta", .str "tb"]), some (.str "v2"),
       some (.dict (setSlot (emptyD 8) 2 (some (.str "z")))),
       some (.dict [some (.int 3), none, some (.str "v1"), none, none, none, none, none]),
       some (.dict (setSlot (emptyD 8) 2 (some (.str "v2")))), some (.str "tb"), none]) := by rfl


section
variable {names : List String} {D : Type}

/-! ### the context of a `Combine` -/

/-- **`Combine(v₁,…,vₙ, **kw)` without a `type` keyword** (whenever it can be constructed): its `var_context` has
`combine` = the tuple of the variables' contexts, `dim = n`, no `type` (a `Combine` is untyped unless a type is
given — the kind of variable that made `notes/C14_defect_1` show up), and every other keyword argument. -/
theorem combine_context (hn : NamesOK names) (hcomb : "combine" ∈ names) (hdim : "dim" ∈ names)
    (tup : List D → D) (args : List (Option (Variable D))) (kw : Slots)
    (hkt : getSlot kw (kType names) = none) {c : Variable D}
    (h : mkCombine names tup args kw = .ok c) :
    getSlot c.varCtx (kCombine names) = some (.seq true ((args.filterMap id).map (fun v => V.dict v.varCtx))) ∧
    getSlot c.varCtx (kDim names) = some (.int (args.filterMap id).length) ∧
    getSlot c.varCtx (kType names) = none ∧
    (∀ j a, getSlot kw j = some a → j ≠ kName names → j ≠ kCombine names → getSlot c.varCtx j = some a) := by
  have hct : kCombine names ≠ kType names := by
    intro he; have := key_inj hcomb he; simp at this
  have hcd : kCombine names ≠ kDim names := by
    intro he; have := key_inj hcomb he; simp at this
  have hcn : kCombine names ≠ kName names := by
    intro he; have := key_inj hcomb he; simp at this
  have hdt : kDim names ≠ kType names := by
    intro he; have := key_inj hdim he; simp at this
  have hdn : kDim names ≠ kName names := by
    intro he; have := key_inj hdim he; simp at this
  unfold mkCombine at h
  split at h
  · cases h
  · split at h
    · cases h
    · simp only [] at h
      split at h
      · cases h
      · rename_i name hname
        split at h
        · cases h
        · rename_i hnodim
          split at h
          · cases h
          · -- the `type` handed to `Variable.__init__` is absent, i.e. `""`
            have hty : getSlot (setSlot (setSlot (dictUpdate (emptyD names.length) (setSlot kw (kName names) none))
                (kDim names) (some (.int (List.filterMap id args).length))) (kCombine names)
                (some (.seq true ((List.filterMap id args).map (fun v => V.dict v.varCtx))))) (kType names) = none := by
              rw [getSlot_setSlot, getSlot_setSlot, getSlot_dictUpdate, getSlot_setSlot]
              simp [Ne.symm hct, Ne.symm hdt, hkt, Ne.symm hn.name_ne_type]
            rw [hty] at h
            simp only [Option.getD_none, mkVariable, truthy, bne_self_eq_false, Bool.not_false] at h
            simp only [if_true] at h
            cases h
            simp only []
            refine ⟨?_, ?_, ?_, ?_⟩
            · rw [getSlot_dictUpdate, getSlot_setSlot, getSlot_setSlot]
              simp [hct]
            · rw [getSlot_dictUpdate, getSlot_setSlot, getSlot_setSlot, getSlot_setSlot]
              simp [hdt, Ne.symm hcd]
            · rw [getSlot_dictUpdate, getSlot_setSlot]
              simp only [if_true]
              rw [getSlot_setSlot]
              simp [Ne.symm hn.name_ne_type]
            · intro j a hj hjn hjc
              have hjt : j ≠ kType names := by intro he; rw [he, hkt] at hj; cases hj
              have hjd : j ≠ kDim names := by
                intro he
                rw [he] at hj
                simp [hasKey, getSlot_setSlot, hdn, hj] at hnodim
              rw [getSlot_dictUpdate, getSlot_setSlot, getSlot_setSlot, getSlot_setSlot, getSlot_dictUpdate,
                getSlot_setSlot]
              simp [hjt, hjc, hjd, hjn, hj]

end

/-- a `Combine` of an untyped and a typed variable over the alphabet
`combine, compose, dim, getter, name, ta, type, variable` is constructed (the hypothesis of `combine_tuple`
and `combine_context` is satisfiable) and names itself `x_y` -/
example :
    let ns := ["combine", "compose", "dim", "getter", "name", "ta", "type", "variable"]
    let x : Variable Nat := ⟨(· + 1), setSlot (emptyD 8) 4 (some (.str "x"))⟩
    let y : Variable Nat := ⟨(2 * ·), setSlot (setSlot (emptyD 8) 4 (some (.str "y"))) 6 (some (.str "ta"))⟩
    (match mkCombine ns (fun l => l.sum) [some x, some y] (emptyD 8) with
     | .ok c => (getSlot c.varCtx (kName ns), c.getter 5)
     | .error _ => (none, 0)) = (some (.str "x_y"), 16) := by rfl


section
variable {names : List String} {D : Type}

/-! ### keyword arguments of `Compose` -/

/-- **The keyword `name` of `Compose` has no effect** (observation, see the builder's report: the docstring says
it "can set the name of the composed variable", but the name is only passed to `Variable.__init__`, whose
`var_context` is replaced in line 372): whenever `Compose(*args, **kw)` without the keyword can be constructed,
`Compose(*args, name=x, **kw)` is the same variable — its name stays the last variable's name. -/
theorem compose_name_keyword_ignored (hn : NamesOK names) (fx : Bool) (args : List (Option (Variable D)))
    (kw : Slots) (x : V) {c : Variable D}
    (h : mkCompose names fx args (setSlot kw (kName names) none) = .ok c) :
    mkCompose names fx args (setSlot kw (kName names) (some x)) = .ok c := by
  have hgn : kGetter names ≠ kName names := by
    intro he
    have := key_inj hn.hName he.symm
    simp at this
  have hg : ∀ v, hasKey (setSlot kw (kName names) v) (kGetter names) = hasKey kw (kGetter names) := by
    intro v; simp [hasKey, getSlot_setSlot, hgn]
  unfold mkCompose at h ⊢
  split at h
  · cases h
  · rename_i hall
    simp only [hall] at ⊢
    simp only [] at h ⊢
    split at h
    · cases h
    · rename_i v1 rest hvars
      rw [hvars]
      simp only [hg] at h ⊢
      split at h
      · cases h
      · rename_i hnog
        simp only [hnog]
        split at h
        · cases h
        · rename_i compose hfold
          have e1 : getSlot (setSlot kw (kName names) none) (kName names) = none := by simp [getSlot_setSlot]
          have e2 : getSlot (setSlot kw (kName names) (some x)) (kName names) = some x := by simp [getSlot_setSlot]
          rw [e1, hvars] at h
          rw [e2]
          simp only [setSlot_setSlot, Bool.false_eq_true, if_false] at h ⊢
          cases hnm : nameOf names ((v1 :: rest).getLast (by simp)) with
          | error e => rw [hnm] at h; cases h
          | ok a => rw [hnm] at h; exact h

end

section
variable {names : List String} {D : Type}

/-! ### attribute access: `__getattr__`, `__setattr__`, `Combine.__getitem__`; the `name` keyword of `Compose` -/

/-- **an attribute that was set is the attribute that is read**: after `var.a = x`, `var.a` is `x`
(for a public name; `__setattr__` stores every name in `var_context`) -/
theorem getAttr_setAttr (v : Variable D) (a : String) (x : V) (ha : a.startsWith "_" = false) :
    getAttr names (setAttr names v a x) a = .ok x := by
  simp [getAttr, setAttr, ha, getSlot_setSlot]

/-- setting one attribute does not change another one (stated on slots: for two names outside the key alphabet of a
case, which share one padded slot, it says nothing) -/
theorem getAttr_setAttr_ne (v : Variable D) (a b : String) (x : V) (hab : key names b ≠ key names a) :
    getAttr names (setAttr names v a x) b = getAttr names v b := by
  simp [getAttr, setAttr, getSlot_setSlot, hab]

/-- names that start with an underscore are never looked up in `var_context` -/
theorem getAttr_private (v : Variable D) (a : String) (ha : a.startsWith "_" = true) :
    getAttr names v a = .error .attributeError := by
  simp [getAttr, ha]

/-- a missing attribute raises `LenaAttributeError` (documented in `Variable.__init__`) -/
theorem getAttr_missing (v : Variable D) (a : String) (ha : a.startsWith "_" = false)
    (hm : getSlot v.varCtx (key names a) = none) : getAttr names v a = .error .lenaAttributeError := by
  simp [getAttr, ha, hm]

/-- **"otherwise updated attributes won't affect the context"** (comment of `__setattr__`): an attribute set on a
variable reaches `context.variable` of every value the variable is applied to afterwards (any attribute but
`compose`, which `_update_context` rewrites) -/
theorem setAttr_reaches_context {fx : Bool} (v : Variable D) (a : String) (x : V) (hac : key names a ≠ kCompose names)
    {y : Value D} {d : D} {c : Slots} (h : call names fx (setAttr names v a x) y = .ok (d, c)) :
    ∃ r, getSlot c (kVariable names) = some (.dict r) ∧ getSlot r (key names a) = some x := by
  obtain ⟨r, hr, hall⟩ := call_carries_attributes h
  exact ⟨r, hr, hall _ hac x (by simp [setAttr, getSlot_setSlot])⟩

/-- all attributes of a plain variable can be read with dot notation: `var.name` is the name and `var.k` is
`kw[k]` (hypotheses as in `mkVariable_attributes`) -/
theorem getAttr_mkVariable (hn : NamesOK names) {name : V} {f : D → D} {ty : String} {kw : Slots} {v : Variable D}
    (h : mkVariable names name (.fn f) (.str ty) kw = .ok v)
    (hkn : getSlot kw (kName names) = none) (hkt : getSlot kw (kType names) = none)
    (hty : key names ty ≠ kName names) :
    getAttr names v "name" = .ok name ∧
    ∀ (a : String) (x : V), a.startsWith "_" = false → getSlot kw (key names a) = some x →
      key names a ≠ key names ty → getAttr names v a = .ok x := by
  obtain ⟨h1, h2⟩ := mkVariable_attributes hn h hkn hkt hty
  refine ⟨?_, ?_⟩
  · have : getSlot v.varCtx (key names "name") = some name := h1
    simp [getAttr, this]
  · intro a x ha hx hne
    simp [getAttr, ha, h2 _ _ hx hne]

theorem pyIndex_nonneg (n : Nat) (i : Nat) (h : i < n) : pyIndex n (i : Int) = .ok i := by
  simp [pyIndex, h]

theorem pyIndex_neg (n : Nat) (i : Nat) (h0 : 0 < i) (h : i ≤ n) : pyIndex n (-(i : Int)) = .ok (n - i) := by
  have h1 : ¬ (0 : Int) ≤ -(i : Int) := by omega
  have h2 : (-(-(i : Int))).toNat = i := by simp
  unfold pyIndex
  rw [if_neg h1, h2, if_pos h]

theorem pyIndex_out (n : Nat) (i : Int) (h : (n : Int) ≤ i ∨ i < -(n : Int)) : pyIndex n i = .error .indexError := by
  unfold pyIndex
  by_cases h0 : 0 ≤ i
  · have : ¬ i.toNat < n := by omega
    simp [h0, this]
  · have : ¬ (-i).toNat ≤ n := by omega
    simp [h0, this]

/-- **`Combine(v₀,…)[i]` is the `i`-th combined variable** with Python's indexing: `0 ≤ i < n` gives `vᵢ`,
`-n ≤ i < 0` gives `vₙ₊ᵢ`, everything else raises `IndexError` -/
theorem combine_getitem (vars : List (Variable D)) :
    (∀ i : Nat, (h : i < vars.length) → combineGetItem vars (i : Int) = .ok vars[i]) ∧
    (∀ i : Nat, (h0 : 0 < i) → (h : i ≤ vars.length) →
        combineGetItem vars (-(i : Int)) = .ok (vars[vars.length - i]'(by omega))) ∧
    (∀ i : Int, ((vars.length : Int) ≤ i ∨ i < -(vars.length : Int)) → combineGetItem vars i = .error .indexError) := by
  refine ⟨?_, ?_, ?_⟩
  · intro i h
    simp [combineGetItem, pyIndex_nonneg _ _ h, h]
  · intro i h0 h
    have hlt : vars.length - i < vars.length := by omega
    simp [combineGetItem, pyIndex_neg _ _ h0 h, hlt]
  · intro i h
    simp [combineGetItem, pyIndex_out _ _ h]

/-- **with `notes/C14_defect_2.patch` the keyword `name` of `Compose` sets the name of the composed variable**:
whenever `Compose(*args, name=x, **kw)` can be constructed its `var_context["name"]` is `x`, and nothing else
differs from what the constructor did before the patch (`mkCompose`, where the keyword has no effect:
`compose_name_keyword_ignored`) -/
theorem compose_name_keyword (fx : Bool) (args : List (Option (Variable D)))
    (kw : Slots) (x : V) {c : Variable D}
    (h : mkComposeN names fx args (setSlot kw (kName names) (some x)) = .ok c) :
    getSlot c.varCtx (kName names) = some x ∧
    ∃ c1, mkCompose names fx args (setSlot kw (kName names) (some x)) = .ok c1 ∧
      c.getter = c1.getter ∧ c.varCtx = setSlot c1.varCtx (kName names) (some x) := by
  unfold mkComposeN at h
  cases hc : mkCompose names fx args (setSlot kw (kName names) (some x)) with
  | error e => simp [hc] at h
  | ok c1 =>
    simp only [hc, getSlot_setSlot, if_true] at h
    cases h
    exact ⟨by simp [getSlot_setSlot], c1, rfl, rfl, rfl⟩

/-- without the keyword the patched constructor is the old one -/
theorem mkComposeN_no_name (fx : Bool) (args : List (Option (Variable D))) (kw : Slots)
    (hk : getSlot kw (kName names) = none) : mkComposeN names fx args kw = mkCompose names fx args kw := by
  unfold mkComposeN
  cases mkCompose names fx args kw <;> simp [hk]

end

section
variable {names : List String} {D : Type}

/-! ### expression trees of any nesting depth -/

/-- the alphabet holds every reserved word -/
structure NamesOK2 (names : List String) : Prop where
  base : NamesOK names
  hDim : "dim" ∈ names
  hCombine : "combine" ∈ names
  hGetter : "getter" ∈ names

theorem namesOK2b_sound (h : namesOK2b names = true) : NamesOK2 names := by
  simp only [namesOK2b, Bool.and_eq_true, List.contains_iff_mem] at h
  exact ⟨namesOKb_sound h.1.1.1, h.1.1.2, h.1.2, h.2⟩

/-- no type of the run is a reserved word -/
structure TypesOK (names : List String) (T : List V) : Prop where
  name : inT names T (kName names) = false
  type : inT names T (kType names) = false
  compose : inT names T (kCompose names) = false
  dim : inT names T (kDim names) = false
  combine : inT names T (kCombine names) = false

theorem typesOKb_sound {T : List V} (h : typesOKb names T = true) : TypesOK names T := by
  simp only [typesOKb, Bool.and_eq_true, Bool.not_eq_true'] at h
  exact ⟨h.1.1.1.1, h.1.1.1.2, h.1.1.2, h.1.2, h.2⟩

/-- what the theorems need of a constructed variable's context: well-formed, no key named like a type of the
run (except the types it lists), and a string `name` -/
structure WFCtx (names : List String) (T : List V) (a : Slots) : Prop where
  wf : VarWF names a
  noClash : NoClash names T a
  name : ∃ s, getSlot a (kName names) = some (.str s)

/-- keyword arguments as `Variable.__init__` receives them: over the alphabet, without `name`, `type`,
`compose`, and no key named like a type of the run -/
structure KwOK (names : List String) (T : List V) (kw : Slots) : Prop where
  len : kw.length = names.length
  name : getSlot kw (kName names) = none
  type : getSlot kw (kType names) = none
  compose : getSlot kw (kCompose names) = none
  noClash : ∀ j, inT names T j = true → getSlot kw j = none

theorem kwOKb_sound {T : List V} {kw : Slots} (h : kwOKb names T kw = true) (hT : TypesOK names T) :
    kw.length = names.length ∧ getSlot kw (kType names) = none ∧ getSlot kw (kCompose names) = none ∧
    getSlot kw (kGetter names) = none ∧ getSlot kw (kDim names) = none ∧
    ∀ j, inT names T j = true → getSlot kw j = none := by
  simp only [kwOKb, Bool.and_eq_true, beq_iff_eq, Option.isNone_iff_eq_none, List.all_eq_true] at h
  obtain ⟨⟨⟨⟨⟨h1, h2⟩, h3⟩, h4⟩, h5⟩, h6⟩ := h
  refine ⟨h1, h2, h3, h4, h5, ?_⟩
  intro j hj
  by_cases hlt : j < names.length
  · have := h6 j (List.mem_range.2 hlt)
    simp only [hj, Bool.not_true, Bool.false_or, Bool.or_eq_true, Option.isNone_iff_eq_none, beq_iff_eq] at this
    rcases this with h | h
    · exact h
    · rw [h, hT.name] at hj; cases hj
  · exact getSlot_of_le kw j (by omega)

/-- `typeOKb` -/
theorem typeOKb_cases {ty : V} (h : typeOKb names ty = true) :
    ty = .str "" ∨ ∃ s, ty = .str s ∧ s ≠ "" ∧ s ∈ names ∧ s ≠ "name" ∧ s ≠ "type" ∧ s ≠ "compose" ∧
      s ≠ "dim" ∧ s ≠ "combine" := by
  cases ty with
  | str s =>
    by_cases hs : s = ""
    · left; rw [hs]
    · right
      simp [typeOKb, hs] at h
      exact ⟨s, rfl, hs, h.1, h.2.1, h.2.2.1, h.2.2.2.1, h.2.2.2.2.1, h.2.2.2.2.2⟩
  | int i => simp [typeOKb] at h
  | seq b l => simp [typeOKb] at h
  | dict l => simp [typeOKb] at h

/-- **a plain variable with well-formed arguments** is constructed and satisfies the hypotheses of the chain
theorems; its history is its type -/
theorem mkVariable_wf (hn : NamesOK names) {T : List V} (hT : TypesOK names T) (s0 : String) (f : D → D) (ty : V)
    (kw : Slots) (hty : typeOKb names ty = true) (hkw : KwOK names T kw)
    (hcov : ∀ j, inT names (typeOf ty) j = true → inT names T j = true) :
    ∃ v, mkVariable names (.str s0) (.fn f) ty kw = .ok v ∧ v.getter = f ∧ WFCtx names T v.varCtx ∧
      hist names v.varCtx = typeOf ty := by
  rcases typeOKb_cases hty with rfl | ⟨s, rfl, hs, hsn, hr⟩
  · -- untyped
    refine ⟨⟨f, dictUpdate (setSlot (emptyD names.length) (kName names) (some (.str s0))) kw⟩, by simp [mkVariable, truthy],
      rfl, ?_, ?_⟩
    · have hg : ∀ j, getSlot (dictUpdate (setSlot (emptyD names.length) (kName names) (some (.str s0))) kw) j =
          match getSlot kw j with
          | some x => some x
          | none => if j = kName names then some (.str s0) else none := by
        intro j
        rw [getSlot_dictUpdate, getSlot_setSlot]
        cases getSlot kw j <;> simp
      have hlen : (dictUpdate (setSlot (emptyD names.length) (kName names) (some (.str s0))) kw).length = names.length := by
        have h1 : (setSlot (emptyD names.length) (kName names) (some (V.str s0))).length = names.length := by
          rw [length_setSlot _ _ _ (by simpa using hn.kName_lt)]; simp
        rw [length_dictUpdate _ _ (h1.trans hkw.len.symm), h1]
      refine ⟨⟨hlen, ?_, ?_⟩, ?_, ⟨s0, by rw [hg, hkw.name]; simp⟩⟩
      · intro v hv
        rw [hg, hkw.compose] at hv
        simp [Ne.symm hn.name_ne_compose] at hv
      · intro v hv
        rw [hg, hkw.type] at hv
        simp [Ne.symm hn.name_ne_type] at hv
      · intro j hj hs
        rw [hg, hkw.noClash j hj] at hs
        by_cases hjn : j = kName names
        · rw [hjn, hT.name] at hj; cases hj
        · simp [hjn] at hs
    · simp only [hist, typeOf]
      rw [getSlot_dictUpdate, getSlot_dictUpdate, hkw.compose, hkw.type, getSlot_setSlot, getSlot_setSlot]
      simp [Ne.symm hn.name_ne_compose, Ne.symm hn.name_ne_type]
  · -- typed: a singleton instance of `LeavesOK`
    let l : Leaf D := ⟨.str s0, f, s, kw⟩
    have hks : getSlot kw (key names s) = none :=
      hkw.noClash _ (hcov _ (by simp [typeOf, hs, inT]))
    have hl : LeavesOK names [l] := by
      refine ⟨?_, ?_, ?_, ?_, ?_, ?_, ?_⟩
      · intro l' hl'; simp at hl'; subst hl'; exact hs
      · intro l' hl'; simp at hl'; subst hl'; exact hsn
      · intro l' hl'; simp at hl'; subst hl'; exact ⟨hr.1, hr.2.1, hr.2.2.1⟩
      · intro l' hl'; simp at hl'; subst hl'; exact hkw.len
      · intro l' hl'; simp at hl'; subst hl'; exact ⟨hkw.name, hkw.type, hkw.compose⟩
      · simp
      · intro l1 h1 l2 h2; simp at h1 h2; subst h1; subst h2; exact hks
    have hmem : l ∈ [l] := by simp
    have hvc : (l.var names).varCtx = l.ctx names := rfl
    have e1 : l.ty = s := rfl
    have e2 : l.kw = kw := rfl
    have e3 : l.name = .str s0 := rfl
    refine ⟨l.var names, mkVariable_leaf l hs, rfl, ?_, ?_⟩
    · refine ⟨Leaf.varWF hn hl hmem, ?_, ⟨s0, ?_⟩⟩
      · intro j hj hsome
        rw [hvc] at hsome ⊢
        rw [Leaf.hist_ctx hn hl hmem]
        rw [Leaf.getSlot_ctx, e1, e2, e3] at hsome
        rw [e1]
        by_cases h1 : j = kType names
        · rw [h1, hT.type] at hj; cases hj
        · by_cases h2 : j = key names s
          · simp [inT, h2]
          · simp only [h1, h2, if_false] at hsome
            rw [hkw.noClash j hj] at hsome
            by_cases h3 : j = kName names
            · rw [h3, hT.name] at hj; cases hj
            · simp [h3] at hsome
      · have kf := Leaf.key_facts hl hmem
        rw [e1] at kf
        rw [hvc, Leaf.getSlot_ctx, e1, e2, e3]
        simp only [hn.name_ne_type, if_false, Ne.symm kf.1]
        rw [hkw.name]
        simp
    · rw [hvc, Leaf.hist_ctx hn hl hmem, e1]
      simp [typeOf, hs]

end

section
variable {names : List String} {D : Type}

theorem NoClash_foldl (hn : NamesOK names) {T : List V} (hT : inT names T (kCompose names) = false)
    (rest : List Slots) (a : Slots) (ha : NoClash names T a) (hr : ∀ b ∈ rest, NoClash names T b) :
    NoClash names T (rest.foldl (UP names) a) := by
  induction rest generalizing a with
  | nil => exact ha
  | cons b r ih =>
    exact ih _ (NoClash_UP hn hT (hr b (by simp))) (fun c hc => hr c (by simp [hc]))

theorem name_foldl (hn : NamesOK names) (rest : List Slots) (a : Slots)
    (ha : ∃ s, getSlot a (kName names) = some (.str s))
    (hr : ∀ b ∈ rest, ∃ s, getSlot b (kName names) = some (.str s)) :
    ∃ s, getSlot (rest.foldl (UP names) a) (kName names) = some (.str s) := by
  induction rest generalizing a with
  | nil => exact ha
  | cons b r ih =>
    obtain ⟨s, hs⟩ := hr b (by simp)
    exact ih _ ⟨s, UP_own hn a hn.name_ne_compose hs⟩ (fun c hc => hr c (by simp [hc]))

/-- `Compose(v₁, …, vₙ, **kw)` of well-formed, named variables (patched condition): constructed without an
exception, `var_context` = the fold of `UP` updated by the keywords (without `name`) -/
theorem mkCompose_ok_kw (hn : NamesOK names) (v1 : Variable D) (rest : List (Variable D)) (kw : Slots)
    (hv : ∀ v ∈ v1 :: rest, VarWF names v.varCtx ∧ (getSlot v.varCtx (kName names)).isSome = true)
    (hg : hasKey kw (kGetter names) = false) :
    mkCompose names true ((v1 :: rest).map some) kw =
      .ok ⟨chainData (v1 :: rest),
           dictUpdate ((rest.map Variable.varCtx).foldl (UP names) v1.varCtx) (setSlot kw (kName names) none)⟩ := by
  have hall : (List.map some (v1 :: rest)).all Option.isSome = true := by simp
  have hfm : List.filterMap id (List.map some (v1 :: rest)) = v1 :: rest := by
    simp [List.filterMap_map]
  have hfold := composeFold_eq hn (fx := true) (rest.map Variable.varCtx) v1.varCtx (hv v1 (by simp)).1
    (by intro b hb; obtain ⟨w, hw, rfl⟩ := List.mem_map.1 hb; exact (hv w (by simp [hw])).1) (Or.inl rfl)
  have hlast := hv ((v1 :: rest).getLast (by simp)) (List.getLast_mem _)
  unfold mkCompose
  simp only [hall, hfm, Bool.not_true, Bool.false_eq_true, if_false, hfold, hg, nameOf]
  cases hk : getSlot kw (kName names) with
  | some x => rfl
  | none =>
    simp only []
    cases hl : getSlot ((v1 :: rest).getLast (by simp)).varCtx (kName names) with
    | none => rw [hl] at hlast; cases hlast.2
    | some nm => rfl

/-- **`Compose` of well-formed variables is well-formed** (the class of variables the chain theorems speak
about is closed under `Compose`, with keyword arguments and with the `name` keyword in either version): its
history is the concatenation of the histories of its variables -/
theorem mkComposeK_wf (hn2 : NamesOK2 names) {T : List V} (hT : TypesOK names T) (nk : Bool)
    (vs : List (Variable D)) (hne : vs ≠ []) (hv : ∀ v ∈ vs, WFCtx names T v.varCtx)
    (kw : Slots) (hkw : kwOKb names T kw = true) (hnk : nameKwOKb names kw = true) :
    ∃ c, mkComposeK names true nk (vs.map some) kw = .ok c ∧ c.getter = chainData vs ∧
      WFCtx names T c.varCtx ∧ hist names c.varCtx = (vs.map Variable.varCtx).flatMap (hist names) := by
  have hn := hn2.base
  obtain ⟨hlen, hkt, hkc, hkg, _, hkn⟩ := kwOKb_sound hkw hT
  cases vs with
  | nil => exact absurd rfl hne
  | cons v1 rest =>
    have hv' : ∀ v ∈ v1 :: rest, VarWF names v.varCtx ∧ (getSlot v.varCtx (kName names)).isSome = true := by
      intro v hvm
      obtain ⟨s, hs⟩ := (hv v hvm).name
      exact ⟨(hv v hvm).wf, by simp [hs]⟩
    have hmk := mkCompose_ok_kw hn v1 rest kw hv' (by simp [hasKey, hkg])
    -- the folded context `A` and its properties
    have hA := VarWF_foldl hn (rest.map Variable.varCtx) v1.varCtx (hv v1 (by simp)).wf
      (by intro b hb; obtain ⟨w, hw, rfl⟩ := List.mem_map.1 hb; exact (hv w (by simp [hw])).wf)
    have hAc := NoClash_foldl hn hT.compose (rest.map Variable.varCtx) v1.varCtx (hv v1 (by simp)).noClash
      (by intro b hb; obtain ⟨w, hw, rfl⟩ := List.mem_map.1 hb; exact (hv w (by simp [hw])).noClash)
    have hAn := name_foldl hn (rest.map Variable.varCtx) v1.varCtx (hv v1 (by simp)).name
      (by intro b hb; obtain ⟨w, hw, rfl⟩ := List.mem_map.1 hb; exact (hv w (by simp [hw])).name)
    have hAh := hist_foldl hn (rest.map Variable.varCtx) v1.varCtx
    generalize (rest.map Variable.varCtx).foldl (UP names) v1.varCtx = A at *
    -- the context after `var_context.update(kwargs)`
    have hkl : (setSlot kw (kName names) none).length = names.length := by
      rw [length_setSlot _ _ _ (hlen ▸ hn.kName_lt)]; exact hlen
    have hC : ∀ j, getSlot (dictUpdate A (setSlot kw (kName names) none)) j =
        if j = kName names then getSlot A j
        else match getSlot kw j with
          | some x => some x
          | none => getSlot A j := by
      intro j
      rw [getSlot_dictUpdate, getSlot_setSlot]
      by_cases hj : j = kName names
      · simp [hj]
      · simp only [hj, if_false]
        cases getSlot kw j <;> rfl
    have hClen : (dictUpdate A (setSlot kw (kName names) none)).length = names.length := by
      rw [length_dictUpdate _ _ (hA.len.trans hkl.symm)]; exact hA.len
    have hCc : getSlot (dictUpdate A (setSlot kw (kName names) none)) (kCompose names) = getSlot A (kCompose names) := by
      rw [hC, hkc]; simp [Ne.symm hn.name_ne_compose]
    have hCt : getSlot (dictUpdate A (setSlot kw (kName names) none)) (kType names) = getSlot A (kType names) := by
      rw [hC, hkt]; simp [Ne.symm hn.name_ne_type]
    have hCh : hist names (dictUpdate A (setSlot kw (kName names) none)) = hist names A := by
      unfold hist; rw [hCc, hCt]
    have hCwf : WFCtx names T (dictUpdate A (setSlot kw (kName names) none)) := by
      refine ⟨⟨hClen, ?_, ?_⟩, ?_, ?_⟩
      · intro v hvv; rw [hCc] at hvv; exact hA.compose v hvv
      · intro v hvv; rw [hCt] at hvv; exact hA.type v hvv
      · intro j hj hs
        rw [hCh]
        rw [hC] at hs
        by_cases hjn : j = kName names
        · rw [hjn, hT.name] at hj; cases hj
        · simp only [hjn, if_false, hkn j hj] at hs
          exact hAc j hj hs
      · obtain ⟨s, hs⟩ := hAn
        exact ⟨s, by rw [hC]; simp [hs]⟩
    have hflat : hist names A = ((v1 :: rest).map Variable.varCtx).flatMap (hist names) := by
      rw [hAh]; simp
    -- with or without the patched `name` keyword
    unfold mkComposeK
    by_cases hnkb : nk = true
    · simp only [hnkb, if_true, mkComposeN, hmk]
      cases hk : getSlot kw (kName names) with
      | none => exact ⟨_, rfl, rfl, hCwf, by simp only []; rw [hCh, hflat]⟩
      | some x =>
        have hx : ∃ s, x = .str s := by
          simp only [nameKwOKb, hk] at hnk
          cases x with
          | str s => exact ⟨s, rfl⟩
          | int i => cases hnk
          | seq b l => cases hnk
          | dict l => cases hnk
        obtain ⟨s, rfl⟩ := hx
        refine ⟨_, rfl, rfl, ?_, ?_⟩
        · simp only []
          have hg : ∀ j, getSlot (setSlot (dictUpdate A (setSlot kw (kName names) none)) (kName names) (some (.str s))) j =
              if j = kName names then some (.str s) else getSlot (dictUpdate A (setSlot kw (kName names) none)) j := by
            intro j; rw [getSlot_setSlot]
          have hh : hist names (setSlot (dictUpdate A (setSlot kw (kName names) none)) (kName names) (some (.str s))) =
              hist names (dictUpdate A (setSlot kw (kName names) none)) := by
            unfold hist
            rw [hg, hg]
            simp [Ne.symm hn.name_ne_compose, Ne.symm hn.name_ne_type]
          refine ⟨⟨?_, ?_, ?_⟩, ?_, ⟨s, by rw [hg]; simp⟩⟩
          · rw [length_setSlot _ _ _ (hClen ▸ hn.kName_lt)]; exact hClen
          · intro v hvv
            rw [hg] at hvv
            simp only [Ne.symm hn.name_ne_compose, if_false] at hvv
            exact hCwf.wf.compose v hvv
          · intro v hvv
            rw [hg] at hvv
            simp only [Ne.symm hn.name_ne_type, if_false] at hvv
            exact hCwf.wf.type v hvv
          · intro j hj hs
            rw [hh]
            rw [hg] at hs
            by_cases hjn : j = kName names
            · rw [hjn, hT.name] at hj; cases hj
            · simp only [hjn, if_false] at hs
              exact hCwf.noClash j hj hs
        · simp only []
          unfold hist
          rw [getSlot_setSlot, getSlot_setSlot]
          simp only [Ne.symm hn.name_ne_compose, Ne.symm hn.name_ne_type, if_false]
          have := hCh
          unfold hist at this
          rw [this]
          have := hflat
          unfold hist at this
          exact this
    · have hnkf : nk = false := by
        cases nk
        · rfl
        · exact absurd rfl hnkb
      simp only [hnkf, Bool.false_eq_true, if_false, hmk]
      exact ⟨_, rfl, rfl, hCwf, by simp only []; rw [hCh, hflat]⟩

end

section
variable {names : List String} {D : Type}

theorem joinedName_ok (vs : List (Variable D)) (hv : ∀ v ∈ vs, ∃ s, getSlot v.varCtx (kName names) = some (.str s)) :
    ∃ s, joinedName names vs = .ok (.str s) := by
  have h1 : ∃ ss : List String, joinedName.namesOf names vs = .ok (ss.map V.str) := by
    induction vs with
    | nil => exact ⟨[], rfl⟩
    | cons v r ih =>
      obtain ⟨s, hs⟩ := hv v (by simp)
      obtain ⟨ss, hss⟩ := ih (fun w hw => hv w (by simp [hw]))
      exact ⟨s :: ss, by simp [joinedName.namesOf, nameOf, hs, hss]⟩
  have h2 : ∀ ss : List String, joinedName.strs (ss.map V.str) = some ss := by
    intro ss
    induction ss with
    | nil => rfl
    | cons s r ih => simp [joinedName.strs, ih]
  obtain ⟨ss, hss⟩ := h1
  exact ⟨joinUnderscore ss, by simp [joinedName, hss, h2]⟩

/-- **`Combine` of named variables is well-formed** (closure of the class of variables the chain theorems speak
about under `Combine`, with keyword arguments, a `name` and a `type` keyword): its history is its own type -/
theorem mkCombine_wf (hn2 : NamesOK2 names) {T : List V} (hT : TypesOK names T) (tup : List D → D)
    (vs : List (Variable D)) (hne : vs ≠ [])
    (hv : ∀ v ∈ vs, ∃ s, getSlot v.varCtx (kName names) = some (.str s))
    (kw : Slots) (hlen : kw.length = names.length)
    (hkw : kwOKb names T (setSlot kw (kType names) none) = true) (hnk : nameKwOKb names kw = true)
    (hty : typeOKb names ((getSlot kw (kType names)).getD (.str "")) = true)
    (hcov : ∀ j, inT names (typeOf ((getSlot kw (kType names)).getD (.str ""))) j = true → inT names T j = true) :
    ∃ c, mkCombine names tup (vs.map some) kw = .ok c ∧ (∀ x, c.getter x = tup (vs.map (fun v => v.getter x))) ∧
      WFCtx names T c.varCtx ∧ hist names c.varCtx = typeOf ((getSlot kw (kType names)).getD (.str "")) := by
  have hn := hn2.base
  have hdt : kDim names ≠ kType names := by
    intro he; have := key_inj hn2.hDim he; simp at this
  have hdn : kDim names ≠ kName names := by
    intro he; have := key_inj hn2.hDim he; simp at this
  have hdc : kDim names ≠ kCompose names := by
    intro he; have := key_inj hn2.hDim he; simp at this
  have hct : kCombine names ≠ kType names := by
    intro he; have := key_inj hn2.hCombine he; simp at this
  have hcn : kCombine names ≠ kName names := by
    intro he; have := key_inj hn2.hCombine he; simp at this
  have hcc : kCombine names ≠ kCompose names := by
    intro he; have := key_inj hn2.hCombine he; simp at this
  have hcd : kCombine names ≠ kDim names := by
    intro he; have := key_inj hn2.hCombine he; simp at this
  have hgt : kGetter names ≠ kType names := by
    intro he; have := key_inj hn2.hGetter he; simp at this
  have hgn : kGetter names ≠ kName names := by
    intro he; have := key_inj hn2.hGetter he; simp at this
  have hgd : kGetter names ≠ kDim names := by
    intro he; have := key_inj hn2.hGetter he; simp at this
  have hgc : kGetter names ≠ kCombine names := by
    intro he; have := key_inj hn2.hGetter he; simp at this
  obtain ⟨_, _, hkc0, hkg0, hkd0, hkn0⟩ := kwOKb_sound hkw hT
  -- facts about `kw` itself (the check was made on `kw` without `type`)
  have hk : ∀ j, j ≠ kType names → getSlot (setSlot kw (kType names) none) j = getSlot kw j := by
    intro j hj; rw [getSlot_setSlot]; simp [hj]
  have hkc : getSlot kw (kCompose names) = none := by rw [← hk _ (Ne.symm hn.type_ne_compose)]; exact hkc0
  have hkg : getSlot kw (kGetter names) = none := by rw [← hk _ hgt]; exact hkg0
  have hkd : getSlot kw (kDim names) = none := by rw [← hk _ hdt]; exact hkd0
  have hkn : ∀ j, inT names T j = true → getSlot kw j = none := by
    intro j hj
    have hjt : j ≠ kType names := by intro he; rw [he, hT.type] at hj; cases hj
    rw [← hk j hjt]; exact hkn0 j hj
  cases vs with
  | nil => exact absurd rfl hne
  | cons v1 rest =>
    -- the name
    have hname : ∃ s0, getSlot kw (kName names) = some (V.str s0) ∨
        (getSlot kw (kName names) = none ∧ joinedName names (v1 :: rest) = Except.ok (V.str s0)) := by
      cases hkname : getSlot kw (kName names) with
      | none =>
        obtain ⟨s, hs⟩ := joinedName_ok (names := names) (v1 :: rest) hv
        exact ⟨s, Or.inr ⟨rfl, hs⟩⟩
      | some x =>
        simp only [nameKwOKb, hkname] at hnk
        cases x with
        | str s => exact ⟨s, Or.inl rfl⟩
        | int i => cases hnk
        | seq b l => cases hnk
        | dict l => cases hnk
    obtain ⟨s0, hs0⟩ := hname
    -- the keyword dictionary handed to `Variable.__init__`
    let vc : Slots := setSlot (setSlot (dictUpdate (emptyD names.length) (setSlot kw (kName names) none))
        (kDim names) (some (.int ((v1 :: rest).length : Nat)))) (kCombine names)
        (some (.seq true ((v1 :: rest).map (fun v => V.dict v.varCtx))))
    have hvc : ∀ j, getSlot vc j =
        if j = kCombine names then some (.seq true ((v1 :: rest).map (fun v => V.dict v.varCtx)))
        else if j = kDim names then some (.int ((v1 :: rest).length : Nat))
        else if j = kName names then none else getSlot kw j := by
      intro j
      simp only [vc]
      rw [getSlot_setSlot, getSlot_setSlot, getSlot_dictUpdate, getSlot_setSlot]
      by_cases h1 : j = kCombine names
      · simp [h1]
      · by_cases h2 : j = kDim names
        · simp [h2]
        · by_cases h3 : j = kName names
          · simp [h3]
          · simp only [h1, h2, h3, if_false]
            cases getSlot kw j <;> simp
    have hkl : (setSlot kw (kName names) none).length = names.length := by
      rw [length_setSlot _ _ _ (hlen ▸ hn.kName_lt)]; exact hlen
    have hvclen : vc.length = names.length := by
      simp only [vc]
      have h0 : (dictUpdate (emptyD names.length) (setSlot kw (kName names) none)).length = names.length := by
        rw [length_dictUpdate _ _ (by simp [hkl])]; simp
      rw [length_setSlot, length_setSlot, h0]
      · rw [h0]; exact key_lt hn2.hDim
      · rw [length_setSlot _ _ _ (by rw [h0]; exact key_lt hn2.hDim), h0]; exact key_lt hn2.hCombine
    have hvct : getSlot vc (kType names) = getSlot kw (kType names) := by
      rw [hvc]; simp [Ne.symm hct, Ne.symm hdt, Ne.symm hn.name_ne_type]
    have hkwC : KwOK names T (setSlot vc (kType names) none) := by
      refine ⟨?_, ?_, ?_, ?_, ?_⟩
      · rw [length_setSlot _ _ _ (hvclen ▸ hn.kType_lt)]; exact hvclen
      · rw [getSlot_setSlot, hvc]; simp [hn.name_ne_type, Ne.symm hcn, Ne.symm hdn]
      · rw [getSlot_setSlot]; simp
      · rw [getSlot_setSlot, hvc]; simp [Ne.symm hn.type_ne_compose, Ne.symm hcc, Ne.symm hdc, Ne.symm hn.name_ne_compose, hkc]
      · intro j hj
        have h1 : j ≠ kCombine names := by intro he; rw [he, hT.combine] at hj; cases hj
        have h2 : j ≠ kDim names := by intro he; rw [he, hT.dim] at hj; cases hj
        rw [getSlot_setSlot, hvc]
        by_cases h3 : j = kType names
        · simp [h3]
        · by_cases h4 : j = kName names
          · simp [h4, Ne.symm hcn, Ne.symm hdn, hn.name_ne_type]
          · simp [h1, h2, h3, h4, hkn j hj]
    obtain ⟨v, hmk, hget, hwf, hh⟩ := mkVariable_wf hn hT s0
      (fun x => tup ((v1 :: rest).map (fun v => v.getter x)))
      ((getSlot kw (kType names)).getD (.str "")) (setSlot vc (kType names) none) hty hkwC hcov
    refine ⟨v, ?_, fun x => by rw [hget], hwf, hh⟩
    unfold mkCombine
    have hall : (List.map some (v1 :: rest)).all Option.isSome = true := by simp
    have hfm : List.filterMap id (List.map some (v1 :: rest)) = v1 :: rest := by simp [List.filterMap_map]
    have hdim : hasKey (setSlot kw (kName names) none) (kDim names) = false := by
      simp [hasKey, getSlot_setSlot, hdn, hkd]
    have hgetter : hasKey vc (kGetter names) = false := by
      simp [hasKey, hvc, hgc, hgd, hgn, hkg]
    simp only [List.isEmpty_cons, List.map_cons, Bool.false_eq_true, if_false]
    have hall' : (some v1 :: List.map some rest).all Option.isSome = true := by simp
    have hfm' : List.filterMap id (some v1 :: List.map some rest) = v1 :: rest := by simp
    simp only [hall', Bool.not_true, Bool.false_eq_true, if_false, hfm']
    have hfin : (if hasKey (setSlot kw (kName names) none) (kDim names) = true then Except.error Err.assertionError
        else if hasKey vc (kGetter names) = true then Except.error Err.typeError
        else mkVariable names (V.str s0) (GetterArg.fn fun x => tup (List.map (fun v => v.getter x) (v1 :: rest)))
          ((getSlot vc (kType names)).getD (V.str "")) (setSlot vc (kType names) none)) = Except.ok v := by
      simp only [hdim, hgetter, Bool.false_eq_true, if_false]
      rw [hvct]
      exact hmk
    rcases hs0 with h | ⟨h, hj⟩
    · simp only [h]
      exact hfin
    · simp only [h, hj]
      exact hfin

end

section
variable {names : List String} {D : Type}

/-- what the evaluation of a list of well-formed expressions yields -/
structure ArgsRes (names : List String) (T : List V) (tup : List D → D) (es : List (Expr D))
    (vs : List (Variable D)) : Prop where
  len : vs.length = es.length
  wf : ∀ v ∈ vs, WFCtx names T v.varCtx
  data : ∀ x, chainData vs x = composeData tup es x
  tuple : ∀ x, vs.map (fun v => v.getter x) = combineData tup es x
  types : (vs.map Variable.varCtx).flatMap (hist names) = argsTypes names es
  histEach : vs.map (fun v => hist names v.varCtx) = es.map (exprTypes names)

theorem kwOKb_KwOK {T : List V} {kw : Slots} (hT : TypesOK names T) (h : kwOKb names T kw = true)
    (hname : getSlot kw (kName names) = none) : KwOK names T kw := by
  obtain ⟨h1, h2, h3, _, _, h6⟩ := kwOKb_sound h hT
  exact ⟨h1, hname, h2, h3, h6⟩

mutual
/-- the types an expression contributes to `compose` are among all its types -/
theorem exprTypes_sub (j : Nat) : ∀ (e : Expr D), inT names (exprTypes names e) j = true →
    inT names (exprAllTypes names e) j = true
  | .other, h => by simpa [exprTypes, exprAllTypes] using h
  | .var _ _ _ _, h => by simpa [exprTypes, exprAllTypes] using h
  | .compose args _, h => by
    simp only [exprTypes, exprAllTypes] at h ⊢
    exact argsTypes_sub j args h
  | .combine args kw, h => by
    simp only [exprTypes, exprAllTypes, inT_append] at h ⊢
    simp [h]
theorem argsTypes_sub (j : Nat) : ∀ (es : List (Expr D)), inT names (argsTypes names es) j = true →
    inT names (argsAllTypes names es) j = true
  | [], h => by simpa [argsTypes, argsAllTypes] using h
  | e :: r, h => by
    simp only [argsTypes, argsAllTypes, inT_append, Bool.or_eq_true] at h ⊢
    rcases h with h | h
    · exact Or.inl (exprTypes_sub j e h)
    · exact Or.inr (argsTypes_sub j r h)
end

mutual
/-- **every well-formed expression tree — any nesting depth of `Compose` and `Combine` — constructs a variable**
(no exception) **whose getter is the reference semantics `exprData`** (`vₙ.getter(…v₁.getter(x)…)` for a
`Compose`, the tuple of the getters' results for a `Combine`) and whose context satisfies the hypotheses of the
chain theorems, with the history `exprTypes` -/
theorem evalExpr_wf (hn2 : NamesOK2 names) {T : List V} (hT : TypesOK names T) (nk : Bool) (tup : List D → D) :
    ∀ (e : Expr D), exprOKb names T e = true →
      (∀ j, inT names (exprAllTypes names e) j = true → inT names T j = true) →
      ∃ v, evalExpr names true nk tup e = .ok (some v) ∧ (∀ x, v.getter x = exprData tup e x) ∧
        WFCtx names T v.varCtx ∧ hist names v.varCtx = exprTypes names e
  | .other, h, _ => by simp [exprOKb] at h
  | .var name g ty kw, h, hcov => by
    simp only [exprOKb, Bool.and_eq_true, Option.isNone_iff_eq_none] at h
    obtain ⟨⟨⟨⟨hg, hname⟩, hty⟩, hkw⟩, hkn⟩ := h
    match g, hg with
    | .fn f, _ =>
      match name, hname with
      | .str s0, _ =>
        obtain ⟨v, hv, hget, hwf, hh⟩ := mkVariable_wf hn2.base hT s0 f ty kw hty (kwOKb_KwOK hT hkw hkn)
          (by simpa [exprAllTypes] using hcov)
        exact ⟨v, by simp [evalExpr, hv], fun x => by rw [hget]; simp [exprData], hwf, by simpa [exprTypes] using hh⟩
  | .compose args kw, h, hcov => by
    simp only [exprOKb, Bool.and_eq_true, Bool.not_eq_true', List.isEmpty_eq_false_iff] at h
    obtain ⟨⟨⟨hne, hargs⟩, hkw⟩, hnk⟩ := h
    obtain ⟨vs, hev, hres⟩ := evalArgs_wf hn2 hT nk tup args hargs (by simpa [exprAllTypes] using hcov)
    have hvne : vs ≠ [] := by
      intro he; rw [he] at hres; have := hres.len; simp at this; exact hne (List.length_eq_zero_iff.1 this.symm)
    obtain ⟨c, hc, hget, hwf, hh⟩ := mkComposeK_wf hn2 hT nk vs hvne hres.wf kw hkw hnk
    refine ⟨c, by simp [evalExpr, hev, hc], ?_, hwf, ?_⟩
    · intro x; rw [hget, hres.data]; simp [exprData]
    · rw [hh, hres.types]; simp [exprTypes]
  | .combine args kw, h, hcov => by
    simp only [exprOKb, Bool.and_eq_true, Bool.not_eq_true', List.isEmpty_eq_false_iff, beq_iff_eq] at h
    obtain ⟨⟨⟨⟨⟨hne, hargs⟩, hlen⟩, hkw⟩, hnk⟩, hty⟩ := h
    have hcov1 : ∀ j, inT names (argsAllTypes names args) j = true → inT names T j = true := by
      intro j hj; apply hcov; simp [exprAllTypes, inT_append, hj]
    have hcov2 : ∀ j, inT names (typeOf ((getSlot kw (kType names)).getD (.str ""))) j = true → inT names T j = true := by
      intro j hj; apply hcov; simp [exprAllTypes, inT_append, hj]
    obtain ⟨vs, hev, hres⟩ := evalArgs_wf hn2 hT nk tup args hargs hcov1
    have hvne : vs ≠ [] := by
      intro he; rw [he] at hres; have := hres.len; simp at this; exact hne (List.length_eq_zero_iff.1 this.symm)
    obtain ⟨c, hc, hget, hwf, hh⟩ := mkCombine_wf hn2 hT tup vs hvne (fun v hv => (hres.wf v hv).name) kw hlen hkw hnk hty hcov2
    refine ⟨c, by simp [evalExpr, hev, hc], ?_, hwf, ?_⟩
    · intro x; rw [hget, hres.tuple]; simp [exprData]
    · rw [hh]; simp [exprTypes]
theorem evalArgs_wf (hn2 : NamesOK2 names) {T : List V} (hT : TypesOK names T) (nk : Bool) (tup : List D → D) :
    ∀ (es : List (Expr D)), argsOKb names T es = true →
      (∀ j, inT names (argsAllTypes names es) j = true → inT names T j = true) →
      ∃ vs, evalArgs names true nk tup es = .ok (vs.map some) ∧ ArgsRes names T tup es vs
  | [], _, _ => ⟨[], by simp [evalArgs], ⟨rfl, by simp, by simp [chainData, composeData], by simp [combineData], by simp [argsTypes], by simp⟩⟩
  | e :: r, h, hcov => by
    simp only [argsOKb, Bool.and_eq_true] at h
    obtain ⟨v, hv, hget, hwf, hh⟩ := evalExpr_wf hn2 hT nk tup e h.1 (by
      intro j hj; apply hcov; simp [argsAllTypes, inT_append, hj])
    obtain ⟨vs, hvs, hres⟩ := evalArgs_wf hn2 hT nk tup r h.2 (by
      intro j hj; apply hcov; simp [argsAllTypes, inT_append, hj])
    refine ⟨v :: vs, by simp [evalArgs, hv, hvs], ⟨by simp [hres.len], ?_, ?_, ?_, ?_, by simp [hh, hres.histEach]⟩⟩
    · intro w hw
      simp only [List.mem_cons] at hw
      rcases hw with rfl | hw
      · exact hwf
      · exact hres.wf w hw
    · intro x
      have := hres.data (v.getter x)
      simp only [chainData, List.foldl_cons, composeData] at this ⊢
      rw [this, hget]
    · intro x
      simp only [List.map_cons, combineData, hget, hres.tuple]
    · simp only [List.map_cons, List.flatMap_cons, hh, hres.types, argsTypes]
end

end

section
variable {names : List String} {D : Type}

theorem NoClash.mono {T T' : List V} {x : Slots} (h : NoClash names T x)
    (hsub : ∀ j, inT names T' j = true → inT names T j = true) : NoClash names T' x :=
  fun j hj hs => h j (hsub j hj) hs

/-- **Compose(e₁,…,eₙ) and the Sequence (e₁,…,eₙ) produce the same data and the same context, for expression
trees of any nesting depth** (`Combine` inside `Compose` inside `Combine` …): if the chain passes the syntactic
check `chainOKb` (reported by the driver for every generated case), all expressions construct variables `vars`,
`Compose(*vars)` constructs `c`, applying `c` to the value equals applying the variables in order, and the data
are the reference semantics `composeData` (getters in application order, tuples for `Combine`) -/
theorem compose_eq_sequence_expr_partial (nk : Bool) (tup : List D → D) (es : List (Expr D)) (x : Value D)
    (h : chainOKb names (cvarOf names x) es = true) :
    ∃ vars c, evalArgs names true nk tup es = .ok (vars.map some) ∧
      mkCompose names true (vars.map some) (emptyD names.length) = .ok c ∧
      call names true c x = seqCall names true vars x ∧
      (∀ d, c.getter d = composeData tup es d) ∧
      (vars.map Variable.varCtx).flatMap (hist names) = argsTypes names es := by
  simp only [chainOKb, Bool.and_eq_true, Bool.not_eq_true', List.isEmpty_eq_false_iff] at h
  obtain ⟨⟨⟨⟨hnames, hne⟩, hargs⟩, htypes⟩, hpre⟩ := h
  have hn2 := namesOK2b_sound hnames
  have hT := typesOKb_sound htypes
  obtain ⟨vs, hev, hres⟩ := evalArgs_wf hn2 hT nk tup es hargs (by
    intro j hj; simp [inT_append, hj])
  have hvne : vs ≠ [] := by
    intro he; rw [he] at hres; have := hres.len; simp at this
    exact hne (List.length_eq_zero_iff.1 this.symm)
  -- the types that really occur are among those the check was made with
  have hsub : ∀ j, inT names (allTypes names (cvarOf names x) (vs.map Variable.varCtx)) j = true →
      inT names (preHist names (cvarOf names x) ++ argsAllTypes names es) j = true := by
    intro j hj
    simp only [allTypes, hres.types, inT_append, Bool.or_eq_true] at hj ⊢
    rcases hj with hj | hj
    · exact Or.inl hj
    · exact Or.inr (argsTypes_sub j es hj)
  have hchain : ChainWF names (cvarOf names x) (vs.map Variable.varCtx) := by
    refine ⟨?_, ?_, ?_⟩
    · intro p hp
      rw [hp] at hpre
      simp only [Bool.and_eq_true] at hpre
      have hw := varWFb_sound hpre.1
      have hc := noClashB_sound hw.len hpre.2
      rw [← hp] at hc
      exact ⟨hw, hc.mono hsub⟩
    · intro a ha
      obtain ⟨v, hv, rfl⟩ := List.mem_map.1 ha
      have hw := hres.wf v hv
      obtain ⟨s, hs⟩ := hw.name
      exact ⟨hw.wf, hw.noClash.mono hsub, by simp [hs]⟩
    · cases hc : inT names (allTypes names (cvarOf names x) (vs.map Variable.varCtx)) (kCompose names)
      · rfl
      · have := hsub _ hc
        rw [hT.compose] at this
        cases this
  obtain ⟨c, hc, heq⟩ := compose_eq_sequence_partial hn2.base vs hvne x hchain
  refine ⟨vs, c, hev, hc, heq, ?_, hres.types⟩
  intro d
  have hg := compose_getter hc
  rw [hg]
  have : List.filterMap id (List.map some vs) = vs := by simp [List.filterMap_map]
  rw [this, hres.data]

end

/-! ### a chain of nesting depth 3 that passes `chainOKb` (non-vacuity of `compose_eq_sequence_expr_partial`) -/

def exNames2 : List String :=
  ["a", "combine", "compose", "dim", "getter", "name", "t0", "ta", "tb", "type", "variable"]
def exLeaf (name ty : String) (f : Nat → Nat) : Expr Nat := .var (.str name) (.fn f) (.str ty) (emptyD 11)
/-- `Combine(Compose(v_ta, Combine(v, v_tb)), w)`: a `Combine` inside a `Compose` inside a `Combine` -/
def exDeep : Expr Nat :=
  .combine [.compose [exLeaf "p" "ta" (· + 1), .combine [exLeaf "q" "" (2 * ·), exLeaf "r" "tb" (· + 3)] (emptyD 11)]
              (emptyD 11), exLeaf "w" "" (· + 5)] (emptyD 11)
def exX2 : Value Nat :=
  .pair 5 (setSlot (emptyD 11) 10 (some (.dict
    (setSlot (setSlot (setSlot (emptyD 11) 5 (some (.str "z"))) 9 (some (.str "t0"))) 6
      (some (.dict (setSlot (emptyD 11) 5 (some (.str "z")))))))))

example : chainOKb exNames2 (cvarOf exNames2 exX2) [exLeaf "u" "tb" (· + 2), exDeep, exLeaf "s" "ta" (3 * ·)] = true := by
  decide

/-- the data of that chain on `5` with `tup = List.sum`: `((5+2+1)·2 + (5+2+1)+3 + (5+2)+5) · 3` -/
example : composeData List.sum [exLeaf "u" "tb" (· + 2), exDeep, exLeaf "s" "ta" (3 * ·)] 5 = 117 := by rfl


section
variable {names : List String} {D : Type}

/-- the executable check of `LeavesOK` (reported by the driver for every chain of plain typed variables) is sound -/
theorem leavesOKb_sound {leaves : List (Leaf D)} (h : leavesOKb names leaves = true) : LeavesOK names leaves := by
  simp only [leavesOKb, Bool.and_eq_true, List.all_eq_true, decide_eq_true_eq, bne_iff_ne, ne_eq,
    List.contains_iff_mem, beq_iff_eq, Option.isNone_iff_eq_none] at h
  obtain ⟨hall, hnd⟩ := h
  refine ⟨?_, ?_, ?_, ?_, ?_, hnd, ?_⟩
  · intro l hl; exact (hall l hl).1.1.1.1.1.1.1.1.1
  · intro l hl; exact (hall l hl).1.1.1.1.1.1.1.1.2
  · intro l hl
    have := hall l hl
    exact ⟨this.1.1.1.1.1.1.1.2, this.1.1.1.1.1.1.2, this.1.1.1.1.1.2⟩
  · intro l hl; exact (hall l hl).1.1.1.1.2
  · intro l hl
    have := hall l hl
    exact ⟨this.1.1.1.2, this.1.1.2, this.1.2⟩
  · intro l hl l' hl'
    exact (hall l hl).2 l' hl'

end

section
variable {names : List String} {D : Type}

/-! ### sentence 3 for `Compose` and for arbitrary well-formed variables (not only the Sequence of plain leaves) -/

/-- **`compose` lists the types in application order, for any well-formed variables** (plain, `Compose`,
`Combine`, typed or not): after the chain, if the value or a variable before the last one carries some history,
`context.variable["compose"]` is the value's history followed by the histories of the variables -/
theorem compose_order_general (hn : NamesOK names) (vars : List (Variable D)) (hne : vars ≠ []) (x : Value D)
    (hpre : ∀ p, cvarOf names x = some (.dict p) → VarWF names p)
    (hv : ∀ v ∈ vars, VarWF names v.varCtx)
    (hh : preHist names (cvarOf names x) ++ (vars.map Variable.varCtx).dropLast.flatMap (hist names) ≠ [])
    {d : D} {c : Slots} (h : seqCall names true vars x = .ok (d, c)) :
    ∃ r, getSlot c (kVariable names) = some (.dict r) ∧
      getSlot r (kCompose names) = some (.seq false (allTypes names (cvarOf names x) (vars.map Variable.varCtx))) := by
  have hres := seqCall_result hn vars hne x hpre hv h
  refine ⟨_, hres, ?_⟩
  rw [fold_compose hn _ _ (by simpa using hne) (by rw [hist_preDict]; exact hh), hist_preDict]
  rfl

theorem argsTypes_eq_flatten (es : List (Expr D)) : argsTypes names es = (es.map (exprTypes names)).flatten := by
  induction es with
  | nil => rfl
  | cons e r ih => simp [argsTypes, ih]

/-- **… and for expression trees of any depth**: for a chain that passes `chainOKb`, after the Sequence of the
constructed variables `compose` is the value's history followed by `argsTypes` (the types the expressions
contribute, in application order) — whenever the value or an expression before the last one carries a type -/
theorem compose_order_expr (nk : Bool) (tup : List D → D) (es : List (Expr D)) (x : Value D)
    (h : chainOKb names (cvarOf names x) es = true)
    (hh : preHist names (cvarOf names x) ++ argsTypes names es.dropLast ≠ []) :
    ∃ vars, evalArgs names true nk tup es = .ok (vars.map some) ∧
      ∀ d c, seqCall names true vars x = .ok (d, c) →
        ∃ r, getSlot c (kVariable names) = some (.dict r) ∧
          getSlot r (kCompose names) = some (.seq false (preHist names (cvarOf names x) ++ argsTypes names es)) := by
  have h0 := h
  simp only [chainOKb, Bool.and_eq_true, Bool.not_eq_true', List.isEmpty_eq_false_iff] at h
  obtain ⟨⟨⟨⟨hnames, hne⟩, hargs⟩, htypes⟩, hpre⟩ := h
  have hn2 := namesOK2b_sound hnames
  have hT := typesOKb_sound htypes
  obtain ⟨vs, hev, hres⟩ := evalArgs_wf hn2 hT nk tup es hargs (by
    intro j hj; simp [inT_append, hj])
  have hvne : vs ≠ [] := by
    intro he; rw [he] at hres; have := hres.len; simp at this
    exact hne (List.length_eq_zero_iff.1 this.symm)
  refine ⟨vs, hev, fun d c hs => ?_⟩
  have hdrop : (vs.map Variable.varCtx).dropLast.flatMap (hist names) = argsTypes names es.dropLast := by
    have he : vs.dropLast.map (fun v => hist names v.varCtx) = es.dropLast.map (exprTypes names) := by
      rw [List.map_dropLast, List.map_dropLast, hres.histEach]
    rw [argsTypes_eq_flatten, ← he, ← List.map_dropLast, List.flatMap_def, List.map_map]
    rfl
  obtain ⟨r, hr1, hr2⟩ := compose_order_general hn2.base vs hvne x
    (by
      intro p hp
      rw [hp] at hpre
      simp only [Bool.and_eq_true] at hpre
      exact varWFb_sound hpre.1)
    (fun v hv => (hres.wf v hv).wf) (by rw [hdrop]; exact hh) hs
  refine ⟨r, hr1, ?_⟩
  rw [hr2]
  simp only [allTypes, hres.types]

/-- **sentence 3 for `Compose` itself**: for plain variables with pairwise distinct non-empty types (`LeavesOK`)
inside the hypotheses of `compose_eq_sequence_partial`, `Compose(v₁,…,vₙ)` is constructed, and after applying it
`context.variable[typeᵢ] == {"name": nameᵢ, **kwᵢ}` for every `i`, and `compose` is the value's history followed by
`[type₁, …, typeₙ]` (if the value carried a history or `n ≥ 2`) -/
theorem types_persist_compose (hn : NamesOK names) (leaves : List (Leaf D)) (hne : leaves ≠ [])
    (hl : LeavesOK names leaves) (x : Value D)
    (hc : ChainWF names (cvarOf names x) ((leaves.map (Leaf.var names)).map Variable.varCtx)) :
    ∃ c, mkCompose names true ((leaves.map (Leaf.var names)).map some) (emptyD names.length) = .ok c ∧
      ∀ d ctx, call names true c x = .ok (d, ctx) →
        ∃ r, getSlot ctx (kVariable names) = some (.dict r) ∧
          (∀ l ∈ leaves, getSlot r (key names l.ty) = some (.dict (l.attrs names))) ∧
          ((preHist names (cvarOf names x) ≠ [] ∨ 2 ≤ leaves.length) →
            getSlot r (kCompose names) =
              some (.seq false (preHist names (cvarOf names x) ++ leaves.map (fun l => V.str l.ty)))) := by
  obtain ⟨c, hmk, heq⟩ := compose_eq_sequence_partial hn (leaves.map (Leaf.var names)) (by simpa using hne) x hc
  refine ⟨c, hmk, fun d ctx hcall => ?_⟩
  rw [heq] at hcall
  have hpre : ∀ p, cvarOf names x = some (.dict p) → VarWF names p := fun p hp => (hc.pre p hp).1
  obtain ⟨r, hr, hall⟩ := types_persist hn leaves hne hl x hpre hcall
  refine ⟨r, hr, hall, fun hlen => ?_⟩
  obtain ⟨r2, hr2, hco⟩ := compose_order hn leaves hne hl x hpre hlen hcall
  rw [hr] at hr2
  cases hr2
  exact hco

end

/-- the hypotheses of `types_persist_compose` hold for the two plain variables `exL1`, `exL2` on `exX` -/
example : ChainWF exNames (cvarOf exNames exX) (([exL1, exL2].map (Leaf.var exNames)).map Variable.varCtx) :=
  chainWFb_sound (by decide)

/-- the hypotheses of `compose_order_expr` hold for the depth-3 chain of `compose_eq_sequence_expr_partial`'s example -/
example : preHist exNames2 (cvarOf exNames2 exX2) ++
    argsTypes exNames2 [exLeaf "u" "tb" (· + 2), exDeep, exLeaf "s" "ta" (3 * ·)].dropLast ≠ [] := by decide


section
variable {names : List String}

/-- `rawValue` is `get_data_context` with `_has_context` as its test: a raw value is read as a `(data, context)`
pair exactly when it is a tuple of length 2 whose second element is a dictionary -/
theorem rawValue_spec (r : Raw) :
    (hasContext r = true → ∃ d c, r = .tuple [d, .dict c] ∧ rawValue r = .pair d c) ∧
    (hasContext r = false → rawValue r = .bare r) := by
  constructor
  · intro h
    unfold hasContext at h
    split at h
    · rename_i d c; exact ⟨d, c, rfl, rfl⟩
    · cases h
  · intro h
    unfold rawValue
    split
    · simp [hasContext] at h
    · rfl

end

end Lena.C14
