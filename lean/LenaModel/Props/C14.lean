import LenaModel.Lemmas.C14
