import LenaModel.Model.C16
import LenaModel.Model.C16X
import LenaModel.Lemmas.C16
import LenaModel.Lemmas.C16X
import LenaModel.Props.C16
/-! # C16 — theorems about the extended model: `LenaStopFill`, generator objects, `FillRequest.reset()` -/

namespace Lena.C16

variable {σ α β : Type}

/-! ### the extended model is the model of `Model/C16.lean` where that one applies -/

/-- **Conservative extension** (restated from `Lemmas/C16X.lean`): for a wrapped element that never raises,
with the adapter of /repo (generators iterated where they are created) and a history without `reset()`, every
call of the extended model shows what `traceOps` shows, no call raises, and the requests together yield
what `runOps` collects — so every theorem of `Props/C16.lean` holds for the extended model there. -/
theorem x_conservative (e : El σ α β) (N : Nat) (rst bi yor : Bool) (ops : List (Op α)) (el : σ) :
    (traceOpsX (ElX.ofEl e) .atCall N rst bi yor (ops.map Op.toX) (StX.init el)).1.map
        (fun c => (c.out, c.nCount, c.lenIn, c.lenOut)) = traceOps e N rst bi yor ops (St.init el) ∧
    (∀ c ∈ (traceOpsX (ElX.ofEl e) .atCall N rst bi yor (ops.map Op.toX) (StX.init el)).1, c.raised = false) ∧
    outsX (traceOpsX (ElX.ofEl e) .atCall N rst bi yor (ops.map Op.toX) (StX.init el)).1 =
      (runOps e N rst bi yor ops (St.init el)).1.flatten := by
  obtain ⟨h1, h2, _, h4⟩ := traceOpsX_ofEl e N rst bi yor ops (StX.init el) rfl
  exact ⟨h1, h2, h4⟩

/-! ### a wrapped element that stops accepting values -/

/-- `LenaStopFill` leaves `request()` only from the loop over `_buffer_in`: with `buffer_output`, or with
nothing buffered, `request()` never raises — whatever the element does -/
theorem request_raises_only_buffered (e : ElX σ α β) (N : Nat) (rst bi yor : Bool) (s : StX σ α β)
    (h : (requestX e N rst bi yor s).2.2 = true) : bi = true ∧ s.bufIn ≠ [] := by
  rw [requestX_steps] at h
  cases bi with
  | false => simp [xStep3] at h
  | true =>
    refine ⟨rfl, ?_⟩
    intro hb
    have h1 : (xStep1 e true s).2 = s := rfl
    have h2 : (xStep2 e N rst (xStep1 e true s).2).2.bufIn = [] := by
      rw [h1]
      unfold xStep2
      by_cases hn : s.nCount = N
      · rw [if_pos hn]; exact hb
      · rw [if_neg hn]; exact hb
    simp [xStep3, h2, drainX] at h

/-- … hence with `buffer_output` `LenaStopFill` never leaves `Split.run`: Split sees it where it expects it,
around `fill` -/
theorem split_bo_never_raises (e : ElX σ α β) (ev : Eval) (N : Nat) (rst yor : Bool) (m : Option Nat) (el : σ)
    (xs : List α) : (splitX e ev N rst false yor m el xs).2 = false := by
  have hreq : ∀ s, (requestX e N rst false yor s).2.2 = false := by
    intro s
    cases h : (requestX e N rst false yor s).2.2 with
    | false => rfl
    | true => exact absurd (request_raises_only_buffered e N rst false yor s h).1 (by decide)
  have hblocks : ∀ (bs : List (List α)) (s : StX σ α β), (splitBlocksX e ev N rst false yor bs s).2.2 = false := by
    intro bs
    induction bs with
    | nil => intro s; rfl
    | cons b r ih =>
      intro s
      simp only [splitBlocksX, hreq, Bool.false_eq_true, if_false]
      split
      · rfl
      · exact ih _
  unfold splitX
  split
  · exact hreq (StX.init el)
  · exact hblocks _ _

/-- **With `buffer_input` it does**: block size 3, an element that refuses the values `≥ 4`, Split block size 5
— the refused value waits in `_buffer_in`, is offered to the element inside `request()`, and `LenaStopFill`
leaves `Split.run` (after the results of the complete block).  The same flow with `buffer_output` ends normally. -/
theorem stopfill_escapes_buffer_input :
    splitX (ElX.stopOn (lstEl : El (List Nat) Nat (List Nat)) (fun x => decide (4 ≤ x)) false) .atCall 3 true true false
      (some 5) [] [0, 1, 2, 3, 4, 5, 6, 7] = ([[0, 1, 2]], true) ∧
    splitX (ElX.stopOn (lstEl : El (List Nat) Nat (List Nat)) (fun x => decide (4 ≤ x)) false) .atCall 3 true false false
      (some 5) [] [0, 1, 2, 3, 4, 5, 6, 7] = ([[0, 1, 2]], false) := by
  constructor <;> decide +kernel

/-! ### the values accepted before the element stops are processed in consecutive blocks -/

section
variable (e : El σ α β) (p : α → Bool) (N : Nat) (rst : Bool)

/-- an accepted value: as for the never-raising element -/
theorem fillX_stopOn_accept (stores bi : Bool) (ev : Eval) (s : StX σ α β) (x : α) (hp : p x = false) :
    fillX (ElX.stopOn e p stores) ev N rst bi s x = fillX (ElX.ofEl e) ev N rst bi s x := by
  simp [fillX, ElX.stopOn, ElX.ofEl, hp]

/-- with `buffer_output`, `request()` never calls `fill`: as for the never-raising element -/
theorem requestX_stopOn_bo (stores yor : Bool) (s : StX σ α β) :
    requestX (ElX.stopOn e p stores) N rst false yor s = requestX (ElX.ofEl e) N rst false yor s := by
  have hflush : ∀ (l : List (Pend β)) (el : σ), flushX (ElX.stopOn e p stores) l el = flushX (ElX.ofEl e) l el := by
    intro l
    induction l with
    | nil => intro el; rfl
    | cons q r ih =>
      intro el
      cases q with
      | done c => simp only [flushX, ih]
      | gen => simp only [flushX, ih]; rfl
  simp only [requestX, Bool.false_eq_true, if_false, hflush]
  rfl

/-- a refused value (not stored), `buffer_output`: `LenaStopFill`, and the `request()` that Split then makes
yields what `request()` would have yielded without that `fill` -/
theorem refused_fill_then_request (hN : 0 < N) (s : StX σ α β) (x : α) (hp : p x = true)
    (hd : allDone s.bufOut = true) :
    (fillX (ElX.stopOn e p false) .atCall N rst false s x).2 = true ∧
    allDone (fillX (ElX.stopOn e p false) .atCall N rst false s x).1.bufOut = true ∧
    requestR e N rst false false (fillX (ElX.stopOn e p false) .atCall N rst false s x).1.erase =
      requestR e N rst false false s.erase := by
  unfold fillX
  by_cases hn : s.nCount = N
  · have h0 : ¬ (0 : Nat) = N := by omega
    have hcnt : s.erase.nCount = N := hn
    simp only [hn, if_true, Bool.false_eq_true, if_false, ElX.stopOn, hp]
    refine ⟨trivial, by simp [allDone_append, hd, allDone], ?_⟩
    simp [requestR, StX.erase, hn, h0, emit, List.flatMap_append]
  · simp only [hn, if_false, ElX.stopOn, hp, if_true, Bool.false_eq_true]
    exact ⟨trivial, hd, trivial⟩

/-- the loop over one Split block, then `request()`: as if only the accepted values of the block had been filled;
the branch is stopped iff the block holds a refused value -/
theorem fillBlock_then_request (hN : 0 < N) : ∀ (b : List α) (s : StX σ α β), allDone s.bufOut = true →
    let f := fillBlockX (ElX.stopOn e p false) .atCall N rst false b s
    let a := b.takeWhile (fun x => !p x)
    (requestX (ElX.stopOn e p false) N rst false false f.1).1 =
        (requestR e N rst false false (a.foldl (fillR e N rst false) s.erase)).1 ∧
    (requestX (ElX.stopOn e p false) N rst false false f.1).2.1.erase =
        (requestR e N rst false false (a.foldl (fillR e N rst false) s.erase)).2 ∧
    allDone (requestX (ElX.stopOn e p false) N rst false false f.1).2.1.bufOut = true ∧
    (requestX (ElX.stopOn e p false) N rst false false f.1).2.2 = false ∧
    f.2 = !(b.all (fun x => !p x))
  | [], s, hd => by
    obtain ⟨q1, q2, q3, q4⟩ := requestX_ofEl e N rst false false s hd
    simp only [fillBlockX, List.takeWhile_nil, List.foldl_nil, List.all_nil, Bool.not_true, requestX_stopOn_bo]
    exact ⟨q1, q2, q4, q3, trivial⟩
  | x :: r, s, hd => by
    by_cases hp : p x = true
    · obtain ⟨r1, r2, r3⟩ := refused_fill_then_request e p N rst hN s x hp hd
      obtain ⟨q1, q2, q3, q4⟩ := requestX_ofEl e N rst false false
        (fillX (ElX.stopOn e p false) .atCall N rst false s x).1 r2
      simp only [fillBlockX, r1, if_true, List.takeWhile_cons, hp, Bool.not_true, Bool.false_eq_true, if_false,
        List.foldl_nil, List.all_cons, Bool.false_and, Bool.not_false, requestX_stopOn_bo]
      rw [r3] at q1 q2
      exact ⟨q1, q2, q4, q3, trivial⟩
    · have hp' : p x = false := by simpa using hp
      have hacc := fillX_stopOn_accept e p N rst false false .atCall s x hp'
      obtain ⟨f1, f2, f3⟩ := fillX_ofEl e N rst false s x
      have ih := fillBlock_then_request hN r (fillX (ElX.ofEl e) .atCall N rst false s x).1 (f3 hd)
      simp only [fillBlockX, hacc, f1, Bool.false_eq_true, if_false, List.takeWhile_cons, hp', Bool.not_false,
        if_true, List.foldl_cons, List.all_cons, Bool.true_and]
      rw [f2] at ih
      exact ih

/-- the calls of `Model/C16.lean` that correspond to what Split does until the element stops: the accepted values of
each block, a `request()` after each block, nothing after the block with the first refused value -/
def acceptedOps (p : α → Bool) : List (List α) → List (Op α)
  | [] => []
  | b :: bs =>
    if b.all (fun x => !p x) then b.map Op.fill ++ [Op.request] ++ acceptedOps p bs
    else (b.takeWhile (fun x => !p x)).map Op.fill ++ [Op.request]

theorem runOps_fill_block (bi yor : Bool) (a : List α) (s : St σ α β) :
    runOps e N rst bi yor (a.map Op.fill ++ [Op.request]) s =
      ([(requestR e N rst bi yor (a.foldl (fillR e N rst bi) s)).1], (requestR e N rst bi yor (a.foldl (fillR e N rst bi) s)).2) := by
  induction a generalizing s with
  | nil => simp [runOps]
  | cons x r ih => simp [runOps, ih]

theorem takeWhile_append_all (q : α → Bool) (a b : List α) (h : a.all q = true) :
    (a ++ b).takeWhile q = a ++ b.takeWhile q := by
  induction a with
  | nil => rfl
  | cons x r ih =>
    simp only [List.all_cons, Bool.and_eq_true] at h
    simp [h.1, ih h.2]

theorem takeWhile_append_not_all (q : α → Bool) (a b : List α) (h : a.all q = false) :
    (a ++ b).takeWhile q = a.takeWhile q := by
  induction a with
  | nil => simp at h
  | cons x r ih =>
    by_cases hx : q x = true
    · have : r.all q = false := by simpa [List.all_cons, hx] using h
      simp [hx, ih this]
    · simp [hx]

theorem splitBlocksX_accepted (hN : 0 < N) : ∀ (bs : List (List α)) (s : StX σ α β), allDone s.bufOut = true →
    (splitBlocksX (ElX.stopOn e p false) .atCall N rst false false bs s).1 =
      (runOps e N rst false false (acceptedOps p bs) s.erase).1.flatten
  | [], s, _ => rfl
  | b :: bs, s, hd => by
    obtain ⟨h1, h2, h3, h4, h5⟩ := fillBlock_then_request e p N rst hN b s hd
    simp only [splitBlocksX, h4, Bool.false_eq_true, if_false, h5, acceptedOps]
    by_cases hall : b.all (fun x => !p x) = true
    · have htw : b.takeWhile (fun x => !p x) = b := by
        have := takeWhile_append_all (fun x => !p x) b [] hall
        simpa using this
      rw [htw] at h1 h2
      simp only [hall, Bool.not_true, Bool.false_eq_true, if_false, if_true]
      rw [runOps_append, runOps_fill_block]
      simp only [List.flatten_append, List.flatten_cons, List.flatten_nil, List.append_nil]
      rw [splitBlocksX_accepted hN bs _ h3, h2, h1]
    · have hall' : b.all (fun x => !p x) = false := by simpa using hall
      simp only [hall', Bool.not_false, if_true, Bool.false_eq_true, if_false]
      rw [runOps_fill_block]
      simp [h1]

theorem fills_acceptedOps : ∀ (bs : List (List α)),
    fills (acceptedOps p bs) = bs.flatten.takeWhile (fun x => !p x)
  | [] => rfl
  | b :: bs => by
    simp only [acceptedOps, List.flatten_cons]
    by_cases hall : b.all (fun x => !p x) = true
    · rw [if_pos hall, fills_append, fills_append, fills_map_fill, fills_acceptedOps bs,
        takeWhile_append_all _ _ _ hall]
      simp [fills]
    · have hall' : b.all (fun x => !p x) = false := by simpa using hall
      rw [if_neg hall, fills_append, fills_map_fill, takeWhile_append_not_all _ _ _ hall']
      simp [fills]

theorem acceptedOps_normal (hN : 0 < N) (bi yor : Bool) : ∀ (bs : List (List α)) (s : St σ α β), Normal N s →
    Normal N (runOps e N rst bi yor (acceptedOps p bs) s).2
  | [], s, h => by simpa [acceptedOps, runOps] using h
  | b :: bs, s, h => by
    have hreq : ∀ (a : List α), Normal N (runOps e N rst bi yor (a.map Op.fill ++ [Op.request]) s).2 := by
      intro a
      rw [runOps_append]
      simp only [runOps]
      exact (request_yields_normal e N rst bi yor hN _ (runOps_inv e N rst bi yor hN _ s (normal_inv bi h))).1
    simp only [acceptedOps]
    split
    · rw [runOps_append]
      exact acceptedOps_normal hN bi yor bs _ (hreq b)
    · exact hreq _

/-- **An element that stops accepting values** (raises `LenaStopFill` for every value satisfying `p`, without taking
it in), behind `buffer_output`, inside `Split` with any block size: `Split.run` yields exactly what `run` yields
for the values the element accepted before the first refusal — they are processed in consecutive blocks as ever, the
refused value and everything after it are ignored, and no exception leaves `Split.run`
(`split_bo_never_raises`). -/
theorem split_stop_prefix (hN : 0 < N) (m : Option Nat) (hm : m ≠ some 0) (el : σ) (xs : List α) :
    (splitX (ElX.stopOn e p false) .atCall N rst false false m el xs).1 =
      (runFillCompute e N rst false el (xs.takeWhile (fun x => !p x))).1 := by
  have hclosed : ∀ (ops : List (Op α)), Normal N (runOps e N rst false false ops (St.init el)).2 →
      (runOps e N rst false false ops (St.init el)).1.flatten = (runFillCompute e N rst false el (fills ops)).1 := by
    intro ops hn
    have h := schedule_runFillCompute e N rst false hN el ops
    rw [runOps_append] at h
    simp only [runOps, List.flatten_append, List.flatten_cons, List.flatten_nil, List.append_nil] at h
    rw [request_normal e N rst false _ hn, List.append_nil] at h
    exact h
  unfold splitX
  by_cases hx : xs.isEmpty = true
  · have : xs = [] := by simpa using hx
    subst this
    simp only [List.isEmpty_nil, if_true, requestX_stopOn_bo]
    obtain ⟨q1, _, _, _⟩ := requestX_ofEl e N rst false false (StX.init el) rfl
    rw [q1]
    have : (StX.init el : StX σ α β).erase = St.init el := rfl
    rw [this, request_normal e N rst false _ (init_normal N hN el)]
    rw [List.takeWhile_nil, runFillCompute]
    simp
  · rw [if_neg hx]
    simp only
    rw [splitBlocksX_accepted e p N rst hN _ _ rfl]
    have : (StX.init el : StX σ α β).erase = St.init el := rfl
    rw [this, hclosed _ (acceptedOps_normal e p N rst hN false false _ _ (init_normal N hN el)),
      fills_acceptedOps, splitBlocks_flatten m hm]

end

/-! ### `_run_fill_compute` with an element that stops -/

theorem foldFillX_ofEl (e : El σ α β) : ∀ (l : List α) (s : σ), foldFillX (ElX.ofEl e) l s = .ok (l.foldl e.fill s)
  | [], _ => rfl
  | x :: r, s => by simp only [foldFillX, ElX.ofEl, List.foldl_cons]; exact foldFillX_ofEl e r _

theorem foldFillX_stopOn (e : El σ α β) (p : α → Bool) : ∀ (l : List α) (s : σ),
    foldFillX (ElX.stopOn e p false) l s =
      if l.all (fun x => !p x) then .ok (l.foldl e.fill s) else .stop ((l.takeWhile (fun x => !p x)).foldl e.fill s)
  | [], _ => rfl
  | x :: r, s => by
    by_cases hp : p x = true
    · simp [foldFillX, ElX.stopOn, hp]
    · have hp' : p x = false := by simpa using hp
      have ih := foldFillX_stopOn e p r (e.fill s x)
      simp only [foldFillX, ElX.stopOn, hp', Bool.false_eq_true, if_false, List.all_cons, Bool.not_false, Bool.true_and,
        List.takeWhile_cons, if_true, List.foldl_cons]
      exact ih

theorem runFillCompute_short (e : El σ α β) (N : Nat) (rst : Bool) (s : σ) (xs : List α) (h : xs.length < N) :
    (runFillCompute e N rst false s xs).1 = [] := by
  rw [runFillCompute]
  have hN0 : ¬ N = 0 := by omega
  simp only [hN0, dite_false]
  by_cases hx : xs = []
  · simp [hx]
  · have hpos : 0 < xs.length := List.length_pos_iff.mpr hx
    have htake : xs.take N = xs := List.take_of_length_le (by omega)
    have hmod : xs.length % N ≠ 0 := by rw [Nat.mod_eq_of_lt h]; omega
    simp only [hx, dite_false, htake]
    rw [if_pos hmod]; rfl

theorem runFillCompute_full (e : El σ α β) (N : Nat) (rst yor : Bool) (s : σ) (a b : List α) (ha : a.length = N)
    (hN : 0 < N) :
    (runFillCompute e N rst yor s (a ++ b)).1 =
      (e.req (a.foldl e.fill s)).1 ++
        (runFillCompute e N rst yor (if rst then e.reset (e.req (a.foldl e.fill s)).2 else (e.req (a.foldl e.fill s)).2) b).1 := by
  rw [runFillCompute]
  have hN0 : ¬ N = 0 := by omega
  have hne : ¬ a ++ b = [] := by
    intro h
    have h1 : a = [] := (List.append_eq_nil_iff.mp h).1
    rw [h1] at ha; simp at ha; omega
  have htake : (a ++ b).take N = a := by rw [← ha]; simp
  have hdrop : (a ++ b).drop N = b := by rw [← ha]; simp
  simp only [hN0, dite_false, hne, htake, hdrop]
  have hmod : ¬ a.length % N ≠ 0 := by simp [ha]
  rw [if_neg hmod]

theorem all_not_eq (p : α → Bool) (l : List α) : l.all (fun x => !p x) = !l.any p := by
  induction l with
  | nil => rfl
  | cons x r ih => simp [ih]

theorem takeWhile_lt_of_not_all (q : α → Bool) : ∀ (l : List α), l.all q = false → (l.takeWhile q).length < l.length
  | [], h => by simp at h
  | x :: r, h => by
    by_cases hx : q x = true
    · have : r.all q = false := by simpa [List.all_cons, hx] using h
      have := takeWhile_lt_of_not_all q r this
      simp [List.takeWhile_cons, hx]; omega
    · simp [List.takeWhile_cons, hx]

/-- never-raising element: `_run_fill_compute` of the extended model is `runFillCompute` -/
theorem runFillComputeX_ofEl (e : El σ α β) (N : Nat) (rst yor : Bool) : ∀ (k : Nat) (xs : List α) (s : σ), xs.length ≤ k →
    runFillComputeX (ElX.ofEl e) N rst yor s xs =
      ((runFillCompute e N rst yor s xs).1, (runFillCompute e N rst yor s xs).2, false)
  | 0, xs, s, h => by
    have : xs = [] := List.length_eq_zero_iff.mp (by omega)
    subst this
    rw [runFillComputeX, runFillCompute]; simp
  | k + 1, xs, s, h => by
    rw [runFillComputeX, runFillCompute]
    by_cases hN0 : N = 0
    · simp [hN0]
    · simp only [hN0, dite_false]
      by_cases hx : xs = []
      · simp [hx]
      · have hpos : 0 < xs.length := List.length_pos_iff.mpr hx
        simp only [hx, dite_false, foldFillX_ofEl]
        by_cases hmod : (xs.take N).length % N ≠ 0
        · rw [if_pos hmod, if_pos hmod]
          cases yor <;> rfl
        · rw [if_neg hmod, if_neg hmod]
          rw [runFillComputeX_ofEl e N rst yor k (xs.drop N) _ (by simp; omega)]
          rfl

/-- **`run` around an element that stops** (`_run_fill_compute` does not catch `LenaStopFill`): it yields the results
of the complete blocks of the values accepted before the first refusal, and then `LenaStopFill` leaves the generator
iff a value was refused. -/
theorem run_stop_prefix (e : El σ α β) (p : α → Bool) (N : Nat) (hN : 0 < N) (rst : Bool) :
    ∀ (k : Nat) (xs : List α) (s : σ), xs.length ≤ k →
    (runFillComputeX (ElX.stopOn e p false) N rst false s xs).1 =
        (runFillCompute e N rst false s (xs.takeWhile (fun x => !p x))).1 ∧
    (runFillComputeX (ElX.stopOn e p false) N rst false s xs).2.2 = xs.any p
  | 0, xs, s, h => by
    have : xs = [] := List.length_eq_zero_iff.mp (by omega)
    subst this
    rw [runFillComputeX, List.takeWhile_nil, runFillCompute]; simp
  | k + 1, xs, s, h => by
    have hN0 : ¬ N = 0 := by omega
    by_cases hx : xs = []
    · subst hx
      rw [runFillComputeX, List.takeWhile_nil, runFillCompute]; simp
    · have hpos : 0 < xs.length := List.length_pos_iff.mpr hx
      rw [runFillComputeX]
      simp only [hN0, dite_false, hx, foldFillX_stopOn]
      have hsplit : xs = xs.take N ++ xs.drop N := (List.take_append_drop N xs).symm
      by_cases hall : (xs.take N).all (fun x => !p x) = true
      · have hany : (xs.take N).any p = false := by
          rw [all_not_eq] at hall; simpa using hall
        simp only [hall, if_true]
        by_cases hmod : (xs.take N).length % N ≠ 0
        · -- a short, fully accepted flow
          rw [if_pos hmod]
          have hlen : xs.length < N := by
            by_cases hl : xs.length < N
            · exact hl
            · have : (xs.take N).length = N := by simp; omega
              rw [this] at hmod; simp at hmod
          have htake : xs.take N = xs := List.take_of_length_le (by omega)
          rw [htake] at hall hany
          have htw : xs.takeWhile (fun x => !p x) = xs := by
            have := takeWhile_append_all (fun x => !p x) xs [] hall
            simpa using this
          rw [htw, runFillCompute_short e N rst s xs hlen, hany]
          simp
        · rw [if_neg hmod]
          have hfull : (xs.take N).length = N := by
            by_cases hl : xs.length < N
            · exfalso
              apply hmod
              have hl' : (xs.take N).length = xs.length := by simp; omega
              rw [hl', Nat.mod_eq_of_lt hl]; omega
            · simp; omega
          obtain ⟨ih1, ih2⟩ := run_stop_prefix e p N hN rst k (xs.drop N)
            (if rst then e.reset (e.req ((xs.take N).foldl e.fill s)).2 else (e.req ((xs.take N).foldl e.fill s)).2)
            (by simp; omega)
          constructor
          · conv => rhs; rw [hsplit, takeWhile_append_all _ _ _ hall, runFillCompute_full e N rst false s _ _ hfull hN]
            rw [← ih1]; rfl
          · conv => rhs; rw [hsplit, List.any_append, hany, Bool.false_or]
            exact ih2
      · have hall' : (xs.take N).all (fun x => !p x) = false := by simpa using hall
        have hany : (xs.take N).any p = true := by
          rw [all_not_eq] at hall'; simpa using hall'
        simp only [hall', Bool.false_eq_true, if_false]
        constructor
        · conv => rhs; rw [hsplit, takeWhile_append_not_all _ _ _ hall']
          have hlen : ((xs.take N).takeWhile (fun x => !p x)).length < N := by
            have h1 := takeWhile_lt_of_not_all (fun x => !p x) (xs.take N) hall'
            have h2 : (xs.take N).length ≤ N := by rw [List.length_take]; omega
            omega
          rw [runFillCompute_short e N rst s _ hlen]
        · conv => rhs; rw [hsplit, List.any_append, hany, Bool.true_or]

/-- block size 2, the element refuses the values `≥ 5`: `run` yields the blocks `[0,1]`, `[2,3]` and raises -/
example : runFillComputeX (ElX.stopOn (lstEl : El (List Nat) Nat (List Nat)) (fun x => decide (5 ≤ x)) false) 2 true false []
    [0, 1, 2, 3, 4, 5, 6] = ([[0, 1], [2, 3]], [4], true) := by decide +kernel

/-- `request_raises_only_buffered` is not vacuous: a `buffer_input` adapter with a refused value in `_buffer_in` -/
example : (requestX (ElX.stopOn (lstEl : El (List Nat) Nat (List Nat)) (fun x => decide (4 ≤ x)) false) 3 true true false
    { el := [0, 1, 2], nCount := 3, bufIn := [3, 4], bufOut := [] }).2.2 = true := by decide

/-- block size 3, the element refuses the values `≥ 4`, Split block size 2 -/
example : splitX (ElX.stopOn (lstEl : El (List Nat) Nat (List Nat)) (fun x => decide (4 ≤ x)) false) .atCall 3 true false
    false (some 2) [] [0, 1, 2, 3, 4, 5, 6, 7] = ([[0, 1, 2]], false) := by decide +kernel

/-! ### `FillRequest.reset()` -/

/-- `reset()` resets the wrapped element and nothing else: the fill counter and both buffers stay -/
theorem reset_only_element (e : ElX σ α β) (s : StX σ α β) :
    (resetX e s).el = e.reset s.el ∧ (resetX e s).nCount = s.nCount ∧ (resetX e s).bufIn = s.bufIn ∧
    (resetX e s).bufOut = s.bufOut := ⟨rfl, rfl, rfl, rfl⟩

/-- fills that do not complete the block go straight into the element -/
theorem fills_below (e : El σ α β) (ev : Eval) (N : Nat) (rst bi yor : Bool) : ∀ (xs : List α) (s : StX σ α β),
    s.nCount + xs.length ≤ N →
    (traceOpsX (ElX.ofEl e) ev N rst bi yor (xs.map OpX.fill) s).2 =
      { s with el := xs.foldl e.fill s.el, nCount := s.nCount + xs.length }
  | [], s, _ => rfl
  | x :: r, s, h => by
    have hn : ¬ s.nCount = N := by simp at h; omega
    have hstep : (fillX (ElX.ofEl e) ev N rst bi s x).1 = { s with el := e.fill s.el x, nCount := s.nCount + 1 } := by
      simp [fillX, hn, ElX.ofEl]
    simp only [List.map_cons, traceOpsX, hstep]
    rw [fills_below e ev N rst bi yor r _ (by simp at h ⊢; omega)]
    simp only [List.foldl_cons, List.length_cons]
    congr 1
    omega

/-- **`reset()` in the middle of a block.**  `n` values of the current block are in the element; `reset()`
is called; the block is completed by the values `xs` and requested.  The block is still emitted at its
original boundary (the counter did not notice), but the element yields for it what it yields for `xs` alone,
filled into the freshly reset element: the values before `reset()` were counted and are gone. -/
theorem reset_mid_block (e : El σ α β) (N : Nat) (rst bi : Bool) (el : σ) (n : Nat) (xs : List α)
    (hx : n + xs.length = N) (hpos : 0 < xs.length) :
    let s : StX σ α β := { el := el, nCount := n, bufIn := [], bufOut := [] }
    let t := traceOpsX (ElX.ofEl e) .atCall N rst bi false ([OpX.reset] ++ xs.map OpX.fill ++ [OpX.request]) s
    outsX t.1 = (e.req (xs.foldl e.fill (e.reset el))).1 ∧ t.2.nCount = 0 := by
  intro s t
  have hfill := fills_below e .atCall N rst bi false xs (resetX (ElX.ofEl e) s) (by simp [resetX, s]; omega)
  -- unfold the history: reset, the fills, the request
  have h1 := traceOpsX_append (ElX.ofEl e) .atCall N rst bi false ([OpX.reset] ++ xs.map OpX.fill) [OpX.request] s
  have h2 := traceOpsX_append (ElX.ofEl e) .atCall N rst bi false [OpX.reset] (xs.map OpX.fill) s
  have hst : (traceOpsX (ElX.ofEl e) .atCall N rst bi false ([OpX.reset] ++ xs.map OpX.fill) s).2 =
      { el := xs.foldl e.fill (e.reset el), nCount := N, bufIn := [], bufOut := [] } := by
    rw [h2]
    simp only [traceOpsX]
    rw [hfill]
    simp [resetX, s, ElX.ofEl, hx]
  have hout0 : outsX (traceOpsX (ElX.ofEl e) .atCall N rst bi false ([OpX.reset] ++ xs.map OpX.fill) s).1 = [] := by
    rw [h2]; simp only [traceOpsX, outsX_append, outsX_fills]; simp [outsX]
  have hN : 0 < N := by omega
  have hreq : requestX (ElX.ofEl e) N rst bi false
      ({ el := xs.foldl e.fill (e.reset el), nCount := N, bufIn := [], bufOut := [] } : StX σ α β) =
      ((e.req (xs.foldl e.fill (e.reset el))).1,
       { el := if rst then e.reset (e.req (xs.foldl e.fill (e.reset el))).2 else (e.req (xs.foldl e.fill (e.reset el))).2,
         nCount := 0, bufIn := [], bufOut := [] }, false) := by
    have h0 : ¬ (0 : Nat) = N := by omega
    cases bi <;> simp [requestX, flushX, emitX, drainX, ElX.ofEl, h0]
  show outsX (traceOpsX _ _ _ _ _ _ ([OpX.reset] ++ xs.map OpX.fill ++ [OpX.request]) s).1 = _ ∧
    (traceOpsX _ _ _ _ _ _ ([OpX.reset] ++ xs.map OpX.fill ++ [OpX.request]) s).2.nCount = 0
  rw [h1]
  simp only [outsX_append, hout0, hst, List.nil_append]
  simp only [traceOpsX, hreq, outsX, List.flatMap_cons, List.flatMap_nil, Option.getD_some, List.append_nil]
  exact ⟨trivial, trivial⟩

/-- the counters of two adapters agree -/
def CEq {σ' β' : Type} (s : StX σ α β) (s' : StX σ' α β') : Prop := s.nCount = s'.nCount ∧ s.bufIn = s'.bufIn

section
variable {σ' β' : Type} (e : El σ α β) (e' : El σ' α β') (N : Nat) (bi yor : Bool)

theorem fillX_ceq (ev ev' : Eval) (rst rst' : Bool) (s : StX σ α β) (s' : StX σ' α β') (x : α) (h : CEq s s') :
    CEq (fillX (ElX.ofEl e) ev N rst bi s x).1 (fillX (ElX.ofEl e') ev' N rst' bi s' x).1 := by
  obtain ⟨h1, h2⟩ := h
  unfold fillX
  by_cases hn : s.nCount = N
  · have hn' : s'.nCount = N := h1 ▸ hn
    cases bi with
    | true => simp [hn, hn', CEq, h1, h2]
    | false =>
      simp only [hn, hn', if_true, Bool.false_eq_true, if_false, ElX.ofEl]
      exact ⟨rfl, h2⟩
  · have hn' : ¬ s'.nCount = N := h1 ▸ hn
    simp only [hn, hn', if_false, ElX.ofEl]
    exact ⟨by simp [h1], h2⟩

theorem drainX_ceq (rst rst' : Bool) : ∀ (l : List α) (s : StX σ α β) (s' : StX σ' α β'), CEq s s' →
    CEq (drainX (ElX.ofEl e) N rst l s).2.1 (drainX (ElX.ofEl e') N rst' l s').2.1
  | [], _, _, h => h
  | x :: r, s, s', h => by
    obtain ⟨h1, h2⟩ := h
    simp only [drainX, ElX.ofEl]
    by_cases hn : s.nCount + 1 = N
    · have hn' : s'.nCount + 1 = N := h1 ▸ hn
      simp only [hn, hn', if_true]
      exact drainX_ceq rst rst' r _ _ ⟨rfl, h2⟩
    · have hn' : ¬ s'.nCount + 1 = N := h1 ▸ hn
      simp only [hn, hn', if_false]
      exact drainX_ceq rst rst' r _ _ ⟨by simp [h1], h2⟩

theorem requestX_ceq (rst rst' : Bool) (s : StX σ α β) (s' : StX σ' α β') (h : CEq s s') :
    CEq (requestX (ElX.ofEl e) N rst bi yor s).2.1 (requestX (ElX.ofEl e') N rst' bi yor s').2.1 := by
  rw [requestX_steps, requestX_steps]
  have a : CEq (xStep1 (ElX.ofEl e) bi s).2 (xStep1 (ElX.ofEl e') bi s').2 := by
    cases bi <;> exact h
  have b : ∀ (t : StX σ α β) (t' : StX σ' α β'), CEq t t' →
      CEq (xStep2 (ElX.ofEl e) N rst t).2 (xStep2 (ElX.ofEl e') N rst' t').2 := by
    intro t t' ⟨h1, h2⟩
    unfold xStep2
    by_cases hn : t.nCount = N
    · rw [if_pos hn, if_pos (h1 ▸ hn)]; exact ⟨rfl, h2⟩
    · rw [if_neg hn, if_neg (h1 ▸ hn)]; exact ⟨h1, h2⟩
  have c : ∀ (t : StX σ α β) (t' : StX σ' α β'), CEq t t' →
      CEq (xStep3 (ElX.ofEl e) N rst bi t).2.1 (xStep3 (ElX.ofEl e') N rst' bi t').2.1 ∧
      (xStep3 (ElX.ofEl e) N rst bi t).2.2 = false ∧ (xStep3 (ElX.ofEl e') N rst' bi t').2.2 = false := by
    intro t t' ⟨h1, h2⟩
    unfold xStep3
    cases bi with
    | false => exact ⟨⟨h1, h2⟩, rfl, rfl⟩
    | true =>
      simp only [if_true]
      rw [h2]
      exact ⟨drainX_ceq e e' N rst rst' _ _ _ ⟨h1, rfl⟩, (drainX_ofEl e N rst _ _).2.2.1, (drainX_ofEl e' N rst' _ _).2.2.1⟩
  have d : ∀ (t : StX σ α β) (t' : StX σ' α β'), CEq t t' →
      CEq (xStep4 (ElX.ofEl e) rst yor t).2 (xStep4 (ElX.ofEl e') rst' yor t').2 := by
    intro t t' ⟨h1, h2⟩
    unfold xStep4
    rw [h1]
    by_cases hc : (yor && t'.nCount != 0) = true
    · rw [if_pos hc, if_pos hc]; exact ⟨rfl, h2⟩
    · rw [if_neg hc, if_neg hc]; exact ⟨h1, h2⟩
  obtain ⟨c1, c2, c3⟩ := c _ _ (b _ _ a)
  rw [c2, c3]
  simp only [Bool.false_eq_true, if_false]
  exact d _ _ c1

/-- **`reset()` does not move a block boundary.**  For never-raising elements the fill counter and `_buffer_in`
after a history do not depend on the wrapped element, on the `reset` flag, on where generators are iterated — nor on
the `reset()` calls in the history: blocks are emitted after the same fills with and without them. -/
theorem reset_keeps_boundaries (ev ev' : Eval) (rst rst' : Bool) : ∀ (ops : List (OpX α)) (s : StX σ α β)
    (s' : StX σ' α β'), CEq s s' →
    CEq (traceOpsX (ElX.ofEl e) ev N rst bi yor ops s).2
        (traceOpsX (ElX.ofEl e') ev' N rst' bi yor (dropResets ops) s').2
  | [], _, _, h => h
  | .fill x :: r, s, s', h => by
    simp only [dropResets, traceOpsX]
    exact reset_keeps_boundaries ev ev' rst rst' r _ _ (fillX_ceq e e' N bi ev ev' rst rst' s s' x h)
  | .request :: r, s, s', h => by
    simp only [dropResets, traceOpsX]
    exact reset_keeps_boundaries ev ev' rst rst' r _ _ (requestX_ceq e e' N bi yor rst rst' s s' h)
  | .reset :: r, s, s', h => by
    simp only [dropResets, traceOpsX]
    exact reset_keeps_boundaries ev ev' rst rst' r _ _ h

end

/-- block size 3, fills 0, 1, `reset()`, fill 2, request: the "block" `[2]` -/
example : outsX (traceOpsX (ElX.ofEl (lstEl : El (List Nat) Nat (List Nat))) .atCall 3 false true false
    [.fill 0, .fill 1, .reset, .fill 2, .request] (StX.init [])).1 = [[2]] := by decide

/-! ### generator objects: why the adapter must iterate `el.request()` where it calls it -/

/-- **The adapter of /repo never keeps a generator object**: whatever the element does (also raising), after
any history of `fill`/`request()`/`reset()` calls `_buffer_out` holds results only — each generator was iterated
inside the `fill` that created it, on the element's state at its block boundary. -/
theorem atCall_keeps_no_generator (e : ElX σ α β) (N : Nat) (rst bi yor : Bool) (ops : List (OpX α)) (el : σ) :
    allDone (traceOpsX e .atCall N rst bi yor ops (StX.init el)).2.bufOut = true :=
  traceOpsX_bufKind e .atCall N rst bi yor ops (StX.init el) rfl

/-- **Generator objects report the present.**  An adapter that stores the generator objects instead
(`Eval.atRequest`) holds nothing but unevaluated generators, and the next `request()` starts by yielding what
`el.request()` yields on the element's state *at that moment*, once per buffered block (`iterReq`): the values
of the buffered blocks have no influence on the results. -/
theorem atRequest_reports_present (e : ElX σ α β) (N : Nat) (rst yor : Bool) (ops : List (OpX α)) (el : σ) :
    let s := (traceOpsX e .atRequest N rst false yor ops (StX.init el)).2
    allGen s.bufOut = true ∧
    ∃ rest, (requestX e N rst false yor s).1 = (iterReq e s.bufOut.length s.el).1 ++ rest := by
  intro s
  have hg : allGen s.bufOut = true := traceOpsX_bufKind e .atRequest N rst false yor ops (StX.init el) rfl
  refine ⟨hg, ?_⟩
  rw [requestX_steps]
  have h1 : (xStep1 e false s).1 = (iterReq e s.bufOut.length s.el).1 := by
    simp only [xStep1, Bool.false_eq_true, if_false, flushX_allGen e s.bufOut s.el hg]
  split
  · exact ⟨_, by rw [h1, List.append_assoc]⟩
  · exact ⟨_, by rw [h1, List.append_assoc, List.append_assoc]⟩

/-- **Eager evaluation is required.**  Recording element, `reset` on, `buffer_output`, any block size `n ≥ 1`:
fill a complete block `b`, one more value `x`, then `request()`.  The adapter of /repo yields the block `b` first;
the adapter that keeps the generator object yields `[x]` — the content of the element after it was reset and filled
with the next value — so its results differ from `run` whenever `b ≠ [x]`. -/
theorem eager_evaluation_required (N : Nat) (hN : 0 < N) (b : List α) (x : α) (hb : b.length = N) :
    let e : ElX (List α) α (List α) := ElX.ofEl lstEl
    let ops : List (OpX α) := b.map OpX.fill ++ [OpX.fill x, OpX.request]
    (outsX (traceOpsX e .atCall N true false false ops (StX.init [])).1).head? = some b ∧
    (outsX (traceOpsX e .atRequest N true false false ops (StX.init [])).1).head? = some [x] := by
  intro e ops
  have hst : ∀ ev, (traceOpsX e ev N true false false (b.map OpX.fill) (StX.init [])).2 =
      { el := b, nCount := N, bufIn := [], bufOut := [] } := by
    intro ev
    have := fills_below (lstEl : El (List α) α (List α)) ev N true false false b (StX.init []) (by simp [StX.init, hb])
    rw [this]
    simp [StX.init, lstEl_foldl, hb]
  have hout : ∀ ev, outsX (traceOpsX e ev N true false false (b.map OpX.fill) (StX.init [])).1 = [] :=
    fun ev => outsX_fills e ev N true false false b _
  have h0 : ¬ (0 : Nat) = N := by omega
  constructor
  · show (outsX (traceOpsX e .atCall N true false false (b.map OpX.fill ++ [OpX.fill x, OpX.request]) (StX.init [])).1).head? = _
    rw [traceOpsX_append, outsX_append, hout, hst]
    by_cases h1 : 1 = N
    · simp [traceOpsX, outsX, fillX, requestX, flushX, emitX, e, ElX.ofEl, lstEl, h1]
    · simp [traceOpsX, outsX, fillX, requestX, flushX, emitX, e, ElX.ofEl, lstEl, h1]
  · show (outsX (traceOpsX e .atRequest N true false false (b.map OpX.fill ++ [OpX.fill x, OpX.request]) (StX.init [])).1).head? = _
    rw [traceOpsX_append, outsX_append, hout, hst]
    by_cases h1 : 1 = N
    · simp [traceOpsX, outsX, fillX, requestX, flushX, emitX, e, ElX.ofEl, lstEl, h1]
    · simp [traceOpsX, outsX, fillX, requestX, flushX, emitX, e, ElX.ofEl, lstEl, h1]

/-- the numbers of seeded change C16-C (`Sum` replaced by the recording element): block size 2, fills 1..5,
`request()`, fills 6, 7, `request()` — `run` gives the blocks `[1,2] [3,4] [5,6]`; with kept generator objects both
buffered blocks report `[5]`, the third `[7]` (seed: `[5, 5, 7]` instead of `[3, 7, 11]`) -/
example : outsX (traceOpsX (ElX.ofEl (lstEl : El (List Nat) Nat (List Nat))) .atRequest 2 true false false
      [.fill 1, .fill 2, .fill 3, .fill 4, .fill 5, .request, .fill 6, .fill 7, .request] (StX.init [])).1
    = [[5], [5], [7]] := by decide
example : outsX (traceOpsX (ElX.ofEl (lstEl : El (List Nat) Nat (List Nat))) .atCall 2 true false false
      [.fill 1, .fill 2, .fill 3, .fill 4, .fill 5, .request, .fill 6, .fill 7, .request] (StX.init [])).1
    = [[1, 2], [3, 4], [5, 6]] := by decide

end Lena.C16
