import LenaModel.Model.C06
import LenaModel.Lemmas.C06
/-! # C06 — property theorems -/
