import LenaModel.Model.C06
import LenaModel.Lemmas.C06
/-! # C06 — property theorems: histogram fill puts every value into exactly the right cell and
conserves weight

Property (properties.jsonl, C06): *For strictly increasing finite edges in any dimension and any
sequence of coordinates and weights, (1) each fill adds the weight to exactly the one cell whose
half-open intervals `[low, high)` contain the coordinate in every dimension, (2) or to
`n_out_of_range` if there is none, (3) and changes nothing else; (4) the bin index reported for a
value equals the number of edges not greater than it, minus one.  (5) Hence the sum of all bins
plus `n_out_of_range` always equals the total filled weight, for the histogram structure and for
the `Histogram` element alike.*

All theorems are about the transcribed model `LenaModel/Model/C06.lean`, for **all** inputs:
* `α` — edge values and coordinates: any type with a decidable linear order
  (`Std.IsLinearOrder`, `Std.LawfulOrderLT`; instances exist for `Int`, `Nat`, `Rat`);
* `β` — bin contents and weights: any commutative monoid (`Lean.Grind.AddCommMonoid`);
* edge arrays of any length, any number of dimensions, any number of fills;
* the floating-point interpolation guess of the search is an arbitrary function; the theorems of
  this file assume it has values in `[ind_min, ind_max]` (`GuessOK`) — a hypothesis that
  `Props/C06At.lean` removes altogether (section "every guess", the code after lena 4fbe73b): read
  the theorems there (`bin1d_correct`, `fill_correct`, `weight_conserved_any`, …) as the carriers of the
  property; the result does not depend on the guess (`bin1d_guess_independent`).

Vocabulary (`Model/C06Spec.lean`, executed by the driver): `StrictInc arr` (pairwise `<`), `countLE arr v` (number of edges
`≤ v`), `ValidAxis` (≥ 2 strictly increasing edges), `ValidEdges` (≥ 1 axis, all valid),
`InCell axes xs idx` (the half-open cell `idx` contains the point `xs`), `indices axes xs`
(`countLE − 1` per axis), `total` (sum of all cells), `NArr.modifyAt`, `NArr.get?` (`Model/NArr.lean`).

Map sentence → theorem:
 (4) `bin1d_spec`, `bin1d_halfopen`, `bin1d_guess_independent`, `bin1d_returns`, `getBinOnValue_spec`;
 (1) `fill_exact_cell` with `inCell_unique`;  (2) `fill_out_of_range`;  (3) `fill_frame`, `fill_conserves`;
 (5) `fill_conserves`, `fillAll_conserves`, `weight_conserved`, `elem_weight_conserved`
     (`elem_fill_exact_cell`, `elem_fill_out_of_range` for the element);
 precondition guard: `checkEdgesIncreasing_ok/_err` (Lemmas), `mkHist_valid`, `mkHist_invalid`. -/
open Lena
namespace Lena.C06
set_option linter.unusedSectionVars false

/-! ## (4) the bin index: `get_bin_on_value_1d` -/
section Search
variable {α : Type} [LT α] [LE α] [DecidableLT α] [DecidableLE α] [DecidableEq α]
  [Std.IsLinearOrder α] [Std.LawfulOrderLT α]

/-- **Sentence (4), one axis.**  For every strictly increasing non-empty `arr` (the property asks
for ≥ 2 edges; one edge works too), every value and every guess function that is within
`[ind_min, ind_max]` at the states where the search consults it (`GuessOKAt`, the weakest form;
implied by `GuessOK`), the search returns (it is total by construction: the recursion of
`bin1dLoop` is accepted with measure `ind_max − ind_min`) and its result is
*(the number of edges not greater than the value) − 1*. -/
theorem bin1d_spec (guess : Nat → Nat → Int) {arr : List α} (val : α) (hg : GuessOKAt arr val guess)
    (hinc : StrictInc arr) (hne : arr ≠ []) :
    bin1d guess val arr = .ok ((countLE arr val : Int) - 1) := by
  have hl : arr.length ≠ 0 := by simpa using hne
  have hk := countLE_le_length arr val
  simp only [bin1d, hl, if_false]
  exact bin1dLoop_spec guess val arr hg hinc _ 0 (arr.length - 1) rfl (by omega) (by omega) (by omega) (by omega)

/-- With the interpolation of the source evaluated in exact integer arithmetic (floor division)
the hypothesis on the guess holds, so the search is correct outright; what remains unverified is
only that *floating-point* evaluation of the same formula also stays in range. -/
theorem bin1d_interp {arr : List Int} (val : Int) (hinc : StrictInc arr) (hne : arr ≠ []) :
    bin1d (interpGuess arr val) val arr = .ok ((countLE arr val : Int) - 1) :=
  bin1d_spec _ val (interpGuess_okAt arr val) hinc hne

/-- The result does not depend on the interpolation guess (so no floating-point reasoning is
needed for correctness, only for the guess staying in range). -/
theorem bin1d_guess_independent (g₁ g₂ : Nat → Nat → Int) (h₁ : GuessOK g₁) (h₂ : GuessOK g₂)
    {arr : List α} (hinc : StrictInc arr) (hne : arr ≠ []) (val : α) :
    bin1d g₁ val arr = bin1d g₂ val arr := by
  rw [bin1d_spec g₁ val (h₁.at _ _) hinc hne, bin1d_spec g₂ val (h₂.at _ _) hinc hne]

/-- **Closed lower / open upper bound.**  The result `r` is `−1` iff the value is below the first
edge, `len − 1` iff it is `≥` the last edge, and `i` (`0 ≤ i < len − 1`) iff
`arr[i] ≤ val < arr[i+1]`. -/
theorem bin1d_halfopen (guess : Nat → Nat → Int) (hg : GuessOK guess) {arr : List α}
    (hinc : StrictInc arr) (hne : arr ≠ []) (val : α) :
    ∃ r : Int, bin1d guess val arr = .ok r ∧
      (r = -1 ↔ val < arr[0]'(List.length_pos_iff.2 hne)) ∧
      (r = (arr.length : Int) - 1 ↔ arr[arr.length - 1]'(Nat.sub_lt (List.length_pos_iff.2 hne) Nat.one_pos) ≤ val) ∧
      (∀ (i : Nat) (h : i + 1 < arr.length), r = (i : Int) ↔ arr[i] ≤ val ∧ val < arr[i + 1]) := by
  have hpos : 0 < arr.length := List.length_pos_iff.2 hne
  have hk := countLE_le_length arr val
  refine ⟨_, bin1d_spec guess val (hg.at _ _) hinc hne, ?_, ?_, ?_⟩
  · rw [lt_iff_not_le', le_iff_lt_countLE hinc 0 hpos]; omega
  · rw [le_iff_lt_countLE hinc (arr.length - 1) (by omega)]; omega
  · intro i h
    have := inCell_axis_iff hinc val i
    constructor
    · intro hr
      obtain ⟨_, h1, h2⟩ := this.2 ⟨by omega, h⟩
      exact ⟨h1, h2⟩
    · rintro ⟨h1, h2⟩
      have := (this.1 ⟨h, h1, h2⟩).1
      omega
end Search

section SearchAny
variable {α : Type} [LT α] [LE α] [DecidableLT α] [DecidableLE α] [DecidableEq α]

/-- Even without the precondition (edges not increasing — "it is not checked"): for any
non-empty array and any in-range guess the search returns an index in `[−1, len − 1]`; it neither
raises nor leaves the modelled domain. -/
theorem bin1d_returns (guess : Nat → Nat → Int) (hg : GuessOK guess) (arr : List α) (hne : arr ≠ []) (val : α) :
    ∃ r : Int, bin1d guess val arr = .ok r ∧ -1 ≤ r ∧ r ≤ (arr.length : Int) - 1 := by
  have hl : arr.length ≠ 0 := by simpa using hne
  simp only [bin1d, hl, if_false]
  obtain ⟨r, h, h1, h2⟩ := bin1dLoop_total guess val arr hg _ 0 (arr.length - 1) rfl (by omega) (by omega)
  exact ⟨r, h, by omega, by omega⟩

/-- an empty edge array: `arr[0]` raises `IndexError` -/
theorem bin1d_empty (guess : Nat → Nat → Int) (val : α) : bin1d guess val ([] : List α) = .error .indexError := rfl
end SearchAny


/-! ## (4) in any dimension: `get_bin_on_value` -/
section Fill
variable {α β : Type} [LT α] [LE α] [DecidableLT α] [DecidableLE α] [DecidableEq α]
  [Std.IsLinearOrder α] [Std.LawfulOrderLT α]

theorem Proper.length {e : Edges α} {c : Coord α} {xs : List α} (h : Proper e c xs) :
    xs.length = e.axes.length := by
  cases h with
  | flat arr x => rfl
  | nested axes xs h => exact h

/-- the per-axis loop of `get_bin_on_value` -/
theorem binsLoop_spec (g : Nat → Nat → Nat → Int) (hg : GuessesOK g) :
    ∀ (axes : List (List α)) (xs : List α) (k : Nat), xs.length = axes.length →
      (∀ arr ∈ axes, ValidAxis arr) → binsLoop g k xs axes = .ok (indices axes xs)
  | [], [], _, _, _ => rfl
  | [], _ :: _, _, hl, _ => by simp at hl
  | _ :: _, [], _, hl, _ => by simp at hl
  | arr :: axes, x :: xs, k, hl, hv => by
    have ha := hv arr (by simp)
    have hne : arr ≠ [] := by intro h; have := ha.1; simp [h] at this
    have ih := binsLoop_spec g hg axes xs (k + 1) (by simpa using hl)
      (fun a hm => hv a (List.mem_cons_of_mem _ hm))
    simp [binsLoop, bin1d_spec (g k) x ((hg k).at _ _) ha.2 hne, ih, indices, bind, Except.bind, pure, Except.pure]

/-- **Bin index** (`get_bin_on_value`): for strictly increasing edges in any number of dimensions,
any coordinate of the right form and any in-range guesses, the index reported along every axis is
(the number of edges not greater than the coordinate) − 1. -/
theorem getBinOnValue_spec (g : Nat → Nat → Nat → Int) (hg : GuessesOK g) {e : Edges α}
    (he : ValidEdges e) {c : Coord α} {xs : List α} (hp : Proper e c xs) :
    getBinOnValue g c e = .ok (indices e.axes xs) := by
  cases hp with
  | flat arr x =>
    have ha : ValidAxis arr := he.2 arr (by simp [Edges.axes])
    have hne : arr ≠ [] := by intro h; have := ha.1; simp [h] at this
    simp [getBinOnValue, bin1d_spec (g 0) x ((hg 0).at _ _) ha.2 hne, indices, Edges.axes, bind, Except.bind, pure, Except.pure]
  | nested axes xs hl =>
    have : ¬ xs.length ≠ axes.length := by simp [hl]
    simp only [getBinOnValue, this, if_false]
    exact binsLoop_spec g hg axes xs 0 hl he.2

/-- a coordinate with the wrong number of components is rejected -/
theorem getBinOnValue_wrong_length (g : Nat → Nat → Nat → Int) (axes : List (List α)) (xs : List α)
    (h : xs.length ≠ axes.length) : getBinOnValue g (.tuple xs) (.nested axes) = .error .lenaValueError := by
  simp [getBinOnValue, h]

/-! ## `histogram.fill` -/

variable [Lean.Grind.AddCommMonoid β]

theorem dimsOf_ne_nil {e : Edges α} (he : ValidEdges e) : dimsOf e.axes ≠ [] := by
  have := he.1
  simpa [dimsOf] using this

theorem validEdges_strictInc {e : Edges α} (he : ValidEdges e) : ∀ arr ∈ e.axes, StrictInc arr :=
  fun arr h => (he.2 arr h).2

/-- **Sentence (1).**  In a well-formed histogram of any dimension, if the cell `idx` contains the
coordinate (half-open in every dimension) then `fill` adds the weight to exactly that cell: the
new state is the old one with `bins[idx] += w` — `n_out_of_range`, `edges`, `dim` and every other
cell are literally the old ones (`fill_frame` spells that out through `get?`).  By `inCell_unique`
there is only one such cell. -/
theorem fill_exact_cell (g : Nat → Nat → Nat → Int) (hg : GuessesOK g) {h : Hist α β} (hwf : WF h)
    {c : Coord α} {xs : List α} (hp : Proper h.edges c xs) (w : β) {idx : List Nat}
    (hc : InCell h.edges.axes xs idx) :
    fill g h c w = .ok { h with bins := NArr.modifyAt (· + w) h.bins idx } := by
  have hi := (inCell_iff _ _ _ (validEdges_strictInc hwf.edges) hp.length).1 hc
  have hw := fillWalk_inRange w _ _ _ hwf.shape hi.1 (dimsOf_ne_nil hwf.edges)
  simp [fill, getBinOnValue_spec g hg hwf.edges hp, hw, hi.2, bind, Except.bind, pure, Except.pure]

/-- **Sentence (2).**  If no cell contains the coordinate, the weight goes to `n_out_of_range`
and nothing else changes. -/
theorem fill_out_of_range (g : Nat → Nat → Nat → Int) (hg : GuessesOK g) {h : Hist α β} (hwf : WF h)
    {c : Coord α} {xs : List α} (hp : Proper h.edges c xs) (w : β)
    (hno : ∀ idx, ¬ InCell h.edges.axes xs idx) :
    fill g h c w = .ok { h with nOut := h.nOut + w } := by
  have hnr : ¬ InRange (indices h.edges.axes xs) (dimsOf h.edges.axes) := by
    intro hr
    exact hno _ ((inCell_iff _ _ _ (validEdges_strictInc hwf.edges) hp.length).2 ⟨hr, rfl⟩)
  have hlen : (indices h.edges.axes xs).length = (dimsOf h.edges.axes).length := by
    simp [indices, dimsOf, hp.length]
  have hw := fillWalk_outRange w _ _ _ hwf.shape hlen hnr (dimsOf_ne_nil hwf.edges)
  simp [fill, getBinOnValue_spec g hg hwf.edges hp, hw, bind, Except.bind, pure, Except.pure]

end Fill

section Fill2
variable {α β : Type} [LT α] [LE α] [DecidableLT α] [DecidableLE α] [DecidableEq α]
  [Std.IsLinearOrder α] [Std.LawfulOrderLT α] [Lean.Grind.AddCommMonoid β]
open Lean.Grind.AddCommMonoid

/-- **Sentences (1)–(3) together, observationally.**  A fill of a proper coordinate into a
well-formed histogram always returns; `edges` and `dim` are unchanged; and either
* some cell `idx` contains the coordinate, that cell held `c₀` and now holds `c₀ + w`, every other
  cell index `j` (of the same length) reads the same as before, `n_out_of_range` is unchanged; or
* no cell contains it, `bins` are unchanged and `n_out_of_range` grew by `w`. -/
theorem fill_frame (g : Nat → Nat → Nat → Int) (hg : GuessesOK g) {h : Hist α β} (hwf : WF h)
    {c : Coord α} {xs : List α} (hp : Proper h.edges c xs) (w : β) :
    ∃ h', fill g h c w = .ok h' ∧ h'.edges = h.edges ∧ h'.dim = h.dim ∧
      ((∃ idx c₀, InCell h.edges.axes xs idx ∧ h'.nOut = h.nOut ∧
          NArr.get? h.bins idx = some (.leaf c₀) ∧
          NArr.get? h'.bins idx = some (.leaf (c₀ + w)) ∧
          ∀ j, j ≠ idx → j.length = idx.length → NArr.get? h'.bins j = NArr.get? h.bins j)
       ∨ ((∀ idx, ¬ InCell h.edges.axes xs idx) ∧ h'.bins = h.bins ∧ h'.nOut = h.nOut + w)) := by
  have hiff := fun idx => inCell_iff h.edges.axes xs idx (validEdges_strictInc hwf.edges) hp.length
  by_cases hr : InRange (indices h.edges.axes xs) (dimsOf h.edges.axes)
  · have hc : InCell h.edges.axes xs ((indices h.edges.axes xs).map Int.toNat) := (hiff _).2 ⟨hr, rfl⟩
    obtain ⟨c₀, hc₀⟩ := get?_of_inRange _ _ _ hwf.shape hr
    refine ⟨_, fill_exact_cell g hg hwf hp w hc, rfl, rfl, Or.inl ⟨_, c₀, hc, rfl, hc₀, ?_, ?_⟩⟩
    · exact get?_modifyAt_same _ _ _ _ hc₀
    · intro j hj hl
      exact get?_modifyAt_other _ _ _ _ hj hl
  · have hno : ∀ idx, ¬ InCell h.edges.axes xs idx := fun idx hc => hr ((hiff idx).1 hc).1
    exact ⟨_, fill_out_of_range g hg hwf hp w hno, rfl, rfl, Or.inr ⟨hno, rfl, rfl⟩⟩

/-- a coordinate with the wrong number of components makes `fill` raise `LenaValueError` -/
theorem fill_wrong_length (g : Nat → Nat → Nat → Int) (h : Hist α β) (axes : List (List α))
    (he : h.edges = .nested axes) (xs : List α) (hl : xs.length ≠ axes.length) (w : β) :
    fill g h (.tuple xs) w = .error .lenaValueError := by
  simp [fill, he, getBinOnValue_wrong_length g axes xs hl, bind, Except.bind]

omit [Std.IsLinearOrder α] [Std.LawfulOrderLT α] in
/-- whatever the coordinate, the guesses and the shapes: a fill that returns changed neither the
edges nor `dim`, and the sum of all cells plus `n_out_of_range` grew by exactly the weight -/
theorem fill_conserves (g : Nat → Nat → Nat → Int) (h h' : Hist α β) (c : Coord α) (w : β)
    (hf : fill g h c w = .ok h') :
    h'.edges = h.edges ∧ h'.dim = h.dim ∧ total h'.bins + h'.nOut = total h.bins + h.nOut + w := by
  unfold fill at hf
  cases hi : getBinOnValue g c h.edges with
  | error e => simp [hi, bind, Except.bind] at hf
  | ok is =>
    cases hw : fillWalk w h.bins is with
    | error e => simp [hi, hw, bind, Except.bind] at hf
    | ok r =>
      cases r with
      | none =>
        simp [hi, hw, bind, Except.bind, pure, Except.pure] at hf
        subst hf
        exact ⟨rfl, rfl, (add_assoc _ _ _).symm⟩
      | some b =>
        simp [hi, hw, bind, Except.bind, pure, Except.pure] at hf
        subst hf
        refine ⟨rfl, rfl, ?_⟩
        simp only [fillWalk_total w is _ _ hw]
        exact add_right_comm' _ _ _

omit [Std.IsLinearOrder α] [Std.LawfulOrderLT α] in
/-- a fill that returns keeps the regular shape of the bins -/
theorem fill_shape (g : Nat → Nat → Nat → Int) (h h' : Hist α β) (c : Coord α) (w : β) (ds : List Nat)
    (hf : fill g h c w = .ok h') (hs : NArr.HasShape ds h.bins) : NArr.HasShape ds h'.bins := by
  unfold fill at hf
  cases hi : getBinOnValue g c h.edges with
  | error e => simp [hi, bind, Except.bind] at hf
  | ok is =>
    cases hw : fillWalk w h.bins is with
    | error e => simp [hi, hw, bind, Except.bind] at hf
    | ok r =>
      cases r with
      | none =>
        simp [hi, hw, bind, Except.bind, pure, Except.pure] at hf
        subst hf; exact hs
      | some b =>
        simp [hi, hw, bind, Except.bind, pure, Except.pure] at hf
        subst hf
        exact fillWalk_shape w is ds _ _ hw hs

/-- well-formedness is an invariant of `fill` -/
theorem fill_wf (g : Nat → Nat → Nat → Int) {h h' : Hist α β} (c : Coord α) (w : β)
    (hf : fill g h c w = .ok h') (hwf : WF h) : WF h' := by
  have he := (fill_conserves g h h' c w hf).1
  constructor
  · rw [he]; exact hwf.edges
  · rw [he]; exact fill_shape g h h' c w _ hf hwf.shape

/-! ## sequences of fills -/

omit [Std.IsLinearOrder α] [Std.LawfulOrderLT α] in
/-- **Sentence (5), unconditionally.**  For any sequence of fills that returns — whatever the
edges, shapes, coordinates and guesses — the sum of all cells plus `n_out_of_range` grew by
exactly the sum of the weights, and the edges are the initial ones. -/
theorem fillAll_conserves : ∀ (ops : List ((Nat → Nat → Nat → Int) × Coord α × β)) (h h' : Hist α β),
    fillAll h ops = .ok h' →
    h'.edges = h.edges ∧ total h'.bins + h'.nOut = total h.bins + h.nOut + sumW (ops.map (·.2.2))
  | [], h, h', hf => by
    simp [fillAll] at hf; subst hf
    exact ⟨rfl, by simp [sumW, add_zero]⟩
  | (g, c, w) :: rest, h, h', hf => by
    unfold fillAll at hf
    cases h1 : fill g h c w with
    | error e => simp [h1, bind, Except.bind] at hf
    | ok h₁ =>
      simp only [h1, bind, Except.bind] at hf
      obtain ⟨e1, _, t1⟩ := fill_conserves g h h₁ c w h1
      obtain ⟨e2, t2⟩ := fillAll_conserves rest h₁ h' hf
      refine ⟨e2.trans e1, ?_⟩
      rw [t2, t1]
      simp only [List.map_cons, sumW, add_assoc]

/-- a sequence of proper fills into a well-formed histogram never raises -/
theorem fillAll_ok : ∀ (ops : List ((Nat → Nat → Nat → Int) × Coord α × β)) (h : Hist α β),
    WF h → OpsOK h.edges ops → ∃ h', fillAll h ops = .ok h' ∧ WF h' ∧ h'.edges = h.edges
  | [], h, hwf, _ => ⟨h, rfl, hwf, rfl⟩
  | (g, c, w) :: rest, h, hwf, hops => by
    obtain ⟨hg, xs, hp⟩ := hops (g, c, w) (by simp)
    obtain ⟨h₁, h1, he, _⟩ := fill_frame g hg hwf hp w
    have hwf1 := fill_wf g c w h1 hwf
    have hops1 : OpsOK h₁.edges rest := by
      rw [he]; exact fun op hm => hops op (List.mem_cons_of_mem _ hm)
    obtain ⟨h', h2, hwf', he'⟩ := fillAll_ok rest h₁ hwf1 hops1
    exact ⟨h', by simp [fillAll, h1, h2, bind, Except.bind], hwf', he'.trans he⟩

/-! ## creation: `check_edges_increasing` guards the precondition -/

/-- for valid edges `histogram(edges, initial_value=init)` is the regular array of `len(axis) − 1`
cells per axis, all holding `init`, with `n_out_of_range = 0` -/
theorem mkHist_valid {e : Edges α} (he : ValidEdges e) (init : β) :
    mkHist e none init =
      .ok { edges := e, bins := NArr.full (dimsOf e.axes) init, nOut := 0, dim := edgesDim e } := by
  have h1 : ∀ a ∈ e.axes, a ≠ [] := by
    intro a ha h; have := (he.2 a ha).1; simp [h] at this
  cases e <;>
  simp only [mkHist, checkEdgesIncreasing_ok he, initBins_eq init _ he.1 h1, bind, Except.bind, pure,
    Except.pure, dimsOf, edgesDim]

/-- for anything else (no axis, an axis with fewer than two edges or not strictly increasing)
construction raises `LenaValueError`, whatever `bins` are passed -/
theorem mkHist_invalid {e : Edges α} (he : ¬ ValidEdges e) (bins : Option (NArr β)) (init : β) :
    mkHist e bins init = .error .lenaValueError := by
  simp [mkHist, checkEdgesIncreasing_err he, bind, Except.bind]

/-- creation from existing bins, as the code does it ("a simple check of the shape of bins"):
only the outer length is compared, with the number of bins of the first axis (after the fix
8d715e5 also for nested one-dimensional edges `[[…]]`, see notes/C06_defect_1.md). -/
theorem mkHist_bins {e : Edges α} (he : ValidEdges e) (xs : List (NArr β)) (init : β) :
    mkHist e (some (.node xs)) init =
      if xs.length = (e.axes.head?.getD []).length - 1
      then .ok { edges := e, bins := .node xs, nOut := 0, dim := edgesDim e }
      else .error .lenaValueError := by
  cases e with
  | flat arr =>
    simp only [mkHist, checkEdgesIncreasing_ok he, lenBins, bind, Except.bind, pure, Except.pure, edgesDim,
      Edges.axes, List.head?_cons, Option.getD_some]
    by_cases h : xs.length = arr.length - 1 <;> simp [h]
  | nested axes =>
    have hne : axes ≠ [] := he.1
    cases axes with
    | nil => exact absurd rfl hne
    | cons a0 rest =>
      simp only [mkHist, checkEdgesIncreasing_ok he, lenBins, bind, Except.bind, pure, Except.pure, edgesDim,
        Edges.axes, List.head?_cons, Option.getD_some, List.length_cons]
      by_cases h : xs.length = a0.length - 1 <;> simp [h]

/-- creation from bins of the matching regular shape succeeds, in every dimension and both edge
formats, and the result is well-formed: so everything proved for well-formed histograms applies
to histograms created from existing bins -/
theorem mkHist_bins_wf {e : Edges α} (he : ValidEdges e) (b : NArr β) (init : β)
    (hs : NArr.HasShape (dimsOf e.axes) b) :
    ∃ h, mkHist e (some b) init = .ok h ∧ WF h ∧ h.edges = e ∧ h.bins = b ∧ h.nOut = 0 := by
  have hne := he.1
  cases hax : e.axes with
  | nil => exact absurd hax hne
  | cons a0 rest =>
    rw [hax] at hs
    cases b with
    | leaf c => exact absurd hs hasShape_leaf_cons
    | node xs =>
      have hlen : xs.length = a0.length - 1 := (hasShape_node.1 hs).1
      refine ⟨{ edges := e, bins := .node xs, nOut := 0, dim := edgesDim e }, ?_, ⟨he, ?_⟩, rfl, rfl, rfl⟩
      · rw [mkHist_bins he, hax]; simp [hlen]
      · simp only [hax]; exact hs

theorem mkHist_wf {e : Edges α} (he : ValidEdges e) (init : β) {h : Hist α β}
    (hm : mkHist e none init = .ok h) : WF h ∧ h.edges = e ∧ h.nOut = 0 ∧ h.bins = NArr.full (dimsOf e.axes) init := by
  rw [mkHist_valid he init] at hm
  simp only [Except.ok.injEq] at hm
  subst hm
  exact ⟨⟨he, hasShape_full init _⟩, rfl, rfl, rfl⟩

/-- **Sentence (5) for the structure.**  For strictly increasing edges in any dimension and any
sequence of proper coordinates and weights (any in-range guesses): creation succeeds, no fill
raises, the edges are unchanged, and afterwards the sum of all bins plus `n_out_of_range` equals
the total filled weight. -/
theorem weight_conserved {e : Edges α} (he : ValidEdges e)
    (ops : List ((Nat → Nat → Nat → Int) × Coord α × β)) (hops : OpsOK e ops) :
    ∃ h₀ h, mkHist e none (0 : β) = .ok h₀ ∧ fillAll h₀ ops = .ok h ∧ h.edges = e ∧
      total h.bins + h.nOut = sumW (ops.map (·.2.2)) := by
  have hd := mkHist_valid he (0 : β)
  obtain ⟨hwf, hedges, hn, hb⟩ := mkHist_wf he (0 : β) hd
  obtain ⟨h, hf, _, he'⟩ := fillAll_ok ops _ hwf (by rw [hedges]; exact hops)
  have hc := (fillAll_conserves ops _ h hf).2
  simp only [total_full_zero, zero_add', add_zero] at hc
  exact ⟨_, h, hd, hf, he', by simpa using hc⟩

end Fill2

/-! ## the element `Histogram` -/
section Elem
variable {α β κ : Type} [LT α] [LE α] [DecidableLT α] [DecidableLE α] [DecidableEq α]
  [Std.IsLinearOrder α] [Std.LawfulOrderLT α] [Lean.Grind.AddCommMonoid β]

omit [Std.IsLinearOrder α] [Std.LawfulOrderLT α] in
/-- `Histogram.fill(value)` is `histogram.fill(data)` with the unit weight; the current context
becomes the value's context (`{}` for a bare value) -/
theorem histEl_fill_eq (empty : κ) (one : β) (g : Nat → Nat → Nat → Int) (e : HistEl α β κ)
    (data : Coord α) (ctx : Option κ) :
    HistEl.fill empty one g e data ctx =
      (fill g e.hist data one).map (fun h => { hist := h, curContext := ctx.getD empty }) := by
  unfold HistEl.fill
  cases fill g e.hist data one <;> rfl

omit [Std.IsLinearOrder α] [Std.LawfulOrderLT α] in
/-- filling a flow into the element = the same fills, with weight `one`, on its histogram -/
theorem histEl_fillAll_eq (empty : κ) (one : β) :
    ∀ (vals : List ((Nat → Nat → Nat → Int) × Coord α × Option κ)) (e : HistEl α β κ),
    HistEl.fillAll empty one e vals =
      (fillAll e.hist (toOps one vals)).map
        (fun h => { hist := h, curContext := lastCtx empty e.curContext vals })
  | [], e => rfl
  | (g, c, ctx) :: rest, e => by
    unfold HistEl.fillAll
    rw [histEl_fill_eq]
    simp only [toOps, List.map_cons, fillAll]
    cases hf : fill g e.hist c one with
    | error err => rfl
    | ok h₁ =>
      simp only [Except.map, bind, Except.bind]
      have := histEl_fillAll_eq empty one rest { hist := h₁, curContext := ctx.getD empty }
      simp only [toOps] at this
      rw [this]
      rfl

/-- sentence (1) for the element: the unit weight goes to the one cell containing the value -/
theorem elem_fill_exact_cell (empty : κ) (one : β) (g : Nat → Nat → Nat → Int) (hg : GuessesOK g)
    {e : HistEl α β κ} (hwf : WF e.hist) {c : Coord α} {xs : List α} (hp : Proper e.hist.edges c xs)
    (ctx : Option κ) {idx : List Nat} (hc : InCell e.hist.edges.axes xs idx) :
    HistEl.fill empty one g e c ctx =
      .ok { hist := { e.hist with bins := NArr.modifyAt (· + one) e.hist.bins idx },
            curContext := ctx.getD empty } := by
  rw [histEl_fill_eq, fill_exact_cell g hg hwf hp one hc]; rfl

/-- sentence (2) for the element -/
theorem elem_fill_out_of_range (empty : κ) (one : β) (g : Nat → Nat → Nat → Int) (hg : GuessesOK g)
    {e : HistEl α β κ} (hwf : WF e.hist) {c : Coord α} {xs : List α} (hp : Proper e.hist.edges c xs)
    (ctx : Option κ) (hno : ∀ idx, ¬ InCell e.hist.edges.axes xs idx) :
    HistEl.fill empty one g e c ctx =
      .ok { hist := { e.hist with nOut := e.hist.nOut + one }, curContext := ctx.getD empty } := by
  rw [histEl_fill_eq, fill_out_of_range g hg hwf hp one hno]; rfl

theorem sumW_toOps (one : β) (vals : List ((Nat → Nat → Nat → Int) × Coord α × Option κ)) :
    sumW ((toOps one vals).map (·.2.2)) = sumW (List.replicate vals.length one) := by
  induction vals with
  | nil => rfl
  | cons v vs ih => simp only [toOps, List.map_cons, sumW, List.length_cons, List.replicate_succ] at ih ⊢; rw [ih]

/-- **Sentence (5) for the element.**  After any flow of proper values (with or without contexts)
into `Histogram(edges)`, the bins of its histogram plus `n_out_of_range` sum to
(number of values) × (unit weight), and the current context is that of the last value. -/
theorem elem_weight_conserved (empty : κ) (one : β) {ed : Edges α} (he : ValidEdges ed)
    (vals : List ((Nat → Nat → Nat → Int) × Coord α × Option κ))
    (hv : ∀ v ∈ vals, GuessesOK v.1 ∧ ∃ xs, Proper ed v.2.1 xs) :
    ∃ e₀ e, HistEl.new empty ed none (0 : β) = .ok e₀ ∧ HistEl.fillAll empty one e₀ vals = .ok e ∧
      total e.hist.bins + e.hist.nOut = sumW (List.replicate vals.length one) ∧
      e.curContext = lastCtx empty empty vals := by
  have hops : OpsOK ed (toOps one vals) := by
    intro op hm
    obtain ⟨v, hvm, rfl⟩ := List.mem_map.1 hm
    exact hv v hvm
  obtain ⟨h₀, h, hm, hf, _, hn⟩ := weight_conserved (β := β) he (toOps one vals) hops
  refine ⟨{ hist := h₀, curContext := empty }, { hist := h, curContext := lastCtx empty empty vals }, ?_, ?_, ?_, rfl⟩
  · simp [HistEl.new, hm, bind, Except.bind, pure, Except.pure]
  · rw [histEl_fillAll_eq, hf]; rfl
  · simp only []; rw [hn, sumW_toOps]

end Elem

/-! ## non-vacuity: concrete instances of the hypotheses (tests, not theorems) -/
section Examples

/-- bisection as a guess function -/
def midGuess (lo hi : Nat) : Int := (((lo + hi) / 2 : Nat) : Int)

theorem midGuess_ok : GuessOK midGuess := by
  intro lo hi h; simp only [midGuess]; omega

/-- the guesses of the real code's worst case: always `ind_max` (rounding up to the end) -/
theorem hiGuess_ok : GuessOK (fun _ hi => (hi : Int)) := by
  intro lo hi h; simp only []; omega

def exArr : List Int := [0, 10, 40, 50, 70, 100]

theorem exArr_inc : StrictInc exArr := by unfold StrictInc exArr; decide

example : bin1d midGuess 45 exArr = .ok 2 := by
  rw [bin1d_spec midGuess _ (midGuess_ok.at _ _) exArr_inc (by decide)]; rfl
example : bin1d (fun _ hi => (hi : Int)) 45 exArr = .ok 2 := by
  rw [bin1d_spec _ _ (hiGuess_ok.at _ _) exArr_inc (by decide)]; rfl
example : bin1d (interpGuess exArr 45) 45 exArr = .ok 2 := by
  rw [bin1d_interp 45 exArr_inc (by decide)]; rfl
example : bin1d midGuess 100 exArr = .ok 5 := by
  rw [bin1d_spec midGuess _ (midGuess_ok.at _ _) exArr_inc (by decide)]; rfl
example : bin1d midGuess (-3) exArr = .ok (-1) := by
  rw [bin1d_spec midGuess _ (midGuess_ok.at _ _) exArr_inc (by decide)]; rfl

/-- a 3 × 2 mesh -/
def exEdges : Edges Int := .nested [[0, 1, 2, 4], [-3, 1, 6]]

theorem exEdges_valid : ValidEdges exEdges := by
  refine ⟨by simp [exEdges, Edges.axes], ?_⟩
  intro arr h
  simp only [exEdges, Edges.axes, List.mem_cons, List.not_mem_nil, or_false] at h
  rcases h with rfl | rfl <;> exact ⟨by decide, by unfold StrictInc; decide⟩

def exHist : Hist Int Int :=
  { edges := exEdges, bins := NArr.full [3, 2] 0, nOut := 0, dim := 2 }

theorem exHist_wf : WF exHist := ⟨exEdges_valid, hasShape_full 0 [3, 2]⟩

example : mkHist exEdges none (0 : Int) = .ok exHist := mkHist_valid exEdges_valid 0

theorem ex_proper : Proper exHist.edges (.tuple [3, 1]) [3, 1] := Proper.nested _ _ rfl

/-- the point (3, 1) lies in the cell (2, 1): `2 ≤ 3 < 4`, `1 ≤ 1 < 6` -/
theorem ex_inCell : InCell exHist.edges.axes [3, 1] [2, 1] :=
  ⟨⟨by decide, by decide, by decide⟩, ⟨by decide, by decide, by decide⟩, trivial⟩

example : fill (fun _ => midGuess) exHist (.tuple [3, 1]) 5 =
    .ok { exHist with bins := .node [.node [.leaf 0, .leaf 0], .node [.leaf 0, .leaf 0],
                                      .node [.leaf 0, .leaf 5]] } := by
  rw [fill_exact_cell _ (fun _ => midGuess_ok) exHist_wf ex_proper 5 ex_inCell]; rfl

/-- the point (3, 6) lies in no cell (the upper edge 6 is excluded) -/
theorem ex_noCell : ∀ idx, ¬ InCell exHist.edges.axes [3, 6] idx := by
  intro idx h
  have := ((inCell_iff _ _ idx (validEdges_strictInc exHist_wf.edges) rfl).1 h).1
  revert this; decide

example : fill (fun _ => midGuess) exHist (.tuple [3, 6]) 5 = .ok { exHist with nOut := 5 } := by
  rw [fill_out_of_range _ (fun _ => midGuess_ok) exHist_wf (Proper.nested _ _ rfl) 5 ex_noCell]; rfl

/-- a sequence satisfying the hypotheses of `weight_conserved` -/
def exOps : List ((Nat → Nat → Nat → Int) × Coord Int × Int) :=
  [(fun _ => midGuess, .tuple [3, 1], 5), (fun _ _ hi => hi, .tuple [3, 6], -2),
   (fun _ => midGuess, .tuple [0, -3], 7)]

theorem exOps_ok : OpsOK exEdges exOps := by
  intro op h
  simp only [exOps, List.mem_cons, List.not_mem_nil, or_false] at h
  rcases h with rfl | rfl | rfl
  · exact ⟨fun _ => midGuess_ok, _, Proper.nested _ _ rfl⟩
  · exact ⟨fun _ => hiGuess_ok, _, Proper.nested _ _ rfl⟩
  · exact ⟨fun _ => midGuess_ok, _, Proper.nested _ _ rfl⟩

example : ∃ h₀ h, mkHist exEdges none (0 : Int) = .ok h₀ ∧ fillAll h₀ exOps = .ok h ∧
    h.edges = exEdges ∧ total h.bins + h.nOut = 10 :=
  weight_conserved exEdges_valid exOps exOps_ok

/-- flat (one-dimensional) edges and a bare number as coordinate -/
example : Proper (.flat exArr) (.scalar (45 : Int)) [45] := Proper.flat _ _
example : ValidEdges (.flat exArr) :=
  ⟨by simp [Edges.axes], by
    intro arr h
    simp only [Edges.axes, List.mem_cons, List.not_mem_nil, or_false] at h
    subst h; exact ⟨by decide, exArr_inc⟩⟩

/-- invalid edges: a repeated edge -/
example : ¬ ValidEdges (.flat [0, 1, 1] : Edges Int) := by
  intro h
  have := (h.2 [0, 1, 1] (by simp [Edges.axes])).2
  revert this; unfold StrictInc; decide

/-- nested one-dimensional edges accept bins of the right length (fix 8d715e5) and reject `[]` -/
theorem ex1_valid : ValidEdges (.nested [[0, 1, 2]] : Edges Int) :=
  ⟨by simp [Edges.axes], by
    intro arr h
    simp only [Edges.axes, List.mem_cons, List.not_mem_nil, or_false] at h
    subst h; exact ⟨by decide, by unfold StrictInc; decide⟩⟩
example : mkHist (.nested [[0, 1, 2]] : Edges Int) (some (.node [.leaf 0, .leaf 0])) (0 : Int) =
    .ok { edges := .nested [[0, 1, 2]], bins := .node [.leaf 0, .leaf 0], nOut := 0, dim := 1 } := by
  rw [mkHist_bins ex1_valid]; rfl
example : mkHist (.nested [[0, 1, 2]] : Edges Int) (some (.node [])) (0 : Int) = .error .lenaValueError := by
  rw [mkHist_bins ex1_valid]; rfl
example : mkHist exEdges (some (.node [.leaf 0, .leaf 0, .leaf 0])) (0 : Int) =
    .ok { edges := exEdges, bins := .node [.leaf 0, .leaf 0, .leaf 0], nOut := 0, dim := 2 } := by
  rw [mkHist_bins exEdges_valid]; rfl

end Examples

end Lena.C06
