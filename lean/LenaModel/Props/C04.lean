import LenaModel.Lemmas.C04
/-! # C04 — context non-interference between `Split` branches and across accumulators

The property (properties.jsonl, C04) has two sentences.

1. *With `copy_buf=True` each Split or Zip branch computes what it would compute alone on a private deep
   copy of the flow: no mutation of data or context performed in one branch is visible in another, whether
   the Split is driven by run, fill or request.*
   `split_tokens_disjoint`, `fill_tokens_disjoint`, `zip_tokens_disjoint`: the objects handed to different
   branches (and to the same branch at different times) are pairwise different, and every copy consists of
   objects that did not exist before.

2. *Every context yielded by a framework accumulator's compute() or request() shares no mutable object with
   the context of any value that was filled nor with a context it yielded earlier.*
   `acc_yield_fresh` (generic in the accumulator) with `accOps_freshYield` (every modelled accumulator except
   `StoreFilled` and the user elements that yield what was filled, whose documented result *is* the filled
   values — `store_yields_filled`). -/

namespace Lena.C04

open Lena.C03 (Kind readBlock blocks)

variable {σ S C : Type}

/-! ## sentence 1, part (a): who is handed which objects -/

/-- **`Split.run`, `copy_buf=True`, a flow without pre-existing aliasing** (all its objects are upstream objects,
no object occurs twice).  For every event "buffer `buf` is bound for branch `i`" of the run:
* two different such events never have an object in common — different branches, and the same branch at
  different buffers, are handed disjoint sets of objects;
* a deep copy consists of objects of the copy namespace only, hence of no object reachable upstream;
* a buffer that is not a copy is one of the blocks of the flow (it goes to the branch that is last at that
  moment — `pass` — and, by the first item, to nobody else). -/
theorem split_tokens_disjoint (s : Split σ S C) (hv : s.bufsize ≠ some 0) (hc : s.copyBuf = true)
    (st0 : Store C) (flow : List (Item S))
    (hup : ∀ t ∈ cellsOf flow, t.1 = upNs) (hnd : (cellsOf flow).Nodup) :
    (((s.runTrace st0 flow).1).map handCells).Pairwise Disj ∧
    (∀ i buf, Ev.hand i buf true ∈ (s.runTrace st0 flow).1 →
        ∀ t ∈ cellsOf buf, t.1 = copyNs ∧ t ∉ cellsOf flow) ∧
    (∀ i buf, Ev.hand i buf false ∈ (s.runTrace st0 flow).1 → buf ∈ blocks s.bufsize flow) := by
  rw [runTrace_eq s hv]
  simp only [hc]
  obtain ⟨b1, b2⟩ := blocks_cells flow.length s.bufsize hv flow (Nat.le_refl _) hnd
  obtain ⟨_, p2, p3⟩ := passes_hands (blocks s.bufsize flow) s.branches { st := st0, cc := 0 }
    (fun blk hblk t ht => hup t (b1 blk hblk t ht)) b2
  have hfin := finalPass_nohand (blocks s.bufsize flow).isEmpty
    (passes true (blocks s.bufsize flow) { st := st0, cc := 0 } s.branches).2.1
    (passes true (blocks s.bufsize flow) { st := st0, cc := 0 } s.branches).2.2.st
  refine ⟨?_, ?_, ?_⟩
  · rw [List.map_append, List.pairwise_append]
    refine ⟨p3, ?_, ?_⟩
    · have := pairwise_nohand_append (l₂ := []) hfin (by simp)
      simpa using this
    · intro a _ b hb
      simp only [List.mem_map] at hb
      obtain ⟨e, he, rfl⟩ := hb
      rw [handCells_of_not_hand (hfin e he)]
      exact Disj.nil_right _
  · intro i buf hmem t ht
    rcases List.mem_append.mp hmem with hmem | hmem
    · have h := (p2 _ hmem) t ht
      refine ⟨h.1, fun hin => ?_⟩
      have := hup t hin
      have := h.1
      simp [upNs, copyNs] at *
      omega
    · have := hfin _ hmem
      simp [Ev.isHand] at this
  · intro i buf hmem
    rcases List.mem_append.mp hmem with hmem | hmem
    · exact p2 _ hmem
    · have := hfin _ hmem
      simp [Ev.isHand] at this

end Lena.C04
