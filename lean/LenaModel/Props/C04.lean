import LenaModel.Lemmas.C04
