import LenaModel.Lemmas.C04
import LenaModel.Lemmas.C04Alone
import LenaModel.Lemmas.C04Local
import LenaModel.Lemmas.C04Fill
import LenaModel.Lemmas.C04Purpose
import LenaModel.Lemmas.C04Hist
/-! # C04 — context non-interference between `Split` branches and across accumulators

The property (properties.jsonl, C04) has two sentences.

1. *With `copy_buf=True` each Split or Zip branch computes what it would compute alone on a private deep
   copy of the flow: no mutation of data or context performed in one branch is visible in another, whether
   the Split is driven by run, fill or request.*
   (a) `split_tokens_disjoint`, `fill_tokens_disjoint`, `zip_tokens_disjoint`: the objects handed to different
   branches (and to the same branch at different times) are pairwise different, and every copy consists of
   objects that did not exist before.
   (b) `branch_alone_equiv` (`Split.run`): under locality of mutation (`Local`), the complete event trace of every
   branch inside the `Split` — what it is handed, every invocation, every yielded value with the contents of its
   objects — is the trace of that branch run alone on private deep copies (or, for the last active branch, on the
   original values).  `split_fill_alone_equiv` (`Split._fill` + `_compute`/`_request`) and `zip_fill_alone_equiv`
   (`Zip._fill` + `compute`/`request` of the sequences): the same for the filling events *and* for what the branch
   then yields.  `harness_branches_local` proves `Local` for every branch of the executable model, so
   `harness_branch_alone_equiv` holds without any locality hypothesis.
   Exceptions: the model of `Split` goes on after an invocation that returns an exception (`Resp.err`), the real
   run ends; `harness_branch_alone_equiv` is therefore restricted to accumulators that cannot raise (`canErr`),
   and `harness_no_exception` shows that then no invocation returns an exception.  For the generic theorems the
   absence of exceptions other than `LenaStopFill` is an assumption (ASSUMPTIONS of the harness module).

2. *Every context yielded by a framework accumulator's compute() or request() shares no mutable object with
   the context of any value that was filled nor with a context it yielded earlier, so downstream in-place updates
   can corrupt neither the source data nor later results.*
   Identity: `acc_yield_fresh` (generic in the accumulator, all histories) with the instances `accOps_freshYield`
   (every modelled framework accumulator, including those that yield several values per `compute()`),
   `fcseq_freshYield` (such an accumulator behind other elements), `zip_compute_fresh` (`Zip` of accumulators);
   `split_hist_fresh` (`Split` through its common-type methods, all histories; `split_compute_fresh` one call of
   `collect`).  Excluded by specification: `StoreFilled`, `GroupBy` and the user elements that yield what was
   filled (`store_yields_filled`, `store_yields_what_was_filled`, `storeGroup_yields_what_was_filled`,
   `groupBy_yields_internal`).
   Purpose clause: `downstream_updates_harmless` — in every history, in-place updates confined to the objects of
   values yielded earlier change no response and no content of any later result (`downstream_updates_harmless_gen`
   for any accumulator that is local, allocates what it yields and keeps no reference to it: `Tidy`).
   Not modelled (real-code oracle only): the `FillRequest` adapter, whose `request()` yields values computed during
   an earlier `fill` (output buffer). -/

namespace Lena.C04

open Lena.C03 (Kind readBlock blocks)
open Lena.Flow (Value)

variable {σ S C : Type}

/-! ## sentence 1, part (a): who is handed which objects -/

/-- **`Split.run`, `copy_buf=True`, a flow without pre-existing aliasing** (all its objects are upstream objects,
no object occurs twice).  For every event "buffer `buf` is bound for branch `i`" of the run:
* two different such events never have an object in common — different branches, and the same branch at
  different buffers, are handed disjoint sets of objects;
* a deep copy consists of objects of the copy namespace only, hence of no object reachable upstream;
* a buffer that is not a copy is one of the blocks of the flow (it goes to the branch that is last at that
  moment — `pass` — and, by the first item, to nobody else). -/
theorem split_tokens_disjoint (s : Split σ S C) (hv : s.bufsize ≠ some 0) (hc : s.copyBuf = true)
    (st0 : Store C) (flow : List (Item S))
    (hup : ∀ t ∈ cellsOf flow, t.1 = upNs) (hnd : (cellsOf flow).Nodup) :
    (((s.runTrace st0 flow).1).map handCells).Pairwise Disj ∧
    (∀ i buf, Ev.hand i buf true ∈ (s.runTrace st0 flow).1 →
        ∀ t ∈ cellsOf buf, t.1 = copyNsOf i ∧ t ∉ cellsOf flow) ∧
    (∀ i buf, Ev.hand i buf false ∈ (s.runTrace st0 flow).1 → buf ∈ blocks s.bufsize flow) := by
  rw [runTrace_eq s hv]
  simp only [hc]
  obtain ⟨b1, b2⟩ := blocks_cells flow.length s.bufsize hv flow (Nat.le_refl _) hnd
  obtain ⟨_, p2, p3⟩ := passes_hands (blocks s.bufsize flow) s.branches { st := st0, cc := 0 }
    (fun blk hblk t ht => hup t (b1 blk hblk t ht)) b2
  have hfin := finalPass_nohand (blocks s.bufsize flow).isEmpty
    (passes true (blocks s.bufsize flow) { st := st0, cc := 0 } s.branches).2.1
    (passes true (blocks s.bufsize flow) { st := st0, cc := 0 } s.branches).2.2.st
  refine ⟨?_, ?_, ?_⟩
  · rw [List.map_append, List.pairwise_append]
    refine ⟨p3, ?_, ?_⟩
    · have := pairwise_nohand_append (l₂ := []) hfin (by simp)
      simpa using this
    · intro a _ b hb
      simp only [List.mem_map] at hb
      obtain ⟨e, he, rfl⟩ := hb
      rw [handCells_of_not_hand (hfin e he)]
      exact Disj.nil_right _
  · intro i buf hmem t ht
    rcases List.mem_append.mp hmem with hmem | hmem
    · have h := (p2 _ hmem) t ht
      refine ⟨h.1, fun hin => ?_⟩
      have := hup t hin
      have := h.1
      simp [upNs, copyNsOf] at *
      omega
    · have := hfin _ hmem
      simp [Ev.isHand] at this
  · intro i buf hmem
    rcases List.mem_append.mp hmem with hmem | hmem
    · exact p2 _ hmem
    · have := hfin _ hmem
      simp [Ev.isHand] at this

/-- **`Split` driven by `fill`** (`Split._fill`, `copy_buf=True`): filling an alias-free flow value by value, two
different "value bound for a branch" events never share an object; a copy consists of new objects of the
copy namespace; a value that is not a copy is a value of the flow (handed to the last branch only). -/
theorem fill_tokens_disjoint (brs : List (Branch σ S C)) (w : World C) (flow : List (Item S))
    (hup : ∀ t ∈ cellsOf flow, t.1 = upNs) (hnd : (cellsOf flow).Nodup) :
    ((fillFlow (splitFill true) w brs flow).evs.map handCells).Pairwise Disj ∧
    (∀ i buf, Ev.hand i buf true ∈ (fillFlow (splitFill true) w brs flow).evs →
        ∀ t ∈ cellsOf buf, t.1 = copyNsOf i ∧ w.cc ≤ t.2 ∧ t ∉ cellsOf flow) ∧
    (∀ i buf, Ev.hand i buf false ∈ (fillFlow (splitFill true) w brs flow).evs → ∃ x ∈ flow, buf = [x]) := by
  obtain ⟨_, h2, h3⟩ := fillFlow_hands (splitFill true) (fun x => [[x]]) (by intro x a ha; simpa using ha)
    (fun x hx brs w => splitFill_hands x hx brs w) flow brs w hup hnd
  refine ⟨h3, ?_, ?_⟩
  · intro i buf hmem t ht
    have h := (h2 _ hmem) t ht
    refine ⟨h.1, h.2.1, fun hin => ?_⟩
    have := hup t hin
    have := h.1
    simp [upNs, copyNsOf] at *
    omega
  · intro i buf hmem
    have h := h2 _ hmem
    simp only [handOK, List.mem_flatMap, List.mem_cons, List.not_mem_nil, or_false] at h
    obtain ⟨x, hx, rfl⟩ := h
    exact ⟨x, hx, rfl⟩

/-- **`Zip._fill`**: every branch is handed a deep copy; no two of these copies share an object, and none
contains an object of the flow. -/
theorem zip_tokens_disjoint (brs : List (Branch σ S C)) (w : World C) (flow : List (Item S))
    (hup : ∀ t ∈ cellsOf flow, t.1 = upNs) (hnd : (cellsOf flow).Nodup) :
    ((fillFlow zipFill w brs flow).evs.map handCells).Pairwise Disj ∧
    (∀ i buf c, Ev.hand i buf c ∈ (fillFlow zipFill w brs flow).evs →
        c = true ∧ ∀ t ∈ cellsOf buf, t.1 = copyNsOf i ∧ w.cc ≤ t.2 ∧ t ∉ cellsOf flow) := by
  obtain ⟨_, h2, h3⟩ := fillFlow_hands zipFill (fun _ => []) (by intro x a ha; simp at ha)
    (fun x _ brs w => zipFill_hands x brs w) flow brs w hup hnd
  refine ⟨h3, ?_⟩
  intro i buf c hmem
  have h := h2 _ hmem
  cases c with
  | false => simp [handOK] at h
  | true =>
    refine ⟨rfl, fun t ht => ?_⟩
    have h := h t ht
    refine ⟨h.1, h.2.1, fun hin => ?_⟩
    have := hup t hin
    have := h.1
    simp [upNs, copyNsOf] at *
    omega

/-! ## sentence 1, part (b): every branch computes what it would compute alone -/

/-- **Each branch computes what it would compute alone on a private deep copy of the flow** (`Split.run`,
`copy_buf=True`, a flow without pre-existing aliasing, every `bufsize`).  Hypotheses on the branches: their
numbers are distinct, every branch is `Local` (it reads and mutates only objects of its own namespace, objects
its state refers to and objects it is passed — the locality assumption of the trusted base), and initially
refers to its own objects only.  Then for every branch `b` there is a *schedule*: for each successive block of
the flow (until the branch is dropped) a buffer that is either a deep copy of the block consisting of objects
created for this branch (`SchedOK`), or the block itself, such that **the events of `b` inside the `Split`**
— the buffers it is handed, every `fill`/`compute`/`request`/`run` invocation with its arguments and outcome,
every value yielded on its behalf with the contents of its objects at that moment — **are exactly the events of
`b` run alone** (`aloneTrace`: no other branch exists; every copied buffer holds the contents that the block had
when the run started, `preload`).  In particular no mutation of data or context performed in another branch is
visible in `b`. -/
theorem branch_alone_equiv (s : Split σ S C) (hv : s.bufsize ≠ some 0) (hc : s.copyBuf = true)
    (st0 : Store C) (flow : List (Item S))
    (hup : ∀ t ∈ cellsOf flow, t.1 = upNs) (hnd : (cellsOf flow).Nodup)
    (hids : (s.branches.map (·.id)).Nodup)
    (hloc : ∀ b ∈ s.branches, Local b.ops (ownNs b.id))
    (hrefs : ∀ b ∈ s.branches, ∀ t ∈ b.ops.refs b.st, t.1 = ownNs b.id)
    (b : Branch σ S C) (hb : b ∈ s.branches) :
    ∃ sched : List (List (Item S) × List (Item S) × Bool),
      sched.map (·.1) = (blocks s.bufsize flow).take sched.length ∧ (∀ e ∈ sched, SchedOK b.id e) ∧
      proj b.id (s.runTrace st0 flow).1 = aloneTrace st0 b sched (blocks s.bufsize flow).isEmpty := by
  obtain ⟨bc1, bc2⟩ := blocks_cells flow.length s.bufsize hv flow (Nat.le_refl _) hnd
  obtain ⟨pre, suf, hsplit⟩ := List.append_of_mem hb
  have hothers : ∀ b' ∈ pre ++ suf, b'.id ≠ b.id := by
    intro b' hb' heq
    rw [hsplit, List.map_append, List.map_cons, List.nodup_append] at hids
    obtain ⟨_, h2, h3⟩ := hids
    rw [List.nodup_cons] at h2
    rcases List.mem_append.mp hb' with hb' | hb'
    · exact h3 b'.id (List.mem_map_of_mem hb') b.id (List.mem_cons_self ..) heq
    · exact h2.1 (by rw [← heq]; exact List.mem_map_of_mem hb')
  have hfup : ∀ t ∈ (blocks s.bufsize flow).flatMap cellsOf, t.1 = upNs := by
    intro t ht
    simp only [List.mem_flatMap] at ht
    obtain ⟨blk, hblk, ht⟩ := ht
    exact hup t (bc1 blk hblk t ht)
  have hsim : Sim b.id st0 [] ((blocks s.bufsize flow).flatMap cellsOf) { st := st0, cc := 0 } s.branches st0 b := by
    refine ⟨⟨pre, suf, hsplit, ?_⟩, rfl, hloc b hb, ?_, by simp, hfup, fun t _ => ⟨rfl, rfl⟩, fun t _ => rfl⟩
    · intro b' hb'
      have hmem : b' ∈ s.branches := by
        rw [hsplit]
        rcases List.mem_append.mp hb' with h | h
        · exact List.mem_append_left _ h
        · exact List.mem_append_right _ (List.mem_cons_of_mem _ h)
      have nf := ns_facts b'.id b.id
      refine ⟨hothers b' hb', hloc b' hmem, fun t ht => ?_⟩
      have hns := hrefs b' hmem t ht
      refine ⟨fun hp => ?_, fun hf => nf.2.2.2.1 (by rw [← hns, hfup t hf])⟩
      rcases hp with hp | hp | hp
      · exact hothers b' hb' (nf.1.mp (by rw [← hns, hp]))
      · exact nf.2.2.1 (by rw [← hns, hp])
      · simp at hp
    · intro t ht
      exact Or.inl (hrefs b hb t ht)
  obtain ⟨sched, r1, r2, r3, r4, r5⟩ := passes_sim b.id st0 (blocks s.bufsize flow) [] { st := st0, cc := 0 }
    s.branches st0 b hsim bc2
  refine ⟨sched, r1, r2, ?_⟩
  rw [runTrace_eq s hv]
  simp only [hc, aloneTrace]
  rw [proj_append, r3]
  congr 1
  cases hfin : (aloneLife st0 st0 (some b) sched).2.2 with
  | none => exact finalPass_no_i b.id _ _ _ (r5 hfin)
  | some b1 =>
    obtain ⟨_, Ui', hs⟩ := r4 b1 hfin
    simp only
    apply finalPass_sim b.id st0 Ui' _ _ _ _ b1 hs
    intro b' hb'
    cases hbl : (blocks s.bufsize flow) with
    | nil => exact Or.inl rfl
    | cons blk rest =>
      refine Or.inr (passes_nosource (blocks s.bufsize flow) s.branches { st := st0, cc := 0 } (by simp [hbl]) b' hb')


/-- **… whether the Split is driven by run, fill or request: `Split._fill` + `Split._compute`/`_request`**
(`copy_buf=True`).  Filling an alias-free flow value by value (the caller stops at the first `LenaStopFill`), under
the hypotheses of `branch_alone_equiv`: for every branch `b` there is a schedule — for a prefix of the flow, what
`b` was handed for each value: a deep copy made of objects created for `b`, or the value itself (`FillOK`) — such
that
* the events of `b` during the filling (what it was handed, every `fill` and its outcome) are exactly those of
  `b` filled alone (`aloneFillLife`: every copy holds what the value held at the start), and
* **what `b` then yields** in `Split._compute()` / `Split._request()` (`collect`: every branch in turn, each value
  with the contents of its objects at that moment) **is exactly what `b` yields alone** — the same invocation on
  the state and the heap that the alone run ended in.
No mutation of data or context performed in another branch, before or after, is visible in it. -/
theorem split_fill_alone_equiv (brs : List (Branch σ S C)) (w : World C) (flow : List (Item S))
    (hup : ∀ t ∈ cellsOf flow, t.1 = upNs) (hnd : (cellsOf flow).Nodup)
    (hids : (brs.map (·.id)).Nodup) (hloc : ∀ b ∈ brs, Local b.ops (ownNs b.id))
    (hrefs : ∀ b ∈ brs, ∀ t ∈ b.ops.refs b.st, t.1 = ownNs b.id) (b : Branch σ S C) (hb : b ∈ brs) :
    ∃ sched : List (Item S × Item S × Bool),
      sched.map (·.1) = flow.take sched.length ∧ (∀ e ∈ sched, FillOK b.id e) ∧
      proj b.id (fillFlow (splitFill true) w brs flow).evs = (aloneFillLife w.st w.st b sched).1 ∧
      ∀ (req : Req S) (ev : Nat → Ev S C), req.cells = [] → (∀ j, (ev j).branch = some j) →
        proj b.id (collect req ev (fillFlow (splitFill true) w brs flow).w.st (fillFlow (splitFill true) w brs flow).brs).1 =
          ev b.id :: outsEv b.id
            ((aloneFillLife w.st w.st b sched).2.2.1.ops.act (aloneFillLife w.st w.st b sched).2.1
              (aloneFillLife w.st w.st b sched).2.2.1.st req).1
            ((aloneFillLife w.st w.st b sched).2.2.1.ops.act (aloneFillLife w.st w.st b sched).2.1
              (aloneFillLife w.st w.st b sched).2.2.1.st req).2.2.outs := by
  rw [fillFlow_congr (splitFill true) (fillG true) (fun x w brs => splitFill_eq x brs w)]
  exact fillG_alone true brs w flow hup hnd hids hloc hrefs b hb

/-- **`Zip._fill`** followed by `compute()`/`request()` of the sequences in turn: the same for the branches of a
`Zip`, each of which is handed a deep copy of every value. -/
theorem zip_fill_alone_equiv (brs : List (Branch σ S C)) (w : World C) (flow : List (Item S))
    (hup : ∀ t ∈ cellsOf flow, t.1 = upNs) (hnd : (cellsOf flow).Nodup)
    (hids : (brs.map (·.id)).Nodup) (hloc : ∀ b ∈ brs, Local b.ops (ownNs b.id))
    (hrefs : ∀ b ∈ brs, ∀ t ∈ b.ops.refs b.st, t.1 = ownNs b.id) (b : Branch σ S C) (hb : b ∈ brs) :
    ∃ sched : List (Item S × Item S × Bool),
      sched.map (·.1) = flow.take sched.length ∧ (∀ e ∈ sched, FillOK b.id e) ∧
      proj b.id (fillFlow zipFill w brs flow).evs = (aloneFillLife w.st w.st b sched).1 ∧
      ∀ (req : Req S) (ev : Nat → Ev S C), req.cells = [] → (∀ j, (ev j).branch = some j) →
        proj b.id (collect req ev (fillFlow zipFill w brs flow).w.st (fillFlow zipFill w brs flow).brs).1 =
          ev b.id :: outsEv b.id
            ((aloneFillLife w.st w.st b sched).2.2.1.ops.act (aloneFillLife w.st w.st b sched).2.1
              (aloneFillLife w.st w.st b sched).2.2.1.st req).1
            ((aloneFillLife w.st w.st b sched).2.2.1.ops.act (aloneFillLife w.st w.st b sched).2.1
              (aloneFillLife w.st w.st b sched).2.2.1.st req).2.2.outs := by
  rw [fillFlow_congr zipFill (fillG false) (fun x w brs => zipFill_eq x brs w)]
  exact fillG_alone false brs w flow hup hnd hids hloc hrefs b hb

/-- **Every branch of the executable model is local**: the hypothesis `Local` of `branch_alone_equiv` holds for
every harness branch, whatever its elements and its accumulator (re-export of `hOps_local`). -/
theorem harness_branches_local (ns : Nat) (sp : BSpec) : Local (hOps ns sp) ns := hOps_local ns sp

theorem mkBranches_spec : ∀ (specs : List BSpec) (start : Nat),
    (∀ b ∈ mkBranches start specs, start ≤ b.id ∧ b.st = {} ∧ ∃ sp ∈ specs, b.ops = hOps (ownNs b.id) sp) ∧
    ((mkBranches start specs).map (·.id)).Nodup := by
  intro specs
  induction specs with
  | nil => intro start; simp [mkBranches]
  | cons sp rest ih =>
    intro start
    obtain ⟨i1, i2⟩ := ih (start + 1)
    refine ⟨?_, ?_⟩
    · intro b hb
      simp only [mkBranches, List.mem_cons] at hb
      rcases hb with rfl | hb
      · exact ⟨Nat.le_refl _, rfl, sp, List.mem_cons_self .., rfl⟩
      · obtain ⟨a1, a2, sp', hsp', a3⟩ := i1 b hb
        exact ⟨by omega, a2, sp', List.mem_cons_of_mem _ hsp', a3⟩
    · simp only [mkBranches, List.map_cons, List.nodup_cons]
      refine ⟨?_, i2⟩
      intro hmem
      simp only [List.mem_map] at hmem
      obtain ⟨b, hb, hid⟩ := hmem
      have := (i1 b hb).1
      omega

/-- **The branches of the executable model compute what they would compute alone.**  `branch_alone_equiv`
instantiated with the branches of a harness case (any list of branch specifications: sources, fill/compute,
fill/request and plain sequences built from `Variable`, `UpdateContext`, `MakeFilename`, `Count`, `Slice`, the
user mutators and any accumulator): the locality hypothesis is discharged by `hOps_local`.

Scope: the model of `Split.run` goes on after an invocation that returns an exception (`Resp.err`), the code
does not; `hne` restricts the theorem to branch lists whose accumulators cannot raise (`harness_no_exception`:
then no invocation of the run returns an exception, so the modelled run is the run of the code).  Numeric
accumulators are assumed to be filled with integers (`dataInt`). -/
theorem harness_branch_alone_equiv (specs : List BSpec) (_hne : ∀ sp ∈ specs, sp.term.canErr = false)
    (bufsize : Option Nat) (hv : bufsize ≠ some 0)
    (st0 : Store Value) (flow : List HItem)
    (hup : ∀ t ∈ cellsOf flow, t.1 = upNs) (hnd : (cellsOf flow).Nodup)
    (b : Branch HSt Skel Value) (hb : b ∈ mkBranches 0 specs) :
    ∃ sched : List (List HItem × List HItem × Bool),
      sched.map (·.1) = (blocks bufsize flow).take sched.length ∧ (∀ e ∈ sched, SchedOK b.id e) ∧
      proj b.id ((Split.runTrace { branches := mkBranches 0 specs, bufsize := bufsize, copyBuf := true } st0 flow).1) =
        aloneTrace st0 b sched (blocks bufsize flow).isEmpty := by
  obtain ⟨h1, h2⟩ := mkBranches_spec specs 0
  refine branch_alone_equiv { branches := mkBranches 0 specs, bufsize := bufsize, copyBuf := true } hv rfl st0 flow
    hup hnd h2 ?_ ?_ b hb
  · intro b' hb'
    obtain ⟨_, _, sp, _, hops⟩ := h1 b' hb'
    rw [hops]
    exact hOps_local _ _
  · intro b' hb' t ht
    obtain ⟨_, hst, sp, _, hops⟩ := h1 b' hb'
    rw [hops, hst] at ht
    simp [hOps, AccSt.refs, cellsOf, groupsCells] at ht


/-- no invocation on a branch whose accumulator cannot raise returns an exception (the only exception a modelled
branch raises is then `LenaStopFill`, which `Split` handles) -/
theorem harness_no_exception (specs : List BSpec) (hne : ∀ sp ∈ specs, sp.term.canErr = false)
    (b : Branch HSt Skel Value) (hb : b ∈ mkBranches 0 specs) (st : Store Value) (s : HSt) (r : Req Skel) :
    (b.ops.act st s r).2.2.err = none := by
  obtain ⟨_, _, sp, hsp, hops⟩ := (mkBranches_spec specs 0).1 b hb
  rw [hops]
  exact hOps_noerr _ sp (hne sp hsp) st s r

/-! ## non-vacuity: a concrete instance of every hypothesis -/

/-- three branches that mutate the context in place, the first stopped by `Slice(1)` in the middle of a buffer -/
def demoSpecs : List BSpec :=
  [ { kind := .fillCompute, steps := [.tag "a", .var "x", .stop 1], term := .sum, srcN := 0 },
    { kind := .fillCompute, steps := [.tag "b"], term := .store, srcN := 0 },
    { kind := .sequence, steps := [.upd "k" 1, .count "c"], term := .store, srcN := 0 } ]

/-- a flow of three values, each with its own context object -/
def demoFlow : List HItem :=
  [mkItem (.int 0) (some (upNs, 0)), mkItem (.int 1) (some (upNs, 1)), mkItem (.int 2) (some (upNs, 2))]

def demoSplit (bufsize : Option Nat) : Split HSt Skel Value :=
  { branches := mkBranches 0 demoSpecs, bufsize := bufsize, copyBuf := true }

/-- the hypotheses of `split_tokens_disjoint` and `branch_alone_equiv` hold for the demo, and in the run with
`bufsize=2` the objects handed to the branches are: copies `(3, ·)`, `(5, ·)` for branches 0 and 1, the
originals `(0, ·)` for the last branch; after branch 0 was dropped, in the second block branch 1 gets a copy
and branch 2 the original -/
example :
    (∀ t ∈ cellsOf demoFlow, t.1 = upNs) ∧ (cellsOf demoFlow).Nodup ∧
    (((demoSplit (some 2)).runTrace (fun _ => .dict []) demoFlow).1.map handCells).filter (· ≠ []) =
      [[(3, 0), (3, 1)], [(5, 2), (5, 3)], [(0, 0), (0, 1)], [(5, 4)], [(0, 2)]] := by
  decide

example : ∀ b ∈ (demoSplit (some 2)).branches, ∃ sched : List (List HItem × List HItem × Bool),
    sched.map (·.1) = (blocks (some 2) demoFlow).take sched.length ∧ (∀ e ∈ sched, SchedOK b.id e) ∧
    proj b.id ((demoSplit (some 2)).runTrace (fun _ => .dict []) demoFlow).1 =
      aloneTrace (fun _ => .dict []) b sched (blocks (some 2) demoFlow).isEmpty :=
  fun b hb => harness_branch_alone_equiv demoSpecs (by decide) (some 2) (by decide) _ demoFlow (by decide) (by decide) b hb



/-- the hypotheses of `split_fill_alone_equiv` / `zip_fill_alone_equiv` hold for the two fill/compute branches
of the demo -/
example (b : Branch HSt Skel Value) (hb : b ∈ mkBranches 0 (demoSpecs.take 2)) :=
  split_fill_alone_equiv (mkBranches 0 (demoSpecs.take 2)) { st := fun _ => .dict [], cc := 0 } demoFlow
    (by decide) (by decide) (mkBranches_spec (demoSpecs.take 2) 0).2
    (by
      intro b' hb'
      obtain ⟨_, _, sp, _, hops⟩ := (mkBranches_spec (demoSpecs.take 2) 0).1 b' hb'
      rw [hops]; exact hOps_local _ _)
    (by
      intro b' hb' t ht
      obtain ⟨_, hst, sp, _, hops⟩ := (mkBranches_spec (demoSpecs.take 2) 0).1 b' hb'
      rw [hops, hst] at ht
      simp [hOps, AccSt.refs, cellsOf, groupsCells] at ht)
    b hb

/-! ## sentence 2: what an accumulator yields is new -/

/-- every modelled framework accumulator (`Sum`, `DSum`, `Count`, `Mean` with and without `sum_seq`,
`VarianceMeanCount`, `Vectorize`, `Histogram`, `SplitIntoBins`) allocates what it yields; excluded are those
that yield the filled values by specification -/
theorem accOps_freshYield (ns : Nat) (k : AccKind) (hk : k.fresh = true) :
    FreshYield (accOps ns k) ns (fun s : HSt => s.ctr) :=
  accOps_freshYield' ns k hk

/-- the same for a `FillComputeSeq` / `FillRequestSeq`: any modelled elements (`Variable`, `UpdateContext`,
`MakeFilename`, `Count`, `Slice`, user mutators) in front of such an accumulator — so `acc_yield_fresh` covers the
histories of these sequences too -/
theorem fcseq_freshYield (ns : Nat) (sp : BSpec) (hk : sp.term.fresh = true) :
    FreshYield (hOps ns sp) ns (fun s : HSt => s.ctr) :=
  hOps_freshYield' ns sp hk

/-- **Every context yielded by an accumulator's `compute()`/`request()` is new.**  For every accumulator whose
methods allocate what they yield (`FreshYield`; `accOps_freshYield`: all modelled framework accumulators), for
every history of `fill`/`compute`/`request` invocations interleaved with arbitrary changes `ext f` of the heap
by the rest of the program (in-place mutation of anything yielded or filled) and with state changes `upd g`
that allocate nothing (`reset()`), in which the values passed to
`fill` exist when they are passed (`hin`: an object of the accumulator's own namespace has a serial below the
current allocation counter — a filled value may well be an earlier result): the objects of the values yielded
by an invocation `e`
* are pairwise different (two values of one `compute()` do not share a context),
* are not objects of any value filled before, and
* are not objects of any value yielded before. -/
theorem acc_yield_fresh (ops : Ops σ S C) (ns : Nat) (ctr : σ → Nat) (hF : FreshYield ops ns ctr)
    (h : List (HOp σ S C)) (st : Store C) (s : σ)
    (hacc : ∀ r, HOp.req r ∈ h → r.isAcc = true)
    (hupd : ∀ g, HOp.upd g ∈ h → ∀ s, ctr s ≤ ctr (g s))
    (hin : ∀ e ∈ runHist ops ctr st s h, ∀ t ∈ e.req.cells, t.1 = ns → t.2 < e.ctr)
    (pre : List (HEv S)) (e : HEv S) (post : List (HEv S)) (heq : runHist ops ctr st s h = pre ++ e :: post) :
    (cellsOf e.resp.outs).Nodup ∧
    ∀ t ∈ cellsOf e.resp.outs, ∀ e' ∈ pre, t ∉ e'.req.cells ∧ t ∉ cellsOf e'.resp.outs := by
  obtain ⟨h1, _, h3⟩ := acc_yield_fresh_aux ops ns ctr hF h st s hacc hupd hin pre e post heq
  exact ⟨h1, h3⟩

/-- non-vacuity: `Count("n")`, filled with two upstream values and computed twice, the first result mutated in
between; the hypotheses hold and the two results are different objects, both different from what was filled -/
example :
    let ops := accOps (ownNs 0) (.count "n")
    let x : HItem := mkItem (.int 1) (some (upNs, 0))
    let y : HItem := mkItem (.int 2) (some (upNs, 1))
    let h : List (HOp HSt Skel Lena.Flow.Value) :=
      [.req (.fill x), .req (.fill y), .req .compute, .ext (fun st => st.set (ownNs 0, 0) (.dict [])), .req .compute]
    (runHist ops (fun s : HSt => s.ctr) (fun _ => .dict []) {} h).map (fun e => cellsOf e.resp.outs)
      = [[], [], [(2, 0)], [(2, 1)]] := by
  decide

/-- non-vacuity of `acc_yield_fresh`: `Mean(Split([Sum(), Count("n")]))` (two values per `compute()`), filled with
two upstream values, computed, the first result mutated in place, computed again, and then filled with its own
first result: all hypotheses hold -/
example :
    let ops := accOps (ownNs 0) (.mean (some (.sumCount "n")) false)
    let x : HItem := mkItem (.int 1) (some (upNs, 0))
    let y : HItem := mkItem (.int 3) (some (upNs, 1))
    let z : HItem := mkItem (.int 2) (some (ownNs 0, 0))
    let h : List (HOp HSt Skel Value) :=
      [.req (.fill x), .req (.fill y), .req .compute,
       .ext (fun st => st.set (ownNs 0, 0) (.dict [("output", .str "f")])), .req .compute, .req (.fill z)]
    (∀ r, HOp.req r ∈ h → r.isAcc = true) ∧
    (∀ e ∈ runHist ops (fun s : HSt => s.ctr) (fun _ => .dict [("k", .int 1)]) {} h,
      ∀ t ∈ e.req.cells, t.1 = ownNs 0 → t.2 < e.ctr) ∧
    (runHist ops (fun s : HSt => s.ctr) (fun _ => .dict [("k", .int 1)]) {} h).map (fun e => cellsOf e.resp.outs)
      = [[], [], [(2, 0), (2, 1)], [(2, 2), (2, 3)], []] := by
  refine ⟨?_, by decide, by decide⟩
  intro r hr
  simp only [List.mem_cons, HOp.req.injEq, List.not_mem_nil, or_false, reduceCtorEq, false_or] at hr
  rcases hr with rfl | rfl | rfl | rfl | rfl <;> rfl

/-- non-vacuity with `reset()`: `Sum`, filled, computed, reset (`upd`: the state changes, the allocation counter
does not), filled with a bare value, computed (no context), filled, computed: the hypotheses hold, and the
contexts yielded before and after the reset are different new objects -/
example :
    let ops := accOps (ownNs 0) .sum
    let x : HItem := mkItem (.int 1) (some (upNs, 0))
    let y : HItem := mkItem (.int 3) none
    let h : List (HOp HSt Skel Value) :=
      [.req (.fill x), .req .compute, .upd (fun s => { s with acc := accReset s.acc }), .req (.fill y), .req .compute,
       .req (.fill x), .req .compute]
    (∀ g, HOp.upd g ∈ h → ∀ s : HSt, s.ctr ≤ (g s).ctr) ∧
    (runHist ops (fun s : HSt => s.ctr) (fun _ => .dict [("k", .int 1)]) {} h).map (fun e => cellsOf e.resp.outs)
      = [[], [(2, 0)], [], [], [], [(2, 2)]] := by
  refine ⟨?_, by decide⟩
  intro g hg s
  simp only [List.mem_cons, HOp.upd.injEq, List.not_mem_nil, or_false, reduceCtorEq, false_or] at hg
  subst hg
  exact Nat.le_refl _

/-! ## sentence 2, the purpose clause: downstream in-place updates corrupt neither the source data nor later
results -/

/-- the framework accumulators keep no reference to a context they have yielded (and refer only to allocated
objects) -/
theorem accOps_tidy_instance (ns : Nat) (k : AccKind) (hk : k.fresh = true) :
    Tidy (accOps ns k) ns (fun s : HSt => s.ctr) := accOps_tidy ns k hk

/-- **Downstream in-place updates of yielded values corrupt neither the source data nor later results.**  For
every modelled framework accumulator that allocates what it yields (`k.fresh`), from every state that refers
only to allocated objects, and for every history `h` of `fill`/`compute`/`request` invocations, `reset()`s
(`upd`) and *downstream updates* `ext f` — arbitrary changes of the heap confined to the objects of the values
yielded earlier in this history (`Downstream`: every `f` is the identity outside the yielded objects; the values
filled exist and are not themselves earlier results): what downstream observes — the response of every
invocation (values yielded, flag, exception) and the contents of the objects of the yielded values at the moment
they are yielded — is **the same as in the history without the updates** (`stripExt`).

That the updates cannot reach the *source data* is their confinement to yielded objects together with
`acc_yield_fresh`: no object of a yielded value is an object of any value filled before. -/
theorem downstream_updates_harmless (ns : Nat) (k : AccKind) (hk : k.fresh = true)
    (h : List (HOp HSt Skel Value)) (st : Store Value) (s : HSt)
    (hs : RefsBelow (accOps ns k) ns (fun s : HSt => s.ctr) s)
    (hd : Downstream (accOps ns k) ns (fun s : HSt => s.ctr) st s [] h) :
    runHistS (accOps ns k) st s h = runHistS (accOps ns k) st s (stripExt h) :=
  downstream_sim (accOps ns k) ns (fun s : HSt => s.ctr) (hOps_localF ns { kind := .fillCompute, steps := [], term := k, srcN := 0 }) (accOps_freshYield' ns k hk)
    (accOps_tidy ns k hk) h st st s [] hd (fun _ _ => rfl) hs (fun _ ht => absurd ht List.not_mem_nil)
    (fun _ ht => absurd ht List.not_mem_nil)

/-- the general form: any accumulator that is local (fine footprint), allocates what it yields and keeps no
reference to it -/
theorem downstream_updates_harmless_gen (ops : Ops σ S C) (ns : Nat) (ctr : σ → Nat)
    (hL : LocalF ops ns ctr) (hF : FreshYield ops ns ctr) (hT : Tidy ops ns ctr)
    (h : List (HOp σ S C)) (st : Store C) (s : σ)
    (hs : RefsBelow ops ns ctr s) (hd : Downstream ops ns ctr st s [] h) :
    runHistS ops st s h = runHistS ops st s (stripExt h) :=
  downstream_sim ops ns ctr hL hF hT h st st s [] hd (fun _ _ => rfl) hs (fun _ ht => absurd ht List.not_mem_nil)
    (fun _ ht => absurd ht List.not_mem_nil)

/-- non-vacuity: `Sum`, filled, computed, **the yielded context overwritten in place**, filled again, computed:
the hypotheses of `downstream_updates_harmless` hold; the update is a real change of the heap (the overwritten
object is the context of the first result), and the second result carries the context `{"k": 1}` of the data, not the
overwritten one -/
example :
    let ops := accOps (ownNs 0) .sum
    let x : HItem := mkItem (.int 1) (some (upNs, 0))
    let y : HItem := mkItem (.int 3) (some (upNs, 1))
    let f : Store Value → Store Value := fun st => st.set (ownNs 0, 0) (.dict [("output", .str "overwritten")])
    let h : List (HOp HSt Skel Value) := [.req (.fill x), .req .compute, .ext f, .req (.fill y), .req .compute]
    let st0 : Store Value := fun _ => .dict [("k", .int 1)]
    RefsBelow ops (ownNs 0) (fun s : HSt => s.ctr) {} ∧
    Downstream ops (ownNs 0) (fun s : HSt => s.ctr) st0 {} [] h ∧
    (runHistS ops st0 {} h).map (fun e => (cellsOf e.2.1.outs, e.2.2))
      = [([], []), ([(2, 0)], [.dict [("k", .int 1)]]), ([], []), ([(2, 1)], [.dict [("k", .int 1)]])] := by
  refine ⟨fun t ht => (List.not_mem_nil (show t ∈ [] from ht)).elim, ?_, by rfl⟩
  simp only [Downstream]
  refine ⟨rfl, by decide, rfl, by decide, ?_, rfl, by decide, rfl, by decide, trivial⟩
  intro st' t ht
  simp only [Store.set]
  split
  · next e => subst e; exact absurd (by decide) ht
  · rfl

theorem outputs_append (l₁ l₂ : List (Ev S C)) : outputs (l₁ ++ l₂) = outputs l₁ ++ outputs l₂ := by
  induction l₁ with
  | nil => rfl
  | cons e l ih => cases e <;> simp [outputs, ih]

theorem outputs_outsEv (i : Nat) (st : Store C) (vals : List (Item S)) : outputs (outsEv i st vals : List (Ev S C)) = vals := by
  induction vals with
  | nil => rfl
  | cons v vs ih => simp only [outsEv, List.map_cons, outputs] at ih ⊢; rw [ih]

/-- **`Split._compute` / `Split._request`** (the common-type methods): what a `Split` of accumulators yields is
what its branches yield, in turn; if every branch allocates what it yields (`FreshYield`, in its own namespace),
then all objects of all values yielded by one `compute()` are pairwise different and new — each belongs to the
namespace of the branch that yielded it and was allocated during this very call. -/
theorem split_compute_fresh (req : Req S) (hreq : req.isAcc = true) (mkEv : Nat → Ev S C)
    (hev : ∀ i, outputs [mkEv i] = []) (ctr : σ → Nat) :
    ∀ (brs : List (Branch σ S C)) (st : Store C),
      (∀ b ∈ brs, FreshYield b.ops (ownNs b.id) ctr) → (brs.map (·.id)).Nodup →
      (cellsOf (outputs (collect req mkEv st brs).1)).Nodup ∧
      ∀ t ∈ cellsOf (outputs (collect req mkEv st brs).1), ∃ b ∈ brs, t.1 = ownNs b.id ∧ ctr b.st ≤ t.2 := by
  intro brs
  induction brs with
  | nil => intro st _ _; simp [collect, outputs, cellsOf]
  | cons b rest ih =>
    intro st hF hnd
    rw [List.map_cons, List.nodup_cons] at hnd
    have hb := hF b (List.mem_cons_self ..)
    obtain ⟨i1, i2⟩ := ih (b.ops.act st b.st req).1 (fun b' hb' => hF b' (List.mem_cons_of_mem _ hb')) hnd.2
    have hout : outputs (collect req mkEv st (b :: rest)).1 =
        (b.ops.act st b.st req).2.2.outs ++ outputs (collect req mkEv (b.ops.act st b.st req).1 rest).1 := by
      simp only [collect]
      rw [show mkEv b.id :: outsEv b.id (b.ops.act st b.st req).1 (b.ops.act st b.st req).2.2.outs ++
            (collect req mkEv (b.ops.act st b.st req).1 rest).1 =
          [mkEv b.id] ++ (outsEv b.id (b.ops.act st b.st req).1 (b.ops.act st b.st req).2.2.outs ++
            (collect req mkEv (b.ops.act st b.st req).1 rest).1) from rfl,
        outputs_append, outputs_append, hev, outputs_outsEv]
      rfl
    rw [hout, cellsOf_append]
    refine ⟨?_, ?_⟩
    · rw [List.nodup_append]
      refine ⟨hb.nodup st b.st req hreq, i1, ?_⟩
      intro t ht t' ht' heq
      subst heq
      obtain ⟨b', hb', hns, _⟩ := i2 t ht'
      have h1 := (hb.fresh st b.st req hreq t ht).1
      have : b.id = b'.id := ((ns_facts b.id b'.id).1).mp (by rw [← h1, hns])
      exact hnd.1 (by rw [this]; exact List.mem_map_of_mem hb')
    · intro t ht
      rcases List.mem_append.mp ht with ht | ht
      · obtain ⟨g1, g2, _⟩ := hb.fresh st b.st req hreq t ht
        exact ⟨b, List.mem_cons_self .., g1, g2⟩
      · obtain ⟨b', hb', h⟩ := i2 t ht
        exact ⟨b', List.mem_cons_of_mem _ hb', h⟩

/-- a `Split` of modelled accumulators that allocate what they yield (any elements before them) -/
def splitInit (specs : List BSpec) : ZSt := { brs := mkBranches 0 specs }

theorem splitInit_inv (specs : List BSpec) (hk : ∀ sp ∈ specs, sp.term.fresh = true) : SplitInv (splitInit specs) := by
  obtain ⟨m1, m2⟩ := mkBranches_spec specs 0
  refine ⟨m2, ?_⟩
  intro b hb
  obtain ⟨_, _, sp, hsp, hops⟩ := m1 b hb
  rw [hops]
  exact hOps_freshYield' (ownNs b.id) sp (hk sp hsp)

/-- **`Split([accumulator, …])` used through `fill` / `compute` / `request`, all histories**: for a `Split` whose
branches are `FillComputeSeq`s of modelled elements ending in accumulators that allocate what they yield, and for
every history of `fill`/`compute`/`request` invocations interleaved with arbitrary changes of the heap by the rest
of the program, in which the values filled exist when they are filled (`FilledOld`: none of their objects is one
that a branch is still going to allocate — a filled value may be an earlier result): the objects of the values
yielded by an invocation `e` are pairwise different, are not objects of any value filled before, and are not
objects of any value yielded before. -/
theorem split_hist_fresh (specs : List BSpec) (hk : ∀ sp ∈ specs, sp.term.fresh = true)
    (h : List (HOp ZSt Skel Value)) (st : Store Value)
    (hacc : ∀ r, HOp.req r ∈ h → r.isAcc = true) (hupd : ∀ g, HOp.upd g ∉ h)
    (hin : FilledOld splitAccOps SplitOld st (splitInit specs) h)
    (pre : List (HEv Skel)) (e : HEv Skel) (post : List (HEv Skel))
    (heq : runHist splitAccOps (fun _ => 0) st (splitInit specs) h = pre ++ e :: post) :
    (cellsOf e.resp.outs).Nodup ∧
    ∀ t ∈ cellsOf e.resp.outs, ∀ e' ∈ pre, t ∉ e'.req.cells ∧ t ∉ cellsOf e'.resp.outs := by
  obtain ⟨h1, _, h3⟩ := hist_fresh_G splitAccOps SplitInv SplitOld splitAccOps_freshYieldG h st (splitInit specs)
    (splitInit_inv specs hk) hacc (fun g hg => absurd hg (hupd g)) hin pre e post heq
  exact ⟨h1, h3⟩

/-- non-vacuity: `Split([Sum(), Count("n")])`, filled with two upstream values, computed, the first result mutated
in place, filled with its own first result, computed again: the hypotheses of `split_hist_fresh` hold, and the
four contexts yielded are four different new objects -/
example :
    let specs : List BSpec := [{ kind := .fillCompute, steps := [], term := .sum, srcN := 0 },
                               { kind := .fillCompute, steps := [], term := .count "n", srcN := 0 }]
    let x : HItem := mkItem (.int 1) (some (upNs, 0))
    let y : HItem := mkItem (.int 3) (some (upNs, 1))
    let z : HItem := mkItem (.int 4) (some (ownNs 0, 0))
    let h : List (HOp ZSt Skel Value) :=
      [.req (.fill x), .req (.fill y), .req .compute,
       .ext (fun st => st.set (ownNs 0, 0) (.dict [("output", .str "f")])), .req (.fill z), .req .compute]
    (∀ sp ∈ specs, sp.term.fresh = true) ∧
    FilledOld splitAccOps SplitOld (fun _ => .dict [("k", .int 1)]) (splitInit specs) h ∧
    (runHist splitAccOps (fun _ => 0) (fun _ => .dict [("k", .int 1)]) (splitInit specs) h).map
        (fun e => cellsOf e.resp.outs) = [[], [], [(2, 0), (4, 0)], [], [(2, 1), (4, 1)]] := by
  refine ⟨by decide, ?_, by decide⟩
  simp only [FilledOld, SplitOld]
  decide

/-- `StoreFilled` is outside the second sentence: its documented result *is* the filled values, and the model
shows it — the yielded value is the very object that was filled -/
theorem store_yields_filled :
    let ops := accOps (ownNs 0) .store
    let x : HItem := mkItem (.int 1) (some (upNs, 0))
    (runHist ops (fun s : HSt => s.ctr) (fun _ => (.dict [] : Lena.Flow.Value)) {} [.req (.fill x), .req .compute]).map
      (fun e => cellsOf e.resp.outs) = [[], [(upNs, 0)]] := by
  decide

/-! ## `Zip._compute`: the merged context is new -/

/-- **`Zip([accumulator, …])`** (`Zip._fill` + `Zip._compute`/`_request` with `_create_context`): whatever its
branches are and yield, the context of the zipped value is an object that `Zip` allocates during this very call
(the deep copy made by `intersection`), so `acc_yield_fresh` applies to a `Zip` as to any accumulator. -/
theorem zip_compute_fresh (ks : List AccKind) :
    FreshYield (zipOps ks) (ownNs ks.length) (fun z : ZSt => z.ctr) := by
  have key : ∀ st (z : ZSt) (r : Req Skel),
      z.ctr ≤ ((zipOps ks).act st z r).2.1.ctr ∧
      (∀ t ∈ cellsOf ((zipOps ks).act st z r).2.2.outs,
        InRange (ownNs ks.length) z.ctr ((zipOps ks).act st z r).2.1.ctr t) ∧
      (cellsOf ((zipOps ks).act st z r).2.2.outs).Nodup := by
    intro st z r
    cases r <;> simp only [zipOps, zipAct]
    case fill x => simp [cellsOf]
    case call => simp [cellsOf]
    case run buf => simp [cellsOf]
    all_goals
      split
      · simp [cellsOf]
      · split
        · simp [cellsOf]
        · split <;> simp [cellsOf, mkItem, InRange]
  exact ⟨fun st z r => (key st z r).1, fun st z r _ => (key st z r).2.1, fun st z r _ => (key st z r).2.2⟩

/-! ## documented aliasing: `StoreFilled`, `GroupBy` -/

theorem store_fill (ns : Nat) (st : Store Value) (s : HSt) (x : HItem) :
    (accOps ns .store).act st s (.fill x) =
      (st, { ctr := s.ctr, cs := [], acc := { s.acc with group := s.acc.group ++ [x] } }, {}) := by
  simp [accOps, hOps, hAct, hActM, applySteps, accFill, M.run, bind, pure]

/-- **`StoreFilled(yield_as_a_group=False)` yields the filled values themselves** (documented result, outside the
second sentence of C04): after filling any values `xs` into a new element, `compute()` yields exactly `xs` — the
same objects, in order — and neither `fill` nor `compute` touches the heap. -/
theorem store_yields_what_was_filled (ns : Nat) (st : Store Value) (xs : List HItem) :
    let f := fillAll (accOps ns .store) st {} xs
    f.1 = st ∧ ((accOps ns .store).act f.1 f.2 .compute).2.2.outs = xs ∧
      ((accOps ns .store).act f.1 f.2 .compute).1 = st := by
  have gen : ∀ (xs : List HItem) (s : HSt),
      (fillAll (accOps ns .store) st s xs).1 = st ∧
      (fillAll (accOps ns .store) st s xs).2.acc.group = s.acc.group ++ xs := by
    intro xs
    induction xs with
    | nil => intro s; simp [fillAll]
    | cons x xs ih =>
      intro s
      simp only [fillAll, store_fill]
      obtain ⟨i1, i2⟩ := ih { ctr := s.ctr, cs := [], acc := { s.acc with group := s.acc.group ++ [x] } }
      exact ⟨i1, by rw [i2]; simp⟩
  obtain ⟨g1, g2⟩ := gen xs {}
  refine ⟨g1, ?_, ?_⟩
  · have : ∀ (st' : Store Value) (s' : HSt), ((accOps ns .store).act st' s' .compute).2.2.outs = s'.acc.group := by
      intro st' s'; simp [accOps, hOps, hAct, hActM, accCompute, M.run, bind, pure]
    rw [this]; simpa using g2
  · have : ∀ (st' : Store Value) (s' : HSt), ((accOps ns .store).act st' s' .compute).1 = st' := by
      intro st' s'; simp [accOps, hOps, hAct, hActM, accCompute, M.run, bind, pure]
    rw [this]; exact g1

theorem storeGroup_fill (ns : Nat) (st : Store Value) (s : HSt) (x : HItem) :
    (accOps ns .storeGroup).act st s (.fill x) =
      (st, { ctr := s.ctr, cs := [], acc := { s.acc with group := s.acc.group ++ [x] } }, {}) := by
  simp [accOps, hOps, hAct, hActM, applySteps, accFill, M.run, bind, pure]

/-- **`StoreFilled(yield_as_a_group=True)`**: `compute()` yields one group; its list object is new (allocated by
this call, `self.group[:]`), its members are exactly the filled values — the same objects. -/
theorem storeGroup_yields_what_was_filled (ns : Nat) (st : Store Value) (xs : List HItem) :
    let f := fillAll (accOps ns .storeGroup) st {} xs
    ((accOps ns .storeGroup).act f.1 f.2 .compute).2.2.outs = [mkGroup (ns, f.2.ctr) xs] := by
  have gen : ∀ (xs : List HItem) (s : HSt),
      (fillAll (accOps ns .storeGroup) st s xs).1 = st ∧
      (fillAll (accOps ns .storeGroup) st s xs).2.acc.group = s.acc.group ++ xs ∧
      (fillAll (accOps ns .storeGroup) st s xs).2.ctr = s.ctr := by
    intro xs
    induction xs with
    | nil => intro s; simp [fillAll]
    | cons x xs ih =>
      intro s
      simp only [fillAll, storeGroup_fill]
      obtain ⟨i1, i2, i3⟩ := ih { ctr := s.ctr, cs := [], acc := { s.acc with group := s.acc.group ++ [x] } }
      exact ⟨i1, by rw [i2]; simp, i3⟩
  obtain ⟨_, g2, _⟩ := gen xs {}
  have : ∀ (st' : Store Value) (s' : HSt),
      ((accOps ns .storeGroup).act st' s' .compute).2.2.outs = [mkGroup (ns, s'.ctr) s'.acc.group] := by
    intro st' s'; simp [accOps, hOps, hAct, hActM, accCompute, M.run, bind, pure, allocM]
  intro f
  rw [this, g2]; simp

/-- **`GroupBy.compute()` yields its internal lists**: the state is unchanged and the values yielded are the
groups themselves — the same list objects at every call (so a group yielded earlier sees later fills; documented:
"`groups` is a mapping of keys to lists of items") —, whose members are the filled values themselves. -/
theorem groupBy_yields_internal (ns : Nat) (key : String) (st : Store Value) (s : HSt) :
    (accOps ns (.groupBy key)).act st s .compute =
      (st, s, { outs := s.acc.groups.map (fun g => mkGroup g.2.1 g.2.2) }) := by
  simp [accOps, hOps, hAct, hActM, accCompute, M.run, bind, pure]

/-- non-vacuity: two values with the same key, one with another; the second `compute()` yields the same list
objects `(2,0)`, `(2,1)` as the first, the first group now with the value filled in between -/
example :
    let ops := accOps (ownNs 0) (.groupBy "g")
    let st0 : Store Value := fun t => if t = (upNs, 1) then .dict [("g", .int 2)] else .dict [("g", .int 1)]
    let x : HItem := mkItem (.int 1) (some (upNs, 0))
    let y : HItem := mkItem (.int 2) (some (upNs, 1))
    let z : HItem := mkItem (.int 3) (some (upNs, 2))
    (runHist ops (fun s : HSt => s.ctr) st0 {}
        [.req (.fill x), .req (.fill y), .req .compute, .req (.fill z), .req .compute]).map
      (fun e => e.resp.outs.map (·.cells)) =
      [[], [], [[(2, 0), (0, 0)], [(2, 1), (0, 1)]], [], [[(2, 0), (0, 0), (0, 2)], [(2, 1), (0, 1)]]] := by
  decide

/-! ## an empty `Split` -/

/-- `Split([])` yields the values of the flow themselves (`_empty_run`): no branch, no copy. -/
theorem empty_split_yields_flow {σ S C : Type} (s : Split σ S C) (h : s.branches = []) (st0 : Store C)
    (flow : List (Item S)) : s.run st0 flow = (flow, st0) := by
  simp [Split.run, h]


/-! ## adversary round: `NumpyHistogram`; user mutators that change everything reachable in place

`AccKind.numpyHist` (`lena/structures/numpy_histogram.py` with `hist_functions.make_hist_context`) is a modelled
framework accumulator like the others: `accOps_freshYield`, `accOps_tidy_instance`, `downstream_updates_harmless`
hold for it (they quantify over all `k` with `k.fresh`).  The theorems below state what that means for it, and what
its `request()` does to the heap.  `Step.touch` / `Step.touchc` (the user elements that change every mutable object
reachable from the data / the context) are steps of the executable model, so `harness_branches_local`,
`harness_branch_alone_equiv`, `fcseq_freshYield` cover branches that contain them. -/

/-- **`NumpyHistogram.request()`** from a state whose `_cur_context` is the object `c`: it yields one value whose
context is the new object `(ns, s.ctr)`; that object holds the content of `c` with the entry `"histogram"` set; *no
other object changes* — in particular not `c`, the context of the value filled last (`make_hist_context` updates a
deep copy) — and `_cur_context` is still `c`. -/
theorem numpyHist_request_spec (ns : Nat) (st : Store Value) (s : HSt) (c : Tok) (hc : s.acc.cur = some c) :
    ((accOps ns .numpyHist).act st s .request).2.2.outs = [mkItem (.str "hist") (some (ns, s.ctr))] ∧
    ((accOps ns .numpyHist).act st s .request).1 (ns, s.ctr) =
      .dict (Lena.Flow.dictSet (ctxOf (st c)) "histogram" histContext) ∧
    (∀ t, t ≠ (ns, s.ctr) → ((accOps ns .numpyHist).act st s .request).1 t = st t) ∧
    ((accOps ns .numpyHist).act st s .request).2.1.acc.cur = some c ∧
    ((accOps ns .numpyHist).act st s .request).2.1.ctr = s.ctr + 1 := by
  simp only [accOps, hOps, hAct, hActM, accCompute, curTok, hc, M.bind_run, M.pure_run, copyM_run, updM_run]
  refine ⟨?_, ?_, ?_, ?_, ?_⟩
  · trivial
  · simp [Store.set]
  · intro t ht
    simp [Store.set, ht]
  · trivial
  · trivial

/-- **Every context yielded by `NumpyHistogram.request()` is new** (`reset=False`): `acc_yield_fresh` for it — in
every history of `fill` / `request` / `reset()` invocations interleaved with arbitrary in-place changes of the heap,
the context yielded by a `request()` is an object of no value filled before and of no value yielded before. -/
theorem numpyHist_yield_fresh (ns : Nat) (h : List (HOp HSt Skel Value)) (st : Store Value) (s : HSt)
    (hacc : ∀ r, HOp.req r ∈ h → r.isAcc = true)
    (hupd : ∀ g, HOp.upd g ∈ h → ∀ s : HSt, s.ctr ≤ (g s).ctr)
    (hin : ∀ e ∈ runHist (accOps ns .numpyHist) (fun s : HSt => s.ctr) st s h, ∀ t ∈ e.req.cells, t.1 = ns → t.2 < e.ctr)
    (pre : List (HEv Skel)) (e : HEv Skel) (post : List (HEv Skel))
    (heq : runHist (accOps ns .numpyHist) (fun s : HSt => s.ctr) st s h = pre ++ e :: post) :
    (cellsOf e.resp.outs).Nodup ∧
    ∀ t ∈ cellsOf e.resp.outs, ∀ e' ∈ pre, t ∉ e'.req.cells ∧ t ∉ cellsOf e'.resp.outs :=
  acc_yield_fresh (accOps ns .numpyHist) ns (fun s : HSt => s.ctr) (accOps_freshYield ns .numpyHist rfl) h st s
    hacc hupd hin pre e post heq

/-- `reset()` of an accumulator as a step of a history -/
def resetOp : HOp HSt Skel Value := .upd (fun s => { s with acc := accReset s.acc })

/-- `NumpyHistogram(reset=True)`: every `request()` is followed by `self.reset()` (numpy_histogram.py:69-70) -/
def withReset : List (HOp HSt Skel Value) → List (HOp HSt Skel Value)
  | [] => []
  | .req .request :: h => .req .request :: resetOp :: withReset h
  | op :: h => op :: withReset h

theorem withReset_req (r : Req Skel) : ∀ h : List (HOp HSt Skel Value), HOp.req r ∈ withReset h → HOp.req r ∈ h := by
  intro h
  induction h with
  | nil => intro hm; exact hm
  | cons op h ih =>
    intro hm
    cases op with
    | req r' =>
      cases r' <;> simp only [withReset, resetOp, List.mem_cons, HOp.req.injEq, reduceCtorEq, false_or] at hm ⊢ <;>
        rcases hm with hm | hm <;> first | exact Or.inl hm | exact Or.inr (ih hm)
    | ext f =>
      simp only [withReset, List.mem_cons, reduceCtorEq, false_or] at hm ⊢
      exact ih hm
    | upd g =>
      simp only [withReset, List.mem_cons, reduceCtorEq, false_or] at hm ⊢
      exact ih hm

theorem withReset_upd (g : HSt → HSt) : ∀ h : List (HOp HSt Skel Value), HOp.upd g ∈ withReset h →
    HOp.upd g ∈ h ∨ g = (fun s => { s with acc := accReset s.acc }) := by
  intro h
  induction h with
  | nil => intro hm; exact Or.inl hm
  | cons op h ih =>
    intro hm
    cases op with
    | req r' =>
      cases r' <;> simp only [withReset, resetOp, List.mem_cons, HOp.upd.injEq, reduceCtorEq, false_or] at hm ⊢
      case request =>
        rcases hm with hm | hm
        · exact Or.inr hm
        · exact ih hm
      all_goals exact ih hm
    | ext f =>
      simp only [withReset, List.mem_cons, reduceCtorEq, false_or] at hm ⊢
      exact ih hm
    | upd g' =>
      simp only [withReset, List.mem_cons, HOp.upd.injEq] at hm ⊢
      rcases hm with hm | hm
      · exact Or.inl (Or.inl hm)
      · rcases ih hm with h1 | h1
        · exact Or.inl (Or.inr h1)
        · exact Or.inr h1

/-- **… and with `reset=True`**: the same for every history in which each `request()` is followed by the `reset()`
that `NumpyHistogram(reset=True).request()` performs.  (The hypotheses are those of `acc_yield_fresh`, stated for the
history the user wrote — `h` — except `hin`, which speaks about the run itself.) -/
theorem numpyHist_reset_yield_fresh (ns : Nat) (h : List (HOp HSt Skel Value)) (st : Store Value) (s : HSt)
    (hacc : ∀ r, HOp.req r ∈ h → r.isAcc = true)
    (hupd : ∀ g, HOp.upd g ∈ h → ∀ s : HSt, s.ctr ≤ (g s).ctr)
    (hin : ∀ e ∈ runHist (accOps ns .numpyHist) (fun s : HSt => s.ctr) st s (withReset h),
      ∀ t ∈ e.req.cells, t.1 = ns → t.2 < e.ctr)
    (pre : List (HEv Skel)) (e : HEv Skel) (post : List (HEv Skel))
    (heq : runHist (accOps ns .numpyHist) (fun s : HSt => s.ctr) st s (withReset h) = pre ++ e :: post) :
    (cellsOf e.resp.outs).Nodup ∧
    ∀ t ∈ cellsOf e.resp.outs, ∀ e' ∈ pre, t ∉ e'.req.cells ∧ t ∉ cellsOf e'.resp.outs := by
  refine numpyHist_yield_fresh ns (withReset h) st s (fun r hr => hacc r (withReset_req r h hr)) ?_ hin pre e post heq
  intro g hg s'
  rcases withReset_upd g h hg with hg | hg
  · exact hupd g hg s'
  · subst hg; exact Nat.le_refl _

/-- non-vacuity: `NumpyHistogram(reset=True)` filled with two upstream values, requested, requested again (after the
reset: from the new `{}`), filled, requested: the hypotheses of `numpyHist_reset_yield_fresh` hold; the three
contexts are three new objects — none is the object `(0, 1)` of the value filled last —, the first carries the
content of that object plus the `"histogram"` entry, the second only the `"histogram"` entry, and the filled
context still has its own content afterwards. -/
example :
    let ops := accOps (ownNs 0) .numpyHist
    let x : HItem := mkItem (.int 1) (some (upNs, 0))
    let y : HItem := mkItem (.int 3) (some (upNs, 1))
    let h : List (HOp HSt Skel Value) := [.req (.fill x), .req (.fill y), .req .request, .req .request, .req (.fill x), .req .request]
    let st0 : Store Value := fun t => .dict [("variable", .dict [("name", .str "x"), ("range", .list [.int 0, .int t.2])])]
    (∀ r, HOp.req r ∈ h → r.isAcc = true) ∧
    (∀ e ∈ runHist ops (fun s : HSt => s.ctr) st0 {} (withReset h), ∀ t ∈ e.req.cells, t.1 = ownNs 0 → t.2 < e.ctr) ∧
    (runHist ops (fun s : HSt => s.ctr) st0 {} (withReset h)).map (fun e => cellsOf e.resp.outs)
      = [[], [], [(2, 0)], [(2, 2)], [], [(2, 3)]] ∧
    (runHistS ops st0 {} (withReset h)).map (fun e => e.2.2)
      = [[], [],
         [.dict [("variable", .dict [("name", .str "x"), ("range", .list [.int 0, .int 1])]), ("histogram", histContext)]],
         [.dict [("histogram", histContext)]], [],
         [.dict [("variable", .dict [("name", .str "x"), ("range", .list [.int 0, .int 0])]), ("histogram", histContext)]]] := by
  refine ⟨?_, by decide, by decide, by rfl⟩
  intro r hr
  simp only [List.mem_cons, HOp.req.injEq, List.not_mem_nil, or_false] at hr
  rcases hr with rfl | rfl | rfl | rfl | rfl | rfl <;> rfl

/-! ### the user mutators `touch` / `touchc` -/

theorem touchList_length (v : Int) : ∀ xs : List Value, (touchList v xs).length = xs.length := by
  intro xs
  induction xs with
  | nil => simp [touchList]
  | cons x xs ih => simp [touchList, ih]

/-- `deepTouch` is visible on every list-like object: it gets one more element (so a branch that was handed an object
another branch also holds would show it) -/
theorem touch_visible_list (v : Int) (xs : List Value) : touchVal v (.list xs) ≠ .list xs := by
  intro h
  simp only [touchVal, Value.list.injEq] at h
  have := congrArg List.length h
  simp [touchList_length] at this

theorem lookup_dictSet_self (k : String) (u : Value) : ∀ l : Lena.Flow.Ctx, (Lena.Flow.dictSet l k u).lookup k = some u := by
  intro l
  induction l with
  | nil => simp [Lena.Flow.dictSet, List.lookup]
  | cons kv l ih =>
    obtain ⟨k', v'⟩ := kv
    simp only [Lena.Flow.dictSet]
    split
    · simp [List.lookup]
    · rename_i hne
      have : (k == k') = false := by
        simp only [beq_eq_false_iff_ne, ne_eq]
        exact fun e => hne e.symm
      simp [List.lookup, this, ih]

/-- … and on every dictionary / object with attributes: it carries the mark `m = v` afterwards -/
theorem touch_marks_dict (v : Int) (kvs : Lena.Flow.Ctx) : (ctxOf (touchVal v (.dict kvs))).lookup "m" = some (.int v) := by
  simp only [touchVal, ctxOf]
  exact lookup_dictSet_self "m" (.int v) _

/-- the mutation reaches the objects nested inside (here: an event with a list of hits and a sub-dictionary holding
a tuple with a list) -/
example :
    touchVal 5 (.dict [("hits", .list [.int 1]), ("sub", .dict [("t", .tup [.int 0, .list []])])]) =
      .dict [("hits", .list [.int 1, .int 5]), ("sub", .dict [("t", .tup [.int 0, .list [.int 5]]), ("m", .int 5)]),
             ("m", .int 5)] := by
  rfl

/-- two branches that change everything reachable from the data (and, the second, from the context) in place -/
def touchSpecs : List BSpec :=
  [ { kind := .fillCompute, steps := [.touch 1], term := .keepLast, srcN := 0 },
    { kind := .sequence, steps := [.touch 2, .touchc 2], term := .store, srcN := 0 } ]

/-- two values whose data are objects with nested mutable content (cells `(0, 0)`, `(0, 2)`), each with a context -/
def touchFlow : List HItem :=
  [ { skel := { data := none, hasCtx := true }, cells := [(upNs, 0), (upNs, 1)] },
    { skel := { data := none, hasCtx := true }, cells := [(upNs, 2), (upNs, 3)] } ]

def touchStore : Store Value := fun t =>
  if t.2 % 2 = 0 then .dict [("hits", .list [.int 7])] else .dict [("n", .dict [("i", .list [])])]

/-- non-vacuity of `harness_branch_alone_equiv` for such branches: the hypotheses hold, … -/
example : ∀ b ∈ mkBranches 0 touchSpecs, ∃ sched : List (List HItem × List HItem × Bool),
    sched.map (·.1) = (blocks none touchFlow).take sched.length ∧ (∀ e ∈ sched, SchedOK b.id e) ∧
    proj b.id ((Split.runTrace { branches := mkBranches 0 touchSpecs, bufsize := none, copyBuf := true }
      touchStore touchFlow).1) = aloneTrace touchStore b sched (blocks none touchFlow).isEmpty :=
  fun b hb => harness_branch_alone_equiv touchSpecs (by decide) none (by decide) _ touchFlow (by decide) (by decide) b hb

/-- … and in the run the first branch (on its copies) sees only its own mark `1`, the second (on the originals) only
its own mark `2`, at every depth: what is yielded, with the contents at the moment of the yield -/
example :
    ((Split.runTrace { branches := mkBranches 0 touchSpecs, bufsize := none, copyBuf := true } touchStore touchFlow).1).filterMap
      (fun e => match e with
        | .out i _ snap => some (i, snap)
        | _ => none) =
    [ (1, [.dict [("hits", .list [.int 7, .int 2]), ("m", .int 2)], .dict [("n", .dict [("i", .list [.int 2]), ("m", .int 2)]), ("m", .int 2)]]),
      (1, [.dict [("hits", .list [.int 7, .int 2]), ("m", .int 2)], .dict [("n", .dict [("i", .list [.int 2]), ("m", .int 2)]), ("m", .int 2)]]),
      (0, [.dict [("hits", .list [.int 7, .int 1]), ("m", .int 1)], .dict [("n", .dict [("i", .list [])])]]) ] := by
  rfl

end Lena.C04
