import LenaModel.Props.C03
import LenaModel.Props.C03X
/-! # C03 — property theorems, part 4 (after the independent review)

* the sentence of the property block by block: `contribution b bl k` in closed form per kind
  (`blockForm`, stated with the state in which the branch starts the block — independent of the
  loop body `stepBranch`), `finalContribution` (`finalForm`), and `Split.run` over them;
* where an exception cuts the schedule (`runX_raised_cut`);
* the Cache rule of `Split.__init__` (`cacheRule`), constructed Splits are `Valid`;
* the common-type "same meaning" theorems are PARTIAL (no branch signals `LenaStopFill`): the
  full statements are false of the code, witnesses below;
* distinct ids of the branch lists the driver builds. -/

namespace Lena.C03

variable {σ α ε : Type}

/-! ## 17. block by block -/

theorem contribution_zero (b : Branch σ α) (blk : List α) (rest : List (List α)) :
    contribution b (blk :: rest) 0 = (stepBranch blk b).1 := by
  simp [contribution, life, stepO]

theorem contribution_succ (b : Branch σ α) (blk : List α) (rest : List (List α)) (k : Nat) :
    contribution b (blk :: rest) (k + 1) =
      match (stepBranch blk b).2 with
      | none => []
      | some b' => contribution b' rest k := by
  simp only [contribution, life, stepO, List.getElem?_cons_succ]
  cases h : (stepBranch blk b).2 with
  | none =>
    simp only [life_none, List.getElem?_map]
    cases rest[k]? <;> rfl
  | some b' => rfl

/-- THE PROPERTY'S SENTENCE, BLOCK BY BLOCK: the contribution of a branch to block `k` is
`blockForm` — a Source: its complete output iff `k = 0`; a plain Sequence: `run` of block `k` in
the state after `k` runs; a fill/request branch: the fills of block `k` and `request()`, unless
it stopped in an earlier block; a fill/compute branch: the fills of block `k`, and `compute()`
iff it signals `LenaStopFill` in this block -/
theorem contribution_blockForm (bl : List (List α)) :
    ∀ (b : Branch σ α) (k : Nat), contribution b bl k = blockForm b bl k := by
  induction bl with
  | nil => intro b k; simp [contribution, blockForm, life]
  | cons blk rest ih =>
    intro b k
    cases k with
    | zero =>
      rw [contribution_zero]
      unfold blockForm stepBranch
      cases hk : b.kind <;> simp [fillStateAt, seqStateAt] <;> (try (split <;> rfl))
    | succ k =>
      rw [contribution_succ]
      unfold stepBranch
      cases hk : b.kind with
      | source =>
        simp only [blockForm, List.getElem?_cons_succ, hk]
        cases rest[k]? <;> simp
      | sequence =>
        simp only
        rw [ih]
        simp only [blockForm, List.getElem?_cons_succ, hk, seqStateAt]
      | fillCompute =>
        simp only
        by_cases hst : (fillBuf b.id b.ops b.st blk).2.2 = true
        · simp only [hst, ↓reduceIte, blockForm, List.getElem?_cons_succ, hk, fillStateAt]
          cases rest[k]? <;> rfl
        · simp only [hst, Bool.false_eq_true, ↓reduceIte]
          rw [ih]
          simp only [blockForm, List.getElem?_cons_succ, hk, fillStateAt, hst, Bool.false_eq_true,
            ↓reduceIte, id]
      | fillRequest =>
        simp only
        by_cases hst : (fillBuf b.id b.ops b.st blk).2.2 = true
        · simp only [hst, ↓reduceIte, blockForm, List.getElem?_cons_succ, hk, fillStateAt]
          cases rest[k]? <;> rfl
        · simp only [hst, Bool.false_eq_true, ↓reduceIte]
          rw [ih]
          simp only [blockForm, List.getElem?_cons_succ, hk, fillStateAt, hst, Bool.false_eq_true,
            ↓reduceIte]

theorem life_snd_kind (bl : List (List α)) :
    ∀ (b : Branch σ α), (life (some b) bl).2 =
      match b.kind with
      | .source => if bl.isEmpty then some b else none
      | .sequence => some { b with st := seqStateAt b.ops b.st bl bl.length }
      | .fillCompute => (fillStateAt b.id b.ops id b.st bl bl.length).map (fun s => { b with st := s })
      | .fillRequest =>
        (fillStateAt b.id b.ops (fun s => (b.ops.request s).2) b.st bl bl.length).map
          (fun s => { b with st := s }) := by
  induction bl with
  | nil =>
    intro b
    rcases b with ⟨i, k, o, st⟩
    cases k <;> simp [life, fillStateAt, seqStateAt]
  | cons blk rest ih =>
    intro b
    simp only [life, stepO]
    unfold stepBranch
    cases hk : b.kind with
    | source => simp [(life_none rest)]
    | sequence =>
      simp only
      rw [ih]
      simp [seqStateAt]
    | fillCompute =>
      simp only
      by_cases hst : (fillBuf b.id b.ops b.st blk).2.2 = true
      · simp [hst, life_none, fillStateAt]
      · simp only [hst, Bool.false_eq_true, ↓reduceIte]
        rw [ih]
        simp [fillStateAt, hst]
    | fillRequest =>
      simp only
      by_cases hst : (fillBuf b.id b.ops b.st blk).2.2 = true
      · simp [hst, life_none, fillStateAt]
      · simp only [hst, Bool.false_eq_true, ↓reduceIte]
        rw [ih]
        simp [fillStateAt, hst]

/-- … and after the last block -/
theorem finalContribution_finalForm (b : Branch σ α) (bl : List (List α)) :
    finalContribution b bl = finalForm b bl := by
  unfold finalContribution finalForm
  rw [life_snd_kind]
  cases hk : b.kind with
  | source => cases hb : bl.isEmpty <;> simp [finalO, finalOne, hk]
  | sequence => cases bl <;> simp [finalO, finalOne, hk, seqStateAt]
  | fillRequest =>
    cases hb : bl.isEmpty with
    | true =>
      have : bl = [] := by cases bl <;> simp_all
      subst this
      simp [finalO, finalOne, hk, fillStateAt]
    | false =>
      simp only [Bool.false_eq_true, ↓reduceIte]
      cases fillStateAt b.id b.ops (fun s => (b.ops.request s).2) b.st bl bl.length <;>
        simp [finalO, finalOne, hk]
  | fillCompute =>
    simp only
    cases fillStateAt b.id b.ops id b.st bl bl.length <;> simp [finalO, finalOne, hk]

/-- THE OUTPUT OF `Split.run` IN THE WORDS OF THE PROPERTY: the concatenation, block by block and
inside a block in branch order, of what `blockForm` says each branch yields for that block,
followed after the last block by the final results (`finalForm`) in branch order -/
theorem run_outputs_blockForm (s : Split σ α) (hv : s.Valid) (flow : List α) (hne : s.branches ≠ []) :
    s.run flow =
      (List.range (blocks s.bufsize flow).length).flatMap (fun k =>
        s.branches.flatMap (fun b => outputs (blockForm b (blocks s.bufsize flow) k))) ++
      s.branches.flatMap (fun b => outputs (finalForm b (blocks s.bufsize flow))) := by
  rw [run_outputs_blockwise s hv flow hne]
  simp only [contribution_blockForm, finalContribution_finalForm]

/-! ## 18. where an exception cuts the schedule -/

/-- the trace ends with an invocation on branch `i` followed by nothing but values yielded for
branch `i` -/
def EndsWithCall (i : Nat) (tr : List (Ev α)) : Prop :=
  ∃ pre inv vals, tr = pre ++ inv :: outs i vals ∧ inv.branch = some i ∧ inv.isInvocation = true

theorem EndsWithCall.prepend {i : Nat} {tr : List (Ev α)} (l : List (Ev α)) (h : EndsWithCall i tr) :
    EndsWithCall i (l ++ tr) := by
  obtain ⟨pre, inv, vals, rfl, h1, h2⟩ := h
  exact ⟨l ++ pre, inv, vals, by simp, h1, h2⟩

theorem fillBufX_raised (i : Nat) (ops : OpsX σ α ε) :
    ∀ (s : σ) (xs : List α) (e : ε), (fillBufX i ops s xs).2.2 = .raised e →
      ∃ pre x, (fillBufX i ops s xs).1 = pre ++ [.fill i x false] := by
  intro s xs
  induction xs generalizing s with
  | nil => intro e h; simp [fillBufX] at h
  | cons x xs ih =>
    intro e h
    obtain ⟨s', r, hf⟩ : ∃ s' r, ops.fill s x = (s', r) := ⟨_, _, rfl⟩
    rw [fillBufX_cons i ops s s' x xs r hf] at h ⊢
    cases r with
    | stop => simp at h
    | raised e' => exact ⟨[], x, rfl⟩
    | ok =>
      simp only at h ⊢
      obtain ⟨pre, y, hp⟩ := ih s' e h
      exact ⟨.fill i x false :: pre, y, by simp [hp]⟩

theorem stepX_abort (buf : List α) (b : BranchX σ α ε) (j : Nat) (e : ε)
    (h : (stepX buf b).2.2 = .abort (j, e)) : j = b.id ∧ EndsWithCall b.id (stepX buf b).1 := by
  unfold stepX at h ⊢
  cases hk : b.kind <;> simp only [hk] at h ⊢
  · -- source
    cases hc : (b.ops.call b.st).2.2 with
    | none => simp [genRes, hc] at h
    | some e' =>
      simp only [genRes, hc, Res.abort.injEq, Prod.mk.injEq] at h
      exact ⟨h.1.symm, [], _, _, rfl, rfl, rfl⟩
  · -- fill/compute
    cases hr : (fillBufX b.id b.ops b.st buf).2.2 with
    | ok => simp [hr] at h
    | raised e' =>
      simp only [hr, Res.abort.injEq, Prod.mk.injEq] at h ⊢
      obtain ⟨pre, x, hp⟩ := fillBufX_raised b.id b.ops b.st buf e' hr
      exact ⟨h.1.symm, pre, _, [], by simpa [outs] using hp, rfl, rfl⟩
    | stop =>
      simp only [hr] at h ⊢
      cases hc : (b.ops.compute (fillBufX b.id b.ops b.st buf).2.1).2.2 with
      | none => simp [genRes, hc] at h
      | some e' =>
        simp only [genRes, hc, Res.abort.injEq, Prod.mk.injEq] at h
        exact ⟨h.1.symm, _, _, _, rfl, rfl, rfl⟩
  · -- fill/request
    cases hr : (fillBufX b.id b.ops b.st buf).2.2 with
    | raised e' =>
      simp only [hr, Res.abort.injEq, Prod.mk.injEq] at h ⊢
      obtain ⟨pre, x, hp⟩ := fillBufX_raised b.id b.ops b.st buf e' hr
      exact ⟨h.1.symm, pre, _, [], by simpa [outs] using hp, rfl, rfl⟩
    | ok =>
      simp only [hr] at h ⊢
      cases hc : (b.ops.request (fillBufX b.id b.ops b.st buf).2.1).2.2 with
      | none => simp [genRes, hc] at h
      | some e' =>
        simp only [genRes, hc, Res.abort.injEq, Prod.mk.injEq] at h
        exact ⟨h.1.symm, _, _, _, rfl, rfl, rfl⟩
    | stop =>
      simp only [hr] at h ⊢
      cases hc : (b.ops.request (fillBufX b.id b.ops b.st buf).2.1).2.2 with
      | none => simp [genRes, hc] at h
      | some e' =>
        simp only [genRes, hc, Res.abort.injEq, Prod.mk.injEq] at h
        exact ⟨h.1.symm, _, _, _, rfl, rfl, rfl⟩
  · -- sequence
    cases hc : (b.ops.run b.st buf).2.2 with
    | none => simp [genRes, hc] at h
    | some e' =>
      simp only [genRes, hc, Res.abort.injEq, Prod.mk.injEq] at h
      exact ⟨h.1.symm, [], _, _, rfl, rfl, rfl⟩

theorem foldG_stepX_abort (buf : List α) (l : List (BranchX σ α ε)) (j : Nat) (e : ε)
    (h : (foldG (stepX buf) l).exc = some (j, e)) : EndsWithCall j (foldG (stepX buf) l).events := by
  induction l with
  | nil => simp [foldG] at h
  | cons b r ih =>
    obtain ⟨ev, b', res, he⟩ : ∃ ev b' res, stepX buf b = (ev, b', res) := ⟨_, _, _, rfl⟩
    cases res with
    | stay => simp only [foldG, he] at h ⊢; exact (ih h).prepend ev
    | drop => simp only [foldG, he] at h ⊢; exact (ih h).prepend ev
    | abort je =>
      simp only [foldG, he, Option.some.injEq] at h ⊢
      subst h
      have := stepX_abort buf b j e (by rw [he])
      rw [he] at this
      rw [this.1]
      exact this.2

theorem passesG_stepX_abort (bl : List (List α)) :
    ∀ (act dropped : List (BranchX σ α ε)) (j : Nat) (e : ε),
      (passesG stepX bl act dropped).exc = some (j, e) →
      EndsWithCall j (passesG stepX bl act dropped).events := by
  induction bl with
  | nil => intro act dropped j e h; simp [passesG] at h
  | cons blk rest ih =>
    intro act dropped j e h
    simp only [passesG] at h ⊢
    cases hx : (foldG (stepX blk) act).exc with
    | some je =>
      rw [hx] at h
      simp only [Option.some.injEq] at h ⊢
      subst h
      exact foldG_stepX_abort blk act j e hx
    | none =>
      rw [hx] at h
      simp only at h ⊢
      exact (ih _ _ j e h).prepend _

theorem finalPassG_finalX_raised (fwe : Bool) (l : List (BranchX σ α ε)) (i : Nat) (e : ε)
    (h : (finalPassG (finalX fwe) l).2.2 = some (.raised i e)) :
    EndsWithCall i (finalPassG (finalX fwe) l).1 := by
  induction l with
  | nil => simp [finalPassG] at h
  | cons b r ih =>
    obtain ⟨ev, b', ex, he⟩ : ∃ ev b' ex, finalX fwe b = (ev, b', ex) := ⟨_, _, _, rfl⟩
    cases ex with
    | none =>
      simp only [finalPassG, he] at h ⊢
      exact (ih h).prepend ev
    | some fe =>
      simp only [finalPassG, he, Option.some.injEq] at h ⊢
      subst h
      -- the raising branch: its events are the invocation and the values before the exception
      unfold finalX at he
      cases hk : b.kind <;> simp only [hk] at he
      · split at he
        · simp only [Prod.mk.injEq, Option.map_eq_some_iff, FinalExc.raised.injEq] at he
          obtain ⟨rfl, _, e', _, hi, _⟩ := he
          subst hi
          exact ⟨[], _, _, rfl, rfl, rfl⟩
        · simp at he
      · simp only [Prod.mk.injEq, Option.map_eq_some_iff, FinalExc.raised.injEq] at he
        obtain ⟨rfl, _, e', _, hi, _⟩ := he
        subst hi
        exact ⟨[], _, _, rfl, rfl, rfl⟩
      · split at he
        · simp only [Prod.mk.injEq, Option.map_eq_some_iff, FinalExc.raised.injEq] at he
          obtain ⟨rfl, _, e', _, hi, _⟩ := he
          subst hi
          exact ⟨[], _, _, rfl, rfl, rfl⟩
        · simp at he
      · split at he
        · simp only [Prod.mk.injEq, Option.map_eq_some_iff, FinalExc.raised.injEq] at he
          obtain ⟨rfl, _, e', _, hi, _⟩ := he
          subst hi
          exact ⟨[], _, _, rfl, rfl, rfl⟩
        · simp at he

/-- WHERE THE CUT IS: when `Split.run` ends with an exception of branch `i`, its trace ends with
a call on branch `i` followed by exactly the values that call yielded before it raised; together
with `runX_prefix`: the trace is the documented schedule up to and including the raising call,
and nothing else -/
theorem runX_raised_cut (s : SplitX σ α ε) (hv : s.Valid) (flow : List α) (i : Nat) (e : ε)
    (h : (s.run flow).term = .raised i e) : EndsWithCall i (s.run flow).trace := by
  obtain ⟨hb, hbad⟩ := hv
  unfold SplitX.run at h ⊢
  simp only [hbad, Bool.false_eq_true, ↓reduceIte] at h ⊢
  obtain ⟨o1, o2, _, o4, _⟩ := outerLoopG_eq_passesG s.copyBuf s.bufsize hb (stepX (σ := σ) (α := α) (ε := ε))
    (flow.length + 1) flow s.branches [] [] true (by omega)
  rw [o4] at h ⊢
  cases hx : (passesG stepX (blocks s.bufsize flow) s.branches ([] : List (BranchX σ α ε))).exc with
  | some je =>
    obtain ⟨j, e'⟩ := je
    rw [hx] at h
    simp only [Term.raised.injEq] at h ⊢
    rw [o1, List.nil_append, ← h.1]
    exact passesG_stepX_abort _ _ _ j e' hx
  | none =>
    rw [hx] at h
    simp only at h ⊢
    cases hy : (finalPassG (finalX (outerLoopG s.copyBuf s.bufsize stepX (flow.length + 1) flow s.branches [] [] true).fwe)
        (outerLoopG s.copyBuf s.bufsize stepX (flow.length + 1) flow s.branches [] [] true).act).2.2 with
    | none => rw [hy] at h; cases h
    | some fe =>
      rw [hy] at h
      cases fe with
      | assertFail => cases h
      | raised i' e' =>
        simp only [Term.raised.injEq] at h
        obtain ⟨rfl, rfl⟩ := h
        exact (finalPassG_finalX_raised _ _ i' e' hy).prepend _

/-! ## 19. the Cache rule of `Split.__init__`; constructed Splits are valid -/

/-- the block size becomes `None` exactly when it was `None` or a plain-Sequence branch contains
a Cache -/
theorem cacheRule_none_iff (bs : Option Nat) (brs : List (Kind × CTree)) :
    cacheRule bs brs = none ↔ bs = none ∨ ∃ p ∈ brs, p.1 = .sequence ∧ containsCache p.2 = true := by
  unfold cacheRule
  cases bs with
  | none => simp
  | some b =>
    by_cases h : (brs.any fun p => p.1 == .sequence && containsCache p.2) = true
    · simp only [Option.isSome_some, h, Bool.and_self, ↓reduceIte, reduceCtorEq, false_or, true_iff]
      simp only [List.any_eq_true, Bool.and_eq_true, beq_iff_eq] at h
      exact h
    · simp only [Option.isSome_some, h, Bool.and_false, Bool.false_eq_true, ↓reduceIte, reduceCtorEq,
        false_or, false_iff]
      intro hh
      apply h
      simp only [List.any_eq_true, Bool.and_eq_true, beq_iff_eq]
      exact hh

theorem cacheRule_valid (bs : Option Nat) (brs : List (Kind × CTree)) (h : bs ≠ some 0) :
    cacheRule bs brs ≠ some 0 := by
  unfold cacheRule
  split
  · simp
  · exact h

/-- without a Cache in a plain-Sequence branch the rule changes nothing -/
theorem cacheRule_no_cache (bs : Option Nat) (brs : List (Kind × CTree))
    (h : ∀ p ∈ brs, p.1 = .sequence → containsCache p.2 = false) : cacheRule bs brs = bs := by
  cases hc : cacheRule bs brs with
  | none =>
    rcases (cacheRule_none_iff bs brs).mp hc with h1 | ⟨p, hp, h2, h3⟩
    · exact h1.symm
    · rw [h p hp h2] at h3; cases h3
  | some b =>
    unfold cacheRule at hc
    split at hc
    · cases hc
    · exact hc.symm

/-- a Split that `Split.__init__` (with the Cache rule) constructs satisfies the hypothesis
`Split.Valid` of the schedule theorems: blocks of at least one value, or the whole flow -/
theorem splitInitC_valid (isList : Bool) (objs : List (Obj × List Bool)) (bs : Option Int)
    (kinds : List Kind) (b : Option Nat) (h : splitInitC isList objs bs = .ok (kinds, b)) : b ≠ some 0 := by
  unfold splitInitC at h
  cases hs : splitInit isList (objs.map (·.1)) bs with
  | error e => simp [hs] at h
  | ok r =>
    obtain ⟨ks, b0⟩ := r
    simp only [hs, Except.ok.injEq, Prod.mk.injEq] at h
    obtain ⟨_, rfl⟩ := h
    exact cacheRule_valid _ _ (splitInit_valid isList _ bs ks b0 hs).1

/-- how the flow is handed over makes no difference: `flow = iter(flow)` turns a container into
the same one-shot iterator -/
theorem runOn_container_iterator (s : Split σ α) (xs : List α) :
    s.runOn (.container xs) = s.runOn (.iterator xs) := rfl

/-! ## 20. "with the same meaning": the proved part and why the full statement is false -/

/-- FULL statement for fill/compute Splits (no hypothesis about `LenaStopFill`) — FALSE of the
code: when a branch signals `LenaStopFill`, `run` finalises it at once and goes on filling the
others, while `_fill` lets the exception escape to its caller -/
def common_type_fill_compute_full : Prop :=
  ∀ (s : Split (List Nat) Nat), s.Valid → (∀ b ∈ s.branches, b.kind = .fillCompute) → ∀ flow,
    outputs (s.runTrace flow) = (splitCompute (splitFillAll s.branches flow).1).1

/-- the proved part: no branch signals `LenaStopFill` (= `common_type_fill_compute`) -/
theorem common_type_fill_compute_partial (s : Split σ α) (hv : s.Valid)
    (hall : ∀ b ∈ s.branches, b.kind = .fillCompute) (flow : List α)
    (hok : (splitFillAll s.branches flow).2 = false) :
    outputs (s.runTrace flow) = (splitCompute (splitFillAll s.branches flow).1).1 :=
  common_type_fill_compute s hv hall flow hok

/-- witness: two accumulators holding at most two values, the second one already holds one;
on `[1, 2]` `run` yields the second one's result first (it is computed in the block where it
stopped), fill-then-compute yields them in branch order -/
theorem common_type_fill_compute_full_false : ¬ common_type_fill_compute_full := by
  intro h
  have := h ⟨demoFC, some 1, true⟩ (by simp [Split.Valid]) (by decide) [1, 2]
  revert this
  decide

def common_type_fill_request_full : Prop :=
  ∀ (s : Split (List Nat) Nat), s.Valid → (∀ b ∈ s.branches, b.kind = .fillRequest) → ∀ flow,
    outputs (s.runTrace flow) =
      if flow = [] then (splitRequest s.branches).1
      else (splitFrBlocks s.branches (blocks s.bufsize flow)).1.flatten

theorem common_type_fill_request_partial (s : Split σ α) (hv : s.Valid)
    (hall : ∀ b ∈ s.branches, b.kind = .fillRequest) (flow : List α)
    (hok : (splitFrBlocks s.branches (blocks s.bufsize flow)).2 = false) :
    outputs (s.runTrace flow) =
      if flow = [] then (splitRequest s.branches).1
      else (splitFrBlocks s.branches (blocks s.bufsize flow)).1.flatten :=
  common_type_fill_request s hv hall flow hok

/-- witness: the first branch stops on the second value; `run` still fills the second branch with
it, `_fill` does not -/
def demoFRstop : List (Branch (List Nat) Nat) :=
  mkBranches 0 [(.fillRequest, demoOps, [5]), (.fillRequest, demoOps, [])]

theorem common_type_fill_request_full_false : ¬ common_type_fill_request_full := by
  intro h
  have := h ⟨demoFRstop, none, true⟩ (by simp [Split.Valid]) (by decide) [1, 2]
  revert this
  decide

/-- the nested versions are partial in the same way -/
theorem nested_fill_compute_partial (outer : Split (List (Branch σ α)) α) (hv : outer.Valid)
    (hnd : (outer.branches.map (·.id)).Nodup) (ob : Branch (List (Branch σ α)) α)
    (hob : ob ∈ outer.branches) (hk : ob.kind = .fillCompute) (hops : ob.ops = splitOps)
    (hall : ∀ b ∈ ob.st, b.kind = .fillCompute) (flow : List α)
    (hok : (splitFillAll ob.st flow).2 = false) (bs : Option Nat) (hbs : bs ≠ some 0) (cb : Bool) :
    outputsOf ob.id (outer.runTrace flow) =
      outputs (({ branches := ob.st, bufsize := bs, copyBuf := cb } : Split σ α).runTrace flow) :=
  nested_fill_compute outer hv hnd ob hob hk hops hall flow hok bs hbs cb

theorem nested_fill_request_partial (outer : Split (List (Branch σ α)) α) (hv : outer.Valid)
    (hnd : (outer.branches.map (·.id)).Nodup) (ob : Branch (List (Branch σ α)) α)
    (hob : ob ∈ outer.branches) (hk : ob.kind = .fillRequest) (hops : ob.ops = splitOps)
    (hall : ∀ b ∈ ob.st, b.kind = .fillRequest) (flow : List α)
    (hok : (splitFrBlocks ob.st (blocks outer.bufsize flow)).2 = false) (cb : Bool) :
    outputsOf ob.id (outer.runTrace flow) =
      outputs (({ branches := ob.st, bufsize := outer.bufsize, copyBuf := cb } : Split σ α).runTrace flow) :=
  nested_fill_request outer hv hnd ob hob hk hops hall flow hok cb

/-! ## 21. the branch lists the driver builds have distinct ids -/

theorem mkHarnessBranches_ids (l : List BSpec) (start : Nat) :
    (mkHarnessBranches start l).map (·.id) = List.range' start l.length := by
  induction l generalizing start with
  | nil => rfl
  | cons x r ih => simp [mkHarnessBranches, ih, List.range'_succ]

theorem mkHarnessBranches_nodup (l : List BSpec) (start : Nat) :
    ((mkHarnessBranches start l).map (·.id)).Nodup := by
  rw [mkHarnessBranches_ids]; exact List.nodup_range'

theorem mkOuterBranches_nodup (l : List OSpec) (start : Nat) :
    ((mkOuterBranches start l).map (·.id)).Nodup := by
  have : (mkOuterBranches start l).map (·.id) = List.range' start l.length := by
    induction l generalizing start with
    | nil => rfl
    | cons x r ih => cases x <;> simp [mkOuterBranches, ih, List.range'_succ]
  rw [this]; exact List.nodup_range'

theorem mkBranchesX_nodup (l : List OSpecX) (start : Nat) :
    ((mkBranchesX start l).map (·.id)).Nodup := by
  have : (mkBranchesX start l).map (·.id) = List.range' start l.length := by
    induction l generalizing start with
    | nil => rfl
    | cons x r ih =>
      cases x with
      | plain x => simp [mkBranchesX, ih, List.range'_succ]
      | nest inner bs =>
        simp only [mkBranchesX, List.map_cons, List.length_cons, List.range'_succ, ih]
        cases nestKindX inner <;> rfl
  rw [this]; exact List.nodup_range'

/-! ## 22. non-vacuity of hypotheses not instantiated elsewhere -/

section examplesR

-- `splitInit_valid`, `splitInitC_valid`, `classify_tuple_fc`
example : splitInit true [.el ⟨true, true, false, false, false, false, false⟩] (some 3) =
    .ok ([.fillCompute], some 3) := rfl
example : splitInitC true [(.el ⟨false, false, false, true, false, false, false⟩, [true])] (some 3) =
    .ok ([.sequence], none) := rfl
example : splitInitC true [(.el ⟨true, true, false, false, false, false, false⟩, [true])] (some 3) =
    .ok ([.fillCompute], some 3) := rfl
example : ([⟨false, false, false, false, true, false, false⟩,
    ⟨true, true, false, false, false, false, false⟩] : List ElCaps).any ElCaps.isFC = true := by decide
-- `bufArgInit_valid`
example : bufArgInit (.floatInt 2) = .ok (some 2, true) := rfl
-- `splitFill_stop`: the first branch accepts 2, the second (holding 2 values already) raises
example : (demoOps.fill [] 2).2 = false ∧ (demoOps.fill [5, 6] 2).2 = true := by decide
-- `nested_fill_request`
example : (splitFrBlocks demoFR (blocks (some 2) [1, 2, 3])).2 = false := by decide
-- `colAt_eq_some`, `zip_ctx_ith`
example : colAt 1 [[1, 2, 3], [10, 20]] = some [2, 20] := by decide
-- `contribution_causal`: two block lists that agree on the first two blocks
example : ([[1], [2], [3]] : List (List Nat)).take 2 = ([[1], [2], [9, 9]] : List (List Nat)).take 2 := by decide
-- `common_type_source`
example : ∀ b ∈ mkBranches 0 [(Kind.source, demoOps, ([] : List Nat)), (.source, demoOps, [])],
    b.kind = .source := by decide
-- `blockForm`: the four-kind Split of `Props/C03.lean`, blocks [1,2] [3]
example : (demoBranches.map (fun b => outputs (blockForm b [[1, 2], [3]] 1))) = [[103], [3], [], [3]] := by decide
example : (demoBranches.map (fun b => outputs (finalForm b [[1, 2], [3]]))) = [[], [], [], []] := by decide
-- an exception: the trace ends with the raising call (`runX_raised_cut`)
example : (demoSplitX.run [1, 2, 3, 4]).trace.getLast? = some (.fill 1 3 false) := by decide

end examplesR

end Lena.C03
