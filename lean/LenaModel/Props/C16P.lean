import LenaModel.Model.C16
import LenaModel.Model.C16P
import LenaModel.Lemmas.C16
import LenaModel.Lemmas.C16Run
import LenaModel.Props.C16
/-! # C16 — `run` around a Run element that may stop reading its block early

Clause of the property: "for **any** wrapped element … `run` yields block by block exactly what the element yields
for each consecutive block of n values".  Main theorem: `run_blocks_after_patch` — it holds for every Run element, for
the `_run_run` of /repo now (`runRunQ`; fix dbe92ef, notes/C16_defect_1.md).  About the code BEFORE that fix (`runRunP`,
pinned): the clause `run_blocks_full` was *false* (`not_run_blocks_full`, witnesses for `buffer_output` and for
`yield_on_remainder`); what held was `run_blocks_partial` (elements that read their whole block) and
`run_blocks_buffer_input` (every element, `buffer_input` — that branch is unchanged). -/

namespace Lena.C16

variable {σ α β : Type}

/-- the element reads every block completely and runs into its end -/
def Whole (e : ElR σ α β) : Prop := ∀ s b, b.length ≤ (e.run s b).2.2.1 ∧ (e.run s b).2.2.2 = true

/-- **The clause at full strength, for the `_run_run` before fix dbe92ef** (`runRunP`): whatever the flags, `run` around any
Run element yields what the element yields for each consecutive block of `n` values handed to it (and the loop ends). -/
def run_blocks_full : Prop :=
  ∀ (e : ElR (List Nat) Nat (List Nat)) (N : Nat) (rst bi yor : Bool) (s : List Nat) (xs : List Nat), 0 < N →
    runRunP e N rst bi yor s xs = (specBlocksP e N rst yor s (chunks N xs), false)

/-- **It was false of the code before the fix**: an element that reads one value of its block, block size 3, flow `0..6`.
The statement (and `buffer_input`) give `[0]`, `[0, 3]`; `buffer_output` yields nothing (`slice_.count` is never set:
all results lost); `yield_on_remainder` hands the element the "blocks" `[0,1,2]`, `[1,2,3]`, … — seven results. -/
theorem not_run_blocks_full : ¬ run_blocks_full := by
  intro h
  have := h (firstEl (some 1)) 3 false false false [] [0, 1, 2, 3, 4, 5, 6] (by decide)
  revert this
  decide +kernel

example : runRunP (firstEl (some 1)) 3 false true false [] [0, 1, 2, 3, 4, 5, 6] = ([[0], [0, 3]], false) := by
  decide +kernel
example : runRunP (firstEl (some 1)) 3 false false false [] [0, 1, 2, 3, 4, 5, 6] = ([], false) := by decide +kernel
example : (runRunP (firstEl (some 1)) 3 true false true [] [0, 1, 2, 3, 4, 5, 6]).1 =
    [[0], [1], [2], [3], [4], [5], [6]] := by decide +kernel
example : specBlocksP (firstEl (some 1)) 3 true true [] (chunks 3 [0, 1, 2, 3, 4, 5, 6]) = [[0], [3], [6]] := by
  decide +kernel

theorem drop_take_length (l : List α) (k : Nat) : l.drop (l.take k).length = l.drop k := by
  rw [List.length_take]
  by_cases h : k ≤ l.length
  · rw [Nat.min_eq_left h]
  · rw [Nat.min_eq_right (by omega), List.drop_eq_nil_of_le (Nat.le_refl _), List.drop_eq_nil_of_le (by omega)]

theorem runRunBIP_toEl (e : ElR σ α β) (N : Nat) (rst : Bool) : ∀ (k : Nat) (xs : List α) (s : σ), xs.length ≤ k →
    runRunBIP e N rst s xs = runRunBI e.toEl N rst s xs
  | 0, xs, s, h => by
    have : xs = [] := List.length_eq_zero_iff.mp (by omega)
    subst this
    rw [runRunBIP, runRunBI]
    by_cases hN : N = 0
    · rw [dif_pos hN, dif_pos hN]
    · rw [dif_neg hN, dif_neg hN]
      have hlen : (([] : List α).take N).length < N := by simp; omega
      rw [dif_pos hlen, dif_pos hlen]
  | k + 1, xs, s, h => by
    rw [runRunBIP, runRunBI]
    by_cases hN : N = 0
    · rw [dif_pos hN, dif_pos hN]
    · rw [dif_neg hN, dif_neg hN]
      by_cases hlen : (xs.take N).length < N
      · rw [dif_pos hlen, dif_pos hlen]
      · rw [dif_neg hlen, dif_neg hlen]
        have hl : (xs.take N).length = N := by simp only [List.length_take] at hlen ⊢; omega
        have hpos : 0 < xs.length := by
          rcases xs with _ | ⟨a, l⟩
          · simp at hl; omega
          · simp
        simp only []
        rw [runRunBIP_toEl e N rst k (xs.drop N) _ (by simp; omega)]
        rfl

section
variable (e : ElR σ α β) (N : Nat) (rst : Bool) (hw : Whole e)
include hw

theorem readOf_whole (s : σ) (b : List α) : readOf (e.run s b) b = b.length := by
  unfold readOf; have := (hw s b).1; omega

theorem exhaustedOf_whole (s : σ) (b : List α) : exhaustedOf (e.run s b) b = true := by
  unfold exhaustedOf; simp [(hw s b).2, (hw s b).1]

theorem runRunYorP_whole : ∀ (k : Nat) (xs : List α) (s : σ), xs.length ≤ k →
    runRunYorP e N rst s xs = runRunYor e.toEl N rst s xs
  | 0, xs, s, h => by
    have : xs = [] := List.length_eq_zero_iff.mp (by omega)
    subst this; rw [runRunYorP, runRunYor]
  | k + 1, [], s, _ => by rw [runRunYorP, runRunYor]
  | k + 1, x :: rest, s, h => by
    rw [runRunYorP, runRunYor]
    simp only [readOf_whole e hw, List.length_cons, Nat.add_sub_cancel, drop_take_length]
    simp only [List.length_cons] at h
    rw [runRunYorP_whole k _ _ (by simp; omega)]
    rfl

theorem runRunBOP_whole : ∀ (fuel : Nat) (cnt : Nat) (xs : List α) (s : σ), xs.length < fuel →
    runRunBOP e N rst fuel cnt s xs = ((runRunBO e.toEl N rst s xs).1, (runRunBO e.toEl N rst s xs).2, false)
  | 0, _, xs, _, h => by omega
  | fuel + 1, cnt, xs, s, h => by
    rw [runRunBOP, runRunBO]
    by_cases hN : N = 0
    · simp [hN]
    · simp only [hN, if_false, dite_false, exhaustedOf_whole e hw, if_true, readOf_whole e hw]
      by_cases hlen : (xs.take N).length < N
      · simp only [hlen, if_true, dite_true]; rfl
      · simp only [hlen, if_false, dite_false]
        have hl : (xs.take N).length = N := by simp only [List.length_take] at hlen ⊢; omega
        have hpos : 0 < xs.length := by
          rcases xs with _ | ⟨a, l⟩
          · simp at hl; omega
          · simp
        rw [hl, runRunBOP_whole fuel N (xs.drop N) _ (by simp; omega)]
        rfl

end

/-- `specBlocksP` of a Run element is `specBlocks` of its `run` -/
theorem specBlocksP_toEl (e : ElR σ α β) (N : Nat) (rst yor : Bool) : ∀ (bs : List (List α)) (s : σ),
    specBlocksP e N rst yor s bs = specBlocks (blockRun e.toEl) e.reset N rst yor s bs
  | [], _ => rfl
  | b :: bs, s => by
    simp only [specBlocksP, specBlocks, blockRun, ElR.toEl]
    split
    · rw [specBlocksP_toEl e N rst yor bs]; rfl
    · rfl

/-- **`run` block by block, for Run elements that read their whole block** — the part of the clause that holds, for
all three variants of `_run_run`, every block size, flow and state; in particular the loop ends. -/
theorem run_blocks_partial (e : ElR σ α β) (hw : Whole e) (N : Nat) (hN : 0 < N) (rst bi yor : Bool) (s : σ)
    (xs : List α) :
    runRunP e N rst bi yor s xs = (specBlocksP e N rst yor s (chunks N xs), false) := by
  unfold runRunP
  rw [specBlocksP_toEl]
  cases yor with
  | true =>
    simp only [if_true]
    rw [runRunYorP_whole e N rst hw _ xs s (Nat.le_refl _), runRunYor_spec _ _ _ hN _ xs s (Nat.le_refl _)]
    rfl
  | false =>
    simp only [Bool.false_eq_true, if_false]
    cases bi with
    | true =>
      simp only [if_true]
      rw [runRunBIP_toEl e N rst _ xs s (Nat.le_refl _), runRunBI_spec _ _ _ hN _ xs s (Nat.le_refl _)]
      rfl
    | false =>
      simp only [Bool.false_eq_true, if_false]
      rw [runRunBOP_whole e N rst hw _ 0 xs s (by omega), runRunBO_spec _ _ _ hN _ xs s (Nat.le_refl _)]
      rfl

/-- **With `buffer_input` the clause holds for every Run element**, however little of its block it reads: the block
is a list of its own, what the element leaves unread is dropped with it. -/
theorem run_blocks_buffer_input (e : ElR σ α β) (N : Nat) (hN : 0 < N) (rst : Bool) (s : σ) (xs : List α) :
    runRunP e N rst true false s xs = (specBlocksP e N rst false s (chunks N xs), false) := by
  unfold runRunP
  simp only [Bool.false_eq_true, if_false, if_true]
  rw [runRunBIP_toEl e N rst _ xs s (Nat.le_refl _), runRunBI_spec _ _ _ hN _ xs s (Nat.le_refl _), specBlocksP_toEl]
  rfl

theorem runRunYorQ_toEl (e : ElR σ α β) (N : Nat) (rst : Bool) : ∀ (k : Nat) (xs : List α) (s : σ), xs.length ≤ k →
    runRunYorQ e N rst s xs = runRunYor e.toEl N rst s xs
  | 0, xs, s, h => by
    have : xs = [] := List.length_eq_zero_iff.mp (by omega)
    subst this; rw [runRunYorQ, runRunYor]
  | k + 1, [], s, _ => by rw [runRunYorQ, runRunYor]
  | k + 1, x :: rest, s, h => by
    rw [runRunYorQ, runRunYor]
    simp only [List.length_cons] at h
    rw [runRunYorQ_toEl e N rst k _ _ (by simp; omega)]
    rfl

theorem runRunBOQ_toEl (e : ElR σ α β) (N : Nat) (rst : Bool) : ∀ (k : Nat) (xs : List α) (s : σ), xs.length ≤ k →
    runRunBOQ e N rst s xs = runRunBO e.toEl N rst s xs
  | 0, xs, s, h => by
    have : xs = [] := List.length_eq_zero_iff.mp (by omega)
    subst this
    rw [runRunBOQ, runRunBO]
    by_cases hN : N = 0
    · rw [dif_pos hN, dif_pos hN]
    · rw [dif_neg hN, dif_neg hN]
      have hlen : (([] : List α).take N).length < N := by simp; omega
      simp only []
      rw [dif_pos hlen, dif_pos hlen]
      rfl
  | k + 1, xs, s, h => by
    rw [runRunBOQ, runRunBO]
    by_cases hN : N = 0
    · rw [dif_pos hN, dif_pos hN]
    · rw [dif_neg hN, dif_neg hN]
      simp only []
      by_cases hlen : (xs.take N).length < N
      · rw [dif_pos hlen, dif_pos hlen]; rfl
      · rw [dif_neg hlen, dif_neg hlen]
        have hl : (xs.take N).length = N := by simp only [List.length_take] at hlen ⊢; omega
        have hpos : 0 < xs.length := by
          rcases xs with _ | ⟨a, l⟩
          · simp at hl; omega
          · simp
        rw [runRunBOQ_toEl e N rst k (xs.drop N) _ (by simp; omega)]
        rfl

/-- **`run` block by block, for EVERY Run element** (the code of /repo since fix dbe92ef = notes/C16_defect_1.patch): all
three variants of `_run_run`, every block size, flow and state, however little of its block the element reads — the
clause of the property at full strength. -/
theorem run_blocks_after_patch (e : ElR σ α β) (N : Nat) (hN : 0 < N) (rst bi yor : Bool) (s : σ) (xs : List α) :
    (runRunQ e N rst bi yor s xs).1 = specBlocksP e N rst yor s (chunks N xs) := by
  unfold runRunQ
  rw [specBlocksP_toEl]
  cases yor with
  | true =>
    simp only [if_true]
    rw [runRunYorQ_toEl e N rst _ xs s (Nat.le_refl _), runRunYor_spec _ _ _ hN _ xs s (Nat.le_refl _)]
    rfl
  | false =>
    simp only [Bool.false_eq_true, if_false]
    cases bi with
    | true =>
      simp only [if_true]
      rw [runRunBIP_toEl e N rst _ xs s (Nat.le_refl _), runRunBI_spec _ _ _ hN _ xs s (Nat.le_refl _)]
      rfl
    | false =>
      simp only [Bool.false_eq_true, if_false]
      rw [runRunBOQ_toEl e N rst _ xs s (Nat.le_refl _), runRunBO_spec _ _ _ hN _ xs s (Nat.le_refl _)]
      rfl

/-- the element that reads one value of its block, block size 3, flow `0..6`, all three variants -/
example : (runRunQ (firstEl (some 1)) 3 false false false [] [0, 1, 2, 3, 4, 5, 6]).1 = [[0], [0, 3]] := by decide +kernel
example : (runRunQ (firstEl (some 1)) 3 false true false [] [0, 1, 2, 3, 4, 5, 6]).1 = [[0], [0, 3]] := by decide +kernel
example : (runRunQ (firstEl (some 1)) 3 true false true [] [0, 1, 2, 3, 4, 5, 6]).1 = [[0], [3], [6]] := by decide +kernel

/-- the elements of `Model/C16.lean` read their whole block (the hypothesis is satisfiable) -/
theorem whole_ofEl (e : El σ α β) : Whole (ElR.ofEl e) := fun _ _ => ⟨Nat.le_refl _, rfl⟩
example : Whole (firstEl (none : Option Nat) : ElR (List Nat) Nat (List Nat)) := fun _ _ => ⟨Nat.le_refl _, rfl⟩

end Lena.C16
