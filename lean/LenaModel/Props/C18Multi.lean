import LenaModel.Props.C18Split
import LenaModel.Model.C18Multi
/-! # C18 — a Cache in a member of a Split with several members of several types (`Model/C18Multi.lean`)

* the buffer-size rule of `Split.__init__` looks at the members of type *sequence* only and does not care what the
  other members are (`effBufsizeMembers_none`, `effBufsizeTyped_none`): a Cache in a Sequence member makes the Split
  read the whole flow also beside FillCompute / FillRequest members;
* when the Split reads the whole flow, every Cache of every Sequence member that is filled by a run which reaches its
  normal end holds the complete flow that entered it (`splitMulti_stores`) — whatever members run before and after it;
* a run never writes to the file of a cache that is not in the pipeline (`runStages_fs_other`). -/

namespace Lena.C18

/-! ## The buffer-size rule -/

/-- **a Sequence member with a Cache gets the whole flow, whatever the other members are**: FillCompute, FillRequest
or further Sequence members before and after it do not matter -/
theorem effBufsizeMembers_none (bufsize : Option Nat) (members : List Member) (els : List ElSpec)
    (hm : Member.seq els ∈ members) (hc : cacheIds els ≠ []) : effBufsizeMembers bufsize members = none := by
  unfold effBufsizeMembers
  have h : members.any Member.hasCache = true := by
    rw [List.any_eq_true]
    refine ⟨_, hm, ?_⟩
    cases hcs : cacheIds els with
    | nil => exact absurd hcs hc
    | cons c cs => simp [Member.hasCache, hcs]
  cases bufsize <;> simp [h]

/-- … and only such a member does: without a Cache in a Sequence member the buffer size is the argument -/
theorem effBufsizeMembers_keep (bufsize : Option Nat) (members : List Member)
    (h : ∀ m, m ∈ members → m.hasCache = false) : effBufsizeMembers bufsize members = bufsize := by
  unfold effBufsizeMembers
  have : members.any Member.hasCache = false := by
    rw [List.any_eq_false]
    intro m hm
    simp [h m hm]
  simp [this]

/-- for one Sequence member this is the rule of `Model/C18Split.lean` -/
theorem effBufsizeMembers_single (bufsize : Option Nat) (branch : List ElSpec) :
    effBufsizeMembers bufsize [.seq branch] = effBufsize true bufsize branch := by
  unfold effBufsizeMembers effBufsize
  cases bufsize <;> simp [Member.hasCache]

example : effBufsizeMembers (some 2) [.fc 5, .seq [.cache 0 false], .fr 6] = none := by decide
example : effBufsizeMembers (some 2) [.fc 5, .seq [.map 1 none], .fr 6] = some 2 := by decide

/-- the rule on container trees with member types: a member of type *sequence* that holds a Cache at any depth
makes the Split read the whole flow, whatever the types of the other members -/
theorem effBufsizeTyped_none (bufsize : Option Nat) (members : List (MemberTy × CTree)) (t : CTree)
    (hm : (MemberTy.sequence, t) ∈ members) (hc : HasCache t) : effBufsizeTyped bufsize members = none := by
  unfold effBufsizeTyped
  have h : members.any (fun m => m.1 == .sequence && containsCache m.2) = true := by
    rw [List.any_eq_true]
    exact ⟨_, hm, by simp [(containsCache_complete t).mpr hc]⟩
  cases bufsize <;> simp [h]

/-- when all members are of type *sequence* this is `effBufsizeTree` -/
theorem effBufsizeTyped_all_seq (bufsize : Option Nat) : ∀ (members : List (MemberTy × CTree)),
    (∀ m, m ∈ members → m.1 = .sequence) → effBufsizeTyped bufsize members = effBufsizeTree bufsize (members.map (·.2)) := by
  intro members h
  have : members.any (fun m => m.1 == .sequence && containsCache m.2) = anyCache (members.map (·.2)) := by
    induction members with
    | nil => rfl
    | cons m ms ih =>
      have hm := h m (by simp)
      simp only [List.any_cons, List.map_cons, anyCache, hm, beq_self_eq_true, Bool.true_and]
      rw [ih (fun x hx => h x (by simp [hx]))]
  unfold effBufsizeTyped effBufsizeTree
  rw [this]

example : effBufsizeTyped (some 2) [(.fillCompute, .leaf), (.sequence, .seq [.leaf, .split [.leaf, .seq [.cache]]])] = none := by
  decide

/-! ## The run -/

/-- the cache files of the Sequence stages -/
def stageIds : List Stage → List Nat
  | [] => []
  | .run _ els :: ss => cacheIds els ++ stageIds ss
  | .emit _ :: ss => stageIds ss

/-- the cache files of the Sequence members -/
def memberIds : List Member → List Nat
  | [] => []
  | .seq els :: ms => cacheIds els ++ memberIds ms
  | _ :: ms => memberIds ms

theorem stageIds_append : ∀ (a b : List Stage), stageIds (a ++ b) = stageIds a ++ stageIds b
  | [], _ => rfl
  | .run _ els :: a, b => by simp [stageIds, stageIds_append a b]
  | .emit _ :: a, b => by simp [stageIds, stageIds_append a b]

theorem memberIds_append : ∀ (a b : List Member), memberIds (a ++ b) = memberIds a ++ memberIds b
  | [], _ => rfl
  | .seq els :: a, b => by simp [memberIds, memberIds_append a b]
  | .fc _ :: a, b => by simp [memberIds, memberIds_append a b]
  | .fr _ :: a, b => by simp [memberIds, memberIds_append a b]

theorem stageIds_loopStages (buf : List Val) : ∀ (ms : List Member) (j0 : Nat), stageIds (loopStages buf j0 ms) = memberIds ms
  | [], _ => rfl
  | .seq els :: ms, j0 => by simp [loopStages, stageIds, memberIds, stageIds_loopStages buf ms]
  | .fc _ :: ms, j0 => by simp [loopStages, memberIds, stageIds_loopStages buf ms]
  | .fr _ :: ms, j0 => by simp [loopStages, stageIds, memberIds, stageIds_loopStages buf ms]

theorem stageIds_computeStages (buf : List Val) : ∀ (ms : List Member), stageIds (computeStages buf ms) = []
  | [] => rfl
  | .seq _ :: ms => by simp [computeStages, stageIds_computeStages buf ms]
  | .fc _ :: ms => by simp [computeStages, stageIds, stageIds_computeStages buf ms]
  | .fr _ :: ms => by simp [computeStages, stageIds_computeStages buf ms]

theorem stageIds_emptyStages : ∀ (ms : List Member) (j0 : Nat), stageIds (emptyStages j0 ms) = memberIds ms
  | [], _ => rfl
  | .seq els :: ms, j0 => by simp [emptyStages, stageIds, memberIds, stageIds_emptyStages ms]
  | .fc _ :: ms, j0 => by simp [emptyStages, stageIds, memberIds, stageIds_emptyStages ms]
  | .fr _ :: ms, j0 => by simp [emptyStages, stageIds, memberIds, stageIds_emptyStages ms]

theorem stageIds_stagesOf (j0 : Nat) (buf : List Val) (ms : List Member) : stageIds (stagesOf j0 buf ms) = memberIds ms := by
  unfold stagesOf
  split
  · exact stageIds_emptyStages ms j0
  · rw [stageIds_append, stageIds_loopStages, stageIds_computeStages, List.append_nil]

/-- a Sequence member is a Sequence stage -/
theorem loopStages_split (buf : List Val) (els : List ElSpec) (ms2 : List Member) : ∀ (ms1 : List Member) (j0 : Nat),
    ∃ ss1 ss2 j, loopStages buf j0 (ms1 ++ .seq els :: ms2) = ss1 ++ .run j els :: ss2
  | [], j0 => ⟨[], _, j0, rfl⟩
  | .seq e :: ms1, j0 => by
    obtain ⟨ss1, ss2, j, h⟩ := loopStages_split buf els ms2 ms1 (j0 + e.length)
    exact ⟨.run j0 e :: ss1, ss2, j, by simp [loopStages, h]⟩
  | .fc _ :: ms1, j0 => by
    obtain ⟨ss1, ss2, j, h⟩ := loopStages_split buf els ms2 ms1 j0
    exact ⟨ss1, ss2, j, by simp [loopStages, h]⟩
  | .fr a :: ms1, j0 => by
    obtain ⟨ss1, ss2, j, h⟩ := loopStages_split buf els ms2 ms1 j0
    exact ⟨.emit (10 * sumVals buf + a) :: ss1, ss2, j, by simp [loopStages, h]⟩

theorem emptyStages_split (els : List ElSpec) (ms2 : List Member) : ∀ (ms1 : List Member) (j0 : Nat),
    ∃ ss1 ss2 j, emptyStages j0 (ms1 ++ .seq els :: ms2) = ss1 ++ .run j els :: ss2
  | [], j0 => ⟨[], _, j0, rfl⟩
  | .seq e :: ms1, j0 => by
    obtain ⟨ss1, ss2, j, h⟩ := emptyStages_split els ms2 ms1 (j0 + e.length)
    exact ⟨.run j0 e :: ss1, ss2, j, by simp [emptyStages, h]⟩
  | .fc a :: ms1, j0 => by
    obtain ⟨ss1, ss2, j, h⟩ := emptyStages_split els ms2 ms1 j0
    exact ⟨.emit a :: ss1, ss2, j, by simp [emptyStages, h]⟩
  | .fr a :: ms1, j0 => by
    obtain ⟨ss1, ss2, j, h⟩ := emptyStages_split els ms2 ms1 j0
    exact ⟨.emit a :: ss1, ss2, j, by simp [emptyStages, h]⟩

theorem stagesOf_split (j0 : Nat) (buf : List Val) (els : List ElSpec) (ms1 ms2 : List Member) :
    ∃ ss1 ss2 j, stagesOf j0 buf (ms1 ++ .seq els :: ms2) = ss1 ++ .run j els :: ss2 := by
  unfold stagesOf
  split
  · exact emptyStages_split els ms2 ms1 j0
  · obtain ⟨ss1, ss2, j, h⟩ := loopStages_split buf els ms2 ms1 j0
    exact ⟨ss1, ss2 ++ computeStages buf (ms1 ++ .seq els :: ms2), j, by simp [h]⟩

/-- one Sequence stage: the run of the member as an ordinary pipeline on the buffer -/
theorem stage_run_eq (buf : List Val) (fs : FS) (j0 : Nat) (els : List ElSpec) (k : Nat) :
    (drive k fs (buildEls fs j0 els ⟨[], freshSrc ⟨buf, none⟩⟩)).outs = (runPipe .sequence fs ⟨buf, none⟩ els k).outs ∧
    (drive k fs (buildEls fs j0 els ⟨[], freshSrc ⟨buf, none⟩⟩)).end_ = (runPipe .sequence fs ⟨buf, none⟩ els k).end_ ∧
    (drive k fs (buildEls fs j0 els ⟨[], freshSrc ⟨buf, none⟩⟩)).fs = (runPipe .sequence fs ⟨buf, none⟩ els k).fs :=
  drive_branch_eq fs j0 els ⟨buf, none⟩ k

/-- a stage leaves the files of caches that are not in it alone -/
theorem stage_fs_other (buf : List Val) (fs : FS) (j0 : Nat) (els : List ElSpec) (k : Nat) (hd : Distinct els) (c : Nat)
    (hc : c ∉ cacheIds els) : (drive k fs (buildEls fs j0 els ⟨[], freshSrc ⟨buf, none⟩⟩)).fs c = fs c := by
  rw [(stage_run_eq buf fs j0 els k).2.2]
  exact run_touches_only_own_caches .sequence fs ⟨buf, none⟩ els k (Or.inl (by decide)) hd c hc

/-- a stage that reached its normal end yielded fewer values than the consumer was ready to take -/
theorem stage_exhausted_lt (buf : List Val) (fs : FS) (j0 : Nat) (els : List ElSpec) (k : Nat) (hd : Distinct els)
    (hend : (drive k fs (buildEls fs j0 els ⟨[], freshSrc ⟨buf, none⟩⟩)).end_ = .exhausted) :
    (drive k fs (buildEls fs j0 els ⟨[], freshSrc ⟨buf, none⟩⟩)).outs.length < k := by
  obtain ⟨h1, h2, _⟩ := stage_run_eq buf fs j0 els k
  rw [h2] at hend
  have hm : ModeOk .sequence els := Or.inl (by decide)
  obtain ⟨hlen, _⟩ := (run_exhausted_iff .sequence fs ⟨buf, none⟩ els k hm hd).mp hend
  have := congrArg List.length (run_yields_flow .sequence fs ⟨buf, none⟩ els k hm hd).1
  rw [h1]
  simp only [List.length_map, List.length_take] at this
  omega

/-- **the stages write only to the files of their own caches** -/
theorem runStages_fs_other (buf : List Val) (c : Nat) : ∀ (ss : List Stage) (k : Nat) (fs : FS),
    (stageIds ss).Nodup → c ∉ stageIds ss → (runStages buf ss k fs).fs c = fs c
  | [], _, _, _, _ => rfl
  | .emit v :: ss, k, fs, hn, hc => by
    simp only [runStages]
    split
    · rfl
    · exact runStages_fs_other buf c ss (k - 1) fs (by simpa [stageIds] using hn) (by simpa [stageIds] using hc)
  | .run j0 els :: ss, k, fs, hn, hc => by
    simp only [stageIds, List.nodup_append] at hn
    simp only [stageIds, List.mem_append, not_or] at hc
    have h1 := stage_fs_other buf fs j0 els k hn.1 c hc.1
    simp only [runStages]
    split
    · simp only
      rw [runStages_fs_other buf c ss _ _ hn.2.1 hc.2]
      exact h1
    · exact h1

/-- **every Cache of every Sequence stage stores the complete flow that entered it.**  Let the stages be run to
their normal end, cache `c` sit in one of them, not be replayed, with no replayed cache after it in its member.
Then its file holds the whole buffer passed through the elements before it — whatever stages come before and after. -/
theorem runStages_stores (buf : List Val) (j0 : Nat) (pre post : List ElSpec) (c : Nat) (rc : Bool) (ss2 : List Stage) :
    ∀ (ss1 : List Stage) (k : Nat) (fs : FS), 0 < k →
    (stageIds (ss1 ++ .run j0 (pre ++ .cache c rc :: post) :: ss2)).Nodup →
    cacheExists fs c rc = false → NoFilled fs post →
    (runStages buf (ss1 ++ .run j0 (pre ++ .cache c rc :: post) :: ss2) k fs).end_ = .exhausted →
    (runStages buf (ss1 ++ .run j0 (pre ++ .cache c rc :: post) :: ss2) k fs).fs c =
      ⟨some (elsFlow fs pre ⟨buf, none⟩).vals, none⟩
  | [], k, fs, _, hn, hx, hpost, hend => by
    simp only [List.nil_append, stageIds, List.nodup_append] at hn
    have hcin : c ∈ cacheIds (pre ++ .cache c rc :: post) := by simp [cacheIds_append, cacheIds]
    have hc2 : c ∉ stageIds ss2 := fun h => hn.2.2 c hcin c h rfl
    obtain ⟨_, e2, e3⟩ := stage_run_eq buf fs j0 (pre ++ .cache c rc :: post) k
    simp only [List.nil_append, runStages] at hend ⊢
    split at hend
    · rename_i hde
      simp only [hde]
      rw [runStages_fs_other buf c ss2 _ _ hn.2.1 hc2, e3]
      rw [e2] at hde
      obtain ⟨s1, _, _⟩ := first_run_stores .sequence fs ⟨buf, none⟩ pre post c rc k (Or.inl (by decide)) hn.1 hx hpost hde
      rw [s1]
      rfl
    · rename_i hne
      exact absurd hend (by simpa using hne)
  | .emit v :: ss1, k, fs, hk, hn, hx, hpost, hend => by
    simp only [List.cons_append, runStages] at hend ⊢
    split at hend
    · simp at hend
    · rename_i hk1
      simp only [hk1, if_false]
      exact runStages_stores buf j0 pre post c rc ss2 ss1 (k - 1) fs (by omega) (by simpa [stageIds] using hn) hx hpost hend
  | .run j' els' :: ss1, k, fs, hk, hn, hx, hpost, hend => by
    simp only [List.cons_append, stageIds, List.nodup_append] at hn
    have hcin : c ∈ stageIds (ss1 ++ .run j0 (pre ++ .cache c rc :: post) :: ss2) := by
      simp [stageIds_append, stageIds, cacheIds_append, cacheIds]
    have hpin : ∀ d, d ∈ cacheIds pre ∨ d ∈ cacheIds post → d ∈ stageIds (ss1 ++ .run j0 (pre ++ .cache c rc :: post) :: ss2) := by
      intro d hd
      simp only [stageIds_append, stageIds, cacheIds_append, cacheIds, List.mem_append, List.mem_cons]
      rcases hd with hd | hd
      · exact Or.inr (Or.inl (Or.inl hd))
      · exact Or.inr (Or.inl (Or.inr (Or.inr hd)))
    have hother : ∀ d, d ∈ stageIds (ss1 ++ .run j0 (pre ++ .cache c rc :: post) :: ss2) →
        (drive k fs (buildEls fs j' els' ⟨[], freshSrc ⟨buf, none⟩⟩)).fs d = fs d := by
      intro d hd
      exact stage_fs_other buf fs j' els' k hn.1 d (fun h => hn.2.2 d h d hd rfl)
    simp only [List.cons_append, runStages] at hend ⊢
    split at hend
    · rename_i hde
      simp only [hde]
      have hlt := stage_exhausted_lt buf fs j' els' k hn.1 hde
      have hx' : cacheExists (drive k fs (buildEls fs j' els' ⟨[], freshSrc ⟨buf, none⟩⟩)).fs c rc = false := by
        simp only [cacheExists, hother c hcin] at hx ⊢; exact hx
      have hpost' : NoFilled (drive k fs (buildEls fs j' els' ⟨[], freshSrc ⟨buf, none⟩⟩)).fs post := by
        intro d rd hdm
        have := hpost d rd hdm
        simp only [cacheExists, hother d (hpin d (Or.inr (mem_cacheIds_of_mem hdm)))] at this ⊢; exact this
      rw [runStages_stores buf j0 pre post c rc ss2 ss1 _ _ (by omega) hn.2.1 hx' hpost' hend]
      have hcongr : elsFlow (drive k fs (buildEls fs j' els' ⟨[], freshSrc ⟨buf, none⟩⟩)).fs pre ⟨buf, none⟩ =
          elsFlow fs pre ⟨buf, none⟩ :=
        elsFlow_congr pre _ (fun d hd => by rw [hother d (hpin d (Or.inl hd))])
      rw [hcongr]
    · rename_i hne
      exact absurd hend (by simpa using hne)

/-- **a Cache in a member of a Split with several members stores the whole flow.**  Let the Split read the whole
flow at once, cache `c` sit in a Sequence member (after `ms1`, before `ms2` — Sequences, FillComputes, FillRequests),
not be replayed, with no replayed cache after it in its member, all cache files of the pipeline be distinct, and let
the run reach its normal end.  Then the outer flow ended normally and the cache file holds the complete flow that
entered the cache: the values of the whole outer flow passed through the elements of the member before it. -/
theorem splitMulti_stores (fs : FS) (r : MultiSpec) (ms1 ms2 : List Member) (pre post : List ElSpec) (c : Nat) (rc : Bool)
    (hmem : r.members = ms1 ++ .seq (pre ++ .cache c rc :: post) :: ms2)
    (hd : (cacheIds r.outer ++ memberIds r.members).Nodup)
    (hx : cacheExists fs c rc = false) (hpost : NoFilled fs post)
    (hend : (runSplitMulti fs r).end_ = .exhausted) :
    (pipeFlow fs r.src r.outer).exc = none ∧
    (runSplitMulti fs r).fs c = ⟨some (elsFlow fs pre ⟨(pipeFlow fs r.src r.outer).vals, none⟩).vals, none⟩ := by
  rw [List.nodup_append] at hd
  obtain ⟨hdo, hdm, hdisj⟩ := hd
  have hm : ModeOk .source r.outer := Or.inl (by decide)
  have ok := chainOk_build .source fs r.src r.outer hm hdo
  have hbig := bigDemandOf_gt fs r.src r.outer
  have sp := drive_spec (bigDemandOf fs r.src r.outer) fs _ ok
  unfold DriveSpec at sp
  rw [rem_build .source fs r.src r.outer hm] at sp
  obtain ⟨h1, _, _, _, _, h6, h7⟩ := sp
  obtain ⟨k, hk⟩ : ∃ k, r.demand = k + 1 := by
    cases hdem : r.demand with
    | zero => simp [runSplitMulti, hdem] at hend
    | succ k => exact ⟨k, rfl⟩
  have hmids : ∀ d, d ∈ cacheIds pre ∨ d = c ∨ d ∈ cacheIds post → d ∈ memberIds r.members := by
    intro d h
    rw [hmem, memberIds_append]
    simp only [memberIds, cacheIds_append, cacheIds, List.mem_append, List.mem_cons]
    rcases h with h | h | h
    · exact Or.inr (Or.inl (Or.inl h))
    · exact Or.inr (Or.inl (Or.inr (Or.inl h)))
    · exact Or.inr (Or.inl (Or.inr (Or.inr h)))
  -- reading the outer flow does not touch the files of the members' caches
  have hofs : ∀ d, d ∈ memberIds r.members →
      (drive (bigDemandOf fs r.src r.outer) fs (build .source fs r.src r.outer)).fs d = fs d := by
    intro d hdm'
    exact run_touches_only_own_caches .source fs r.src r.outer _ hm hdo d (fun h => hdisj d h d hdm' rfl)
  cases he : (pipeFlow fs r.src r.outer).exc with
  | some e =>
    obtain ⟨hoe, _⟩ := h7 e hbig he
    simp [runSplitMulti, hk, hoe] at hend
  | none =>
    refine ⟨rfl, ?_⟩
    obtain ⟨hoe, _⟩ := h6 hbig he
    have hbuf : (drive (bigDemandOf fs r.src r.outer) fs (build .source fs r.src r.outer)).outs.map (·.1) =
        (pipeFlow fs r.src r.outer).vals := by
      rw [h1, List.take_of_length_le (by omega)]
    obtain ⟨ss1, ss2, j, hst⟩ := stagesOf_split r.outer.length (pipeFlow fs r.src r.outer).vals (pre ++ .cache c rc :: post) ms1 ms2
    have hn : (stageIds (ss1 ++ .run j (pre ++ .cache c rc :: post) :: ss2)).Nodup := by
      rw [← hst, stageIds_stagesOf, ← hmem]; exact hdm
    have hx' : cacheExists (drive (bigDemandOf fs r.src r.outer) fs (build .source fs r.src r.outer)).fs c rc = false := by
      simp only [cacheExists, hofs c (hmids c (Or.inr (Or.inl rfl)))] at hx ⊢; exact hx
    have hpost' : NoFilled (drive (bigDemandOf fs r.src r.outer) fs (build .source fs r.src r.outer)).fs post := by
      intro d rd hdm'
      have := hpost d rd hdm'
      simp only [cacheExists, hofs d (hmids d (Or.inr (Or.inr (mem_cacheIds_of_mem hdm'))))] at this ⊢; exact this
    simp only [runSplitMulti, hk, hoe, hbuf, hmem, hst] at hend ⊢
    rw [runStages_stores _ j pre post c rc ss2 ss1 (k + 1) _ (by omega) hn hx' hpost' hend]
    have hcongr : elsFlow (drive (bigDemandOf fs r.src r.outer) fs (build .source fs r.src r.outer)).fs pre
          ⟨(pipeFlow fs r.src r.outer).vals, none⟩ = elsFlow fs pre ⟨(pipeFlow fs r.src r.outer).vals, none⟩ :=
      elsFlow_congr pre _ (fun d hd' => by rw [hofs d (hmids d (Or.inl hd'))])
    rw [hcongr]

/-- if reading the outer flow raises, the run ends with that exception, nothing is yielded and no cache file
changes -/
theorem splitMulti_outer_raises (fs : FS) (r : MultiSpec) (hdo : Distinct r.outer) (e : Exc)
    (he : (pipeFlow fs r.src r.outer).exc = some e) (hk : 0 < r.demand) :
    (runSplitMulti fs r).outs = [] ∧ (runSplitMulti fs r).end_ = .raised e ∧
    ∀ c, ((runSplitMulti fs r).fs c).final = (fs c).final := by
  have hm : ModeOk .source r.outer := Or.inl (by decide)
  have sp := drive_spec (bigDemandOf fs r.src r.outer) fs _ (chainOk_build .source fs r.src r.outer hm hdo)
  unfold DriveSpec at sp
  rw [rem_build .source fs r.src r.outer hm] at sp
  obtain ⟨hoe, hfin⟩ := sp.2.2.2.2.2.2 e (bigDemandOf_gt fs r.src r.outer) he
  obtain ⟨k, hk'⟩ : ∃ k, r.demand = k + 1 := ⟨r.demand - 1, by omega⟩
  simp only [runSplitMulti, hk', hoe]
  exact ⟨trivial, trivial, hfin⟩

/-- the demo of notes/adversary_C18/1: `Split([Sequence(Cache), Sum()], bufsize=2)` over 0 1 2 3 4 — the Cache
member yields and stores the whole flow, then the FillCompute member yields its result -/
example :
    let r : MultiSpec := ⟨⟨[0, 1, 2, 3, 4], none⟩, [], [.seq [.cache 0 false], .fc 0], some 2, 99, false⟩
    effBufsizeMembers r.bufsize r.members = none ∧
    (runSplitMulti FS.empty r).outs.map (·.1) = [0, 1, 2, 3, 4, 100] ∧
    (runSplitMulti FS.empty r).end_ = .exhausted ∧
    (runSplitMulti FS.empty r).fs 0 = ⟨some [0, 1, 2, 3, 4], none⟩ := by decide

/-- non-vacuity of `splitMulti_stores`: a FillCompute before, a FillRequest and a Sequence with a second Cache after -/
example :
    let r : MultiSpec := ⟨⟨[1, 2, 3], none⟩, [.map 3 none],
      [.fc 5, .seq [.map 1 none, .cache 0 false, .map 2 none], .fr 6, .seq [.cache 1 false]], some 2, 99, false⟩
    (runSplitMulti FS.empty r).end_ = .exhausted ∧
    (runSplitMulti FS.empty r).fs 0 = ⟨some [131, 231, 331], none⟩ ∧
    (runSplitMulti FS.empty r).fs 1 = ⟨some [13, 23, 33], none⟩ := by decide

end Lena.C18
