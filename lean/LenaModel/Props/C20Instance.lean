import LenaModel.Props.C20
import LenaModel.Gen.C20Facts
/-! # C20 — the instance theorems: the current working tree

`Gen.current` are the facts the translator (`harness/extract_facts.py`) extracted from the tree
under test just before this file is built (`./check C20` regenerates `LenaModel/Gen/C20Facts.lean`
on every run), so the theorems below are re-checked by the kernel against what the code says
*now*.  An edit of lena that introduces an unresolved global, a missing attribute of a lena module,
an advertised name that does not exist or an import that fails makes `decide` evaluate the check to
`false`; the build fails and the harness reports the offending (module, function, name). -/

namespace Lena.C20

/-- **The current tree resolves, in every environment**: the executable check, evaluated by the
kernel on the generated facts — one `decide` per conjunct: for every environment of
`Gen.current.envs` (every subset of the third-party modules that lena's import-time code imports,
e.g. jinja2 present / jinja2 absent) the layout of the state encoding, then every entry point
(each sub-package imported alone in a fresh interpreter, and all of them together). -/
theorem current_tree_resolves : resolvesAllEnvs Gen.current = true := by
  unfold resolvesAllEnvs resolvesAll
  simp only [Gen.current, Facts.withEnv, List.all_cons, List.all_nil, Bool.and_true, Bool.and_eq_true]
  repeat' apply And.intro
  all_goals decide +kernel

/-- **No code path of the current tree can fail by referring to an undefined name, whichever
optional third-party modules are missing**: for every environment `env`, for every sub-package
`lena.X` (and for the whole framework), `import lena.X; from lena.X import *` succeeds in a fresh
interpreter, and afterwards every function, method and lambda of every imported module, called in
any order any number of times, resolves every global name and every attribute of a lena module
it loads. -/
theorem current_tree_safe (env : Nat) (henv : env ∈ Gen.current.envs) (e : ModId) (he : e ∈ Gen.current.entries) :
    ∃ σ₀, importEntry (Gen.current.withEnv env) e = .ok (σ₀, none) ∧
      ∀ σ, Reach (Gen.current.withEnv env) σ₀ σ → Safe (Gen.current.withEnv env) σ :=
  resolver_sound_envs Gen.current current_tree_resolves env henv e he

/-- **Every advertised name of the current tree exists, whichever optional third-party modules
are missing**: for every environment, every entry point `e`, every package `p` it star-imports
(the entry's import, which succeeds, contains `from p import *`): `p.__all__` is a literal list
and every name `n` of it is an attribute of `p`. -/
theorem all_exported (env : Nat) (henv : env ∈ Gen.current.envs) (e : ModId) (he : e ∈ Gen.current.entries)
    (E : Module) (hE : Gen.current.modOf e = some E) (p : ModId) (hp : Ev.star p ∈ E.evs)
    (P : Module) (hP : Gen.current.modOf p = some P) (names : List Name) (hall : P.all = some names) :
    ∃ σ₀, importEntry (Gen.current.withEnv env) e = .ok (σ₀, none) ∧ P.allDynamic = false ∧
      ∀ n ∈ names, (σ₀.get (Gen.current.withEnv env) p n).isSome = true :=
  exported_envs Gen.current current_tree_resolves env henv e he E hE p hp P hP names hall

/-- the executable check for handlers, evaluated by the kernel on the generated facts, one
`decide` per environment -/
theorem current_order_independent : orderIndependentEnvs Gen.current = true := by
  unfold orderIndependentEnvs
  simp only [Gen.current, List.all_cons, List.all_nil, Bool.and_true, Bool.and_eq_true]
  repeat' apply And.intro
  all_goals decide +kernel

/-- **Every function of the current tree takes the same handlers for undefined-name failures with
only its own sub-package imported as after the whole framework has been imported**, whichever
optional third-party modules are missing: for every environment, every sub-package `lena.X`, every
function, method and lambda that can be called after `import lena.X`: the `NameError`s,
`AttributeError`s on lena modules and lena `ImportError`s that its own `try … except`, `hasattr`
and `getattr(…, default)` catch are the same in the fresh interpreter that imported only `lena.X`
as in the one that imported everything. -/
theorem current_handlers_order_independent (env : Nat) (henv : env ∈ Gen.current.envs)
    (whole : ModId) (hw : wholeEntry Gen.current = some whole) (σw : State)
    (hiw : importEntry (Gen.current.withEnv env) whole = .ok (σw, none))
    (own : ModId) (ho : own ∈ Gen.current.entries) (σo : State)
    (hio : importEntry (Gen.current.withEnv env) own = .ok (σo, none))
    (m : ModId) (f : Func) (hc : Callable (Gen.current.withEnv env) σo m f) (hcw : σw.statusOf m = .done) :
    callCaught (Gen.current.withEnv env) m f σo = callCaught (Gen.current.withEnv env) m f σw :=
  handlers_order_independent_envs Gen.current current_order_independent env henv whole hw σw hiw own ho σo hio
    m f hc hcw

example : (wholeEntry Gen.current).isSome = true := by decide

/-- the class and `raise` facts of the current tree pass the check -/
theorem current_exceptions_ok : exceptionsOk Gen.current = true := by decide +kernel

/-- **All lena exceptions of the current tree derive from LenaException**: there is a class
`LenaException`, and every class defined in `lena/core/exceptions.py` has it among its ancestors. -/
theorem lena_exceptions_derive :
    ∃ root, Gen.current.excRoot = some root ∧
      ∀ i C, Gen.current.classes[i]? = some C → C.isLenaExc = true → Derives Gen.current i root :=
  let ⟨root, h1, h2, _⟩ := exceptions_of_ok Gen.current current_exceptions_ok
  ⟨root, h1, h2⟩

/-- **Every `raise` statement of the current tree that names a class names a documented
exception**: a class that derives from `LenaException`, or a builtin that no lena exception wraps
(`ImportError`, `StopIteration`), or `AttributeError` inside `__getattr__`/`__setattr__`. -/
theorem current_raises_documented : ∀ r ∈ Gen.current.raises, RaiseOk Gen.current r :=
  let ⟨_, _, _, h3⟩ := exceptions_of_ok Gen.current current_exceptions_ok
  h3

/- (`current_locals_audited` was removed: a read of a local that CPython cannot prove bound is a hint
for the dynamic search, listed in the evidence — not a verdict and not a proof obligation; a harmless
rename of a local must not break the build.) -/

/-- **No function of the current tree reads a local that is certainly unbound**: no name is read after
the `except … as` clause or the `del` that unbound it, or before anything has bound it
(`UnboundLocalError` is a `NameError`).  Conditionally bound locals are hints only (see above). -/
theorem current_no_dead_local_loads : deadLoadsOk Gen.currentDeadLoads = true := by decide

/-- … hence no function of any module of the current tree fails with such a `NameError` -/
theorem current_no_local_name_error (m : ModId) (fn var : Name) :
    Err.nameError m (some fn) var ∉ localNameErrors Gen.currentDeadLoads :=
  no_local_name_error _ current_no_dead_local_loads _

example : Gen.current.raises ≠ [] := by decide
example : (Gen.current.classes.any (·.isLenaExc)) = true := by decide

/-- the fixpoint iteration reached a closed set for every entry point of the current tree -/
theorem current_closures_ok : closuresOk Gen.current = true := by decide +kernel

/-- **What `import lena.X` loads, for the current tree**: every module in `sys.modules` after an
entry point's import is in the static import closure of that entry. -/
theorem current_loaded_within_closure (env : Nat) (e : ModId) (he : e ∈ Gen.current.entries) (σ : State)
    (exc : Option Nat) (hi : importEntry (Gen.current.withEnv env) e = .ok (σ, exc)) (c : ModId)
    (hc : σ.statusOf c ≠ .absent) : memSet (importClosure Gen.current e) c = true :=
  loaded_within_closure (Gen.current.withEnv env) current_closures_ok e he σ exc hi c hc

/-- non-vacuity: there are environments and entry points, and they star-import packages that advertise names -/
example : Gen.current.entries ≠ [] := by decide
example : Gen.current.envs ≠ [] := by decide
example : (Gen.current.entries.any fun e =>
    match Gen.current.modOf e with
    | some E => E.evs.any fun ev =>
      match ev with
      | .star p =>
        match Gen.current.modOf p with
        | some P => !(P.all.getD []).isEmpty
        | none => false
      | _ => false
    | none => false) = true := by decide

end Lena.C20
