import LenaModel.Props.C11E
/-! # C11 — property theorems, third part (adversary round): which histograms are selected

Sentences (5) and (6) speak about the histograms `IterateBins` / `MapBins` work on.  Which ones these are is
decided by two constructor arguments that the first two parts kept abstract or fixed:

* **`select_bins`** is turned into a `lena.flow.Selector`; `Model/C11.lean` now transcribes the forms a selector is
  made from (`SelForm`: a callable, a class, a context string, a list = *or*, a tuple = *and*) and
  `lena.context.contains` (`containsV`).  `selector_or_iff`, `selector_and_iff`, `selector_class_data_only`,
  `selector_string_needs_context`, `contains_spec` say what such a selector selects; `iterate_bins_once_form` and
  `map_bins_shape_form` are sentences (5) and (6) for a histogram selected that way.
* **`get_example_bin`** of `MapBins` (the "arbitrary bin" that `select_bins` tests and whose context goes to
  `context.value`): `mapBinsOneG` has it as a parameter.  `mapBinsOneG_default` (the model of the first part is the
  case of the default function), `map_bins_shape_G` (sentence (6) whatever bin the caller's function picks),
  `map_bins_passes_G` (a histogram whose example bin — *the caller's* — is not selected passes unchanged; an
  exception of the caller's function is raised), `map_bins_example_irrelevant` (the bins of the result do not
  depend on which bin is the example), `lastOfArray_is_cell`.

As in the other parts: a value model.  That `MapBins` really calls the function it was given is what the
correspondence run checks (`get_example_bin` = first / last cell, cells with different contexts). -/

namespace Lena.C11

open Lena
open Lena.C06 (Edges Coord ValidEdges ValidAxis dimsOf InCell GuessesOK Proper)
open Lena.C14 (V Slots Value getSlot setSlot emptyD key)

set_option linter.unusedSectionVars false

variable {α β γ σ ρ ε D ο : Type}

/-! ## `Selector` -/
section Selector
variable (names : List String)

/-- a list of selectors selects a value iff one of its items does (`Or.__call__` = `any`) -/
theorem selector_or_iff (l : List (SelAtom D)) (v : Value D) :
    (SelForm.any l).eval names v = true ↔ ∃ a ∈ l, a.eval names v = true := by
  simp [SelForm.eval]

/-- a tuple of selectors selects a value iff all of its items do (`And.__call__` = `all`); in particular the
empty tuple selects everything and the empty list nothing -/
theorem selector_and_iff (l : List (SelAtom D)) (v : Value D) :
    (SelForm.all l).eval names v = true ↔ ∀ a ∈ l, a.eval names v = true := by
  simp [SelForm.eval]

/-- a class looks at the data part only: the context of the value (present or not) is irrelevant -/
theorem selector_class_data_only (p : D → Bool) (d : D) (c : Slots) :
    (SelAtom.cls p).eval names (.pair d c) = p d ∧ (SelAtom.cls p).eval names (.bare d) = p d :=
  ⟨rfl, rfl⟩

theorem getSlot_emptyD (n k : Nat) : getSlot (emptyD n) k = none := by
  simp only [getSlot, emptyD, List.getElem?_replicate]
  split <;> rename_i h
  · split at h <;> simp_all
  · rfl

/-- **A string selector needs a context.**  `IterateBins` applies `select_bins` to the *data part* of the example
bin (a value without context): a non-empty string never selects there, whereas `MapBins`, which applies it to
the whole bin, selects by the bin's context. -/
theorem selector_string_needs_context (k : String) (ks : List String) (d : D) :
    (SelAtom.ctx (k :: ks) : SelAtom D).eval names (.bare d) = false := by
  simp only [SelAtom.eval, C14.getDataContext]
  cases ks with
  | nil => simp [containsV, getSlot_emptyD]
  | cons l r => simp [containsV, getSlot_emptyD]

/-- `lena.context.contains`: the empty string is the context itself; one level is a key; several levels walk
through nested dictionaries and end in a key of the last dictionary or in the string form of a value -/
theorem contains_spec (d : Slots) :
    containsV names [] (.dict d) = true ∧
    (∀ k, containsV names [k] (.dict d) = (getSlot d (key names k)).isSome) ∧
    (∀ k l r, containsV names (k :: l :: r) (.dict d) =
      match getSlot d (key names k) with
      | none => false
      | some v => containsV names (l :: r) v) ∧
    (∀ last (s : String), containsV names [last] (.str s) = (s == last)) ∧
    (∀ last (i : Int), containsV names [last] (.int i) = (toString i == last)) ∧
    (∀ k l r (s : String), containsV names (k :: l :: r) (.str s) = false) :=
  ⟨rfl, fun _ => rfl, fun _ _ _ => rfl, fun _ _ => rfl, fun _ _ => rfl, fun _ _ _ _ => rfl⟩

end Selector

/-! ## `IterateBins` / `MapBins` with a selector form, `MapBins` with the caller's `get_example_bin` -/
section Bins
variable [LT α] [LE α] [DecidableLT α] [DecidableLE α] [DecidableEq α]
  [Std.IsLinearOrder α] [Std.LawfulOrderLT α]
variable (names : List String)

/-- **Sentence (5) for `IterateBins(select_bins=form)`**: a histogram (valid edges, regular bins) the data part of
whose example bin the selector form selects is enumerated cell by cell. -/
theorem iterate_bins_once_form (form : SelForm D) (createEdgesStr : List (α × α) → Option V → Except (Exc ε) V)
    (encEdges : List (α × α) → V) {h : Hist α (Value D)} (he : ValidEdges h.edges)
    (hs : NArr.HasShape (dimsOf h.edges.axes) h.bins) (ctx : Option Slots)
    (hsel : ∀ b00, (exampleBin h : Except (Exc ε) (Value D)) = .ok b00 →
      form.eval names (.bare (C14.getDataContext names b00).1) = true) :
    iterateBinsOne names (form.evalData names) createEdgesStr encEdges (.hist h ctx) =
      traceMapM (cellOutput names createEdgesStr encEdges (ctx.getD (emptyD names.length)) h.edges.axes)
        (NArr.cells h.bins) :=
  iterate_bins_once names (form.evalData names) createEdgesStr encEdges he hs ctx hsel

/-- the default `get_example_bin` gives the model of the first part -/
theorem mapBinsOneG_default (seqStart : Value D → Except ε (Trace (Value D) ε)) (sel : Value D → Bool)
    (drop : Bool) (fv : FVal α D) :
    mapBinsOneG names exampleBin exampleOfArray seqStart sel drop fv = mapBinsOne names seqStart sel drop fv := by
  cases fv <;> rfl

/-- what `MapBins` does with a histogram whose example bin — the one the caller's function returns — is selected -/
theorem mapBinsOneG_selected (exHist : Hist α (Value D) → Except (Exc ε) (Value D))
    (exArr : NArr (Value D) → Except (Exc ε) (Value D))
    (seqStart : Value D → Except ε (Trace (Value D) ε)) (sel : Value D → Bool)
    (drop : Bool) (h : Hist α (Value D)) (ctx : Option Slots) (b00 : Value D)
    (hb : exHist h = .ok b00) (hsel : sel b00 = true) :
    mapBinsOneG names exHist exArr seqStart sel drop (.hist h ctx) =
      (match mdMapE (startCell seqStart) .lenaTypeError .unmodelled h.bins with
       | .error e => ⟨[], some e⟩
       | .ok traces =>
         mdSeqMapRun (mapBinsResultG names exArr drop h.edges (ctx.getD (emptyD names.length))) traces) := by
  simp only [mapBinsOneG, hb, hsel, Bool.not_true, Bool.false_eq_true, if_false]
  rfl

/-- **Sentence (6) with a caller's `get_example_bin`.**  Whatever bin the caller's function returns for the
histogram (`exHist`) and for the transformed bins (`exArr`): when that bin is selected, the `j`-th value yielded
is a histogram over the same edges, of the same regular shape, whose cell `p` holds the `j`-th result of a fresh
copy of the sequence run on the cell `p` alone (its data part when `drop_bins_context` is set). -/
theorem map_bins_shape_G (exHist : Hist α (Value D) → Except (Exc ε) (Value D))
    (exArr : NArr (Value D) → Except (Exc ε) (Value D))
    (seqStart : Value D → Except ε (Trace (Value D) ε)) (sel : Value D → Bool) (drop : Bool)
    {h : Hist α (Value D)} (he : ValidEdges h.edges) (hs : NArr.HasShape (dimsOf h.edges.axes) h.bins)
    (ctx : Option Slots) (b00 : Value D) (hb : exHist h = .ok b00) (hsel : sel b00 = true)
    (j : Nat) (fv : FVal α D)
    (hj : (mapBinsOneG names exHist exArr seqStart sel drop (.hist h ctx)).out[j]? = some fv) :
    ∃ h' c', fv = .hist h' (some c') ∧ h'.edges = h.edges ∧ NArr.HasShape (dimsOf h.edges.axes) h'.bins ∧
      ∀ p cell, cellAt h.bins p = some cell →
        ∃ t r, seqStart cell = .ok t ∧ t.out[j]? = some r ∧
          cellAt h'.bins p = some (if drop then dataOnly names r else r) := by
  rw [mapBinsOneG_selected names exHist exArr seqStart sel drop h ctx b00 hb hsel] at hj
  cases hd : dimsOf h.edges.axes with
  | nil => exact absurd hd (dimsOf_ne_nil' he)
  | cons n ns =>
    have hs' := hs
    rw [hd] at hs'
    cases hst0 : mdMapE (startCell seqStart) (Exc.lenaTypeError : Exc ε) .unmodelled h.bins with
    | error e => simp [hst0] at hj
    | ok traces =>
    simp only [hst0] at hj
    obtain ⟨hst, hcok⟩ := (mdMapE_char (startCell seqStart) _ _ (n :: ns) h.bins hs' (by simp)).1 traces hst0
    obtain ⟨result, hsh, hc, hm⟩ := mdSeqMapRun_out _ _ hst (by simp) j _ hj
    have hcells : ∀ p cell, cellAt h.bins p = some cell →
        ∃ t r, seqStart cell = .ok t ∧ t.out[j]? = some r ∧ cellAt result p = some r := by
      intro p cell hp
      obtain ⟨t', ht', hct⟩ := hcok p cell hp
      obtain ⟨t, hst1, rfl⟩ := (startCell_ok_iff seqStart cell t').1 ht'
      obtain ⟨r, hr, hcr⟩ := hc p _ hct
      exact ⟨t, r, hst1, hr, hcr⟩
    unfold mapBinsResultG at hm
    cases drop with
    | true =>
      simp only [if_true, mdMap_ok _ ns n result hsh, liftErr] at hm
      cases hmk : (mkHistogram h.edges (NArr.map (dataOnly names) result) : Except (Exc ε) (Hist α (Value D))) with
      | error e => simp [hmk] at hm
      | ok nh =>
        have := mkHistogram_eq hmk
        subst this
        simp only [hmk] at hm
        cases hex : exArr result with
        | error e => simp [hex] at hm
        | ok ex =>
          simp only [hex] at hm
          have hshape : NArr.HasShape (n :: ns) (NArr.map (dataOnly names) result) := hasShape_map _ _ _ hsh
          have hcell' : ∀ p cell, cellAt h.bins p = some cell →
              ∃ t r, seqStart cell = .ok t ∧ t.out[j]? = some r ∧
                cellAt (NArr.map (dataOnly names) result) p = some (dataOnly names r) := by
            intro p cell hp
            obtain ⟨t, r, hst1, hr, hcr⟩ := hcells p cell hp
            exact ⟨t, r, hst1, hr, by simp [cellAt_map, hcr]⟩
          split at hm
          · split at hm
            · simp at hm
            · simp only [Except.ok.injEq] at hm
              exact ⟨_, _, hm.symm, rfl, hshape, by simpa using hcell'⟩
          · simp only [Except.ok.injEq] at hm
            exact ⟨_, _, hm.symm, rfl, hshape, by simpa using hcell'⟩
    | false =>
      simp only [Bool.false_eq_true, if_false] at hm
      cases hmk : (mkHistogram h.edges result : Except (Exc ε) (Hist α (Value D))) with
      | error e => simp [hmk] at hm
      | ok nh =>
        have := mkHistogram_eq hmk
        subst this
        simp only [hmk] at hm
        cases hex : exArr result with
        | error e => simp [hex] at hm
        | ok ex =>
          simp only [hex] at hm
          split at hm
          · split at hm
            · simp at hm
            · simp only [Except.ok.injEq] at hm
              exact ⟨_, _, hm.symm, rfl, hsh, by simpa using hcells⟩
          · simp only [Except.ok.injEq] at hm
            exact ⟨_, _, hm.symm, rfl, hsh, by simpa using hcells⟩

/-- **Sentence (6) for `MapBins(seq, select_bins=form)`** with the default `get_example_bin`: a histogram whose
first cell the selector form selects (by its data, or by its context: a string) is transformed cell by cell. -/
theorem map_bins_shape_form (form : SelForm D) (seqStart : Value D → Except ε (Trace (Value D) ε)) (drop : Bool)
    {h : Hist α (Value D)} (he : ValidEdges h.edges) (hs : NArr.HasShape (dimsOf h.edges.axes) h.bins)
    (ctx : Option Slots)
    (hsel : ∀ b00, (exampleBin h : Except (Exc ε) (Value D)) = .ok b00 → form.eval names b00 = true)
    (j : Nat) (fv : FVal α D)
    (hj : (mapBinsOne names seqStart (form.eval names) drop (.hist h ctx)).out[j]? = some fv) :
    ∃ h' c', fv = .hist h' (some c') ∧ h'.edges = h.edges ∧ NArr.HasShape (dimsOf h.edges.axes) h'.bins ∧
      ∀ p cell, cellAt h.bins p = some cell →
        ∃ t r, seqStart cell = .ok t ∧ t.out[j]? = some r ∧
          cellAt h'.bins p = some (if drop then dataOnly names r else r) :=
  map_bins_shape names seqStart (form.eval names) drop he hs ctx hsel j fv hj

/-- values that are not histograms pass; a histogram whose example bin — the caller's — is not selected passes
unchanged; when the caller's function raises on the histogram, `MapBins` raises that and yields nothing -/
theorem map_bins_passes_G (exHist : Hist α (Value D) → Except (Exc ε) (Value D))
    (exArr : NArr (Value D) → Except (Exc ε) (Value D))
    (seqStart : Value D → Except ε (Trace (Value D) ε)) (sel : Value D → Bool) (drop : Bool) :
    (∀ v : Value D, mapBinsOneG names exHist exArr seqStart sel drop (.plain v : FVal α D) = ⟨[.plain v], none⟩) ∧
    (∀ (h : Hist α (Value D)) (ctx : Option Slots) (b00 : Value D), exHist h = .ok b00 → sel b00 = false →
      mapBinsOneG names exHist exArr seqStart sel drop (.hist h ctx) = ⟨[.hist h ctx], none⟩) ∧
    (∀ (h : Hist α (Value D)) (ctx : Option Slots) (e : Exc ε), exHist h = .error e →
      mapBinsOneG names exHist exArr seqStart sel drop (.hist h ctx) = ⟨[], some e⟩) := by
  refine ⟨fun v => rfl, ?_, ?_⟩
  · intro h ctx b00 hb hsel
    simp [mapBinsOneG, hb, hsel]
  · intro h ctx e hb
    simp [mapBinsOneG, hb]

/-- **The example bin does not influence the bins of the result.**  Two `MapBins` that differ only in their
`get_example_bin` and both select the histogram: whenever both yield a `j`-th histogram, these agree in every
cell (they may differ in `context.value`). -/
theorem map_bins_example_irrelevant (exHist exHist' : Hist α (Value D) → Except (Exc ε) (Value D))
    (exArr exArr' : NArr (Value D) → Except (Exc ε) (Value D))
    (seqStart : Value D → Except ε (Trace (Value D) ε)) (sel : Value D → Bool) (drop : Bool)
    {h : Hist α (Value D)} (he : ValidEdges h.edges) (hs : NArr.HasShape (dimsOf h.edges.axes) h.bins)
    (ctx : Option Slots) (b b' : Value D) (hb : exHist h = .ok b) (hb' : exHist' h = .ok b')
    (hsel : sel b = true) (hsel' : sel b' = true) (j : Nat) (fv fv' : FVal α D)
    (hj : (mapBinsOneG names exHist exArr seqStart sel drop (.hist h ctx)).out[j]? = some fv)
    (hj' : (mapBinsOneG names exHist' exArr' seqStart sel drop (.hist h ctx)).out[j]? = some fv') :
    ∃ h1 c1 h2 c2, fv = .hist h1 (some c1) ∧ fv' = .hist h2 (some c2) ∧ h1.edges = h2.edges ∧
      ∀ p cell, cellAt h.bins p = some cell → cellAt h1.bins p = cellAt h2.bins p := by
  obtain ⟨h1, c1, hf1, he1, _, hc1⟩ := map_bins_shape_G names exHist exArr seqStart sel drop he hs ctx b hb hsel j fv hj
  obtain ⟨h2, c2, hf2, he2, _, hc2⟩ :=
    map_bins_shape_G names exHist' exArr' seqStart sel drop he hs ctx b' hb' hsel' j fv' hj'
  refine ⟨h1, c1, h2, c2, hf1, hf2, by rw [he1, he2], ?_⟩
  intro p cell hp
  obtain ⟨t1, r1, hst1, hr1, hcell1⟩ := hc1 p cell hp
  obtain ⟨t2, r2, hst2, hr2, hcell2⟩ := hc2 p cell hp
  rw [hst1] at hst2
  simp only [Except.ok.injEq] at hst2
  subst hst2
  rw [hr1] at hr2
  simp only [Option.some.injEq] at hr2
  subst hr2
  rw [hcell1, hcell2]

end Bins

mutual
/-- the bin a "last cell" `get_example_bin` returns is a cell of the array -/
theorem lastOfArray_is_cell : ∀ (a : NArr β) (b : β), (lastOfArray a : Except (Exc ε) β) = .ok b →
    ∃ p, cellAt a p = some b
  | .leaf v, b, h => by
    simp only [lastOfArray, Except.ok.injEq] at h
    exact ⟨[], by simp [cellAt, h]⟩
  | .node xs, b, h => by
    simp only [lastOfArray] at h
    obtain ⟨i, x, p, hx, hp⟩ := lastOfList_is_cell xs b h
    exact ⟨i :: p, by simp [cellAt, hx, hp]⟩
theorem lastOfList_is_cell : ∀ (xs : List (NArr β)) (b : β), (lastOfList xs : Except (Exc ε) β) = .ok b →
    ∃ (i : Nat) (x : NArr β) (p : List Nat), xs[i]? = some x ∧ cellAt x p = some b
  | [], b, h => by simp [lastOfList] at h
  | [x], b, h => by
    simp only [lastOfList] at h
    obtain ⟨p, hp⟩ := lastOfArray_is_cell x b h
    exact ⟨0, x, p, by simp, hp⟩
  | _ :: y :: r, b, h => by
    simp only [lastOfList] at h
    obtain ⟨i, x, p, hx, hp⟩ := lastOfList_is_cell (y :: r) b h
    exact ⟨i + 1, x, p, by simpa using hx, hp⟩
end

/-! ## non-vacuity -/
section Examples
open Lena.C14

/-- names of the example contexts -/
def exNames : List String := ["variable", "name", "value"]

/-- a histogram with two cells of different contexts: the first has `variable.name = "energy"`, the last none -/
def exHS : Hist Int (Value V) :=
  ⟨.flat [0, 1, 2], .node [.leaf (.pair (.int 5) [some (.dict [none, some (.str "energy"), none]), none, none]),
                          .leaf (.bare (.int 7))]⟩

example : containsV exNames ["variable", "name", "energy"]
    (.dict [some (.dict [none, some (.str "energy"), none]), none, none]) = true := by decide
example : containsV exNames ["variable", "name", "time"]
    (.dict [some (.dict [none, some (.str "energy"), none]), none, none]) = false := by decide
-- a string selects by the context of the first cell (MapBins) …
example : (SelForm.atom (.ctx ["variable", "name", "energy"]) : SelForm V).eval exNames
    (.pair (.int 5) [some (.dict [none, some (.str "energy"), none]), none, none]) = true := by decide
-- … and never by data alone (IterateBins)
example : (SelForm.atom (.ctx ["variable", "name", "energy"]) : SelForm V).evalData exNames (.int 5) = false := by decide
-- a list of a class and a function
example : (SelForm.any [.cls (fun v => match v with | V.int _ => true | _ => false), .fn (fun _ => false)] :
    SelForm V).eval exNames (.bare (.int 5)) = true := by decide
example : (SelForm.all ([] : List (SelAtom V))).eval exNames (.bare (.int 5)) = true := by decide
example : (SelForm.any ([] : List (SelAtom V))).eval exNames (.bare (.int 5)) = false := by decide
-- the default example bin is the first cell, a caller's may be the last
example : (exampleBin exHS : Except (Exc Unit) (Value V)) =
    .ok (.pair (.int 5) [some (.dict [none, some (.str "energy"), none]), none, none]) := by rfl
example : (lastOfArray exHS.bins : Except (Exc Unit) (Value V)) = .ok (.bare (.int 7)) := by rfl
-- `select_bins="variable.name.energy"`: selected through the first cell, not through the last one
example : ((mapBinsOneG exNames (fun h => lastOfArray h.bins) lastOfArray
    (fun c => (.ok ⟨[c, c], none⟩ : Except Unit (Trace (Value V) Unit)))
    ((SelForm.atom (.ctx ["variable", "name", "energy"]) : SelForm V).eval exNames) true (.hist exHS none)).out.length,
   (mapBinsOneG exNames exampleBin exampleOfArray
    (fun c => (.ok ⟨[c, c], none⟩ : Except Unit (Trace (Value V) Unit)))
    ((SelForm.atom (.ctx ["variable", "name", "energy"]) : SelForm V).eval exNames) true (.hist exHS none)).out.length)
    = (1, 2) := by rfl

end Examples

end Lena.C11
